/-
C13 — headline theorem.

Property C13, `statement` (verbatim):
  "With CRC enabled, a read returns success only if the received CRC matches the received data,
  so any corruption that the CRC-16 can detect yields an error; a data block the card does not
  acknowledge as accepted, a single-block write the card's status reports as failed, an
  unexpected token, or an SPI bus error yields an error in either CRC mode. Whatever the card
  does - including answering nothing, staying busy forever, or dying at any byte - every driver
  call returns within a fixed bound on SPI traffic, a failed initialisation leaves the card
  marked uninitialised, and once the card responds again and has been marked uninitialised it can
  be initialised and used again."
`quantifier.text` (verbatim):
  "every single-bit flip in every position of a data block and its CRC, bursts up to 16 bits,
  every byte position at which the card stops responding, becomes busy forever or returns
  garbage, every rejected-write status, for all card kinds and at every stage of initialisation
  and transfer"

`C13_main B` is ONE statement for every bus `B : BusOps σ` — every card kind, and every
misbehaviour of the other side: whatever `B.xfer` returns at whatever transaction (nothing,
busy forever, garbage, an SPI error) — the record `Clauses B`, one field per clause of the
sentence, in its order; every field is quantified over every driver state (every stage of
initialisation and transfer, both CRC modes).

How to read it.  Model `Model/Sd.lean`.  `recBus B` (`Props/C13.lean`) is `B` with a recorder of
all transactions attached (`recBus_xfer`: it behaves as `B`); `spiFailures` counts the failed
ones.  `traffic` = bytes put on the bus; `callBound`/`callDelayBound` (`Props/C13.lean`) are
closed expressions in the retry budgets regenerated from the source (`Gen/Consts.lean`);
`sessionBound` is their sum over the calls.  `xorMsg`/`errPattern` (`Spec/Poly.lean`): a burst of
the given bits at bit offset `off` of the 514-byte frame.  `Funs.crc16` is the CRC function
REGENERATED FROM THE SOURCE (`C19Gen.crc16_eq`).  The conforming card is `Spec.Card` driven
through `cardBus` (`Props/C12.lean`); `Quiescent`, `typeOfKind` — `Props/C12EndToEnd.lean`.

Standing hypotheses (only in the last field, `recovers_conforming`):
* conforming card = `Spec.Card`, `Quiescent` ("the card responds again": nothing in flight) —
  discharged on `Spec.Card.mk …` by `rfl` (example below);
* legal card timing: `ncr`, `initPolls ≤ DEFAULT_COMMAND_RETRIES`, `nac ≤ DEFAULT_READ_RETRIES`;
* the block read back exists and is addressable for the card's kind, and the card's memory
  holds 512 bytes there (`getBlock` of a never-written block is 512 zero bytes).
Every other field has NO hypothesis about the card.

Full / partial: FULL, with these readings:
* "a read returns success only if …" is stated for `read_data` (through which every block of
  every read passes) and, lifted to the public function, for the single-block `read`
  (`read_checks_crc`); for a multi-block read the same holds of each `read_data` of its loop, but
  the statement is not lifted through the loop (CMD12's transactions follow in the transcript).
* "SPI bus error yields an error": every public call except `get_card_type`, which has no error
  channel in the source (`check_init().ok()?`) — it answers "none" (`C13.cardType_call_total`).
  The exact code is `Transport` except in the three cases listed at
  `C13.spi_error_is_transport_partial`; an error it always is.
* "never hangs" is termination of the model's functions (structural recursion on the retry budget
  of the source) plus the explicit bound.
-/
import Sdmmc.Lemmas.MainK13
import Sdmmc.Props.C19Gen

namespace Sdmmc.Props.C13Main
open Sdmmc.Model Sdmmc.Model.Sd Sdmmc.Gen Sdmmc.Spec Sdmmc.Spec.SdSession Sdmmc.Props.C13
open Sdmmc.Spec.Card (Card Kind getBlock)
open Sdmmc.Props.C12 (cardBus)
open Sdmmc.Props.C12EndToEnd (Quiescent typeOfKind)
open Sdmmc.Lemmas.MainK13 (sessionBound sessionDelayBound)

variable {σ : Type}

theorem sessionBound_def (cs : List Call) (r : Nat) :
    sessionBound cs r = (cs.map fun c => callBound c r).sum := rfl
theorem sessionDelayBound_def (cs : List Call) (r : Nat) :
    sessionDelayBound cs r = (cs.map fun c => callDelayBound c r).sum := rfl

/-- The last two transactions were the payload transaction, answered `buf`, and the two-byte CRC
transaction, answered `crcBytes`; with CRC on these are the big-endian `crc16` of `buf`. -/
def CrcMatched (useCrc : Bool) (len : Nat) (buf : Bytes) (t : Transcript) : Prop :=
  ∃ crcBytes t', t = (List.replicate 2 0xFF, some crcBytes) :: (List.replicate len 0xFF, some buf) :: t' ∧
    (useCrc = true → (crcBytes.getD 0 0).toNat * 256 + (crcBytes.getD 1 0).toNat = Funs.crc16 buf)

structure Clauses (B : BusOps σ) : Prop where
  /-- with CRC enabled, `read_data` returns success only if the received CRC matches the received data -/
  read_data_checks_crc : ∀ len (s s' : St (σ × Transcript)) buf,
    readData (recBus B) len s = (.ok buf, s') → CrcMatched s.useCrc len buf s'.bus.2
  /-- … and so does the single-block `read` -/
  read_checks_crc : ∀ idx (s s' : St (σ × Transcript)) bs,
    Sd.read (recBus B) 1 idx s = (.ok bs, s') → ∃ b, bs = [b] ∧ CrcMatched s.useCrc 512 b s'.bus.2
  /-- any corruption the CRC-16 can detect (a burst of at most 16 bits anywhere in the 514 bytes
  of a block and its CRC, single-bit flips included) yields an error -/
  corruption_detected : ∀ (s s' : St (σ × Transcript)), s.useCrc = true →
    ∀ (m : List (BitVec 8)), m.length = 512 → ∀ (off : Nat) (bits : List Bool), bits ≠ [] →
    bits.length ≤ 16 → bits.head? = some true → off + bits.length ≤ 4112 →
    ∀ (buf crcBytes : Bytes), crcBytes.length = 2 →
    (buf ++ crcBytes).map toBV =
      xorMsg (m ++ [(crc16 m).extractLsb' 8 8, (crc16 m).extractLsb' 0 8]) (errPattern 514 off bits) →
    ∀ (t : Transcript),
    s'.bus.2 = (List.replicate 2 0xFF, some crcBytes) :: (List.replicate 512 0xFF, some buf) :: t →
    ∀ (r : SRes Bytes), readData (recBus B) 512 s = (r, s') → ∀ b, r ≠ .ok b
  /-- a data block the card does not acknowledge as accepted is an error, in either CRC mode -/
  unacknowledged_block : ∀ tok buf (s : St σ) st,
    (writeData B tok buf s).2.events.head? = some (.poll st) → st % 32 ≠ 5 →
    (writeData B tok buf s).1 = .err (if st = 256 then .Transport else .WriteError)
  /-- a single-block write the card's status reports as failed is an error -/
  failed_status : ∀ b idx start (s s1 : St σ), startIdx s.cardType idx = .ok start →
    writeSingleData B b start s = (.ok (), s1) → ∀ r s2, cardCommand B CMD13 0 s1 = (.ok r, s2) →
    (r ≠ 0 → write B [b] idx s = (.err .WriteError, s2)) ∧
    (r = 0 → ∀ r2 s3, readByte B s2 = (.ok r2, s3) → r2 ≠ 0 → write B [b] idx s = (.err .WriteError, s3))
  /-- an unexpected token is an error -/
  unexpected_token : ∀ len (s : St σ) g, (readData B len s).2.events.head? = some (.poll g) →
    g < 255 → g ≠ 254 → (readData B len s).1 = .err .ReadError
  /-- an SPI bus error yields an error -/
  spi_error : ∀ c, c ≠ Call.cardType → ∀ (s : St (σ × Transcript)),
    spiFailures s.bus.2 < spiFailures (call (recBus B) c s).2.bus.2 → ∃ e, (call (recBus B) c s).1 = .err e
  /-- every driver call returns within a fixed bound on SPI traffic (and on `delay_us` calls) -/
  call_bounded : ∀ c (s : St σ),
    traffic (call B c s).2 ≤ traffic s + callBound c s.acquireRetries ∧
    (call B c s).2.delays ≤ s.delays + callDelayBound c s.acquireRetries
  /-- … and so does every session -/
  session_bounded : ∀ cs (s : St σ),
    traffic (runCalls B cs s) ≤ traffic s + sessionBound cs s.acquireRetries ∧
    (runCalls B cs s).delays ≤ s.delays + sessionDelayBound cs s.acquireRetries
  /-- a failed initialisation leaves the card marked uninitialised: `acquire` itself … -/
  failed_init : ∀ (s s' : St σ) e, acquire B s = (.err e, s') → s'.cardType = none
  /-- … and the public call that ran it -/
  failed_init_call : ∀ c (s : St σ), s.cardType = none → c ≠ Call.markUninit →
    ∀ e, (acquire B s).1 = .err e → (call B c s).2.cardType = none
  /-- once marked uninitialised, the next call starts with a complete `acquire`, and carries on
  exactly if that succeeds -/
  reinit : ∀ (s : St σ),
    let s0 := (call B .markUninit s).2
    s0.cardType = none ∧ s0.bus = s.bus ∧ checkInit B s0 = acquire B s0 ∧
    ((acquire B s0).1 = .ok () → (acquire B s0).2.cardType.isSome)

/-- … and it can be used again: on the conforming card, whatever the driver state (after whatever
errors), once the card responds again and the driver has been marked uninitialised, the next
`read` identifies the card correctly and returns the stored block. -/
def RecoversConforming : Prop :=
  ∀ (s : St Card), Quiescent s.bus → s.bus.ncr ≤ DEFAULT_COMMAND_RETRIES →
    s.bus.initPolls ≤ DEFAULT_COMMAND_RETRIES → s.bus.nac ≤ DEFAULT_READ_RETRIES →
    ∀ idx, idx < s.bus.capacity →
    ((s.bus.kind = .SDHC ∧ idx < 4294967296) ∨ (s.bus.kind ≠ .SDHC ∧ idx < 8388608)) →
    (getBlock s.bus idx).length = 512 →
    ∃ s', call cardBus (.read 1 idx) (call cardBus .markUninit s).2 = (.ok (.blocks [getBlock s.bus idx]), s') ∧
      s'.cardType = some (typeOfKind s.bus.kind) ∧ s'.bus.mem = s.bus.mem ∧
      s'.bus.violations = s.bus.violations

theorem crcMatched_of {B : BusOps σ} (len : Nat) (s s' : St (σ × Transcript)) (buf : Bytes)
    (h : readData (recBus B) len s = (.ok buf, s')) : CrcMatched s.useCrc len buf s'.bus.2 := by
  obtain ⟨crcBytes, t, h1, h2⟩ := read_ok_implies_crc B len s s' buf h
  have hg : crc16Nat buf = Funs.crc16 buf := (C19Gen.crc16_eq buf).symm
  exact ⟨crcBytes, t, h1, fun hu => by rw [← hg]; exact h2 hu⟩

theorem C13_main (B : BusOps σ) : Clauses B ∧ RecoversConforming := by
  refine ⟨?_, ?_⟩
  · exact
    { read_data_checks_crc := fun len s s' buf h => crcMatched_of len s s' buf h
      read_checks_crc := fun idx s s' bs h => by
        obtain ⟨start, r1, s1, b, _, hc, hr, rfl⟩ := Lemmas.MainK13.read1_ok_inv (recBus B) idx s s' bs h
        have hu : s1.useCrc = s.useCrc := by
          obtain ⟨_, _, hu, _⟩ := Lemmas.Sd.cardCommand_tr (recBus B) CMD17 start s
          rw [hc] at hu; exact hu
        exact ⟨b, rfl, hu ▸ crcMatched_of 512 s1 s' b hr⟩
      corruption_detected := fun s s' hcrc m hm off bits hne hlen hfirst hfit buf crcBytes hc hrx t htr r h =>
        C13.corruption_detected B s s' hcrc m hm off bits hne hlen hfirst hfit buf crcBytes hc hrx t htr r h
      unacknowledged_block := fun tok buf s st h hst => unacknowledged_write_is_error B tok buf s st h hst
      failed_status := fun b idx start s s1 hstart hpre r s2 h13 =>
        failed_status_is_error B b idx start s s1 hstart hpre r s2 h13
      unexpected_token := fun len s g h hg hne => (unexpected_token_is_error B len s g h hg hne).1
      spi_error := fun c hc s h => spi_error_is_error B c hc s h
      call_bounded := fun c s => call_traffic_bound B c s
      session_bounded := fun cs s => Lemmas.MainK13.session_traffic_bound B cs s
      failed_init := fun s s' e h => failed_init_leaves_uninit B s s' e h
      failed_init_call := fun c s hs hc e he => (Lemmas.MainK13.call_failed_init B c s hs hc e he).1
      reinit := fun s => reinit_after_mark_uninit B s }
  · exact fun s hq hncr hpolls hnac idx hidx hadr hlen =>
      Lemmas.MainK13.reinit_and_read s hq hncr hpolls hnac idx hidx hadr hlen

namespace Example

/-- The clauses on the replay bus of `Props/C13.lean` (whose evaluated examples show the
premises occurring: a rejected block, an SPI error, a recovery). -/
example : Clauses replayBus := (C13_main replayBus).1

/-- Recovery on a conforming high-capacity card (4096 blocks) whose driver wrongly believes it to
be an SD1 card: after `mark_card_uninit` the next read identifies it as SDHC and returns block 7. -/
example : ∃ s', call cardBus (.read 1 7)
      (call cardBus .markUninit { bus := Spec.Card.mk .SDHC (Spec.Card.csdV2 3) 1 1 1 1, cardType := some .SD1 }).2 =
        (.ok (.blocks [Spec.Card.zeros512]), s') ∧ s'.cardType = some .SDHC := by
  obtain ⟨s', h, hct, _⟩ := (C13_main replayBus).2
    { bus := Spec.Card.mk .SDHC (Spec.Card.csdV2 3) 1 1 1 1, cardType := some .SD1 }
    ⟨rfl, rfl, rfl, rfl, rfl⟩ (by decide) (by decide) (by decide) 7 (by decide) (Or.inl ⟨rfl, by decide⟩)
    (C12EndToEnd.demo_getBlock _ rfl 7)
  refine ⟨s', ?_, hct⟩
  rw [h]
  rfl

example : callBound (.read 1 0) 50 = 601494051 := by decide

end Example

end Sdmmc.Props.C13Main
