/-
Model of the CSD register accessors and capacity formulas in
/repo/src/sdcard/proto.rs (`CsdV1`, `CsdV2`, `define_field!` / `access_field!`).
The bit-field tables are generated from the source.
-/
import Sdmmc.Model.Prim
import Sdmmc.Gen.Fields

namespace Sdmmc.Model
namespace Csd

open Sdmmc.Gen

/-- `access_field!(self, offset, start, num_bits)`: `(data[offset] >> start) & ((1 << n) - 1)`. -/
def accessField (data : Bytes) (offset start nbits : Nat) : Nat :=
  byteAt data offset / 2 ^ start % 2 ^ nbits

/-- A (possibly multi-part) `define_field!` accessor: parts are concatenated, most
significant first (`result <<= n; result |= part`). -/
def field (parts : FieldParts) (data : Bytes) : Nat :=
  parts.foldl (fun acc (p : Nat × Nat × Nat) => acc * 2 ^ p.2.2 + accessField data p.1 p.2.1 p.2.2) 0

def v1CsdVer (d : Bytes) : Nat := field csdV1_csd_ver d
def v1DeviceSize (d : Bytes) : Nat := field csdV1_device_size d
def v1DeviceSizeMultiplier (d : Bytes) : Nat := field csdV1_device_size_multiplier d
def v1ReadBlockLength (d : Bytes) : Nat := field csdV1_read_block_length d
def v2CsdVer (d : Bytes) : Nat := field csdV2_csd_ver d
def v2DeviceSize (d : Bytes) : Nat := field csdV2_device_size d

/-- `CsdV1::card_capacity_bytes` (u64; the shift amount is at most 24, no overflow). -/
def v1CapacityBytes (d : Bytes) : Nat :=
  (v1DeviceSize d + 1) * 2 ^ (v1DeviceSizeMultiplier d + v1ReadBlockLength d + 2)

/-- `CsdV1::card_capacity_blocks`: `(card_capacity_bytes() >> 9) as u32`. -/
def v1CapacityBlocks (d : Bytes) : Nat := v1CapacityBytes d / 512 % 4294967296

/-- `CsdV2::card_capacity_bytes`. -/
def v2CapacityBytes (d : Bytes) : Nat := (v2DeviceSize d + 1) * 512 * 1024

/-- `CsdV2::card_capacity_blocks`: `(device_size + 1).saturating_mul(1024)`. -/
def v2CapacityBlocks (d : Bytes) : Nat := min ((v2DeviceSize d + 1) * 1024) U32_MAX

end Csd
end Sdmmc.Model
