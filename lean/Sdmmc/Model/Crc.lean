/-
Model of `crc7` and `crc16` from /repo/src/sdcard/proto.rs.

Rust (for reference, the code being modelled):

    pub fn crc7(data: &[u8]) -> u8 {
        let mut crc = 0u8;
        for mut d in data.iter().cloned() {
            for _bit in 0..8 {
                crc <<= 1;
                if ((d & 0x80) ^ (crc & 0x80)) != 0 { crc ^= 0x09; }
                d <<= 1;
            }
        }
        (crc << 1) | 1
    }

    pub fn crc16(data: &[u8]) -> u16 {
        let mut crc = 0u16;
        for &byte in data {
            crc = ((crc >> 8) & 0xFF) | (crc << 8);
            crc ^= u16::from(byte);
            crc ^= (crc & 0xFF) >> 4;
            crc ^= crc << 12;
            crc ^= (crc & 0xFF) << 5;
        }
        crc
    }

The numeric literals (`0x09`, shift amounts, masks) are regenerated from the
source on every run into `Sdmmc.Gen.CrcConsts` by tools/extract.py, so an
edited literal changes this model and re-opens the proofs.
-/
import Sdmmc.Gen.CrcConsts

namespace Sdmmc.Model

open Sdmmc.Gen

/-- One iteration of the inner `for _bit in 0..8` loop of `crc7`. -/
def crc7BitStep (st : BitVec 8 × BitVec 8) : BitVec 8 × BitVec 8 :=
  let crc := st.1 <<< 1
  let d := st.2
  let crc := if ((d &&& 0x80#8) ^^^ (crc &&& 0x80#8)) != 0#8 then crc ^^^ BitVec.ofNat 8 crc7Poly else crc
  (crc, d <<< 1)

/-- The body of the outer loop of `crc7`: eight bit steps on one byte. -/
def crc7ByteStep (crc : BitVec 8) (d : BitVec 8) : BitVec 8 :=
  (crc7BitStep (crc7BitStep (crc7BitStep (crc7BitStep
    (crc7BitStep (crc7BitStep (crc7BitStep (crc7BitStep (crc, d))))))))).1

def crc7Raw (data : List (BitVec 8)) : BitVec 8 := data.foldl crc7ByteStep 0#8

/-- `crc7`. -/
def crc7 (data : List (BitVec 8)) : BitVec 8 := (crc7Raw data <<< 1) ||| 1#8

/-- The loop body of `crc16`. -/
def crc16Step (crc : BitVec 16) (byte : BitVec 8) : BitVec 16 :=
  let crc := ((crc >>> 8) &&& 0xFF#16) ||| (crc <<< 8)
  let crc := crc ^^^ byte.setWidth 16
  let crc := crc ^^^ ((crc &&& 0xFF#16) >>> crc16ShrA)
  let crc := crc ^^^ (crc <<< crc16ShlB)
  crc ^^^ ((crc &&& 0xFF#16) <<< crc16ShlC)

/-- `crc16`. -/
def crc16 (data : List (BitVec 8)) : BitVec 16 := data.foldl crc16Step 0#16

end Sdmmc.Model
