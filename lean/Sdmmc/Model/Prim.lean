/-
Primitive vocabulary of the model: outcomes, error variants, checked `u32`/`u8`
arithmetic (dev-profile semantics: overflow panics), little-endian byte codecs
(`byteorder::LittleEndian`), hex helpers for the line protocol.

Bytes are stored as `UInt8`, all arithmetic is done in `Nat` (with the Rust
width applied explicitly), byte sequences are `List UInt8`.
-/
namespace Sdmmc.Model

/-- `FilenameError` of the crate. -/
inductive FnErr | InvalidCharacter | FilenameEmpty | NameTooLong | MisplacedPeriod | Utf8Error
  deriving DecidableEq, Repr, Inhabited

/-- `Error<E>` of the crate (payloads kept only where a property depends on them). -/
inductive Err
  | DeviceError | FormatError (msg : String) | NoSuchVolume | FilenameError (e : FnErr)
  | TooManyOpenVolumes | TooManyOpenDirs | TooManyOpenFiles | BadHandle | NotFound
  | FileAlreadyOpen | DirAlreadyOpen | OpenedDirAsFile | OpenedFileAsDir | DeleteDirAsFile
  | VolumeStillInUse | VolumeAlreadyOpen | Unsupported | EndOfFile | BadCluster
  | ConversionError | NotEnoughSpace | AllocationError | UnterminatedFatChain | ReadOnly
  | FileAlreadyExists | BadBlockSize (n : Nat) | InvalidOffset | DiskFull | DirAlreadyExists
  | LockError
  deriving DecidableEq, Repr, Inhabited

/-- Outcome of a modelled call: `panic` covers `unwrap`/`expect`/`assert!`/index out of
range/arithmetic overflow in a dev-profile build; `diverged` is the distinguished
outcome of a FAT-chain walk that ran out of fuel (the Rust loops forever). -/
inductive Res (α : Type) where
  | ok (a : α) | err (e : Err) | panic (msg : String) | diverged
  deriving Repr, Inhabited

namespace Res
@[inline] def bind {α β} (r : Res α) (f : α → Res β) : Res β :=
  match r with
  | ok a => f a
  | err e => err e
  | panic m => panic m
  | diverged => diverged
instance : Monad Res where
  pure := Res.ok
  bind := Res.bind
@[simp] theorem bind_ok {α β} (a : α) (f : α → Res β) : (Res.ok a >>= f) = f a := rfl
@[simp] theorem bind_err {α β} (e : Err) (f : α → Res β) : ((Res.err e : Res α) >>= f) = Res.err e := rfl
@[simp] theorem bind_panic {α β} (m : String) (f : α → Res β) : ((Res.panic m : Res α) >>= f) = Res.panic m := rfl
@[simp] theorem bind_diverged {α β} (f : α → Res β) : ((Res.diverged : Res α) >>= f) = Res.diverged := rfl
@[simp] theorem pure_eq {α} (a : α) : (pure a : Res α) = Res.ok a := rfl
def isOk {α} : Res α → Bool | ok _ => true | _ => false
def isErr {α} : Res α → Bool | err _ => true | _ => false
def isPanic {α} : Res α → Bool | panic _ => true | _ => false
end Res

def U8_MAX : Nat := 255
def U16_MAX : Nat := 65535
def U32_MAX : Nat := 4294967295

/-- `a + b` on `u32` in a build with overflow checks. -/
def addU32 (a b : Nat) : Res Nat := if a + b ≤ U32_MAX then .ok (a + b) else .panic "attempt to add with overflow"
/-- `a - b` on `u32`. -/
def subU32 (a b : Nat) : Res Nat := if b ≤ a then .ok (a - b) else .panic "attempt to subtract with overflow"
/-- `a * b` on `u32`. -/
def mulU32 (a b : Nat) : Res Nat := if a * b ≤ U32_MAX then .ok (a * b) else .panic "attempt to multiply with overflow"
/-- `a / b` on `u32`. -/
def divU32 (a b : Nat) : Res Nat := if b = 0 then .panic "attempt to divide by zero" else .ok (a / b)

/-! ### Bytes -/

abbrev Bytes := List UInt8

/-- `b[i]` with 0 outside (only used where the index is in range by construction). -/
@[inline] def byteAt (b : Bytes) (i : Nat) : Nat := (b.getD i 0).toNat

/-- `LittleEndian::read_u16(&b[off..off+2])`. -/
def readU16 (b : Bytes) (off : Nat) : Nat := byteAt b off + 256 * byteAt b (off + 1)
/-- `LittleEndian::read_u32(&b[off..off+4])`. -/
def readU32 (b : Bytes) (off : Nat) : Nat :=
  byteAt b off + 256 * byteAt b (off + 1) + 65536 * byteAt b (off + 2) + 16777216 * byteAt b (off + 3)

/-- `v.to_le_bytes()` for `u16`. -/
def leU16 (v : Nat) : Bytes := [UInt8.ofNat (v % 256), UInt8.ofNat (v / 256 % 256)]
/-- `v.to_le_bytes()` for `u32`. -/
def leU32 (v : Nat) : Bytes :=
  [UInt8.ofNat (v % 256), UInt8.ofNat (v / 256 % 256), UInt8.ofNat (v / 65536 % 256), UInt8.ofNat (v / 16777216 % 256)]

/-- `b[off..off+src.len()].copy_from_slice(src)` (in range by construction). -/
def splice (b : Bytes) (off : Nat) (src : Bytes) : Bytes :=
  b.take off ++ src ++ b.drop (off + src.length)

/-- `&b[off..off+n]`. -/
def slice (b : Bytes) (off n : Nat) : Bytes := (b.drop off).take n

def zeros (n : Nat) : Bytes := List.replicate n 0

/-! ### Hex (line protocol) -/

def hexDigit (n : Nat) : Char :=
  if n < 10 then Char.ofNat (48 + n) else Char.ofNat (87 + n)

def hexOfByte (b : UInt8) : String :=
  String.ofList [hexDigit (b.toNat / 16), hexDigit (b.toNat % 16)]

def hexOfBytes (bs : Bytes) : String :=
  String.ofList (bs.flatMap fun b => [hexDigit (b.toNat / 16), hexDigit (b.toNat % 16)])

def hexVal (c : Char) : Option Nat :=
  if '0' ≤ c ∧ c ≤ '9' then some (c.toNat - 48)
  else if 'a' ≤ c ∧ c ≤ 'f' then some (c.toNat - 87)
  else if 'A' ≤ c ∧ c ≤ 'F' then some (c.toNat - 55)
  else none

def bytesOfHexChars : List Char → Option Bytes
  | [] => some []
  | [_] => none
  | a :: b :: rest =>
    match hexVal a, hexVal b, bytesOfHexChars rest with
    | some x, some y, some r => some (UInt8.ofNat (x * 16 + y) :: r)
    | _, _, _ => none

/-- Parse lower/upper-case hex; `-` denotes the empty string. -/
def bytesOfHex (s : String) : Option Bytes :=
  if s = "-" then some [] else bytesOfHexChars s.toList

/-- FNV-1a 64-bit digest of a byte string (used to compare payloads cheaply). -/
def fnv64 (bs : Bytes) : Nat :=
  bs.foldl (fun h b => ((h ^^^ b.toNat) * 1099511628211) % 18446744073709551616) 14695981039346656037

end Sdmmc.Model
