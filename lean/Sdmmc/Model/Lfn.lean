/-
Model of `LfnBuffer` (/repo/src/filesystem/filename.rs) and of the two `core`
functions it relies on: `char::decode_utf16` and `char::encode_utf8` (modelled from
the standard library's documented behaviour; tied by exhaustive correspondence).

UTF-16 code units are `Nat` (< 2^16), scalar values are `Nat`.
-/
import Sdmmc.Model.Prim
import Sdmmc.Gen.Consts

namespace Sdmmc.Model
namespace Lfn

def isHigh (u : Nat) : Bool := 0xD800 ≤ u && u ≤ 0xDBFF
def isLow (u : Nat) : Bool := 0xDC00 ≤ u && u ≤ 0xDFFF
def isSurrogate (u : Nat) : Bool := 0xD800 ≤ u && u ≤ 0xDFFF

/-- One item of `char::decode_utf16`: a scalar value or an unpaired surrogate. -/
inductive Item | ch (c : Nat) | unpaired (u : Nat)
  deriving DecidableEq, Repr

/-- `char::decode_utf16(units).collect()`. -/
def decodeUtf16 : List Nat → List Item
  | [] => []
  | u :: rest =>
    if !isSurrogate u then .ch u :: decodeUtf16 rest
    else if isLow u then .unpaired u :: decodeUtf16 rest
    else match rest with
      | [] => [.unpaired u]
      | u2 :: rest2 =>
        if isLow u2 then .ch (0x10000 + (u - 0xD800) * 0x400 + (u2 - 0xDC00)) :: decodeUtf16 rest2
        else .unpaired u :: decodeUtf16 (u2 :: rest2)
termination_by l => l.length

/-- `char::encode_utf8`. -/
def encodeUtf8 (c : Nat) : Bytes :=
  if c < 0x80 then [UInt8.ofNat c]
  else if c < 0x800 then [UInt8.ofNat (0xC0 + c / 64), UInt8.ofNat (0x80 + c % 64)]
  else if c < 0x10000 then
    [UInt8.ofNat (0xE0 + c / 4096), UInt8.ofNat (0x80 + c / 64 % 64), UInt8.ofNat (0x80 + c % 64)]
  else
    [UInt8.ofNat (0xF0 + c / 262144), UInt8.ofNat (0x80 + c / 4096 % 64),
     UInt8.ofNat (0x80 + c / 64 % 64), UInt8.ofNat (0x80 + c % 64)]

/-- `LfnBuffer`: `inner` is the caller's storage, filled from the back. -/
structure Buf where
  inner : Bytes
  free : Nat
  overflow : Bool
  unpaired : Option Nat
  deriving Repr

/-- `LfnBuffer::new(storage)`. -/
def new (storage : Bytes) : Buf :=
  { inner := storage, free := storage.length, overflow := false, unpaired := none }

/-- `LfnBuffer::clear`. -/
def clear (b : Buf) : Buf :=
  { b with free := b.inner.length, overflow := false, unpaired := none }

/-- Capacity of the scratch `heapless::Vec<char, N>` in `push`. -/
def CHAR_VEC_CAP : Nat := Gen.LFN_CHAR_VEC_CAP

/-- The decode loop of `push`: returns the collected chars (in order) and the saved
surrogate, or `none` when `char_vec.push(..).expect(..)` would panic. -/
def collect : List Item → (isFirst : Bool) → (acc : List Nat) → (saved : Option Nat) → Option (List Nat × Option Nat)
  | [], _, acc, saved => some (acc, saved)
  | .ch c :: rest, _, acc, saved =>
    if acc.length < CHAR_VEC_CAP then collect rest false (acc ++ [c]) saved else none
  | .unpaired u :: rest, isFirst, acc, saved =>
    if isFirst then collect rest false acc (some u)
    else if acc.length < CHAR_VEC_CAP then collect rest false (acc ++ [0xFFFD]) saved else none

/-- The store loop of `push`, over the chars in reverse order. -/
def store : Buf → List Nat → Buf
  | b, [] => b
  | b, c :: rest =>
    let enc := encodeUtf8 c
    if b.free < enc.length then { b with overflow := true }
    else store { b with free := b.free - enc.length, inner := splice b.inner (b.free - enc.length) enc } rest

/-- `LfnBuffer::push(&[u16; 13])`. -/
def push (b : Buf) (frag : List Nat) : Res Buf :=
  let units := frag.takeWhile (· ≠ 0)
  let items := decodeUtf16 (units ++ b.unpaired.toList)
  match collect items true [] none with
  | none => .panic "Vec was full!?"
  | some (chars, saved) => .ok (store { b with unpaired := saved } chars.reverse)

/-- `LfnBuffer::as_str` (the bytes handed to `from_utf8_unchecked`). -/
def asStr (b : Buf) : Bytes := if b.overflow then [] else b.inner.drop b.free

end Lfn
end Sdmmc.Model
