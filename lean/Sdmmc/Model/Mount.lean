/-
Model of mounting: the MBR parse in `VolumeManager::open_raw_volume`
(/repo/src/volume_mgr.rs), `Bpb::create_from_bytes` (/repo/src/fat/bpb.rs),
`InfoSector` (/repo/src/fat/info.rs) and `parse_volume` (/repo/src/fat/volume.rs).

All arithmetic on untrusted fields is written with the checked `u32` operations of
`Prim` exactly where the Rust uses an unchecked operator (outcome `panic` on overflow /
underflow / division by zero, as in a dev-profile build), and with explicit error
returns exactly where the Rust uses `checked_*`.  `Props/C15.lean` proves that the
`panic` outcome is unreachable for arbitrary sector contents.
-/
import Sdmmc.Model.DirEntry

namespace Sdmmc.Model

open Sdmmc.Gen

/-- `FatVolume` (+ `FatSpecificInfo` flattened). Block numbers are relative to `lbaStart`
unless stated otherwise. -/
structure FatVolume where
  lbaStart : Nat
  numBlocks : Nat
  name : Bytes
  blocksPerCluster : Nat
  firstDataBlock : Nat
  fatStart : Nat
  secondFatStart : Option Nat
  freeClustersCount : Option Nat
  nextFreeCluster : Option Nat
  clusterCount : Nat
  fatType : FatType
  /-- FAT16: number of root entries. -/
  rootEntriesCount : Nat
  /-- FAT16: first block of the fixed root directory (relative). -/
  firstRootDirBlock : Nat
  /-- FAT32: info sector, **absolute** block index. -/
  infoLocation : Nat
  /-- FAT32: first cluster of the root directory. -/
  firstRootDirCluster : Nat
  deriving Repr, Inhabited, DecidableEq

/-- `BlockCount::from_bytes`. -/
def blockCountFromBytes (byteCount : Nat) : Nat :=
  let count := byteCount / BLOCK_LEN_U32
  if count * BLOCK_LEN_U32 ≠ byteCount then count + 1 else count

namespace Bpb

def bytesPerBlock (d : Bytes) : Nat := fieldLE bpb_bytes_per_block d
def blocksPerCluster (d : Bytes) : Nat := fieldLE bpb_blocks_per_cluster d
def reservedBlockCount (d : Bytes) : Nat := fieldLE bpb_reserved_block_count d
def numFats (d : Bytes) : Nat := fieldLE bpb_num_fats d
def rootEntriesCount (d : Bytes) : Nat := fieldLE bpb_root_entries_count d
def totalBlocks16 (d : Bytes) : Nat := fieldLE bpb_total_blocks16 d
def fatSize16 (d : Bytes) : Nat := fieldLE bpb_fat_size16 d
def totalBlocks32 (d : Bytes) : Nat := fieldLE bpb_total_blocks32 d
def footer (d : Bytes) : Nat := fieldLE bpb_footer d
def fatSize32 (d : Bytes) : Nat := fieldLE bpb_fat_size32 d
def fsVer (d : Bytes) : Nat := fieldLE bpb_fs_ver d
def firstRootDirCluster (d : Bytes) : Nat := fieldLE bpb_first_root_dir_cluster d
def fsInfo (d : Bytes) : Nat := fieldLE bpb_fs_info d

/-- `fat_size()`. -/
def fatSize (d : Bytes) : Nat := if fatSize16 d ≠ 0 then fatSize16 d else fatSize32 d
/-- `total_blocks()`. -/
def totalBlocks (d : Bytes) : Nat := if totalBlocks16 d ≠ 0 then totalBlocks16 d else totalBlocks32 d

/-- `volume_label()`. -/
def volumeLabel (ft : FatType) (d : Bytes) : Bytes :=
  match ft with
  | .fat16 => slice d 43 11
  | .fat32 => slice d 71 11

/-- `Bpb::create_from_bytes`: the FAT type and the cluster count, or the error string. -/
def createFromBytes (d : Bytes) : Res (FatType × Nat) :=
  if footer d ≠ BPB_FOOTER_VALUE then .err (.FormatError "Bad BPB footer") else
  -- `u32::from(root_entries_count) * 32` cannot overflow (65535 * 32)
  let rootDirBlocks := blockCountFromBytes (rootEntriesCount d * DIRENT_LEN)
  -- checked_mul / checked_add / checked_add
  if numFats d * fatSize d > U32_MAX then .err (.FormatError "BPB layout too large") else
  if numFats d * fatSize d + reservedBlockCount d > U32_MAX then .err (.FormatError "BPB layout too large") else
  if numFats d * fatSize d + reservedBlockCount d + rootDirBlocks > U32_MAX then .err (.FormatError "BPB layout too large") else
  let nonDataBlocks := numFats d * fatSize d + reservedBlockCount d + rootDirBlocks
  -- checked_sub
  if totalBlocks d < nonDataBlocks then .err (.FormatError "BPB total blocks too small") else
  let dataBlocks := totalBlocks d - nonDataBlocks
  -- checked_div
  if blocksPerCluster d = 0 then .err (.FormatError "BPB blocks per cluster is zero") else
  let clusterCount := dataBlocks / blocksPerCluster d
  if clusterCount < FAT12_LIMIT then .err (.FormatError "FAT12 is unsupported")
  else if clusterCount < FAT16_LIMIT then .ok (.fat16, clusterCount)
  else if fsVer d = 0 then .ok (.fat32, clusterCount)
  else .err (.FormatError "Invalid FAT format")

end Bpb

namespace Info
def leadSig (d : Bytes) : Nat := fieldLE info_lead_sig d
def strucSig (d : Bytes) : Nat := fieldLE info_struc_sig d
def freeCount (d : Bytes) : Nat := fieldLE info_free_count d
def nextFree (d : Bytes) : Nat := fieldLE info_next_free d
def trailSig (d : Bytes) : Nat := fieldLE info_trail_sig d

/-- `InfoSector::create_from_bytes` + the two accessors: (free count, next free). -/
def parse (d : Bytes) : Res (Option Nat × Option Nat) :=
  if leadSig d ≠ INFO_LEAD_SIG then .err (.FormatError "Bad lead signature on InfoSector")
  else if strucSig d ≠ INFO_STRUC_SIG then .err (.FormatError "Bad struc signature on InfoSector")
  else if trailSig d ≠ INFO_TRAIL_SIG then .err (.FormatError "Bad trail signature on InfoSector")
  else .ok (if freeCount d = 0xFFFFFFFF then none else some (freeCount d),
            if nextFree d = 0xFFFFFFFF ∨ nextFree d = 0 ∨ nextFree d = 1 then none else some (nextFree d))
end Info

/-- The partition-table part of `open_raw_volume`, after block 0 has been read:
(partition type, lba_start, num_blocks). -/
def parsePartition (mbr : Bytes) (volumeIdx : Nat) : Res (Nat × Nat × Nat) :=
  if readU16 mbr MBR_FOOTER_START ≠ MBR_FOOTER_VALUE then .err (.FormatError "Invalid MBR signature") else
  let start? : Option Nat :=
    if volumeIdx = 0 then some MBR_PARTITION1_START
    else if volumeIdx = 1 then some MBR_PARTITION2_START
    else if volumeIdx = 2 then some MBR_PARTITION3_START
    else if volumeIdx = 3 then some MBR_PARTITION4_START
    else none
  match start? with
  | none => .err .NoSuchVolume
  | some start =>
    let p := slice mbr start MBR_PARTITION_INFO_LENGTH
    if byteAt p MBR_PARTITION_INFO_STATUS_INDEX % 128 ≠ 0 then .err (.FormatError "Invalid partition status") else
    .ok (byteAt p MBR_PARTITION_INFO_TYPE_INDEX,
         readU32 p MBR_PARTITION_INFO_LBA_START_INDEX,
         readU32 p MBR_PARTITION_INFO_NUM_BLOCKS_INDEX)

/-- The partition types `open_raw_volume` accepts. -/
def supportedPartitionType (t : Nat) : Bool :=
  t = PARTITION_ID_FAT32_CHS_LBA || t = PARTITION_ID_FAT32_LBA || t = PARTITION_ID_FAT16_LBA ||
  t = PARTITION_ID_FAT16 || t = PARTITION_ID_FAT16_SMALL

/-- First half of `parse_volume` (everything that only needs the boot sector).  For FAT32
the result still lacks the info-sector values; `infoLocation` is already absolute. -/
def parseVolumeBpb (bpb : Bytes) (lbaStart numBlocks : Nat) : Res FatVolume := do
  let (ft, clusterCount) ← Bpb.createFromBytes bpb
  let fatStart := Bpb.reservedBlockCount bpb
  let secondFatStart ← (if Bpb.numFats bpb = 2 then do
      let s ← addU32 fatStart (Bpb.fatSize bpb)
      pure (some s) else pure none : Res (Option Nat))
  match ft with
  | .fat16 =>
    if Bpb.bytesPerBlock bpb ≠ BLOCK_LEN then .err (.BadBlockSize (Bpb.bytesPerBlock bpb)) else do
    -- ((root_entries * 32) + 511) / 512
    let rootDirBlocks := (Bpb.rootEntriesCount bpb * DIRENT_LEN + (BLOCK_LEN_U32 - 1)) / BLOCK_LEN_U32
    let fats ← mulU32 (Bpb.numFats bpb) (Bpb.fatSize bpb)
    let firstRootDirBlock ← addU32 fatStart fats
    let firstDataBlock ← addU32 firstRootDirBlock rootDirBlocks
    pure { lbaStart, numBlocks, name := Bpb.volumeLabel .fat16 bpb
           blocksPerCluster := Bpb.blocksPerCluster bpb, firstDataBlock, fatStart, secondFatStart
           freeClustersCount := none, nextFreeCluster := none, clusterCount, fatType := .fat16
           rootEntriesCount := Bpb.rootEntriesCount bpb, firstRootDirBlock
           infoLocation := 0, firstRootDirCluster := 0 }
  | .fat32 => do
    let fats ← mulU32 (Bpb.numFats bpb) (Bpb.fatSize bpb)
    let firstDataBlock ← addU32 fatStart fats
    -- `lba_start.0.checked_add(info_location.0)`
    if lbaStart + Bpb.fsInfo bpb > U32_MAX then .err (.FormatError "Info sector out of range") else
    pure { lbaStart, numBlocks, name := Bpb.volumeLabel .fat32 bpb
           blocksPerCluster := Bpb.blocksPerCluster bpb, firstDataBlock, fatStart, secondFatStart
           freeClustersCount := none, nextFreeCluster := none, clusterCount, fatType := .fat32
           rootEntriesCount := 0, firstRootDirBlock := 0
           infoLocation := lbaStart + Bpb.fsInfo bpb, firstRootDirCluster := Bpb.firstRootDirCluster bpb }

/-- Second half of `parse_volume` for FAT32: merge the info sector. -/
def parseVolumeInfo (v : FatVolume) (info : Bytes) : Res FatVolume := do
  let (fc, nf) ← Info.parse info
  pure { v with freeClustersCount := fc, nextFreeCluster := nf }

/-- The whole of mounting as a pure function of the three sectors involved: block 0, the
first block of the partition, and (FAT32 only) the info sector `fetchInfo absIdx`. -/
def mountPure (mbr : Bytes) (volumeIdx : Nat) (fetch : Nat → Bytes) : Res FatVolume := do
  let (ptype, lbaStart, numBlocks) ← parsePartition mbr volumeIdx
  if !supportedPartitionType ptype then .err (.FormatError "Partition type not supported") else do
  let v ← parseVolumeBpb (fetch lbaStart) lbaStart numBlocks
  match v.fatType with
  | .fat16 => pure v
  | .fat32 => parseVolumeInfo v (fetch v.infoLocation)

end Sdmmc.Model
