/-
Model of `SdCardInner` (/repo/src/sdcard/mod.rs): `acquire`, `card_command`, `card_acmd`,
`read`, `write`, `read_data`, `write_data`, `read_csd`, `wait_not_busy`, `num_blocks`,
`num_bytes`, the `Delay` retry budgets — generic in the SPI bus.

A bus is any state `σ` with one function per `SpiDevice` transaction (`xfer`: the bytes put on
MOSI, and the bytes that came back on MISO or `none` for an SPI error) and one for
`delay_us(10)`.  The model records what it put on the bus as a list of *events*, so that C14
can talk about frames; the byte stream is `events.flatMap Event.bytes`.
Polling loops are structurally recursive on the retry budget that exists in the code.
-/
import Sdmmc.Model.Crc
import Sdmmc.Model.Csd
import Sdmmc.Gen.Consts

namespace Sdmmc.Model
namespace Sd

open Sdmmc.Gen

inductive CardType | SD1 | SD2 | SDHC
  deriving DecidableEq, Repr, Inhabited

/-- `sdcard::Error`. -/
inductive SdErr
  | Transport | CantEnableCRC | TimeoutReadBuffer | TimeoutWaitNotBusy | TimeoutCommand (c : Nat)
  | TimeoutACommand (c : Nat) | Cmd58Error | RegisterReadError | CrcError (got computed : Nat)
  | ReadError | WriteError | BadState | CardNotFound | GpioError
  deriving DecidableEq, Repr, Inhabited

inductive SRes (α : Type) | ok (a : α) | err (e : SdErr) | panic (msg : String)
  deriving Repr, Inhabited

/-- What the driver puts on the bus, at the granularity of `SpiDevice` transactions. -/
inductive Event
  /-- `read_byte`: one 0xFF clocked out to fetch a byte; `got` is the byte that came back
  (256 when the transaction failed) -/
  | poll (got : Nat)
  /-- a six-byte command frame -/
  | cmd (frame : Bytes)
  /-- `write_byte(x)` (data tokens, stop token, the 0xFF flush bytes of `acquire`) -/
  | byte (x : UInt8)
  /-- `write_bytes(buffer)` of a data block or its CRC -/
  | dataOut (bs : Bytes)
  /-- `transfer_bytes` of `n` 0xFF bytes (data in, CRC in, R3/R7 tails) -/
  | dataIn (n : Nat)
  deriving Repr, DecidableEq

def Event.bytes : Event → Bytes
  | .poll _ => [0xFF]
  | .cmd f => f
  | .byte x => [x]
  | .dataOut bs => bs
  | .dataIn n => List.replicate n 0xFF

/-- The bus: one `SpiDevice` transaction, and `delay_us`. -/
structure BusOps (σ : Type) where
  xfer : σ → Bytes → σ × Option Bytes
  delay : σ → σ

structure St (σ : Type) where
  bus : σ
  cardType : Option CardType := none
  useCrc : Bool := true
  acquireRetries : Nat := DEFAULT_ACQUIRE_RETRIES
  /-- everything put on the bus so far, newest first -/
  events : List Event := []
  /-- number of `delay_us(10)` calls so far -/
  delays : Nat := 0

def S (σ : Type) (α : Type) := St σ → SRes α × St σ

namespace S
variable {σ : Type}
@[inline] def pure' {α} (a : α) : S σ α := fun s => (.ok a, s)
@[inline] def bind' {α β} (m : S σ α) (f : α → S σ β) : S σ β := fun s =>
  match m s with
  | (.ok a, s') => f a s'
  | (.err e, s') => (.err e, s')
  | (.panic p, s') => (.panic p, s')
instance : Monad (S σ) where
  pure := pure'
  bind := bind'
@[inline] def fail {α} (e : SdErr) : S σ α := fun s => (.err e, s)
@[inline] def attempt {α} (m : S σ α) : S σ (SRes α) := fun s => let (r, s') := m s; (.ok r, s')
@[inline] def lift {α} (r : SRes α) : S σ α := fun s => (r, s)
@[inline] def get : S σ (St σ) := fun s => (.ok s, s)
end S

variable {σ : Type} (B : BusOps σ)

/-- One transaction: log the event, exchange the bytes, `Transport` on an SPI error. -/
def xferEv (ev : Event) : S σ Bytes := fun s =>
  let (b', r) := B.xfer s.bus ev.bytes
  let s' := { s with bus := b', events := ev :: s.events }
  match r with
  | some miso => (.ok miso, s')
  | none => (.err .Transport, s')

/-- `read_byte`: the event records what came back. -/
def readByte : S σ Nat := fun s =>
  let (b', r) := B.xfer s.bus [0xFF]
  match r with
  | some miso =>
    let got := (miso.getD 0 0).toNat
    (.ok got, { s with bus := b', events := .poll got :: s.events })
  | none => (.err .Transport, { s with bus := b', events := .poll 256 :: s.events })

/-- `write_byte`. -/
def writeByte (x : UInt8) : S σ Unit := do
  let _ ← xferEv B (.byte x)
  pure ()

/-- `Delay::delay`: one `delay_us(10)` (the budget is the caller's recursion). -/
def delayTick : S σ Unit := fun s => (.ok (), { s with bus := B.delay s.bus, delays := s.delays + 1 })

/-- `wait_not_busy(delay)` with `retries` retries left: at most `retries + 1` polls. -/
def waitNotBusy : (retries : Nat) → S σ Unit
  | 0 => do
    let s ← readByte B
    if s = 0xFF then pure () else S.fail .TimeoutWaitNotBusy
  | n + 1 => do
    let s ← readByte B
    if s = 0xFF then pure () else do
      delayTick B
      waitNotBusy n

/-- The six bytes of a command frame. -/
def frame (command arg : Nat) : Bytes :=
  let first5 : Bytes := [UInt8.ofNat ((0x40 ||| command) % 256),
                          UInt8.ofNat (arg / 16777216 % 256), UInt8.ofNat (arg / 65536 % 256),
                          UInt8.ofNat (arg / 256 % 256), UInt8.ofNat (arg % 256)]
  first5 ++ [UInt8.ofNat (crc7 (first5.map fun b => BitVec.ofNat 8 b.toNat)).toNat]

/-- The response loop of `card_command`: at most `retries + 1` polls. -/
def waitResponse (command : Nat) : (retries : Nat) → S σ Nat
  | 0 => do
    let r ← readByte B
    if r / 128 % 2 = 0 then pure r else S.fail (.TimeoutCommand command)
  | n + 1 => do
    let r ← readByte B
    if r / 128 % 2 = 0 then pure r else do
      delayTick B
      waitResponse command n

/-- `card_command(command, arg)` (all commands are below 64). -/
def cardCommand (command arg : Nat) : S σ Nat := do
  if command ≠ CMD0 ∧ command ≠ CMD12 then waitNotBusy B DEFAULT_COMMAND_RETRIES
  let _ ← xferEv B (.cmd (frame command arg))
  if command = CMD12 then do
    let _ ← readByte B
    pure ()
  waitResponse B command DEFAULT_COMMAND_RETRIES

/-- `card_acmd`. -/
def cardAcmd (command arg : Nat) : S σ Nat := do
  let _ ← cardCommand B CMD55 0
  cardCommand B command arg

/-- The token wait of `read_data`: at most `retries + 1` polls; returns the first non-0xFF byte. -/
def waitToken : (retries : Nat) → S σ Nat
  | 0 => do
    let s ← readByte B
    if s ≠ 0xFF then pure s else S.fail .TimeoutReadBuffer
  | n + 1 => do
    let s ← readByte B
    if s ≠ 0xFF then pure s else do
      delayTick B
      waitToken n

def crc16Nat (bs : Bytes) : Nat := (crc16 (bs.map fun b => BitVec.ofNat 8 b.toNat)).toNat

/-- `read_data(buffer)` for a buffer of `len` bytes: the bytes received. -/
def readData (len : Nat) : S σ Bytes := do
  let status ← waitToken B DEFAULT_READ_RETRIES
  if status ≠ DATA_START_BLOCK then S.fail .ReadError else
  let buf ← xferEv B (.dataIn len)
  let crcBytes ← xferEv B (.dataIn 2)
  let s ← S.get
  if s.useCrc then
    let crc := (crcBytes.getD 0 0).toNat * 256 + (crcBytes.getD 1 0).toNat
    let computed := crc16Nat buf
    if crc ≠ computed then S.fail (.CrcError crc computed) else pure buf
  else pure buf

/-- `write_data(token, buffer)`. -/
def writeData (token : Nat) (buffer : Bytes) : S σ Unit := do
  writeByte B (UInt8.ofNat token)
  let _ ← xferEv B (.dataOut buffer)
  let s ← S.get
  let crcBytes : Bytes := if s.useCrc then [UInt8.ofNat (crc16Nat buffer / 256), UInt8.ofNat (crc16Nat buffer % 256)] else [0xFF, 0xFF]
  let _ ← xferEv B (.dataOut crcBytes)
  let status ← readByte B
  if status % 32 ≠ DATA_RES_ACCEPTED then S.fail .WriteError else pure ()

/-- `for _ in 0..n { write_byte(0xFF)?; }`. -/
def flushBytes : Nat → S σ Unit
  | 0 => pure ()
  | n + 1 => do writeByte B 0xFF; flushBytes n

/-- One iteration of the `CMD0` loop of `acquire`; `next` is the rest of the loop if the
`Delay` still has retries left. -/
def enterSpiModeStep (next : Option (S σ Unit)) : S σ Unit := do
  let r ← S.attempt (cardCommand B CMD0 0)
  let again ← (match r with
    | .err (.TimeoutCommand 0) => do
      -- "Try flushing the card": 255 bytes of 0xFF
      flushBytes B 255
      pure true
    | .err e => S.fail e
    | .panic p => S.lift (.panic p)
    | .ok r1 => pure (r1 ≠ R1_IDLE_STATE) : S σ Bool)
  if !again then pure () else
  match next with
  | none => S.fail .CardNotFound
  | some k => do
    delayTick B
    k

/-- The `CMD0` loop of `acquire`, with `retries` retries left in its `Delay`. -/
def enterSpiMode : (retries : Nat) → S σ Unit
  | 0 => enterSpiModeStep B none
  | n + 1 => enterSpiModeStep B (some (enterSpiMode n))

/-- One iteration of the `CMD8` loop of `acquire`: (card type so far, ACMD41 argument). -/
def checkVersionStep (next : Option (S σ (CardType × Nat))) : S σ (CardType × Nat) := do
  let r ← cardCommand B CMD8 0x1AA
  if r = R1_ILLEGAL_COMMAND + R1_IDLE_STATE then pure (.SD1, 0) else do
  let buf ← xferEv B (.dataIn 4)
  if (buf.getD 3 0).toNat = 0xAA then pure (.SD2, 0x40000000) else
  match next with
  | none => S.fail (.TimeoutCommand CMD8)
  | some k => do
    delayTick B
    k

def checkVersion : (retries : Nat) → S σ (CardType × Nat)
  | 0 => checkVersionStep B none
  | n + 1 => checkVersionStep B (some (checkVersion n))

/-- One iteration of the `ACMD41` loop of `acquire`. -/
def waitReadyStep (arg : Nat) (next : Option (S σ Unit)) : S σ Unit := do
  let r ← cardAcmd B ACMD41 arg
  if r = R1_READY_STATE then pure () else
  match next with
  | none => S.fail (.TimeoutACommand ACMD41)
  | some k => do
    delayTick B
    k

def waitReady (arg : Nat) : (retries : Nat) → S σ Unit
  | 0 => waitReadyStep B arg none
  | n + 1 => waitReadyStep B arg (some (waitReady arg n))

/-- The closure `f` of `acquire`. -/
def acquireBody : S σ Unit := do
  let s ← S.get
  enterSpiMode B s.acquireRetries
  if s.useCrc then do
    let r ← cardCommand B CMD59 1
    if r ≠ R1_IDLE_STATE then S.fail .CantEnableCRC
  let (ct, arg) ← checkVersion B DEFAULT_COMMAND_RETRIES
  waitReady B arg DEFAULT_COMMAND_RETRIES
  let ct ← (if ct = .SD2 then do
      let r ← cardCommand B CMD58 0
      if r ≠ 0 then S.fail .Cmd58Error else
      let buf ← xferEv B (.dataIn 4)
      if (buf.getD 0 0).toNat / 64 = 3 then pure CardType.SDHC else pure ct
    else pure ct : S σ CardType)
  fun s => (.ok (), { s with cardType := some ct })

/-- `acquire`: the body, then one more `read_byte`; `result.and(trailing.map(|_| ()))`. -/
def acquire : S σ Unit := do
  let r ← S.attempt (acquireBody B)
  let t ← S.attempt (readByte B)
  match r with
  | .ok () =>
    match t with
    | .ok _ => pure ()
    | .err e => fun s => (.err e, { s with cardType := none })   -- "start over next time"
    | .panic p => S.lift (.panic p)
  | .err e => fun s => (.err e, { s with cardType := none })
  | other => S.lift other

/-- `check_init`. -/
def checkInit : S σ Unit := do
  let s ← S.get
  if s.cardType.isNone then acquire B else pure ()

/-- Byte or block address of a block index. -/
def startIdx (ct : Option CardType) (idx : Nat) : SRes Nat :=
  match ct with
  | some .SD1 | some .SD2 => if idx * 512 ≤ 4294967295 then .ok (idx * 512) else .panic "attempt to multiply with overflow"
  | some .SDHC => .ok idx
  | none => .err .CardNotFound

def readBlocks : (n : Nat) → S σ (List Bytes)
  | 0 => pure []
  | n + 1 => do
    let b ← readData B 512
    let rest ← readBlocks n
    pure (b :: rest)

/-- `SdCardInner::read(blocks, start_block_idx)` for `n` blocks. -/
def read (n idx : Nat) : S σ (List Bytes) := do
  let s ← S.get
  let start ← S.lift (startIdx s.cardType idx)
  if n = 1 then do
    let _ ← cardCommand B CMD17 start
    let b ← readData B 512
    pure [b]
  else do
    let _ ← cardCommand B CMD18 start
    -- the loop stops at the first block that fails; CMD12 is sent either way
    let r ← S.attempt (readBlocks B n)
    match r with
    | .panic p => S.lift (.panic p)
    | _ => do
      let stopped ← S.attempt (cardCommand B CMD12 0)
      match r, stopped with
      | .ok bs, .ok _ => pure bs
      | .ok _, .err e => S.fail e
      | .ok _, .panic p => S.lift (.panic p)
      | .err e, _ => S.fail e
      | .panic p, _ => S.lift (.panic p)

def writeBlocks : List Bytes → S σ Unit
  | [] => pure ()
  | b :: rest => do
    waitNotBusy B DEFAULT_WRITE_RETRIES
    writeData B WRITE_MULTIPLE_TOKEN b
    writeBlocks rest

/-- `SdCardInner::write(blocks, start_block_idx)`. -/
def write (blocks : List Bytes) (idx : Nat) : S σ Unit := do
  let s ← S.get
  let start ← S.lift (startIdx s.cardType idx)
  match blocks with
  | [b] => do
    let _ ← cardCommand B CMD24 start
    writeData B DATA_START_BLOCK b
    waitNotBusy B DEFAULT_WRITE_RETRIES
    let r ← cardCommand B CMD13 0
    if r ≠ 0 then S.fail .WriteError else
    let r2 ← readByte B
    if r2 ≠ 0 then S.fail .WriteError else pure ()
  | _ => do
    let _ ← cardAcmd B ACMD23 (blocks.length % 4294967296)
    waitNotBusy B DEFAULT_WRITE_RETRIES
    let _ ← cardCommand B CMD25 start
    -- the loop stops at the first block that fails; the stop sequence is attempted either way
    let r ← S.attempt (writeBlocks B blocks)
    match r with
    | .panic p => S.lift (.panic p)
    | _ => do
      let stopped ← S.attempt (do
        waitNotBusy B DEFAULT_WRITE_RETRIES
        writeByte B (UInt8.ofNat STOP_TRAN_TOKEN)
        -- one byte is clocked and discarded: the card may take a byte (N_BR) to signal busy
        let _ ← readByte B
        -- the card programs the last block: waited for here, with the write budget
        waitNotBusy B DEFAULT_WRITE_RETRIES)
      match r, stopped with
      | .ok _, .ok _ => pure ()
      | .ok _, .err e => S.fail e
      | .ok _, .panic p => S.lift (.panic p)
      | .err e, _ => S.fail e
      | .panic p, _ => S.lift (.panic p)

/-- `read_csd`: the register and which layout it uses (`true` = version 2). -/
def readCsd : S σ (Bytes × Bool) := do
  let s ← S.get
  match s.cardType with
  | none => S.fail .CardNotFound
  | some ct => do
    let r ← cardCommand B CMD9 0
    if r ≠ 0 then S.fail .RegisterReadError else
    let csd ← readData B 16
    match ct with
    | .SD1 => pure (csd, false)
    | _ => pure (csd, Csd.v2CsdVer csd ≠ 0)

/-- `num_blocks`. -/
def numBlocks : S σ Nat := do
  let (csd, v2) ← readCsd B
  pure (if v2 then Csd.v2CapacityBlocks csd else Csd.v1CapacityBlocks csd)

/-- `num_bytes`. -/
def numBytes : S σ Nat := do
  let (csd, v2) ← readCsd B
  pure (if v2 then Csd.v2CapacityBytes csd else Csd.v1CapacityBytes csd)

/-- The public calls of `SdCard` (each runs `check_init` first). -/
inductive Call
  | read (n idx : Nat) | write (blocks : List Bytes) (idx : Nat) | numBlocks | numBytes | cardType | markUninit
  deriving Repr

inductive Answer | blocks (bs : List Bytes) | unit | num (n : Nat) | ctype (c : Option CardType)
  deriving Repr

def call : Call → S σ Answer
  | .read n idx => do checkInit B; let bs ← read B n idx; pure (.blocks bs)
  | .write bs idx => do checkInit B; write B bs idx; pure .unit
  | .numBlocks => do checkInit B; let n ← numBlocks B; pure (.num n)
  | .numBytes => do checkInit B; let n ← numBytes B; pure (.num n)
  | .cardType => do
    -- `get_card_type`: `check_init().ok()?; card_type`
    let r ← S.attempt (checkInit B)
    match r with
    | .ok () => do let s ← S.get; pure (.ctype s.cardType)
    | .panic p => S.lift (.panic p)
    | .err _ => pure (.ctype none)
  | .markUninit => fun s => (.ok .unit, { s with cardType := none })

end Sd
end Sdmmc.Model
