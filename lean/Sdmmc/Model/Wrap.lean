/-
Model of the RAII wrappers `File` (/repo/src/filesystem/files.rs), `Directory`
(/repo/src/filesystem/directory.rs), `Volume` (/repo/src/lib.rs), of
`VolumeManager::open_volume` and of the `embedded_io::{Read, Write, Seek}` implementations for
`File`.

A wrapper is a raw handle plus a reference to the manager; here it IS the raw handle (`Nat`).  Every
function below performs exactly the `VolumeManager` calls its Rust counterpart performs, in the same
order, through `call`, which is the `try_borrow_mut().map_err(|_| LockError)?` every such method
starts with (in `Model.Mgr` that check lives in `step`, because there one `Op` is one method call;
a wrapper method may make several calls, or none).

Integer types: a `u64` is a `Nat` `≤ U64_MAX`, an `i64` an `Int` in `[I64_MIN, I64_MAX]`
(`SeekFrom.Valid`); the conversions `try_into::<u32>`, `try_into::<i32>`, `checked_neg` are the
functions `u64ToU32`, `i64ToU32`, `i64ToI32`, `i64CheckedNeg` with their exact ranges.

`WOp` / `runWOp` / `wstep` are the wrapper-level analogue of `Op` / `runOp` / `step`: one line of
the driver protocol is one `WOp`.
-/
import Sdmmc.Model.Mgr

namespace Sdmmc.Model.Wrap

open Sdmmc.Gen

/-! ### Integer ranges -/

-- `U32_MAX` is `Model.U32_MAX` (`Sdmmc.Model.Prim`)
def U64_MAX : Nat := 18446744073709551615
def I32_MIN : Int := -2147483648
def I32_MAX : Int := 2147483647
def I64_MIN : Int := -9223372036854775808
def I64_MAX : Int := 9223372036854775807

/-- `embedded_io::SeekFrom`: `Start(u64)`, `End(i64)`, `Current(i64)`. -/
inductive SeekFrom
  | start (offset : Nat)
  | end_ (offset : Int)
  | current (offset : Int)
  deriving Repr, DecidableEq

/-- The argument is a value of its Rust type. -/
def SeekFrom.Valid : SeekFrom → Prop
  | .start n => n ≤ U64_MAX
  | .end_ x => I64_MIN ≤ x ∧ x ≤ I64_MAX
  | .current x => I64_MIN ≤ x ∧ x ≤ I64_MAX

instance (p : SeekFrom) : Decidable p.Valid := by
  cases p <;> unfold SeekFrom.Valid <;> exact inferInstance

/-- `Current` is the kind that looks at the file before doing its arithmetic; `Start` and `End` convert
their argument before the manager is called. -/
def SeekFrom.isCurrent : SeekFrom → Bool
  | .current _ => true
  | _ => false

/-- `u32::try_from(x: u64)`. -/
def u64ToU32 (n : Nat) : Option Nat := if n ≤ U32_MAX then some n else none
/-- `i64::checked_neg`: `None` exactly for `i64::MIN`. -/
def i64CheckedNeg (x : Int) : Option Int := if x = I64_MIN then none else some (-x)
/-- `u32::try_from(x: i64)`. -/
def i64ToU32 (x : Int) : Option Nat := if 0 ≤ x ∧ x ≤ (U32_MAX : Int) then some x.toNat else none
/-- `i32::try_from(x: i64)`. -/
def i64ToI32 (x : Int) : Option Int := if I32_MIN ≤ x ∧ x ≤ I32_MAX then some x else none
/-- `i64::checked_add`: `None` exactly when the sum leaves the `i64` range. -/
def i64CheckedAdd (a b : Int) : Option Int := if I64_MIN ≤ a + b ∧ a + b ≤ I64_MAX then some (a + b) else none

/-! ### Calling the manager -/

/-- One `VolumeManager` method call made by a wrapper: `Err(LockError)`, nothing touched, when the
`RefCell` is already borrowed (the wrapper method was called from inside a directory-iteration
callback). -/
def call {α} (m : M α) : M α := fun s => if s.locked then (.err .LockError, s) else m s

/-- `result.expect(msg)` / `result.unwrap()`: an `Err` becomes a panic. -/
def expect {α} (msg : String) (m : M α) : M α := fun s =>
  match m s with
  | (.err _, s') => (.panic msg, s')
  | r => r

/-- `_ = result`: an `Err` is discarded (a panic is not a value and cannot be). -/
def ignoreErr {α} (m : M α) : M Unit := fun s =>
  match m s with
  | (.ok _, s') => (.ok (), s')
  | (.err _, s') => (.ok (), s')
  | (.panic msg, s') => (.panic msg, s')
  | (.diverged, s') => (.diverged, s')

/-- `opt.ok_or(InvalidOffset)?` / `x.try_into().map_err(|_| InvalidOffset)?`. -/
def orInvalidOffset {α} : Option α → M α
  | some a => pure a
  | none => M.fail .InvalidOffset

/-! ### `VolumeManager::open_volume`, `Volume` -/

/-- `VolumeManager::open_volume(volume_idx)`: `open_raw_volume(volume_idx)?` wrapped. -/
def openVolume (volumeIdx : Nat) : M Nat := call (openRawVolume volumeIdx)

namespace Volume
/-- `Volume::open_root_dir`: `open_root_dir(self.raw_volume)?` wrapped. -/
def openRootDir (v : Nat) : M Nat := call (Model.openRootDir v)
/-- `Volume::close(self)`: the result of `close_volume`; the destructor does not run. -/
def close (v : Nat) : M Unit := call (closeVolume v)
/-- `Drop for Volume`: `_ = close_volume(self.raw_volume)`. -/
def drop (v : Nat) : M Unit := ignoreErr (call (closeVolume v))
end Volume

/-! ### `Directory` -/

namespace Directory
/-- `Directory::open_dir(name)`. -/
def openDir (d : Nat) (name : List Nat) : M Nat := call (Model.openDir d name)

/-- `Directory::change_dir(name)`: the NEW directory is opened first (so a free slot is needed),
then the old handle is closed with `.unwrap()`; the result is the handle the wrapper now holds. -/
def changeDir (d : Nat) (name : List Nat) : M Nat := do
  let d' ← call (Model.openDir d name)
  expect "called `Result::unwrap()` on an `Err` value" (call (closeDir d))
  pure d'

def findDirectoryEntry (d : Nat) (name : List Nat) : M DirEntry := call (Model.findDirectoryEntry d name)
def iterateDir (d : Nat) : M (List DirEntry) := call (Model.iterateDir d)
def iterateDirLfn (d bufSize : Nat) : M (List (DirEntry × Option Bytes)) := call (Model.iterateDirLfn d bufSize)
def openFileInDir (d : Nat) (name : List Nat) (mode : Mode) : M Nat := call (Model.openFileInDir d name mode)
def deleteFileInDir (d : Nat) (name : List Nat) : M Unit := call (Model.deleteFileInDir d name)
def makeDirInDir (d : Nat) (name : List Nat) : M Unit := call (Model.makeDirInDir d name)
/-- `Directory::close(self)`. -/
def close (d : Nat) : M Unit := call (closeDir d)
/-- `Drop for Directory`: `_ = close_dir(self.raw_directory)`. -/
def drop (d : Nat) : M Unit := ignoreErr (call (closeDir d))
end Directory

/-! ### `File` -/

namespace File
/-- `File::read(buffer)` with `buffer.len() = n`. -/
def read (f n : Nat) : M Bytes := call (Model.read f n)
/-- `File::write(buffer)`. -/
def write (f : Nat) (buffer : Bytes) : M Unit := call (Model.write f buffer)
/-- `File::is_eof()`: `file_eof(..).expect("Corrupt file ID")`. -/
def isEof (f : Nat) : M Bool := expect "Corrupt file ID" (call (fileEof f))
/-- `File::length()`. -/
def length (f : Nat) : M Nat := expect "Corrupt file ID" (call (fileLength f))
/-- `File::offset()`. -/
def offset (f : Nat) : M Nat := expect "Corrupt file ID" (call (fileOffset f))
/-- `File::seek_from_start(offset: u32)`. -/
def seekFromStart (f offset : Nat) : M Unit := call (fileSeekFromStart f offset)
/-- `File::seek_from_end(offset: u32)`. -/
def seekFromEnd (f offset : Nat) : M Unit := call (fileSeekFromEnd f offset)
/-- `File::seek_from_current(offset: i32)`. -/
def seekFromCurrent (f : Nat) (offset : Int) : M Unit := call (fileSeekFromCurrent f offset)
/-- `File::flush()`. -/
def flush (f : Nat) : M Unit := call (flushFile f)
/-- `File::close(self)`: the result of `close_file`; the destructor does not run. -/
def close (f : Nat) : M Unit := call (closeFile f)
/-- `Drop for File`: `_ = close_file(self.raw_file)`. -/
def drop (f : Nat) : M Unit := ignoreErr (call (closeFile f))

/-- `embedded_io::Read::read(buf)` with `buf.len() = n`: the bytes placed in the buffer (the
returned count is their number).  An empty buffer makes no call at all; otherwise the INHERENT
`File::read(self, buf)` (since c0d40aa; `self.read(buf)` resolved to this trait method itself). -/
def ioRead (f n : Nat) : M Bytes := if n = 0 then pure [] else read f n

/-- `embedded_io::Write::write(buf)`: `Ok(buf.len())` whenever the inherent `File::write(self, buf)`
succeeds. -/
def ioWrite (f : Nat) (buf : Bytes) : M Nat :=
  if buf.isEmpty then pure 0 else do
    write f buf
    pure buf.length

/-- `embedded_io::Write::flush`. -/
def ioFlush (f : Nat) : M Unit := flush f

/-- `embedded_io::Seek::seek(pos)`: the result is `self.offset()` widened to `u64`.
`Current(offset)` reads the position with the raw `file_offset` FIRST (so `LockError` / `BadHandle`
come before any refusal of the arithmetic), computes `i64::from(current).checked_add(offset)`,
converts the target to `u32` and seeks from the start. -/
def ioSeek (f : Nat) (pos : SeekFrom) : M Nat := do
  match pos with
    | .start o => do
      let n ← orInvalidOffset (u64ToU32 o)
      seekFromStart f n
    | .end_ o => do
      let neg ← orInvalidOffset (i64CheckedNeg o)
      let n ← orInvalidOffset (i64ToU32 neg)
      seekFromEnd f n
    | .current o => do
      -- `self.volume_mgr.file_offset(self.raw_file)?`: the raw call, its error is returned
      let current ← call (fileOffset f)
      let target ← orInvalidOffset (i64CheckedAdd (current : Int) o)
      let n ← orInvalidOffset (i64ToU32 target)
      seekFromStart f n
  offset f
end File

/-! ### The wrapper-level transition function -/

inductive WOp
  | ioRead (f n : Nat) | ioWrite (f : Nat) (data : Bytes) | ioFlush (f : Nat)
  | ioSeek (f : Nat) (pos : SeekFrom)
  | eof (f : Nat) | length (f : Nat) | offset (f : Nat)
  | dropFile (f : Nat) | closeFile (f : Nat)
  | dropDir (d : Nat) | closeDir (d : Nat) | changeDir (d : Nat) (name : List Nat)
  | dropVolume (v : Nat) | closeVolume (v : Nat)
  deriving Repr

def runWOp : WOp → M Payload
  | .ioRead f n => do let b ← File.ioRead f n; pure (.bytes b)
  | .ioWrite f b => do let n ← File.ioWrite f b; pure (.num n)
  | .ioFlush f => do File.ioFlush f; pure .unit
  | .ioSeek f p => do let n ← File.ioSeek f p; pure (.num n)
  | .eof f => do let b ← File.isEof f; pure (.bool b)
  | .length f => do let n ← File.length f; pure (.num n)
  | .offset f => do let n ← File.offset f; pure (.num n)
  | .dropFile f => do File.drop f; pure .unit
  | .closeFile f => do File.close f; pure .unit
  | .dropDir d => do Directory.drop d; pure .unit
  | .closeDir d => do Directory.close d; pure .unit
  | .changeDir d n => do let h ← Directory.changeDir d n; pure (.handle h)
  | .dropVolume v => do Volume.drop v; pure .unit
  | .closeVolume v => do Volume.close v; pure .unit

/-- One wrapper method call.  The per-call logs are cleared first, as in `step`; the re-entrancy
lock is handled inside (`call`), because what a wrapper method does when the manager is borrowed
depends on the method (no call at all, `LockError`, a discarded `LockError`, or a panic). -/
def wstep (s : Mgr) (op : WOp) : Mgr × Out :=
  let s0 := { s with dev := { s.dev with wlog := [], rlog := [] } }
  let (r, s') := runWOp op s0
  (s', { result := r, writes := s'.dev.wlog.reverse, reads := s'.dev.rlog.reverse })

end Sdmmc.Model.Wrap
