/-
The environment of the FAT engine as a value: a block device (disk contents, a call
counter, the set of call indices at which the device fails, the ordered write and read
logs) and the one-block `BlockCache` of /repo/src/blockdevice.rs on top of it.

`F α` is the state-and-outcome monad all modelled FAT functions run in.
-/
import Std.Data.TreeMap
import Sdmmc.Model.Mount

namespace Sdmmc.Model

open Sdmmc.Gen

abbrev Block := Bytes

def zeroBlock : Block := zeros 512

/-- What a failed device read leaves in the caller's buffer (the harness' RAM disk does the same). -/
def scribbleBlock : Block := List.replicate 512 (UInt8.ofNat 0xEE)

/-- Disk contents: absent blocks are all zero. -/
structure Disk where
  m : Std.TreeMap Nat Block compare
  deriving Inhabited

namespace Disk
def empty : Disk := ⟨{}⟩
def get (d : Disk) (i : Nat) : Block := d.m.getD i zeroBlock
def set (d : Disk) (i : Nat) (b : Block) : Disk := ⟨d.m.insert i b⟩
def applyWrites (d : Disk) (ws : List (Nat × Block)) : Disk := ws.foldl (fun d w => d.set w.1 w.2) d
end Disk

/-- The `BlockDevice`. `faults` are the indices (in `calls` numbering) of device calls that fail. -/
structure Dev where
  disk : Disk
  calls : Nat := 0
  faults : List Nat := []
  /-- device writes so far, newest first -/
  wlog : List (Nat × Block) := []
  /-- device reads so far, newest first -/
  rlog : List Nat := []
  /-- ghost: number of device calls that failed so far (never read by the model; C11 is stated over it) -/
  failed : Nat := 0
  deriving Inhabited

/-- `BlockCache`: `block_idx` and `block[0]`. -/
structure Cache where
  tag : Option Nat := none
  blk : Block := zeroBlock
  deriving Inhabited

/-- State of one FAT-level call: device, cache and the (mutable) volume record. -/
structure FS where
  dev : Dev
  cache : Cache
  vol : FatVolume
  deriving Inhabited

/-- The monad of the FAT engine: outcome and new state (the state survives errors, as the
Rust's `&mut` state does). -/
def F (α : Type) := FS → Res α × FS

namespace F
@[inline] def pure' {α} (a : α) : F α := fun s => (.ok a, s)
@[inline] def bind' {α β} (m : F α) (f : α → F β) : F β := fun s =>
  match m s with
  | (.ok a, s') => f a s'
  | (.err e, s') => (.err e, s')
  | (.panic msg, s') => (.panic msg, s')
  | (.diverged, s') => (.diverged, s')
instance : Monad F where
  pure := pure'
  bind := bind'
/-- Return an outcome as is. -/
@[inline] def lift {α} (r : Res α) : F α := fun s => (r, s)
@[inline] def fail {α} (e : Err) : F α := fun s => (.err e, s)
@[inline] def panic {α} (m : String) : F α := fun s => (.panic m, s)
@[inline] def diverge {α} : F α := fun s => (.diverged, s)
/-- Run `m` and hand its outcome to the continuation as a value (Rust: `match m { .. }`). -/
@[inline] def attempt {α} (m : F α) : F (Res α) := fun s => let (r, s') := m s; (.ok r, s')
@[inline] def get : F FS := fun s => (.ok s, s)
@[inline] def getVol : F FatVolume := fun s => (.ok s.vol, s)
@[inline] def setVol (v : FatVolume) : F Unit := fun s => (.ok (), { s with vol := v })
@[inline] def modifyVol (f : FatVolume → FatVolume) : F Unit := fun s => (.ok (), { s with vol := f s.vol })
end F

/-! ### The device -/

/-- `BlockDevice::read(&mut [block], idx)`: on failure the buffer is scribbled. -/
def devRead (idx : Nat) : F Unit := fun s =>
  let d := s.dev
  let d' := { d with calls := d.calls + 1, rlog := idx :: d.rlog }
  if d.faults.contains d.calls then
    (.err .DeviceError, { s with dev := { d' with failed := d.failed + 1 }, cache := { s.cache with blk := scribbleBlock } })
  else
    (.ok (), { s with dev := d', cache := { s.cache with blk := d.disk.get idx } })

/-- `BlockDevice::write(&[block], idx)` with the cache block as payload: a failing write does not reach the medium. -/
def devWrite (idx : Nat) : F Unit := fun s =>
  let d := s.dev
  if d.faults.contains d.calls then
    (.err .DeviceError, { s with dev := { d with calls := d.calls + 1, failed := d.failed + 1 } })
  else
    (.ok (), { s with dev := { d with calls := d.calls + 1, disk := d.disk.set idx s.cache.blk,
                                      wlog := (idx, s.cache.blk) :: d.wlog } })

/-! ### `BlockCache` -/

/-- `BlockCache::read` / `read_mut`: afterwards the block is `cache.blk`. -/
def cacheRead (idx : Nat) : F Unit := fun s =>
  if s.cache.tag = some idx then (.ok (), s)
  else
    match devRead idx { s with cache := { s.cache with tag := none } } with
    | (.ok (), s') => (.ok (), { s' with cache := { s'.cache with tag := some idx } })
    | (r, s') => (r, s')

/-- The cached block (valid after a successful `cacheRead` / `blankMut`). -/
@[inline] def cacheBlk : F Block := fun s => (.ok s.cache.blk, s)

/-- Mutate the cached block in place (`&mut Block` handed out by `read_mut` / `blank_mut`). -/
@[inline] def cacheModify (f : Block → Block) : F Unit := fun s =>
  (.ok (), { s with cache := { s.cache with blk := f s.cache.blk } })

/-- `BlockCache::write_back`. -/
def writeBack : F Unit := fun s =>
  match s.cache.tag with
  | none => (.panic "write_back with no read", s)
  | some idx =>
    match devWrite idx s with
    | (.ok (), s') => (.ok (), s')
    -- the device does not hold what the cache holds: the block is forgotten
    | (r, s') => (r, { s' with cache := { s'.cache with tag := none } })

/-- `BlockCache::write_back_with_duplicate`. -/
def writeBackWithDuplicate (dup : Nat) : F Unit := fun s =>
  match s.cache.tag with
  | none => (.panic "write_back with no read", s)
  | some idx =>
    match devWrite idx s with
    | (.ok (), s') =>
      match devWrite dup s' with
      | (.ok (), s'') => (.ok (), s'')
      | (r, s'') => (r, { s'' with cache := { s''.cache with tag := none } })
    | (r, s') => (r, { s' with cache := { s'.cache with tag := none } })

/-- `BlockCache::blank_mut`. -/
def blankMut (idx : Nat) : F Unit := fun s =>
  (.ok (), { s with cache := { tag := some idx, blk := zeroBlock } })

end Sdmmc.Model
