/-
Model of `VolumeManager` / `VolumeManagerData` (/repo/src/volume_mgr.rs), `FileInfo`
(/repo/src/filesystem/files.rs) and the handle generator
(/repo/src/filesystem/handles.rs): the three fixed-capacity tables, every public
method, `find_data_on_disk`, `solve_mode_variant`.

`step : Mgr → Op → Mgr × Out` is the single transition function used by the history
theorems.
-/
import Sdmmc.Model.Fat
import Sdmmc.Model.Lfn

namespace Sdmmc.Model

open Sdmmc.Gen

inductive Mode
  | ReadOnly | ReadWriteAppend | ReadWriteTruncate | ReadWriteCreate
  | ReadWriteCreateOrTruncate | ReadWriteCreateOrAppend
  deriving DecidableEq, Repr, Inhabited

structure VolInfo where
  rawVolume : Nat
  idx : Nat
  vol : FatVolume
  deriving Repr, Inhabited

structure DirInfo where
  rawDirectory : Nat
  rawVolume : Nat
  cluster : Nat
  deriving Repr, Inhabited, DecidableEq

structure FileInfo where
  rawFile : Nat
  rawVolume : Nat
  /-- `current_cluster.0`: file offset of the start of the cached cluster -/
  curClusterOff : Nat
  /-- `current_cluster.1` -/
  curCluster : Nat
  currentOffset : Nat
  mode : Mode
  entry : DirEntry
  dirty : Bool
  deriving Repr, Inhabited

/-- `VolumeManagerData` + the time source's current value + the `RefCell` borrow flag. -/
structure Mgr where
  dev : Dev
  cache : Cache := {}
  nextId : Nat
  vols : List VolInfo := []
  dirs : List DirInfo := []
  files : List FileInfo := []
  maxVols : Nat
  maxDirs : Nat
  maxFiles : Nat
  clock : Timestamp := default
  locked : Bool := false
  deriving Inhabited

/-- The monad of the manager level. -/
def M (α : Type) := Mgr → Res α × Mgr

namespace M
@[inline] def pure' {α} (a : α) : M α := fun s => (.ok a, s)
@[inline] def bind' {α β} (m : M α) (f : α → M β) : M β := fun s =>
  match m s with
  | (.ok a, s') => f a s'
  | (.err e, s') => (.err e, s')
  | (.panic msg, s') => (.panic msg, s')
  | (.diverged, s') => (.diverged, s')
instance : Monad M where
  pure := pure'
  bind := bind'
@[inline] def lift {α} (r : Res α) : M α := fun s => (r, s)
@[inline] def fail {α} (e : Err) : M α := fun s => (.err e, s)
@[inline] def panic {α} (m : String) : M α := fun s => (.panic m, s)
@[inline] def attempt {α} (m : M α) : M (Res α) := fun s => let (r, s') := m s; (.ok r, s')
@[inline] def get : M Mgr := fun s => (.ok s, s)
@[inline] def modify (f : Mgr → Mgr) : M Unit := fun s => (.ok (), f s)
end M

/-- `Vec::swap_remove(idx)`. -/
def swapRemove {α} (l : List α) (idx : Nat) : List α :=
  match l.getLast?, l[idx]? with
  | some last, some _ =>
    if idx = l.length - 1 then l.dropLast else (l.set idx last).dropLast
  | _, _ => l

/-- Run a FAT-level computation on volume slot `volIdx` (device, cache and the volume record are
written back whatever the outcome). -/
def withVol {α} (volIdx : Nat) (f : F α) : M α := fun s =>
  match s.vols[volIdx]? with
  | none => (.panic "volume index out of range", s)
  | some vi =>
    let (r, fs) := f { dev := s.dev, cache := s.cache, vol := vi.vol }
    (r, { s with dev := fs.dev, cache := fs.cache, vols := s.vols.set volIdx { vi with vol := fs.vol } })

/-- `HandleGenerator::generate` (`Wrapping<u32>`). -/
def generate : M Nat := fun s => (.ok s.nextId, { s with nextId := (s.nextId + 1) % 4294967296 })

def getVolumeById (raw : Nat) : M Nat := fun s =>
  match s.vols.findIdx? (·.rawVolume = raw) with
  | some i => (.ok i, s)
  | none => (.err .BadHandle, s)

def getDirById (raw : Nat) : M Nat := fun s =>
  match s.dirs.findIdx? (·.rawDirectory = raw) with
  | some i => (.ok i, s)
  | none => (.err .BadHandle, s)

def getFileById (raw : Nat) : M Nat := fun s =>
  match s.files.findIdx? (·.rawFile = raw) with
  | some i => (.ok i, s)
  | none => (.err .BadHandle, s)

def getDir (i : Nat) : M DirInfo := fun s =>
  match s.dirs[i]? with | some d => (.ok d, s) | none => (.panic "dir index out of range", s)
def getFile (i : Nat) : M FileInfo := fun s =>
  match s.files[i]? with | some f => (.ok f, s) | none => (.panic "file index out of range", s)
def getVolInfo (i : Nat) : M VolInfo := fun s =>
  match s.vols[i]? with | some v => (.ok v, s) | none => (.panic "volume index out of range", s)
def setFile (i : Nat) (f : FileInfo) : M Unit := M.modify fun s => { s with files := s.files.set i f }
def modifyFile (i : Nat) (g : FileInfo → FileInfo) : M Unit :=
  M.modify fun s => { s with files := s.files.modify i g }

/-- `file_is_open(raw_volume, dir_entry)`. -/
def fileIsOpen (s : Mgr) (rawVolume : Nat) (e : DirEntry) : Bool :=
  s.files.any fun f => f.rawVolume = rawVolume ∧ f.entry.entryBlock = e.entryBlock ∧ f.entry.entryOffset = e.entryOffset

/-- `name.to_short_filename().map_err(Error::FilenameError)`. -/
def toSfn (name : List Nat) : M Bytes :=
  match Sfn.createFromStr name with
  | .ok b => pure b
  | .error e => M.fail (.FilenameError e)

/-- `solve_mode_variant`. -/
def solveModeVariant (mode : Mode) (isSome : Bool) : Mode :=
  match mode with
  | .ReadWriteCreateOrAppend => if isSome then .ReadWriteAppend else .ReadWriteCreate
  | .ReadWriteCreateOrTruncate => if isSome then .ReadWriteTruncate else .ReadWriteCreate
  | m => m

/-! ### `FileInfo` -/
namespace FileInfo
def eof (f : FileInfo) : Bool := f.currentOffset = f.entry.size
def length (f : FileInfo) : Nat := f.entry.size
def left (f : FileInfo) : Nat := f.entry.size - f.currentOffset
def seekFromStart (f : FileInfo) (offset : Nat) : Option FileInfo :=
  if offset > f.entry.size then none else some { f with currentOffset := offset }
def seekFromEnd (f : FileInfo) (offset : Nat) : Option FileInfo :=
  if offset > f.entry.size then none else some { f with currentOffset := f.entry.size - offset }
/-- `offset : i32`. -/
def seekFromCurrent (f : FileInfo) (offset : Int) : Option FileInfo :=
  let n : Int := (f.currentOffset : Int) + offset
  if n < 0 ∨ n > (f.entry.size : Int) then none else some { f with currentOffset := n.toNat }
def updateLength (f : FileInfo) (n : Nat) : FileInfo := { f with entry := { f.entry with size := n } }
end FileInfo

/-! ### Volumes -/

/-- `open_raw_volume(volume_idx)`. -/
def openRawVolume (volumeIdx : Nat) : M Nat := do
  let s ← M.get
  if s.vols.length ≥ s.maxVols then M.fail .TooManyOpenVolumes else
  if s.vols.any (·.idx = volumeIdx) then M.fail .VolumeAlreadyOpen else
  -- the cache is used directly here, there is no volume yet
  let rd (idx : Nat) : M Block := fun s =>
    let (r, fs) := (do cacheRead idx; cacheBlk : F Block) { dev := s.dev, cache := s.cache, vol := default }
    (r, { s with dev := fs.dev, cache := fs.cache })
  let mbr ← rd 0
  let (ptype, lbaStart, numBlocks) ← M.lift (parsePartition mbr volumeIdx)
  if !supportedPartitionType ptype then M.fail (.FormatError "Partition type not supported") else
  let bpb ← rd lbaStart
  let v ← M.lift (parseVolumeBpb bpb lbaStart numBlocks)
  let v ← (match v.fatType with
    | .fat16 => pure v
    | .fat32 => do
      let info ← rd v.infoLocation
      M.lift (parseVolumeInfo v info) : M FatVolume)
  let id ← generate
  M.modify fun s => { s with vols := s.vols ++ [{ rawVolume := id, idx := volumeIdx, vol := v }] }
  pure id

/-- `open_root_dir(volume)`. -/
def openRootDir (volume : Nat) : M Nat := do
  let id ← generate
  let s ← M.get
  if s.dirs.length ≥ s.maxDirs then M.fail .TooManyOpenDirs else
  M.modify fun s => { s with dirs := s.dirs ++ [{ rawDirectory := id, rawVolume := volume, cluster := CLUSTER_ROOT_DIR }] }
  pure id

/-- `open_dir(parent_dir, name)`. -/
def openDir (parentDir : Nat) (name : List Nat) : M Nat := do
  let s ← M.get
  if s.dirs.length ≥ s.maxDirs then M.fail .TooManyOpenDirs else
  let parentIdx ← getDirById parentDir
  let parent ← getDir parentIdx
  let volIdx ← getVolumeById parent.rawVolume
  let sfn ← toSfn name
  let vi ← getVolInfo volIdx
  if sfn = Sfn.thisDir then do
    let id ← generate
    M.modify fun s => { s with dirs := s.dirs ++ [{ rawDirectory := id, rawVolume := vi.rawVolume, cluster := parent.cluster }] }
    pure id
  else do
    let e ← withVol volIdx (Fat.findDirectoryEntry parent.cluster sfn)
    if !Attr.isDirectory e.attributes then M.fail .OpenedFileAsDir else
    let id ← generate
    M.modify fun s => { s with dirs := s.dirs ++ [{ rawDirectory := id, rawVolume := vi.rawVolume, cluster := e.cluster }] }
    pure id

/-- `close_dir(directory)`. -/
def closeDir (directory : Nat) : M Unit := do
  let s ← M.get
  match s.dirs.findIdx? (·.rawDirectory = directory) with
  | some i => M.modify fun s => { s with dirs := swapRemove s.dirs i }
  | none => M.fail .BadHandle

/-- `close_volume(volume)`. -/
def closeVolume (volume : Nat) : M Unit := do
  let s ← M.get
  if s.files.any (·.rawVolume = volume) then M.fail .VolumeStillInUse else
  if s.dirs.any (·.rawVolume = volume) then M.fail .VolumeStillInUse else
  let volIdx ← getVolumeById volume
  withVol volIdx Fat.updateInfoSector
  M.modify fun s => { s with vols := swapRemove s.vols volIdx }

/-- `find_directory_entry(directory, name)`. -/
def findDirectoryEntry (directory : Nat) (name : List Nat) : M DirEntry := do
  let dirIdx ← getDirById directory
  let d ← getDir dirIdx
  let volIdx ← getVolumeById d.rawVolume
  let sfn ← toSfn name
  withVol volIdx (Fat.findDirectoryEntry d.cluster sfn)

/-- `iterate_dir(directory, func)`: the arguments `func` is called with, in order. -/
def iterateDir (directory : Nat) : M (List DirEntry) := do
  let dirIdx ← getDirById directory
  let d ← getDir dirIdx
  let volIdx ← getVolumeById d.rawVolume
  let es ← withVol volIdx (Fat.iterateRaw d.cluster)
  pure ((es.map (·.1)).filter fun e => !Attr.isLfn e.attributes)

/-! ### Long file names in listings -/

inductive SeqState | Waiting | Remaining (csum next : Nat) | Complete (csum : Nat)
  deriving Repr, DecidableEq

/-- `SeqState::update` (panics only if `LfnBuffer::push` does). -/
def SeqState.update (st : SeqState) (buf : Lfn.Buf) (start : Bool) (sequence csum : Nat) (frag : List Nat) :
    Res (SeqState × Lfn.Buf) :=
  if start ∧ sequence = 1 then do
    let b ← Lfn.push (Lfn.clear buf) frag
    pure (.Complete csum, b)
  else if start ∧ sequence ≥ 2 ∧ sequence < 0x14 then do
    let b ← Lfn.push (Lfn.clear buf) frag
    pure (.Remaining csum (sequence - 1), b)
  else match st with
    | .Remaining c next =>
      if !start ∧ sequence = 1 ∧ next = sequence ∧ c = csum then do
        let b ← Lfn.push buf frag
        pure (.Complete csum, b)
      else if !start ∧ sequence ≥ 1 ∧ sequence < 0x13 ∧ next = sequence ∧ c = csum then do
        let b ← Lfn.push buf frag
        pure (.Remaining csum (sequence - 1), b)
      else pure (.Waiting, Lfn.clear buf)
    | _ => pure (.Waiting, Lfn.clear buf)

/-- The closure of `iterate_dir_lfn` folded over the valid entries. -/
def lfnFold : SeqState → Lfn.Buf → List (DirEntry × Bytes) → Res (List (DirEntry × Option Bytes))
  | _, _, [] => .ok []
  | st, buf, (de, raw) :: rest =>
    match OnDisk.lfnContents raw with
    | some (start, seqno, csum, frag) => do
      let (st', buf') ← st.update buf start seqno csum frag
      lfnFold st' buf' rest
    | none =>
      let name : Option Bytes := match st with
        | .Complete csum => if csum = Sfn.csum de.name then some (Lfn.asStr buf) else none
        | _ => none
      do
        let tl ← lfnFold .Waiting buf rest
        pure ((de, name) :: tl)

/-- `iterate_dir_lfn(directory, lfn_buffer, func)` with a fresh buffer of `bufSize` bytes. -/
def iterateDirLfn (directory : Nat) (bufSize : Nat) : M (List (DirEntry × Option Bytes)) := do
  let dirIdx ← getDirById directory
  let d ← getDir dirIdx
  let volIdx ← getVolumeById d.rawVolume
  let es ← withVol volIdx (Fat.iterateRaw d.cluster)
  M.lift (lfnFold .Waiting (Lfn.new (zeros bufSize)) es)

/-! ### Files -/

/-- The `for _ in 0..num_clusters` walk of `find_data_on_disk`: the position reached and, when
`next_cluster` failed, that failure (the Rust has advanced `*start` up to that point). -/
def walkClusters (bpc : Nat) : Nat → Nat × Nat → F ((Nat × Nat) × Res Unit)
  | 0, st => pure (st, .ok ())
  | n + 1, st => do
    let r ← F.attempt (Fat.nextCluster st.2)
    match r with
    | .ok c => walkClusters bpc n (st.1 + bpc, c)
    | other => pure (st, other.bind fun _ => .ok ())

/-- `find_data_on_disk(volume_idx, start, file_start, desired_offset)`: the updated `*start`
(also on failure) and the outcome (block, offset in block, bytes available). -/
def findDataOnDisk (fileStart desiredOffset : Nat) (start : Nat × Nat) : F ((Nat × Nat) × Res (Nat × Nat × Nat)) := do
  let v ← F.getVol
  let bpc := Fat.bytesPerCluster v
  let start := if desiredOffset < start.1 then (0, fileStart) else start
  if bpc = 0 then F.panic "attempt to divide by zero" else
  let numClusters := (desiredOffset - start.1) / bpc
  let (start, r) ← walkClusters bpc numClusters start
  match r with
  | .ok () =>
    let offsetFromCluster := desiredOffset - start.1
    if ¬ offsetFromCluster < bpc then F.panic "assertion failed: offset_from_cluster < bytes_per_cluster" else
    let blockIdx := Fat.clusterToBlock v start.2 + offsetFromCluster / BLOCK_LEN_U32
    let blockOffset := desiredOffset % BLOCK_LEN_U32
    pure (start, .ok (blockIdx, blockOffset, BLOCK_LEN - blockOffset))
  | other => pure (start, other.bind fun _ => .ok (0, 0, 0))

/-- `open_file_in_dir(directory, name, mode)`. -/
def openFileInDir (directory : Nat) (name : List Nat) (mode : Mode) : M Nat := do
  let s ← M.get
  if s.files.length ≥ s.maxFiles then M.fail .TooManyOpenFiles else
  let dirIdx ← getDirById directory
  let d ← getDir dirIdx
  let volumeId := d.rawVolume
  let volIdx ← getVolumeById volumeId
  let sfn ← toSfn name
  let r ← M.attempt (withVol volIdx (Fat.findDirectoryEntry d.cluster sfn))
  let dirEntry ← (match r with
    | .ok e => pure (some e)
    | .err .NotFound =>
      if mode = .ReadWriteCreate ∨ mode = .ReadWriteCreateOrTruncate ∨ mode = .ReadWriteCreateOrAppend
      then pure none else M.fail .NotFound
    | other => M.lift (other.bind fun _ => .ok none) : M (Option DirEntry))
  let s ← M.get
  match dirEntry with
  | some e => if fileIsOpen s volumeId e then M.fail .FileAlreadyOpen else pure ()
  | none => pure ()
  let mode := solveModeVariant mode dirEntry.isSome
  match mode, dirEntry with
  | .ReadWriteCreate, some _ => M.fail .FileAlreadyExists
  | .ReadWriteCreate, none => do
    let volIdx ← getVolumeById volumeId
    let now := s.clock
    let entry ← withVol volIdx (Fat.writeNewDirectoryEntry d.cluster sfn 0 CLUSTER_EMPTY now)
    let id ← generate
    let file : FileInfo := { rawFile := id, rawVolume := volumeId, curClusterOff := 0, curCluster := entry.cluster,
                             currentOffset := 0, mode := mode, entry := entry, dirty := false }
    M.modify fun s => { s with files := s.files ++ [file] }
    pure id
  | _, none => M.panic "called `Option::unwrap()` on a `None` value"
  | _, some e => do
    if Attr.isReadOnly e.attributes ∧ mode ≠ .ReadOnly then M.fail .ReadOnly else
    if Attr.isDirectory e.attributes then M.fail .OpenedDirAsFile else
    if fileIsOpen s volumeId e then M.fail .FileAlreadyOpen else
    let mode := solveModeVariant mode true
    let id ← generate
    let base : FileInfo := { rawFile := id, rawVolume := volumeId, curClusterOff := 0, curCluster := e.cluster,
                             currentOffset := 0, mode := mode, entry := e, dirty := false }
    let file ← (match mode with
      | .ReadOnly => pure base
      | .ReadWriteAppend => pure { base with currentOffset := e.size }
      | .ReadWriteTruncate => do
        withVol volIdx (Fat.truncateClusterChain e.cluster)
        let f := base.updateLength 0
        let f := { f with entry := { f.entry with mtime := s.clock } }
        withVol volIdx (Fat.writeEntryToDisk f.entry)
        pure f
      | _ => M.fail .Unsupported : M FileInfo)
    M.modify fun s => { s with files := s.files ++ [file] }
    pure id

/-- `delete_file_in_dir(directory, name)`. -/
def deleteFileInDir (directory : Nat) (name : List Nat) : M Unit := do
  let dirIdx ← getDirById directory
  let d ← getDir dirIdx
  let volIdx ← getVolumeById d.rawVolume
  let sfn ← toSfn name
  let e ← withVol volIdx (Fat.findDirectoryEntry d.cluster sfn)
  if Attr.isDirectory e.attributes then M.fail .DeleteDirAsFile else
  let s ← M.get
  if fileIsOpen s d.rawVolume e then M.fail .FileAlreadyOpen else
  let volIdx ← getVolumeById d.rawVolume
  withVol volIdx (do Fat.deleteDirectoryEntry d.cluster sfn; Fat.freeClusterChain e.cluster)

/-- `make_dir_in_dir(directory, name)`. -/
def makeDirInDir (directory : Nat) (name : List Nat) : M Unit := do
  let s ← M.get
  if s.dirs.length ≥ s.maxDirs then M.fail .TooManyOpenDirs else
  let parentIdx ← getDirById directory
  let parent ← getDir parentIdx
  let volIdx ← getVolumeById parent.rawVolume
  let sfn ← toSfn name
  let r ← M.attempt (withVol volIdx (Fat.findDirectoryEntry parent.cluster sfn))
  match r with
  | .ok e => if Attr.isDirectory e.attributes then M.fail .DirAlreadyExists else M.fail .FileAlreadyExists
  | .err .NotFound => withVol volIdx (Fat.makeDir parent.cluster sfn ATTR_DIRECTORY s.clock)
  | other => M.lift (other.bind fun _ => .ok ())

/-- The `while` loop of `read`. `startOffset` is restored when a step fails. -/
def readLoop (fileIdx volIdx startOffset : Nat) : (fuel : Nat) → (space : Nat) → (acc : Bytes) → M Bytes
  | 0, _, acc => pure acc
  | fuel + 1, space, acc => do
    let f ← getFile fileIdx
    if space = 0 ∨ f.eof then pure acc else
    let r ← M.attempt (withVol volIdx (findDataOnDisk f.entry.cluster f.currentOffset (f.curClusterOff, f.curCluster)))
    match r with
    | .ok (cc, .ok (blockIdx, blockOffset, blockAvail)) => do
      modifyFile fileIdx fun f => { f with curClusterOff := cc.1, curCluster := cc.2 }
      let rb ← M.attempt (withVol volIdx (do cacheRead blockIdx; cacheBlk))
      match rb with
      | .ok blk => do
        let toCopy := min (min blockAvail space) f.left
        if toCopy = 0 then M.panic "assertion failed: to_copy != 0" else
        modifyFile fileIdx fun f => { f with currentOffset := f.currentOffset + toCopy }
        readLoop fileIdx volIdx startOffset fuel (space - toCopy) (acc ++ slice blk blockOffset toCopy)
      | other => do
        modifyFile fileIdx fun f => { f with currentOffset := startOffset }
        M.lift (other.bind fun _ => .ok [])
    | .ok (_, other) => do
      modifyFile fileIdx fun f => { f with currentOffset := startOffset }
      M.lift (other.bind fun _ => .ok [])
    | other => M.lift (other.bind fun _ => .ok [])

/-- `read(file, buffer)` with `buffer.len() = n`: the bytes copied into the buffer. -/
def read (file : Nat) (n : Nat) : M Bytes := do
  let fileIdx ← getFileById file
  let f ← getFile fileIdx
  let volIdx ← getVolumeById f.rawVolume
  readLoop fileIdx volIdx f.currentOffset (n + 1) n []

/-- The block write inside the loop of `write`: when the whole block is replaced the previous
contents are irrelevant (`blank_mut`), otherwise the block is read first (`read_mut`) and only
`data.length` bytes at `blockOffset` change. -/
def writeBlockPart (blockIdx blockOffset : Nat) (data : Bytes) (whole : Bool) : F Unit := do
  if whole then blankMut blockIdx else cacheRead blockIdx
  cacheModify fun b => splice b blockOffset data
  writeBack

/-- The `while written < bytes_to_write` loop of `write`. -/
def writeLoop (fileIdx volIdx : Nat) : (fuel : Nat) → (buffer : Bytes) → M Unit
  | 0, _ => pure ()
  | fuel + 1, buffer => do
    if buffer.isEmpty then pure () else
    let f ← getFile fileIdx
    let cc0 := (f.curClusterOff, f.curCluster)
    let r ← M.attempt (withVol volIdx (findDataOnDisk f.entry.cluster f.currentOffset cc0))
    let (cc, (blockIdx, blockOffset, blockAvail)) ← (match r with
      | .ok (cc, .ok x) => pure (cc, x)
      | .ok (cc, .err .EndOfFile) => do
        -- "Extending file": `current_cluster` has been advanced to the chain's last cluster
        let ra ← M.attempt (withVol volIdx (Fat.allocCluster (some cc.2) false))
        match ra with
        | .ok _ => do
          let r2 ← M.attempt (withVol volIdx (findDataOnDisk f.entry.cluster f.currentOffset cc))
          match r2 with
          | .ok (cc2, .ok x) => pure (cc2, x)
          | .ok (_, .err _) => M.fail .AllocationError
          | .ok (_, other) => M.lift (other.bind fun _ => .err .AllocationError)
          | other => M.lift (other.bind fun _ => .err .AllocationError)
        | .err _ => M.fail .DiskFull
        | other => M.lift (other.bind fun _ => .err .DiskFull)
      | .ok (_, other) => M.lift (other.bind fun _ => .err .DiskFull)
      | other => M.lift (other.bind fun _ => .err .DiskFull) : M ((Nat × Nat) × (Nat × Nat × Nat)))
    let toCopy := min blockAvail buffer.length
    withVol volIdx (writeBlockPart blockIdx blockOffset (buffer.take toCopy) (blockOffset = 0 ∧ toCopy = blockAvail))
    modifyFile fileIdx fun f =>
      let newOffset := f.currentOffset + toCopy
      let f := { f with curClusterOff := cc.1, curCluster := cc.2 }
      let f := if newOffset > f.entry.size then f.updateLength newOffset else f
      { f with currentOffset := newOffset }
    writeLoop fileIdx volIdx fuel (buffer.drop toCopy)

/-- `write(file, buffer)`. -/
def write (file : Nat) (buffer : Bytes) : M Unit := do
  let fileIdx ← getFileById file
  let f ← getFile fileIdx
  let volIdx ← getVolumeById f.rawVolume
  if f.mode = .ReadOnly then M.fail .ReadOnly else
  let s0 ← M.get
  modifyFile fileIdx fun f => { f with dirty := true, entry := { f.entry with attributes := Attr.setArchive f.entry.attributes, mtime := s0.clock } }
  if f.entry.cluster < RESERVED_ENTRIES then do
    let c ← withVol volIdx (Fat.allocCluster none false)
    modifyFile fileIdx fun f => { f with entry := { f.entry with cluster := c } }
  let volIdx ← getVolumeById f.rawVolume
  modifyFile fileIdx fun f =>
    if f.curCluster < f.entry.cluster then { f with curClusterOff := 0, curCluster := f.entry.cluster } else f
  let f ← getFile fileIdx
  let bytesUntilMax := MAX_FILE_SIZE - f.currentOffset
  let bytesToWrite := min buffer.length bytesUntilMax
  writeLoop fileIdx volIdx (bytesToWrite + 1) (buffer.take bytesToWrite)
  -- the part beyond the maximum file size was dropped: report it (as a write that runs out of clusters does)
  if bytesToWrite < buffer.length then M.fail .DiskFull else pure ()

/-- `flush_file(file)`. -/
def flushFile (file : Nat) : M Unit := do
  let fileIdx ← getFileById file
  let f ← getFile fileIdx
  if f.dirty then do
    let volIdx ← getVolumeById f.rawVolume
    withVol volIdx Fat.updateInfoSector
    if f.entry.size ≠ 0 ∧ f.entry.cluster = 0 then M.panic "assertion failed: entry.cluster.0 != 0" else
    withVol volIdx (Fat.writeEntryToDisk f.entry)
  else pure ()

/-- `close_file(file)`. -/
def closeFile (file : Nat) : M Unit := do
  let flushResult ← M.attempt (flushFile file)
  let fileIdx ← getFileById file
  M.modify fun s => { s with files := swapRemove s.files fileIdx }
  M.lift flushResult

/-- `has_open_handles()`. -/
def hasOpenHandles (s : Mgr) : Bool := !(s.dirs.isEmpty && s.files.isEmpty)

def fileEof (file : Nat) : M Bool := do
  let i ← getFileById file; let f ← getFile i; pure f.eof
def fileLength (file : Nat) : M Nat := do
  let i ← getFileById file; let f ← getFile i; pure f.length
def fileOffset (file : Nat) : M Nat := do
  let i ← getFileById file; let f ← getFile i; pure f.currentOffset

def fileSeekFromStart (file offset : Nat) : M Unit := do
  let i ← getFileById file; let f ← getFile i
  match f.seekFromStart offset with
  | some f' => setFile i f'
  | none => M.fail .InvalidOffset
def fileSeekFromCurrent (file : Nat) (offset : Int) : M Unit := do
  let i ← getFileById file; let f ← getFile i
  match f.seekFromCurrent offset with
  | some f' => setFile i f'
  | none => M.fail .InvalidOffset
def fileSeekFromEnd (file offset : Nat) : M Unit := do
  let i ← getFileById file; let f ← getFile i
  match f.seekFromEnd offset with
  | some f' => setFile i f'
  | none => M.fail .InvalidOffset

/-- `u8::is_ascii_whitespace`. -/
def isAsciiWhitespace (b : UInt8) : Bool :=
  b.toNat = 0x20 ∨ b.toNat = 0x09 ∨ b.toNat = 0x0A ∨ b.toNat = 0x0C ∨ b.toNat = 0x0D

/-- `VolumeName::name()`: trailing ASCII whitespace trimmed. -/
def volumeNameTrim (b : Bytes) : Bytes := (b.reverse.dropWhile isAsciiWhitespace).reverse

/-- `get_root_volume_label(raw_volume)`. -/
def getRootVolumeLabel (volume : Nat) : M (Option Bytes) := do
  let volIdx ← getVolumeById volume
  let vi ← getVolInfo volIdx
  if !(volumeNameTrim vi.vol.name).isEmpty then pure (some vi.vol.name) else
  let dir ← openRootDir volume
  let r ← M.attempt (iterateDir dir)
  -- the `Directory` wrapper is dropped on every path: `close_dir`, result ignored
  let _ ← M.attempt (closeDir dir)
  let es ← M.lift r
  pure ((es.find? fun e => e.attributes = ATTR_VOLUME).map (·.name))

/-! ### The transition function -/

inductive Op
  | openVolume (idx : Nat) | closeVolume (v : Nat) | openRoot (v : Nat)
  | openDir (d : Nat) (name : List Nat) | closeDir (d : Nat)
  | openFile (d : Nat) (name : List Nat) (mode : Mode)
  | read (f n : Nat) | write (f : Nat) (data : Bytes)
  | seekStart (f n : Nat) | seekCur (f : Nat) (n : Int) | seekEnd (f n : Nat)
  | flush (f : Nat) | closeFile (f : Nat)
  | delete (d : Nat) (name : List Nat) | mkdir (d : Nat) (name : List Nat)
  | find (d : Nat) (name : List Nat) | list (d : Nat) | listLfn (d bufSize : Nat)
  | length (f : Nat) | offset (f : Nat) | eof (f : Nat) | hasOpen | label (v : Nat)
  deriving Repr

/-- What a call returns to the user. -/
inductive Payload
  | unit | handle (h : Nat) | bytes (b : Bytes) | num (n : Nat) | bool (b : Bool)
  | entry (e : DirEntry) | entries (es : List DirEntry) | lfnEntries (es : List (DirEntry × Option Bytes))
  | label (l : Option Bytes)
  deriving Repr

structure Out where
  result : Res Payload
  /-- device writes of this call, in order -/
  writes : List (Nat × Block)
  /-- device reads of this call, in order -/
  reads : List Nat

def runOp : Op → M Payload
  | .openVolume i => do let h ← openRawVolume i; pure (.handle h)
  | .closeVolume v => do closeVolume v; pure .unit
  | .openRoot v => do let h ← openRootDir v; pure (.handle h)
  | .openDir d n => do let h ← openDir d n; pure (.handle h)
  | .closeDir d => do closeDir d; pure .unit
  | .openFile d n m => do let h ← openFileInDir d n m; pure (.handle h)
  | .read f n => do let b ← read f n; pure (.bytes b)
  | .write f b => do write f b; pure .unit
  | .seekStart f n => do fileSeekFromStart f n; pure .unit
  | .seekCur f n => do fileSeekFromCurrent f n; pure .unit
  | .seekEnd f n => do fileSeekFromEnd f n; pure .unit
  | .flush f => do flushFile f; pure .unit
  | .closeFile f => do closeFile f; pure .unit
  | .delete d n => do deleteFileInDir d n; pure .unit
  | .mkdir d n => do makeDirInDir d n; pure .unit
  | .find d n => do let e ← findDirectoryEntry d n; pure (.entry e)
  | .list d => do let es ← iterateDir d; pure (.entries es)
  | .listLfn d n => do let es ← iterateDirLfn d n; pure (.lfnEntries es)
  | .length f => do let n ← fileLength f; pure (.num n)
  | .offset f => do let n ← fileOffset f; pure (.num n)
  | .eof f => do let b ← fileEof f; pure (.bool b)
  | .hasOpen => fun s => (.ok (.bool (hasOpenHandles s)), s)
  | .label v => do let l ← getRootVolumeLabel v; pure (.label l)

/-- Does the method return a `Result` (and therefore `LockError` when the `RefCell` is borrowed)?
`has_open_handles` does not: it panics instead. -/
def Op.returnsResult : Op → Bool
  | .hasOpen => false
  | _ => true

/-- One API call.  With `locked` (a call made from inside a directory-iteration callback) every
`Result`-returning method answers `LockError` and touches nothing. -/
def step (s : Mgr) (op : Op) : Mgr × Out :=
  if s.locked then
    if op.returnsResult then (s, { result := .err .LockError, writes := [], reads := [] })
    else (s, { result := .panic "already mutably borrowed", writes := [], reads := [] })
  else
    let s0 := { s with dev := { s.dev with wlog := [], rlog := [] } }
    let (r, s') := runOp op s0
    (s', { result := r, writes := s'.dev.wlog.reverse, reads := s'.dev.rlog.reverse })

/-- A history. -/
def run (s : Mgr) : List Op → Mgr × List Out
  | [] => (s, [])
  | op :: ops =>
    let (s', o) := step s op
    let (s'', os) := run s' ops
    (s'', o :: os)

end Sdmmc.Model
