/-
Model of /repo/src/filesystem/timestamp.rs (`Timestamp::{from_fat, serialize_to_fat,
from_calendar}`).  Fields are `u8` in Rust; here `Nat` with the width applied where
the code truncates.  Shifts and masks are written as div/mod (the masks in the code
select contiguous bit ranges); the tie to the code is the exhaustive correspondence
run over all 2^16 dates and all 2^16 times.
-/
import Sdmmc.Model.Prim

namespace Sdmmc.Model

structure Timestamp where
  year_since_1970 : Nat
  zero_indexed_month : Nat
  zero_indexed_day : Nat
  hours : Nat
  minutes : Nat
  seconds : Nat
  deriving DecidableEq, Repr, Inhabited

namespace Timestamp

/-- `Timestamp::from_fat(date, time)`, `date time : u16`. -/
def fromFat (date time : Nat) : Timestamp :=
  let year := 1980 + date / 512            -- `1980 + (date >> 9)`, at most 2107: no overflow
  let month := date / 32 % 16              -- `((date >> 5) & 0x000F) as u8`
  let day := date % 32                     -- `(date & 0x001F) as u8`
  let hours := time / 2048 % 32            -- `((time >> 11) & 0x001F) as u8`
  let minutes := time / 32 % 64            -- `((time >> 5) & 0x0003F) as u8`
  let seconds := time * 2 % 65536 % 64     -- `((time << 1) & 0x0003F) as u8`
  { year_since_1970 := (year - 1970) % 256
    zero_indexed_month := if month = 0 then 0 else month - 1
    zero_indexed_day := if day = 0 then 0 else day - 1
    hours := hours, minutes := minutes, seconds := seconds }

/-- The `u16` time word written by `serialize_to_fat`. -/
def fatTime (t : Timestamp) : Nat :=
  let hours := t.hours * 2048 % 65536 / 2048 * 2048     -- `(u16::from(hours) << 11) & 0xF800`
  let minutes := t.minutes * 32 % 65536 / 32 % 64 * 32  -- `(u16::from(minutes) << 5) & 0x07E0`
  let seconds := t.seconds / 2 % 32                      -- `u16::from(seconds / 2) & 0x001F`
  hours + minutes + seconds                              -- `|` of disjoint bit ranges

/-- The `u16` date word written by `serialize_to_fat`.  Domain: `zero_indexed_month < 255`
and `zero_indexed_day < 255` (the `+ 1` is a `u8` addition and panics at 255). -/
def fatDate (t : Timestamp) : Nat :=
  let year := if t.year_since_1970 < 10 then 0
              else (t.year_since_1970 - 10) * 512 % 65536 / 512 * 512   -- `(.. << 9) & 0xFE00`
  let month := (t.zero_indexed_month + 1) * 32 % 65536 / 32 % 16 * 32   -- `(.. << 5) & 0x01E0`
  let day := (t.zero_indexed_day + 1) % 32                              -- `.. & 0x001F`
  year + month + day

/-- `serialize_to_fat`: time word then date word, little-endian. -/
def serializeToFat (t : Timestamp) : Bytes := leU16 (fatTime t) ++ leU16 (fatDate t)

/-- `Timestamp::from_calendar`. -/
def fromCalendar (year month day hours minutes seconds : Nat) : Except String Timestamp :=
  if ¬ (1970 ≤ year ∧ year ≤ 1970 + 255) then .error "Bad year"
  else if ¬ (1 ≤ month ∧ month ≤ 12) then .error "Bad month"
  else if ¬ (1 ≤ day ∧ day ≤ 31) then .error "Bad day"
  else if ¬ (hours ≤ 23) then .error "Bad hours"
  else if ¬ (minutes ≤ 59) then .error "Bad minutes"
  else if ¬ (seconds ≤ 59) then .error "Bad seconds"
  else .ok { year_since_1970 := year - 1970, zero_indexed_month := month - 1, zero_indexed_day := day - 1,
             hours := hours, minutes := minutes, seconds := seconds }

/-- All six fields fit a `u8`. -/
def WF (t : Timestamp) : Prop :=
  t.year_since_1970 < 256 ∧ t.zero_indexed_month < 255 ∧ t.zero_indexed_day < 255 ∧
  t.hours < 256 ∧ t.minutes < 256 ∧ t.seconds < 256

instance (t : Timestamp) : Decidable t.WF := by unfold WF; infer_instance

end Timestamp
end Sdmmc.Model
