/-
Model of `ShortFileName` in /repo/src/filesystem/filename.rs: `create_from_str`,
`Display`, `csum`, `this_dir`, `parent_dir`.

Input strings are lists of Unicode scalar values (`Nat` code points), because the
Rust iterates `name.chars()`.  ISO-8859-1 test: `c ≤ 0xFF`.
-/
import Sdmmc.Model.Prim
import Sdmmc.Gen.Consts

namespace Sdmmc.Model
namespace Sfn

def BASE_LEN : Nat := Gen.SFN_BASE_LEN
def TOTAL_LEN : Nat := Gen.SFN_TOTAL_LEN

/-- `ShortFileName::this_dir()` = `b".          "`. -/
def thisDir : Bytes := UInt8.ofNat 46 :: List.replicate 10 (UInt8.ofNat 32)
/-- `ShortFileName::parent_dir()` = `b"..         "`. -/
def parentDir : Bytes := UInt8.ofNat 46 :: UInt8.ofNat 46 :: List.replicate 9 (UInt8.ofNat 32)

/-- The characters rejected by the first `match` arm of `create_from_str`
(`'\u{0000}'..='\u{001F}' | '"' | '*' | '+' | ',' | '/' | ':' | ';' | '<' | '=' | '>' | '?' | '[' | '\\' | ']' | ' ' | '|'`). -/
def invalidChar (c : Nat) : Bool :=
  c ≤ 0x1F || c == 0x22 || c == 0x2A || c == 0x2B || c == 0x2C || c == 0x2F || c == 0x3A ||
  c == 0x3B || c == 0x3C || c == 0x3D || c == 0x3E || c == 0x3F || c == 0x5B || c == 0x5C ||
  c == 0x5D || c == 0x20 || c == 0x7C

/-- `char::to_ascii_uppercase` followed by `as u8` (for `c ≤ 0xFF`). -/
def upper (c : Nat) : Nat := if 0x61 ≤ c ∧ c ≤ 0x7A then c - 0x20 else c

/-- Loop state of `create_from_str`: contents, idx, seen_dot. -/
structure PState where
  contents : Bytes
  idx : Nat
  seenDot : Bool
  deriving Repr

/-- One iteration of the `for ch in name.chars()` loop. -/
def step (st : PState) (ch : Nat) : Except FnErr PState :=
  if invalidChar ch then .error .InvalidCharacter
  else if ch > 0xFF then .error .InvalidCharacter
  else if ch = 0x2E then
    if 1 ≤ st.idx ∧ st.idx ≤ BASE_LEN ∧ !st.seenDot then .ok { st with idx := BASE_LEN, seenDot := true }
    else .error .MisplacedPeriod
  else
    let b := UInt8.ofNat (upper ch)
    if st.seenDot then
      if BASE_LEN ≤ st.idx ∧ st.idx < TOTAL_LEN then
        .ok { st with contents := st.contents.set st.idx b, idx := st.idx + 1 }
      else .error .NameTooLong
    else if st.idx < BASE_LEN then
      .ok { st with contents := st.contents.set st.idx b, idx := st.idx + 1 }
    else .error .NameTooLong

def loop : PState → List Nat → Except FnErr PState
  | st, [] => .ok st
  | st, ch :: rest =>
    match step st ch with
    | .ok st' => loop st' rest
    | .error e => .error e

/-- The 0x05 substitution of the FAT specification, on the way to the medium: after the loop of
`create_from_str`, `if sfn.contents[0] == 0xE5 { sfn.contents[0] = 0x05; }` — a first byte 0xE5
would read as the deleted-entry marker. -/
def kanjiStore : Bytes → Bytes
  | [] => []
  | b :: rest => (if b.toNat = 0xE5 then UInt8.ofNat 0x05 else b) :: rest

/-- The same substitution on the way back, in `Display`: byte 0 is printed as 0xE5 when it is 0x05
(`let c = if i == 0 && c == 0x05 { 0xE5 } else { c };` at the top of the loop body). -/
def kanjiShow : Bytes → Bytes
  | [] => []
  | b :: rest => (if b.toNat = 0x05 then UInt8.ofNat 0xE5 else b) :: rest

/-- `ShortFileName::create_from_str`. -/
def createFromStr (name : List Nat) : Except FnErr Bytes :=
  if name = [0x2E, 0x2E] then .ok parentDir
  else if name = [] ∨ name = [0x2E] then .ok thisDir
  else
    match loop { contents := List.replicate TOTAL_LEN (UInt8.ofNat 32), idx := 0, seenDot := false } name with
    | .error e => .error e
    | .ok st => if st.idx = 0 then .error .FilenameEmpty else .ok (kanjiStore st.contents)

/-- `impl Display for ShortFileName` (without width padding): the printed code points of the bytes
as they are; `display` applies the 0x05 → 0xE5 substitution to byte 0 first. -/
def displayAux : Nat → Bytes → List Nat
  | _, [] => []
  | i, c :: rest =>
    if c.toNat ≠ 32 then
      (if i = BASE_LEN then [0x2E, c.toNat] else [c.toNat]) ++ displayAux (i + 1) rest
    else displayAux (i + 1) rest

def display (contents : Bytes) : List Nat := displayAux 0 (kanjiShow contents)

/-- `ShortFileName::csum`: `result.rotate_right(1).wrapping_add(b)` over the 11 bytes. -/
def csum (contents : Bytes) : Nat :=
  contents.foldl (fun r b => ((r / 2 + (r % 2) * 128) + b.toNat) % 256) 0

end Sfn
end Sdmmc.Model
