/-
Model of `impl FatVolume` in /repo/src/fat/volume.rs — one function per Rust function,
same order of cache / device calls.  Loops over blocks and slots are structural; the
FAT-chain walks (`while let Some(cluster)`, `loop` in `truncate_cluster_chain`) take
fuel and return `diverged` when it runs out (the Rust never terminates on a cyclic FAT).

Cluster ids and block numbers are `Nat`; the `u32` wrap-around of a corrupt volume is
outside the model (hypothesis `WFGeom`, established by mounting — C15).
-/
import Sdmmc.Model.Dev

namespace Sdmmc.Model
namespace Fat

open Sdmmc.Gen

/-- `end_cluster = cluster_count + RESERVED_ENTRIES`. -/
def endCluster (v : FatVolume) : Nat := v.clusterCount + RESERVED_ENTRIES

/-- Fuel for chain walks: more links than a well-formed chain can have. -/
def chainFuel (v : FatVolume) : Nat := v.clusterCount + 3

/-- Width in bytes of one FAT entry. -/
def entryWidth : FatType → Nat | .fat16 => 2 | .fat32 => 4

/-- Absolute block holding the FAT entry of `cluster` in the first FAT:
`lba_start + fat_start.offset_bytes(cluster * width)`. -/
def fatBlock (v : FatVolume) (cluster : Nat) : Nat :=
  v.lbaStart + (v.fatStart + cluster * entryWidth v.fatType / BLOCK_LEN_U32)

/-- The same entry in the second FAT, if there is one. -/
def fatBlock2 (v : FatVolume) (cluster : Nat) : Option Nat :=
  v.secondFatStart.map fun s => v.lbaStart + (s + cluster * entryWidth v.fatType / BLOCK_LEN_U32)

/-- Byte offset of the entry inside its FAT block. -/
def fatEntOffset (v : FatVolume) (cluster : Nat) : Nat := cluster * entryWidth v.fatType % BLOCK_LEN_U32

/-- `bytes_per_cluster`. -/
def bytesPerCluster (v : FatVolume) : Nat := v.blocksPerCluster * BLOCK_LEN_U32

/-- `cluster_to_block` (absolute). Rust panics for ordinary clusters below 2 (`c - 2` underflows);
here the subtraction truncates — callers are shown to pass `c ≥ 2` under `WFfs`. -/
def clusterToBlock (v : FatVolume) (cluster : Nat) : Nat :=
  match v.fatType with
  | .fat16 =>
    if cluster = CLUSTER_ROOT_DIR then v.lbaStart + v.firstRootDirBlock
    else v.lbaStart + (v.firstDataBlock + (cluster - 2) * v.blocksPerCluster)
  | .fat32 =>
    let c := if cluster = CLUSTER_ROOT_DIR then v.firstRootDirCluster else cluster
    v.lbaStart + v.firstDataBlock + (c - 2) * v.blocksPerCluster

/-- The FAT16 value written for a `ClusterId` by `update_fat`. -/
def fat16Entry (newValue : Nat) : Nat :=
  if newValue = CLUSTER_INVALID then 0xFFF6
  else if newValue = CLUSTER_BAD then 0xFFF7
  else if newValue = CLUSTER_EMPTY then 0x0000
  else if newValue = CLUSTER_END_OF_FILE then 0xFFFF
  else newValue % 65536

/-- The FAT32 value (before the top nibble merge) written for a `ClusterId` by `update_fat`. -/
def fat32Entry (newValue : Nat) : Nat :=
  if newValue = CLUSTER_INVALID then 0x0FFFFFF6
  else if newValue = CLUSTER_BAD then 0x0FFFFFF7
  else if newValue = CLUSTER_EMPTY then 0
  else newValue

/-- The new contents of a FAT block after `update_fat` patched the entry at `off`. -/
def patchFatBlock (ft : FatType) (blk : Block) (off newValue : Nat) : Block :=
  match ft with
  | .fat16 => splice blk off (leU16 (fat16Entry newValue))
  | .fat32 =>
    let existing := readU32 blk off
    -- `(existing & 0xF000_0000) | (entry & 0x0FFF_FFFF)`
    splice blk off (leU32 (existing / 268435456 * 268435456 + fat32Entry newValue % 268435456))

/-- `update_fat(cluster, new_value)`. -/
def updateFat (cluster newValue : Nat) : F Unit := do
  let v ← F.getVol
  cacheRead (fatBlock v cluster)
  cacheModify fun blk => patchFatBlock v.fatType blk (fatEntOffset v cluster) newValue
  match fatBlock2 v cluster with
  | some dup => writeBackWithDuplicate dup
  | none => writeBack

/-- Decode a raw FAT entry the way `next_cluster` does. -/
def decodeNext (ft : FatType) (raw : Nat) : Res Nat :=
  match ft with
  | .fat16 =>
    if raw = 0xFFF7 then .err .BadCluster
    else if raw ≥ 0xFFF8 then .err .EndOfFile
    else .ok raw
  | .fat32 =>
    let f := raw % 268435456       -- `& 0x0FFF_FFFF`
    if f = 0 then .err .UnterminatedFatChain
    else if f = 0x0FFFFFF7 then .err .BadCluster
    else if f = 1 ∨ f ≥ 0x0FFFFFF8 then .err .EndOfFile
    else .ok f

/-- Raw FAT entry of `cluster` as stored in a FAT block. -/
def rawFatEntry (ft : FatType) (blk : Block) (off : Nat) : Nat :=
  match ft with
  | .fat16 => readU16 blk off
  | .fat32 => readU32 blk off

/-- `next_cluster(cluster)`. -/
def nextCluster (cluster : Nat) : F Nat := do
  if cluster > U32_MAX / 4 then F.panic "next_cluster called on invalid cluster" else
  let v ← F.getVol
  cacheRead (fatBlock v cluster)
  let blk ← cacheBlk
  F.lift (decodeNext v.fatType (rawFatEntry v.fatType blk (fatEntOffset v cluster)))

/-- `find_next_free_cluster(start, end)`.  The Rust reads each FAT block once and scans
its entries; reading through the cache at every entry issues the same device calls. -/
def findNextFreeCluster : (fuel : Nat) → (current endC : Nat) → F Nat
  | 0, _, _ => F.fail .NotEnoughSpace
  | fuel + 1, current, endC => do
    if current ≥ endC then F.fail .NotEnoughSpace else
    let v ← F.getVol
    cacheRead (fatBlock v current)
    let blk ← cacheBlk
    let raw := rawFatEntry v.fatType blk (fatEntOffset v current)
    let entry := match v.fatType with | .fat16 => raw | .fat32 => raw % 268435456
    if entry = 0 then pure current
    else findNextFreeCluster fuel (current + 1) endC

/-- `find_next_free_cluster` with enough fuel for the whole range. -/
def findNextFree (start endC : Nat) : F Nat := findNextFreeCluster (endC - start + 1) start endC

/-- Blank and write the blocks `first .. first+n` (`blank_mut` + `write_back`). -/
def zeroBlocks : (n : Nat) → (first : Nat) → F Unit
  | 0, _ => pure ()
  | n + 1, first => do
    blankMut first
    writeBack
    zeroBlocks n (first + 1)

/-- `alloc_cluster(prev_cluster, zero)`. -/
def allocCluster (prev : Option Nat) (zero : Bool) : F Nat := do
  let v ← F.getVol
  let endC := endCluster v
  let start := match v.nextFreeCluster with
    | some c => if c < endC then c else RESERVED_ENTRIES
    | none => RESERVED_ENTRIES
  let r ← F.attempt (findNextFree start endC)
  let newCluster ← (match r with
    | .ok c => pure c
    | .err .NotEnoughSpace =>
      if start > RESERVED_ENTRIES then findNextFree RESERVED_ENTRIES endC else F.fail .NotEnoughSpace
    | other => F.lift other : F Nat)
  if zero then zeroBlocks v.blocksPerCluster (clusterToBlock v newCluster)
  updateFat newCluster CLUSTER_END_OF_FILE
  match prev with
  | some c => updateFat c newCluster
  | none => pure ()
  let r2 ← F.attempt (findNextFree newCluster endC)
  let nextFree ← (match r2 with
    | .ok c => pure (some c)
    | .err .NotEnoughSpace =>
      if newCluster > RESERVED_ENTRIES then do
        let r3 ← F.attempt (findNextFree RESERVED_ENTRIES endC)
        match r3 with
        | .ok c => pure (some c)
        | .err .NotEnoughSpace => pure none
        | other => F.lift (other.bind fun _ => .ok none)
      else pure none
    | other => F.lift (other.bind fun _ => .ok none) : F (Option Nat))
  F.modifyVol fun v => { v with nextFreeCluster := nextFree,
                                freeClustersCount := v.freeClustersCount.map (· - 1) }   -- saturating_sub
  pure newCluster

/-- `n.saturating_add(1)` on `u32`. -/
def satInc (n : Nat) : Nat := if n ≥ U32_MAX then U32_MAX else n + 1

/-- The `loop` of `truncate_cluster_chain`. -/
def truncateLoop : (fuel : Nat) → (next : Nat) → F Unit
  | 0, _ => F.diverge
  | fuel + 1, next => do
    let r ← F.attempt (nextCluster next)
    match r with
    | .ok n =>
      updateFat next CLUSTER_EMPTY
      F.modifyVol fun v => { v with freeClustersCount := v.freeClustersCount.map satInc }
      truncateLoop fuel n
    | .err .EndOfFile =>
      updateFat next CLUSTER_EMPTY
      F.modifyVol fun v => { v with freeClustersCount := v.freeClustersCount.map satInc }
    | other => F.lift (other.bind fun _ => .ok ())

/-- `truncate_cluster_chain(cluster)`. -/
def truncateClusterChain (cluster : Nat) : F Unit := do
  if cluster < RESERVED_ENTRIES then pure () else
  let r ← F.attempt (nextCluster cluster)
  match r with
  | .err .EndOfFile => pure ()
  | .ok next =>
    F.modifyVol fun v => { v with nextFreeCluster :=
      match v.nextFreeCluster with
      | some nf => if nf > next then some next else some nf
      | none => some next }
    updateFat cluster CLUSTER_END_OF_FILE
    let v ← F.getVol
    truncateLoop (chainFuel v) next
  | other => F.lift (other.bind fun _ => .ok ())

/-- `free_cluster_chain(cluster)`. -/
def freeClusterChain (cluster : Nat) : F Unit := do
  if cluster < RESERVED_ENTRIES then pure () else
  truncateClusterChain cluster
  updateFat cluster CLUSTER_EMPTY
  F.modifyVol fun v => { v with
    freeClustersCount := v.freeClustersCount.map satInc
    nextFreeCluster := match v.nextFreeCluster with
      | some nf => if nf ≤ cluster then some nf else some cluster
      | none => some cluster }

/-- `update_info_sector`. -/
def updateInfoSector : F Unit := do
  let v ← F.getVol
  match v.fatType with
  | .fat16 => pure ()
  | .fat32 =>
    if v.freeClustersCount.isNone ∧ v.nextFreeCluster.isNone then pure () else do
    cacheRead v.infoLocation
    match v.freeClustersCount with
    | some c => cacheModify fun b => splice b INFO_WRITE_FREE_LO (leU32 c)
    | none => pure ()
    match v.nextFreeCluster with
    | some c => cacheModify fun b => splice b INFO_WRITE_NEXT_LO (leU32 c)
    | none => pure ()
    writeBack

/-- `write_entry_to_disk(entry)`. -/
def writeEntryToDisk (e : DirEntry) : F Unit := do
  let v ← F.getVol
  cacheRead e.entryBlock
  cacheModify fun b => splice b e.entryOffset (DirEntry.serialize v.fatType e)
  writeBack

/-! ### Directory walks -/

/-- Where a directory starts and how it is walked. -/
structure DirWalk where
  /-- the cluster the walk starts with (`current_cluster`) -/
  cluster : Nat
  /-- first block of that cluster / of the fixed root -/
  firstBlock : Nat
  /-- number of blocks per step (`dir_size`) -/
  dirSize : Nat
  /-- the FAT16 fixed root: no chain to follow -/
  fixedRoot : Bool

/-- The common prologue of the directory functions. -/
def dirWalkStart (v : FatVolume) (dirCluster : Nat) : DirWalk :=
  match v.fatType with
  | .fat16 =>
    if dirCluster = CLUSTER_ROOT_DIR then
      { cluster := dirCluster, firstBlock := v.lbaStart + v.firstRootDirBlock,
        dirSize := blockCountFromBytes (v.rootEntriesCount * DIRENT_LEN), fixedRoot := true }
    else
      { cluster := dirCluster, firstBlock := clusterToBlock v dirCluster,
        dirSize := v.blocksPerCluster, fixedRoot := false }
  | .fat32 =>
    let c := if dirCluster = CLUSTER_ROOT_DIR then v.firstRootDirCluster else dirCluster
    { cluster := c, firstBlock := clusterToBlock v dirCluster, dirSize := v.blocksPerCluster, fixedRoot := false }

/-- The 16 slots of a directory block with their byte offsets. -/
def slotsOf (blk : Block) : List (Nat × Bytes) :=
  (List.range (BLOCK_LEN / DIRENT_LEN)).map fun i => (i * DIRENT_LEN, slice blk (i * DIRENT_LEN) DIRENT_LEN)

/-- Result of scanning one block. -/
inductive Scan (α : Type) | found (a : α) | endMarker | continue_
  deriving Repr

/-! #### Listing -/

/-- One block of `iterate_fat16/32`: the valid entries up to the end marker. -/
def iterateBlockSlots (ft : FatType) (blockIdx : Nat) : List (Nat × Bytes) → List (DirEntry × Bytes) × Bool
  | [] => ([], false)
  | (off, d) :: rest =>
    if OnDisk.isEnd d then ([], true)
    else
      let (es, fin) := iterateBlockSlots ft blockIdx rest
      if OnDisk.isValid d then ((OnDisk.getEntry ft d blockIdx off, d) :: es, fin) else (es, fin)

/-- Blocks `blockIdx .. blockIdx+n` of one cluster / of the fixed root. -/
def iterateBlocks : (n : Nat) → (blockIdx : Nat) → F (List (DirEntry × Bytes) × Bool)
  | 0, _ => pure ([], false)
  | n + 1, blockIdx => do
    let v ← F.getVol
    cacheRead blockIdx
    let blk ← cacheBlk
    let (es, fin) := iterateBlockSlots v.fatType blockIdx (slotsOf blk)
    if fin then pure (es, true) else do
      let (es2, fin2) ← iterateBlocks n (blockIdx + 1)
      pure (es ++ es2, fin2)

/-- The cluster walk of `iterate_fat16` / `iterate_fat32`. -/
def iterateWalk : (fuel : Nat) → (w : DirWalk) → F (List (DirEntry × Bytes))
  | 0, _ => F.diverge
  | fuel + 1, w => do
    let v ← F.getVol
    let (es, fin) ← iterateBlocks w.dirSize w.firstBlock
    if fin then pure es
    else if w.fixedRoot then pure es
    else do
      let r ← F.attempt (nextCluster w.cluster)
      match r with
      | .ok n => do
        let es2 ← iterateWalk fuel { w with cluster := n, firstBlock := clusterToBlock v n }
        pure (es ++ es2)
      | .err .EndOfFile => pure es
      | other => F.lift (other.bind fun _ => .ok [])

/-- `iterate_fat16` / `iterate_fat32`: every valid entry (LFN fragments included) with its raw slot. -/
def iterateRaw (dirCluster : Nat) : F (List (DirEntry × Bytes)) := do
  let v ← F.getVol
  iterateWalk (chainFuel v) (dirWalkStart v dirCluster)

/-! #### Lookup -/

/-- `find_entry_in_block` on the slots of a block that has been read. -/
def findInSlots (ft : FatType) (blockIdx : Nat) (name : Bytes) : List (Nat × Bytes) → Option DirEntry
  | [] => none
  | (off, d) :: rest =>
    if OnDisk.isEnd d then none
    else if OnDisk.matches d name then some (OnDisk.getEntry ft d blockIdx off)
    else findInSlots ft blockIdx name rest

def findBlocks (name : Bytes) : (n : Nat) → (blockIdx : Nat) → F (Option DirEntry)
  | 0, _ => pure none
  | n + 1, blockIdx => do
    let v ← F.getVol
    cacheRead blockIdx
    let blk ← cacheBlk
    match findInSlots v.fatType blockIdx name (slotsOf blk) with
    | some e => pure (some e)
    | none => findBlocks name n (blockIdx + 1)

def findWalk (name : Bytes) : (fuel : Nat) → (w : DirWalk) → F DirEntry
  | 0, _ => F.diverge
  | fuel + 1, w => do
    let v ← F.getVol
    match ← findBlocks name w.dirSize w.firstBlock with
    | some e => pure e
    | none =>
      if w.fixedRoot then F.fail .NotFound
      else do
        let r ← F.attempt (nextCluster w.cluster)
        match r with
        | .ok n => findWalk name fuel { w with cluster := n, firstBlock := clusterToBlock v n }
        | .err .EndOfFile => F.fail .NotFound
        | other => F.lift (other.bind fun _ => .err .NotFound)

/-- `find_directory_entry(dir, name)`. -/
def findDirectoryEntry (dirCluster : Nat) (name : Bytes) : F DirEntry := do
  let v ← F.getVol
  findWalk name (chainFuel v) (dirWalkStart v dirCluster)

/-! #### Delete -/

/-- `delete_entry_in_block` on a block that has been read: the offset to patch. -/
def deleteInSlots (name : Bytes) : List (Nat × Bytes) → Option Nat
  | [] => none
  | (off, d) :: rest =>
    if OnDisk.isEnd d then none
    else if OnDisk.matches d name then some off
    else deleteInSlots name rest

def deleteBlocks (name : Bytes) : (n : Nat) → (blockIdx : Nat) → F Bool
  | 0, _ => pure false
  | n + 1, blockIdx => do
    cacheRead blockIdx
    let blk ← cacheBlk
    match deleteInSlots name (slotsOf blk) with
    | some off => do
      cacheModify fun b => b.set off (UInt8.ofNat 0xE5)
      writeBack
      pure true
    | none => deleteBlocks name n (blockIdx + 1)

def deleteWalk (name : Bytes) : (fuel : Nat) → (w : DirWalk) → F Unit
  | 0, _ => F.diverge
  | fuel + 1, w => do
    let v ← F.getVol
    if ← deleteBlocks name w.dirSize w.firstBlock then pure ()
    else if w.fixedRoot then F.fail .NotFound
    else do
      let r ← F.attempt (nextCluster w.cluster)
      match r with
      | .ok n => deleteWalk name fuel { w with cluster := n, firstBlock := clusterToBlock v n }
      | .err .EndOfFile => F.fail .NotFound
      | other => F.lift (other.bind fun _ => .err .NotFound)

/-- `delete_directory_entry(dir, name)`. -/
def deleteDirectoryEntry (dirCluster : Nat) (name : Bytes) : F Unit := do
  let v ← F.getVol
  deleteWalk name (chainFuel v) (dirWalkStart v dirCluster)

/-! #### Create -/

/-- First slot of a block that is not valid (`0x00` or `0xE5`). -/
def firstFreeSlot : List (Nat × Bytes) → Option Nat
  | [] => none
  | (off, d) :: rest => if !OnDisk.isValid d then some off else firstFreeSlot rest

def writeNewBlocks (name : Bytes) (attributes firstCluster : Nat) (now : Timestamp) :
    (n : Nat) → (blockIdx : Nat) → F (Option DirEntry)
  | 0, _ => pure none
  | n + 1, blockIdx => do
    let v ← F.getVol
    cacheRead blockIdx
    let blk ← cacheBlk
    match firstFreeSlot (slotsOf blk) with
    | some off => do
      let entry := DirEntry.new name attributes firstCluster now blockIdx off
      cacheModify fun b => splice b off (DirEntry.serialize v.fatType entry)
      writeBack
      pure (some entry)
    | none => writeNewBlocks name attributes firstCluster now n (blockIdx + 1)

def writeNewWalk (name : Bytes) (attributes firstCluster : Nat) (now : Timestamp) :
    (fuel : Nat) → (w : DirWalk) → F DirEntry
  | 0, _ => F.diverge
  | fuel + 1, w => do
    match ← writeNewBlocks name attributes firstCluster now w.dirSize w.firstBlock with
    | some e => pure e
    | none =>
      if w.fixedRoot then F.fail .NotEnoughSpace
      else do
        let r ← F.attempt (nextCluster w.cluster)
        match r with
        | .ok n => do
          let v ← F.getVol
          writeNewWalk name attributes firstCluster now fuel { w with cluster := n, firstBlock := clusterToBlock v n }
        | .err .EndOfFile => do
          let c ← allocCluster (some w.cluster) true
          let v ← F.getVol
          writeNewWalk name attributes firstCluster now fuel { w with cluster := c, firstBlock := clusterToBlock v c }
        | other => F.lift (other.bind fun _ => .err .NotEnoughSpace)

/-- `write_new_directory_entry(dir_cluster, name, attributes, first_cluster)`; `now` is what the
time source returns during this call. -/
def writeNewDirectoryEntry (dirCluster : Nat) (name : Bytes) (attributes firstCluster : Nat) (now : Timestamp) :
    F DirEntry := do
  let v ← F.getVol
  writeNewWalk name attributes firstCluster now (chainFuel v + 1) (dirWalkStart v dirCluster)

/-- `make_dir(parent, sfn, att)`. -/
def makeDir (parent : Nat) (sfn : Bytes) (att : Nat) (now : Timestamp) : F Unit := do
  let newCluster ← allocCluster none false
  let v ← F.getVol
  let startBlock := clusterToBlock v newCluster
  blankMut startBlock
  let dot : DirEntry := { name := Sfn.thisDir, mtime := now, ctime := now, attributes := att,
                          cluster := newCluster, size := 0, entryBlock := startBlock, entryOffset := 0 }
  let dotdot : DirEntry := { name := Sfn.parentDir, mtime := now, ctime := now, attributes := att,
                             cluster := if parent = CLUSTER_ROOT_DIR then CLUSTER_EMPTY else parent,
                             size := 0, entryBlock := startBlock, entryOffset := DIRENT_LEN }
  cacheModify fun b => splice (splice b 0 (DirEntry.serialize v.fatType dot)) DIRENT_LEN (DirEntry.serialize v.fatType dotdot)
  writeBack
  zeroBlocks (v.blocksPerCluster - 1) (startBlock + 1)
  let r ← F.attempt (writeNewDirectoryEntry parent sfn att newCluster now)
  match r with
  | .ok _ => pure ()
  | .err e => do
    -- `let _ = self.free_cluster_chain(..)`: the clean-up's own outcome is dropped
    let _ ← F.attempt (freeClusterChain newCluster)
    F.fail e
  | other =>
    -- a panic unwinds (and a non-terminating walk never returns): no clean-up runs
    F.lift (other.bind fun _ => .ok ())

end Fat
end Sdmmc.Model
