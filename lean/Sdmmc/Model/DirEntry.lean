/-
Model of `DirEntry::serialize` (/repo/src/filesystem/directory.rs) and of
`OnDiskDirEntry` (/repo/src/fat/ondiskdirentry.rs).  Field offsets of the parser come
from the generated `define_field!` table; the serialiser's offsets are the literal
slice bounds of the Rust function.
-/
import Sdmmc.Model.Timestamp
import Sdmmc.Model.Name
import Sdmmc.Gen.Consts
import Sdmmc.Gen.Fields

namespace Sdmmc.Model

open Sdmmc.Gen

inductive FatType | fat16 | fat32
  deriving DecidableEq, Repr, Inhabited

structure DirEntry where
  name : Bytes
  mtime : Timestamp
  ctime : Timestamp
  attributes : Nat
  cluster : Nat
  size : Nat
  entryBlock : Nat
  entryOffset : Nat
  deriving DecidableEq, Repr, Inhabited

namespace Attr
def isReadOnly (a : Nat) : Bool := a % 2 = 1                         -- `(a & 0x01) == 0x01`
def isDirectory (a : Nat) : Bool := a / ATTR_DIRECTORY % 2 = 1      -- `(a & 0x10) == 0x10`
def isLfn (a : Nat) : Bool := a % 16 = ATTR_LFN                      -- `(a & 0x0F) == 0x0F`
def isVolume (a : Nat) : Bool := a / ATTR_VOLUME % 2 = 1
/-- `set_archive(true)`: `self.0 |= 0x20`. -/
def setArchive (a : Nat) : Nat := if a / ATTR_ARCHIVE % 2 = 1 then a else a + ATTR_ARCHIVE
end Attr

namespace DirEntry

/-- `DirEntry::serialize(fat_type)`. -/
def serialize (ft : FatType) (e : DirEntry) : Bytes :=
  let clusterHi : Bytes := match ft with
    | .fat16 => [0, 0]
    | .fat32 => leU16 (e.cluster / 65536 % 65536)     -- `((cluster >> 16) & 0xFFFF) as u16`
  (e.name.take 11 ++ zeros (11 - e.name.length))       -- data[0..11]
    ++ [UInt8.ofNat e.attributes, 0, 0]                 -- 11, 12 (reserved), 13 (CrtTimeTenth)
    ++ e.ctime.serializeToFat                           -- 14..18
    ++ [0, 0]                                           -- 18..20 LastAccDate
    ++ clusterHi                                        -- 20..22
    ++ e.mtime.serializeToFat                           -- 22..26
    ++ leU16 (e.cluster % 65536)                        -- 26..28
    ++ leU32 e.size                                     -- 28..32

/-- `DirEntry::new`. -/
def new (name : Bytes) (attributes cluster : Nat) (ctime : Timestamp) (entryBlock entryOffset : Nat) : DirEntry :=
  { name, mtime := ctime, ctime, attributes, cluster, size := 0, entryBlock, entryOffset }

end DirEntry

/-- Read a scalar field described by a generated single-piece `define_field!` row. -/
def fieldLE (parts : FieldParts) (data : Bytes) : Nat :=
  match parts with
  | [(off, _, 8)] => byteAt data off
  | [(off, _, 16)] => readU16 data off
  | [(off, _, 32)] => readU32 data off
  | _ => 0

namespace OnDisk

def rawAttr (d : Bytes) : Nat := fieldLE dirent_raw_attr d
def createTime (d : Bytes) : Nat := fieldLE dirent_create_time d
def createDate (d : Bytes) : Nat := fieldLE dirent_create_date d
def firstClusterHi (d : Bytes) : Nat := fieldLE dirent_first_cluster_hi d
def writeTime (d : Bytes) : Nat := fieldLE dirent_write_time d
def writeDate (d : Bytes) : Nat := fieldLE dirent_write_date d
def firstClusterLo (d : Bytes) : Nat := fieldLE dirent_first_cluster_lo d
def fileSize (d : Bytes) : Nat := fieldLE dirent_file_size d

/-- `is_end`. -/
def isEnd (d : Bytes) : Bool := byteAt d 0 = 0
/-- `is_valid`. -/
def isValid (d : Bytes) : Bool := !isEnd d && byteAt d 0 ≠ 0xE5
/-- `is_lfn`. -/
def isLfn (d : Bytes) : Bool := Attr.isLfn (rawAttr d)
/-- `matches(sfn)`. -/
def «matches» (d : Bytes) (sfn : Bytes) : Bool := !isLfn d && d.take 11 = sfn

/-- `lfn_contents`: (is_start, sequence, csum, 13 code units). -/
def lfnContents (d : Bytes) : Option (Bool × Nat × Nat × List Nat) :=
  if isLfn d then
    some (byteAt d 0 / 64 % 2 = 1, byteAt d 0 % 32, byteAt d 13,
      [readU16 d 1, readU16 d 3, readU16 d 5, readU16 d 7, readU16 d 9,
       readU16 d 14, readU16 d 16, readU16 d 18, readU16 d 20, readU16 d 22, readU16 d 24,
       readU16 d 28, readU16 d 30])
  else none

/-- `get_entry(fat_type, entry_block, entry_offset)`. -/
def getEntry (ft : FatType) (d : Bytes) (entryBlock entryOffset : Nat) : DirEntry :=
  let attributes := rawAttr d
  let cluster := match ft with
    | .fat32 => firstClusterHi d * 65536 + firstClusterLo d      -- `(hi << 16) | lo`
    | .fat16 => firstClusterLo d
  { name := d.take 11
    mtime := Timestamp.fromFat (writeDate d) (writeTime d)
    ctime := Timestamp.fromFat (createDate d) (createTime d)
    attributes
    cluster := if cluster = CLUSTER_EMPTY ∧ Attr.isDirectory attributes then CLUSTER_ROOT_DIR else cluster
    size := fileSize d
    entryBlock, entryOffset }

end OnDisk
end Sdmmc.Model
