/-
Specification side of C19: polynomial arithmetic over GF(2), written from the
SD Physical Layer specification (section 4.5, "Cyclic Redundancy Code"), not
from the code.

A polynomial is a `List Bool`, most significant coefficient first, exactly as
bits travel on the wire.  `polyRem g m` is the remainder of schoolbook long
division of `m` by `g` (whose head must be `true`).
-/
namespace Sdmmc.Spec

/-- xor `xs` into the front of `ys`; the result has the length of `ys`. -/
def xorPrefix : List Bool → List Bool → List Bool
  | [], ys => ys
  | _, [] => []
  | x :: xs, y :: ys => (x != y) :: xorPrefix xs ys

theorem xorPrefix_length (xs ys : List Bool) : (xorPrefix xs ys).length = ys.length := by
  induction xs generalizing ys with
  | nil => simp [xorPrefix]
  | cons x xs ih => cases ys <;> simp [xorPrefix, ih]

/-- Schoolbook long division over GF(2): the remainder of `m` modulo `g`
(`g` = leading `true` followed by the `g.length - 1` lower coefficients).
The result has fewer bits than `g`. -/
def polyRem (g : List Bool) : List Bool → List Bool
  | [] => []
  | b :: bs =>
    if (b :: bs).length < g.length then b :: bs
    else if b then polyRem g (xorPrefix g.tail bs) else polyRem g bs
termination_by m => m.length
decreasing_by all_goals simp [xorPrefix_length]

/-- Left-pad with zeros to exactly `n` bits (keeping the low `n` bits). -/
def padTo (n : Nat) (bs : List Bool) : List Bool :=
  List.replicate (n - bs.length) false ++ bs.drop (bs.length - n)

/-- MSB-first bits of a byte. -/
def byteBits (b : BitVec 8) : List Bool :=
  [b.getLsbD 7, b.getLsbD 6, b.getLsbD 5, b.getLsbD 4, b.getLsbD 3, b.getLsbD 2, b.getLsbD 1, b.getLsbD 0]

/-- MSB-first bits of a message. -/
def msgBits (m : List (BitVec 8)) : List Bool := m.flatMap byteBits

/-- Value of an MSB-first bit list as a bit vector of width `n` (low `n` bits). -/
def bitsToBV (n : Nat) (bs : List Bool) : BitVec n :=
  bs.foldl (fun acc b => (acc <<< 1) ||| (if b then 1#n else 0#n)) 0#n

/-- x^16 + x^12 + x^5 + 1 (CRC-CCITT, SD data blocks). -/
def G16 : List Bool :=
  [true, false,false,false, true, false,false,false, false,false,false, true, false,false,false,false, true]

/-- x^7 + x^3 + 1 (SD command frames). -/
def G7 : List Bool := [true, false,false,false, true, false,false, true]

/-- The specification's CRC-16: remainder of `m(x) * x^16` modulo `G16`, initial value zero. -/
def specCrc16 (m : List (BitVec 8)) : BitVec 16 :=
  bitsToBV 16 (polyRem G16 (msgBits m ++ List.replicate 16 false))

/-- The specification's CRC-7 field: remainder of `m(x) * x^7` modulo `G7`, then the
seven bits followed by the end bit `1`. -/
def specCrc7 (m : List (BitVec 8)) : BitVec 8 :=
  (bitsToBV 8 (polyRem G7 (msgBits m ++ List.replicate 7 false)) <<< 1) ||| 1#8

/-- xor of two equal-length messages, byte by byte. -/
def xorMsg (a b : List (BitVec 8)) : List (BitVec 8) := List.zipWith (· ^^^ ·) a b

/-- The 512-byte (4096-bit) error pattern that has exactly the bits `bits` (MSB first,
at most 16 of them) starting at bit offset `off`, as bytes. -/
def errPattern (nbytes : Nat) (off : Nat) (bits : List Bool) : List (BitVec 8) :=
  let all : List Bool := List.replicate off false ++ bits ++ List.replicate (nbytes * 8 - off - bits.length) false
  (List.range nbytes).map fun i => bitsToBV 8 ((all.drop (8 * i)).take 8)

end Sdmmc.Spec
