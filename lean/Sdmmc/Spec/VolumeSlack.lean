/-
Specification vocabulary for C11 over histories under arbitrarily placed faults, WITHOUT ANY RESTRICTION ON WHERE A DEVICE
CALL FAILS (`Sdmmc.Props.C11HistD`).

A device failure inside a TRUNCATING `open_file_in_dir` can leave a closed file whose entry stores a size its (already cut)
chain does not hold — a DAMAGED entry.  This is the one residue the strong invariant `VolInvL` of `Spec/VolumeLost.lean`
does not absorb.

* `VolInvS k s gh X` — `VolInvL s gh X` with the ONE clause `TreeOK.sizes` relaxed: the size stored in the entry of a
  CLOSED file is at most `(length of its chain) × (bytes per cluster + k)` — `k` bytes per cluster of SIZE SLACK.
  Everything else of `VolInvL` is kept, in particular `FileOK` (with `size_fits` at the true cluster size) of every OPEN
  file — which the weak invariant `FaultInv` of `Spec/VolumeFault.lean` gives up.  `VolInvS 0 = VolInvL`, and
  `VolInvS k s gh X → FaultInv s gh X`.
* `VolInvSE k s gh X` — with `EntriesNotAhead` (`Spec/VolumeLostE.lean`).
* `SizeFits v d o` — read off the medium alone: the entry `o` is empty, or its first cluster starts a FAT chain that holds
  the size it stores.  `IsDirSlots v d c ss` — `ss` are the slots of the directory a handle with cluster field `c`
  designates, read off the medium alone.
* `NotDamagedOpen s op` — the side condition of a call: a `open_file_in_dir` in a mode that KEEPS the stored size
  (`ReadOnly`, `ReadWriteAppend`, `ReadWriteCreateOrAppend`) does not name a closed file with a damaged entry.  Every
  other call — the truncating opens, `delete_file_in_dir`, … — satisfies it.  `NotDamagedRun s ops` — along a history.

Nothing is proved here.
-/
import Sdmmc.Spec.VolumeFaultE

namespace Sdmmc.Spec.Volume

open Sdmmc.Model Sdmmc.Model.Fat Sdmmc.Spec

/-- `MedLost` with `k` bytes per cluster of slack in the clause `sizes` of the tree. -/
structure MedSlack (k : Nat) (v : FatVolume) (d : Disk) (files : List FileInfo) (gh : Ghost) (X : List (List Nat)) : Prop where
  blocksOK : BlocksOK d
  geom : WFGeom v
  hint : HintOK v
  owns : Owns v d (gh.G ++ X)
  tree : TreeOK v.fatType (clusterBytesLen v + k) (rootHead v) gh.G gh.dirs (dirSlots v d gh.G) files
  fileOK : ∀ f, f ∈ files → FileOK v d f (chainOf gh.G f.entry.cluster) ∧
    (chainOf gh.G f.entry.cluster = [] → f.curCluster < 2)

/-- **The invariant of C03 up to the fault schedule, lost chains `X` and `k` bytes per cluster of size slack.** -/
structure VolInvS (k : Nat) (s : Mgr) (gh : Ghost) (X : List (List Nat)) : Prop where
  coherent : ∀ i, s.cache.tag = some i → s.cache.blk = s.dev.disk.get i
  unlocked : s.locked = false
  maxVols : s.maxVols = 1
  vols : s.vols = [] ∨ ∃ vi, s.vols = [vi] ∧ vi.vol = gh.vol
  med : MedSlack k gh.vol s.dev.disk s.files gh X
  fileVols : ∀ f, f ∈ s.files → ∃ vi, s.vols = [vi] ∧ f.rawVolume = vi.rawVolume
  openDirs : ∀ di, di ∈ s.dirs → ValidDir gh.dirs di.cluster

/-- … with no directory entry of an open file ahead of the file's record. -/
structure VolInvSE (k : Nat) (s : Mgr) (gh : Ghost) (X : List (List Nat)) : Prop where
  inv : VolInvS k s gh X
  entries : EntriesNotAhead s

/-- The entry `o` is empty, or its first cluster starts a FAT chain that holds the size it stores. -/
def SizeFits (v : FatVolume) (d : Disk) (o : Slot) : Prop :=
  sSize o = 0 ∨ ∃ cs, Chain v d (sCluster v.fatType o) cs ∧ sSize o ≤ cs.length * clusterBytesLen v

/-- `ss` are the slots of the directory that a handle with cluster field `c` designates, as the medium holds them. -/
def IsDirSlots (v : FatVolume) (d : Disk) (c : Nat) (ss : List Slot) : Prop :=
  if dirIdOf c = 0 then
    match v.fatType with
    | .fat16 => ss = fixedRootSlots v d
    | .fat32 => ∃ cs, Chain v d v.firstRootDirCluster cs ∧ ss = chainSlots v d cs
  else ∃ cs, Chain v d c cs ∧ ss = chainSlots v d cs

/-- The modes of `open_file_in_dir` that hand out the size stored in an existing entry. -/
def keepsSize : Mode → Bool
  | .ReadOnly | .ReadWriteAppend | .ReadWriteCreateOrAppend => true
  | _ => false

/-- **The side condition of a call**: an `open_file_in_dir` that keeps the stored size does not name a closed file whose
entry is damaged. -/
def NotDamagedOpen (s : Mgr) : Op → Prop
  | .openFile directory name mode => keepsSize mode = true →
      ∀ vi, vi ∈ s.vols → ∀ dir, dir ∈ s.dirs → dir.rawDirectory = directory →
      ∀ sfn, Sfn.createFromStr name = .ok sfn → ∀ ss, IsDirSlots vi.vol s.dev.disk dir.cluster ss →
      ∀ o, o ∈ entries ss → sName o = sfn → isDirE o = false → pendOf s.files o = none → SizeFits vi.vol s.dev.disk o
  | _ => True

/-- Every call of the history satisfies the side condition in the state it is issued in. -/
def NotDamagedRun : Mgr → List Op → Prop
  | _, [] => True
  | s, op :: ops => NotDamagedOpen s op ∧ NotDamagedRun (Sdmmc.Model.step s op).1 ops

end Sdmmc.Spec.Volume
