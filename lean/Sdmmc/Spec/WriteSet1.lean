/-
Specification vocabulary for C04 / C11 WITHOUT the hypothesis that the two FAT copies are identical
(`Sdmmc.Props.C11HistM`): what ONE device write may be when FAT copy 2 may lag behind copy 1 (a device failure between
the two writes of an `update_fat` leaves copy 2 one sector behind; the crate never reads copy 2).

* `Fat2Write v w`: a 512-byte payload into a block of FAT COPY 2 of the volume — whatever it holds;
* `Licensed1 v d L w`: as `Licensed` of `Spec/WriteSet.lean` — (a) FAT block, only entries of licensed clusters differ
  from the medium; (b) block of a licensed data cluster; (c) directory block, only licensed slots differ; (d) info sector;
  (e) block of a file with a licensed byte range — or (a') `Fat2Write`;
* `AllLicensed1 v d L ws`: every write of the list, each judged against the medium the earlier ones produced.

What this licenses and `Licensed` does not: ANY change of copy 2.  So the frame statements that follow from it speak of the
medium AS READ THROUGH COPY 1 (`nextOf`, `Chain` read copy 1), the directory slots and the data clusters — not of the
bytes of copy 2.

Nothing is proved here.
-/
import Sdmmc.Spec.WriteSet

namespace Sdmmc.Spec

open Sdmmc.Model Sdmmc.Model.Fat

/-- `b` is a block of FAT copy 2 of the volume. -/
def IsFat2Block (v : FatVolume) (b : Nat) : Prop := ∃ c, c < endCluster v ∧ fatBlock2 v c = some b

/-- (a') A write of 512 bytes into a block of FAT copy 2. -/
def Fat2Write (v : FatVolume) (w : Nat × Block) : Prop := IsFat2Block v w.1 ∧ w.2.length = 512

/-- (a) or (a'). -/
def FatWrite1 (v : FatVolume) (d : Disk) (L : Licence) (w : Nat × Block) : Prop := FatWrite v d L w ∨ Fat2Write v w

/-- One device write is within the licence, relative to the medium it is applied to — FAT copy 2 unconstrained. -/
def Licensed1 (v : FatVolume) (d : Disk) (L : Licence) (w : Nat × Block) : Prop :=
  FatWrite1 v d L w ∨ DataWrite v L w ∨ SlotWrite v d L w ∨ InfoWrite v d L w ∨ RangeWrite v d L w

/-- Every write of the list (oldest first) is within the licence, each judged against the medium the earlier ones
produced. -/
def AllLicensed1 (v : FatVolume) (d : Disk) (L : Licence) : List (Nat × Block) → Prop
  | [] => True
  | w :: ws => Licensed1 v d L w ∧ AllLicensed1 v (d.set w.1 w.2) L ws

end Sdmmc.Spec
