/-
Specification vocabulary for C11 over HISTORIES UNDER FAULTS WITH SEVERAL OPEN VOLUMES (`Sdmmc.Props.C11MultiHist`).

`VolInvNS s ghs` — the invariant of several open volumes (`VolInvN`, `Spec/VolumeN.lean`) with, PER VOLUME, exactly what the
one-volume invariant of histories under faults `VolInvSE` (`Spec/VolumeSlack.lean`) gives up: a fault schedule may be pending
(one device, one schedule, shared); each open volume may carry LOST CHAINS and SIZE SLACK of its own (existentially: they
change along a history), its medium satisfying `MedSlack` with the open files OF THAT VOLUME; no directory entry of an open
file is ahead of the file's record, read with the FAT type OF THE FILE'S VOLUME (`EntriesNotAheadN`).  The table clauses —
one ghost per volume record, distinct handles, distinct partition indices, disjoint partitions, every file on an open
volume, directory handles valid or inert — are those of `VolInvN`.  For every open volume the projection `proj s i`
satisfies `VolInvSE` (`Props.C11MultiHist.projection_satisfies_volInvSE`).

`MultiCallOK` / `MultiRunOK` / `NotAddressedRun`: the hypotheses on the calls of a history.

Nothing is proved here.
-/
import Sdmmc.Spec.VolumeN
import Sdmmc.Spec.VolumeSlack

namespace Sdmmc.Spec.Volume

open Sdmmc.Model Sdmmc.Model.Fat Sdmmc.Spec

/-- No directory entry of an open file is ahead of the file's record — each file read with the FAT type of its volume. -/
def EntriesNotAheadN (s : Mgr) : Prop :=
  ∀ vi, vi ∈ s.vols → ∀ f, f ∈ s.files → f.rawVolume = vi.rawVolume →
    (sCluster vi.vol.fatType (entryOnMedium s.dev.disk f) = 0 ∧ sSize (entryOnMedium s.dev.disk f) = 0) ∨
    (sCluster vi.vol.fatType (entryOnMedium s.dev.disk f) = f.entry.cluster ∧
      sSize (entryOnMedium s.dev.disk f) ≤ f.entry.size)

/-- **The invariant of several open volumes up to the schedule, lost chains and size slack (per volume).** -/
structure VolInvNS (s : Mgr) (ghs : List Ghost) : Prop where
  coherent : ∀ i, s.cache.tag = some i → s.cache.blk = s.dev.disk.get i
  unlocked : s.locked = false
  len : ghs.length = s.vols.length
  vols : ∀ (i : Nat) (vi : VolInfo) (gh : Ghost), s.vols[i]? = some vi → ghs[i]? = some gh → vi.vol = gh.vol
  handles : (s.vols.map fun vi => vi.rawVolume).Nodup
  indices : (s.vols.map fun vi => vi.idx).Nodup
  parts : ∀ (i j : Nat) (vi vj : VolInfo), s.vols[i]? = some vi → s.vols[j]? = some vj → i ≠ j → PartDisjoint vi.vol vj.vol
  /-- every open volume: sound up to lost chains `X` and slack `k` of its own, with the open files of THAT volume -/
  med : ∀ (i : Nat) (vi : VolInfo) (gh : Ghost), s.vols[i]? = some vi → ghs[i]? = some gh →
    ∃ k X, MedSlack k gh.vol s.dev.disk (volFiles s vi.rawVolume) gh X
  entries : EntriesNotAheadN s
  fileVols : ∀ f, f ∈ s.files → ∃ vi, vi ∈ s.vols ∧ f.rawVolume = vi.rawVolume
  openDirs : ∀ di, di ∈ s.dirs → ∀ (i : Nat) (vi : VolInfo) (gh : Ghost), s.vols[i]? = some vi → ghs[i]? = some gh → di.rawVolume = vi.rawVolume →
    ValidDir gh.dirs di.cluster
  inertDirs : ∀ di, di ∈ s.dirs → (∀ vi, vi ∈ s.vols → di.rawVolume ≠ vi.rawVolume) → di.cluster = Gen.CLUSTER_ROOT_DIR

/-! ### What is asked of the calls of a history -/

/-- `get_root_volume_label` draws the handle of a temporary directory: it is carried by no open directory (the finding of
`Props.C03Multi`; vacuous for every other call). -/
def LabelFreshOp (s : Mgr) : Op → Prop
  | .label _ => s.nextId ∉ s.dirs.map (·.rawDirectory)
  | _ => True

/-- One call of a history with several open volumes: it neither opens nor closes a volume; the label quirk; and the side
condition of `Spec/VolumeSlack.lean` on the volume it is addressed to (`proj s i`: the manager as that volume sees it). -/
def MultiCallOK (s : Mgr) (op : Op) : Prop :=
  (∀ i, op ≠ .openVolume i) ∧ (∀ v, op ≠ .closeVolume v) ∧ LabelFreshOp s op ∧
  ∀ i, target s op = some i → NotDamagedOpen (proj s i) op

def MultiRunOK : Mgr → List Op → Prop
  | _, [] => True
  | s, op :: ops => MultiCallOK s op ∧ MultiRunOK (Sdmmc.Model.step s op).1 ops

/-- No call of the history is addressed to volume record `j`. -/
def NotAddressedRun (j : Nat) : Mgr → List Op → Prop
  | _, [] => True
  | s, op :: ops => target s op ≠ some j ∧ NotAddressedRun j (Sdmmc.Model.step s op).1 ops

end Sdmmc.Spec.Volume
