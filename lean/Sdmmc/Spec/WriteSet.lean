/-
Specification vocabulary for C04 over whole API calls (`Sdmmc.Props.C04Api`): what ONE device write
`(idx, payload)` may be, relative to the medium `d` it is applied to and a licence `L` describing what
the call may change.

* `Licence`: the clusters whose FAT entries may change, the clusters whose blocks may change
  arbitrarily, the directory slots (block, byte offset) that may change, whether the FAT32 info
  sector may have its two counters rewritten, and the byte ranges of files that may change;
* `Licensed v d L (idx, payload)`: the write is a 512-byte payload and
  (a) `FatWrite`: `idx` is a FAT block of the volume (either copy) and every byte of the payload that
      is not a byte of the entry of a licensed cluster equals the byte on the medium; on FAT32 the
      top four bits of EVERY entry of the block are kept; or
  (b) `DataWrite`: `idx` is a block of a licensed data cluster of the volume; or
  (c) `SlotWrite`: `idx` is a directory block (data area or FAT16 root region), some slot of it is
      licensed, and every byte outside the licensed slots of that block equals the byte on the medium; or
  (d) `InfoWrite`: FAT32, the licence allows it, `idx` is the info sector and only bytes 488..495 differ; or
  (e) `RangeWrite`: `idx` is a block of a cluster of a file with a licensed byte range `(cs, lo, hi)` and
      every byte of the payload that does not hold a position `lo ≤ p < hi` of that file equals the byte
      on the medium;
* `AllLicensed v d L ws`: every write of the list `ws` (oldest first) is licensed relative to the medium
  produced by the writes before it.

Nothing is proved here.
-/
import Sdmmc.Spec.DataPlane
import Sdmmc.Spec.CrashApi

namespace Sdmmc.Spec

open Sdmmc.Model Sdmmc.Model.Fat

/-- What a call may change on the medium. -/
structure Licence where
  /-- clusters whose FAT entries (both copies) may change -/
  fatClusters : List Nat := []
  /-- clusters whose blocks may change arbitrarily -/
  dataClusters : List Nat := []
  /-- directory slots `(block, byte offset)` whose 32 bytes may change -/
  slots : List (Nat × Nat) := []
  /-- the free-count / next-free words of the FAT32 info sector may change -/
  info : Bool := false
  /-- file byte ranges: `(cs, lo, hi)` allows the bytes at positions `lo ≤ p < hi` of the file whose
  cluster chain is `cs` to change -/
  files : List (List Nat × Nat × Nat) := []

namespace Licence

/-- The empty licence: nothing may be written. -/
def none : Licence := {}

/-- `L'` allows everything `L` allows. -/
def le (L L' : Licence) : Prop :=
  (∀ c, c ∈ L.fatClusters → c ∈ L'.fatClusters) ∧ (∀ c, c ∈ L.dataClusters → c ∈ L'.dataClusters) ∧
  (∀ p, p ∈ L.slots → p ∈ L'.slots) ∧ (L.info = true → L'.info = true) ∧ (∀ r, r ∈ L.files → r ∈ L'.files)

/-- Both licences together. -/
def union (L L' : Licence) : Licence :=
  { fatClusters := L.fatClusters ++ L'.fatClusters, dataClusters := L.dataClusters ++ L'.dataClusters,
    slots := L.slots ++ L'.slots, info := L.info || L'.info, files := L.files ++ L'.files }

end Licence

/-- Block `b` holds the FAT entry of cluster `c` (in copy 1 or in copy 2). -/
def HoldsEntry (v : FatVolume) (b c : Nat) : Prop := b = fatBlock v c ∨ fatBlock2 v c = some b

/-- The FAT entry of cluster `c` as stored in the block image `blk` (FAT32: all 32 bits). -/
def entryIn (v : FatVolume) (blk : Block) (c : Nat) : Nat := rawFatEntry v.fatType blk (fatEntOffset v c)

/-- Byte `i` of block `b` belongs to the FAT entry of a licensed cluster. -/
def InLicensedEntry (v : FatVolume) (L : Licence) (b i : Nat) : Prop :=
  ∃ c, c ∈ L.fatClusters ∧ HoldsEntry v b c ∧ fatEntOffset v c ≤ i ∧ i < fatEntOffset v c + entryWidth v.fatType

/-- Byte `i` of block `b` belongs to a licensed directory slot. -/
def InLicensedSlot (L : Licence) (b i : Nat) : Prop := ∃ off, (b, off) ∈ L.slots ∧ off ≤ i ∧ i < off + 32

/-- (a) A write to a FAT block: only bytes of entries of licensed clusters differ from the medium, and
on FAT32 the reserved top four bits of every entry of the block are kept. -/
def FatWrite (v : FatVolume) (d : Disk) (L : Licence) (w : Nat × Block) : Prop :=
  IsFatBlock v w.1 ∧ w.2.length = 512 ∧
  (∀ i, ¬ InLicensedEntry v L w.1 i → w.2.getD i 0 = (d.get w.1).getD i 0) ∧
  (v.fatType = .fat32 → ∀ c, c < endCluster v → HoldsEntry v w.1 c →
    entryIn v w.2 c / 268435456 = entryIn v (d.get w.1) c / 268435456)

/-- (b) A write to a block of a licensed data cluster of the volume. -/
def DataWrite (v : FatVolume) (L : Licence) (w : Nat × Block) : Prop :=
  w.2.length = 512 ∧ ∃ c, c ∈ L.dataClusters ∧ InRange v c ∧ clusterToBlock v c ≤ w.1 ∧ w.1 < clusterToBlock v c + v.blocksPerCluster

/-- (c) A write to a directory block: only bytes of licensed slots differ from the medium. -/
def SlotWrite (v : FatVolume) (d : Disk) (L : Licence) (w : Nat × Block) : Prop :=
  (regionOf v w.1 = .root ∨ regionOf v w.1 = .data) ∧ w.2.length = 512 ∧ (∃ off, (w.1, off) ∈ L.slots) ∧
  ∀ i, ¬ InLicensedSlot L w.1 i → w.2.getD i 0 = (d.get w.1).getD i 0

/-- (d) A write to the FAT32 info sector: only the free-count and next-free words differ. -/
def InfoWrite (v : FatVolume) (d : Disk) (L : Licence) (w : Nat × Block) : Prop :=
  L.info = true ∧ v.fatType = .fat32 ∧ w.1 = v.infoLocation ∧ w.2.length = 512 ∧
  ∀ i, i < 488 ∨ 496 ≤ i → w.2.getD i 0 = (d.get w.1).getD i 0

/-- Byte `i` of block `b` holds position `p` of the file whose cluster chain is `cs`. -/
def HoldsFileByte (v : FatVolume) (cs : List Nat) (p b i : Nat) : Prop :=
  ∃ c, cs[p / clusterBytesLen v]? = some c ∧ b = clusterToBlock v c + p % clusterBytesLen v / 512 ∧ i = p % 512

/-- Byte `i` of block `b` holds a licensed position of a file. -/
def InLicensedRange (v : FatVolume) (L : Licence) (b i : Nat) : Prop :=
  ∃ cs lo hi p, (cs, lo, hi) ∈ L.files ∧ lo ≤ p ∧ p < hi ∧ HoldsFileByte v cs p b i

/-- (e) A write to a block of a cluster of a file with a licensed byte range: only the bytes that hold
licensed positions of the file differ from the medium. -/
def RangeWrite (v : FatVolume) (d : Disk) (L : Licence) (w : Nat × Block) : Prop :=
  w.2.length = 512 ∧
  (∃ cs lo hi c, (cs, lo, hi) ∈ L.files ∧ c ∈ cs ∧ InRange v c ∧ clusterToBlock v c ≤ w.1 ∧
    w.1 < clusterToBlock v c + v.blocksPerCluster) ∧
  ∀ i, ¬ InLicensedRange v L w.1 i → w.2.getD i 0 = (d.get w.1).getD i 0

/-- One device write is within the licence, relative to the medium it is applied to. -/
def Licensed (v : FatVolume) (d : Disk) (L : Licence) (w : Nat × Block) : Prop :=
  FatWrite v d L w ∨ DataWrite v L w ∨ SlotWrite v d L w ∨ InfoWrite v d L w ∨ RangeWrite v d L w

/-- Every write of the list (oldest first) is within the licence, each judged against the medium the
earlier ones produced. -/
def AllLicensed (v : FatVolume) (d : Disk) (L : Licence) : List (Nat × Block) → Prop
  | [] => True
  | w :: ws => Licensed v d L w ∧ AllLicensed v (d.set w.1 w.2) L ws

-- `newWritesM before after` (the device writes a manager call added to the write log, oldest first) is
-- defined in `Sdmmc.Spec.CrashApi`.

end Sdmmc.Spec
