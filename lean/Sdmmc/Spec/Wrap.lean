/-
Specification vocabulary for the wrapper layer (`Sdmmc.Model.Wrap`): what
`embedded_io::Seek::seek` means on a byte array with a cursor, and which arguments the
conversions inside the Rust implementation accept.
-/
import Sdmmc.Model.Wrap

namespace Sdmmc.Spec.Wrap

open Sdmmc.Model Sdmmc.Model.Wrap

/-- The position a seek asks for, as an integer: `Start(o)` is `o`, `End(o)` is `len + o`,
`Current(o)` is `pos + o`. -/
def target (size pos : Nat) : SeekFrom → Int
  | .start o => (o : Int)
  | .end_ o => (size : Int) + o
  | .current o => (pos : Int) + o

/-- `seek` on a byte array of length `size` with the cursor at `pos`, where positions beyond the
end are not offered (the crate has no sparse files): the new position when the target lies in
`[0, size]`, a refusal otherwise. -/
def seekSpec (size pos : Nat) (p : SeekFrom) : Option Nat :=
  if 0 ≤ target size pos p ∧ target size pos p ≤ (size : Int) then some (target size pos p).toNat else none

/-- The argument passes the integer arithmetic of `Seek::seek` (`pos` is the current position, which
only `Current` looks at): `Start(o)`: `o` fits `u32`; `End(o)`: `-o` exists and fits `u32`;
`Current(o)`: `pos + o` exists as an `i64` and fits `u32` — i.e. lies in `[0, u32::MAX]`, a sum
outside the `i64` range being outside that interval anyway (`Sdmmc.Lemmas.Wrap.convOK_current_iff`). -/
def ConvOK (pos : Nat) : SeekFrom → Prop
  | .start o => o ≤ U32_MAX
  | .end_ o => -(U32_MAX : Int) ≤ o ∧ o ≤ 0
  | .current o => 0 ≤ (pos : Int) + o ∧ (pos : Int) + o ≤ (U32_MAX : Int)

instance (pos : Nat) (p : SeekFrom) : Decidable (ConvOK pos p) := by
  cases p <;> unfold ConvOK <;> exact inferInstance

/-- What `_ = result` leaves of a result: `Ok(())`, unless the call did not return at all. -/
def swallow {α} : Res α → Res Unit
  | .ok _ => .ok ()
  | .err _ => .ok ()
  | .panic msg => .panic msg
  | .diverged => .diverged

/-- `result.expect(msg)`. -/
def expectRes {α} (msg : String) : Res α → Res α
  | .err _ => .panic msg
  | r => r

end Sdmmc.Spec.Wrap
