/-
Specification vocabulary for C11 over histories under arbitrarily placed faults, continued (`Sdmmc.Props.C11HistE`):
`VolInvLE s gh X` — the invariant `VolInvL` of `Spec/VolumeLost.lean` together with `EntryNotAhead` FOR EVERY OPEN FILE:
no directory entry of an open file is ahead of the file's record.  Nothing is proved here.
-/
import Sdmmc.Spec.VolumeLost

namespace Sdmmc.Spec.Volume

open Sdmmc.Model Sdmmc.Model.Fat Sdmmc.Spec

/-- The entry on the medium of every open file names no cluster and size 0, or the record's first cluster and at most
the record's size. -/
def EntriesNotAhead (s : Mgr) : Prop :=
  ∀ f, f ∈ s.files → ∀ vi, vi ∈ s.vols →
    (sCluster vi.vol.fatType (entryOnMedium s.dev.disk f) = 0 ∧ sSize (entryOnMedium s.dev.disk f) = 0) ∨
    (sCluster vi.vol.fatType (entryOnMedium s.dev.disk f) = f.entry.cluster ∧
      sSize (entryOnMedium s.dev.disk f) ≤ f.entry.size)

/-- **The invariant of C03 up to the fault schedule and lost chains, with no entry ahead of its record.** -/
structure VolInvLE (s : Mgr) (gh : Ghost) (X : List (List Nat)) : Prop where
  inv : VolInvL s gh X
  entries : EntriesNotAhead s

end Sdmmc.Spec.Volume
