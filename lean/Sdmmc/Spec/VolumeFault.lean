/-
Specification vocabulary for C11 over HISTORIES UNDER FAULTS (`Sdmmc.Props.C11Hist`).

The block device of the model carries ONE fault schedule for its whole life: `dev.faults` lists the indices — in
`dev.calls` numbering, which no API call ever resets — of the device calls that fail.  A history under faults is
therefore simply `run s ops` from a state `s` whose `dev.faults` is the schedule; the faults are consumed across the
calls.

* `clearFaults s` — `s` with no fault scheduled;
* `VolInvF s gh` — "the invariant of C03 up to the schedule": `VolInv (clearFaults s) gh`.  This is the STRONG
  invariant: nothing of `VolInv` is given up except "no fault is scheduled";
* `FaultInv s gh X` — the WEAK invariant: what survives a call during which a device write was lost.  It is `VolInv`
  with exactly these clauses given up:
    (1) `noFault`: a schedule may be pending;
    (2) no leak: the medium may carry chains `X` that nothing refers to (LOST CHAINS: a cluster marked but not yet
        linked, the chain of a file whose entry is already marked deleted, the cut-off tail of a truncated chain, the
        chain of a new file whose handle was closed while its entry could not be written).  `Owns` holds of
        `gh.G ++ X`: the lost clusters still form chains, disjoint from everything else — they are never handed out
        again and never walked;
    (3) `sizes`, upper bound: the size stored in a file entry may exceed what its chain holds (a truncating open whose
        chain was cut but whose slot could not be rewritten); an entry without a cluster is still empty;
    (4) `FileOK.size_fits` of an open file (a file opened from such an entry);
  and everything else kept: coherent cache, open lock, one volume with the ghost's record, 512-byte blocks, geometry,
  hint, every chain of `gh.G` the chain of its first cluster and all chains pairwise disjoint, no entry behind an
  end-of-directory marker, PAIRWISE DISTINCT NAMES, dot entries, sub-directory entries naming sub-directories, the
  chains one to one what the root / the sub-directories / the file entries / the open files name, every open file
  sitting at a live file entry with its name, offset ≤ size, cursor on the file's chain, every open file on the open
  volume, every directory handle designating a directory of the tree.
* `Clean r` — the outcome is `Ok` or an error: neither a panic nor a hang.

STATUS (see `Props/C11Hist.lean`): `VolInvF` implies `FaultInv … []`; `VolInvF` is proved to be kept by every history
in which device failures occur only in read-only calls, `flush_file` and `close_volume`.  That `FaultInv` is kept by
EVERY call under EVERY schedule is the target; it is not proved yet.  The evaluated examples of `Props/C11Hist` show
that each of (2), (3) is forced by a single failed call.

Nothing is proved here.
-/
import Sdmmc.Spec.Volume

namespace Sdmmc.Spec.Volume

open Sdmmc.Model Sdmmc.Model.Fat Sdmmc.Spec

/-- `s` with no fault scheduled (everything else — medium, tables, logs, counters — as it is). -/
def clearFaults (s : Mgr) : Mgr := { s with dev := { s.dev with faults := [] } }

/-- **The invariant of C03 up to the fault schedule.** -/
def VolInvF (s : Mgr) (gh : Ghost) : Prop := VolInv (clearFaults s) gh

/-- The outcome is `Ok` or an error: neither a panic nor a hang. -/
def Clean {α} (r : Res α) : Prop := (∃ a, r = .ok a) ∨ ∃ e, r = .err e

/-- `FileOK` without `size_fits`: the record's cluster field names its chain (or no cluster at all, and then the file
is empty), the offset is inside the file, the cursor is on the chain. -/
structure FileLoose (v : FatVolume) (d : Disk) (f : FileInfo) (cs : List Nat) : Prop where
  chain : (f.entry.cluster < 2 ∧ cs = [] ∧ f.entry.size = 0) ∨ Chain v d f.entry.cluster cs
  pos_le : f.currentOffset ≤ f.entry.size
  cursor : cs = [] ∨ ∃ k, k < cs.length ∧ f.curClusterOff = k * clusterBytesLen v ∧ cs[k]? = some f.curCluster

/-- The medium with the open files `files`, up to lost chains `X` and stale sizes.  (`TreeOK` is taken with SOME number
`cb` of bytes per cluster instead of the volume's: its clause `sizes` then only says that a file entry without a cluster,
or whose cluster heads no chain, is empty.) -/
structure MedFault (v : FatVolume) (d : Disk) (files : List FileInfo) (gh : Ghost) (X : List (List Nat)) : Prop where
  blocksOK : BlocksOK d
  geom : WFGeom v
  hint : HintOK v
  /-- the chains of the ghost AND the lost chains are chains, pairwise disjoint, and they are all that is in use -/
  owns : Owns v d (gh.G ++ X)
  tree : ∃ cb, TreeOK v.fatType cb (rootHead v) gh.G gh.dirs (dirSlots v d gh.G) files
  fileOK : ∀ f, f ∈ files → FileLoose v d f (chainOf gh.G f.entry.cluster) ∧
    (chainOf gh.G f.entry.cluster = [] → f.curCluster < 2)

/-- **What survives every call under every fault schedule** (target; see the header). -/
structure FaultInv (s : Mgr) (gh : Ghost) (X : List (List Nat)) : Prop where
  coherent : ∀ i, s.cache.tag = some i → s.cache.blk = s.dev.disk.get i
  unlocked : s.locked = false
  maxVols : s.maxVols = 1
  vols : s.vols = [] ∨ ∃ vi, s.vols = [vi] ∧ vi.vol = gh.vol
  med : MedFault gh.vol s.dev.disk s.files gh X
  fileVols : ∀ f, f ∈ s.files → ∃ vi, s.vols = [vi] ∧ f.rawVolume = vi.rawVolume
  openDirs : ∀ di, di ∈ s.dirs → ValidDir gh.dirs di.cluster

end Sdmmc.Spec.Volume
