/-
Specification vocabulary for C11 (device faults) with SEVERAL OPEN VOLUMES (`Sdmmc.Props.C11Multi`).

The device fault schedule `dev.faults` and the ONE block cache are shared between all open volumes: a device call that
fails during a call on one volume is a failure of the device every other open volume lives on.

* `VolInvNF s ghs` — "the invariant of several open volumes up to the schedule": `VolInvN (clearFaults s) ghs`
  (`Spec/VolumeN.lean`, `Spec/VolumeFault.lean`): nothing of `VolInvN` is given up except "no fault is scheduled".
  (`MirrorN s ghs` speaks about the medium only; it needs no such variant.)
* `SamePartition v d d'` — the medium `d'` holds the partition of the volume `v` byte for byte as `d` does.

Nothing is proved here.
-/
import Sdmmc.Spec.VolumeN
import Sdmmc.Spec.VolumeFault

namespace Sdmmc.Spec.Volume

open Sdmmc.Model Sdmmc.Model.Fat Sdmmc.Spec

/-- **The invariant of several open volumes up to the fault schedule.** -/
def VolInvNF (s : Mgr) (ghs : List Ghost) : Prop := VolInvN (clearFaults s) ghs

/-- The medium `d'` holds every block of the partition of `v` as `d` does. -/
def SamePartition (v : FatVolume) (d d' : Disk) : Prop := ∀ b, InPartition v b → d'.get b = d.get b

end Sdmmc.Spec.Volume
