/-
Specification side of the file-system properties (C02, C03, C05, C06, C09, C10, C16): an
*independent* FAT reader written from the Microsoft specification — it shares no code with
the model of the crate (`Sdmmc.Model.Fat`): it takes the geometry as numbers, reads FAT copy 1,
walks chains with its own fuel, lists a directory up to the first 0x00 slot, skips 0xE5 slots,
long-name fragments and volume labels.

Everything is total and executable; the driver exposes it as the `fsck`, `tree`, `usage`,
`mirror` and `slots` verbs, evaluated on the implementation's own medium.
-/
import Sdmmc.Model.Dev

namespace Sdmmc.Spec.Fs

open Sdmmc.Model

/-- Geometry of a volume, as numbers (absolute block indices). -/
structure Geom where
  fat32 : Bool
  /-- first block of the partition -/
  lba : Nat
  /-- total blocks of the partition -/
  total : Nat
  bpc : Nat
  /-- absolute first block of FAT copy 1 -/
  fatStart : Nat
  fatSize : Nat
  nFats : Nat
  /-- FAT16: absolute first block of the fixed root directory -/
  rootStart : Nat
  /-- FAT16: number of blocks of the fixed root directory -/
  rootBlocks : Nat
  /-- absolute first data block (cluster 2) -/
  firstData : Nat
  clusters : Nat
  /-- FAT32: first cluster of the root directory -/
  rootCluster : Nat
  /-- FAT32: absolute block of the information sector (0 = none) -/
  infoBlock : Nat
  deriving Repr, Inhabited

def rd16 (b : Bytes) (o : Nat) : Nat := (b.getD o 0).toNat + 256 * (b.getD (o + 1) 0).toNat
def rd32 (b : Bytes) (o : Nat) : Nat := rd16 b o + 65536 * rd16 b (o + 2)

/-- FAT entry of cluster `c` in FAT copy `k` (0-based); FAT32 entries are 28 bits. -/
def fatEntryOf (g : Geom) (d : Disk) (k c : Nat) : Nat :=
  if g.fat32 then rd32 (d.get (g.fatStart + k * g.fatSize + c * 4 / 512)) (c * 4 % 512) % 268435456
  else rd16 (d.get (g.fatStart + k * g.fatSize + c * 2 / 512)) (c * 2 % 512)

/-- Decode a whole FAT block into its entries (little-endian, 2 or 4 bytes each). -/
def decodeFatBlock (fat32 : Bool) : Bytes → List Nat
  | a :: b :: c :: e :: rest =>
    if fat32 then (a.toNat + 256 * b.toNat + 65536 * c.toNat + 16777216 * e.toNat) % 268435456 :: decodeFatBlock fat32 rest
    else (a.toNat + 256 * b.toNat) :: (c.toNat + 256 * e.toNat) :: decodeFatBlock fat32 rest
  | _ => []

/-- FAT copy 1 as a table indexed by cluster number (entries 0 .. clusters+1). -/
def loadFat (g : Geom) (d : Disk) : Array Nat :=
  let per := if g.fat32 then 128 else 256
  let nblocks := (g.clusters + 2 + per - 1) / per
  ((List.range nblocks).foldl (fun (acc : Array Nat) i =>
    match d.m.get? (g.fatStart + i) with
    | none => acc ++ (Array.replicate per 0)
    | some b => acc ++ (decodeFatBlock g.fat32 b).toArray) (Array.mkEmpty (nblocks * per)))

def fatEntry (g : Geom) (d : Disk) (c : Nat) : Nat := fatEntryOf g d 0 c

def isEoc (g : Geom) (v : Nat) : Bool := if g.fat32 then v ≥ 0x0FFFFFF8 else v ≥ 0xFFF8
def isBad (g : Geom) (v : Nat) : Bool := if g.fat32 then v = 0x0FFFFFF7 else v = 0xFFF7
def inRange (g : Geom) (c : Nat) : Bool := 2 ≤ c && c < g.clusters + 2

/-- The cluster chain starting at `first` (newest first in `acc`), or the clause it violates.
A cyclic chain runs out of fuel. -/
def chainAux (g : Geom) (fat : Array Nat) : (fuel : Nat) → (c : Nat) → (acc : List Nat) → Except String (List Nat)
  | 0, _, _ => .error "chain-cyclic"
  | fuel + 1, c, acc =>
    if !inRange g c then .error s!"chain-out-of-range:{c}"
    else
      let v := fat.getD c 0
      if isEoc g v then .ok (c :: acc).reverse
      else if v = 0 then .error s!"chain-through-free:{c}"
      else if isBad g v then .error s!"chain-through-bad:{c}"
      else if v = 1 then .error s!"chain-through-reserved:{c}"
      else chainAux g fat fuel v (c :: acc)

def chainT (g : Geom) (fat : Array Nat) (first : Nat) : Except String (List Nat) := chainAux g fat (g.clusters + 1) first []

def chain (g : Geom) (d : Disk) (first : Nat) : Except String (List Nat) := chainT g (loadFat g d) first

def clusterBlock (g : Geom) (c : Nat) : Nat := g.firstData + (c - 2) * g.bpc

/-- A directory: the FAT16 fixed root, or a chain starting at a cluster. -/
inductive DirRef | fixedRoot | at (cluster : Nat)
  deriving Repr, DecidableEq

def rootRef (g : Geom) : DirRef := if g.fat32 then .at g.rootCluster else .fixedRoot

/-- A directory slot with its location. -/
structure Slot where
  blk : Nat
  off : Nat
  bytes : Bytes
  deriving Repr

def blockSlots (d : Disk) (blk : Nat) : List Slot :=
  let b := d.get blk
  (List.range 16).map fun i => { blk, off := 32 * i, bytes := (b.drop (32 * i)).take 32 }

/-- All slots of a directory in on-disk order (and its chain, empty for the fixed root). -/
def dirSlotsT (g : Geom) (d : Disk) (fat : Array Nat) : DirRef → Except String (List Slot × List Nat)
  | .fixedRoot => .ok (((List.range g.rootBlocks).map fun i => blockSlots d (g.rootStart + i)).flatten, [])
  | .at c =>
    match chainT g fat c with
    | .error e => .error e
    | .ok cs => .ok ((cs.map fun c => ((List.range g.bpc).map fun j => blockSlots d (clusterBlock g c + j)).flatten).flatten, cs)

def dirSlots (g : Geom) (d : Disk) (r : DirRef) : Except String (List Slot × List Nat) := dirSlotsT g d (loadFat g d) r

def firstByte (s : Slot) : Nat := (s.bytes.getD 0 0).toNat
def attrOf (s : Slot) : Nat := (s.bytes.getD 11 0).toNat
def isLfnSlot (s : Slot) : Bool := attrOf s % 16 = 15
def isDirSlot (s : Slot) : Bool := attrOf s / 16 % 2 = 1
def isLabelSlot (s : Slot) : Bool := attrOf s / 8 % 2 = 1 && !isLfnSlot s
def nameOf (s : Slot) : Bytes := s.bytes.take 11
def clusterOf (g : Geom) (s : Slot) : Nat :=
  if g.fat32 then rd16 s.bytes 20 * 65536 + rd16 s.bytes 26 else rd16 s.bytes 26
def sizeOf (s : Slot) : Nat := rd32 s.bytes 28

/-- The live slots: up to the first 0x00 slot, without the 0xE5 ones. -/
def liveSlots (ss : List Slot) : List Slot := (ss.takeWhile fun s => firstByte s ≠ 0).filter fun s => firstByte s ≠ 0xE5

/-- Live short entries that are files or directories (no long-name fragments, no labels). -/
def objects (ss : List Slot) : List Slot := (liveSlots ss).filter fun s => !isLfnSlot s && !isLabelSlot s

def dotName : Bytes := UInt8.ofNat 46 :: List.replicate 10 (UInt8.ofNat 32)
def dotDotName : Bytes := UInt8.ofNat 46 :: UInt8.ofNat 46 :: List.replicate 9 (UInt8.ofNat 32)
def isDots (s : Slot) : Bool := nameOf s = dotName || nameOf s = dotDotName

/-- Pending state of an open file: it replaces the on-disk cluster / size of the slot it sits at. -/
structure Pending where
  blk : Nat
  off : Nat
  cluster : Nat
  size : Nat
  deriving Repr

def effective (g : Geom) (ps : List Pending) (s : Slot) : Nat × Nat :=
  match ps.find? fun p => p.blk = s.blk ∧ p.off = s.off with
  | some p => (p.cluster, p.size)
  | none => (clusterOf g s, sizeOf s)

/-- File contents: the first `size` bytes of the chain's blocks. -/
def fileBytes (g : Geom) (d : Disk) (cs : List Nat) (size : Nat) : Bytes :=
  ((cs.map fun c => ((List.range g.bpc).map fun j => d.get (clusterBlock g c + j)).flatten).flatten).take size

/-! ### fsck -/

structure Acc where
  /-- every cluster seen on some chain, with the path of its owner -/
  owned : Std.TreeMap Nat String compare := {}
  problems : List String := []
  dirsVisited : Nat := 0
  filesVisited : Nat := 0

def Acc.problem (a : Acc) (p : String) : Acc := { a with problems := a.problems ++ [p] }

def showName (n : Bytes) : String := String.ofList (n.map fun b => if 32 < b.toNat ∧ b.toNat < 127 then Char.ofNat b.toNat else '_')

def claim (a : Acc) (cs : List Nat) (owner : String) : Acc :=
  cs.foldl (fun a c =>
    match a.owned.get? c with
    | some o => { a with problems := a.problems ++ [s!"S1-shared-cluster:{c}:{o}:{owner}"] }
    | none => { a with owned := a.owned.insert c owner }) a

/-- Check one directory and recurse (fuel bounds the nesting depth and the total work). -/
def checkDir (g : Geom) (d : Disk) (fat : Array Nat) (ps : List Pending) (sizeClause : Bool) :
    (fuel : Nat) → (ref : DirRef) → (self parent : Nat) → (path : String) → Acc → Acc
  | 0, _, _, _, path, a => a.problem s!"D1-nesting-too-deep:{path}"
  | fuel + 1, ref, self, parent, path, a =>
    match dirSlotsT g d fat ref with
    | .error e => a.problem s!"D1-{e}:{path}"
    | .ok (ss, cs) =>
      let a := claim { a with dirsVisited := a.dirsVisited + 1 } cs path
      -- D2: nothing after the end marker
      let after := (ss.dropWhile fun s => firstByte s ≠ 0)
      let a := if after.all fun s => firstByte s = 0 then a else a.problem s!"D2-entry-after-end-marker:{path}"
      let objs := objects ss
      -- D3: unique names
      let names := objs.map nameOf
      let a := if names.eraseDups.length = names.length then a else a.problem s!"D3-duplicate-name:{path}"
      -- D4: dot entries of a sub-directory
      let a := match ref with
        | .fixedRoot => a
        | .at _ =>
          if path = "/" then a else
          match liveSlots ss with
          | s1 :: s2 :: _ =>
            let a := if nameOf s1 = dotName ∧ isDirSlot s1 ∧ clusterOf g s1 = self then a else a.problem s!"D4-bad-dot:{path}"
            if nameOf s2 = dotDotName ∧ isDirSlot s2 ∧ clusterOf g s2 = parent then a else a.problem s!"D4-bad-dotdot:{path}"
          | _ => a.problem s!"D4-missing-dot-entries:{path}"
      objs.foldl (fun a s =>
        if isDots s then a else
        let p := path ++ showName (nameOf s)
        let (c, sz) := effective g ps s
        if isDirSlot s then
          if !inRange g c then a.problem s!"D4-subdir-without-cluster:{p}:{c}"
          -- a directory whose first cluster already belongs to something visited is reported, not entered
          -- (on a corrupt medium the directory graph may have cycles: the walk must stay linear)
          else if a.owned.contains c then a.problem s!"S1-shared-cluster:{c}:{(a.owned.get? c).getD ""}:{p}"
          else if a.problems.length > 40 then a
          else checkDir g d fat ps sizeClause fuel (.at c) c (match ref with | .fixedRoot => 0 | .at r => if path = "/" then 0 else r) (p ++ "/") a
        else
          let a := { a with filesVisited := a.filesVisited + 1 }
          if c = 0 then (if sz = 0 ∨ !sizeClause then a else a.problem s!"D5-size-without-cluster:{p}:{sz}")
          else match chainT g fat c with
            | .error e => a.problem s!"D5-{e}:{p}"
            | .ok cs =>
              let a := claim a cs p
              if sizeClause ∧ sz > cs.length * g.bpc * 512 then a.problem s!"D5-chain-too-short:{p}:{sz}:{cs.length}" else a) a

/-- F1: every FAT entry of a data cluster is free, a link into the data area, an end mark or a bad mark. -/
def checkFatEntries (g : Geom) (fat : Array Nat) : List String :=
  ((List.range g.clusters).filterMap fun i =>
    let c := i + 2
    let v := fat.getD c 0
    if v = 0 ∨ inRange g v ∨ isEoc g v ∨ isBad g v then none else some s!"F1-bad-fat-entry:{c}:{v}").take 3

structure Verdict where
  problems : List String
  dirs : Nat
  files : Nat
  /-- number of clusters on some chain -/
  reachable : Nat
  /-- number of clusters whose FAT entry is neither free nor a bad mark -/
  used : Nat
  /-- clusters marked in use that no chain owns -/
  leaked : List Nat

/-- The whole check. `sizeClause = false` gives the crash-consistency variant (C10), which allows
a size not yet updated; lost clusters are reported separately in `used` / `reachable`. -/
def fsck (g : Geom) (d : Disk) (ps : List Pending) (sizeClause : Bool) : Verdict :=
  let fat := loadFat g d
  let a := checkDir g d fat ps sizeClause 64 (rootRef g) (if g.fat32 then g.rootCluster else 0) 0 "/" {}
  -- pending entries must sit on a live slot (P1 is implied by being found during the walk; a pending
  -- cluster of an entry that is not reachable is reported)
  let f1 := checkFatEntries g fat
  let used := (List.range g.clusters).filterMap fun i =>
    let v := fat.getD (i + 2) 0
    if v = 0 ∨ isBad g v then none else some (i + 2)
  { problems := f1 ++ a.problems, dirs := a.dirsVisited, files := a.filesVisited,
    reachable := a.owned.size, used := used.length, leaked := used.filter fun c => !a.owned.contains c }

/-- C16: every FAT copy is byte-identical to the first. -/
def mirrorOK (g : Geom) (d : Disk) : Option Nat :=
  (List.range ((g.nFats - 1) * g.fatSize)).find? fun i =>
    d.get (g.fatStart + g.fatSize + i) ≠ d.get (g.fatStart + i % g.fatSize)

/-- Number of free FAT entries among the data clusters. -/
def freeCount (g : Geom) (d : Disk) : Nat :=
  let fat := loadFat g d
  ((List.range g.clusters).filter fun i => fat.getD (i + 2) 0 = 0).length

/-! ### Tree dump -/

def showStamp (b : Bytes) (timeOff dateOff : Nat) : String := s!"{rd16 b dateOff}.{rd16 b timeOff}"

/-- One line per object, in on-disk order, depth first: path, kind, attributes, size, creation
and write stamps (raw date.time words), FNV-1a digest of the contents. -/
def dumpDir (g : Geom) (d : Disk) (fat : Array Nat) (anc : List Nat) : (fuel : Nat) → (ref : DirRef) → (path : String) → List String
  | 0, _, path => [s!"!{path} too-deep"]
  | fuel + 1, ref, path =>
    match dirSlotsT g d fat ref with
    | .error e => [s!"!{path} {e}"]
    | .ok (ss, _) =>
      ((objects ss).map fun s =>
        if isDots s then [] else
        let p := path ++ hexOfBytes (nameOf s)
        let c := clusterOf g s
        let stamps := s!"{showStamp s.bytes 14 16} {showStamp s.bytes 22 24}"
        if isDirSlot s then
          s!"D {p} {attrOf s} {stamps}" :: (if !inRange g c then [s!"!{p} no-cluster"]
            -- a directory that is its own ancestor (corrupt medium): reported, not entered
            else if anc.contains c then [s!"!{p} cycle"]
            else dumpDir g d fat (c :: anc) fuel (.at c) (p ++ "/"))
        else
          let body := if c = 0 then (.ok [] : Except String (List Nat)) else chainT g fat c
          match body with
          | .error e => [s!"!{p} {e}"]
          | .ok cs =>
            -- very large files (the formatter's filler) are identified by size and chain length only
            let digest := if sizeOf s > 1048576 then s!"big:{cs.length}" else toString (fnv64 (fileBytes g d cs (sizeOf s)))
            [s!"F {p} {attrOf s} {sizeOf s} {stamps} {digest}"]).flatten

def dumpTree (g : Geom) (d : Disk) : List String := dumpDir g d (loadFat g d) [] 64 (rootRef g) "/"

/-- The raw slots of the directory at a path of 11-byte names (for C06's listing oracle). -/
def findDir (g : Geom) (d : Disk) : (path : List Bytes) → DirRef → Except String DirRef
  | [], ref => .ok ref
  | n :: rest, ref =>
    match dirSlots g d ref with
    | .error e => .error e
    | .ok (ss, _) =>
      match (objects ss).find? fun s => nameOf s = n ∧ isDirSlot s with
      | none => .error "no-such-directory"
      | some s =>
        let c := clusterOf g s
        -- ".." with cluster 0 designates the root
        if c = 0 then findDir g d rest (rootRef g) else findDir g d rest (.at c)

end Sdmmc.Spec.Fs
