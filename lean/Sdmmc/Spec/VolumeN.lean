/-
Specification vocabulary for the volume invariant with SEVERAL OPEN VOLUMES (`Sdmmc.Props.C03Multi`).

The crate's `VolumeManager` keeps up to `MAX_VOLUMES` volumes open on ONE block device, through ONE one-block cache,
ONE handle generator and three tables (volumes, directories, files) with GLOBAL limits; a directory / file record
names its volume by the raw volume handle (`rawVolume`), and every call finds the volume record with
`get_volume_by_id` — the FIRST record of the volume table carrying that handle.

* `volFiles s hv` / `volDirs s hv` — the records of the tables that name the volume handle `hv`;
* `VolInvN s ghs` — the invariant: `ghs` is one ghost per open volume, in table order; for every open volume the
  medium-level invariant `MedInv` of C03 (`Sdmmc.Spec.Volume`) holds with the open files OF THAT VOLUME; the volume
  handles are pairwise distinct, the partitions `[lbaStart, lbaStart + numBlocks)` pairwise disjoint and the partition
  indices pairwise distinct; every open file names an open volume; an open directory that names an open volume
  designates its root or one of its sub-directories; an open directory that names NO open volume — `open_root_dir`
  does not validate its volume handle, accepted deviation (c) — carries the root marker (it is inert: every call on it
  answers `BadHandle`, because `get_volume_by_id` fails; nothing is required of it); plus the shared standing
  hypotheses (no scheduled device fault, coherent cache, not inside a directory-iteration callback).
  `maxVols` is arbitrary.
* `MirrorN s ghs` — the FAT copies of every open volume agree (the invariant `Mirror` of C04, per volume).
* `proj s i` — the manager "as volume `i` sees it": the same device, cache, clock and handle generator, the volume table
  reduced to record `i`, the directory and file tables reduced to the records naming its handle (in table order),
  `maxVols := 1`, and `maxDirs` / `maxFiles` lowered by the number of records of OTHER volumes, so that "table full"
  answers the same.
* `target s op` — the index of the volume record a call works on (through its directory / file / volume handle), if any.

Nothing is proved here.
-/
import Sdmmc.Spec.Volume
import Sdmmc.Spec.DataPlane

namespace Sdmmc.Spec.Volume

open Sdmmc.Model Sdmmc.Model.Fat Sdmmc.Spec

/-! ### The records of one volume -/

/-- The open files naming the volume handle `hv`, in table order. -/
def volFiles (s : Mgr) (hv : Nat) : List FileInfo := s.files.filter fun f => decide (f.rawVolume = hv)

/-- The open directories naming the volume handle `hv`, in table order. -/
def volDirs (s : Mgr) (hv : Nat) : List DirInfo := s.dirs.filter fun d => decide (d.rawVolume = hv)

/-- The open files naming another volume handle. -/
def otherFiles (s : Mgr) (hv : Nat) : List FileInfo := s.files.filter fun f => !decide (f.rawVolume = hv)

/-- The open directories naming another volume handle. -/
def otherDirs (s : Mgr) (hv : Nat) : List DirInfo := s.dirs.filter fun d => !decide (d.rawVolume = hv)

/-- The block ranges of two partitions do not meet. -/
def PartDisjoint (v w : FatVolume) : Prop := ∀ b, InPartition v b → ¬ InPartition w b

/-! ### The invariant -/

/-- The invariant of API histories with several open volumes. -/
structure VolInvN (s : Mgr) (ghs : List Ghost) : Prop where
  noFault : s.dev.faults = []
  coherent : ∀ i, s.cache.tag = some i → s.cache.blk = s.dev.disk.get i
  unlocked : s.locked = false
  /-- one ghost per open volume, in table order, carrying the volume record -/
  len : ghs.length = s.vols.length
  vols : ∀ (i : Nat) (vi : VolInfo) (gh : Ghost), s.vols[i]? = some vi → ghs[i]? = some gh → vi.vol = gh.vol
  /-- no two open volumes carry the same raw handle -/
  handles : (s.vols.map fun vi => vi.rawVolume).Nodup
  /-- no partition is open twice (the crate refuses: `VolumeAlreadyOpen`) -/
  indices : (s.vols.map fun vi => vi.idx).Nodup
  /-- the partitions of the open volumes do not overlap -/
  parts : ∀ (i j : Nat) (vi vj : VolInfo), s.vols[i]? = some vi → s.vols[j]? = some vj → i ≠ j → PartDisjoint vi.vol vj.vol
  /-- every open volume is structurally sound, with the open files of THAT volume -/
  med : ∀ (i : Nat) (vi : VolInfo) (gh : Ghost), s.vols[i]? = some vi → ghs[i]? = some gh → MedInv gh.vol s.dev.disk (volFiles s vi.rawVolume) gh
  /-- every open file belongs to an open volume -/
  fileVols : ∀ f, f ∈ s.files → ∃ vi, vi ∈ s.vols ∧ f.rawVolume = vi.rawVolume
  /-- an open directory of an open volume designates its root or one of its sub-directories -/
  openDirs : ∀ di, di ∈ s.dirs → ∀ (i : Nat) (vi : VolInfo) (gh : Ghost), s.vols[i]? = some vi → ghs[i]? = some gh → di.rawVolume = vi.rawVolume →
    ValidDir gh.dirs di.cluster
  /-- an open directory whose volume handle is not open (deviation (c)) carries the root marker; it is inert -/
  inertDirs : ∀ di, di ∈ s.dirs → (∀ vi, vi ∈ s.vols → di.rawVolume ≠ vi.rawVolume) → di.cluster = Gen.CLUSTER_ROOT_DIR

/-- The FAT copies of every open volume agree. -/
def MirrorN (s : Mgr) (ghs : List Ghost) : Prop := ∀ gh, gh ∈ ghs → Mirror gh.vol s.dev.disk

/-! ### The projection to one volume -/

/-- The manager as volume record `i` sees it. -/
def proj (s : Mgr) (i : Nat) : Mgr :=
  match s.vols[i]? with
  | none => { s with vols := [], dirs := [], files := [], maxVols := 1 }
  | some vi =>
    { s with
      vols := [vi]
      dirs := volDirs s vi.rawVolume
      files := volFiles s vi.rawVolume
      maxVols := 1
      maxDirs := s.maxDirs - (otherDirs s vi.rawVolume).length
      maxFiles := s.maxFiles - (otherFiles s vi.rawVolume).length }

/-! ### The volume a call works on -/

/-- The index of the volume record named by the directory handle `d`. -/
def dirTarget (s : Mgr) (d : Nat) : Option Nat :=
  match s.dirs.findIdx? (·.rawDirectory = d) with
  | none => none
  | some k =>
    match s.dirs[k]? with
    | none => none
    | some di => s.vols.findIdx? (·.rawVolume = di.rawVolume)

/-- The index of the volume record named by the file handle `f`. -/
def fileTarget (s : Mgr) (f : Nat) : Option Nat :=
  match s.files.findIdx? (·.rawFile = f) with
  | none => none
  | some k =>
    match s.files[k]? with
    | none => none
    | some fi => s.vols.findIdx? (·.rawVolume = fi.rawVolume)

/-- The index of the volume record a call works on, if it works on one.  (`openVolume`, `closeVolume`, `openRoot`,
`closeDir`, `hasOpen` change tables only or are treated separately.) -/
def target (s : Mgr) : Op → Option Nat
  | .openVolume _ => none
  | .closeVolume _ => none
  | .openRoot _ => none
  | .closeDir _ => none
  | .hasOpen => none
  | .openDir d _ => dirTarget s d
  | .openFile d _ _ => dirTarget s d
  | .delete d _ => dirTarget s d
  | .mkdir d _ => dirTarget s d
  | .find d _ => dirTarget s d
  | .list d => dirTarget s d
  | .listLfn d _ => dirTarget s d
  | .read f _ => fileTarget s f
  | .write f _ => fileTarget s f
  | .seekStart f _ => fileTarget s f
  | .seekCur f _ => fileTarget s f
  | .seekEnd f _ => fileTarget s f
  | .flush f => fileTarget s f
  | .closeFile f => fileTarget s f
  | .length f => fileTarget s f
  | .offset f => fileTarget s f
  | .eof f => fileTarget s f
  | .label v => s.vols.findIdx? (·.rawVolume = v)

end Sdmmc.Spec.Volume
