/-
Specification vocabulary for clause 5 of C10 at API level (`Sdmmc.Props.C10Init`): "no directory exposes uninitialised
cluster contents as entries".

`InitCluster v d c`: the data cluster `c` holds nothing but — at most — two directory slots at its very beginning: every
byte of its first block from offset 64 on is zero, and every other block of the cluster is the zero block.  That is what
the library leaves in a cluster it appends to a directory: blank (`ClusterZero`), or blank except for the ONE entry
`write_new_directory_entry` put into its first slot (directory growth), or blank except for the `.` and `..` entries of
a new sub-directory — and never anything of what the cluster held while it was free.

`DirClustersInit v P d gh`: every cluster of every chained directory of the tree `gh` on the medium `d` satisfies `P`
(read: "was in use before the call") or is an `InitCluster`.  (The FAT16 fixed root region is not a cluster chain and
never grows.)

`DirtyOf v d d'`: the medium `d'` is `d` with ARBITRARY contents (512 bytes a block) in the blocks of the data clusters
that are not in use on `d` — free clusters holding anything whatsoever, stale directory entries included.

Nothing is proved here.
-/
import Sdmmc.Spec.Volume
import Sdmmc.Spec.Crash

namespace Sdmmc.Spec.Volume

open Sdmmc.Model Sdmmc.Model.Fat Sdmmc.Spec

/-- The cluster is blank except for at most its first two directory slots. -/
def InitCluster (v : FatVolume) (d : Disk) (c : Nat) : Prop :=
  (∀ i, 64 ≤ i → byteAt (d.get (clusterToBlock v c)) i = 0) ∧
  ∀ j, 0 < j → j < v.blocksPerCluster → d.get (clusterToBlock v c + j) = zeroBlock

/-- The clusters of directory `h` (cf. `dirSlots`): none for the FAT16 fixed root region, the chain of the root cluster
on FAT32, the chain of its first cluster for a sub-directory. -/
def dirClusters (v : FatVolume) (G : List (List Nat)) (h : Nat) : List Nat :=
  if h = 0 then
    match v.fatType with
    | .fat16 => []
    | .fat32 => chainOf G v.firstRootDirCluster
  else chainOf G h

/-- Every cluster of every directory satisfies `P` or is an `InitCluster`. -/
def DirClustersInit (v : FatVolume) (P : Nat → Prop) (d : Disk) (gh : Ghost) : Prop :=
  ∀ h, h ∈ dirIds gh.dirs → ∀ c, c ∈ dirClusters v gh.G h → P c ∨ InitCluster v d c

/-- `d'` is `d` except for the contents of the data clusters that are not in use. -/
def DirtyOf (v : FatVolume) (d d' : Disk) : Prop :=
  BlocksOK d' ∧
  ∀ i, (∀ c j, InRange v c → ¬ isUsed v d c → j < v.blocksPerCluster → i ≠ clusterToBlock v c + j) → d'.get i = d.get i

end Sdmmc.Spec.Volume
