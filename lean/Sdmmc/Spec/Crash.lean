/-
Specification vocabulary for the crash-prefix theorems (`Props/C10Crash.lean`, `Props/C09Crash.lean`):

* `newWrites before after` — the block writes a call added to the device's write log, oldest first;
  `crashDisks d ws` — the media a power cut can leave: `d` with the first `k` writes of `ws` applied,
  for every `k ≤ ws.length`;
* `OwnsLoose v d G` — the crash-consistency predicate on a client's record `G` of its chains: every
  list is the `Chain` of its first cluster (in range, acyclic, end-of-chain terminated, through no
  free / bad / reserved entry), no cluster occurs twice, every cluster of the record is in use.
  Clusters that are in use but in no list (lost clusters) ARE allowed — that is the difference to
  `Owns` (`Spec/Forest.lean`);
* `Lost` — a cluster in use that is in no chain of a record; `LooksLike` — two media that agree on FAT
  copy 1 and on all non-FAT blocks; `MirrorBut` — FAT copy 2 equals copy 1 except in at most one sector;
* `opIndex`, `opZero`, `opChain` — which chain of the record a `FatOp` works on, and whether it blanks
  the cluster it allocates;  `ClusterZero`, `InCluster` — all blocks of a cluster are blank / a block of
  a cluster;  `Untouched` — no operation of a history works on a given chain;
* `chainOK`, `ownsLooseB` — executable checkers (sound: `Lemmas.CrashBase.chainOK_sound`,
  `ownsLooseB_sound`), used by the non-vacuity examples.

Everything here is part of the trusted statement of the two property files; nothing is proved here.
-/
import Sdmmc.Spec.Forest

namespace Sdmmc.Spec

open Sdmmc.Model Sdmmc.Model.Fat

/-! ### Crash points -/

/-- The device writes `(block, payload)` issued between the states `before` and `after` of one call
(or one history), OLDEST first.  (`dev.wlog` is newest first and only ever grows.) -/
def newWrites (before after : FS) : List (Nat × Block) :=
  (after.dev.wlog.take (after.dev.wlog.length - before.dev.wlog.length)).reverse

/-- The medium after the first `k` writes of `ws` reached it and power was cut. -/
def crashDisk (d : Disk) (ws : List (Nat × Block)) (k : Nat) : Disk := d.applyWrites (ws.take k)

/-- All media a power cut during the writes `ws` can leave (`k = 0`: before the first write,
`k = ws.length`: after the last). -/
def crashDisks (d : Disk) (ws : List (Nat × Block)) : List Disk :=
  (List.range (ws.length + 1)).map fun k => crashDisk d ws k

/-! ### The crash-consistency predicate -/

/-- The record `G` is structurally sound on medium `d`: every list of `G` is the chain of its first
cluster, no cluster occurs twice (no sharing between chains, no repetition inside one), and every
cluster of the record is in use (neither free nor bad, and a data cluster of the volume).  Used
clusters outside `G` — lost clusters — are permitted. -/
def OwnsLoose (v : FatVolume) (d : Disk) (G : List (List Nat)) : Prop :=
  (∀ cs, cs ∈ G → Chain v d (cs.headD 0) cs) ∧ G.flatten.Nodup ∧ ∀ c, c ∈ G.flatten → isUsed v d c

/-- The clusters that are in use on `d` but in no chain of the record: what a crash may lose. -/
def Lost (v : FatVolume) (d : Disk) (G : List (List Nat)) (c : Nat) : Prop := isUsed v d c ∧ c ∉ G.flatten

/-- `d'` looks like `d` to everything that reads FAT copy 1 and blocks outside the FAT: the sectors of
FAT copy 1 holding the volume's entries and all non-FAT blocks are identical.  (They may differ in FAT
copy 2.) -/
def LooksLike (v : FatVolume) (d d' : Disk) : Prop :=
  (∀ c, c < endCluster v → d'.get (fatBlock v c) = d.get (fatBlock v c)) ∧ ∀ i, regionOf v i ≠ .fat → d'.get i = d.get i

/-- FAT copy 2 is identical to copy 1 except possibly in ONE sector: what a power cut between the two
device writes of one `update_fat` (copy 1 first, then copy 2) leaves.  (`Mirror` = no exception.) -/
def MirrorBut (v : FatVolume) (d : Disk) : Prop :=
  ∃ b, ∀ c, c < endCluster v → fatBlock v c ≠ b → ∀ b2, fatBlock2 v c = some b2 → d.get b2 = d.get (fatBlock v c)

/-- Every block of data cluster `c` is blank. -/
def ClusterZero (v : FatVolume) (d : Disk) (c : Nat) : Prop :=
  ∀ j, j < v.blocksPerCluster → d.get (clusterToBlock v c + j) = zeroBlock

/-- Block `i` is one of the blocks of data cluster `c`. -/
def InCluster (v : FatVolume) (c i : Nat) : Prop :=
  clusterToBlock v c ≤ i ∧ i < clusterToBlock v c + v.blocksPerCluster

/-! ### Operations -/

/-- The index (in the client's record) of the chain an operation works on. -/
def opIndex : FatOp → Option Nat
  | .newChain _ => none
  | .extend i _ => some i
  | .truncate i _ => some i
  | .free i => some i

/-- Whether the operation blanks the cluster it allocates. -/
def opZero : FatOp → Bool
  | .newChain z => z
  | .extend _ z => z
  | .truncate _ _ => false
  | .free _ => false

/-- The chain (as a list of clusters) an operation works on in the record `G`, if any. -/
def opChain (G : List (List Nat)) (op : FatOp) : Option (List Nat) :=
  match opIndex op with
  | none => none
  | some i => G[i]?

/-- No operation of the history works on the chain `X`.  The chain is identified by its clusters, not
by its index: the chains of a sound record are pairwise different (they are non-empty and share no
cluster), and `free` shifts the indices of the chains behind the one it removes. -/
def Untouched (X : List Nat) : FS × List (List Nat) → List FatOp → Prop
  | _, [] => True
  | st, op :: ops => opChain st.2 op ≠ some X ∧ Untouched X (step st op) ops

instance decUntouched (X : List Nat) : ∀ (ops : List FatOp) (st : FS × List (List Nat)), Decidable (Untouched X st ops)
  | [], _ => isTrue trivial
  | op :: ops, st =>
    have := decUntouched X ops (step st op)
    inferInstanceAs (Decidable (opChain st.2 op ≠ some X ∧ Untouched X (step st op) ops))

/-! ### Executable checkers -/

/-- `cs` is the chain of its first cluster on `d` (Boolean form of `Chain v d (cs.headD 0) cs`). -/
def chainOK (v : FatVolume) (d : Disk) : List Nat → Bool
  | [] => false
  | [c] => decide (InRange v c) && (match nextOf v d c with | .err .EndOfFile => true | _ => false)
  | c :: n :: rest =>
    decide (InRange v c) && (match nextOf v d c with | .ok m => m == n | _ => false) &&
    !(n :: rest).contains c && chainOK v d (n :: rest)

/-- Boolean form of `OwnsLoose`. -/
def ownsLooseB (v : FatVolume) (d : Disk) (G : List (List Nat)) : Bool :=
  G.all (chainOK v d) && decide G.flatten.Nodup && G.flatten.all fun c => decide (isUsed v d c)

end Sdmmc.Spec
