/-
Specification vocabulary for the crash-prefix theorems of the directory plane
(`Props/C10CrashDir.lean`): the stages of an allocation as a predicate on a crashed medium
(`AllocStage`), a directory that has grown by one blank cluster (`DirGrown`), "only clusters that were
free have changed" (`FreshOnly`), and a fully initialised new directory cluster (`NewDirReady`).

Nothing is proved here.
-/
import Sdmmc.Spec.Crash

namespace Sdmmc.Spec

open Sdmmc.Model Sdmmc.Model.Fat

/-- What a power cut during `alloc_cluster(prev, zero)` returning `c` can leave (`d0` the medium before,
`dfin` the medium after the call), in the order of the device writes:
(A) no FAT entry has changed; only blocks of the still free cluster `c` may differ, and only when `zero`;
(B) `c` reads end-of-chain, no other entry has changed, and when `zero` every block of `c` is blank;
(C) the medium looks like the one after the call, and when `zero` every block of `c` is blank. -/
def AllocStage (v : FatVolume) (d0 dfin : Disk) (zero : Bool) (c : Nat) (d : Disk) : Prop :=
  ((∀ y, y < endCluster v → fatRaw v d y = fatRaw v d0 y) ∧
    (∀ i, regionOf v i ≠ .fat → ¬ (zero = true ∧ InCluster v c i) → d.get i = d0.get i)) ∨
  (nextOf v d c = .err .EndOfFile ∧
    (∀ y, y < endCluster v → y ≠ c → fatRaw v d y = fatRaw v d0 y) ∧
    (∀ i, regionOf v i ≠ .fat → ¬ (zero = true ∧ InCluster v c i) → d.get i = d0.get i) ∧
    (zero = true → ClusterZero v d c)) ∨
  (LooksLike v dfin d ∧ (zero = true → ClusterZero v d c))

/-- The first free slot (first byte `0x00` or `0xE5`) of block `b` on `d` is at byte offset `off`. -/
def SlotFree (d : Disk) (b off : Nat) : Prop := firstFreeSlot (slotsOf (d.get b)) = some off

/-- Relative to `d0`, on `dM` the directory whose chain ended in `p` has grown by the cluster `c`: `c`
was free, is now entirely blank, marked end-of-chain and linked from `p`; no other FAT entry and no
block outside the FAT and outside `c` differs. -/
structure DirGrown (v : FatVolume) (d0 dM : Disk) (p c : Nat) : Prop where
  inRange : InRange v c
  wasFree : isFree v d0 c
  lastUsed : isUsed v d0 p
  zero : ClusterZero v dM c
  link : nextOf v dM p = .ok c
  eof : nextOf v dM c = .err .EndOfFile
  fat : ∀ y, y < endCluster v → y ≠ c → y ≠ p → fatRaw v dM y = fatRaw v d0 y
  blocks : ∀ i, regionOf v i ≠ .fat → ¬ InCluster v c i → dM.get i = d0.get i

/-- `d` differs from `d0` only in the FAT entries of the clusters `fresh` — all free on `d0` — and of
`plast`, and in blocks of the `fresh` clusters; a fresh cluster other than `c` that is no longer free on
`d` is entirely blank. -/
structure FreshOnly (v : FatVolume) (d0 d : Disk) (c : Nat) (fresh : List Nat) (plast : Option Nat) : Prop where
  wasFree : ∀ x, x ∈ fresh → InRange v x ∧ isFree v d0 x
  fat : ∀ y, y < endCluster v → y ∉ fresh → plast ≠ some y → fatRaw v d y = fatRaw v d0 y
  blocks : ∀ i, regionOf v i ≠ .fat → (∀ x, x ∈ fresh → ¬ InCluster v x i) → d.get i = d0.get i
  blank : ∀ x, x ∈ fresh → x ≠ c → ¬ isFree v d x → ClusterZero v d x

/-- The `.` entry of a new directory at cluster `c` (first block `b`). -/
def dotEntry (c att : Nat) (now : Timestamp) (b : Nat) : DirEntry :=
  { name := Sfn.thisDir, mtime := now, ctime := now, attributes := att, cluster := c, size := 0, entryBlock := b, entryOffset := 0 }

/-- The `..` entry: the parent's cluster, or 0 when the parent is the root directory. -/
def dotdotEntry (parent att : Nat) (now : Timestamp) (b : Nat) : DirEntry :=
  { name := Sfn.parentDir, mtime := now, ctime := now, attributes := att,
    cluster := if parent = Gen.CLUSTER_ROOT_DIR then Gen.CLUSTER_EMPTY else parent, size := 0,
    entryBlock := b, entryOffset := Gen.DIRENT_LEN }

/-- Cluster `c` is a fully initialised new directory on `d`: end-of-chain in the FAT; slot 0 of its
first block is `.` → `c`, slot 1 is `..` → `parent`, every other byte of the cluster is zero. -/
structure NewDirReady (v : FatVolume) (d : Disk) (c parent att : Nat) (now : Timestamp) : Prop where
  eof : nextOf v d c = .err .EndOfFile
  dot : slice (d.get (clusterToBlock v c)) 0 32 = DirEntry.serialize v.fatType (dotEntry c att now (clusterToBlock v c))
  dotdot : slice (d.get (clusterToBlock v c)) 32 32 = DirEntry.serialize v.fatType (dotdotEntry parent att now (clusterToBlock v c))
  tail : ∀ i, 64 ≤ i → (d.get (clusterToBlock v c)).getD i 0 = 0
  rest : ∀ j, 0 < j → j < v.blocksPerCluster → d.get (clusterToBlock v c + j) = zeroBlock

end Sdmmc.Spec
