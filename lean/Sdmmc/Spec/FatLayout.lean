/-
Specification side of C15 (and of the geometry hypothesis of the file-system theorems): the
layout formulas of the Microsoft FAT specification (fatgen103, "FAT Data Structure",
"FAT Type Determination"), written from the specification, over the raw BPB fields.
-/
namespace Sdmmc.Spec.FatLayout

/-- The BPB fields the formulas use (already decoded from little-endian). -/
structure BpbFields where
  bytsPerSec : Nat
  secPerClus : Nat
  rsvdSecCnt : Nat
  numFATs : Nat
  rootEntCnt : Nat
  totSec16 : Nat
  fatSz16 : Nat
  totSec32 : Nat
  fatSz32 : Nat
  fsVer : Nat
  rootClus : Nat
  fsInfo : Nat
  deriving Repr

def fatSz (b : BpbFields) : Nat := if b.fatSz16 ≠ 0 then b.fatSz16 else b.fatSz32
def totSec (b : BpbFields) : Nat := if b.totSec16 ≠ 0 then b.totSec16 else b.totSec32
/-- `RootDirSectors = ((BPB_RootEntCnt * 32) + (BPB_BytsPerSec – 1)) / BPB_BytsPerSec` for 512-byte sectors. -/
def rootDirSectors (b : BpbFields) : Nat := (b.rootEntCnt * 32 + 511) / 512
/-- `FirstDataSector = BPB_ResvdSecCnt + (BPB_NumFATs * FATSz) + RootDirSectors`. -/
def firstDataSector (b : BpbFields) : Nat := b.rsvdSecCnt + b.numFATs * fatSz b + rootDirSectors b
/-- `CountofClusters = DataSec / BPB_SecPerClus`, `DataSec = TotSec – FirstDataSector`. -/
def countOfClusters (b : BpbFields) : Nat := (totSec b - firstDataSector b) / b.secPerClus

inductive Kind | fat12 | fat16 | fat32
  deriving DecidableEq, Repr
/-- "FAT Type Determination". -/
def kind (b : BpbFields) : Kind :=
  if countOfClusters b < 4085 then .fat12 else if countOfClusters b < 65525 then .fat16 else .fat32

/-- A boot sector this library is expected to mount: 512-byte sectors, a power-of-two cluster
size up to 128 sectors, at least one reserved sector, one or two FATs, a data area that fits the
total, fields within their widths; on FAT32 version 0.0 and no fixed root directory. -/
def WFBpb (b : BpbFields) : Prop :=
  b.bytsPerSec = 512 ∧ b.secPerClus ∈ [1, 2, 4, 8, 16, 32, 64, 128] ∧ 1 ≤ b.rsvdSecCnt ∧ b.rsvdSecCnt < 65536 ∧
  (b.numFATs = 1 ∨ b.numFATs = 2) ∧ b.rootEntCnt < 65536 ∧ b.totSec16 < 65536 ∧ b.fatSz16 < 65536 ∧
  b.totSec32 < 4294967296 ∧ b.fatSz32 < 4294967296 ∧ b.rootClus < 4294967296 ∧ b.fsInfo < 65536 ∧
  firstDataSector b ≤ totSec b ∧ 4085 ≤ countOfClusters b ∧
  (kind b = .fat32 → b.fsVer = 0 ∧ b.rootEntCnt = 0)

end Sdmmc.Spec.FatLayout
