/-
Sessions of the SD card driver (vocabulary for C14 over sequences of calls; trusted).

A *session* is a list of public calls made one after the other on the same driver, whatever
each of them returned (`runCalls`).  The event log of the model (`St.events`) records what was
put on the bus, but not where one call ends and the next begins, nor when the driver decided
that the card is identified or has to be identified again.  The *marked log* of a session
(`sessionMarks`) is the event log with exactly these three things written into it:

* `.call c` in front of the events of each call;
* `.identified` right after the events of an `acquire` that returned `Ok`;
* `.reset` right after the events of an `acquire` that returned an error, and for every
  `mark_card_uninit`.

Erasing the marks gives back the events of the session (`Lemmas.Sd.events_sessionMarks`), so the
marked log is a decoration of the real log, not a second model.
-/
import Sdmmc.Model.Sd

namespace Sdmmc.Spec.SdSession
open Sdmmc.Model Sdmmc.Model.Sd

variable {σ : Type} (B : BusOps σ)

/-- Run the calls one after the other, whatever each returned (errors do not end the session). -/
def runCalls : List Call → St σ → St σ
  | [], s => s
  | c :: cs, s => runCalls cs (call B c s).2

/-- The events added between two states, oldest first.  Same body as `Sdmmc.Props.C14.evsNew`. -/
def newEvents (s s' : St σ) : List Event := (s'.events.take (s'.events.length - s.events.length)).reverse

inductive Mark
  /-- a public call begins -/
  | call (c : Call)
  /-- something put on the bus -/
  | ev (e : Event)
  /-- the `acquire` whose events end here returned `Ok` -/
  | identified
  /-- the card has to be identified again: `mark_card_uninit`, or the `acquire` whose events end
  here returned an error -/
  | reset

/-- The events of a marked log. -/
def events : List Mark → List Event
  | [] => []
  | .ev e :: l => e :: events l
  | _ :: l => events l

def isMarkUninit : Call → Bool
  | .markUninit => true
  | _ => false

/-- The outcome mark of an `acquire`. -/
def acquireMark : SRes Unit → Mark
  | .ok _ => .identified
  | _ => .reset

/-- The marked log of one call made in state `s`.  `mark_card_uninit` puts nothing on the bus.
Every other call runs `check_init` first, which runs `acquire` exactly when no card type is
recorded: then the events of that `acquire` come first, then its outcome mark, then the rest of
the events of the call. -/
def callMarks (c : Call) (s : St σ) : List Mark :=
  .call c ::
    (if isMarkUninit c = true then [.reset]
     else if s.cardType.isSome = true then (newEvents s (call B c s).2).map .ev
     else
       (newEvents s (acquire B s).2).map .ev ++ acquireMark (acquire B s).1 ::
         ((newEvents s (call B c s).2).drop (newEvents s (acquire B s).2).length).map .ev)

/-- The marked logs of the calls of a session, call by call. -/
def sessionBlocks : List Call → St σ → List (List Mark)
  | [], _ => []
  | c :: cs, s => callMarks B c s :: sessionBlocks cs (call B c s).2

/-- The marked log of a session. -/
def sessionMarks (cs : List Call) (s : St σ) : List Mark := (sessionBlocks B cs s).flatten

/-- What is known about the card before the session: a driver that has a card type recorded is
taken to have identified the card earlier. -/
def initialMarks (s : St σ) : List Mark := if s.cardType.isSome = true then [.identified] else []

/-- Reading the marks from the oldest on: is the card identified?  `identified` says yes,
`reset` says no, everything else leaves it as it was. -/
def identStep (b : Bool) : Mark → Bool
  | .identified => true
  | .reset => false
  | _ => b

/-- After the marked log `L` (starting from "not identified"), the card is identified: the last
`identified`/`reset` mark of `L` is `identified`. -/
def identifiedAfter (L : List Mark) : Bool := L.foldl identStep false

end Sdmmc.Spec.SdSession
