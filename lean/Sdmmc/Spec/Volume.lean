/-
The volume invariant of C03 (and the quiescent-point statement of C05, the clean-tail hypothesis of
C06): what "the on-disk volume together with the pending state of the still-open files is
structurally sound" means.  Part of the trusted statement of `Sdmmc.Props.C03Inv`; nothing is
proved here.

Reading guide.
* A directory is a list of 32-byte `Slot`s (block, byte offset, bytes) in on-disk order: the blocks
  of the FAT16 fixed root region, or the blocks of the clusters of a chain (`dirSlots`).  A slot
  whose first byte is 0x00 ends the directory, 0xE5 marks a deleted slot, attribute low nibble 0xF a
  long-name fragment; the remaining slots are the directory's `entries`.
* Directories are named by a number: `0` is the root directory, `h ≥ 2` the sub-directory whose
  chain starts at cluster `h` (this is how `..` entries name them on the medium).
* The ghost `gh` is what the file/directory layer "knows": the volume record, the list `G` of ALL
  cluster chains of the volume, and the list `dirs` of all sub-directories `(h, p)` — first cluster
  and the number of the parent directory — parents before children.
* `.` and `..` are recognised by POSITION (the first two slots of a sub-directory), not by name; all
  other entries are the directory's `objects`.  A volume-label entry counts as a file-like object,
  because the crate's lookup treats it as one.
* Pending state: an open file's record (`FileInfo.entry.cluster / size`) replaces the on-disk fields
  of the slot it sits at (`effCluster`, `effSize`).
* Single open volume: the manager has at most one volume open (`maxVols = 1`, the crate's default).
-/
import Sdmmc.Spec.DataPlane

namespace Sdmmc.Spec.Volume

open Sdmmc.Model Sdmmc.Model.Fat Sdmmc.Spec

/-! ### Directory slots -/

/-- A directory slot: the block it lives in, its byte offset in that block, its 32 raw bytes. -/
abbrev Slot := Nat × Nat × Bytes

/-- The 16 slots of the 512-byte block `blk` stored at block number `b`. -/
def blockSlots (b : Nat) (blk : Block) : List Slot :=
  (List.range 16).map fun i => (b, 32 * i, (blk.drop (32 * i)).take 32)

/-- The slots of the blocks `b .. b+n-1` of the medium. -/
def runSlots (d : Disk) (b n : Nat) : List Slot :=
  (List.range n).flatMap fun j => blockSlots (b + j) (d.get (b + j))

/-- The slots of a directory stored in the cluster chain `cs`. -/
def chainSlots (v : FatVolume) (d : Disk) (cs : List Nat) : List Slot :=
  cs.flatMap fun c => runSlots d (clusterToBlock v c) v.blocksPerCluster

/-- The slots of the FAT16 fixed root directory. -/
def fixedRootSlots (v : FatVolume) (d : Disk) : List Slot :=
  runSlots d (v.lbaStart + v.firstRootDirBlock) (blockCountFromBytes (v.rootEntriesCount * 32))

/-- `DIR_Name[0]`. -/
def first (s : Slot) : Nat := byteAt s.2.2 0
/-- The 11 name bytes. -/
def sName (s : Slot) : Bytes := s.2.2.take 11
/-- `DIR_Attr`. -/
def sAttr (s : Slot) : Nat := byteAt s.2.2 11
/-- Long-name fragment (the crate's test: all four low attribute bits set). -/
def isFrag (s : Slot) : Bool := decide (sAttr s % 16 = 15)
/-- The directory attribute bit. -/
def isDirE (s : Slot) : Bool := decide (sAttr s / 16 % 2 = 1)
/-- The start cluster stored in the slot (`DIR_FstClusHI` counts on FAT32 only). -/
def sCluster (ft : FatType) (s : Slot) : Nat :=
  match ft with
  | .fat16 => readU16 s.2.2 26
  | .fat32 => readU16 s.2.2 20 * 65536 + readU16 s.2.2 26
/-- `DIR_FileSize`. -/
def sSize (s : Slot) : Nat := readU32 s.2.2 28

/-- The slots before the end marker (the first slot whose first byte is 0x00). -/
def beforeEnd (ss : List Slot) : List Slot := ss.takeWhile fun s => decide (first s ≠ 0)
/-- The live slots: before the end marker and not deleted. -/
def live (ss : List Slot) : List Slot := (beforeEnd ss).filter fun s => decide (first s ≠ 0xE5)
/-- The live short entries: live and not a long-name fragment. -/
def entries (ss : List Slot) : List Slot := (live ss).filter fun s => !isFrag s
/-- Nothing follows the end-of-directory marker: every slot after the first 0x00 slot is a 0x00 slot. -/
def CleanTail (ss : List Slot) : Prop :=
  ∀ t ∈ ss.dropWhile (fun s => decide (first s ≠ 0)), first t = 0

/-! ### The ghost and the directories it names -/

structure Ghost where
  /-- the record of the volume (kept here so that the invariant survives `close_volume`) -/
  vol : FatVolume
  /-- all cluster chains of the volume -/
  G : List (List Nat)
  /-- all sub-directories: (first cluster, number of the parent directory), parents first -/
  dirs : List (Nat × Nat)

/-- The chain of `G` that starts at cluster `h` (`[]` if there is none). -/
def chainOf (G : List (List Nat)) (h : Nat) : List Nat := (G.find? fun cs => cs.head? = some h).getD []

/-- FAT32: the root directory is a chain, starting at the cluster the boot sector names. -/
def rootHead (v : FatVolume) : List Nat :=
  match v.fatType with
  | .fat16 => []
  | .fat32 => [v.firstRootDirCluster]

/-- The numbers of all directories: the root and the sub-directories. -/
def dirIds (dirs : List (Nat × Nat)) : List Nat := 0 :: dirs.map Prod.fst

/-- The number of the directory an open-directory handle (or the `dir_cluster` argument of the FAT
engine) designates. -/
def dirIdOf (cluster : Nat) : Nat := if cluster = Gen.CLUSTER_ROOT_DIR then 0 else cluster

/-- A `cluster` field of an open-directory handle that designates a directory: the root marker, or the
first cluster of a sub-directory. -/
def ValidDir (dirs : List (Nat × Nat)) (cluster : Nat) : Prop :=
  cluster = Gen.CLUSTER_ROOT_DIR ∨ cluster ∈ dirs.map Prod.fst

/-- The slots of directory number `h`. -/
def dirSlots (v : FatVolume) (d : Disk) (G : List (List Nat)) (h : Nat) : List Slot :=
  if h = 0 then
    match v.fatType with
    | .fat16 => fixedRootSlots v d
    | .fat32 => chainSlots v d (chainOf G v.firstRootDirCluster)
  else chainSlots v d (chainOf G h)

/-- The objects (files, sub-directories, labels) of directory `h` with slot list `ss`: all its entries,
minus — in a sub-directory — the two leading dot entries. -/
def objects (h : Nat) (ss : List Slot) : List Slot := if h = 0 then entries ss else (entries ss).drop 2

/-! ### Pending state of open files -/

/-- The open file sitting at a slot, if any. -/
def pendOf (files : List FileInfo) (s : Slot) : Option FileInfo :=
  files.find? fun f => decide (f.entry.entryBlock = s.1 ∧ f.entry.entryOffset = s.2.1)

/-- Start cluster of a file entry, the open file's record taking precedence. -/
def effCluster (ft : FatType) (files : List FileInfo) (s : Slot) : Nat :=
  match pendOf files s with
  | some f => f.entry.cluster
  | none => sCluster ft s

/-- Size of a file entry, the open file's record taking precedence. -/
def effSize (files : List FileInfo) (s : Slot) : Nat :=
  match pendOf files s with
  | some f => f.entry.size
  | none => sSize s

/-- The start clusters the sub-directory entries among `os` name. -/
def subdirRefs (ft : FatType) (os : List Slot) : List Nat := (os.filter isDirE).map (sCluster ft)

/-- The start clusters the file entries among `os` name (effective; entries without a cluster omitted). -/
def fileRefs (ft : FatType) (files : List FileInfo) (os : List Slot) : List Nat :=
  ((os.filter fun o => !isDirE o).map (effCluster ft files)).filter fun c => decide (c ≠ 0)

/-- A dot entry: the given name, a directory, start cluster `c`. -/
def IsDot (ft : FatType) (name : Bytes) (c : Nat) (s : Slot) : Prop :=
  sName s = name ∧ isDirE s = true ∧ isFrag s = false ∧ sCluster ft s = c

/-! ### The directory tree

Stated over the slot lists `slots h` of the directories, so that it can be read without the medium:
`ft` FAT type, `cb` bytes per cluster, `root` the FAT32 root cluster (if any), `G` the chains, `dirs`
the sub-directories, `files` the open files. -/
structure TreeOK (ft : FatType) (cb : Nat) (root : List Nat) (G : List (List Nat)) (dirs : List (Nat × Nat))
    (slots : Nat → List Slot) (files : List FileInfo) : Prop where
  /-- no entry follows the end-of-directory marker -/
  cleanTail : ∀ h, h ∈ dirIds dirs → CleanTail (slots h)
  /-- the names of the live short entries of a directory (dot entries and labels included) are distinct -/
  names : ∀ h, h ∈ dirIds dirs → ((entries (slots h)).map sName).Nodup
  /-- every sub-directory's parent is the root or an earlier sub-directory: all are reachable from the root -/
  order : ∀ i h p, dirs[i]? = some (h, p) → p = 0 ∨ p ∈ (dirs.take i).map Prod.fst
  /-- a sub-directory starts with `.` (its own first cluster) and `..` (its parent's, 0 for the root) -/
  dots : ∀ h p, (h, p) ∈ dirs → ∃ s0 s1 rest, slots h = s0 :: s1 :: rest ∧
    IsDot ft Sfn.thisDir h s0 ∧ IsDot ft Sfn.parentDir p s1
  /-- a sub-directory entry found in directory `h` names a sub-directory whose parent is `h` -/
  subdirs : ∀ h, h ∈ dirIds dirs → ∀ o, o ∈ objects h (slots h) → isDirE o = true → (sCluster ft o, h) ∈ dirs
  /-- every sub-directory is named by exactly one sub-directory entry -/
  dirRefs : List.Perm ((dirIds dirs).flatMap fun h => subdirRefs ft (objects h (slots h))) (dirs.map Prod.fst)
  /-- the chains of the volume are, one to one: the FAT32 root, the sub-directories, and what the file
  entries (effectively) name — no chain is named twice, none is unreferenced, every reference is the
  first cluster of a chain -/
  allRefs : List.Perm
    (root ++ dirs.map Prod.fst ++ (dirIds dirs).flatMap fun h => fileRefs ft files (objects h (slots h)))
    (G.map fun cs => cs.headD 0)
  /-- a file entry without a cluster is empty; otherwise its chain is long enough for its size -/
  sizes : ∀ h, h ∈ dirIds dirs → ∀ o, o ∈ objects h (slots h) → isDirE o = false →
    (effCluster ft files o = 0 ∧ effSize files o = 0) ∨
    (effCluster ft files o ≠ 0 ∧ effSize files o ≤ (chainOf G (effCluster ft files o)).length * cb)
  /-- an open file sits at a file entry of some directory, with the entry's name; unless modified its
  record agrees with the entry -/
  fileSlots : ∀ f, f ∈ files → ∃ h, h ∈ dirIds dirs ∧ ∃ o, o ∈ objects h (slots h) ∧
    o.1 = f.entry.entryBlock ∧ o.2.1 = f.entry.entryOffset ∧ isDirE o = false ∧ sName o = f.entry.name ∧
    (f.dirty = false → sCluster ft o = f.entry.cluster ∧ sSize o = f.entry.size)
  /-- the record of an open file can be stored: an attribute byte of a plain file, a 32-bit size -/
  fileAttrs : ∀ f, f ∈ files → f.entry.attributes < 256 ∧ f.entry.attributes % 16 ≠ 15 ∧
    f.entry.attributes / 16 % 2 = 0 ∧ f.entry.size ≤ Gen.MAX_FILE_SIZE
  /-- two open files never sit at the same slot -/
  filesDistinct : (files.map fun f => (f.entry.entryBlock, f.entry.entryOffset)).Nodup

/-! ### The medium -/

/-- The volume `v` on medium `d`, with the open files `files`, is structurally sound. -/
structure MedInv (v : FatVolume) (d : Disk) (files : List FileInfo) (gh : Ghost) : Prop where
  blocksOK : BlocksOK d
  geom : WFGeom v
  hint : HintOK v
  /-- every list of `G` is the chain of its first cluster — in range, acyclic, ending in an end-of-chain
  mark, through no free / bad / reserved entry —, no cluster lies in two chains, and every cluster
  marked in use lies in one (no leak) -/
  owns : Owns v d gh.G
  tree : TreeOK v.fatType (clusterBytesLen v) (rootHead v) gh.G gh.dirs (dirSlots v d gh.G) files
  /-- every open file's record is consistent with its chain (`[]` when it owns no cluster yet) -/
  fileOK : ∀ f, f ∈ files → FileOK v d f (chainOf gh.G f.entry.cluster) ∧
    (chainOf gh.G f.entry.cluster = [] → f.curCluster < 2)

/-! ### The manager -/

/-- The invariant of API histories. -/
structure VolInv (s : Mgr) (gh : Ghost) : Prop where
  noFault : s.dev.faults = []
  coherent : ∀ i, s.cache.tag = some i → s.cache.blk = s.dev.disk.get i
  unlocked : s.locked = false
  /-- at most one volume is open, and none can be added while it is -/
  maxVols : s.maxVols = 1
  vols : s.vols = [] ∨ ∃ vi, s.vols = [vi] ∧ vi.vol = gh.vol
  med : MedInv gh.vol s.dev.disk s.files gh
  /-- every open file belongs to the open volume -/
  fileVols : ∀ f, f ∈ s.files → ∃ vi, s.vols = [vi] ∧ f.rawVolume = vi.rawVolume
  /-- every open directory handle designates the root or a sub-directory -/
  openDirs : ∀ di, di ∈ s.dirs → ValidDir gh.dirs di.cluster

end Sdmmc.Spec.Volume
