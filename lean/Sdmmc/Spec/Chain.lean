/-
Abstraction layer for the history theorems (C01, C03, C05): cluster chains and file contents as
mathematical objects read off the medium, and the byte-array file they are compared with.

`Chain v d c cs` says that on medium `d` the FAT (copy 1, as the engine reads it) links
`cs = [c, c₁, …, cₙ]` in order, `cₙ` carries an end-of-chain mark, every cluster is a data
cluster of the volume and none repeats.  `fileContent` is what an independent reader sees.
-/
import Sdmmc.Spec.Geom
import Sdmmc.Model.Mgr

namespace Sdmmc.Spec

open Sdmmc.Model Sdmmc.Model.Fat

/-- The raw FAT entry of cluster `c`, as `next_cluster` reads it from FAT copy 1. -/
def fatRaw (v : FatVolume) (d : Disk) (c : Nat) : Nat :=
  rawFatEntry v.fatType (d.get (fatBlock v c)) (fatEntOffset v c)

/-- What the entry of `c` means to a chain walk. -/
def nextOf (v : FatVolume) (d : Disk) (c : Nat) : Res Nat := decodeNext v.fatType (fatRaw v d c)

/-- `c` is a data cluster of the volume. -/
def InRange (v : FatVolume) (c : Nat) : Prop := 2 ≤ c ∧ c < endCluster v

/-- The cluster chain starting at `c`. -/
inductive Chain (v : FatVolume) (d : Disk) : Nat → List Nat → Prop
  | last (c : Nat) : InRange v c → nextOf v d c = .err .EndOfFile → Chain v d c [c]
  | link (c n : Nat) (rest : List Nat) : InRange v c → nextOf v d c = .ok n → c ∉ rest →
      Chain v d n rest → Chain v d c (c :: rest)

/-- Bytes per cluster. -/
def clusterBytesLen (v : FatVolume) : Nat := v.blocksPerCluster * 512

/-- The bytes of one cluster: its blocks in order. -/
def clusterBytes (v : FatVolume) (d : Disk) (c : Nat) : Bytes :=
  ((List.range v.blocksPerCluster).map fun j => d.get (clusterToBlock v c + j)).flatten

/-- The bytes of a chain. -/
def chainBytes (v : FatVolume) (d : Disk) (cs : List Nat) : Bytes := (cs.map (clusterBytes v d)).flatten

/-- What a reader written from the specification sees as the contents of a file with the given
chain and recorded size. -/
def fileContent (v : FatVolume) (d : Disk) (cs : List Nat) (size : Nat) : Bytes := (chainBytes v d cs).take size

/-- The plain in-memory byte-array model of C01. -/
structure ByteFile where
  bytes : Bytes
  pos : Nat
  deriving Repr

namespace ByteFile
/-- read `n` bytes at the current offset -/
def read (f : ByteFile) (n : Nat) : Bytes × ByteFile :=
  let out := (f.bytes.drop f.pos).take n
  (out, { f with pos := f.pos + out.length })
/-- overwrite / extend at the current offset -/
def write (f : ByteFile) (data : Bytes) : ByteFile :=
  { bytes := f.bytes.take f.pos ++ data ++ f.bytes.drop (f.pos + data.length), pos := f.pos + data.length }
def length (f : ByteFile) : Nat := f.bytes.length
def eof (f : ByteFile) : Bool := f.pos = f.bytes.length
end ByteFile

/-- An open file of the model is consistent with the medium: its chain exists, is long enough for
its size, the offset is inside the file and the cached cluster cursor points at a cluster of the
chain at the right position (or the file is empty and owns no cluster). -/
structure FileOK (v : FatVolume) (d : Disk) (f : FileInfo) (cs : List Nat) : Prop where
  chain : (f.entry.cluster < 2 ∧ cs = [] ∧ f.entry.size = 0) ∨ Chain v d f.entry.cluster cs
  size_fits : f.entry.size ≤ cs.length * clusterBytesLen v
  pos_le : f.currentOffset ≤ f.entry.size
  cursor : cs = [] ∨ ∃ k, k < cs.length ∧ f.curClusterOff = k * clusterBytesLen v ∧ cs[k]? = some f.curCluster

/-- The byte-array view of an open file. -/
def absFile (v : FatVolume) (d : Disk) (f : FileInfo) (cs : List Nat) : ByteFile :=
  { bytes := fileContent v d cs f.entry.size, pos := f.currentOffset }

end Sdmmc.Spec
