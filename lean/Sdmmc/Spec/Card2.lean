/-
A remark on `Spec/Card.lean`, as a definition: the specification card with TWO busy parameters.

`Spec.Card` has ONE timing parameter `busy` for three different things: the programming time
after a data block (busy after the data-response token), the programming time after the stop
token of a multiple-block write, and the R1b busy signal after CMD12 (STOP_TRANSMISSION).  The
driver waits for the first two with its WRITE budget (`DEFAULT_WRITE_RETRIES`), but it does not
wait after CMD12 at all: the next command's `wait_not_busy` meets that busy signal with the
COMMAND budget (`DEFAULT_COMMAND_RETRIES`).  With a single parameter, "legal timing" for writes
(`busy ≤ DEFAULT_WRITE_RETRIES`) therefore does not imply that a call after a multiple-block read
succeeds — which is where the hypothesis `busy ≤ DEFAULT_COMMAND_RETRIES ∨ MultiReadsLast` of
`C12Session.session_correct` / `C12Main` comes from.

`Card2` separates them WITHOUT changing `Spec/Card.lean`: it is `Spec.Card` run with its `busy`
field set, for each byte, to `stopBusy` exactly when that byte completes a CMD12 frame (the only
place where CMD12 reads `busy`), and to `progBusy` otherwise.  When both are equal it is
`Spec.Card` (`Lemmas.MainK12.card2_run_coincides`).
-/
import Sdmmc.Spec.Card

namespace Sdmmc.Spec.Card

structure Card2 where
  card : Card
  /-- busy bytes after a data block / after the stop token (programming) -/
  progBusy : Nat
  /-- busy bytes after CMD12 (R1b) -/
  stopBusy : Nat
  deriving Inhabited

/-- This byte completes a frame whose command index is 12. -/
def completesCmd12 (c : Card) : Bool :=
  c.cmdBuf.length == 5 && (c.cmdBuf.getD 0 0).toNat % 64 == 12

def Card2.step (c : Card2) (x : UInt8) : Card2 × UInt8 :=
  let r := Card.step { c.card with busy := if completesCmd12 c.card then c.stopBusy else c.progBusy } x
  ({ c with card := r.1 }, r.2)

def Card2.run (c : Card2) : List UInt8 → Card2 × List UInt8
  | [] => (c, [])
  | x :: xs =>
    let (c', y) := Card2.step c x
    let (c'', ys) := Card2.run c' xs
    (c'', y :: ys)

end Sdmmc.Spec.Card
