/-
The abstract file system with SEVERAL OPEN VOLUMES (`Sdmmc.Props.C01Multi`).  Part of the trusted statement of that
file; nothing is proved here.  It is built ON TOP of the one-volume abstract file system `Sdmmc.Spec.AbsFs`
(read its guide first): nothing about files, directories, slots, modes, reads and writes is said again here.

Reading guide.
* State `AbsFsN`: the crate's volume manager keeps ONE handle generator, ONE clock, three tables with GLOBAL limits —
  these are shared —, and every open volume has its own directory TREE (`ids hv`, `slots hv`: the tree of the volume
  with raw handle `hv`).  An open directory / file record names its volume by the raw volume handle.
* `viewOf A hv`: the ONE-VOLUME abstract file system the volume `hv` sees — the shared generator, clock and lock, the
  volume table reduced to `hv`, the directory / file tables reduced to the records naming `hv` (in table order), the
  limits `maxDirs` / `maxFiles` LOWERED by the number of records of other volumes (so that "table full" is the same
  statement), and the tree of `hv`.
* A call through a directory / file / volume handle that leads to the open volume `hv` (`targetA`) IS THE ONE-VOLUME
  CALL on `viewOf A hv` (`onVolume`): it answers what `Spec.AbsFs.absStep` allows, the view of the new state is the
  one-volume successor state (up to the ORDER of the directory / file tables: `swap_remove` on the global tables moves a
  record of possibly another volume), and NOTHING ELSE changes but the handle generator and, through the tables, the
  free room: the records of the other volumes are kept (up to table order), their trees are untouched, the volume table
  and the limits are unchanged (`Kept`).  That is the isolation statement.
* A call whose handle leads to no open volume (`targetA A op = none`: unknown handle, or a directory whose volume handle
  is not open) is refused and changes nothing (`refusalN`).
* `open_root_dir`, `close_dir`, `has_open_handles`, `close_volume` work on the tables only.  `open_volume`: mounting
  is not modelled (as in `Spec.AbsFs`): it may fail with any error, or append a volume record under the next handle —
  with WHATEVER tree the partition holds (the abstract state does not track unmounted partitions; `close_volume`
  followed by `open_volume` of ONE volume is the subject of `Props.C01Fs`).
* Table order: the tables are kept in the crate's order, and every step may first reorder them (`TPerm`): the
  refinement theorem relates the tables up to order.  (With handles that occur twice in a table — possible only after a
  wrap-around of the 32-bit handle generator — "the first record with the handle" then means "some record with the
  handle".)
-/
import Sdmmc.Spec.AbsFs

namespace Sdmmc.Spec.AbsFs
open Sdmmc.Model

/-- The abstract state with several open volumes. -/
structure AbsFsN where
  nextId : Nat
  maxVols : Nat
  maxDirs : Nat
  maxFiles : Nat
  clock : Timestamp
  locked : Bool
  /-- (handle, partition index) of the open volumes, in table order -/
  vols : List (Nat × Nat)
  /-- all open directories; each names its volume handle -/
  dirs : List OpenDir
  /-- all open files; each names its volume handle -/
  files : List OpenFile
  /-- the directory numbers of the tree of the volume with handle `hv` -/
  ids : Nat → List Nat
  /-- the directories of the tree of the volume with handle `hv` -/
  slots : Nat → Nat → List Slot

/-! ### What one volume sees -/

def otherDirsA (A : AbsFsN) (hv : Nat) : List OpenDir := A.dirs.filter fun d => !decide (d.volume = hv)
def otherFilesA (A : AbsFsN) (hv : Nat) : List OpenFile := A.files.filter fun f => !decide (f.volume = hv)

/-- The one-volume abstract file system the volume with handle `hv` sees. -/
def viewOf (A : AbsFsN) (hv : Nat) : AbsFs :=
  { nextId := A.nextId
    maxDirs := A.maxDirs - (otherDirsA A hv).length
    maxFiles := A.maxFiles - (otherFilesA A hv).length
    clock := A.clock
    locked := A.locked
    vols := A.vols.filter fun x => decide (x.1 = hv)
    dirs := A.dirs.filter fun d => decide (d.volume = hv)
    files := A.files.filter fun f => decide (f.volume = hv)
    ids := A.ids hv
    slots := A.slots hv }

/-- Two one-volume states that differ at most in the order of the directory / file tables (and in directories that
are not part of the tree). -/
structure SameUpToOrder (a b : AbsFs) : Prop where
  nextId : a.nextId = b.nextId
  maxDirs : a.maxDirs = b.maxDirs
  maxFiles : a.maxFiles = b.maxFiles
  clock : a.clock = b.clock
  locked : a.locked = b.locked
  vols : a.vols = b.vols
  dirs : a.dirs.Perm b.dirs
  files : a.files.Perm b.files
  ids : a.ids = b.ids
  slots : ∀ h, h ∈ a.ids → a.slots h = b.slots h

/-- Two multi-volume states that differ at most in the order of the directory / file tables. -/
structure TPerm (A B : AbsFsN) : Prop where
  nextId : A.nextId = B.nextId
  maxVols : A.maxVols = B.maxVols
  maxDirs : A.maxDirs = B.maxDirs
  maxFiles : A.maxFiles = B.maxFiles
  clock : A.clock = B.clock
  locked : A.locked = B.locked
  vols : A.vols = B.vols
  dirs : A.dirs.Perm B.dirs
  files : A.files.Perm B.files
  ids : A.ids = B.ids
  slots : A.slots = B.slots

/-- What a call on the volume `hv` leaves alone: the limits, the volume table, the records of the other volumes (up to
table order) and the trees of the other volumes. -/
structure Kept (A A' : AbsFsN) (hv : Nat) : Prop where
  maxVols : A'.maxVols = A.maxVols
  maxDirs : A'.maxDirs = A.maxDirs
  maxFiles : A'.maxFiles = A.maxFiles
  vols : A'.vols = A.vols
  dirs : (otherDirsA A' hv).Perm (otherDirsA A hv)
  files : (otherFilesA A' hv).Perm (otherFilesA A hv)
  ids : ∀ hw, hw ≠ hv → A'.ids hw = A.ids hw
  slots : ∀ hw, hw ≠ hv → A'.slots hw = A.slots hw

/-- **A call on the open volume `hv` is the one-volume call on what `hv` sees.** -/
def onVolume (A : AbsFsN) (hv : Nat) (op : Op) (A' : AbsFsN) (r : Res Payload) : Prop :=
  ∃ a', absStep (viewOf A hv) op (a', r) ∧ SameUpToOrder a' (viewOf A' hv) ∧ Kept A A' hv

/-! ### Which volume a call works on -/

def volOpenN (A : AbsFsN) (v : Nat) : Bool := A.vols.any fun x => decide (x.1 = v)

/-- The volume handle the directory handle `d` leads to, if that volume is open. -/
def dirVol (A : AbsFsN) (d : Nat) : Option Nat :=
  match A.dirs.find? fun x => decide (x.handle = d) with
  | none => none
  | some od => if volOpenN A od.volume then some od.volume else none

/-- The volume handle the file handle `h` leads to, if that volume is open. -/
def fileVol (A : AbsFsN) (h : Nat) : Option Nat :=
  match A.files.find? fun x => decide (x.handle = h) with
  | none => none
  | some f => if volOpenN A f.volume then some f.volume else none

/-- The handle of the volume a call works on (cf. `Sdmmc.Spec.Volume.target`). -/
def targetA (A : AbsFsN) : Op → Option Nat
  | .openVolume _ => none
  | .closeVolume _ => none
  | .openRoot _ => none
  | .closeDir _ => none
  | .hasOpen => none
  | .openDir d _ => dirVol A d
  | .openFile d _ _ => dirVol A d
  | .delete d _ => dirVol A d
  | .mkdir d _ => dirVol A d
  | .find d _ => dirVol A d
  | .list d => dirVol A d
  | .listLfn d _ => dirVol A d
  | .read f _ => fileVol A f
  | .write f _ => fileVol A f
  | .seekStart f _ => fileVol A f
  | .seekCur f _ => fileVol A f
  | .seekEnd f _ => fileVol A f
  | .flush f => fileVol A f
  | .closeFile f => fileVol A f
  | .length f => fileVol A f
  | .offset f => fileVol A f
  | .eof f => fileVol A f
  | .label v => if volOpenN A v then some v else none

/-- What a call whose handle leads to no open volume answers: the two opening calls and `make_dir_in_dir` look at the
room in their table first. -/
def refusalN (A : AbsFsN) : Op → Err
  | .openDir _ _ => if A.dirs.length ≥ A.maxDirs then .TooManyOpenDirs else .BadHandle
  | .mkdir _ _ => if A.dirs.length ≥ A.maxDirs then .TooManyOpenDirs else .BadHandle
  | .openFile _ _ _ => if A.files.length ≥ A.maxFiles then .TooManyOpenFiles else .BadHandle
  | _ => .BadHandle

/-! ### The calls that work on the tables -/

def genN (A : AbsFsN) : AbsFsN := { A with nextId := (A.nextId + 1) % 4294967296 }

/-- `open_root_dir` (the volume handle is not checked: deviation (c)). -/
def openRootN (A : AbsFsN) (v : Nat) : AbsFsN × Res Payload :=
  if A.dirs.length ≥ A.maxDirs then (genN A, .err .TooManyOpenDirs)
  else ({ genN A with dirs := A.dirs ++ [⟨A.nextId, v, 0⟩] }, .ok (.handle A.nextId))

def closeDirN (A : AbsFsN) (d : Nat) : AbsFsN × Res Payload :=
  match A.dirs.findIdx? fun x => decide (x.handle = d) with
  | some i => ({ A with dirs := swapRemove A.dirs i }, .ok .unit)
  | none => (A, .err .BadHandle)

def closeVolumeN (A : AbsFsN) (v : Nat) : AbsFsN × Res Payload :=
  if A.files.any (fun f => decide (f.volume = v)) then (A, .err .VolumeStillInUse)
  else if A.dirs.any (fun d => decide (d.volume = v)) then (A, .err .VolumeStillInUse)
  else match A.vols.findIdx? (fun x => decide (x.1 = v)) with
    | none => (A, .err .BadHandle)
    | some i => ({ A with vols := swapRemove A.vols i }, .ok .unit)

/-- `open_volume`: it may fail (any error, nothing changes), or append a record for partition `idx` under the next
handle; the tree of the new volume is whatever the partition holds. -/
def openVolumeN (A : AbsFsN) (idx : Nat) (A' : AbsFsN) (r : Res Payload) : Prop :=
  (A' = A ∧ ∀ p, r ≠ .ok p) ∨
  (r = .ok (.handle A.nextId) ∧ A.vols.length < A.maxVols ∧ (∀ x, x ∈ A.vols → x.2 ≠ idx) ∧
    ∃ ids sl, A' = { genN A with
      vols := A.vols ++ [(A.nextId, idx)]
      ids := fun hv => if hv = A.nextId then ids else A.ids hv
      slots := fun hv => if hv = A.nextId then sl else A.slots hv })

/-! ### The step relation -/

/-- One call, the tables taken in the order of `A`. -/
def coreStepN (A : AbsFsN) (op : Op) (out : AbsFsN × Res Payload) : Prop :=
  match op with
  | .openVolume idx => openVolumeN A idx out.1 out.2
  | .closeVolume v => out = closeVolumeN A v
  | .openRoot v => out = openRootN A v
  | .closeDir d => out = closeDirN A d
  | .hasOpen => out = (A, .ok (.bool (!(A.dirs.isEmpty && A.files.isEmpty))))
  | op =>
    match targetA A op with
    | some hv => onVolume A hv op out.1 out.2
    | none => out = (A, .err (refusalN A op))

/-- `absStepN A op (A', r)`: the call `op`, issued in `A`, may answer `r` and leave `A'`. -/
def absStepN (A : AbsFsN) (op : Op) (out : AbsFsN × Res Payload) : Prop :=
  if A.locked then out = (A, if op.returnsResult then .err .LockError else .panic "already mutably borrowed")
  else ∃ B, TPerm A B ∧ coreStepN B op out

/-- A history: the calls, the answers, the states passed through. -/
def absRunN : AbsFsN → List Op → List (Res Payload) → AbsFsN → Prop
  | A, [], [], A' => A' = A
  | A, op :: ops, r :: rs, A' => ∃ A1, absStepN A op (A1, r) ∧ absRunN A1 ops rs A'
  | _, _, _, _ => False

end Sdmmc.Spec.AbsFs
