/-
Specification vocabulary for the headline theorem of C15 (`Props/C15Main.lean`): "a well-formed partition table and boot
sector", stated from the specification only.  These are exactly the clauses of `Spec.Formatted.Formatted` that speak about
block 0, the boot sector and the FSInfo sector — without its last two clauses (`geom`, `med`), which speak about the
CONTENTS of the volume (FAT, directory tree).  Nothing is proved here.
-/
import Sdmmc.Spec.Formatted

namespace Sdmmc.Spec.Formatted
open Sdmmc.Model Sdmmc.Spec.FatLayout

/-- Block 0 of the medium `d` is an MBR (512 bytes, signature `0xAA55`) whose record `idx ≤ 3` has a status byte
`0x00` / `0x80` and a FAT16 / FAT32 partition type; the first block of that partition is a boot sector with the signature
`0xAA55` whose fields are well-formed (`FatLayout.WFBpb`: 512-byte sectors, 1..128 blocks per cluster (a power of two),
1 or 2 FATs, at least 4085 clusters, …); the FSInfo sector number stays a 32-bit sector address; and on FAT32 (65525
clusters or more) the FSInfo sector carries its three signatures. -/
structure WellFormedTables (d : Disk) (idx : Nat) : Prop where
  mbrLen : (d.get 0).length = 512
  mbrSig : readU16 (d.get 0) 510 = 0xAA55
  idxLe : idx ≤ 3
  status : partStatus (d.get 0) idx % 128 = 0
  ptype : partType (d.get 0) idx ∈ fatPartitionTypes
  bootSig : readU16 (d.get (partStart (d.get 0) idx)) 510 = 0xAA55
  wf : WFBpb (fieldsOf (d.get (partStart (d.get 0) idx)))
  infoAddr : partStart (d.get 0) idx + (fieldsOf (d.get (partStart (d.get 0) idx))).fsInfo ≤ 4294967295
  infoSigs : kind (fieldsOf (d.get (partStart (d.get 0) idx))) = .fat32 →
    readU32 (d.get (partStart (d.get 0) idx + (fieldsOf (d.get (partStart (d.get 0) idx))).fsInfo)) 0 = 0x41615252 ∧
    readU32 (d.get (partStart (d.get 0) idx + (fieldsOf (d.get (partStart (d.get 0) idx))).fsInfo)) 484 = 0x61417272 ∧
    readU32 (d.get (partStart (d.get 0) idx + (fieldsOf (d.get (partStart (d.get 0) idx))).fsInfo)) 508 = 0xAA550000

end Sdmmc.Spec.Formatted
