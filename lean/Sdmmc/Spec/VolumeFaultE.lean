/-
Specification vocabulary for C11 over histories under arbitrarily placed faults, continued (`Sdmmc.Props.C11HistT`):
`FaultInvE s gh X` — the WEAK invariant `FaultInv` of `Spec/VolumeFault.lean` (lost chains; the size in a file entry may
exceed what its chain holds) together with `EntriesNotAhead` of `Spec/VolumeLostE.lean` (no directory entry of an open
file is ahead of the file's record).  Nothing is proved here.
-/
import Sdmmc.Spec.VolumeFault
import Sdmmc.Spec.VolumeLostE

namespace Sdmmc.Spec.Volume

open Sdmmc.Model Sdmmc.Model.Fat Sdmmc.Spec

/-- **What survives every call under every fault schedule, with no entry ahead of its record.** -/
structure FaultInvE (s : Mgr) (gh : Ghost) (X : List (List Nat)) : Prop where
  inv : FaultInv s gh X
  entries : EntriesNotAhead s

end Sdmmc.Spec.Volume
