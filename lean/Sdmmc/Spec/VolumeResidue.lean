/-
Specification vocabulary for CONTINUING AFTER A CRASH (`Sdmmc.Props.C10Continue`): what a crashed medium must satisfy so
that a fresh manager that mounts it starts in the invariant of histories under faults, `FaultInv s gh X` of
`Sdmmc.Spec.VolumeFault`.  Nothing is proved here.

`CrashInv v d gh` (`Sdmmc.Spec.VolumeCrash`, the conclusion of `Props.C10Inv`) is NOT enough, for two reasons — both are
clauses that `CrashInv` gave up wholesale and `FaultInv` kept in part:

(1) LOST CLUSTERS.  `CrashInv` permits ANY cluster in use outside the chains of `gh.G` (`OwnsLoose`), whatever its FAT
    entry links to.  `FaultInv` asks that the lost clusters be grouped into CHAINS `X` — every list of `X` the chain of
    its first cluster: in range, acyclic, end-of-chain terminated —, pairwise disjoint and disjoint from `gh.G`, and
    that `gh.G ++ X` be ALL that is in use (`Owns v d (gh.G ++ X)`).  A lost cluster whose entry links to a free
    cluster, into a chain of `gh.G`, to itself, or to a cluster another lost cluster links to, satisfies `CrashInv` and
    `FatEntriesOK` but belongs to no such `X` (`Props.C10Continue.Example.lost_cluster_without_chain`).
(2) STALE SIZES.  `CrashInv` drops the clause `sizes` of `TreeOK` altogether.  `FaultInv` drops its upper bound only
    ("the stored size may exceed what the chain holds"); it keeps: A FILE ENTRY WITHOUT A CLUSTER IS EMPTY
    (`EmptyNoCluster`).  An entry with cluster field 0 and a non-zero size satisfies `CrashInv`; `open_file_in_dir`
    followed by `read` on it makes the library compute the block of "cluster 0"
    (`Props.C10Continue.Example.sized_entry_without_cluster`).

Neither residue is produced by a crash of the library (every cut or freed tail is a chain; every slot the library writes
carries the pair (cluster, size) of a record whose size is 0 when it has no cluster) — but `Props.C10Inv` does not SAY so.
`CrashInvX v d gh X` is `CrashInv` together with the two missing clauses: the statement `Props.C10Inv` would have to be
strengthened to (see the report in `Props/C10Continue.lean`).

`SizesFit`: the third, optional, clause — every stored size fits its chain (`TreeOK.sizes` in full).  It fails at the
crash points of a truncating `open_file_in_dir` between the cut of the chain and the rewrite of the slot; everywhere
else it holds.  With it the mounted state satisfies `FaultInv` with the size clauses NOT weakened.

`FaultInvL`: the PROPOSED minimal generalisation of `FaultInv` that would make (1) unnecessary — `Owns (G ++ X)` replaced
by `OwnsLoose G`: the lost clusters need not form chains (they are never walked and never handed out: the allocator
takes free clusters only).  It is implied by `FaultInv s gh X` for every `X`.
-/
import Sdmmc.Spec.VolumeCrash
import Sdmmc.Spec.VolumeFault

namespace Sdmmc.Spec.Volume

open Sdmmc.Model Sdmmc.Model.Fat Sdmmc.Spec

/-- A file entry whose cluster field is 0 stores the size 0 (raw on-disk fields). -/
def EmptyNoCluster (ft : FatType) (dirs : List (Nat × Nat)) (slots : Nat → List Slot) : Prop :=
  ∀ h, h ∈ dirIds dirs → ∀ o, o ∈ objects h (slots h) → isDirE o = false → sCluster ft o = 0 → sSize o = 0

/-- **The crash-consistency invariant with the residue made explicit**: `CrashInv`, the lost clusters are exactly the
clusters of the chains `X`, and a file entry without a cluster is empty. -/
structure CrashInvX (v : FatVolume) (d : Disk) (gh : Ghost) (X : List (List Nat)) : Prop where
  inv : CrashInv v d gh
  /-- the chains of the ghost and the lost chains are chains, pairwise disjoint, and all that is in use -/
  lost : Owns v d (gh.G ++ X)
  empty : EmptyNoCluster v.fatType gh.dirs (dirSlots v d gh.G)

/-- Every stored size of a file entry with a cluster fits the chain of that cluster (raw on-disk fields). -/
def SizesFit (v : FatVolume) (d : Disk) (gh : Ghost) : Prop :=
  ∀ h, h ∈ dirIds gh.dirs → ∀ o, o ∈ objects h (dirSlots v d gh.G h) → isDirE o = false → sCluster v.fatType o ≠ 0 →
    sSize o ≤ (chainOf gh.G (sCluster v.fatType o)).length * clusterBytesLen v

/-! ### The proposed generalisation of `FaultInv` -/

/-- `MedFault` with `OwnsLoose gh.G` in place of `Owns (gh.G ++ X)`: lost clusters need not form chains. -/
structure MedFaultL (v : FatVolume) (d : Disk) (files : List FileInfo) (gh : Ghost) : Prop where
  blocksOK : BlocksOK d
  geom : WFGeom v
  hint : HintOK v
  owns : OwnsLoose v d gh.G
  tree : ∃ cb, TreeOK v.fatType cb (rootHead v) gh.G gh.dirs (dirSlots v d gh.G) files
  fileOK : ∀ f, f ∈ files → FileLoose v d f (chainOf gh.G f.entry.cluster) ∧
    (chainOf gh.G f.entry.cluster = [] → f.curCluster < 2)

/-- `FaultInv` with `MedFaultL`. -/
structure FaultInvL (s : Mgr) (gh : Ghost) : Prop where
  coherent : ∀ i, s.cache.tag = some i → s.cache.blk = s.dev.disk.get i
  unlocked : s.locked = false
  maxVols : s.maxVols = 1
  vols : s.vols = [] ∨ ∃ vi, s.vols = [vi] ∧ vi.vol = gh.vol
  med : MedFaultL gh.vol s.dev.disk s.files gh
  fileVols : ∀ f, f ∈ s.files → ∃ vi, s.vols = [vi] ∧ f.rawVolume = vi.rawVolume
  openDirs : ∀ di, di ∈ s.dirs → ValidDir gh.dirs di.cluster

end Sdmmc.Spec.Volume
