/-
Specification vocabulary for C15, second half ("files placed by an independent formatter are found and read
correctly"): what an independent formatter's product looks like, stated FROM THE SPECIFICATION ONLY — the MBR
partition record, the BPB fields at their offsets, the Microsoft layout formulas of `Spec.FatLayout`, the FSInfo
signatures, and the volume invariant `Spec.Volume.MedInv` over the record those formulas give (`layoutOf`).  The
crate's parser (`Model.Mount`) is not mentioned.  Part of the trusted statement of `Props.C15Fs`; nothing is proved
here.
-/
import Sdmmc.Spec.FatLayout
import Sdmmc.Spec.Volume

namespace Sdmmc.Spec.Formatted
open Sdmmc.Model Sdmmc.Model.Fat Sdmmc.Spec Sdmmc.Spec.FatLayout Sdmmc.Spec.Volume

/-- The BPB fields of a boot sector, at the offsets the specification gives them (little-endian). -/
def fieldsOf (bpb : Bytes) : BpbFields :=
  { bytsPerSec := readU16 bpb 11, secPerClus := byteAt bpb 13, rsvdSecCnt := readU16 bpb 14, numFATs := byteAt bpb 16,
    rootEntCnt := readU16 bpb 17, totSec16 := readU16 bpb 19, fatSz16 := readU16 bpb 22, totSec32 := readU32 bpb 32,
    fatSz32 := readU32 bpb 36, fsVer := readU16 bpb 42, rootClus := readU32 bpb 44, fsInfo := readU16 bpb 48 }

/-- The 16-byte partition record `idx` of an MBR starts at byte `446 + 16 * idx`: status, CHS start (3 bytes), type,
CHS end (3 bytes), LBA start (4 bytes), number of sectors (4 bytes). -/
def partStatus (mbr : Bytes) (idx : Nat) : Nat := byteAt mbr (446 + 16 * idx)
def partType (mbr : Bytes) (idx : Nat) : Nat := byteAt mbr (446 + 16 * idx + 4)
def partStart (mbr : Bytes) (idx : Nat) : Nat := readU32 mbr (446 + 16 * idx + 8)
def partLen (mbr : Bytes) (idx : Nat) : Nat := readU32 mbr (446 + 16 * idx + 12)

/-- The partition types of FAT16 / FAT32 volumes: 0x04 (FAT16 < 32 MiB), 0x06 (FAT16), 0x0B (FAT32, CHS),
0x0C (FAT32, LBA), 0x0E (FAT16, LBA). -/
def fatPartitionTypes : List Nat := [0x04, 0x06, 0x0B, 0x0C, 0x0E]

/-- `BS_VolLab`: 11 bytes at offset 43 (FAT12/16) or 71 (FAT32). -/
def labelOf (b : BpbFields) (bpb : Bytes) : Bytes := slice bpb (if kind b = .fat32 then 71 else 43) 11

/-- **The layout the specification's formulas give** for a boot sector with fields `b` at sector `lba` of the
medium, in a partition of `nb` sectors: where the FATs, the root directory and the data area are, how many clusters
there are, which FAT type it is.  (The free count and the next-free hint are not part of the layout: unknown.) -/
def layoutOf (b : BpbFields) (label : Bytes) (lba nb : Nat) : FatVolume :=
  { lbaStart := lba, numBlocks := nb, name := label,
    blocksPerCluster := b.secPerClus,
    firstDataBlock := firstDataSector b,
    fatStart := b.rsvdSecCnt,
    secondFatStart := if b.numFATs = 2 then some (b.rsvdSecCnt + fatSz b) else none,
    freeClustersCount := none, nextFreeCluster := none,
    clusterCount := countOfClusters b,
    fatType := if kind b = .fat32 then .fat32 else .fat16,
    rootEntriesCount := if kind b = .fat32 then 0 else b.rootEntCnt,
    firstRootDirBlock := if kind b = .fat32 then 0 else b.rsvdSecCnt + b.numFATs * fatSz b,
    infoLocation := if kind b = .fat32 then lba + b.fsInfo else 0,
    firstRootDirCluster := if kind b = .fat32 then b.rootClus else 0 }

/-- The layout of partition `idx` of the medium `d`, read off block 0 and the first block of the partition. -/
def layoutOn (d : Disk) (idx : Nat) : FatVolume :=
  layoutOf (fieldsOf (d.get (partStart (d.get 0) idx))) (labelOf (fieldsOf (d.get (partStart (d.get 0) idx))) (d.get (partStart (d.get 0) idx)))
    (partStart (d.get 0) idx) (partLen (d.get 0) idx)

/-- **An independent formatter's product.**  Block 0 is an MBR (512 bytes, signature `0xAA55`) whose record
`idx ≤ 3` has a status byte `0x00` / `0x80` and a FAT16 / FAT32 partition type; the first block of that partition is
a boot sector with the signature `0xAA55` whose fields are well-formed (`FatLayout.WFBpb`: 512-byte sectors, a
power-of-two cluster size, 1 or 2 FATs, at least 4085 clusters, …), the FSInfo sector number stays a 32-bit sector
address, and on FAT32 the FSInfo sector carries its three signatures; and the volume — its FAT, its directory tree,
AS LOCATED BY THE SPECIFICATION'S FORMULAS (`layoutOn`) — is structurally sound: `MedInv` holds, with no file open,
for a ghost `gh` (the chains and sub-directories the formatter placed) whose volume record is that layout up to the
two bookkeeping fields. -/
structure Formatted (d : Disk) (idx : Nat) (gh : Ghost) : Prop where
  mbrLen : (d.get 0).length = 512
  mbrSig : readU16 (d.get 0) 510 = 0xAA55
  idxLe : idx ≤ 3
  status : partStatus (d.get 0) idx % 128 = 0
  ptype : partType (d.get 0) idx ∈ fatPartitionTypes
  bootSig : readU16 (d.get (partStart (d.get 0) idx)) 510 = 0xAA55
  wf : WFBpb (fieldsOf (d.get (partStart (d.get 0) idx)))
  infoAddr : partStart (d.get 0) idx + (fieldsOf (d.get (partStart (d.get 0) idx))).fsInfo ≤ 4294967295
  infoSigs : kind (fieldsOf (d.get (partStart (d.get 0) idx))) = .fat32 →
    readU32 (d.get (partStart (d.get 0) idx + (fieldsOf (d.get (partStart (d.get 0) idx))).fsInfo)) 0 = 0x41615252 ∧
    readU32 (d.get (partStart (d.get 0) idx + (fieldsOf (d.get (partStart (d.get 0) idx))).fsInfo)) 484 = 0x61417272 ∧
    readU32 (d.get (partStart (d.get 0) idx + (fieldsOf (d.get (partStart (d.get 0) idx))).fsInfo)) 508 = 0xAA550000
  geom : SameGeom (layoutOn d idx) gh.vol
  med : MedInv gh.vol d [] gh

end Sdmmc.Spec.Formatted
