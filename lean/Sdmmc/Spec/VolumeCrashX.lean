/-
Specification vocabulary for C10 over whole API calls, STRENGTHENED (`Sdmmc.Props.C10InvX`): the invariant of API
histories that makes every crash point satisfy `CrashInvX` (`Spec/VolumeResidue.lean`: crash-consistent, the lost
clusters forming chains, file entries without a cluster empty).

`VolInvC s gh` of `Spec/VolumeCrash.lean` (= `VolInv` ∧ identical FAT copies ∧ `RawOK`: the on-disk slot of every open
file names no cluster or the cluster its record names) says nothing about the SIZE field of the on-disk slot of a
modified open file.  `RawEmptyOK` adds: that slot stores size 0 when it names no cluster.  (Every slot the library
writes carries the (cluster, size) pair of a record that is empty when it has no cluster; a created file's slot is
(0, 0) until the first flush.)  `VolInvCX` = `VolInvC` ∧ `RawEmptyOK`.  Every state reached from a quiescent one
satisfies it (`Props.C10InvX.api_history_invariantCX`).

Nothing is proved here.
-/
import Sdmmc.Spec.VolumeCrash
import Sdmmc.Spec.VolumeResidue

namespace Sdmmc.Spec.Volume

open Sdmmc.Model Sdmmc.Model.Fat Sdmmc.Spec

/-- The on-disk slot of every open file stores the size 0 when it names no cluster. -/
def RawEmptyOK (ft : FatType) (d : Disk) (files : List FileInfo) : Prop :=
  ∀ f, f ∈ files → sCluster ft (slotAt d f.entry.entryBlock f.entry.entryOffset) = 0 →
    sSize (slotAt d f.entry.entryBlock f.entry.entryOffset) = 0

/-- The invariant of API histories for the strengthened crash-point statement. -/
structure VolInvCX (s : Mgr) (gh : Ghost) : Prop where
  inv : VolInvC s gh
  rawEmpty : RawEmptyOK gh.vol.fatType s.dev.disk s.files

end Sdmmc.Spec.Volume
