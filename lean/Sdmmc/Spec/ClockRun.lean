/-
Histories of API calls in which the clock moves between calls (the crate's `TimeSource`; the driver's `clock`
line), on the manager side — the counterpart of `Sdmmc.Spec.AbsFs.absRunClk`.  Part of the trusted statement
of `Sdmmc.Props.C02Fs`; nothing is proved here.
-/
import Sdmmc.Spec.AbsFsClock

namespace Sdmmc.Spec.AbsFs
open Sdmmc.Model

/-- What the user does: a call, or (the environment) the clock moves to `t`. -/
inductive CEv
  | call (op : Op)
  | tick (t : Timestamp)

/-- Run a history with clock movements: the final state, and the events with the answers the calls gave. -/
def runClk : Mgr → List CEv → Mgr × List Ev
  | s, [] => (s, [])
  | s, .call op :: es =>
    ((runClk (step s op).1 es).1, .call op (step s op).2.result :: (runClk (step s op).1 es).2)
  | s, .tick t :: es =>
    ((runClk { s with clock := t } es).1, .tick t :: (runClk { s with clock := t } es).2)

/-- No `open_volume` in the history (the only call for which the refinement theorem has a hypothesis). -/
def NoOpenVolume : List CEv → Prop
  | [] => True
  | .call (.openVolume _) :: _ => False
  | _ :: es => NoOpenVolume es

/-! ### The reader: walking a path of directory names, then opening and reading a file -/

/-- The directory a path of 8.3 names leads to, from directory `x`. -/
def pathDir (slots : Nat → List Slot) : Nat → List Bytes → Option Nat
  | x, [] => some x
  | x, n :: ns =>
    match lookup (slots x) n with
    | some i =>
      match (slots x)[i]? with
      | some (.dir _ t) => pathDir slots t ns
      | _ => none
    | none => none

/-- `open_dir` along a path: the first through handle `d`, each following one through the handle the previous
call returned (`k`, `k + 1`, …: the values the handle generator hands out). -/
def walkFrom : Nat → Nat → List (List Nat) → List Op
  | _, _, [] => []
  | d, k, nm :: ns => .openDir d nm :: walkFrom k (k + 1) ns

/-- The handle of the directory a walk ends in. -/
def walkEnd : Nat → Nat → List (List Nat) → Nat
  | d, _, [] => d
  | _, k, _ :: ns => walkEnd k (k + 1) ns

/-- What a reader does on a freshly mounted volume `v` whose next handle is `k`: open the root directory,
walk the path, open the file read-only, ask its length, read `n` bytes, list the directory. -/
def readerOps (v k : Nat) (path : List (List Nat)) (fname : List Nat) (n : Nat) : List Op :=
  .openRoot v :: (walkFrom k (k + 1) path ++
    [.openFile (walkEnd k (k + 1) path) fname .ReadOnly, .length (k + 1 + path.length), .read (k + 1 + path.length) n,
     .list (walkEnd k (k + 1) path)])

/-- The names of the path have these 8.3 forms, none of them `.`. -/
def ParsesTo : List (List Nat) → List Bytes → Prop
  | [], [] => True
  | nm :: ns, sfn :: ss => Sfn.createFromStr nm = .ok sfn ∧ sfn ≠ Sfn.thisDir ∧ ParsesTo ns ss
  | _, _ => False

end Sdmmc.Spec.AbsFs
