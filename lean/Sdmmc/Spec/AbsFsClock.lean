/-
Vocabulary for C02 over arbitrary histories of the abstract file system (`Sdmmc.Spec.AbsFs`): histories in
which the clock moves between calls, the well-formedness of an abstract state, and the per-slot ghost
("when was this file created, when was it last modified through a handle, has that been stored").
Part of the trusted statement of `Sdmmc.Props.C02Fs`; nothing is proved here.

Reading guide.
* The clock.  `Model.step` never changes `s.clock`; the environment does, between calls (the driver's `clock`
  line, the `TimeSource` of the crate).  An event is therefore a call with its answer, or a `tick t`: "from now on
  the clock reads `t`".  `absRunClk` runs a list of events; `absRun` is the special case without ticks.
* `AInv` is what every abstract state reachable from a state without open files satisfies (`ainv_run`), and what
  the theorems about time stamps need: one volume, the open files sit at distinct file slots of existing
  directories, their pending entry carries the name, the creation time (up to FAT rounding) and the length of
  what the slot holds, and stored time stamps are at FAT resolution (they were decoded from FAT words).
* The ghost `SlotG` of one slot `(x, j)` is a function of the history (`eff`): nothing in it is chosen.
-/
import Sdmmc.Spec.AbsFsTouch

namespace Sdmmc.Spec.AbsFs
open Sdmmc.Model

/-! ### Histories with a moving clock -/

inductive Ev
  | call (op : Op) (r : Res Payload)
  | tick (t : Timestamp)

/-- One event: a call is a step of the abstract file system with that answer; a tick sets the clock. -/
def evStep (a : AbsFs) : Ev → AbsFs → Prop
  | .call op r, a' => absStep a op (a', r)
  | .tick t, a' => a' = { a with clock := t }

def absRunClk : AbsFs → List Ev → AbsFs → Prop
  | a, [], a' => a' = a
  | a, ev :: es, a' => ∃ a1, evStep a ev a1 ∧ absRunClk a1 es a'

/-- A history all of whose events satisfy `P` in the state they happen in. -/
def absRunP (P : AbsFs → Ev → Prop) : AbsFs → List Ev → AbsFs → Prop
  | a, [], a' => a' = a
  | a, ev :: es, a' => P a ev ∧ ∃ a1, evStep a ev a1 ∧ absRunP P a1 es a'

/-- The events of a history without ticks. -/
def callEvs : List Op → List (Res Payload) → List Ev
  | op :: ops, r :: rs => .call op r :: callEvs ops rs
  | _, _ => []

/-! ### Well-formed abstract states -/

/-- A time stamp at FAT resolution. -/
def Rounded (t : Timestamp) : Prop := fatRound t = t

/-- What an open file's record has to do with the slot it sits at: the slot holds a file; the pending entry has
its name, its creation time (up to FAT rounding), the length of its bytes, and its attribute byte up to the
archive bit; and as long as the file was not written to, the stored size is the length of the bytes. -/
structure FileAt (a : AbsFs) (f : OpenFile) : Prop where
  volume : volOpen a f.volume = true
  dir : f.dir ∈ a.ids
  slot : ∃ m bytes, (a.slots f.dir)[f.idx]? = some (.file m bytes) ∧ f.pm.name = m.name ∧
    fatRound f.pm.ctime = m.ctime ∧ f.pm.size = bytes.length ∧
    (f.pm.attr = m.attr ∨ f.pm.attr = Attr.setArchive m.attr) ∧
    (f.dirty = false → m.size = bytes.length)

/-- No open file sits at slot `(x, j)`. -/
def NotOpenAt (a : AbsFs) (x j : Nat) : Prop := ∀ f, f ∈ a.files → ¬ (f.dir = x ∧ f.idx = j)

structure AInv (a : AbsFs) : Prop where
  unlocked : a.locked = false
  oneVol : a.vols.length ≤ 1
  root : 0 ∈ a.ids
  /-- open directory handles designate existing directories -/
  dirs : ∀ d, d ∈ a.dirs → d.dir ∈ a.ids
  /-- sub-directory entries name existing directories -/
  targets : ∀ x, x ∈ a.ids → ∀ (j : Nat) (m : Meta) (t : Nat), (a.slots x)[j]? = some (Slot.dir m t) → t ∈ a.ids
  files : ∀ f, f ∈ a.files → FileAt a f
  /-- two open files never sit at the same slot -/
  distinct : (a.files.map fun f => (f.dir, f.idx)).Nodup
  /-- stored creation times are at FAT resolution … -/
  rounded : ∀ x, x ∈ a.ids → ∀ (j : Nat) (m : Meta) (bytes : Bytes), (a.slots x)[j]? = some (Slot.file m bytes) → Rounded m.ctime
  /-- … and the stored size of a file nobody has open is the length of its bytes -/
  sizes : ∀ x, x ∈ a.ids → ∀ (j : Nat) (m : Meta) (bytes : Bytes), (a.slots x)[j]? = some (Slot.file m bytes) → NotOpenAt a x j →
    m.size = bytes.length

/-! ### What a call does to one slot -/

def isEffWrite : Res Payload → Bool
  | .ok .unit => true
  | .err .DiskFull => true
  | .err .NotEnoughSpace => true
  | _ => false

def isOkUnit : Res Payload → Bool
  | .ok .unit => true
  | _ => false

def isOkHandle : Res Payload → Bool
  | .ok (.handle _) => true
  | _ => false

/-- The handle's record says the file was written to. -/
def dirtyAt (a : AbsFs) (h : Nat) : Bool :=
  match fileOf a h with
  | some (_, f) => f.dirty
  | none => false

/-- The name exists in the directory behind the handle. -/
def nameFound (a : AbsFs) (d : Nat) (name : List Nat) : Bool :=
  match dirCtx a d name with
  | .ok (od, sfn) => (lookup (a.slots od.dir) sfn).isSome
  | .error _ => false

/-- A `write` through a handle sitting at slot `(x, j)` that got past the handle and mode checks (it may still
have stored only a prefix). -/
def WritesAt (a : AbsFs) (x j : Nat) : Ev → Prop
  | .call (.write h _) r => handleSlot a h = some (x, j) ∧ isEffWrite r = true
  | _ => False

/-- `flush_file` / `close_file` answering `Ok` through a handle at slot `(x, j)` whose record is dirty: the
pending entry is stored. -/
def StoresAt (a : AbsFs) (x j : Nat) : Ev → Prop
  | .call (.flush h) r => handleSlot a h = some (x, j) ∧ dirtyAt a h = true ∧ isOkUnit r = true
  | .call (.closeFile h) r => handleSlot a h = some (x, j) ∧ dirtyAt a h = true ∧ isOkUnit r = true
  | _ => False

/-- A file is created in slot `(x, j)`. -/
def CreatesAt (a : AbsFs) (x j : Nat) : Ev → Prop
  | .call (.openFile d name _) r => nameSlot a d name = some (x, j) ∧ isOkHandle r = true ∧ nameFound a d name = false
  | _ => False

/-- The file in slot `(x, j)` is opened with truncation. -/
def TruncatesAt (a : AbsFs) (x j : Nat) : Ev → Prop
  | .call (.openFile d name mode) r => nameSlot a d name = some (x, j) ∧ isOkHandle r = true ∧
      nameFound a d name = true ∧ solveModeVariant mode true = .ReadWriteTruncate
  | _ => False

/-- The entry in slot `(x, j)` is deleted, or a directory is made there. -/
def RemovesAt (a : AbsFs) (x j : Nat) : Ev → Prop
  | .call (.delete d name) r => nameSlot a d name = some (x, j) ∧ isOkUnit r = true
  | .call (.mkdir d name) r => nameSlot a d name = some (x, j) ∧ isOkUnit r = true
  | _ => False

/-- The event is a call that may change slot `(x, j)` (`touched`). -/
def TouchesAt (a : AbsFs) (x j : Nat) : Ev → Prop
  | .call op _ => touched a op = some (x, j)
  | .tick _ => False

/-! ### The ghost of one slot -/

/-- `born`: creation time, name and attribute byte the file in the slot had when it entered the history (was
there at the start, or was created).  `modified`: the clock at the last modification through a handle (write,
truncation, creation) and whether the directory entry has been stored since. -/
structure SlotG where
  born : Option (Timestamp × Bytes × Nat)
  modified : Option (Timestamp × Bool)

/-- How an event moves the ghost of slot `(x, j)`; `a` is the state the event happens in. -/
def eff (a : AbsFs) (x j : Nat) : Ev → SlotG → SlotG
  | .call (.write h _) r, g =>
    if handleSlot a h = some (x, j) ∧ isEffWrite r = true then { g with modified := some (a.clock, false) } else g
  | .call (.flush h) r, g =>
    if handleSlot a h = some (x, j) ∧ dirtyAt a h = true ∧ isOkUnit r = true
    then { g with modified := g.modified.map fun p => (p.1, true) } else g
  | .call (.closeFile h) r, g =>
    if handleSlot a h = some (x, j) ∧ dirtyAt a h = true ∧ isOkUnit r = true
    then { g with modified := g.modified.map fun p => (p.1, true) } else g
  | .call (.openFile d name mode) r, g =>
    if nameSlot a d name = some (x, j) ∧ isOkHandle r = true then
      if nameFound a d name = true then
        (if solveModeVariant mode true = .ReadWriteTruncate then { g with modified := some (a.clock, true) } else g)
      else
        match dirCtx a d name with
        | .ok (_, sfn) => { born := some (fatRound a.clock, sfn, 0), modified := some (a.clock, true) }
        | .error _ => g
    else g
  | .call (.delete d name) r, g =>
    if nameSlot a d name = some (x, j) ∧ isOkUnit r = true then ⟨none, none⟩ else g
  | .call (.mkdir d name) r, g =>
    if nameSlot a d name = some (x, j) ∧ isOkUnit r = true then ⟨none, none⟩ else g
  | _, g => g

/-- The ghost at the start: what the slot holds, nothing known about modifications. -/
def ghost0 (a : AbsFs) (x j : Nat) : SlotG :=
  match (a.slots x)[j]? with
  | some (.file m _) => ⟨some (m.ctime, m.name, m.attr), none⟩
  | _ => ⟨none, none⟩

/-- The ghost after a history (the states passed through are needed: the abstract step is a relation). -/
def ghostRun (x j : Nat) : AbsFs → SlotG → List Ev → AbsFs → SlotG → Prop
  | a, g, [], a', g' => a' = a ∧ g' = g
  | a, g, ev :: es, a', g' => ∃ a1, evStep a ev a1 ∧ ghostRun x j a1 (eff a x j ev g) es a' g'

/-- What the ghost says about the state. -/
structure GInv (a : AbsFs) (x j : Nat) (g : SlotG) : Prop where
  /-- the file is still there, under its name, with its creation time; its attribute byte changed at most by
  the archive bit -/
  born : ∀ t n at0, g.born = some (t, n, at0) → ∃ m bytes, (a.slots x)[j]? = some (.file m bytes) ∧
    m.ctime = t ∧ m.name = n ∧ (m.attr = at0 ∨ m.attr = Attr.setArchive at0)
  /-- every dirty record at the slot carries the clock of the last modification … -/
  pending : ∀ t sy, g.modified = some (t, sy) → ∀ f, f ∈ a.files → f.dir = x → f.idx = j → f.dirty = true →
    f.pm.mtime = t
  /-- … and once stored, the directory entry shows it (at FAT resolution) together with the true length -/
  stored : ∀ t, g.modified = some (t, true) → ∃ m bytes, (a.slots x)[j]? = some (.file m bytes) ∧
    m.mtime = fatRound t ∧ m.size = bytes.length

end Sdmmc.Spec.AbsFs
