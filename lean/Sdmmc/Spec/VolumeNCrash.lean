/-
Specification vocabulary for crash consistency with SEVERAL OPEN VOLUMES on one device (`Sdmmc.Props.C10Multi`,
`C09Multi`, `C02Multi`): the invariant between calls.

`Spec/VolumeCrash.lean` has, for ONE open volume, `VolInvC s gh` = the invariant of API histories `VolInv` + identical FAT
copies `Mirror` + `RawOK` (the on-disk directory slot of every open file names no cluster, or the cluster the open file's
record names — what keeps the MEDIUM crash-consistent while files are open and modified).  `Spec/VolumeN.lean` has the
invariant of API histories for several open volumes, `VolInvN s ghs` (one ghost per open volume, in table order), and
`MirrorN`.  Here:

* `RawOKN s` — `RawOK` for every open volume: the slots of the open files OF THAT VOLUME (`volFiles`), decoded with ITS FAT
  type;
* `VolInvNC s ghs` — `VolInvN` + `MirrorN` + `RawOKN` ("N volumes, crash").  (Not to be confused with
  `Props.C16Multi.VolInvCN`, the ACCOUNTING invariant of several volumes.)

The crash-consistency predicate itself is per MEDIUM and per VOLUME RECORD and needs no new vocabulary: `CrashInv v d gh`
(`Spec/VolumeCrash.lean`) speaks about the blocks of the partition of `v` only.

Nothing is proved here.
-/
import Sdmmc.Spec.VolumeN
import Sdmmc.Spec.VolumeCrash

namespace Sdmmc.Spec.Volume

open Sdmmc.Model Sdmmc.Model.Fat Sdmmc.Spec

/-- The on-disk slot of every open file of every open volume names no cluster, or the cluster its record names. -/
def RawOKN (s : Mgr) : Prop :=
  ∀ (i : Nat) (vi : VolInfo), s.vols[i]? = some vi → RawOK vi.vol.fatType s.dev.disk (volFiles s vi.rawVolume)

/-- The invariant between calls that keeps every open volume's partition crash-consistent inside the calls. -/
structure VolInvNC (s : Mgr) (ghs : List Ghost) : Prop where
  inv : VolInvN s ghs
  mirror : MirrorN s ghs
  raw : RawOKN s

end Sdmmc.Spec.Volume
