/-
Specification side of C18 (names): the strict 8.3 grammar over ISO-8859-1, written from the
Microsoft FAT specification ("Short Directory Entry Name"), not from the code.

A name is: 1..8 base characters, optionally followed by `.` and 0..3 extension characters.
Characters are code points 0x20 < c ≤ 0xFF other than `" * + , / : ; < = > ? [ \ ] |` and `.`;
the stored form is upper-cased (ASCII letters only, as the library documents), base padded
with spaces to 8 bytes, extension padded to 3.  `.`, `..` and (by this library's documentation)
the empty string denote directories.

The 0x05 substitution (FAT specification, `DIR_Name[0]`): 0xE5 in the first byte of a directory
entry means "this entry is free", so a name whose first character is stored as 0xE5 (in ISO-8859-1:
U+00E5, which ASCII upper-casing leaves alone) is stored with 0x05 in the first byte instead, and
0x05 in the first byte reads back as 0xE5.  `firstByte`: the stored first byte is 0x05 iff the
upper-cased first character is U+00E5.  (0x05 cannot come from anywhere else: U+0005 is a control
character and not a name character.)
-/
namespace Sdmmc.Spec.Name83

def forbidden : List Nat :=
  [0x22, 0x2A, 0x2B, 0x2C, 0x2F, 0x3A, 0x3B, 0x3C, 0x3D, 0x3E, 0x3F, 0x5B, 0x5C, 0x5D, 0x7C]

/-- A character that may appear in the base or the extension. -/
def nameChar (c : Nat) : Bool := 0x20 < c && c ≤ 0xFF && !forbidden.contains c && c != 0x2E

def upper (c : Nat) : Nat := if 0x61 ≤ c ∧ c ≤ 0x7A then c - 0x20 else c

def pad (n : Nat) (cs : List Nat) : List UInt8 :=
  cs.map (fun c => UInt8.ofNat (upper c)) ++ List.replicate (n - cs.length) (UInt8.ofNat 0x20)

/-- The stored first byte of a name whose first character is `c`: 0x05 iff the upper-cased
character is U+00E5, the upper-cased character otherwise. -/
def firstByte (c : Nat) : UInt8 := if upper c = 0xE5 then UInt8.ofNat 0x05 else UInt8.ofNat (upper c)

/-- The 8 stored bytes of the base: as `pad 8`, with the substitution in the first byte. -/
def padBase : List Nat → List UInt8
  | [] => pad 8 []
  | c :: rest => firstByte c :: pad 7 rest

/-- Reading the first byte back: 0x05 stands for 0xE5. -/
def readFirst (b : UInt8) : Nat := if b.toNat = 0x05 then 0xE5 else b.toNat

/-- The 11 stored bytes of a valid 8.3 name, or `none`. -/
def parse (s : List Nat) : Option (List UInt8) :=
  if s = [0x2E, 0x2E] then some (UInt8.ofNat 0x2E :: UInt8.ofNat 0x2E :: List.replicate 9 (UInt8.ofNat 0x20))
  else if s = [] ∨ s = [0x2E] then some (UInt8.ofNat 0x2E :: List.replicate 10 (UInt8.ofNat 0x20))
  else
    let base := s.takeWhile (· ≠ 0x2E)
    let rest := s.dropWhile (· ≠ 0x2E)
    let ext := rest.drop 1          -- what follows the first period, if any
    if 1 ≤ base.length ∧ base.length ≤ 8 ∧ base.all nameChar ∧ ext.length ≤ 3 ∧ ext.all nameChar
    then some (padBase base ++ pad 3 ext) else none

/-- What a valid name prints as: upper-cased, a period only before a non-empty extension; the
directory names print as `..` and `.` (the empty string too). -/
def canon (s : List Nat) : List Nat :=
  if s = [0x2E, 0x2E] then [0x2E, 0x2E]
  else if s = [] ∨ s = [0x2E] then [0x2E]
  else
    let base := s.takeWhile (· ≠ 0x2E)
    let ext := (s.dropWhile (· ≠ 0x2E)).drop 1
    base.map upper ++ (match ext.map upper with | [] => [] | c :: cs => 0x2E :: c :: cs)

end Sdmmc.Spec.Name83
