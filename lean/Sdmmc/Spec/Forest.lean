/-
Specification vocabulary for C05 "no cluster is leaked, no cluster is shared":

* `fatEntry`, `isFree`, `isBad`, `isUsed` — how one FAT entry is classified;
* `Partition`, `Forest` — the used clusters of the volume are exactly the clusters of the chains of
  the live roots, and no cluster occurs twice (neither in two chains nor twice in one);
* `FatOp`, `step`, `run` — histories of FAT-engine calls (`alloc_cluster`, `truncate_cluster_chain`,
  `free_cluster_chain` of /repo/src/fat/volume.rs, as modelled in `Sdmmc.Model.Fat`) issued by a
  client that remembers which chains it owns.

Everything here is part of the trusted statement of `Sdmmc.Props.C05Forest`; nothing is proved here.
-/
import Sdmmc.Spec.Chain

namespace Sdmmc.Spec

open Sdmmc.Model Sdmmc.Model.Fat

/-! ### One FAT entry -/

/-- The FAT entry of cluster `c` as the allocator reads it (FAT32: the low 28 bits). -/
def fatEntry (v : FatVolume) (d : Disk) (c : Nat) : Nat :=
  match v.fatType with
  | .fat16 => fatRaw v d c
  | .fat32 => fatRaw v d c % 268435456

/-- The bad-cluster mark of the FAT type. -/
def badMark : FatType → Nat
  | .fat16 => 0xFFF7
  | .fat32 => 0x0FFFFFF7

/-- The entry of `c` is the free mark. -/
def isFree (v : FatVolume) (d : Disk) (c : Nat) : Prop := fatEntry v d c = 0

/-- The entry of `c` is the bad-cluster mark (such a cluster belongs to no chain and is never
allocated or freed). -/
def isBad (v : FatVolume) (d : Disk) (c : Nat) : Prop := fatEntry v d c = badMark v.fatType

/-- `c` is a data cluster of the volume whose entry is neither free nor bad: somebody owns it. -/
def isUsed (v : FatVolume) (d : Disk) (c : Nat) : Prop := InRange v c ∧ ¬ isFree v d c ∧ ¬ isBad v d c

instance (v : FatVolume) (d : Disk) (c : Nat) : Decidable (isFree v d c) := by unfold isFree; infer_instance
instance (v : FatVolume) (d : Disk) (c : Nat) : Decidable (isBad v d c) := by unfold isBad; infer_instance
instance (v : FatVolume) (c : Nat) : Decidable (InRange v c) := by unfold InRange; infer_instance
instance (v : FatVolume) (d : Disk) (c : Nat) : Decidable (isUsed v d c) := by unfold isUsed; infer_instance

/-! ### Exact cluster accounting -/

/-- The lists `chains` partition the used clusters: no cluster occurs twice in their concatenation
(so the lists are pairwise disjoint and each is free of repetitions), and a cluster is used exactly
when it occurs in one of them. -/
def Partition (v : FatVolume) (d : Disk) (chains : List (List Nat)) : Prop :=
  chains.flatten.Nodup ∧ ∀ c, isUsed v d c ↔ c ∈ chains.flatten

/-- `roots` are the first clusters of all live chains: each root has a chain (in range, acyclic,
terminated — `Chain`), and these chains partition the used clusters of the volume.  Nothing is
leaked (used but in no chain) and nothing is shared (in two chains). -/
def Forest (v : FatVolume) (d : Disk) (roots : List Nat) : Prop :=
  ∃ chains : List (List Nat), chains.length = roots.length ∧
    (∀ (i r : Nat) (cs : List Nat), roots[i]? = some r → chains[i]? = some cs → Chain v d r cs) ∧ Partition v d chains

/-- The same with the chains made explicit: every list of `chains` is the chain of its first
element. (`Owns v d chains → Forest v d (rootsOf chains)`, `Props.C05Forest.forest_of_owns`.) -/
def Owns (v : FatVolume) (d : Disk) (chains : List (List Nat)) : Prop :=
  (∀ cs, cs ∈ chains → Chain v d (cs.headD 0) cs) ∧ Partition v d chains

/-- The first clusters of the lists. -/
def rootsOf (chains : List (List Nat)) : List Nat := chains.map (·.headD 0)

/-! ### Standing hypotheses on an engine state -/

/-- No device fault is scheduled. -/
def NoFault (s : FS) : Prop := s.dev.faults = []
/-- The one-block cache, when tagged, holds what the medium holds. -/
def Coherent (s : FS) : Prop := ∀ i, s.cache.tag = some i → s.cache.blk = s.dev.disk.get i
/-- Blocks have their size. -/
def BlocksOK (d : Disk) : Prop := ∀ i, (d.get i).length = 512
/-- The in-memory next-free hint never names a reserved entry (mounting maps 0 and 1 to "unknown"). -/
def HintOK (v : FatVolume) : Prop := ∀ n, v.nextFreeCluster = some n → 2 ≤ n
/-- FAT copy 2 is block-for-block identical to copy 1. -/
def Mirror (v : FatVolume) (d : Disk) : Prop :=
  ∀ c, c < endCluster v → ∀ b2, fatBlock2 v c = some b2 → d.get b2 = d.get (fatBlock v c)

/-- What the history theorem needs of an engine state besides `Owns`. -/
structure Ready (s : FS) : Prop where
  noFault : NoFault s
  coherent : Coherent s
  blocksOK : BlocksOK s.dev.disk
  geom : WFGeom s.vol
  hint : HintOK s.vol

/-- Two volume records differ at most in the two bookkeeping fields (free count, next-free hint). -/
def SameGeom (v v' : FatVolume) : Prop :=
  ∃ cnt hint, v' = { v with freeClustersCount := cnt, nextFreeCluster := hint }

/-- `k` times `n.saturating_add(1)` on `u32` — what freeing `k` clusters does to a known free count.
(`= n + k` as long as that fits, `Props.C05Forest.satAdd_exact`.) -/
def satAdd : Nat → Nat → Nat
  | n, 0 => n
  | n, k + 1 => satAdd (satInc n) k

/-- The next-free hint after `truncate_cluster_chain` cut off `tail`: lowered to the first freed
cluster. -/
def hintAfterTruncate (hint : Option Nat) (tail : List Nat) : Option Nat :=
  match tail with
  | [] => hint
  | y :: _ => some (match hint with | some nf => min nf y | none => y)

/-- The next-free hint after `free_cluster_chain(c)` on the chain `c :: tail`. -/
def hintAfterFree (hint : Option Nat) (c : Nat) (tail : List Nat) : Option Nat :=
  some (match hintAfterTruncate hint tail with | some nf => min nf c | none => c)

/-- The number of free data clusters of the volume. -/
def freeCount (v : FatVolume) (d : Disk) : Nat :=
  (List.range (endCluster v)).countP fun c => decide (2 ≤ c ∧ isFree v d c)

/-- The in-memory free count (FAT32 info sector), when known, is the number of free clusters. -/
def CountExact (s : FS) : Prop := ∀ n, s.vol.freeClustersCount = some n → n = freeCount s.vol s.dev.disk

/-! ### Histories -/

/-- The FAT-engine calls a client (the file / directory layer) issues.  Chains are addressed by
their index in the client's list of owned chains. -/
inductive FatOp
  /-- `alloc_cluster(None, zero)`: start a new chain -/
  | newChain (zero : Bool)
  /-- `alloc_cluster(Some(last cluster of chain i), zero)`: append a cluster to chain `i` -/
  | extend (i : Nat) (zero : Bool)
  /-- `truncate_cluster_chain(k-th cluster of chain i)`: keep clusters `0..k` of chain `i` -/
  | truncate (i k : Nat)
  /-- `free_cluster_chain(first cluster of chain i)`: give chain `i` back -/
  | free (i : Nat)
  deriving Repr, DecidableEq

/-- One call.  The first component is the engine state (the model's functions run on it); the second
is the client's record of the chains it owns, updated the way the client believes the call worked:
a new one-cluster chain, one cluster appended, a prefix kept, a chain dropped.  A call that does not
return `Ok` leaves the record alone; an index that names nothing is no call at all. -/
def step (st : FS × List (List Nat)) : FatOp → FS × List (List Nat)
  | .newChain zero =>
    match allocCluster none zero st.1 with
    | (.ok c, s') => (s', st.2 ++ [[c]])
    | (_, s') => (s', st.2)
  | .extend i zero =>
    match st.2[i]? with
    | none => st
    | some cs =>
      match cs.getLast? with
      | none => st
      | some p =>
        match allocCluster (some p) zero st.1 with
        | (.ok c, s') => (s', st.2.set i (cs ++ [c]))
        | (_, s') => (s', st.2)
  | .truncate i k =>
    match st.2[i]? with
    | none => st
    | some cs =>
      match cs[k]? with
      | none => st
      | some x =>
        match truncateClusterChain x st.1 with
        | (.ok _, s') => (s', st.2.set i (cs.take (k + 1)))
        | (_, s') => (s', st.2)
  | .free i =>
    match st.2[i]? with
    | none => st
    | some cs =>
      match cs.head? with
      | none => st
      | some r =>
        match freeClusterChain r st.1 with
        | (.ok _, s') => (s', st.2.eraseIdx i)
        | (_, s') => (s', st.2)

/-- A history. -/
def run (st : FS × List (List Nat)) (ops : List FatOp) : FS × List (List Nat) := ops.foldl step st

/-- The invariant of histories: the engine state is ready for the next call, and the client's record
is exact — its lists are the chains of their first clusters and partition the used clusters. -/
def Exact (st : FS × List (List Nat)) : Prop := Ready st.1 ∧ Owns st.1.vol st.1.dev.disk st.2

end Sdmmc.Spec
