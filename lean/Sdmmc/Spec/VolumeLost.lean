/-
Specification vocabulary for C11 over histories under ARBITRARILY PLACED faults (`Sdmmc.Props.C11HistB`).

* `VolInvL s gh X` — "the invariant of C03 up to the fault schedule and up to LOST CHAINS `X`": `VolInv` with exactly two
  clauses given up: `noFault` (a schedule may be pending) and "no leak" (`Owns` holds of `gh.G ++ X`: the medium may carry
  chains `X` that nothing refers to).  EVERYTHING else is kept — in particular `TreeOK.sizes` with the true cluster size
  and `FileOK.size_fits`, which the weak invariant `FaultInv` of `Spec/VolumeFault.lean` gives up.  So
  `VolInvF s gh ↔ VolInvL s gh []` and `VolInvL s gh X → FaultInv s gh X`.
* `entryOnMedium d f` — the 32-byte directory entry of the open file `f` as the medium `d` holds it;
  `EntryNotAhead s file` — for the open file with handle `file`: that entry names no cluster and size 0, or it names the
  record's first cluster and at most the record's size.  (It holds after any open that does not truncate, and `write`
  only grows a record; it fails after a truncating open of a file longer than one cluster, until the next flush.)

Nothing is proved here.
-/
import Sdmmc.Spec.VolumeFault

namespace Sdmmc.Spec.Volume

open Sdmmc.Model Sdmmc.Model.Fat Sdmmc.Spec

/-- The medium with the open files `files`, structurally sound up to lost chains `X` (`MedInv` with `Owns` of
`gh.G ++ X`). -/
structure MedLost (v : FatVolume) (d : Disk) (files : List FileInfo) (gh : Ghost) (X : List (List Nat)) : Prop where
  blocksOK : BlocksOK d
  geom : WFGeom v
  hint : HintOK v
  /-- the chains of the ghost AND the lost chains are chains, pairwise disjoint, and they are all that is in use -/
  owns : Owns v d (gh.G ++ X)
  tree : TreeOK v.fatType (clusterBytesLen v) (rootHead v) gh.G gh.dirs (dirSlots v d gh.G) files
  fileOK : ∀ f, f ∈ files → FileOK v d f (chainOf gh.G f.entry.cluster) ∧
    (chainOf gh.G f.entry.cluster = [] → f.curCluster < 2)

/-- **The invariant of C03 up to the fault schedule and lost chains `X`.** -/
structure VolInvL (s : Mgr) (gh : Ghost) (X : List (List Nat)) : Prop where
  coherent : ∀ i, s.cache.tag = some i → s.cache.blk = s.dev.disk.get i
  unlocked : s.locked = false
  maxVols : s.maxVols = 1
  vols : s.vols = [] ∨ ∃ vi, s.vols = [vi] ∧ vi.vol = gh.vol
  med : MedLost gh.vol s.dev.disk s.files gh X
  fileVols : ∀ f, f ∈ s.files → ∃ vi, s.vols = [vi] ∧ f.rawVolume = vi.rawVolume
  openDirs : ∀ di, di ∈ s.dirs → ValidDir gh.dirs di.cluster

/-- The directory entry of the open file `f` as the medium `d` holds it. -/
def entryOnMedium (d : Disk) (f : FileInfo) : Slot :=
  (f.entry.entryBlock, f.entry.entryOffset, ((d.get f.entry.entryBlock).drop f.entry.entryOffset).take 32)

/-- The entry on the medium of the open file with handle `file` is not ahead of its record. -/
def EntryNotAhead (s : Mgr) (file : Nat) : Prop :=
  ∀ f, f ∈ s.files → f.rawFile = file → ∀ vi, vi ∈ s.vols →
    (sCluster vi.vol.fatType (entryOnMedium s.dev.disk f) = 0 ∧ sSize (entryOnMedium s.dev.disk f) = 0) ∨
    (sCluster vi.vol.fatType (entryOnMedium s.dev.disk f) = f.entry.cluster ∧
      sSize (entryOnMedium s.dev.disk f) ≤ f.entry.size)

end Sdmmc.Spec.Volume
