/-
Sessions of the SD card driver, with the answers (vocabulary for `Props/C12Main2.lean`; trusted).
`Spec/SdSession.lean` defines `runCalls`, the session runner that continues after errors and
returns the final state; this is the same runner also returning what each call answered.
-/
import Sdmmc.Spec.SdSession

namespace Sdmmc.Spec.SdSession
open Sdmmc.Model Sdmmc.Model.Sd

variable {σ : Type} (B : BusOps σ)

/-- Run the calls one after the other, whatever each returned: the answers in order, and the final state. -/
def runCallsA : List Call → St σ → List (SRes Answer) × St σ
  | [], s => ([], s)
  | c :: cs, s => ((call B c s).1 :: (runCallsA cs (call B c s).2).1, (runCallsA cs (call B c s).2).2)

/-- Its final state is that of `runCalls`. -/
theorem runCallsA_state (cs : List Call) (s : St σ) : (runCallsA B cs s).2 = runCalls B cs s := by
  induction cs generalizing s with
  | nil => rfl
  | cons c cs ih => exact ih _

end Sdmmc.Spec.SdSession
