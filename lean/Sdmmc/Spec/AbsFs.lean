/-
The abstract file system the whole API refines (C01, C02, C06, C07 over arbitrary histories).
Part of the trusted statement of `Sdmmc.Props.C01Fs`; nothing is proved here.

Reading guide.
* No blocks, clusters, FAT, cache or device.  A directory is the ordered list of its SLOTS up to (not
  including) the end-of-directory marker; a slot is `deleted` (free for reuse), `frag` (a long-name
  fragment, carried along as 32 opaque bytes), `file meta bytes` (a file, or a volume label: the crate's
  lookup treats labels as files) or `dir meta target` (a sub-directory entry naming directory number
  `target`; `.` and `..` are such slots).  Directories are numbered: `0` is the root; `ids` lists the
  numbers in use and `slots h` is the content of directory `h`.
* Slot order is on-disk order: listings report the `file`/`dir` slots in list order, a lookup finds the FIRST
  slot with the name, a create takes the FIRST `deleted` slot and otherwise appends.
* File contents live in the tree and are written through at once: `file meta bytes` always holds the current
  bytes, also while a handle is writing.  `meta` is what the directory entry STORES (name, attributes, time
  stamps, size) and lags behind: `write` changes the pending copy `pm` in the handle; `flush_file` /
  `close_file` store it (`storedMeta`: time stamps at FAT resolution).  So between a write and the next
  flush a listing shows the old size, and a reader that trusts the stored size would see only the first
  `meta.size` bytes; after flush / close `meta.size = bytes.length` (that is C02).
* The three handle tables mirror the crate's `Vec`s: same order, `swap_remove` on close, lookup by the first
  record with the handle, the wrapping `u32` handle generator.  At most one volume is open.
* Non-determinism (`absStep` is a relation): running out of clusters is not modelled — `write` may store any
  prefix and answer `DiskFull` / `NotEnoughSpace`, a create or `make_dir` may answer `NotEnoughSpace` —;
  `make_dir` picks any unused directory number; `open_volume` while no volume is open may fail with any error;
  results that carry `DirEntry`s are related through `view` (the entry minus where it is stored and its first
  cluster); `iterate_dir_lfn` is only said to change nothing (long names are C17's).
* Names are looked up by their 11-byte 8.3 form.  (Names whose 8.3 form starts with byte 0xE5 are outside the
  refinement theorem — the crate's lookup matches deleted slots for them.)
-/
import Sdmmc.Spec.Chain

namespace Sdmmc.Spec.AbsFs
open Sdmmc.Model

/-! ### State -/

/-- What a directory entry shows, minus where it is stored and its first cluster. -/
structure Meta where
  name : Bytes
  attr : Nat
  ctime : Timestamp
  mtime : Timestamp
  size : Nat
  deriving DecidableEq, Repr

/-- The abstract view of a `DirEntry`. -/
def view (e : DirEntry) : Meta := ⟨e.name, e.attributes, e.ctime, e.mtime, e.size⟩

/-- A time stamp as the FAT date/time words keep it (2-second resolution, years from 1980). -/
def fatRound (t : Timestamp) : Timestamp := Timestamp.fromFat t.fatDate t.fatTime

/-- What is read back after `m` was stored in a directory entry. -/
def storedMeta (m : Meta) : Meta := { m with ctime := fatRound m.ctime, mtime := fatRound m.mtime }

inductive Slot
  | deleted
  | frag (raw : Bytes)
  | file (m : Meta) (bytes : Bytes)
  | dir (m : Meta) (target : Nat)
  deriving Repr

def Slot.meta? : Slot → Option Meta
  | .file m _ => some m
  | .dir m _ => some m
  | _ => none

/-- The slot is a file or directory entry with this 8.3 name. -/
def Slot.named (name : Bytes) (sl : Slot) : Bool :=
  match sl.meta? with
  | some m => decide (m.name = name)
  | none => false

def Slot.isDeleted : Slot → Bool
  | .deleted => true
  | _ => false

/-- An open file: its handle, the volume handle it belongs to, its mode, the slot it sits at (directory
number, index), the position, the pending directory entry, and whether it was written to. -/
structure OpenFile where
  handle : Nat
  volume : Nat
  mode : Mode
  dir : Nat
  idx : Nat
  pos : Nat
  pm : Meta
  dirty : Bool
  deriving Repr

structure OpenDir where
  handle : Nat
  volume : Nat
  dir : Nat
  deriving Repr

structure AbsFs where
  nextId : Nat
  maxDirs : Nat
  maxFiles : Nat
  clock : Timestamp
  locked : Bool
  /-- (handle, partition index) of the open volume, if any -/
  vols : List (Nat × Nat)
  dirs : List OpenDir
  files : List OpenFile
  ids : List Nat
  slots : Nat → List Slot

/-! ### Helpers -/

/-- Draw a handle. -/
def gen (a : AbsFs) : AbsFs := { a with nextId := (a.nextId + 1) % 4294967296 }

def volOpen (a : AbsFs) (v : Nat) : Bool := a.vols.any fun x => decide (x.1 = v)
def dirIdx (a : AbsFs) (d : Nat) : Option Nat := a.dirs.findIdx? fun x => decide (x.handle = d)
def fileIdx (a : AbsFs) (h : Nat) : Option Nat := a.files.findIdx? fun x => decide (x.handle = h)

/-- An open file of volume `vol` sits at slot `idx` of directory `dir`. -/
def isOpenAt (a : AbsFs) (vol dir idx : Nat) : Bool :=
  a.files.any fun f => decide (f.volume = vol ∧ f.dir = dir ∧ f.idx = idx)

/-- Lookup: the index of the first file / directory slot with the name. -/
def lookup (ss : List Slot) (name : Bytes) : Option Nat := ss.findIdx? (Slot.named name)

/-- Listing: the file / directory slots, in order. -/
def listing (ss : List Slot) : List Meta := ss.filterMap Slot.meta?

/-- Where a new entry goes: the first deleted slot, else the end. -/
def freeIdx (ss : List Slot) : Nat := (ss.findIdx? Slot.isDeleted).getD ss.length

/-- Overwrite slot `i`, or append when `i` is the end. -/
def put (ss : List Slot) (i : Nat) (sl : Slot) : List Slot := if i < ss.length then ss.set i sl else ss ++ [sl]

def setSlot (a : AbsFs) (h i : Nat) (sl : Slot) : AbsFs :=
  { a with slots := fun x => if x = h then put (a.slots h) i sl else a.slots x }

/-- The prologue of the calls that take a directory handle: the handle must be open and so must its
volume. -/
def dirOf (a : AbsFs) (d : Nat) : Except Err OpenDir :=
  match dirIdx a d with
  | none => .error .BadHandle
  | some i =>
    match a.dirs[i]? with
    | none => .error .BadHandle
    | some od => if volOpen a od.volume then .ok od else .error .BadHandle

/-- … and a name: it must have an 8.3 form. -/
def dirCtx (a : AbsFs) (d : Nat) (name : List Nat) : Except Err (OpenDir × Bytes) :=
  match dirOf a d with
  | .error e => .error e
  | .ok od =>
    match Sfn.createFromStr name with
    | .error e => .error (.FilenameError e)
    | .ok sfn => .ok (od, sfn)

/-- The prologue of the calls that take a file handle: index and record. -/
def fileOf (a : AbsFs) (h : Nat) : Option (Nat × OpenFile) :=
  match fileIdx a h with
  | none => none
  | some i => (a.files[i]?).map fun f => (i, f)

/-- The directory entry of a file or directory created at time `now`. -/
def newMeta (name : Bytes) (attr : Nat) (now : Timestamp) : Meta := ⟨name, attr, now, now, 0⟩

/-! ### The deterministic calls, as functions -/

def openRootF (a : AbsFs) (v : Nat) : AbsFs × Res Payload :=
  if a.dirs.length ≥ a.maxDirs then (gen a, .err .TooManyOpenDirs)
  else ({ gen a with dirs := a.dirs ++ [⟨a.nextId, v, 0⟩] }, .ok (.handle a.nextId))

def closeDirF (a : AbsFs) (d : Nat) : AbsFs × Res Payload :=
  match dirIdx a d with
  | some i => ({ a with dirs := swapRemove a.dirs i }, .ok .unit)
  | none => (a, .err .BadHandle)

/-- `flush_file`: a handle that was written to stores its pending entry. -/
def flushF (a : AbsFs) (h : Nat) : AbsFs × Res Payload :=
  match fileOf a h with
  | none => (a, .err .BadHandle)
  | some (_, f) =>
    if !f.dirty then (a, .ok .unit)
    else if !volOpen a f.volume then (a, .err .BadHandle)
    else match (a.slots f.dir)[f.idx]? with
      | some (.file _ bytes) => (setSlot a f.dir f.idx (.file (storedMeta f.pm) bytes), .ok .unit)
      | _ => (a, .panic "dangling file reference")

/-- What `iterate_dir` may hand its callback. -/
def ListsAs (a : AbsFs) (d : Nat) (r : Res (List DirEntry)) : Prop :=
  match dirOf a d with
  | .error e => r = .err e
  | .ok od => ∃ es, r = .ok es ∧ es.map view = listing (a.slots od.dir)

/-! ### The calls, one definition each: `a` before, `a'` after, `r` the answer -/

/-- `open_volume` — at most one volume; mounting itself (reading the partition table and the boot sector) is not
modelled: it may fail with any error. -/
def openVolumeS (a : AbsFs) (idx : Nat) (a' : AbsFs) (r : Res Payload) : Prop :=
  if a.vols.length ≥ 1 then a' = a ∧ r = .err .TooManyOpenVolumes
  else (a' = a ∧ ∀ p, r ≠ .ok p) ∨
    (a' = { gen a with vols := a.vols ++ [(a.nextId, idx)] } ∧ r = .ok (.handle a.nextId))

def closeVolumeS (a : AbsFs) (v : Nat) (a' : AbsFs) (r : Res Payload) : Prop :=
  if a.files.any (fun f => decide (f.volume = v)) then a' = a ∧ r = .err .VolumeStillInUse
  else if a.dirs.any (fun d => decide (d.volume = v)) then a' = a ∧ r = .err .VolumeStillInUse
  else match a.vols.findIdx? (fun x => decide (x.1 = v)) with
    | none => a' = a ∧ r = .err .BadHandle
    | some i => a' = { a with vols := swapRemove a.vols i } ∧ r = .ok .unit

def openDirS (a : AbsFs) (d : Nat) (name : List Nat) (a' : AbsFs) (r : Res Payload) : Prop :=
  if a.dirs.length ≥ a.maxDirs then a' = a ∧ r = .err .TooManyOpenDirs else
  match dirCtx a d name with
  | .error e => a' = a ∧ r = .err e
  | .ok (od, sfn) =>
    if sfn = Sfn.thisDir then
      a' = { gen a with dirs := a.dirs ++ [⟨a.nextId, od.volume, od.dir⟩] } ∧ r = .ok (.handle a.nextId)
    else match lookup (a.slots od.dir) sfn with
      | none => a' = a ∧ r = .err .NotFound
      | some i =>
        match (a.slots od.dir)[i]? with
        | some (.dir _ t) => a' = { gen a with dirs := a.dirs ++ [⟨a.nextId, od.volume, t⟩] } ∧ r = .ok (.handle a.nextId)
        | _ => a' = a ∧ r = .err .OpenedFileAsDir

def findS (a : AbsFs) (d : Nat) (name : List Nat) (a' : AbsFs) (r : Res Payload) : Prop :=
  a' = a ∧
  match dirCtx a d name with
  | .error e => r = .err e
  | .ok (od, sfn) =>
    match lookup (a.slots od.dir) sfn with
    | none => r = .err .NotFound
    | some i => ∃ e m, r = .ok (.entry e) ∧ ((a.slots od.dir)[i]?).bind Slot.meta? = some m ∧ view e = m

def listS (a : AbsFs) (d : Nat) (a' : AbsFs) (r : Res Payload) : Prop :=
  a' = a ∧ ∃ r0, ListsAs a d r0 ∧ r = r0.bind fun es => .ok (.entries es)

/-- `iterate_dir_lfn` changes nothing (the long names it assembles are C17's subject). -/
def listLfnS (a : AbsFs) (d : Nat) (a' : AbsFs) (r : Res Payload) : Prop :=
  a' = a ∧ ∀ e, dirOf a d = .error e → r = .err e

def openFileS (a : AbsFs) (d : Nat) (name : List Nat) (mode : Mode) (a' : AbsFs) (r : Res Payload) : Prop :=
  if a.files.length ≥ a.maxFiles then a' = a ∧ r = .err .TooManyOpenFiles else
  match dirCtx a d name with
  | .error e => a' = a ∧ r = .err e
  | .ok (od, sfn) =>
    match lookup (a.slots od.dir) sfn with
    | none =>
      if mode = .ReadWriteCreate ∨ mode = .ReadWriteCreateOrTruncate ∨ mode = .ReadWriteCreateOrAppend then
        -- create: the entry goes to the first free slot; the directory may be full
        (a' = a ∧ r = .err .NotEnoughSpace) ∨
        (a' = { gen (setSlot a od.dir (freeIdx (a.slots od.dir)) (.file (storedMeta (newMeta sfn 0 a.clock)) [])) with
                files := a.files ++ [⟨a.nextId, od.volume, .ReadWriteCreate, od.dir, freeIdx (a.slots od.dir), 0,
                                      newMeta sfn 0 a.clock, false⟩] } ∧
         r = .ok (.handle a.nextId))
      else a' = a ∧ r = .err .NotFound
    | some i =>
      match (a.slots od.dir)[i]? with
      | some (.file m _) =>
        if isOpenAt a od.volume od.dir i then a' = a ∧ r = .err .FileAlreadyOpen
        else if mode = .ReadWriteCreate then a' = a ∧ r = .err .FileAlreadyExists
        else if Attr.isReadOnly m.attr ∧ mode ≠ .ReadOnly then a' = a ∧ r = .err .ReadOnly
        else
          r = .ok (.handle a.nextId) ∧
          (if solveModeVariant mode true = .ReadWriteTruncate then
            -- truncate: the file is emptied and its entry stored at once
            a' = { gen (setSlot a od.dir i (.file (storedMeta { m with size := 0, mtime := a.clock }) [])) with
                   files := a.files ++ [⟨a.nextId, od.volume, .ReadWriteTruncate, od.dir, i, 0,
                                         { m with size := 0, mtime := a.clock }, false⟩] }
          else
            a' = { gen a with files := a.files ++
              [⟨a.nextId, od.volume, solveModeVariant mode true, od.dir, i,
                if solveModeVariant mode true = .ReadWriteAppend then m.size else 0, m, false⟩] })
      | some (.dir m _) =>
        if mode = .ReadWriteCreate then a' = a ∧ r = .err .FileAlreadyExists
        else if Attr.isReadOnly m.attr ∧ mode ≠ .ReadOnly then a' = a ∧ r = .err .ReadOnly
        else a' = a ∧ r = .err .OpenedDirAsFile
      | _ => False

def readS (a : AbsFs) (h n : Nat) (a' : AbsFs) (r : Res Payload) : Prop :=
  match fileOf a h with
  | none => a' = a ∧ r = .err .BadHandle
  | some (i, f) =>
    if !volOpen a f.volume then a' = a ∧ r = .err .BadHandle else
    ∃ m bytes, (a.slots f.dir)[f.idx]? = some (.file m bytes) ∧
      r = .ok (.bytes ((⟨bytes, f.pos⟩ : ByteFile).read n).1) ∧
      a' = { a with files := a.files.set i { f with pos := ((⟨bytes, f.pos⟩ : ByteFile).read n).2.pos } }

/-- `write`: some prefix `data.take k` is stored — all of it, or less when the volume runs out of clusters
(or the file would exceed the largest size). -/
def writeS (a : AbsFs) (h : Nat) (data : Bytes) (a' : AbsFs) (r : Res Payload) : Prop :=
  match fileOf a h with
  | none => a' = a ∧ r = .err .BadHandle
  | some (i, f) =>
    if !volOpen a f.volume then a' = a ∧ r = .err .BadHandle
    else if f.mode = .ReadOnly then a' = a ∧ r = .err .ReadOnly
    else ∃ m bytes k, (a.slots f.dir)[f.idx]? = some (.file m bytes) ∧ k ≤ data.length ∧
      ((r = .ok .unit ∧ k = data.length) ∨ (r = .err .DiskFull ∧ k < data.length) ∨ (r = .err .NotEnoughSpace ∧ k = 0)) ∧
      a' = setSlot { a with files := a.files.set i { f with
              pos := f.pos + k, dirty := true,
              pm := { f.pm with attr := Attr.setArchive f.pm.attr, mtime := a.clock,
                                size := ((⟨bytes, f.pos⟩ : ByteFile).write (data.take k)).bytes.length } } }
            f.dir f.idx (.file m ((⟨bytes, f.pos⟩ : ByteFile).write (data.take k)).bytes)

def seekStartS (a : AbsFs) (h n : Nat) (a' : AbsFs) (r : Res Payload) : Prop :=
  match fileOf a h with
  | none => a' = a ∧ r = .err .BadHandle
  | some (i, f) =>
    if n ≤ f.pm.size then a' = { a with files := a.files.set i { f with pos := n } } ∧ r = .ok .unit
    else a' = a ∧ r = .err .InvalidOffset

def seekEndS (a : AbsFs) (h n : Nat) (a' : AbsFs) (r : Res Payload) : Prop :=
  match fileOf a h with
  | none => a' = a ∧ r = .err .BadHandle
  | some (i, f) =>
    if n ≤ f.pm.size then a' = { a with files := a.files.set i { f with pos := f.pm.size - n } } ∧ r = .ok .unit
    else a' = a ∧ r = .err .InvalidOffset

def seekCurS (a : AbsFs) (h : Nat) (d : Int) (a' : AbsFs) (r : Res Payload) : Prop :=
  match fileOf a h with
  | none => a' = a ∧ r = .err .BadHandle
  | some (i, f) =>
    if (f.pos : Int) + d < 0 ∨ (f.pos : Int) + d > (f.pm.size : Int) then a' = a ∧ r = .err .InvalidOffset
    else a' = { a with files := a.files.set i { f with pos := ((f.pos : Int) + d).toNat } } ∧ r = .ok .unit

/-- `close_file`: flush, then the record leaves the table (`swap_remove`). -/
def closeFileS (a : AbsFs) (h : Nat) (a' : AbsFs) (r : Res Payload) : Prop :=
  match fileIdx a h with
  | none => a' = a ∧ r = .err .BadHandle
  | some i => a' = { (flushF a h).1 with files := swapRemove a.files i } ∧ r = (flushF a h).2

def deleteS (a : AbsFs) (d : Nat) (name : List Nat) (a' : AbsFs) (r : Res Payload) : Prop :=
  match dirCtx a d name with
  | .error e => a' = a ∧ r = .err e
  | .ok (od, sfn) =>
    match lookup (a.slots od.dir) sfn with
    | none => a' = a ∧ r = .err .NotFound
    | some i =>
      match (a.slots od.dir)[i]? with
      | some (.file _ _) =>
        if isOpenAt a od.volume od.dir i then a' = a ∧ r = .err .FileAlreadyOpen
        else a' = setSlot a od.dir i .deleted ∧ r = .ok .unit
      | some (.dir _ _) => a' = a ∧ r = .err .DeleteDirAsFile
      | _ => False

/-- `make_dir_in_dir`: a directory entry in the first free slot of the parent, naming a new directory number
`c`, whose content is `.` (itself) and `..` (the parent). -/
def mkdirS (a : AbsFs) (d : Nat) (name : List Nat) (a' : AbsFs) (r : Res Payload) : Prop :=
  if a.dirs.length ≥ a.maxDirs then a' = a ∧ r = .err .TooManyOpenDirs else
  match dirCtx a d name with
  | .error e => a' = a ∧ r = .err e
  | .ok (od, sfn) =>
    match lookup (a.slots od.dir) sfn with
    | some i =>
      match (a.slots od.dir)[i]? with
      | some (.dir _ _) => a' = a ∧ r = .err .DirAlreadyExists
      | _ => a' = a ∧ r = .err .FileAlreadyExists
    | none =>
      (a' = a ∧ r = .err .NotEnoughSpace) ∨
      ∃ c, c ∉ a.ids ∧ r = .ok .unit ∧
        a' = { setSlot a od.dir (freeIdx (a.slots od.dir)) (.dir (storedMeta (newMeta sfn Gen.ATTR_DIRECTORY a.clock)) c) with
               ids := a.ids ++ [c],
               slots := fun x =>
                 if x = c then [.dir { storedMeta (newMeta sfn Gen.ATTR_DIRECTORY a.clock) with name := Sfn.thisDir } c,
                                .dir { storedMeta (newMeta sfn Gen.ATTR_DIRECTORY a.clock) with name := Sfn.parentDir } od.dir]
                 else (setSlot a od.dir (freeIdx (a.slots od.dir))
                        (.dir (storedMeta (newMeta sfn Gen.ATTR_DIRECTORY a.clock)) c)).slots x }

def lengthS (a : AbsFs) (h : Nat) (a' : AbsFs) (r : Res Payload) : Prop :=
  a' = a ∧ match fileOf a h with
    | none => r = .err .BadHandle
    | some (_, f) => r = .ok (.num f.pm.size)

def offsetS (a : AbsFs) (h : Nat) (a' : AbsFs) (r : Res Payload) : Prop :=
  a' = a ∧ match fileOf a h with
    | none => r = .err .BadHandle
    | some (_, f) => r = .ok (.num f.pos)

def eofS (a : AbsFs) (h : Nat) (a' : AbsFs) (r : Res Payload) : Prop :=
  a' = a ∧ match fileOf a h with
    | none => r = .err .BadHandle
    | some (_, f) => r = .ok (.bool (decide (f.pos = f.pm.size)))

/-- `get_root_volume_label`: the label of the boot sector if it has one (the abstract state does not know);
else the root directory is opened, listed and closed. -/
def labelS (a : AbsFs) (v : Nat) (a' : AbsFs) (r : Res Payload) : Prop :=
  if !volOpen a v then a' = a ∧ r = .err .BadHandle else
  (a' = a ∧ ∃ l, r = .ok (.label (some l))) ∨
  (match (openRootF a v).2 with
   | .ok (.handle d) =>
     a' = (closeDirF (openRootF a v).1 d).1 ∧
     ∃ r0, ListsAs (openRootF a v).1 d r0 ∧
       r = r0.bind fun es => .ok (.label ((es.find? fun e => decide (e.attributes = Gen.ATTR_VOLUME)).map (·.name)))
   | other => a' = (openRootF a v).1 ∧ r = other)

/-! ### The step relation -/

/-- `absStep a op (a', r)`: the call `op`, issued in `a`, may answer `r` and leave `a'`. -/
def absStep (a : AbsFs) (op : Op) (out : AbsFs × Res Payload) : Prop :=
  if a.locked then out = (a, if op.returnsResult then .err .LockError else .panic "already mutably borrowed") else
  match op with
  | .openVolume idx => openVolumeS a idx out.1 out.2
  | .closeVolume v => closeVolumeS a v out.1 out.2
  | .openRoot v => out = openRootF a v
  | .closeDir d => out = closeDirF a d
  | .openDir d name => openDirS a d name out.1 out.2
  | .find d name => findS a d name out.1 out.2
  | .list d => listS a d out.1 out.2
  | .listLfn d _ => listLfnS a d out.1 out.2
  | .openFile d name mode => openFileS a d name mode out.1 out.2
  | .read h n => readS a h n out.1 out.2
  | .write h data => writeS a h data out.1 out.2
  | .seekStart h n => seekStartS a h n out.1 out.2
  | .seekEnd h n => seekEndS a h n out.1 out.2
  | .seekCur h d => seekCurS a h d out.1 out.2
  | .flush h => out = flushF a h
  | .closeFile h => closeFileS a h out.1 out.2
  | .delete d name => deleteS a d name out.1 out.2
  | .mkdir d name => mkdirS a d name out.1 out.2
  | .length h => lengthS a h out.1 out.2
  | .offset h => offsetS a h out.1 out.2
  | .eof h => eofS a h out.1 out.2
  | .hasOpen => out = (a, .ok (.bool (!(a.dirs.isEmpty && a.files.isEmpty))))
  | .label v => labelS a v out.1 out.2

/-- A history: the calls, the answers, the states passed through. -/
def absRun : AbsFs → List Op → List (Res Payload) → AbsFs → Prop
  | a, [], [], a' => a' = a
  | a, op :: ops, r :: rs, a' => ∃ a1, absStep a op (a1, r) ∧ absRun a1 ops rs a'
  | _, _, _, _ => False

end Sdmmc.Spec.AbsFs
