/-
Specification side of C12–C14: an SD memory card in SPI mode, byte-synchronous, written from
the SD Physical Layer Simplified Specification (chapter 7, "SPI Mode"): command frames,
R1 / R1b / R2 / R3 / R7 responses, single and multiple block read and write, data tokens,
data-response tokens, busy signalling, CRC on/off (CMD59), the identification sequence
CMD0 → CMD8 → ACMD41 (→ CMD58).

`step : Card → UInt8 → Card × UInt8` consumes the byte the host clocks out and produces the
byte the card clocks back in the same cycle.  The card also *judges the host*: `violations`
collects everything the host did that the specification does not allow (command while busy,
malformed frame, wrong CRC-7, application command without CMD55, data command before the
identification sequence finished, …) — that is what C14 is stated over.

Timing is a parameter: `ncr` (response delay in bytes, 0..8), `nac` (data-token delay),
`busy` (busy bytes after a write / stop), `initPolls` (ACMD41 polls until ready), `stopGap`
(N_BR: bytes of 0xFF between the stop token of a multiple-block write and the busy signal, 0..1).

The same definition is the card simulator the harness runs the real driver against (through
the model driver's `card` verbs), so there is one description of the card, not two.
-/
import Std.Data.TreeMap
import Sdmmc.Model.Crc

namespace Sdmmc.Spec.Card

open Sdmmc.Model

inductive Kind | SD1 | SD2 | SDHC
  deriving DecidableEq, Repr, Inhabited

abbrev Mem := Std.TreeMap Nat (List UInt8) compare

def zeros512 : List UInt8 := List.replicate 512 0

/-- What the card is doing between command frames. -/
inductive Phase
  /-- nothing pending: answers 0xFF, accepts a command frame -/
  | ready
  /-- receiving a data block after CMD24/CMD25: waiting for the token -/
  | recvToken (multi : Bool) (blockNo : Nat)
  /-- receiving the 512 data bytes and the 2 CRC bytes -/
  | recvData (multi : Bool) (blockNo : Nat) (acc : List UInt8)
  deriving Repr, Inhabited

structure Card where
  kind : Kind
  mem : Mem := {}
  csd : List UInt8 := List.replicate 16 0
  /-- number of blocks the card holds (from the CSD; addresses beyond are refused) -/
  capacity : Nat := 0
  -- timing parameters
  ncr : Nat := 1
  nac : Nat := 2
  busy : Nat := 3
  initPolls : Nat := 2
  -- protocol state
  idle : Bool := true
  /-- CMD0 has been received since power-up / the card is in SPI mode -/
  spiMode : Bool := false
  crcOn : Bool := false
  appCmd : Bool := false
  cmd8Seen : Bool := false
  initLeft : Nat := 0
  initialised : Bool := false
  /-- bytes queued for output (responses, data blocks), sent one per clock -/
  out : List UInt8 := []
  /-- remaining busy bytes (0x00) to send once `out` is empty -/
  busyLeft : Nat := 0
  /-- command frame being received -/
  cmdBuf : List UInt8 := []
  phase : Phase := .ready
  /-- multiple-block read in progress: next block number to queue when `out` drains -/
  streaming : Option Nat := none
  preErase : Nat := 0
  /-- what the host did wrong, newest first -/
  violations : List String := []
  /-- count of commands accepted, for reporting -/
  commands : Nat := 0
  /-- timing parameter N_BR: bytes of 0xFF between the stop token of a multiple-block write and the
  start of the busy signal.  The specification allows 0 or 1.  (CMD12's R1b has no such gap: busy
  follows R1 directly.)  (Last field, so that older positional uses keep working.) -/
  stopGap : Nat := 0
  deriving Inhabited

def getBlock (c : Card) (n : Nat) : List UInt8 := c.mem.getD n zeros512

def crc7Of (bs : List UInt8) : Nat := (crc7 (bs.map fun b => BitVec.ofNat 8 b.toNat)).toNat
def crc16Of (bs : List UInt8) : Nat := (crc16 (bs.map fun b => BitVec.ofNat 8 b.toNat)).toNat

def be32 (bs : List UInt8) : Nat :=
  (bs.getD 0 0).toNat * 16777216 + (bs.getD 1 0).toNat * 65536 + (bs.getD 2 0).toNat * 256 + (bs.getD 3 0).toNat

def r1 (c : Card) : UInt8 := if c.idle then 0x01 else 0x00

def violate (c : Card) (what : String) : Card := { c with violations := what :: c.violations }

/-- Queue a response after the card's response delay. -/
def respond (c : Card) (bytes : List UInt8) : Card :=
  { c with out := List.replicate c.ncr 0xFF ++ bytes }

/-- A data block as sent by the card: access delay, start token, payload, CRC-16. -/
def dataBlock (c : Card) (payload : List UInt8) : List UInt8 :=
  List.replicate c.nac 0xFF ++ [0xFE] ++ payload ++ [UInt8.ofNat (crc16Of payload / 256), UInt8.ofNat (crc16Of payload % 256)]

/-- Block number addressed by a read/write argument. -/
def blockOfArg (c : Card) (arg : Nat) : Option Nat :=
  match c.kind with
  | .SDHC => some arg
  | _ => if arg % 512 = 0 then some (arg / 512) else none

/-- Execute a complete, well-formed command frame. -/
def execCommand (c : Card) (index arg : Nat) : Card :=
  let c := { c with commands := c.commands + 1 }
  let isApp := c.appCmd
  let c := { c with appCmd := false }
  -- any command other than CMD12 ends a pending multi-block read only by violating the protocol
  let c := if c.streaming.isSome ∧ index ≠ 12 then violate { c with streaming := none, out := [] } s!"command {index} during multiple-block read (CMD12 expected)" else c
  let needInit (c : Card) (k : Card → Card) : Card :=
    if !c.initialised then respond (violate c s!"data command {index} before the identification sequence completed") [0x05] else k c
  -- "If a non-application command follows CMD55 it is executed as a regular command"
  if isApp ∧ (index = 41 ∨ index = 23) then
    match index with
    | 41 =>
      if !c.spiMode then respond (violate c "ACMD41 before CMD0") [0x05] else
      -- a high-capacity card only initialises when the host announces HCS (after CMD8)
      let hcsOk := c.kind ≠ .SDHC ∨ (arg / 1073741824 % 2 = 1 ∧ c.cmd8Seen)
      if !hcsOk then respond c [0x01]
      else if c.initLeft = 0 then respond { c with idle := false, initialised := true } [0x00]
      else respond { c with initLeft := c.initLeft - 1 } [0x01]
    | 23 => needInit c fun c => respond { c with preErase := arg } [r1 c]
    | _ => respond (violate c s!"unknown application command {index}") [UInt8.ofNat (0x04 + (r1 c).toNat)]
  else
    match index with
    | 0 => respond { c with idle := true, spiMode := true, crcOn := false, initialised := false, cmd8Seen := false,
                            initLeft := c.initPolls, phase := .ready, streaming := none, busyLeft := 0 } [0x01]
    | 8 =>
      if !c.spiMode then respond (violate c "CMD8 before CMD0") [0x05] else
      match c.kind with
      | .SD1 => respond c [0x05]
      | _ => respond { c with cmd8Seen := true } [r1 c, 0x00, 0x00, UInt8.ofNat (arg / 256 % 16), UInt8.ofNat (arg % 256)]
    | 59 => respond { c with crcOn := arg % 2 = 1 } [r1 c]
    | 55 => respond { c with appCmd := true } [r1 c]
    | 41 => respond (violate c "ACMD41 without the CMD55 prefix") [UInt8.ofNat (0x04 + (r1 c).toNat)]
    | 23 => respond (violate c "ACMD23 without the CMD55 prefix") [UInt8.ofNat (0x04 + (r1 c).toNat)]
    | 58 =>
      let ccs : Nat := if c.kind = .SDHC then 0x40 else 0
      let pwr : Nat := if c.initialised then 0x80 else 0
      respond c [r1 c, UInt8.ofNat (pwr + ccs), 0xFF, 0x80, 0x00]
    | 9 => needInit c fun c => { c with out := List.replicate c.ncr 0xFF ++ [0x00] ++ dataBlock c c.csd }
    | 13 => needInit c fun c => respond c [r1 c, 0x00]
    | 17 => needInit c fun c =>
      match blockOfArg c arg with
      | some n => if n < c.capacity then { c with out := List.replicate c.ncr 0xFF ++ [0x00] ++ dataBlock c (getBlock c n) }
                  else respond c [0x40]      -- parameter error (address out of range)
      | none => respond c [0x20]             -- address error (misaligned)
    | 18 => needInit c fun c =>
      match blockOfArg c arg with
      | some n => if n < c.capacity then { c with out := List.replicate c.ncr 0xFF ++ [0x00] ++ dataBlock c (getBlock c n), streaming := some (n + 1) }
                  else respond c [0x40]
      | none => respond c [0x20]
    | 12 =>
      -- R1b: one stuff byte, then R1, then busy
      { c with streaming := none, out := [0xFF] ++ List.replicate c.ncr 0xFF ++ [r1 c], busyLeft := c.busy }
    | 24 => needInit c fun c =>
      match blockOfArg c arg with
      | some n => if n < c.capacity then { respond c [0x00] with phase := .recvToken false n } else respond c [0x40]
      | none => respond c [0x20]
    | 25 => needInit c fun c =>
      match blockOfArg c arg with
      | some n => if n < c.capacity then { respond c [0x00] with phase := .recvToken true n } else respond c [0x40]
      | none => respond c [0x20]
    | _ => respond (violate c s!"unsupported command {index}") [UInt8.ofNat (0x04 + (r1 c).toNat)]

/-- A command frame has been received completely: check it and execute it. -/
def frameDone (c : Card) (f : List UInt8) : Card :=
  let first := (f.getD 0 0).toNat
  let index := first % 64
  let arg := be32 (f.drop 1)
  let last := (f.getD 5 0).toNat
  let c := if last % 2 = 1 then c else violate c s!"frame of command {index} has no end bit"
  let crcGood := crc7Of (f.take 5) = last
  let c := if crcGood then c else violate c s!"frame of command {index} has a wrong CRC-7"
  -- the card itself only rejects a bad CRC when checking is on, or for CMD0 / CMD8 (always checked)
  if !crcGood ∧ (c.crcOn ∨ index = 0 ∨ index = 8) then respond c [UInt8.ofNat (0x08 + (r1 c).toNat)]
  else execCommand c index arg

/-- One clock of eight bits: the host's byte in, the card's byte out. -/
def step (c : Card) (x : UInt8) : Card × UInt8 :=
  -- what the card drives during this byte is decided before it sees the host's byte
  let busyNow : Bool := c.out.isEmpty && c.busyLeft > 0
  let (c, y) : Card × UInt8 :=
    match c.out with
    | b :: rest =>
      let c := { c with out := rest }
      -- keep a multiple-block read flowing
      let c := match rest, c.streaming with
        | [], some n => if n < c.capacity then { c with out := dataBlock c (getBlock c n), streaming := some (n + 1) } else { c with streaming := none }
        | _, _ => c
      (c, b)
    | [] => if c.busyLeft > 0 then ({ c with busyLeft := c.busyLeft - 1 }, 0x00) else (c, 0xFF)
  -- now the host's byte
  match c.cmdBuf with
  | _ :: _ =>
    let f := c.cmdBuf ++ [x]
    if f.length = 6 then (frameDone { c with cmdBuf := [] } f, y) else ({ c with cmdBuf := f }, y)
  | [] =>
    match c.phase with
    | .recvToken multi n =>
      if x = 0xFF then (c, y)
      else if x = 0xFE ∧ !multi then ({ c with phase := .recvData multi n [] }, y)
      else if x = 0xFC ∧ multi then ({ c with phase := .recvData multi n [] }, y)
      else if x = 0xFD ∧ multi then
        -- stop token: after `stopGap` bytes of 0xFF the card signals busy (programming)
        ({ c with phase := .ready, busyLeft := c.busy, out := List.replicate c.stopGap 0xFF }, y)
      else if x.toNat / 64 = 1 then
        -- a command frame instead of data: allowed only as CMD12/CMD0-style abort; otherwise a violation
        ({ violate c "command frame while the card waits for a data token" with phase := .ready, cmdBuf := [x] }, y)
      else (violate { c with phase := .ready } s!"unexpected data token {x.toNat}", y)
    | .recvData multi n acc =>
      let acc := acc ++ [x]
      if acc.length < 514 then ({ c with phase := .recvData multi n acc }, y)
      else
        let payload := acc.take 512
        let crc := (acc.getD 512 0).toNat * 256 + (acc.getD 513 0).toNat
        let next : Phase := if multi then .recvToken true (n + 1) else .ready
        if c.crcOn ∧ crc ≠ crc16Of payload then
          -- data response: CRC error; nothing is stored
          ({ c with phase := next, out := [0x0B], busyLeft := c.busy }, y)
        else if n < c.capacity then
          ({ c with phase := next, mem := c.mem.insert n payload, out := [0x05], busyLeft := c.busy }, y)
        else ({ c with phase := next, out := [0x0D], busyLeft := c.busy }, y)
    | .ready =>
      if x.toNat / 64 = 1 then
        -- start of a command frame ("01" start and transmission bits)
        let index := x.toNat % 64
        let c := if busyNow ∧ index ≠ 0 ∧ index ≠ 12 then violate c s!"command {index} sent while the card signals busy" else c
        let c := if !c.out.isEmpty ∧ c.streaming.isNone ∧ index ≠ 0 ∧ index ≠ 12 then violate c s!"command {index} sent while the card is still answering" else c
        ({ c with cmdBuf := [x] }, y)
      else if x = 0xFF then (c, y)
      else (violate c s!"stray byte {x.toNat} outside any frame", y)

/-- Feed a sequence of host bytes; the card's bytes come back in the same order. -/
def run (c : Card) : List UInt8 → Card × List UInt8
  | [] => (c, [])
  | x :: xs =>
    let (c', y) := step c x
    let (c'', ys) := run c' xs
    (c'', y :: ys)

/-- A CSD register (version 1 layout) for a standard-capacity card of `blocks` 512-byte blocks:
READ_BL_LEN = 9, C_SIZE_MULT = `mult`, C_SIZE = blocks / 2^(mult+2) - 1. -/
def csdV1 (cSize mult : Nat) : List UInt8 :=
  let b : Nat → UInt8 := UInt8.ofNat
  [b 0x00, b 0x26, b 0x00, b 0x32, b 0x5F, b 0x59,
   b (0x80 + cSize / 1024 % 4), b (cSize / 4 % 256), b (cSize % 4 * 64 + 0x2D), b (0xD8 + mult / 2 % 4),
   b (mult % 2 * 128 + 0x4F), b 0xFF, b 0xD2, b 0x40, b 0x40, b 0x01]

/-- A CSD register (version 2 layout) for a high-capacity card: capacity = (C_SIZE + 1) * 1024 blocks. -/
def csdV2 (cSize : Nat) : List UInt8 :=
  let b : Nat → UInt8 := UInt8.ofNat
  [b 0x40, b 0x0E, b 0x00, b 0x32, b 0x5B, b 0x59, b 0x00,
   b (cSize / 65536 % 64), b (cSize / 256 % 256), b (cSize % 256), b 0x7F, b 0x80, b 0x0A, b 0x40, b 0x00, b 0x01]

/-- Capacity in blocks encoded by a CSD register, for its own register layout (CSD_STRUCTURE in
bits 127:126): the specification's formulas. -/
def capacityOfCsd (csd : List UInt8) : Nat :=
  let byte (i : Nat) : Nat := (csd.getD i 0).toNat
  if byte 0 / 64 = 0 then
    -- version 1: C_SIZE = bits 73:62, C_SIZE_MULT = bits 49:47, READ_BL_LEN = bits 83:80
    let cSize := byte 6 % 4 * 1024 + byte 7 * 4 + byte 8 / 64
    let mult := byte 9 % 4 * 2 + byte 10 / 128
    let blLen := byte 5 % 16
    (cSize + 1) * 2 ^ (mult + 2) * 2 ^ blLen / 512
  else
    -- version 2: C_SIZE = bits 69:48
    let cSize := byte 7 % 64 * 65536 + byte 8 * 256 + byte 9
    (cSize + 1) * 1024

/-- A fresh card of the given kind holding `csd`, with the given timing (`stopGap` optional: 0). -/
def mk (kind : Kind) (csd : List UInt8) (ncr nac busy initPolls : Nat) (stopGap : Nat := 0) : Card :=
  { kind, csd, capacity := capacityOfCsd csd, ncr, nac, busy, initPolls, stopGap }

end Sdmmc.Spec.Card
