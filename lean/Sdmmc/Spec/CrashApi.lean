/-
Specification vocabulary for the crash-prefix theorems at the API level (`Props/C09CrashApi.lean`): the
device writes between two states of the volume manager.

Nothing is proved here.
-/
import Sdmmc.Spec.Crash
import Sdmmc.Spec.DataPlane

namespace Sdmmc.Spec

open Sdmmc.Model Sdmmc.Model.Fat

/-- The device writes `(block, payload)` issued between the manager states `before` and `after` of one
API call (or a history of calls), OLDEST first. -/
def newWritesM (before after : Mgr) : List (Nat × Block) :=
  (after.dev.wlog.take (after.dev.wlog.length - before.dev.wlog.length)).reverse

/-- A history of `write` calls `(handle, data)`: the manager state after all of them. -/
def runWrites (s : Mgr) (ws : List (Nat × Bytes)) : Mgr := ws.foldl (fun s w => (write w.1 w.2 s).2) s

end Sdmmc.Spec
