/-
The geometry hypothesis of the file-system theorems: what a mounted volume record must satisfy
for the FAT engine's block arithmetic to stay inside the volume.  `Props/C15.lean`
(`wfgeom_of_layout`) shows that mounting a well-formed boot sector whose FAT is large enough
establishes it.
-/
import Sdmmc.Model.Fat

namespace Sdmmc.Spec

open Sdmmc.Model Sdmmc.Model.Fat

/-- Number of blocks of one FAT copy that hold entries of clusters `0 .. endCluster-1`. -/
def fatBlocksUsed (v : FatVolume) : Nat := (endCluster v * entryWidth v.fatType + 511) / 512

/-- First block (relative) after the last FAT copy's used part. -/
def fatsEnd (v : FatVolume) : Nat :=
  match v.secondFatStart with
  | some s => s + fatBlocksUsed v
  | none => v.fatStart + fatBlocksUsed v

structure WFGeom (v : FatVolume) : Prop where
  bpc_pos : 0 < v.blocksPerCluster
  /-- the boot sector precedes the FAT -/
  fat_after_boot : 1 ≤ v.fatStart
  /-- FAT copy 2 (if any) starts after the used part of copy 1 -/
  second_after_first : ∀ s, v.secondFatStart = some s → v.fatStart + fatBlocksUsed v ≤ s
  /-- FAT16: the FATs end before the fixed root directory, which ends before the data area -/
  root16 : v.fatType = .fat16 →
    fatsEnd v ≤ v.firstRootDirBlock ∧
    v.firstRootDirBlock + blockCountFromBytes (v.rootEntriesCount * Gen.DIRENT_LEN) ≤ v.firstDataBlock
  /-- FAT32: the FATs end before the data area; the info sector sits between boot sector and FAT;
  the root directory starts at a data cluster -/
  root32 : v.fatType = .fat32 →
    fatsEnd v ≤ v.firstDataBlock ∧ v.lbaStart < v.infoLocation ∧ v.infoLocation < v.lbaStart + v.fatStart ∧
    2 ≤ v.firstRootDirCluster ∧ v.firstRootDirCluster < endCluster v
  /-- the data area fits the partition -/
  data_fits : v.firstDataBlock + v.clusterCount * v.blocksPerCluster ≤ v.numBlocks
  /-- cluster numbers stay below the reserved values of the FAT type -/
  count_bound : match v.fatType with | .fat16 => endCluster v ≤ 0xFFF7 | .fat32 => endCluster v ≤ 0x0FFFFFF7

/-- What kind of block an absolute index is, for a given volume. -/
inductive Region | outside | boot | reserved | info | fat | root | data | tail
  deriving DecidableEq, Repr

def regionOf (v : FatVolume) (idx : Nat) : Region :=
  if idx < v.lbaStart ∨ v.lbaStart + v.numBlocks ≤ idx then .outside
  else if idx = v.lbaStart then .boot
  else if v.fatType = .fat32 ∧ idx = v.infoLocation then .info
  else if idx < v.lbaStart + v.fatStart then .reserved
  else if idx < v.lbaStart + fatsEnd v then .fat
  else if idx < v.lbaStart + v.firstDataBlock then (if v.fatType = .fat16 ∧ v.lbaStart + v.firstRootDirBlock ≤ idx then .root else .reserved)
  else if idx < v.lbaStart + v.firstDataBlock + v.clusterCount * v.blocksPerCluster then .data
  else .tail

end Sdmmc.Spec
