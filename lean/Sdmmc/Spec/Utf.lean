/-
Specification side of C17: lossy UTF-16 decoding (Unicode standard, section 3.9: an unpaired
surrogate is replaced by U+FFFD) and UTF-8 well-formedness (RFC 3629 / Unicode Table 3-7),
written independently of the model.
-/
namespace Sdmmc.Spec.Utf

def isHigh (u : Nat) : Bool := 0xD800 ≤ u && u ≤ 0xDBFF
def isLow (u : Nat) : Bool := 0xDC00 ≤ u && u ≤ 0xDFFF

/-- `String::from_utf16_lossy` as a list of scalar values. -/
def decodeUtf16Lossy : List Nat → List Nat
  | [] => []
  | [u] => if isHigh u || isLow u then [0xFFFD] else [u]
  | u :: v :: rest =>
    if isHigh u && isLow v then (0x10000 + (u - 0xD800) * 0x400 + (v - 0xDC00)) :: decodeUtf16Lossy rest
    else if isHigh u || isLow u then 0xFFFD :: decodeUtf16Lossy (v :: rest)
    else u :: decodeUtf16Lossy (v :: rest)
termination_by l => l.length

/-- A Unicode scalar value. -/
def isScalar (c : Nat) : Bool := c < 0xD800 || (0xE000 ≤ c && c < 0x110000)

/-- RFC 3629 encoder. -/
def encodeScalar (c : Nat) : List UInt8 :=
  if c < 0x80 then [UInt8.ofNat c]
  else if c < 0x800 then [UInt8.ofNat (0xC0 + c / 64), UInt8.ofNat (0x80 + c % 64)]
  else if c < 0x10000 then [UInt8.ofNat (0xE0 + c / 4096), UInt8.ofNat (0x80 + c / 64 % 64), UInt8.ofNat (0x80 + c % 64)]
  else [UInt8.ofNat (0xF0 + c / 262144), UInt8.ofNat (0x80 + c / 4096 % 64), UInt8.ofNat (0x80 + c / 64 % 64), UInt8.ofNat (0x80 + c % 64)]

def encodeUtf8 (cs : List Nat) : List UInt8 := cs.flatMap encodeScalar

/-- Well-formed UTF-8: the byte string is the encoding of some sequence of scalar values
(shortest form, no surrogates, at most U+10FFFF). -/
def ValidUtf8 (bs : List UInt8) : Prop := ∃ cs : List Nat, (∀ c ∈ cs, isScalar c = true) ∧ bs = encodeUtf8 cs

end Sdmmc.Spec.Utf
