/-
The one directory slot a call of the abstract file system may change (`touched`), for the statement
"everything else is unchanged" of `Sdmmc.Props.C01Fs`.  Nothing is proved here.
-/
import Sdmmc.Spec.AbsFs

namespace Sdmmc.Spec.AbsFs
open Sdmmc.Model

/-- The slot a name designates in the directory behind handle `d`: where it is found, else where it would go. -/
def nameSlot (a : AbsFs) (d : Nat) (name : List Nat) : Option (Nat × Nat) :=
  match dirCtx a d name with
  | .ok (od, sfn) => some (od.dir, (lookup (a.slots od.dir) sfn).getD (freeIdx (a.slots od.dir)))
  | .error _ => none

/-- The slot file handle `h` refers to. -/
def handleSlot (a : AbsFs) (h : Nat) : Option (Nat × Nat) := (fileOf a h).map fun p => (p.2.dir, p.2.idx)

/-- The only slot (directory number, index) of the existing directories the call may change. -/
def touched (a : AbsFs) : Op → Option (Nat × Nat)
  | .write h _ => handleSlot a h
  | .flush h => handleSlot a h
  | .closeFile h => handleSlot a h
  | .openFile d name _ => nameSlot a d name
  | .delete d name => nameSlot a d name
  | .mkdir d name => nameSlot a d name
  | _ => none

end Sdmmc.Spec.AbsFs
