/-
Specification vocabulary for C10 over WHOLE API CALLS on the whole volume (`Sdmmc.Props.C10Inv`):
the crash-consistency invariant `CrashInv v d gh` of a MEDIUM — no manager tables, no open files.

C10: "If the device stops accepting writes after any block write of any operation, the medium mounts,
and no live directory entry or chain refers to a free, bad or out-of-range cluster, no two chains share
a cluster, no chain is cyclic, no directory exposes uninitialised cluster contents as entries, and no
sub-directory entry lacks its own cluster.  Space that is allocated but not yet referenced, and a size
not yet updated, are the only permitted residue."

`CrashInv v d gh` is `MedInv v d [] gh` of `Sdmmc.Spec.Volume` (the invariant of C03 without open
files) weakened by EXACTLY the permitted residue:

* `Owns` (every cluster in use lies in a chain of `gh.G`) is replaced by `OwnsLoose`
  (`Sdmmc.Spec.Crash`): every list of `gh.G` is the chain of its first cluster — in range, acyclic,
  end-of-chain terminated, through no free / bad / reserved entry —, no cluster lies in two chains, every
  cluster of a chain is in use.  Clusters in use that lie in NO chain of `gh.G` ("lost clusters": space
  allocated but not yet — or no longer — referenced) are permitted;
* the clause `sizes` of `TreeOK` is dropped: the size stored in a file entry may be stale in BOTH
  directions (smaller than what the chain holds after an unflushed write; larger than the capacity of
  the chain between the cut and the slot write of truncate-on-open);
* everything else is kept (`TreeLoose`): nothing follows an end-of-directory marker, names are unique
  per directory, every sub-directory starts with its `.` and `..` entries, every sub-directory entry names
  a sub-directory of the ghost (whose chain is in `gh.G`: it has its own cluster), every sub-directory
  is named exactly once and is reachable from the root, and the chains of `gh.G` are ONE TO ONE the
  FAT32 root, the sub-directories and what the file entries of the medium name (raw on-disk fields: there
  are no open files) — no chain is named twice, every reference is the first cluster of a chain.
  (A chain that no entry names is therefore not in `gh.G`; its clusters are lost clusters.)

`RawOK ft d files` is the additional clause the invariant of API histories needs for this: the on-disk
slot of every open file names no cluster at all or the first cluster the open file's record names.
(`VolInv` alone does not constrain the on-disk fields of the slot of a modified open file.)
`VolInvC s gh` = `VolInv s gh` ∧ the FAT copies agree (`Mirror`, the invariant `VolInvM` of C04) ∧ `RawOK …`.

`FatEntriesOK v d`: every FAT entry (copy 1) of a data cluster is free, a bad mark, an end-of-chain mark
or a link to a data cluster — also those of lost clusters.

Nothing is proved here.
-/
import Sdmmc.Spec.Volume
import Sdmmc.Spec.Crash

namespace Sdmmc.Spec.Volume

open Sdmmc.Model Sdmmc.Model.Fat Sdmmc.Spec

/-! ### The directory tree of a crashed medium -/

/-- `TreeOK` (of `Sdmmc.Spec.Volume`) without open files and without the clause `sizes`.  `ft` FAT type,
`root` the FAT32 root cluster (if any), `G` the chains, `dirs` the sub-directories `(first cluster,
parent id)`, `slots h` the slot list of directory `h`. -/
structure TreeLoose (ft : FatType) (root : List Nat) (G : List (List Nat)) (dirs : List (Nat × Nat))
    (slots : Nat → List Slot) : Prop where
  /-- no entry follows the end-of-directory marker (no directory exposes what lies behind it) -/
  cleanTail : ∀ h, h ∈ dirIds dirs → CleanTail (slots h)
  /-- the names of the live short entries of a directory are distinct -/
  names : ∀ h, h ∈ dirIds dirs → ((entries (slots h)).map sName).Nodup
  /-- every sub-directory's parent is the root or an earlier sub-directory: all are reachable from the root -/
  order : ∀ i h p, dirs[i]? = some (h, p) → p = 0 ∨ p ∈ (dirs.take i).map Prod.fst
  /-- a sub-directory starts with `.` (its own first cluster) and `..` (its parent's, 0 for the root) -/
  dots : ∀ h p, (h, p) ∈ dirs → ∃ s0 s1 rest, slots h = s0 :: s1 :: rest ∧
    IsDot ft Sfn.thisDir h s0 ∧ IsDot ft Sfn.parentDir p s1
  /-- a sub-directory entry found in directory `h` names a sub-directory whose parent is `h` -/
  subdirs : ∀ h, h ∈ dirIds dirs → ∀ o, o ∈ objects h (slots h) → isDirE o = true → (sCluster ft o, h) ∈ dirs
  /-- every sub-directory is named by exactly one sub-directory entry -/
  dirRefs : List.Perm ((dirIds dirs).flatMap fun h => subdirRefs ft (objects h (slots h))) (dirs.map Prod.fst)
  /-- the chains are, one to one: the FAT32 root, the sub-directories, and what the file entries name (the
  raw on-disk cluster fields; entries without a cluster omitted) -/
  allRefs : List.Perm
    (root ++ dirs.map Prod.fst ++ (dirIds dirs).flatMap fun h => fileRefs ft [] (objects h (slots h)))
    (G.map fun cs => cs.headD 0)

/-! ### The medium -/

/-- The volume `v` on the medium `d` is crash-consistent: structurally sound up to lost clusters and
stale sizes.  (`gh.vol` is not used.) -/
structure CrashInv (v : FatVolume) (d : Disk) (gh : Ghost) : Prop where
  blocksOK : BlocksOK d
  geom : WFGeom v
  /-- every list of `gh.G` is the chain of its first cluster, no cluster lies in two chains (or twice in
  one), every cluster of a chain is in use; lost clusters are permitted -/
  owns : OwnsLoose v d gh.G
  tree : TreeLoose v.fatType (rootHead v) gh.G gh.dirs (dirSlots v d gh.G)

/-- Every FAT entry (copy 1) of a data cluster is free, a bad mark, an end-of-chain mark or a link to a
data cluster. -/
def FatEntriesOK (v : FatVolume) (d : Disk) : Prop :=
  ∀ c, InRange v c → isFree v d c ∨ isBad v d c ∨ nextOf v d c = .err .EndOfFile ∨ ∃ n, nextOf v d c = .ok n ∧ InRange v n

/-! ### The manager -/

/-- The 32 bytes at byte offset `off` of block `b`, as a slot. -/
def slotAt (d : Disk) (b off : Nat) : Slot := (b, off, ((d.get b).drop off).take 32)

/-- The on-disk slot of every open file names no cluster, or the cluster the open file's record names. -/
def RawOK (ft : FatType) (d : Disk) (files : List FileInfo) : Prop :=
  ∀ f, f ∈ files → sCluster ft (slotAt d f.entry.entryBlock f.entry.entryOffset) = 0 ∨
    sCluster ft (slotAt d f.entry.entryBlock f.entry.entryOffset) = f.entry.cluster

/-- The invariant of API histories (`VolInv`) together with identical FAT copies and `RawOK`: what makes the
medium crash-consistent between calls and keeps it so inside them. -/
structure VolInvC (s : Mgr) (gh : Ghost) : Prop where
  inv : VolInv s gh
  mirror : Mirror gh.vol s.dev.disk
  raw : RawOK gh.vol.fatType s.dev.disk s.files

end Sdmmc.Spec.Volume
