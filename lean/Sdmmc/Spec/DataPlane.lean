/-
Specification vocabulary for the write side of C01 (`Sdmmc.Props.C01Write`):

* which blocks of the medium a write to a file may touch (`IsFatBlock`, `IsClusterBlock`), the list
  of owned chains with the chain of one file spliced in (`withChain`), "the volume is full" (`Full`);
* the abstract data plane: one `ByteFile` per open-file slot, and what each data-plane call of the
  API (`read`, `write`, the three seeks, `length`, `offset`, `eof`) may answer and do to it
  (`DataPlane.Allowed`).

Nothing is proved here.
-/
import Sdmmc.Spec.Forest

namespace Sdmmc.Spec

open Sdmmc.Model Sdmmc.Model.Fat

/-- `b` holds FAT entries of clusters of the volume (in either copy of the FAT). -/
def IsFatBlock (v : FatVolume) (b : Nat) : Prop :=
  ∃ c, c < endCluster v ∧ (b = fatBlock v c ∨ fatBlock2 v c = some b)

/-- `b` is a block of one of the clusters `cs`. -/
def IsClusterBlock (v : FatVolume) (cs : List Nat) (b : Nat) : Prop :=
  ∃ c, c ∈ cs ∧ clusterToBlock v c ≤ b ∧ b < clusterToBlock v c + v.blocksPerCluster

/-- The owned chains `A ++ B` with the chain of one more file in between — unless that file is
empty and owns no cluster. -/
def withChain (A : List (List Nat)) (cs : List Nat) (B : List (List Nat)) : List (List Nat) :=
  A ++ (if cs = [] then [] else [cs]) ++ B

/-- No data cluster of the volume is free. -/
def Full (v : FatVolume) (d : Disk) : Prop := ∀ c, InRange v c → ¬ isFree v d c

/-- The block range of the partition a volume lives in. -/
def InPartition (v : FatVolume) (b : Nat) : Prop := v.lbaStart ≤ b ∧ b < v.lbaStart + v.numBlocks

/-! ### The abstract data plane -/

namespace DataPlane

/-- One open file as the user sees it: its handle and its byte array with a position. -/
structure AFile where
  handle : Nat
  readOnly : Bool
  file : ByteFile

/-- The abstract state: the open files, in slot order. -/
abbrev AState := List AFile

/-- The slot a handle names: the first one carrying it. -/
def slotOf (st : AState) (h : Nat) : Option Nat := st.findIdx? (·.handle = h)

/-- The largest file the library writes. -/
def maxFileSize : Nat := 4294967295

/-- `seek_from_current` with an `i32` offset. -/
def seekCur (bf : ByteFile) (d : Int) : Option ByteFile :=
  let n : Int := (bf.pos : Int) + d
  if n < 0 ∨ n > (bf.bytes.length : Int) then none else some { bf with pos := n.toNat }

/-- What a data-plane call may answer (`r`) and the abstract state it may leave (`st'`).

A handle that names no open file is answered `BadHandle` and changes nothing.  `read`, the seeks and
the observers are deterministic.  A `write` of `data` either stores all of it and answers `Ok`, or
stores a proper prefix `data.take k` and answers `DiskFull` (the volume ran out of clusters, or the
file reached the largest size the library writes), or stores nothing and answers `NotEnoughSpace`
(not even the first cluster of an empty file could be had); on a read-only file it answers
`ReadOnly` and changes nothing. -/
def Allowed (st : AState) : Op → Res Payload → AState → Prop
  | .read h n, r, st' =>
    match slotOf st h with
    | none => r = .err .BadHandle ∧ st' = st
    | some i => ∃ a, st[i]? = some a ∧ r = .ok (.bytes (a.file.read n).1) ∧ st' = st.set i { a with file := (a.file.read n).2 }
  | .write h data, r, st' =>
    match slotOf st h with
    | none => r = .err .BadHandle ∧ st' = st
    | some i => ∃ a, st[i]? = some a ∧
      if a.readOnly then r = .err .ReadOnly ∧ st' = st
      else ∃ k, k ≤ data.length ∧ st' = st.set i { a with file := a.file.write (data.take k) } ∧
        ((r = .ok .unit ∧ k = data.length) ∨ (r = .err .DiskFull ∧ k < data.length) ∨ (r = .err .NotEnoughSpace ∧ k = 0))
  | .seekStart h n, r, st' =>
    match slotOf st h with
    | none => r = .err .BadHandle ∧ st' = st
    | some i => ∃ a, st[i]? = some a ∧
      if n ≤ a.file.bytes.length then r = .ok .unit ∧ st' = st.set i { a with file := { a.file with pos := n } }
      else r = .err .InvalidOffset ∧ st' = st
  | .seekEnd h n, r, st' =>
    match slotOf st h with
    | none => r = .err .BadHandle ∧ st' = st
    | some i => ∃ a, st[i]? = some a ∧
      if n ≤ a.file.bytes.length then
        r = .ok .unit ∧ st' = st.set i { a with file := { a.file with pos := a.file.bytes.length - n } }
      else r = .err .InvalidOffset ∧ st' = st
  | .seekCur h d, r, st' =>
    match slotOf st h with
    | none => r = .err .BadHandle ∧ st' = st
    | some i => ∃ a, st[i]? = some a ∧
      match seekCur a.file d with
      | some bf => r = .ok .unit ∧ st' = st.set i { a with file := bf }
      | none => r = .err .InvalidOffset ∧ st' = st
  | .length h, r, st' =>
    match slotOf st h with
    | none => r = .err .BadHandle ∧ st' = st
    | some i => ∃ a, st[i]? = some a ∧ r = .ok (.num a.file.length) ∧ st' = st
  | .offset h, r, st' =>
    match slotOf st h with
    | none => r = .err .BadHandle ∧ st' = st
    | some i => ∃ a, st[i]? = some a ∧ r = .ok (.num a.file.pos) ∧ st' = st
  | .eof h, r, st' =>
    match slotOf st h with
    | none => r = .err .BadHandle ∧ st' = st
    | some i => ∃ a, st[i]? = some a ∧ r = .ok (.bool a.file.eof) ∧ st' = st
  | _, _, _ => False

/-- The calls of the data plane. -/
def IsDataOp : Op → Prop
  | .read _ _ | .write _ _ | .seekStart _ _ | .seekEnd _ _ | .seekCur _ _ | .length _ | .offset _ | .eof _ => True
  | _ => False

instance (op : Op) : Decidable (IsDataOp op) := by
  cases op <;> unfold IsDataOp <;> infer_instance

/-- A history of data-plane calls is allowed: the answers, one by one, are allowed answers and lead
from `st` to `st'`. -/
def AllowedRun : AState → List Op → List (Res Payload) → AState → Prop
  | st, [], [], st' => st' = st
  | st, op :: ops, r :: rs, st' => ∃ st1, Allowed st op r st1 ∧ AllowedRun st1 ops rs st'
  | _, _, _, _ => False

/-! ### The abstraction and the invariant (one open volume) -/

/-- The record of the volume of a manager with one open volume. -/
def theVol (s : Mgr) : FatVolume := (s.vols.headD default).vol

/-- The abstract state of a manager whose open files have the chains `chains` (slot by slot). -/
def absOf (s : Mgr) (chains : List (List Nat)) : AState :=
  List.zipWith (fun f cs => { handle := f.rawFile, readOnly := decide (f.mode = .ReadOnly),
                              file := absFile (theVol s) s.dev.disk f cs }) s.files chains

/-- The invariant of data-plane histories on a manager with exactly one open volume.  `chains` are
the cluster chains of the open files, slot by slot (`[]` for an empty file that owns no cluster);
`rest` are all the other chains of the volume (directories, closed files).  No device fault is
scheduled, the cache is coherent, blocks have 512 bytes, no directory callback is running; the
geometry is sane; the non-empty chains of the open files together with `rest` are exactly the chains
of the volume, each cluster in one place (so distinct open files own disjoint chains); every open
file belongs to the volume and is consistent with the medium. -/
structure DataInv (s : Mgr) (chains rest : List (List Nat)) : Prop where
  noFault : s.dev.faults = []
  coherent : ∀ i, s.cache.tag = some i → s.cache.blk = s.dev.disk.get i
  blocksOK : ∀ i, (s.dev.disk.get i).length = 512
  unlocked : s.locked = false
  oneVol : ∃ v, s.vols = [v]
  geom : WFGeom (theVol s)
  hint : HintOK (theVol s)
  owns : Owns (theVol s) s.dev.disk (chains.filter (fun cs => !cs.isEmpty) ++ rest)
  len : chains.length = s.files.length
  files : ∀ (j : Nat) (f : FileInfo) (cs : List Nat), s.files[j]? = some f → chains[j]? = some cs →
    f.rawVolume = (s.vols.headD default).rawVolume ∧ FileOK (theVol s) s.dev.disk f cs ∧ (cs = [] → f.curCluster < 2)

end DataPlane

end Sdmmc.Spec
