/-
Vocabulary of the bridge theorem `Sdmmc.Props.C03Inv.fsck_ok` — "on a state satisfying the volume invariant the
independent structure checker `Spec.Fs.fsck` reports no problem": how the checker's geometry relates to the volume
record (`GeomOf`), the pending list handed to the checker (`pendingOf`), and the two extra hypotheses (H1) `NoOne`,
(H2) `DepthOK`.  Definitions only; nothing is proved here.
-/
import Sdmmc.Spec.Volume
import Sdmmc.Spec.Fs

namespace Sdmmc.Spec.Volume
open Sdmmc.Model Sdmmc.Model.Fat Sdmmc.Spec

/-- The checker's geometry `g` (absolute block numbers) describes the volume record `v`.  Only the fields the
checker `fsck` reads are constrained (`total`, `fatSize`, `nFats`, `infoBlock` are read by other verbs only;
`loadFat` reads the blocks `fatStart + i` of FAT copy 1 and needs no FAT size). -/
structure GeomOf (v : FatVolume) (g : Fs.Geom) : Prop where
  fat32 : g.fat32 = true ↔ v.fatType = .fat32
  lba : g.lba = v.lbaStart
  bpc : g.bpc = v.blocksPerCluster
  /-- absolute, as `Fat.fatBlock` -/
  fatStart : g.fatStart = v.lbaStart + v.fatStart
  rootStart : g.rootStart = v.lbaStart + v.firstRootDirBlock
  rootBlocks : g.rootBlocks = blockCountFromBytes (v.rootEntriesCount * 32)
  /-- absolute, as `Fat.clusterToBlock` -/
  firstData : g.firstData = v.lbaStart + v.firstDataBlock
  clusters : g.clusters = v.clusterCount
  rootCluster : g.rootCluster = v.firstRootDirCluster

/-- The geometry of a volume record, as the checker wants it (`fatSize`, `nFats` are not recorded in the volume
record; `fsck` does not read them). -/
def geomOfVol (v : FatVolume) : Fs.Geom :=
  { fat32 := decide (v.fatType = .fat32), lba := v.lbaStart, total := v.numBlocks, bpc := v.blocksPerCluster,
    fatStart := v.lbaStart + v.fatStart, fatSize := 0, nFats := 0,
    rootStart := v.lbaStart + v.firstRootDirBlock, rootBlocks := blockCountFromBytes (v.rootEntriesCount * 32),
    firstData := v.lbaStart + v.firstDataBlock, clusters := v.clusterCount, rootCluster := v.firstRootDirCluster,
    infoBlock := v.infoLocation }

/-- The pending state of the open files, as the driver hands it to the checker (`fsck live`). -/
def pendingOf (s : Mgr) : List Fs.Pending :=
  s.files.map fun f => { blk := f.entry.entryBlock, off := f.entry.entryOffset, cluster := f.entry.cluster, size := f.entry.size }

/-- **(H1)** On FAT32 no data cluster carries the FAT entry `1`.

Why it is needed: the crate's `next_cluster` (`Fat.decodeNext`) reads the FAT32 entry `1` as END OF CHAIN
(`f = 1 ∨ f ≥ 0x0FFFFFF8`), so `Chain` — hence `VolInv` — holds for a chain whose last cluster carries the entry `1`,
while the checker's walk (`Fs.chainAux`) reports `chain-through-reserved` for it.  The crate never writes `1`.
It cannot be dropped: `Lemmas.VolFsck.h1_needed` (module `VolFsck9`) evaluates a FAT32 volume satisfying `VolInv` on which `fsck` complains.
On FAT16 nothing is needed (`decodeNext .fat16` answers `.ok 1`, and `Chain` then demands `InRange 1`). -/
def NoOne (v : FatVolume) (d : Disk) : Prop := v.fatType = .fat32 → ∀ c, InRange v c → fatEntry v d c ≠ 1

/-- Directory `h` lies `k` levels below the root directory (number 0). -/
inductive Depth (dirs : List (Nat × Nat)) : Nat → Nat → Prop
  | root : Depth dirs 0 0
  | sub {h p k : Nat} : (h, p) ∈ dirs → Depth dirs p k → Depth dirs h (k + 1)

/-- **(H2)** No directory lies more than 63 levels below the root.

Why it is needed: `Fs.checkDir` has nesting fuel 64 and reports `D1-nesting-too-deep` when it runs out, while the
invariant has no depth bound (the crate can create arbitrarily deep trees).  63 is exact: the root is walked with
fuel 64, a directory `k` levels below with fuel `64 - k`, which must not be 0.  It cannot be dropped:
`Lemmas.VolFsck.h2_needed` (module `VolFsck10`) evaluates a volume with a directory at depth 64 that satisfies `VolInv` and on which `fsck`
complains (and `h2_exact`: with depth 63 it does not). -/
def DepthOK (dirs : List (Nat × Nat)) : Prop := ∀ h k, Depth dirs h k → k ≤ 63

end Sdmmc.Spec.Volume
