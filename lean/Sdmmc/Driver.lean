/-
Line-protocol driver around the executable model and the executable specifications.
One request per line, one response line per request.  Pure: `handle : DState → String → DState × String`.
-/
import Sdmmc.Model.Mgr
import Sdmmc.Model.Wrap
import Sdmmc.Model.Crc
import Sdmmc.Model.Csd
import Sdmmc.Spec.Poly
import Sdmmc.Spec.Fs
import Sdmmc.Spec.Card
import Sdmmc.Model.Sd

namespace Sdmmc.Driver

open Sdmmc.Model

structure DState where
  mgr : Mgr := { dev := { disk := Disk.empty }, nextId := 0, maxVols := 1, maxDirs := 4, maxFiles := 4 }
  /-- the implementation's medium, rebuilt from the writes the harness reports -/
  shadow : Disk := Disk.empty
  /-- a saved copy of `shadow` (crash-prefix exploration) -/
  base : Disk := Disk.empty
  /-- geometry of the volume the specification verbs look at (from the formatter, not from the model) -/
  geom : Spec.Fs.Geom := default
  /-- the SPI-mode card the harness runs the real driver against -/
  card : Spec.Card.Card := default
  deriving Inhabited

/-! ### Formatting -/

def showTs (t : Timestamp) : String :=
  s!"{t.year_since_1970}.{t.zero_indexed_month}.{t.zero_indexed_day}.{t.hours}.{t.minutes}.{t.seconds}"

def showEntry (e : DirEntry) : String :=
  s!"{hexOfBytes e.name}:{e.attributes}:{e.cluster}:{e.size}:{showTs e.mtime}:{showTs e.ctime}:{e.entryBlock}:{e.entryOffset}"

def showErr : Err → String
  | .DeviceError => "DeviceError" | .FormatError _ => "FormatError" | .NoSuchVolume => "NoSuchVolume"
  | .FilenameError e => "FilenameError." ++ (match e with
      | .InvalidCharacter => "InvalidCharacter" | .FilenameEmpty => "FilenameEmpty"
      | .NameTooLong => "NameTooLong" | .MisplacedPeriod => "MisplacedPeriod" | .Utf8Error => "Utf8Error")
  | .TooManyOpenVolumes => "TooManyOpenVolumes" | .TooManyOpenDirs => "TooManyOpenDirs"
  | .TooManyOpenFiles => "TooManyOpenFiles" | .BadHandle => "BadHandle" | .NotFound => "NotFound"
  | .FileAlreadyOpen => "FileAlreadyOpen" | .DirAlreadyOpen => "DirAlreadyOpen"
  | .OpenedDirAsFile => "OpenedDirAsFile" | .OpenedFileAsDir => "OpenedFileAsDir"
  | .DeleteDirAsFile => "DeleteDirAsFile" | .VolumeStillInUse => "VolumeStillInUse"
  | .VolumeAlreadyOpen => "VolumeAlreadyOpen" | .Unsupported => "Unsupported" | .EndOfFile => "EndOfFile"
  | .BadCluster => "BadCluster" | .ConversionError => "ConversionError" | .NotEnoughSpace => "NotEnoughSpace"
  | .AllocationError => "AllocationError" | .UnterminatedFatChain => "UnterminatedFatChain"
  | .ReadOnly => "ReadOnly" | .FileAlreadyExists => "FileAlreadyExists" | .BadBlockSize n => s!"BadBlockSize.{n}"
  | .InvalidOffset => "InvalidOffset" | .DiskFull => "DiskFull" | .DirAlreadyExists => "DirAlreadyExists"
  | .LockError => "LockError"

def hexOrDash (b : Bytes) : String := if b.isEmpty then "-" else hexOfBytes b

def showPayload : Payload → String
  | .unit => "ok"
  | .handle h => s!"ok h {h}"
  | .bytes b => s!"ok b {hexOrDash b}"
  | .num n => s!"ok n {n}"
  | .bool b => if b then "ok t" else "ok f"
  | .entry e => s!"ok e {showEntry e}"
  | .entries es => "ok l " ++ ";".intercalate (es.map showEntry)
  | .lfnEntries es => "ok L " ++ ";".intercalate (es.map fun (e, n) =>
      showEntry e ++ (match n with | some b => "=" ++ hexOrDash b | none => "~"))
  | .label l => match l with | some b => s!"ok v {hexOrDash (volumeNameTrim b)}" | none => "ok v none"

def showRes {α} (f : α → String) : Res α → String
  | .ok a => f a
  | .err e => "err " ++ showErr e
  | .panic _ => "panic"
  | .diverged => "diverged"

def showOut (o : Out) : String :=
  showRes showPayload o.result ++ "|W:" ++
    ",".intercalate (o.writes.map fun (i, b) => s!"{i}:{fnv64 b}") ++ "|R:" ++
    ",".intercalate (o.reads.map toString)

def showOptNat : Option Nat → String | some n => toString n | none => "none"

def showVol (v : FatVolume) : String :=
  let ft := match v.fatType with | .fat16 => "16" | .fat32 => "32"
  s!"ft={ft} lba={v.lbaStart} nb={v.numBlocks} name={hexOfBytes v.name} bpc={v.blocksPerCluster} fd={v.firstDataBlock} fs={v.fatStart} f2={showOptNat v.secondFatStart} fc={showOptNat v.freeClustersCount} nf={showOptNat v.nextFreeCluster} cc={v.clusterCount} re={v.rootEntriesCount} rb={v.firstRootDirBlock} il={v.infoLocation} rc={v.firstRootDirCluster}"

/-! ### Parsing -/

def parseNats (sep : String) (s : String) : Option (List Nat) :=
  if s = "-" then some [] else (s.splitOn sep).mapM String.toNat?

def parseName (s : String) : Option (List Nat) := parseNats "." s

def parseMode : String → Option Mode
  | "ro" => some .ReadOnly | "a" => some .ReadWriteAppend | "t" => some .ReadWriteTruncate
  | "c" => some .ReadWriteCreate | "ct" => some .ReadWriteCreateOrTruncate
  | "ca" => some .ReadWriteCreateOrAppend | _ => none

def parseInt (s : String) : Option Int :=
  if s.startsWith "-" then (s.drop 1).toString.toNat?.map fun n => -(n : Int) else s.toNat?.map fun n => (n : Int)

def parseTs (s : String) : Option Timestamp :=
  match parseNats "." s with
  | some [y, m, d, h, mi, se] => some { year_since_1970 := y, zero_indexed_month := m, zero_indexed_day := d, hours := h, minutes := mi, seconds := se }
  | _ => none

def parseOp : List String → Option Op
  | ["open_volume", i] => do pure (.openVolume (← i.toNat?))
  | ["close_volume", v] => do pure (.closeVolume (← v.toNat?))
  | ["open_root", v] => do pure (.openRoot (← v.toNat?))
  | ["open_dir", d, n] => do pure (.openDir (← d.toNat?) (← parseName n))
  | ["close_dir", d] => do pure (.closeDir (← d.toNat?))
  | ["open_file", d, n, m] => do pure (.openFile (← d.toNat?) (← parseName n) (← parseMode m))
  | ["read", f, n] => do pure (.read (← f.toNat?) (← n.toNat?))
  | ["write", f, h] => do pure (.write (← f.toNat?) (← bytesOfHex h))
  | ["seek_start", f, n] => do pure (.seekStart (← f.toNat?) (← n.toNat?))
  | ["seek_cur", f, n] => do pure (.seekCur (← f.toNat?) (← parseInt n))
  | ["seek_end", f, n] => do pure (.seekEnd (← f.toNat?) (← n.toNat?))
  | ["flush", f] => do pure (.flush (← f.toNat?))
  | ["close_file", f] => do pure (.closeFile (← f.toNat?))
  | ["delete", d, n] => do pure (.delete (← d.toNat?) (← parseName n))
  | ["mkdir", d, n] => do pure (.mkdir (← d.toNat?) (← parseName n))
  | ["find", d, n] => do pure (.find (← d.toNat?) (← parseName n))
  | ["list", d] => do pure (.list (← d.toNat?))
  | ["list_lfn", d, n] => do pure (.listLfn (← d.toNat?) (← n.toNat?))
  | ["length", f] => do pure (.length (← f.toNat?))
  | ["offset", f] => do pure (.offset (← f.toNat?))
  | ["eof", f] => do pure (.eof (← f.toNat?))
  | ["has_open"] => some .hasOpen
  | ["label", v] => do pure (.label (← v.toNat?))
  | _ => none

/-- A `u64` argument: a decimal number `≤ u64::MAX` (anything else is not a request the Rust side
can make: `bad-op`). -/
def parseU64 (s : String) : Option Nat := do
  let n ← s.toNat?
  if n ≤ Wrap.U64_MAX then some n else none

/-- An `i64` argument: an optionally `-`-prefixed decimal number in `[i64::MIN, i64::MAX]`. -/
def parseI64 (s : String) : Option Int := do
  let x ← parseInt s
  if Wrap.I64_MIN ≤ x ∧ x ≤ Wrap.I64_MAX then some x else none

/-- The wrapper-level verbs (`Model.Wrap`): the RAII wrappers `File` / `Directory` / `Volume` and the
`embedded_io` traits of `File`.  Handles are the raw handles the wrappers hold. -/
def parseWOp : List String → Option Wrap.WOp
  | ["io_read", f, n] => do pure (.ioRead (← f.toNat?) (← n.toNat?))
  | ["io_write", f, h] => do pure (.ioWrite (← f.toNat?) (← bytesOfHex h))
  | ["io_flush", f] => do pure (.ioFlush (← f.toNat?))
  | ["io_seek_start", f, n] => do pure (.ioSeek (← f.toNat?) (.start (← parseU64 n)))
  | ["io_seek_end", f, n] => do pure (.ioSeek (← f.toNat?) (.end_ (← parseI64 n)))
  | ["io_seek_cur", f, n] => do pure (.ioSeek (← f.toNat?) (.current (← parseI64 n)))
  | ["w_eof", f] => do pure (.eof (← f.toNat?))
  | ["w_length", f] => do pure (.length (← f.toNat?))
  | ["w_offset", f] => do pure (.offset (← f.toNat?))
  | ["w_drop_file", f] => do pure (.dropFile (← f.toNat?))
  | ["w_close_file", f] => do pure (.closeFile (← f.toNat?))
  | ["w_drop_dir", d] => do pure (.dropDir (← d.toNat?))
  | ["w_close_dir", d] => do pure (.closeDir (← d.toNat?))
  | ["w_change_dir", d, n] => do pure (.changeDir (← d.toNat?) (← parseName n))
  | ["w_drop_volume", v] => do pure (.dropVolume (← v.toNat?))
  | ["w_close_volume", v] => do pure (.closeVolume (← v.toNat?))
  | _ => none

def toBV8 (b : Bytes) : List (BitVec 8) := b.map fun x => BitVec.ofNat 8 x.toNat

/-- Split `s` into chunks of `n` characters. -/
def chunksOf (n : Nat) : (fuel : Nat) → List Char → List (List Char)
  | 0, _ => []
  | fuel + 1, cs => if cs.isEmpty then [] else cs.take n :: chunksOf n fuel (cs.drop n)

/-- A fragment: 13 code units as 52 hex characters (big-endian per unit, for readability). -/
def parseFrag (s : String) : Option (List Nat) := do
  let bs ← bytesOfHex s
  if bs.length ≠ 26 then none else
  pure ((List.range 13).map fun i => (bs.getD (2 * i) 0).toNat * 256 + (bs.getD (2 * i + 1) 0).toNat)

def showItem : Lfn.Item → String
  | .ch c => s!"c{c}"
  | .unpaired u => s!"u{u}"

/-! ### Requests -/

def handlePure : List String → Option String
  | ["crc16", h] => do pure (toString (crc16 (toBV8 (← bytesOfHex h))).toNat)
  | ["crc7", h] => do pure (toString (crc7 (toBV8 (← bytesOfHex h))).toNat)
  | ["scrc16", h] => do pure (toString (Spec.specCrc16 (toBV8 (← bytesOfHex h))).toNat)
  | ["scrc7", h] => do pure (toString (Spec.specCrc7 (toBV8 (← bytesOfHex h))).toNat)
  | ["tsdec", d, t] => do pure (showTs (Timestamp.fromFat (← d.toNat?) (← t.toNat?)))
  | ["tsenc", ts] => do
    let t ← parseTs ts
    if t.zero_indexed_month ≥ 255 ∨ t.zero_indexed_day ≥ 255 then some "panic" else
    pure s!"{t.fatTime} {t.fatDate}"
  | ["tscal", y, m, d, h, mi, s] => do
    match Timestamp.fromCalendar (← y.toNat?) (← m.toNat?) (← d.toNat?) (← h.toNat?) (← mi.toNat?) (← s.toNat?) with
    | .ok t => pure ("ok " ++ showTs t)
    | .error e => pure ("err " ++ e)
  | ["sfn", n] => do
    match Sfn.createFromStr (← parseName n) with
    | .ok b => pure ("ok " ++ hexOfBytes b)
    | .error e => pure ("err " ++ showErr (.FilenameError e))
  | ["sfnshow", h] => do
    let cps := Sfn.display (← bytesOfHex h)
    pure (if cps.isEmpty then "-" else ".".intercalate (cps.map toString))
  | ["csum", h] => do pure (toString (Sfn.csum (← bytesOfHex h)))
  | ["deser", ft, name, attr, cl, size, mt, ct] => do
    let ft ← (match ft with | "16" => some FatType.fat16 | "32" => some FatType.fat32 | _ => none)
    let e : DirEntry := { name := ← bytesOfHex name, attributes := ← attr.toNat?, cluster := ← cl.toNat?,
                          size := ← size.toNat?, mtime := ← parseTs mt, ctime := ← parseTs ct, entryBlock := 0, entryOffset := 0 }
    pure (hexOfBytes (e.serialize ft))
  | ["deparse", ft, h, blk, off] => do
    let ft ← (match ft with | "16" => some FatType.fat16 | "32" => some FatType.fat32 | _ => none)
    let d ← bytesOfHex h
    let e := OnDisk.getEntry ft d (← blk.toNat?) (← off.toNat?)
    let flags := s!"{OnDisk.isEnd d}.{OnDisk.isValid d}.{OnDisk.isLfn d}"
    let lfn := match OnDisk.lfnContents d with
      | some (st, sq, cs, fr) => s!"{st}.{sq}.{cs}." ++ ".".intercalate (fr.map toString)
      | none => "none"
    pure s!"{showEntry e} {flags} {lfn}"
  | ["lfn", size, frags] => do
    -- items: a fragment (52 hex digits) = push, "C" = clear
    let fs ← (if frags = "-" then some [] else (frags.splitOn ";").mapM fun t => if t = "C" then some none else (parseFrag t).map some)
    let r := fs.foldl (fun (acc : Res Lfn.Buf) fr => acc.bind fun b => match fr with | some f => Lfn.push b f | none => .ok (Lfn.clear b)) (.ok (Lfn.new (zeros (← size.toNat?))))
    match r with
    | .ok b => pure s!"ok {hexOrDash (Lfn.asStr b)} {b.free} {b.overflow} {showOptNat b.unpaired}"
    | _ => pure "panic"
  | ["dec16", us] => do
    let items := Lfn.decodeUtf16 (← parseNats "." us)
    pure (if items.isEmpty then "-" else ".".intercalate (items.map showItem))
  | ["enc8", c] => do pure (hexOfBytes (Lfn.encodeUtf8 (← c.toNat?)))
  | ["csd1", h] => do
    let d ← bytesOfHex h
    pure s!"{Csd.v1CsdVer d} {Csd.v1DeviceSize d} {Csd.v1DeviceSizeMultiplier d} {Csd.v1ReadBlockLength d} {Csd.v1CapacityBytes d} {Csd.v1CapacityBlocks d}"
  | ["csd2", h] => do
    let d ← bytesOfHex h
    pure s!"{Csd.v2CsdVer d} {Csd.v2DeviceSize d} {Csd.v2CapacityBytes d} {Csd.v2CapacityBlocks d}"
  | "mount" :: idx :: mbr :: rest => do
    let blocks ← rest.mapM fun tok => (match tok.splitOn ":" with
      | [i, h] => do pure ((← i.toNat?), (← bytesOfHex h))
      | _ => none : Option (Nat × Bytes))
    let fetch : Nat → Bytes := fun i => match blocks.find? (·.1 = i) with | some (_, b) => b | none => zeroBlock
    pure (showRes showVol (mountPure (← bytesOfHex mbr) (← idx.toNat?) fetch))
  | _ => none


/-! ### SD driver model against a recorded bus; the card specification as a simulator -/

/-- Run-length list: `tok*count` repeats a token. -/
def expandRuns (s : String) : Option (List String) :=
  if s = "-" then some [] else
  (s.splitOn ",").foldlM (fun acc tok =>
    match tok.splitOn "*" with
    | [t] => some (acc ++ [t])
    | [t, n] => n.toNat?.map fun k => acc ++ List.replicate k t
    | _ => none) []

/-- Collapse runs of identical tokens into `tok*count` (fuel = list length). -/
def compressRunsAux : (fuel : Nat) → List String → List String
  | 0, _ => []
  | _, [] => []
  | fuel + 1, x :: xs =>
    let same := xs.takeWhile (· = x)
    let rest := xs.dropWhile (· = x)
    (if same.isEmpty then x else s!"{x}*{same.length + 1}") :: compressRunsAux fuel rest

def compressRuns (l : List String) : List String := compressRunsAux l.length l

/-- The recorded bus: what came back for each transaction (`none` = SPI error). -/
def replayBus : Sd.BusOps (List (Option Bytes)) where
  xfer := fun st out =>
    match st with
    | [] => ([], some (List.replicate out.length 0xFF))
    | r :: rest => (rest, r.map fun bs => bs ++ List.replicate (out.length - bs.length) 0xFF)
  delay := fun st => st

def showSdErr : Sd.SdErr → String
  | .Transport => "Transport" | .CantEnableCRC => "CantEnableCRC" | .TimeoutReadBuffer => "TimeoutReadBuffer"
  | .TimeoutWaitNotBusy => "TimeoutWaitNotBusy" | .TimeoutCommand c => s!"TimeoutCommand.{c}"
  | .TimeoutACommand c => s!"TimeoutACommand.{c}" | .Cmd58Error => "Cmd58Error" | .RegisterReadError => "RegisterReadError"
  | .CrcError a b => s!"CrcError.{a}.{b}" | .ReadError => "ReadError" | .WriteError => "WriteError" | .BadState => "BadState"
  | .CardNotFound => "CardNotFound" | .GpioError => "GpioError"

def showCt : Option Sd.CardType → String
  | none => "none" | some .SD1 => "SD1" | some .SD2 => "SD2" | some .SDHC => "SDHC"

def parseCt : String → Option (Option Sd.CardType)
  | "none" => some none | "SD1" => some (some .SD1) | "SD2" => some (some .SD2) | "SDHC" => some (some .SDHC) | _ => none

def chunks512 : (fuel : Nat) → Bytes → List Bytes
  | 0, _ => []
  | fuel + 1, bs => if bs.isEmpty then [] else bs.take 512 :: chunks512 fuel (bs.drop 512)

def parseSdCall : List String → Option Sd.Call
  | ["read", n, idx] => do pure (.read (← n.toNat?) (← idx.toNat?))
  | ["write", idx, h] => do
    let bs ← bytesOfHex h
    pure (.write (chunks512 (bs.length + 1) bs) (← idx.toNat?))
  | ["num_blocks"] => some .numBlocks
  | ["num_bytes"] => some .numBytes
  | ["card_type"] => some .cardType
  | ["mark_uninit"] => some .markUninit
  | _ => none

def showAnswer : Sd.Answer → String
  | .blocks bs => "ok blocks " ++ hexOrDash bs.flatten
  | .unit => "ok"
  | .num n => s!"ok n {n}"
  | .ctype c => s!"ok t {showCt c}"

def handleSd (useCrc retries ct : String) (rest : List String) : Option String := do
  -- rest = call tokens ... "|" responses
  let callToks := rest.takeWhile (· ≠ "|")
  let respTok := (rest.dropWhile (· ≠ "|")).drop 1
  let call ← parseSdCall callToks
  let resp ← expandRuns (respTok.headD "-")
  let bus : List (Option Bytes) ← resp.mapM fun t => if t = "!" then some none else (bytesOfHex t).map some
  let st0 : Sd.St (List (Option Bytes)) := { bus, cardType := ← parseCt ct, useCrc := useCrc = "1", acquireRetries := ← retries.toNat? }
  let (r, st) := Sd.call replayBus call st0
  let res := match r with
    | .ok a => showAnswer a
    | .err e => "err " ++ showSdErr e
    | .panic _ => "panic"
  let mosi := compressRuns (st.events.reverse.map fun e => hexOfBytes e.bytes)
  pure s!"{res} | {",".intercalate mosi} | {st.delays} | {showCt st.cardType} | {st.bus.length}"

def parseKind : String → Option Spec.Card.Kind
  | "SD1" => some .SD1 | "SD2" => some .SD2 | "SDHC" => some .SDHC | _ => none

def handle (st : DState) (line : String) : DState × String :=
  let toks := (line.trimAscii.toString.splitOn " ").filter (· ≠ "")
  match toks with
  | ["reset"] => ({}, "ok")
  | ["sync"] => (st, "ok")
  | ["blk", i, h] =>
    match i.toNat?, bytesOfHex h with
    | some i, some b =>
      if b.length ≠ 512 then (st, "bad-op") else
      ({ st with mgr := { st.mgr with dev := { st.mgr.dev with disk := st.mgr.dev.disk.set i b } }, shadow := st.shadow.set i b }, "ok")
    | _, _ => (st, "bad-op")
  | ["blkrep", i, n, h] =>
    match i.toNat?, n.toNat?, bytesOfHex h with
    | some i, some n, some b =>
      if b.length ≠ 512 then (st, "bad-op") else
      let d := (List.range n).foldl (fun d k => d.set (i + k) b) st.mgr.dev.disk
      let sh := (List.range n).foldl (fun d k => d.set (i + k) b) st.shadow
      ({ st with mgr := { st.mgr with dev := { st.mgr.dev with disk := d } }, shadow := sh }, "ok")
    | _, _, _ => (st, "bad-op")
  | ["mgr", md, mf, mv, off] =>
    match md.toNat?, mf.toNat?, mv.toNat?, off.toNat? with
    | some md, some mf, some mv, some off =>
      ({ st with mgr := { dev := { disk := st.mgr.dev.disk }, nextId := off, maxVols := mv, maxDirs := md, maxFiles := mf } }, "ok")
    | _, _, _, _ => (st, "bad-op")
  | ["clock", ts] =>
    match parseTs ts with
    | some t => ({ st with mgr := { st.mgr with clock := t } }, "ok")
    | none => (st, "bad-op")
  | ["faults", fs] =>
    match parseNats "," fs with
    | some l => ({ st with mgr := { st.mgr with dev := { st.mgr.dev with faults := l.map (· + st.mgr.dev.calls) } } }, "ok")
    | none => (st, "bad-op")
  | ["lock", b] => ({ st with mgr := { st.mgr with locked := b = "1" } }, "ok")
  | "op" :: rest =>
    match parseOp rest with
    | some op =>
      let (m, out) := step st.mgr op
      ({ st with mgr := m }, showOut out)
    | none =>
      match parseWOp rest with
      | some wop =>
        let (m, out) := Wrap.wstep st.mgr wop
        ({ st with mgr := m }, showOut out)
      | none => (st, "bad-op")
  | ["sw", i, h] =>
    match i.toNat?, bytesOfHex h with
    | some i, some b => if b.length ≠ 512 then (st, "bad-op") else ({ st with shadow := st.shadow.set i b }, "ok")
    | _, _ => (st, "bad-op")
  | ["digest", which, i] =>
    match i.toNat? with
    | some i => (st, toString (fnv64 ((if which = "shadow" then st.shadow else st.mgr.dev.disk).get i)))
    | none => (st, "bad-op")
  | ["state"] =>
    let fs := st.mgr.files.map fun f => s!"{f.rawFile}/{f.rawVolume}/{f.curClusterOff}/{f.curCluster}/{f.currentOffset}/{f.entry.size}/{f.entry.cluster}/{f.dirty}"
    let ds := st.mgr.dirs.map fun d => s!"{d.rawDirectory}/{d.rawVolume}/{d.cluster}"
    let vs := st.mgr.vols.map fun v => s!"{v.rawVolume}/{v.idx}/{showOptNat v.vol.freeClustersCount}/{showOptNat v.vol.nextFreeCluster}"
    (st, s!"next={st.mgr.nextId} files={",".intercalate fs} dirs={",".intercalate ds} vols={",".intercalate vs}")
  | ["geom", ft, lba, total, bpc, fs, fsz, nf, rs, rb, fd, cl, rc, ib] =>
    match [lba, total, bpc, fs, fsz, nf, rs, rb, fd, cl, rc, ib].mapM String.toNat? with
    | some [lba, total, bpc, fs, fsz, nf, rs, rb, fd, cl, rc, ib] =>
      ({ st with geom := { fat32 := ft = "32", lba, total, bpc, fatStart := fs, fatSize := fsz, nFats := nf, rootStart := rs,
                           rootBlocks := rb, firstData := fd, clusters := cl, rootCluster := rc, infoBlock := ib } }, "ok")
    | _ => (st, "bad-op")
  | ["snap"] => ({ st with base := st.shadow }, "ok")
  | ["restore"] => ({ st with shadow := st.base }, "ok")
  | ["fsck", mode] =>
    -- mode: "live" = with the pending entries of the model's open files and the size clause;
    --       "crash" = no pending state (memory is gone), size not required to be up to date
    let ps : List Spec.Fs.Pending := if mode = "live" then
        st.mgr.files.map fun f => { blk := f.entry.entryBlock, off := f.entry.entryOffset, cluster := f.entry.cluster, size := f.entry.size }
      else []
    -- "quiesced" = nothing is open on the implementation's side: no pending entries, sizes must be up to date
    let v := Spec.Fs.fsck st.geom st.shadow ps (mode = "live" || mode = "quiesced")
    -- "names": only the unique-names clause (what C11 demands after a failed call)
    let probs := if mode = "names" then v.problems.filter (·.startsWith "D3") else v.problems
    let head := if probs.isEmpty then "ok" else "fail " ++ "|".intercalate (probs.take 4)
    (st, s!"{head} dirs={v.dirs} files={v.files} used={v.used} reach={v.reachable} leaked={v.leaked.length}:" ++
         ",".intercalate ((v.leaked.take 6).map toString))
  | ["tree"] => (st, "#".intercalate (Spec.Fs.dumpTree st.geom st.shadow))
  | ["fcheck", path, n] =>
    -- the file at `path` (11-byte names in hex separated by '/'): its recorded size and the digest of its first n bytes
    match (path.splitOn "/").mapM bytesOfHex, n.toNat? with
    | some ns, some n =>
      match ns.reverse with
      | [] => (st, "bad-op")
      | fname :: revDirs =>
        match Spec.Fs.findDir st.geom st.shadow revDirs.reverse (Spec.Fs.rootRef st.geom) with
        | .error e => (st, "missing " ++ e)
        | .ok ref =>
          match Spec.Fs.dirSlots st.geom st.shadow ref with
          | .error e => (st, "missing " ++ e)
          | .ok (ss, _) =>
            match (Spec.Fs.objects ss).find? fun s => Spec.Fs.nameOf s = fname ∧ !Spec.Fs.isDirSlot s with
            | none => (st, "missing no-such-file")
            | some s =>
              let c := Spec.Fs.clusterOf st.geom s
              match (if c = 0 then (.ok [] : Except String (List Nat)) else Spec.Fs.chain st.geom st.shadow c) with
              | .error e => (st, "broken " ++ e)
              | .ok cs =>
                let body := Spec.Fs.fileBytes st.geom st.shadow cs (Spec.Fs.sizeOf s)
                (st, s!"found {Spec.Fs.sizeOf s} {fnv64 (body.take n)} {(body.take n).length}")
    | _, _ => (st, "bad-op")
  | ["mirror"] =>
    match Spec.Fs.mirrorOK st.geom st.shadow with
    | none => (st, "ok")
    | some i => (st, s!"fail fat-copy-differs-at-block-offset:{i}")
  | ["free"] => (st, toString (Spec.Fs.freeCount st.geom st.shadow))
  | ["info"] =>
    let b := st.shadow.get st.geom.infoBlock
    (st, s!"{Spec.Fs.rd32 b 488} {Spec.Fs.rd32 b 492}")
  | ["slots", path] =>
    -- path: 11-byte names in hex separated by '/', "-" = root; answer: the raw slots of that directory
    let names : Option (List Bytes) := if path = "-" then some [] else (path.splitOn "/").mapM bytesOfHex
    match names with
    | none => (st, "bad-op")
    | some ns =>
      match Spec.Fs.findDir st.geom st.shadow ns (Spec.Fs.rootRef st.geom) with
      | .error e => (st, "err " ++ e)
      | .ok ref =>
        match Spec.Fs.dirSlots st.geom st.shadow ref with
        | .error e => (st, "err " ++ e)
        | .ok (ss, cs) =>
          let live := Spec.Fs.liveSlots ss
          (st, s!"ok chain={",".intercalate (cs.map toString)} live=" ++ ";".intercalate (live.map fun s => s!"{s.blk}:{s.off}:{hexOfBytes s.bytes}"))
  | ["card", "new", kind, csd, ncr, nac, busy, ip] =>
    match parseKind kind, bytesOfHex csd, [ncr, nac, busy, ip].mapM String.toNat? with
    | some k, some c, some [ncr, nac, busy, ip] => ({ st with card := Spec.Card.mk k c ncr nac busy ip }, "ok")
    | _, _, _ => (st, "bad-op")
  | ["card", "new", kind, csd, ncr, nac, busy, ip, gap] =>
    -- with the optional seventh parameter: `stopGap` (N_BR)
    match parseKind kind, bytesOfHex csd, [ncr, nac, busy, ip, gap].mapM String.toNat? with
    | some k, some c, some [ncr, nac, busy, ip, gap] =>
      ({ st with card := Spec.Card.mk k c ncr nac busy ip gap }, "ok")
    | _, _, _ => (st, "bad-op")
  | ["card", "blk", n, h] =>
    match n.toNat?, bytesOfHex h with
    | some n, some b => ({ st with card := { st.card with mem := st.card.mem.insert n b } }, "ok")
    | _, _ => (st, "bad-op")
  | ["card", "x", h] =>
    match bytesOfHex h with
    | some bs =>
      let (c, ys) := Spec.Card.run st.card bs
      ({ st with card := c }, hexOrDash ys)
    | none => (st, "bad-op")
  | ["card", "get", n] =>
    match n.toNat? with
    | some n => (st, hexOfBytes (Spec.Card.getBlock st.card n))
    | none => (st, "bad-op")
  | ["card", "viol"] => (st, if st.card.violations.isEmpty then "-" else "|".intercalate st.card.violations.reverse)
  | ["card", "state"] =>
    (st, s!"idle={st.card.idle} init={st.card.initialised} crc={st.card.crcOn} cmds={st.card.commands} cap={st.card.capacity} streaming={st.card.streaming.isSome} busy={st.card.busyLeft}")
  | "sd" :: useCrc :: retries :: ct :: rest =>
    match handleSd useCrc retries ct rest with
    | some r => (st, r)
    | none => (st, "bad-op")
  | _ =>
    match handlePure toks with
    | some r => (st, r)
    | none => (st, "bad-op")

end Sdmmc.Driver
