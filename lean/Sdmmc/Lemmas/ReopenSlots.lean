/-
Directory slots across a flush (for `Props.C02Reopen`): the slot list of a directory is the image of
a list of (block, offset) positions that depends on the geometry only (`dirPositions`,
`dirSlotsOf_eq`); a flush of entry `e` leaves the slot at every position of every directory other
than `e`'s own exactly as it was (`slot_unchanged_by_flush` — "entry-for-entry unchanged"), keeps
every directory chain, and keeps "the file's slot is the first slot matching its name"
(`dir_after_flush`), so that the uniqueness hypothesis of the reopen theorem can be stated on the
medium before the flush (`reopen_reads_flushed_pre`).
-/
import Sdmmc.Lemmas.ReopenMain

namespace Sdmmc.Lemmas.Reopen
open Sdmmc.Model Sdmmc.Model.Fat Sdmmc.Spec
open Sdmmc.Lemmas.FatOps (BlocksOK)
open Sdmmc.Lemmas.Listing
open Sdmmc.Lemmas.ReadRefines (MgrOK fsOf)
open Sdmmc.Lemmas.Modes (DirCtx lookup openedFile)

/-! ### Positions -/

/-- A slot position: block number and byte offset in the block. -/
abbrev Pos := Nat × Nat

/-- The slot at a position of a medium. -/
def slotOf (d : Disk) (p : Pos) : Slot := slotAt d p.1 p.2

def blockPositions (b : Nat) : List Pos := (List.range 16).map fun i => (b, 32 * i)
def runPositions (b n : Nat) : List Pos := (List.range n).flatMap fun j => blockPositions (b + j)
def chainPositions (v : FatVolume) (cs : List Nat) : List Pos :=
  cs.flatMap fun c => runPositions (clusterToBlock v c) v.blocksPerCluster
/-- The slot positions of a directory, in on-disk order: a function of the geometry and of the
directory's cluster list only. -/
def dirPositions (v : FatVolume) (dc : Nat) (dcs : List Nat) : List Pos :=
  if IsFixedRoot v dc then runPositions (rootStart v) (rootBlocks v) else chainPositions v dcs

theorem blockSlots_eq (d : Disk) (b : Nat) : blockSlots b (d.get b) = (blockPositions b).map (slotOf d) := by
  unfold blockSlots blockPositions
  rw [List.map_map]
  rfl

theorem dirSlots_eq (d : Disk) (b n : Nat) : dirSlots d b n = (runPositions b n).map (slotOf d) := by
  unfold dirSlots runPositions
  rw [List.map_flatMap]
  congr 1 <;> (funext j; exact blockSlots_eq d (b + j))

theorem chainSlots_eq (v : FatVolume) (d : Disk) (cs : List Nat) :
    chainSlots v d cs = (chainPositions v cs).map (slotOf d) := by
  unfold chainSlots chainPositions
  rw [List.map_flatMap]
  congr 1 <;> (funext c; exact dirSlots_eq d _ _)

theorem dirSlotsOf_eq (v : FatVolume) (d : Disk) (dc : Nat) (dcs : List Nat) :
    dirSlotsOf v d dc dcs = (dirPositions v dc dcs).map (slotOf d) := by
  unfold dirSlotsOf dirPositions
  split
  · exact dirSlots_eq d _ _
  · exact chainSlots_eq v d dcs

theorem mem_blockPositions {b : Nat} {p : Pos} (h : p ∈ blockPositions b) :
    p.1 = b ∧ p.2 % 32 = 0 ∧ p.2 + 32 ≤ 512 := by
  unfold blockPositions at h
  obtain ⟨i, hi, rfl⟩ := List.mem_map.1 h
  have := List.mem_range.1 hi
  exact ⟨rfl, by show 32 * i % 32 = 0; omega, by show 32 * i + 32 ≤ 512; omega⟩

theorem mem_runPositions {b n : Nat} {p : Pos} (h : p ∈ runPositions b n) :
    (∃ j, j < n ∧ p.1 = b + j) ∧ p.2 % 32 = 0 ∧ p.2 + 32 ≤ 512 := by
  unfold runPositions at h
  obtain ⟨j, hj, hp⟩ := List.mem_flatMap.1 h
  obtain ⟨h1, h2, h3⟩ := mem_blockPositions hp
  exact ⟨⟨j, List.mem_range.1 hj, h1⟩, h2, h3⟩

/-- Every slot position of a directory of the volume (clusters of `dcs` in range) lies in a
directory block — data area or FAT16 root region — at a 32-byte-aligned offset inside the block. -/
theorem mem_dirPositions {v : FatVolume} (hg : WFGeom v) {dc : Nat} {dcs : List Nat} (hin : ∀ c ∈ dcs, InRange v c)
    {p : Pos} (h : p ∈ dirPositions v dc dcs) :
    (regionOf v p.1 = .data ∨ regionOf v p.1 = .root) ∧ p.2 % 32 = 0 ∧ p.2 + 32 ≤ 512 := by
  unfold dirPositions at h
  by_cases hk : IsFixedRoot v dc
  · rw [if_pos hk] at h
    obtain ⟨⟨j, hj, hp⟩, h2, h3⟩ := mem_runPositions h
    refine ⟨.inr ?_, h2, h3⟩
    rw [hp]
    exact FatLens.root_blocks_in_root_region v hg hk.1 j hj
  · rw [if_neg hk] at h
    unfold chainPositions at h
    obtain ⟨c, hc, hp⟩ := List.mem_flatMap.1 h
    obtain ⟨⟨j, hj, hp1⟩, h2, h3⟩ := mem_runPositions hp
    refine ⟨.inl ?_, h2, h3⟩
    rw [hp1]
    exact FatLens.cluster_blocks_in_data_region v hg c j (hin c hc).1 (hin c hc).2 hj

/-! ### One slot across a flush -/

/-- **Entry-for-entry unchanged**: a flush of entry `e` (frame `flushPos`) leaves the slot at every
aligned position of every directory block other than `e`'s own position exactly as it was — the
same 32 bytes, hence the same decoded entry. -/
theorem slot_unchanged_by_flush (v : FatVolume) (hg : WFGeom v) (e : DirEntry) (d d' : Disk)
    (hb : BlocksOK d) (hb' : BlocksOK d')
    (hbyte : ∀ b j, ¬ flushPos v e b j → (d'.get b).getD j 0 = (d.get b).getD j 0)
    (heal : e.entryOffset % 32 = 0) (p : Pos)
    (hreg : regionOf v p.1 = .data ∨ regionOf v p.1 = .root) (hal : p.2 % 32 = 0)
    (hne : p ≠ (e.entryBlock, e.entryOffset)) : slotOf d' p = slotOf d p := by
  unfold slotOf slotAt
  congr 2
  apply DirSlots.slice_congr _ _ _ _ (by rw [hb', hb])
  intro i h1 h2
  apply hbyte
  rintro (⟨hpb, h3, h4⟩ | ⟨h32, hpb, _, _⟩)
  · apply hne
    have : p.2 = e.entryOffset := by omega
    exact Prod.ext hpb this
  · have := FatLens.info_block_in_info_region v hg h32 (fatStart_le_numBlocks v hg)
    rw [← hpb] at this
    rcases hreg with h | h <;> rw [h] at this <;> cases this

/-! ### The first hit across a change of medium -/

theorem firstHit_facts {ss : List Slot} {name : Bytes} {x : Slot} (h : FirstHit ss name x) :
    x ∈ ss ∧ firstByte x.2.2 ≠ 0 ∧ nameHit name x = true := by
  obtain ⟨pre, post, rfl, _, h0, hm⟩ := (firstHit_iff ss name x).1 h
  exact ⟨List.mem_append_right _ List.mem_cons_self, h0, hm⟩

theorem slotOf_inj (d d' : Disk) (p q : Pos) (h : slotOf d p = slotOf d' q) : p = q := by
  unfold slotOf slotAt at h
  simp only [Prod.mk.injEq] at h
  exact Prod.ext h.1 h.2.1

/-- If the slot at `p0` is the first hit on `d`, every other position of the list carries the same
slot on `d'`, and the slot at `p0` is still a live hit on `d'`, then it is the first hit on `d'`. -/
theorem firstHit_transfer (d d' : Disk) (name : Bytes) (p0 : Pos) : ∀ (ps : List Pos),
    (∀ p ∈ ps, p ≠ p0 → slotOf d' p = slotOf d p) →
    firstByte (slotOf d' p0).2.2 ≠ 0 → nameHit name (slotOf d' p0) = true →
    FirstHit (ps.map (slotOf d)) name (slotOf d p0) → FirstHit (ps.map (slotOf d')) name (slotOf d' p0)
  | [], _, _, _, h => by cases h
  | p :: ps, hother, h0, hm, h => by
    obtain ⟨_, hx0, hxm⟩ := firstHit_facts h
    unfold FirstHit at h ⊢
    rw [List.map_cons] at h ⊢
    by_cases hp : p = p0
    · subst hp
      rw [beforeEnd_cons_go _ _ h0, List.find?_cons, hm]
    · have hsame := hother p List.mem_cons_self hp
      rw [hsame]
      by_cases hz : firstByte (slotOf d p).2.2 = 0
      · rw [beforeEnd_cons_end _ _ hz] at h; cases h
      · rw [beforeEnd_cons_go _ _ hz, List.find?_cons] at h ⊢
        cases hhit : nameHit name (slotOf d p) with
        | true =>
          rw [hhit] at h
          simp only [Option.some.injEq] at h
          exact absurd (slotOf_inj d d p p0 h) hp
        | false =>
          rw [hhit] at h
          exact firstHit_transfer d d' name p0 ps (fun q hq => hother q (List.mem_cons_of_mem _ hq)) h0 hm h

theorem byteAt_take (l : Bytes) (n k : Nat) (h : k < n) : byteAt (l.take n) k = byteAt l k := by
  unfold byteAt
  rw [List.getD_eq_getElem?_getD, List.getD_eq_getElem?_getD, List.getElem?_take, if_pos h]

/-- **The directory of a flushed file, before and after the flush.**  `d'` is `d` after a flush of
`e` (slot contents, byte frame and block frame as `flushFile_spec` gives them); `e` fits a slot and
is not a long-name fragment.  If, on `d`, the directory (`dc`, clusters `dcs` in range) is on the
medium and the slot at `e`'s position is the first slot before the end marker matching `e.name`,
then the same holds on `d'`; moreover `e`'s block is a directory block and its offset is aligned. -/
theorem dir_after_flush (v : FatVolume) (hg : WFGeom v) (e : DirEntry) (d d' : Disk)
    (hb : BlocksOK d) (hb' : BlocksOK d') (hst : Storable v.fatType e) (hlfn : e.attributes % 16 ≠ 15)
    (hslot : slice (d'.get e.entryBlock) e.entryOffset 32 = e.serialize v.fatType)
    (hbyte : ∀ b j, ¬ flushPos v e b j → (d'.get b).getD j 0 = (d.get b).getD j 0)
    (hagree : AgreeOff v e.entryBlock d d')
    (dc : Nat) (dcs : List Nat) (hin : ∀ c ∈ dcs, InRange v c) (hdir : DirOn v d dc dcs)
    (hfirst : FirstHit (dirSlotsOf v d dc dcs) e.name (slotAt d e.entryBlock e.entryOffset)) :
    DirOn v d' dc dcs ∧
    FirstHit (dirSlotsOf v d' dc dcs) e.name (slotAt d' e.entryBlock e.entryOffset) ∧
    (regionOf v e.entryBlock = .data ∨ regionOf v e.entryBlock = .root) ∧ e.entryOffset % 32 = 0 := by
  rw [dirSlotsOf_eq] at hfirst ⊢
  obtain ⟨hmem, hx0, hxm⟩ := firstHit_facts hfirst
  obtain ⟨p0, hp0, hp0eq⟩ := List.mem_map.1 hmem
  have hp0' : p0 = (e.entryBlock, e.entryOffset) := slotOf_inj d d p0 (e.entryBlock, e.entryOffset) hp0eq
  subst hp0'
  obtain ⟨hreg, hal, _⟩ := mem_dirPositions hg hin hp0
  have hcl' : e.cluster < 4294967296 := by
    have := hst.cluster_lt
    cases hft : v.fatType <;> rw [hft] at this <;> simp only at this <;> omega
  obtain ⟨_, htake, hattr, _⟩ := serialize_layout v.fatType e hst.name_len hst.attr_lt hst.size_lt hcl'
  -- the old slot shows that the name does not start with 0x00
  have hname0 : byteAt e.name 0 ≠ 0 := by
    have htk : (slotAt d e.entryBlock e.entryOffset).2.2.take 11 = e.name := by
      unfold nameHit at hxm
      simp only [Bool.and_eq_true, decide_eq_true_eq] at hxm
      exact hxm.2
    rw [← htk, byteAt_take _ 11 0 (by omega)]
    exact hx0
  have hnew : slotOf d' (e.entryBlock, e.entryOffset) = (e.entryBlock, e.entryOffset, e.serialize v.fatType) := by
    unfold slotOf slotAt; rw [hslot]
  refine ⟨?_, ?_, hreg, hal⟩
  · intro hk
    obtain ⟨rest, hdcs, hch, hlen⟩ := hdir hk
    refine ⟨rest, hdcs, ?_, hlen⟩
    exact dirChain_of_agreeOff v hg _ d d' hagree hreg dcs (fun c hc => (hin c hc).2)
      (by rw [hdcs]; exact List.cons_ne_nil _ _) hch
  · apply firstHit_transfer d d' e.name (e.entryBlock, e.entryOffset) _ _ _ _ hfirst
    · intro p hp hne
      obtain ⟨hr, ha, _⟩ := mem_dirPositions hg hin hp
      exact slot_unchanged_by_flush v hg e d d' hb hb' hbyte hal p hr ha hne
    · rw [hnew]
      show byteAt (e.serialize v.fatType) 0 ≠ 0
      rw [DirSlots.serialize_first_byte _ _ hst.name_len]
      exact hname0
    · rw [hnew]
      unfold nameHit isFragment
      simp only [Bool.and_eq_true, Bool.not_eq_true', decide_eq_false_iff_not, decide_eq_true_eq]
      exact ⟨by rw [hattr]; exact hlfn, htake⟩

/-! ### The reopen theorem with the directory hypotheses on the medium before the close -/

/-- `reopen_reads_flushed` with what is asked of the directory stated on the writer's medium
BEFORE the close: there the directory (`dc`, clusters `dcs`, all in range) is on the medium and the
file's slot is the first slot before the end marker that matches the file's name (uniqueness of
names, C03), and the file's entry is not a long-name fragment.  The reader's directory handle
designates the same directory (`dir.cluster = dc`).  That the entry's block is a directory block
follows; that it is not a block of the file's own chain stays a hypothesis (`hown`). -/
theorem reopen_reads_flushed_pre (s : Mgr) (h i vi : Nat) (f : FileInfo) (v : VolInfo) (cs : List Nat)
    (hs : MgrOK s) (hh : s.files.findIdx? (·.rawFile = h) = some i) (hf : s.files[i]? = some f)
    (hv : s.vols.findIdx? (·.rawVolume = f.rawVolume) = some vi) (hvi : s.vols[vi]? = some v)
    (hg : WFGeom v.vol) (hok : FileOK v.vol s.dev.disk f cs) (hd : f.dirty = true)
    (he : EntryOK f.entry) (hlfn : f.entry.attributes % 16 ≠ 15)
    (hown : ∀ c ∈ cs, ∀ j, j < v.vol.blocksPerCluster → clusterToBlock v.vol c + j ≠ f.entry.entryBlock)
    (dc : Nat) (dcs : List Nat) (hin : ∀ c ∈ dcs, InRange v.vol c) (hdir : DirOn v.vol s.dev.disk dc dcs)
    (hfirst : FirstHit (dirSlotsOf v.vol s.dev.disk dc dcs) f.entry.name
      (slotAt s.dev.disk f.entry.entryBlock f.entry.entryOffset)) :
    ∃ s1, closeFile h s = (.ok (), s1) ∧
      (fileContent v.vol s.dev.disk cs f.entry.size).length = f.entry.size ∧
      ∀ (t : Mgr) (d : Nat) (name : List Nat) (dir : DirInfo) (wi : Nat) (w : VolInfo),
        MgrOK t → t.dev.disk = s1.dev.disk →
        DirCtx t d name dir wi f.entry.name → dir.cluster = dc → t.vols[wi]? = some w → SameGeom v.vol w.vol →
        t.files.length < t.maxFiles → (∀ g ∈ t.files, g.rawFile ≠ t.nextId) →
        fileIsOpen t dir.rawVolume f.entry = false →
        ∃ t1, openFileInDir d name .ReadOnly t = (.ok t.nextId, t1) ∧
          t1.dev.disk = t.dev.disk ∧ t1.dev.wlog = t.dev.wlog ∧
          fileLength t.nextId t1 = (.ok (fileContent v.vol s.dev.disk cs f.entry.size).length, t1) ∧
          ∀ n, ∃ t2, read t.nextId n t1 = (.ok ((fileContent v.vol s.dev.disk cs f.entry.size).take n), t2) ∧
            t2.dev.disk = t.dev.disk ∧ t2.dev.wlog = t.dev.wlog ∧
            ((fileContent v.vol s.dev.disk cs f.entry.size).length ≤ n →
              read t.nextId n t1 = (.ok (fileContent v.vol s.dev.disk cs f.entry.size), t2)) := by
  -- the entry's block is a directory block: it is a position of the directory
  have hst := storable_of_fileOK hg hok he
  obtain ⟨s1', hfl, hcl', _, hok1, hslot, hbyte, hagree⟩ :=
    closeFile_spec s h i vi f v hs hh hf hv hvi hd (assert_of_fileOK hok) he.off_le he.name_len
  obtain ⟨hdir1, hfirst1, hreg, _⟩ := dir_after_flush v.vol hg f.entry s.dev.disk s1'.dev.disk hs.2.2.1 hok1.2.2.1
    hst hlfn hslot hbyte hagree dc dcs hin hdir hfirst
  obtain ⟨s1, hcl, hlen, hrd⟩ := reopen_reads_flushed s h i vi f v cs hs hh hf hv hvi hg hok hd he ⟨hreg, hown⟩
  have hs1 : s1.dev.disk = s1'.dev.disk := by
    rw [hcl'] at hcl
    have : ({ s1' with files := swapRemove s.files i } : Mgr) = s1 := congrArg Prod.snd hcl
    rw [← this]
  refine ⟨s1, hcl, hlen, ?_⟩
  intro t d name dir wi w hmt hdisk hctx hdc hwi hsame hroom hfresh hno
  have hdisk' : t.dev.disk = s1'.dev.disk := hdisk.trans hs1
  apply hrd t d name dir wi w dcs hmt hdisk hctx hwi hsame hroom hfresh
  · rw [hsame.dirOn, hdc, hdisk']; exact hdir1
  · rw [hsame.dirSlotsOf, hdc, hdisk']; exact hfirst1
  · exact hno

end Sdmmc.Lemmas.Reopen
