/-
C16 over all calls, part 6 — every one of the 24 API calls keeps the balance with the SAME offset `δ`
(`step_countOK`), hence every history does (`run_countOK`).
-/
import Sdmmc.Lemmas.AcctAllMkdir
import Sdmmc.Lemmas.WriteSetInvHist

namespace Sdmmc.Lemmas.AcctAll
open Sdmmc.Model Sdmmc.Model.Fat Sdmmc.Spec.Volume
open Sdmmc.Spec hiding NoFault Coherent run step
open Sdmmc.Lemmas.VolApi Sdmmc.Lemmas.MHoare
open Sdmmc.Lemmas.WriteSetInv (NameCovered)

/-- Resetting the per-call logs changes neither the volume table nor the medium. -/
theorem countOK_resetLogs {s : Mgr} {δ : Int} (h : CountOK δ s) : CountOK δ (resetLogs s) := h

/-- **One call proper.**  `s` satisfies the volume invariant; names starting with 0xE5 are excluded
(`NameCovered`); an `open_volume` is issued only while a volume is open (it is then refused).  Then the
call keeps the balance with the same offset. -/
theorem runOp_countOK {s : Mgr} {gh : Ghost} (hI : VolInv s gh) (op : Op) (hn : NameCovered op)
    (hov : ∀ idx, op = .openVolume idx → s.vols ≠ []) {δ : Int} (hd : DeltaOK gh.vol δ) (h : CountOK δ s) :
    CountOK δ (runOp op s).2 := by
  cases op with
  | openVolume idx =>
    show CountOK δ ((openRawVolume idx >>= fun h => (pure (Payload.handle h) : M Payload)) s).2
    rw [map_state, openVolume_api_open hI (hov idx rfl) idx]
    exact h
  | closeVolume v =>
    show CountOK δ ((closeVolume v >>= fun _ => (pure Payload.unit : M Payload)) s).2
    rw [seq_state]; exact closeVolume_countOK hI v h
  | openRoot v =>
    show CountOK δ ((openRootDir v >>= fun h => (pure (Payload.handle h) : M Payload)) s).2
    rw [map_state]; exact countOK_keeps (keeps_openRootDir v) h
  | openDir d name =>
    show CountOK δ ((openDir d name >>= fun h => (pure (Payload.handle h) : M Payload)) s).2
    rw [map_state]; exact countOK_keeps (keeps_openDir d name) h
  | closeDir d =>
    show CountOK δ ((closeDir d >>= fun _ => (pure Payload.unit : M Payload)) s).2
    rw [seq_state]; exact countOK_keeps (keeps_closeDir d) h
  | openFile d name mode =>
    show CountOK δ ((openFileInDir d name mode >>= fun h => (pure (Payload.handle h) : M Payload)) s).2
    rw [map_state]; exact openFile_countOK hI d name mode hn hd h
  | read f n =>
    show CountOK δ ((Model.read f n >>= fun b => (pure (Payload.bytes b) : M Payload)) s).2
    rw [map_state]; exact countOK_keeps (keeps_read f n) h
  | write f data =>
    show CountOK δ ((Model.write f data >>= fun _ => (pure Payload.unit : M Payload)) s).2
    rw [seq_state]; exact write_countOK hI f data hd h
  | seekStart f n =>
    show CountOK δ ((fileSeekFromStart f n >>= fun _ => (pure Payload.unit : M Payload)) s).2
    rw [seq_state]; exact countOK_keeps (keeps_seekStart f n) h
  | seekCur f n =>
    show CountOK δ ((fileSeekFromCurrent f n >>= fun _ => (pure Payload.unit : M Payload)) s).2
    rw [seq_state]; exact countOK_keeps (keeps_seekCur f n) h
  | seekEnd f n =>
    show CountOK δ ((fileSeekFromEnd f n >>= fun _ => (pure Payload.unit : M Payload)) s).2
    rw [seq_state]; exact countOK_keeps (keeps_seekEnd f n) h
  | flush f =>
    show CountOK δ ((flushFile f >>= fun _ => (pure Payload.unit : M Payload)) s).2
    rw [seq_state]; exact flush_countOK hI f h
  | closeFile f =>
    show CountOK δ ((closeFile f >>= fun _ => (pure Payload.unit : M Payload)) s).2
    rw [seq_state]; exact close_countOK hI f h
  | delete d name =>
    show CountOK δ ((deleteFileInDir d name >>= fun _ => (pure Payload.unit : M Payload)) s).2
    rw [seq_state]; exact delete_countOK hI d name hn hd h
  | mkdir d name =>
    show CountOK δ ((makeDirInDir d name >>= fun _ => (pure Payload.unit : M Payload)) s).2
    rw [seq_state]; exact mkdir_countOK hI d name hn hd h
  | find d name =>
    show CountOK δ ((Model.findDirectoryEntry d name >>= fun e => (pure (Payload.entry e) : M Payload)) s).2
    rw [map_state]; exact countOK_keeps (keeps_find d name) h
  | list d =>
    show CountOK δ ((iterateDir d >>= fun es => (pure (Payload.entries es) : M Payload)) s).2
    rw [map_state]; exact countOK_keeps (keeps_iterateDir d) h
  | listLfn d n =>
    show CountOK δ ((iterateDirLfn d n >>= fun es => (pure (Payload.lfnEntries es) : M Payload)) s).2
    rw [map_state]; exact countOK_keeps (keeps_iterateDirLfn d n) h
  | length f =>
    show CountOK δ ((fileLength f >>= fun n => (pure (Payload.num n) : M Payload)) s).2
    rw [map_state]; exact countOK_keeps (keeps_fileLength f) h
  | offset f =>
    show CountOK δ ((fileOffset f >>= fun n => (pure (Payload.num n) : M Payload)) s).2
    rw [map_state]; exact countOK_keeps (keeps_fileOffset f) h
  | eof f =>
    show CountOK δ ((fileEof f >>= fun b => (pure (Payload.bool b) : M Payload)) s).2
    rw [map_state]; exact countOK_keeps (keeps_fileEof f) h
  | hasOpen => exact h
  | label v =>
    show CountOK δ ((getRootVolumeLabel v >>= fun l => (pure (Payload.label l) : M Payload)) s).2
    rw [map_state]; exact countOK_keeps (keeps_label v) h

/-- **One API call** (through the transition function `step`). -/
theorem step_countOK {s : Mgr} {gh : Ghost} (hI : VolInv s gh) (op : Op) (hn : NameCovered op)
    (hov : ∀ idx, op = .openVolume idx → s.vols ≠ []) {δ : Int} (hd : DeltaOK gh.vol δ) (h : CountOK δ s) :
    CountOK δ (step s op).1 := by
  rw [step_unlocked s op hI.unlocked]
  exact runOp_countOK (volInv_resetLogs hI) op hn hov hd (countOK_resetLogs h)

end Sdmmc.Lemmas.AcctAll
