/-
Lemmas for C12 / C14, part 31 (end-to-end, continued): a multiple-block write one of whose blocks
the card refuses (here: the write runs over the end of the card, data response "write error").
The driver remembers the error, still sends the stop sequence, and returns the error.
-/
import Sdmmc.Lemmas.SdCardSim2Seq

namespace Sdmmc.Lemmas.SdCardSim2
open Sdmmc.Model Sdmmc.Spec.Card Sdmmc.Model.Sd Sdmmc.Lemmas.Sd Sdmmc.Gen Sdmmc.Lemmas.SdCardSim

/-- The last CRC byte of a data block addressed beyond the end of the card: nothing is stored, the
data response "write error" (0x0D) is queued, and the card goes busy. -/
theorem step_recvData_last_oor (c : Card) (hb : c.cmdBuf = []) (multi : Bool) (n : Nat) (payload : List UInt8)
    (c1 : UInt8) (hp : c.phase = .recvData multi n (payload ++ [c1])) (hlen : payload.length = 512)
    (ho : c.out = []) (hz : c.busyLeft = 0) (c2 : UInt8)
    (hcrc : c.crcOn = true → c1.toNat * 256 + c2.toNat = crc16Of payload) (hn : ¬ n < c.capacity) :
    step c c2 = ({ c with phase := if multi then .recvToken true (n + 1) else .ready,
                          out := [0x0D], busyLeft := c.busy }, 0xFF) := by
  rcases c with ⟨kind, mem, csd, cap, ncr, nac, busy, initPolls, idle, spiMode, crcOn, appCmd, cmd8Seen,
    initLeft, initialised, out, busyLeft, cmdBuf, phase, streaming, preErase, violations, commands⟩
  simp only at hb hp ho hz hcrc hn
  subst hb hp ho hz
  cases crcOn with
  | false => simp [step, hn, hlen]
  | true => simp [step, hcrc rfl, hn, hlen]

theorem run_crc_oor (c : Card) (hb : c.cmdBuf = []) (multi : Bool) (n : Nat) (payload : List UInt8)
    (hp : c.phase = .recvData multi n payload) (hlen : payload.length = 512)
    (ho : c.out = []) (hz : c.busyLeft = 0) (c1 c2 : UInt8)
    (hcrc : c.crcOn = true → c1.toNat * 256 + c2.toNat = crc16Of payload) (hn : ¬ n < c.capacity) :
    run c [c1, c2] = ({ c with phase := if multi then .recvToken true (n + 1) else .ready,
                               out := [0x0D], busyLeft := c.busy },
                      [0xFF, 0xFF]) := by
  rw [run, step_recvData c hb multi n payload hp ho hz c1 (by omega)]
  simp only
  rw [run, step_recvData_last_oor (setPhase c (.recvData multi n (payload ++ [c1]))) hb multi n payload c1 rfl hlen
    ho hz c2 hcrc hn]
  rfl

/-- `write_data` of a block addressed beyond the end of the card: the data response is "write
error", `write_data` returns `WriteError`; nothing is stored; the card is left busy, and (inside a
multiple-block write) still waiting for the next token. -/
theorem writeData_card_oor (s : St Card) (multi : Bool) (n : Nat) (token : Nat) (buffer : Bytes)
    (htok : UInt8.ofNat token = dataToken multi)
    (hb : s.bus.cmdBuf = []) (hp : s.bus.phase = .recvToken multi n) (ho : s.bus.out = [])
    (hz : s.bus.busyLeft = 0) (hst : s.bus.streaming = none) (hlen : buffer.length = 512)
    (hn : ¬ n < s.bus.capacity) (hcrc : s.bus.crcOn = true → s.useCrc = true) :
    ∃ s', writeData cardBus token buffer s = (.err .WriteError, s') ∧
      StAt s { s.bus with phase := if multi then .recvToken true (n + 1) else .ready,
                          out := [], busyLeft := s.bus.busy } s' := by
  have hs1 : step s.bus (UInt8.ofNat token) = (setPhase s.bus (.recvData multi n []), 0xFF) := by
    rw [htok]; exact step_token s.bus hb multi n hp ho hz
  obtain ⟨s1, h1, a1⟩ := writeByte_card (UInt8.ofNat token) s _ _ hs1
  have hs2 : run s1.bus buffer = (setPhase s.bus (.recvData multi n buffer), List.replicate buffer.length 0xFF) := by
    rw [a1.1]
    exact run_recvData multi n buffer (setPhase s.bus (.recvData multi n [])) [] hb rfl ho hz (by simp [hlen])
  obtain ⟨s2, h2, a2⟩ := xferEv_dataOut_card buffer s1 _ _ hs2
  let crcBytes : Bytes := if s2.useCrc then
    [UInt8.ofNat (crc16Nat buffer / 256), UInt8.ofNat (crc16Nat buffer % 256)] else [0xFF, 0xFF]
  have hu2 : s2.useCrc = s.useCrc := (a1.trans a2).2.2.1
  have hcb : ∃ c1 c2, crcBytes = [c1, c2] ∧ (s.bus.crcOn = true → c1.toNat * 256 + c2.toNat = crc16Of buffer) := by
    cases hu : s.useCrc with
    | true =>
      refine ⟨UInt8.ofNat (crc16Nat buffer / 256), UInt8.ofNat (crc16Nat buffer % 256), by simp [crcBytes, hu2, hu], ?_⟩
      intro _
      exact crc_bytes_roundtrip _ (crc16Of_lt buffer)
    | false =>
      refine ⟨0xFF, 0xFF, by simp [crcBytes, hu2, hu], ?_⟩
      intro h; rw [hcrc h] at hu; cases hu
  obtain ⟨c1, c2, hcb1, hcb2⟩ := hcb
  have hs3 : run s2.bus crcBytes =
      ({ s.bus with phase := if multi then .recvToken true (n + 1) else .ready,
                    out := [0x0D], busyLeft := s.bus.busy }, [0xFF, 0xFF]) := by
    rw [a2.1, hcb1]
    exact run_crc_oor (setPhase s.bus (.recvData multi n buffer)) hb multi n buffer rfl hlen ho hz c1 c2 hcb2 hn
  obtain ⟨s3, h3, a3⟩ := xferEv_dataOut_card crcBytes s2 _ _ hs3
  have hL3 : Listening s3.bus := by
    rw [a3.1]; refine ⟨hb, ?_⟩; cases multi <;> rfl
  have h4 := readByte_pop s3 hL3 0x0D [] (by rw [a3.1])
  refine ⟨{ s3 with bus := popTo s3.bus [], events := .poll (0x0D : UInt8).toNat :: s3.events }, ?_, ?_⟩
  · unfold writeData
    rw [bind_ok h1, bind_ok h2, bind_ok (get_apply s2)]
    show (xferEv cardBus (.dataOut crcBytes) >>= _) s2 = _
    rw [bind_ok h3, bind_ok h4]
    rfl
  · have h := (a1.trans a2).trans a3
    refine ⟨?_, h.2.1, h.2.2.1, h.2.2.2⟩
    show popTo s3.bus [] = _
    rw [a3.1]
    show drain _ = _
    refine (drain_none _ ?_).trans ?_
    · exact hst
    · rfl

theorem writeBlocks_append {σ : Type} (B : BusOps σ) (pre rest : List Bytes) :
    writeBlocks B (pre ++ rest) = (do writeBlocks B pre; writeBlocks B rest) := by
  induction pre with
  | nil => funext s; rfl
  | cons b pre ih =>
    funext s
    simp only [List.cons_append, writeBlocks, ih, bind_apply]
    rcases waitNotBusy B DEFAULT_WRITE_RETRIES s with ⟨r, s1⟩
    cases r <;> try rfl
    simp only
    rcases writeData B WRITE_MULTIPLE_TOKEN b s1 with ⟨r, s2⟩
    cases r <;> rfl

/-- The block loop of a multiple-block write that reaches the end of the card: the blocks inside
are stored, the first one outside gets "write error", and the loop stops there. -/
theorem writeBlocks_card_oor (pre : List Bytes) (b : Bytes) (post : List Bytes) (m : Nat) (s : St Card)
    (hcb : s.bus.cmdBuf = []) (hp : s.bus.phase = .recvToken true m) (ho : s.bus.out = [])
    (hbl : s.bus.busyLeft ≤ DEFAULT_WRITE_RETRIES) (hst : s.bus.streaming = none)
    (hbusy : s.bus.busy ≤ DEFAULT_WRITE_RETRIES) (hlen : ∀ x ∈ pre ++ b :: post, x.length = 512)
    (hcap : m + pre.length = s.bus.capacity) (hcrc : s.bus.crcOn = true → s.useCrc = true) :
    ∃ s', writeBlocks cardBus (pre ++ b :: post) s = (.err .WriteError, s') ∧
      StAt s { s.bus with mem := writeMem s.bus.mem m pre, phase := .recvToken true (s.bus.capacity + 1),
                          out := [], busyLeft := s.bus.busy } s' := by
  obtain ⟨s1, bl, h1, hbl1, a1⟩ := writeBlocks_card pre m s hcb hp ho hbl hst hbusy
    (fun x hx => hlen x (List.mem_append_left _ hx)) (by omega) hcrc
  have hb1 := a1.1
  obtain ⟨s2, h2, a2⟩ := waitNotBusy_card2 DEFAULT_WRITE_RETRIES s1 (by rw [hb1]; exact ⟨hcb, rfl⟩) (by rw [hb1])
    (by rw [hb1]; exact hbl1)
  obtain ⟨s3, h3, a3⟩ := writeData_card_oor s2 true (m + pre.length) WRITE_MULTIPLE_TOKEN b rfl
    (by rw [a2.1, hb1]; exact hcb) (by rw [a2.1, hb1]; rfl) (by rw [a2.1, hb1]; rfl) (by rw [a2.1, hb1]; rfl)
    (by rw [a2.1, hb1]; exact hst) (hlen b (by simp))
    (by rw [a2.1, hb1]; show ¬ m + pre.length < s.bus.capacity; omega)
    (by rw [a2.1, hb1, a2.2.2.1, a1.2.2.1]; exact hcrc)
  refine ⟨s3, ?_, ?_⟩
  · rw [writeBlocks_append, bind_ok h1, writeBlocks, bind_ok h2, bind_err h3]
  · have h := (a1.trans a2).trans a3
    refine ⟨?_, h.2.1, h.2.2.1, h.2.2.2⟩
    rw [a3.1, a2.1, hb1, hcap]; rfl

/-- A multiple-block write that starts inside the card and runs over its end: the blocks up to the
end are stored; the first block beyond is refused with "write error"; the driver still sends the
stop sequence (busy wait, stop token, busy wait) and then returns `WriteError`.  The card is
back in the ready phase and not busy. -/
theorem write_multi_oor_card (s : St Card) (hS : Settled s.bus)
    (hbl : s.bus.busyLeft ≤ DEFAULT_COMMAND_RETRIES) (hncr : s.bus.ncr ≤ DEFAULT_COMMAND_RETRIES)
    (hbusy : s.bus.busy ≤ DEFAULT_WRITE_RETRIES) (hgap : s.bus.stopGap ≤ 1)
    (hcrc : s.bus.crcOn = true → s.useCrc = true)
    (blocks : List Bytes) (idx start : Nat) (hn1 : blocks.length ≠ 1)
    (hstart : startIdx s.cardType idx = .ok start) (h32 : start < 4294967296)
    (hblk : blockOfArg s.bus start = some idx) (hidx : idx < s.bus.capacity)
    (hcap : s.bus.capacity < idx + blocks.length) (hlen : ∀ b ∈ blocks, b.length = 512) :
    ∃ s', Sd.write cardBus blocks idx s = (.err .WriteError, s') ∧
      StAt s { s.bus with mem := writeMem s.bus.mem idx (blocks.take (s.bus.capacity - idx)),
                          commands := s.bus.commands + 3, appCmd := false,
                          preErase := blocks.length % 4294967296, busyLeft := 0, out := [],
                          phase := .ready } s' := by
  obtain ⟨s2, s3, s4, hacmd, h3, h4, a4⟩ := write_multi_start_card s hS hbl hncr blocks.length idx start h32 hblk hidx
  obtain ⟨hi, hid, hcb, hp, hst, ho⟩ := hS
  have hb4 := a4.1
  -- split the blocks at the end of the card
  have hk : s.bus.capacity - idx < blocks.length := by omega
  obtain ⟨b, post, hsplit⟩ : ∃ b post, blocks = blocks.take (s.bus.capacity - idx) ++ b :: post := by
    refine ⟨blocks[s.bus.capacity - idx], blocks.drop (s.bus.capacity - idx + 1), ?_⟩
    rw [← List.drop_eq_getElem_cons hk, List.take_append_drop]
  have hpl : (blocks.take (s.bus.capacity - idx)).length = s.bus.capacity - idx := by
    rw [List.length_take]; omega
  obtain ⟨s5, h5, a5⟩ := writeBlocks_card_oor (blocks.take (s.bus.capacity - idx)) b post idx s4
    (by rw [hb4]; exact hcb) (by rw [hb4]) (by rw [hb4]) (by rw [hb4]; exact Nat.zero_le _) (by rw [hb4]; exact hst)
    (by rw [hb4]; exact hbusy) (by rw [← hsplit]; exact hlen)
    (by rw [hb4, hpl]; show idx + (s.bus.capacity - idx) = s.bus.capacity; omega) (by rw [hb4, a4.2.2.1]; exact hcrc)
  rw [← hsplit] at h5
  have hb5 := a5.1
  rw [hb4] at hb5
  obtain ⟨s8, h8, a8⟩ := stopWrite_card s5 (s.bus.capacity + 1) (by rw [hb5]; exact hcb) (by rw [hb5]) (by rw [hb5])
    (by rw [hb5]; exact hst) (by rw [hb5]; exact hbusy) (by rw [hb5]; exact hbusy) (by rw [hb5]; exact hgap)
  refine ⟨s8, ?_, ?_⟩
  · rw [write_eq_multi cardBus blocks idx hn1]
    rw [bind_ok (get_apply s), hstart, bind_ok (show S.lift (SRes.ok start) s = (.ok start, s) from rfl)]
    rw [bind_ok hacmd, bind_ok h3, bind_ok h4]
    exact writeRest_err cardBus blocks s4 s5 s8 _ h5 h8
  · have h := (a4.trans a5).trans a8
    refine ⟨?_, h.2.1, h.2.2.1, h.2.2.2⟩
    rw [a8.1, hb5]

theorem write_multi_oor_sum (s : St Card) (hS : Settled s.bus)
    (hbl : s.bus.busyLeft ≤ DEFAULT_COMMAND_RETRIES) (hncr : s.bus.ncr ≤ DEFAULT_COMMAND_RETRIES)
    (hbusy : s.bus.busy ≤ DEFAULT_WRITE_RETRIES) (hgap : s.bus.stopGap ≤ 1) (hcrc : s.bus.crcOn = true → s.useCrc = true)
    (blocks : List Bytes) (idx : Nat) (hn1 : blocks.length ≠ 1)
    (hadr : Addressable s.cardType s.bus.kind idx) (hidx : idx < s.bus.capacity)
    (hcap : s.bus.capacity < idx + blocks.length) (hlen : ∀ b ∈ blocks, b.length = 512) :
    ∃ s', Sd.write cardBus blocks idx s = (.err .WriteError, s') ∧
      s'.bus.mem = writeMem s.bus.mem idx (blocks.take (s.bus.capacity - idx)) ∧
      s'.bus.busyLeft = 0 ∧ Outcome s s' := by
  obtain ⟨start, hstart, h32, hblk⟩ := hadr.start
  obtain ⟨s', h, a⟩ := write_multi_oor_card s hS hbl hncr hbusy hgap hcrc blocks idx start hn1 hstart h32 hblk hidx hcap hlen
  refine ⟨s', h, by rw [a.1], by rw [a.1], ⟨by rw [a.1]; exact Unchanged.refl _, ?_, a.2.1, a.2.2.1⟩⟩
  rw [a.1]; exact ⟨hS.1, hS.2, hS.3, rfl, hS.5, rfl⟩

end Sdmmc.Lemmas.SdCardSim2
