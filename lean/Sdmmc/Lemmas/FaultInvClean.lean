/-
C11 under the invariant, part 12 (engine): the clean-up of `make_dir` — `free_cluster_chain(c)` of the one-cluster
chain `[c]` — started in ANY state a failed `write_new_directory_entry` can leave: any fault schedule, the cache
untagged (a failed device call clears the tag) or coherent.

* `free_any_coh`: from a state whose cache is coherent at the FAT block of `c` (or does not hold it): the medium
  afterwards differs from the medium before at most in the FAT entry of `c` (and FAT copy 2).
(Before the repair of `BlockCache::write_back` this file also treated a cache holding, tagged, the payload of the
device write that failed.)
-/
import Sdmmc.Lemmas.FaultInvCreate
import Sdmmc.Lemmas.CrashFat

namespace Sdmmc.Lemmas.FaultInv
open Sdmmc.Model Sdmmc.Model.Fat Sdmmc.Spec.Volume
open Sdmmc.Spec hiding NoFault Coherent
open Sdmmc.Lemmas.FBasic (NoFault Coherent)
open Sdmmc.Lemmas.CrashBase Sdmmc.Lemmas.Retry Sdmmc.Lemmas.FaultPre

/-! ### Media with the same contents -/

theorem fatRaw_ext {v : FatVolume} {d d' : Disk} (h : ∀ i, d'.get i = d.get i) (x : Nat) : fatRaw v d' x = fatRaw v d x := by
  unfold fatRaw; rw [h]

theorem Within.ext {v : FatVolume} {D d d' : Disk} {t : List Nat} {dirty : Nat → Prop} (hw : Within v D d t dirty)
    (h : ∀ i, d'.get i = d.get i) : Within v D d' t dirty :=
  ⟨fun y hy hn => (fatRaw_ext h y).trans (hw.other y hy hn), fun i hi hd => (h i).trans (hw.nonFat i hi hd)⟩

/-! ### Cache hits and misses -/

/-- The cache untagged: the state `cacheRead` calls the device in. -/
def untag (s : FS) : FS := { s with cache := { s.cache with tag := none } }

theorem cacheRead_hit {s : FS} {idx : Nat} (h : s.cache.tag = some idx) : cacheRead idx s = (.ok (), s) := by
  unfold Model.cacheRead; rw [if_pos h]

theorem cacheRead_untag {s : FS} {idx : Nat} (h : s.cache.tag ≠ some idx) : cacheRead idx s = cacheRead idx (untag s) := by
  unfold Model.cacheRead
  rw [if_neg h, if_neg (show (untag s).cache.tag ≠ some idx by intro e; cases e)]
  rfl

theorem nextCluster_untag {s : FS} {c : Nat} (hcU : ¬ c > U32_MAX / 4) (h : s.cache.tag ≠ some (fatBlock s.vol c)) :
    nextCluster c s = nextCluster c (untag s) := by
  unfold nextCluster
  rw [if_neg hcU]
  simp only [FBasic.bind_apply, FBasic.getVol_apply]
  rw [cacheRead_untag h]
  rfl

theorem truncate_untag {s : FS} {c : Nat} (hc : ¬ c < Gen.RESERVED_ENTRIES) (hcU : ¬ c > U32_MAX / 4)
    (h : s.cache.tag ≠ some (fatBlock s.vol c)) : truncateClusterChain c s = truncateClusterChain c (untag s) := by
  unfold truncateClusterChain
  simp only [FBasic.ite_apply, if_neg hc]
  rw [Fault.F.attempt_bind_apply, Fault.F.attempt_bind_apply, nextCluster_untag hcU h]

theorem free_untag {s : FS} {c : Nat} (hc : ¬ c < Gen.RESERVED_ENTRIES) (hcU : ¬ c > U32_MAX / 4)
    (h : s.cache.tag ≠ some (fatBlock s.vol c)) : freeClusterChain c s = freeClusterChain c (untag s) := by
  unfold freeClusterChain
  simp only [FBasic.ite_apply, if_neg hc]
  rw [FBasic.bind_apply, FBasic.bind_apply, truncate_untag hc hcU h]

/-! ### The clean-up from a state whose cache does not lie about the FAT block of `c` -/

theorem range_bounds {v : FatVolume} (hg : WFGeom v) {c : Nat} (hr : InRange v c) :
    ¬ c < Gen.RESERVED_ENTRIES ∧ ¬ c > U32_MAX / 4 := by
  have h2 := hr.1
  have hE := hr.2
  have hb := hg.count_bound
  refine ⟨by show ¬ c < 2; omega, ?_⟩
  show ¬ c > 4294967295 / 4
  cases hft : v.fatType <;> rw [hft] at hb <;> simp only at hb <;> omega

/-- `free_cluster_chain(c)` of the one-cluster chain `[c]` under any fault schedule, from a coherent state: only the
FAT entry of `c` can differ afterwards. -/
theorem free_coh (s : FS) (c : Nat) (hb : BlocksOK s.dev.disk) (hg : WFGeom s.vol) (hch : Chain s.vol s.dev.disk c [c])
    (hcoh : ∀ i, s.cache.tag = some i → s.cache.blk = s.dev.disk.get i) :
    Within s.vol s.dev.disk (freeClusterChain c s).2.dev.disk [c] clean := by
  apply (freeClusterChain_pre c).transfer s (P := fun d => Within s.vol s.dev.disk d [c] clean)
  obtain ⟨s', hrun, hcr⟩ := CrashFat.free_crash (clr s) c [] rfl hcoh hb hg hch
  rw [hrun]
  refine hcr.mono fun d hd => ?_
  rcases hd.1 with (hview | ⟨j, _, hst⟩) | hst
  · exact hview.within _ _
  · exact hst.within.mono (fun y hy => by
      rcases List.mem_append.1 hy with hy | hy
      · exact hy
      · rw [List.take_nil] at hy; cases hy) (fun _ h => h)
  · exact hst.within.mono (fun y hy => by simpa using hy) (fun _ h => h)

/-- … from a state whose cache is coherent at the FAT block of `c`, or does not hold that block. -/
theorem free_any_coh (t : FS) (c : Nat) (hb : BlocksOK t.dev.disk) (hg : WFGeom t.vol) (hch : Chain t.vol t.dev.disk c [c])
    (hcoh : t.cache.tag = some (fatBlock t.vol c) → t.cache.blk = t.dev.disk.get (fatBlock t.vol c)) :
    Within t.vol t.dev.disk (freeClusterChain c t).2.dev.disk [c] clean := by
  obtain ⟨h2, hU⟩ := range_bounds hg (ChainL.chain_inRange hch c List.mem_cons_self)
  by_cases htag : t.cache.tag = some (fatBlock t.vol c)
  · refine free_coh t c hb hg hch fun i hi => ?_
    have : i = fatBlock t.vol c := Option.some.inj (hi.symm.trans htag)
    rw [this]; exact hcoh htag
  · rw [free_untag h2 hU htag]
    exact free_coh (untag t) c hb hg hch fun i hi => by cases hi



end Sdmmc.Lemmas.FaultInv
