/-
C11 — the handle tables after a failed call: every method except `close_file` (which removes
its handle whatever the flush returned) leaves the open handles exactly as they were whenever
it does not return `Ok`.
-/
import Sdmmc.Lemmas.FaultFrame

namespace Sdmmc.Lemmas.Fault

open Sdmmc.Model Sdmmc.Gen

/-- The open handles: volumes, directories, files. -/
def handles (s : Mgr) : List Nat × List Nat × List Nat :=
  (s.vols.map (·.rawVolume), s.dirs.map (·.rawDirectory), s.files.map (·.rawFile))

/-- The three tables hold the same handles. -/
def HSame (s s' : Mgr) : Prop := handles s' = handles s
instance : RelOK HSame := ⟨fun _ => rfl, fun h1 h2 => Eq.trans h2 h1⟩

/-- The file table is untouched. -/
def FilesSame (s s' : Mgr) : Prop := s'.files = s.files
instance : RelOK FilesSame := ⟨fun _ => rfl, fun h1 h2 => Eq.trans h2 h1⟩

theorem map_set_same {α β} (f : α → β) (l : List α) (i : Nat) (x y : α) (h : l[i]? = some x) (hf : f y = f x) :
    (l.set i y).map f = l.map f := by
  apply List.ext_getElem?
  intro j
  rw [List.getElem?_map, List.getElem?_map, List.getElem?_set]
  by_cases hij : i = j
  · subst hij
    rw [if_pos rfl, h]
    have hlt : i < l.length := by
      rcases Nat.lt_or_ge i l.length with hlt | hge
      · exact hlt
      · rw [List.getElem?_eq_none hge] at h; cases h
    rw [if_pos hlt]
    simp only [Option.map_some, hf]
  · rw [if_neg hij]

theorem map_modify_same {α β} (f : α → β) (l : List α) (i : Nat) (g : α → α) (hg : ∀ x, f (g x) = f x) :
    (l.modify i g).map f = l.map f := by
  apply List.ext_getElem?
  intro j
  rw [List.getElem?_map, List.getElem?_map, List.getElem?_modify]
  cases l[j]? with
  | none => rfl
  | some x =>
    simp only [Option.map_some, Functor.map]
    by_cases hij : i = j
    · rw [if_pos hij, hg]
    · rw [if_neg hij]

instance : WithVolOK HSame where
  withVol := fun i f s => by
    rcases withVol_cases i f s with ⟨_, he⟩ | ⟨vi, hv, he⟩
    · rw [he]; rfl
    · rw [he]
      unfold HSame handles
      simp only
      congr 1
      exact map_set_same (·.rawVolume) s.vols i vi
        { vi with vol := (f { dev := s.dev, cache := s.cache, vol := vi.vol }).2.vol } hv rfl

instance : WithVolOK FilesSame where
  withVol := fun i f s => by
    rcases withVol_cases i f s with ⟨_, he⟩ | ⟨vi, hv, he⟩
    · rw [he]; rfl
    · rw [he]; rfl

theorem HSame.generate : M.Inv HSame generate := fun _ => rfl
theorem FilesSame.generate : M.Inv FilesSame generate := fun _ => rfl

theorem HSame.modifyFile (i : Nat) {g : FileInfo → FileInfo} (hg : ∀ x, (g x).rawFile = x.rawFile) :
    M.Inv HSame (Model.modifyFile i g) := by
  intro s
  show handles _ = handles s
  unfold handles Model.modifyFile M.modify
  simp only
  rw [map_modify_same (·.rawFile) s.files i g hg]

theorem HSame.rdBlock (idx : Nat) : M.Inv HSame (rdBlock idx) := fun _ => rfl

/-- When `m` does not return `Ok`, the handle tables are as before. -/
def HOnFail {α} (m : M α) : Prop := ∀ s, (∀ a, (m s).1 ≠ .ok a) → handles (m s).2 = handles s

theorem HOnFail.of_pres {α} {m : M α} (h : M.Inv HSame m) : HOnFail m := fun s _ => h s

theorem HOnFail.of_alwaysOk {α} {m : M α} (h : ∀ s, ∃ a, (m s).1 = .ok a) : HOnFail m := by
  intro s hs
  obtain ⟨a, ha⟩ := h s
  exact absurd ha (hs a)

theorem HOnFail.bind {α β} {m : M α} {f : α → M β} (hm : M.Inv HSame m) (hf : ∀ a, HOnFail (f a)) :
    HOnFail (m >>= f) := by
  intro s h
  have hms : handles _ = handles s := hm s
  rcases hr : m s with ⟨r, s'⟩
  rw [hr] at hms
  cases r with
  | ok a =>
    rw [M.bind_ok hr] at h ⊢
    rw [hf a s' h]; exact hms
  | err e => rw [M.bind_err hr]; exact hms
  | panic msg => rw [M.bind_panic hr]; exact hms
  | diverged => rw [M.bind_diverged hr]; exact hms

macro "hfault_step" : tactic => `(tactic| first
  | with_reducible first
    | exact HSame.generate
    | exact FilesSame.generate
    | exact HSame.modifyFile _ (fun _ => rfl)
  | exact HSame.rdBlock _
  | exact HSame.modifyFile _ (fun _ => by (try dsimp only); split <;> rfl)
  | exact HOnFail.of_alwaysOk (fun _ => ⟨_, rfl⟩)
  | apply HOnFail.bind
  | mfault_step
  | with_reducible apply HOnFail.of_pres)

macro "hfault_auto" : tactic => `(tactic| repeat hfault_step)

theorem openRawVolume_hfail (i : Nat) : HOnFail (openRawVolume i) := by
  unfold openRawVolume; hfault_auto

theorem openRootDir_hfail (v : Nat) : HOnFail (openRootDir v) := by
  unfold openRootDir; hfault_auto

theorem openDir_hfail (d : Nat) (name : List Nat) : HOnFail (openDir d name) := by
  unfold openDir; hfault_auto

theorem closeDir_hfail (d : Nat) : HOnFail (closeDir d) := by
  unfold closeDir; hfault_auto

theorem closeVolume_hfail (v : Nat) : HOnFail (closeVolume v) := by
  unfold closeVolume; hfault_auto

theorem findDirectoryEntry_hsame (d : Nat) (name : List Nat) : M.Inv HSame (Model.findDirectoryEntry d name) := by
  unfold Model.findDirectoryEntry; hfault_auto

theorem iterateDir_hsame (d : Nat) : M.Inv HSame (iterateDir d) := by
  unfold iterateDir; hfault_auto

theorem iterateDirLfn_hsame (d n : Nat) : M.Inv HSame (iterateDirLfn d n) := by
  unfold iterateDirLfn; hfault_auto

theorem openFileInDir_hfail (d : Nat) (name : List Nat) (mode : Mode) : HOnFail (openFileInDir d name mode) := by
  unfold openFileInDir; hfault_auto

theorem deleteFileInDir_hsame (d : Nat) (name : List Nat) : M.Inv HSame (deleteFileInDir d name) := by
  unfold deleteFileInDir; hfault_auto

theorem makeDirInDir_hsame (d : Nat) (name : List Nat) : M.Inv HSame (makeDirInDir d name) := by
  unfold makeDirInDir; hfault_auto

theorem readLoop_hsame (fi vi start fuel space : Nat) (acc : Bytes) :
    M.Inv HSame (readLoop fi vi start fuel space acc) := by
  induction fuel generalizing space acc with
  | zero => unfold readLoop; hfault_auto
  | succ n ih => unfold readLoop; hfault_auto

theorem read_hsame (f n : Nat) : M.Inv HSame (Model.read f n) := by
  have := readLoop_hsame
  unfold Model.read; hfault_auto

theorem writeLoop_hsame (fi vi fuel : Nat) (buf : Bytes) : M.Inv HSame (writeLoop fi vi fuel buf) := by
  induction fuel generalizing buf with
  | zero => unfold writeLoop; hfault_auto
  | succ n ih => unfold writeLoop; hfault_auto

theorem write_hsame (f : Nat) (buf : Bytes) : M.Inv HSame (write f buf) := by
  have := writeLoop_hsame
  unfold write; hfault_auto

theorem flushFile_hsame (f : Nat) : M.Inv HSame (flushFile f) := by
  unfold flushFile; hfault_auto

theorem flushFile_filesSame (f : Nat) : M.Inv FilesSame (flushFile f) := by
  unfold flushFile; hfault_auto

theorem fileEof_hsame (f : Nat) : M.Inv HSame (fileEof f) := by unfold fileEof; hfault_auto
theorem fileLength_hsame (f : Nat) : M.Inv HSame (fileLength f) := by unfold fileLength; hfault_auto
theorem fileOffset_hsame (f : Nat) : M.Inv HSame (fileOffset f) := by unfold fileOffset; hfault_auto
theorem fileSeekFromStart_hfail (f n : Nat) : HOnFail (fileSeekFromStart f n) := by
  unfold fileSeekFromStart; hfault_auto
theorem fileSeekFromCurrent_hfail (f : Nat) (n : Int) : HOnFail (fileSeekFromCurrent f n) := by
  unfold fileSeekFromCurrent; hfault_auto
theorem fileSeekFromEnd_hfail (f n : Nat) : HOnFail (fileSeekFromEnd f n) := by
  unfold fileSeekFromEnd; hfault_auto

theorem swapRemove_map {α β} (f : α → β) (l : List α) (i : Nat) :
    (swapRemove l i).map f = swapRemove (l.map f) i := by
  unfold swapRemove
  rw [List.getLast?_map, List.getElem?_map]
  cases h1 : l.getLast? with
  | none => simp
  | some last =>
    cases h2 : l[i]? with
    | none => simp
    | some x =>
      simp only [Option.map_some, List.length_map]
      split
      · rw [List.map_dropLast]
      · rw [List.map_dropLast, List.map_set]

theorem findIdx?_map_eq {α} (f : α → Nat) (a : Nat) (l : List α) :
    l.findIdx? (fun x => decide (f x = a)) = (l.map f).findIdx? (fun y => decide (y = a)) := by
  rw [List.findIdx?_map]
  rfl

theorem swapRemove_concat (A : List Nat) (a i : Nat)
    (h : (A ++ [a]).findIdx? (fun y => decide (y = a)) = some i) : swapRemove (A ++ [a]) i = A := by
  rw [List.findIdx?_eq_some_iff_getElem] at h
  obtain ⟨hlt, hp, _⟩ := h
  have hpa : (A ++ [a])[i] = a := by simpa using hp
  unfold swapRemove
  rw [List.getLast?_concat, List.getElem?_eq_getElem hlt]
  simp only [List.length_append, List.length_singleton, Nat.add_sub_cancel]
  split
  · exact List.dropLast_concat
  · next hne =>
    have hi : i < A.length := by
      simp only [List.length_append, List.length_singleton] at hlt; omega
    rw [List.set_append_left _ _ hi, List.dropLast_concat]
    rw [List.getElem_append_left hi] at hpa
    rw [← hpa]
    exact List.set_getElem_self hi

theorem openRootDir_eq (v : Nat) (s : Mgr) : openRootDir v s =
    if s.dirs.length ≥ s.maxDirs then
      (.err .TooManyOpenDirs, { s with nextId := (s.nextId + 1) % 4294967296 })
    else
      (.ok s.nextId, { s with nextId := (s.nextId + 1) % 4294967296,
                              dirs := s.dirs ++ [{ rawDirectory := s.nextId, rawVolume := v, cluster := CLUSTER_ROOT_DIR }] }) := by
  simp only [openRootDir, M.bind_apply, generate, M.get]
  split <;> rfl

theorem closeDir_after_push (s : Mgr) (A : List Nat) (id : Nat) (h : s.dirs.map (·.rawDirectory) = A ++ [id]) :
    handles (closeDir id s).2 = (s.vols.map (·.rawVolume), A, s.files.map (·.rawFile)) := by
  simp only [closeDir, M.bind_apply, M.get]
  have hf := findIdx?_map_eq (fun x : DirInfo => x.rawDirectory) id s.dirs
  rw [h] at hf
  cases hi : List.findIdx? (fun y => decide (y = id)) (A ++ [id]) with
  | none =>
    rw [List.findIdx?_eq_none_iff] at hi
    have := hi id (by simp)
    simp at this
  | some i =>
    rw [hi] at hf
    rw [hf]
    simp only [M.modify, handles]
    rw [swapRemove_map, h, swapRemove_concat A id i hi]

theorem getRootVolumeLabel_hsame (v : Nat) : M.Inv HSame (getRootVolumeLabel v) := by
  unfold getRootVolumeLabel
  refine M.Inv.bind (M.Inv.getVolumeById _) fun volIdx => ?_
  refine M.Inv.bind (M.Inv.getVolInfo _) fun vi => ?_
  split
  · exact M.Inv.pure _
  · intro s
    show handles _ = handles s
    rw [M.bind_apply, openRootDir_eq]
    by_cases hfull : s.dirs.length ≥ s.maxDirs
    · rw [if_pos hfull]; rfl
    · rw [if_neg hfull]
      simp only
      rw [M.attempt_bind_apply, M.attempt_bind_apply]
      generalize hs1 : ({ s with nextId := (s.nextId + 1) % 4294967296,
                                  dirs := s.dirs ++ [{ rawDirectory := s.nextId, rawVolume := v, cluster := CLUSTER_ROOT_DIR }] } : Mgr) = s1
      have h1 : handles s1 = (s.vols.map (·.rawVolume), s.dirs.map (·.rawDirectory) ++ [s.nextId], s.files.map (·.rawFile)) := by
        subst hs1; simp [handles]
      have h2 : handles (iterateDir s.nextId s1).2 = handles s1 := iterateDir_hsame s.nextId s1
      generalize (iterateDir s.nextId s1).2 = s2 at h2
      generalize (iterateDir s.nextId s1).1 = r
      rw [h1] at h2
      have h3 := closeDir_after_push s2 (s.dirs.map (·.rawDirectory)) s.nextId (by
        have := congrArg (·.2.1) h2; exact this)
      have h4 : ∀ s', (((M.lift r : M (List DirEntry)) >>= fun es =>
          (pure ((es.find? fun e => e.attributes = ATTR_VOLUME).map (·.name)) : M (Option Bytes))) s').2 = s' := by
        intro s'; cases r <;> rfl
      rw [h4, h3]
      have ha := congrArg (·.1) h2
      have hb := congrArg (·.2.2) h2
      simp only [handles] at ha hb ⊢
      rw [ha, hb]

theorem swapRemove_length {α} (l : List α) (i : Nat) (h : i < l.length) :
    (swapRemove l i).length + 1 = l.length := by
  unfold swapRemove
  rw [List.getElem?_eq_getElem h]
  cases hl : l.getLast? with
  | none =>
    rw [List.getLast?_eq_none_iff] at hl
    subst hl; simp at h
  | some last =>
    simp only
    split
    · rw [List.length_dropLast]; omega
    · rw [List.length_dropLast, List.length_set]; omega

/-- `close_file` on an open handle: the result is the flush result — also when the flush failed —
and the handle is removed from the file table whatever that result was. -/
theorem closeFile_handles (f : Nat) (s : Mgr) (i : Nat)
    (hi : s.files.findIdx? (fun x => decide (x.rawFile = f)) = some i) :
    (closeFile f s).1 = (flushFile f s).1 ∧
    handles (closeFile f s).2 = ((handles s).1, (handles s).2.1, swapRemove (handles s).2.2 i) := by
  unfold closeFile
  rw [M.attempt_bind_apply]
  have h1 : (flushFile f s).2.files = s.files := flushFile_filesSame f s
  have h2 : handles (flushFile f s).2 = handles s := flushFile_hsame f s
  generalize (flushFile f s).2 = s2 at h1 h2
  generalize (flushFile f s).1 = r
  have hg : getFileById f s2 = (.ok i, s2) := by
    unfold getFileById; rw [h1, hi]
  rw [M.bind_ok hg]
  constructor
  · cases r <;> rfl
  · have hst : ((M.modify (fun s => { s with files := swapRemove s.files i }) >>= fun _ => (M.lift r : M Unit)) s2).2
        = { s2 with files := swapRemove s2.files i } := by cases r <;> rfl
    rw [hst, ← h2]
    simp only [handles]
    rw [swapRemove_map]

theorem HOnFail.map {α β} {m : M α} (g : α → β) (h : HOnFail m) : HOnFail (m >>= fun a => pure (g a)) := by
  intro s hs
  rcases hr : m s with ⟨r, s'⟩
  cases r with
  | ok a => rw [M.bind_ok hr] at hs; exact absurd rfl (hs (g a))
  | err e => rw [M.bind_err hr]; have := h s (by rw [hr]; intro a ha; cases ha); rw [hr] at this; exact this
  | panic msg => rw [M.bind_panic hr]; have := h s (by rw [hr]; intro a ha; cases ha); rw [hr] at this; exact this
  | diverged => rw [M.bind_diverged hr]; have := h s (by rw [hr]; intro a ha; cases ha); rw [hr] at this; exact this

/-- Every operation except `closeFile`: when it does not return `Ok`, the handle tables are as before. -/
theorem runOp_hfail (op : Op) (hop : ∀ f, op ≠ .closeFile f) : HOnFail (runOp op) := by
  cases op <;> unfold runOp
  case closeFile f => exact absurd rfl (hop f)
  case openVolume i => exact .map _ (openRawVolume_hfail i)
  case closeVolume v => exact .map _ (closeVolume_hfail v)
  case openRoot v => exact .map _ (openRootDir_hfail v)
  case openDir d n => exact .map _ (openDir_hfail d n)
  case closeDir d => exact .map _ (closeDir_hfail d)
  case openFile d n m => exact .map _ (openFileInDir_hfail d n m)
  case read f n => exact .map _ (.of_pres (read_hsame f n))
  case write f b => exact .map _ (.of_pres (write_hsame f b))
  case seekStart f n => exact .map _ (fileSeekFromStart_hfail f n)
  case seekCur f n => exact .map _ (fileSeekFromCurrent_hfail f n)
  case seekEnd f n => exact .map _ (fileSeekFromEnd_hfail f n)
  case flush f => exact .map _ (.of_pres (flushFile_hsame f))
  case delete d n => exact .map _ (.of_pres (deleteFileInDir_hsame d n))
  case mkdir d n => exact .map _ (.of_pres (makeDirInDir_hsame d n))
  case find d n => exact .map _ (.of_pres (findDirectoryEntry_hsame d n))
  case list d => exact .map _ (.of_pres (iterateDir_hsame d))
  case listLfn d n => exact .map _ (.of_pres (iterateDirLfn_hsame d n))
  case length f => exact .map _ (.of_pres (fileLength_hsame f))
  case offset f => exact .map _ (.of_pres (fileOffset_hsame f))
  case eof f => exact .map _ (.of_pres (fileEof_hsame f))
  case hasOpen => exact .of_pres (M.Inv.of_eq fun _ => rfl)
  case label v => exact .map _ (.of_pres (getRootVolumeLabel_hsame v))

theorem step_hfail (s : Mgr) (op : Op) (hop : ∀ f, op ≠ .closeFile f)
    (hres : ∀ p, (step s op).2.result ≠ .ok p) : handles (step s op).1 = handles s := by
  unfold step at hres ⊢
  by_cases hl : s.locked = true
  · rw [if_pos hl]; split <;> rfl
  · rw [if_neg hl] at hres ⊢
    exact runOp_hfail op hop { s with dev := { s.dev with wlog := [], rlog := [] } } hres

/-- The state an unlocked `step` runs the operation in: the per-call logs are cleared. -/
def resetLogs (s : Mgr) : Mgr := { s with dev := { s.dev with wlog := [], rlog := [] } }

theorem step_unlocked (s : Mgr) (op : Op) (hl : s.locked = false) :
    (step s op).1 = (runOp op (resetLogs s)).2 ∧ (step s op).2.result = (runOp op (resetLogs s)).1 := by
  unfold step
  have hn : ¬ (s.locked = true) := by rw [hl]; exact Bool.false_ne_true
  rw [if_neg hn]
  exact ⟨rfl, rfl⟩

theorem step_closeFile (s : Mgr) (f i : Nat) (hl : s.locked = false)
    (hi : s.files.findIdx? (fun x => decide (x.rawFile = f)) = some i) :
    (∀ e, (flushFile f (resetLogs s)).1 = .err e → (step s (.closeFile f)).2.result = .err e) ∧
    handles (step s (.closeFile f)).1 = ((handles s).1, (handles s).2.1, swapRemove (handles s).2.2 i) := by
  obtain ⟨hs1, hs2⟩ := step_unlocked s (.closeFile f) hl
  rw [hs1, hs2]
  have hrun : runOp (.closeFile f) = (closeFile f >>= fun _ => pure Payload.unit) := rfl
  rw [hrun]
  obtain ⟨h1, h2⟩ := closeFile_handles f (resetLogs s) i hi
  have h3 : handles (resetLogs s) = handles s := rfl
  rw [h3] at h2
  generalize (flushFile f (resetLogs s)).1 = fr at h1
  rcases hc : closeFile f (resetLogs s) with ⟨r, s'⟩
  rw [hc] at h1 h2
  simp only at h1 h2
  subst h1
  constructor
  · intro e he
    subst he
    rw [M.bind_err hc]
  · cases r with
    | ok a => rw [M.bind_ok hc]; exact h2
    | err e => rw [M.bind_err hc]; exact h2
    | panic msg => rw [M.bind_panic hc]; exact h2
    | diverged => rw [M.bind_diverged hc]; exact h2

end Sdmmc.Lemmas.Fault
