/-
Continuing after a crash, part 1: MOUNTING A CRASHED MEDIUM ESTABLISHES THE INVARIANT OF HISTORIES UNDER FAULTS.
`treeOK_of_loose`: the directory tree of a crash-consistent medium on which file entries without a cluster are empty
is `TreeOK` for a cluster size of 2^32 bytes (the clause `sizes` of `FaultInv`); `medFault_of_crash`;
`crash_mount_faultInv`: a fresh manager's `open_raw_volume` on such a medium; `crash_mount_faultInvL` (lost clusters
not grouped into chains: the proposed `FaultInvL`); `crash_mount_medX` (when all stored sizes fit: nothing weakened).
-/
import Sdmmc.Spec.VolumeResidue
import Sdmmc.Lemmas.MountedInv
import Sdmmc.Lemmas.VolCrashBase
import Sdmmc.Lemmas.VolApiMount

namespace Sdmmc.Lemmas.CrashCont
open Sdmmc.Model Sdmmc.Model.Fat Sdmmc.Spec Sdmmc.Spec.Volume
open Sdmmc.Lemmas.VolMed Sdmmc.Lemmas.VolTree
open Sdmmc.Lemmas.ReadRefines (MgrOK)
open Sdmmc.Lemmas.Mounted (FreshMgr)

/-! ### The tree -/

theorem pendOf_nil (o : Slot) : pendOf [] o = none := rfl
theorem effCluster_nil (ft : FatType) (o : Slot) : effCluster ft [] o = sCluster ft o := rfl
theorem effSize_nil (o : Slot) : effSize [] o = sSize o := rfl

/-- A cluster that heads a list of `G` has a non-empty `chainOf`. -/
theorem chainOf_ne_nil {G : List (List Nat)} {c : Nat} (hc : c ≠ 0) (h : c ∈ G.map fun cs => cs.headD 0) :
    chainOf G c ≠ [] := by
  obtain ⟨cs, hcs, he⟩ := List.mem_map.1 h
  have hhead : cs.head? = some c := by
    cases cs with
    | nil => exact absurd he.symm hc
    | cons a t => simp only [List.headD_cons] at he; rw [he]; rfl
  unfold chainOf
  cases hf : G.find? (fun cs => cs.head? = some c) with
  | none =>
    have := List.find?_eq_none.1 hf cs hcs
    simp [hhead] at this
  | some cs' =>
    have hp := List.find?_some hf
    intro e
    have e' : cs' = [] := e
    rw [e'] at hp
    simp at hp

/-- **The tree of a crash-consistent medium is `TreeOK` up to the upper bound on sizes.** -/
theorem treeOK_of_loose {ft : FatType} {root : List Nat} {G : List (List Nat)} {dirs : List (Nat × Nat)}
    {slots : Nat → List Slot} (hT : TreeLoose ft root G dirs slots) (hE : EmptyNoCluster ft dirs slots) :
    TreeOK ft 4294967296 root G dirs slots [] := by
  refine
    { cleanTail := hT.cleanTail, names := hT.names, order := hT.order, dots := hT.dots, subdirs := hT.subdirs
      dirRefs := hT.dirRefs, allRefs := hT.allRefs, sizes := ?_
      fileSlots := fun f hf => (by cases hf), fileAttrs := fun f hf => (by cases hf), filesDistinct := List.nodup_nil }
  intro h hh o ho hd
  rw [effCluster_nil, effSize_nil]
  by_cases hc : sCluster ft o = 0
  · exact .inl ⟨hc, hE h hh o ho hd hc⟩
  · refine .inr ⟨hc, ?_⟩
    have hmem : sCluster ft o ∈ G.map fun cs => cs.headD 0 := by
      refine hT.allRefs.subset ?_
      refine List.mem_append_right _ (List.mem_flatMap.2 ⟨h, hh, ?_⟩)
      unfold fileRefs
      refine List.mem_filter.2 ⟨List.mem_map.2 ⟨o, List.mem_filter.2 ⟨ho, by simp [hd]⟩, rfl⟩, by simpa using hc⟩
    have hne := chainOf_ne_nil hc hmem
    have hl : 1 ≤ (chainOf G (sCluster ft o)).length := by
      cases hch : chainOf G (sCluster ft o) with
      | nil => exact absurd hch hne
      | cons a t => simp
    have := VolMed.sSize_lt o
    calc sSize o ≤ 1 * 4294967296 := by omega
      _ ≤ (chainOf G (sCluster ft o)).length * 4294967296 := Nat.mul_le_mul_right _ hl

/-- … and `TreeOK` for the volume's own cluster size when the stored sizes fit. -/
theorem treeOK_of_fit {v : FatVolume} {d : Disk} {gh : Ghost} (hT : TreeLoose v.fatType (rootHead v) gh.G gh.dirs (dirSlots v d gh.G))
    (hE : EmptyNoCluster v.fatType gh.dirs (dirSlots v d gh.G)) (hS : SizesFit v d gh) :
    TreeOK v.fatType (clusterBytesLen v) (rootHead v) gh.G gh.dirs (dirSlots v d gh.G) [] := by
  refine
    { cleanTail := hT.cleanTail, names := hT.names, order := hT.order, dots := hT.dots, subdirs := hT.subdirs
      dirRefs := hT.dirRefs, allRefs := hT.allRefs, sizes := ?_
      fileSlots := fun f hf => (by cases hf), fileAttrs := fun f hf => (by cases hf), filesDistinct := List.nodup_nil }
  intro h hh o ho hd
  rw [effCluster_nil, effSize_nil]
  by_cases hc : sCluster v.fatType o = 0
  · exact .inl ⟨hc, hE h hh o ho hd hc⟩
  · exact .inr ⟨hc, hS h hh o ho hd hc⟩

/-! ### The medium -/

theorem mountPure_hintOK {mbr : Bytes} {idx : Nat} {fetch : Nat → Bytes} {v : FatVolume}
    (h : mountPure mbr idx fetch = .ok v) : HintOK v := by
  obtain ⟨pt, lba, nb, v0, _, _, hbpb, hcase⟩ := Reopen.mountPure_ok h
  rcases hcase with ⟨_, rfl⟩ | ⟨_, hinfo⟩
  · intro n hn
    rw [VolApi.parseVolumeBpb_hint hbpb] at hn
    cases hn
  · exact VolApi.parseVolumeInfo_hint hinfo

section
variable {v vm : FatVolume} {d : Disk} {gh : Ghost} {X : List (List Nat)}

theorem rootHead_sameGeom (hs : SameGeom v vm) : rootHead vm = rootHead v := by
  obtain ⟨a, b, rfl⟩ := hs; rfl

theorem slots_sameGeom (hs : SameGeom v vm) : dirSlots vm d gh.G = dirSlots v d gh.G :=
  funext fun h => dirSlots_sameGeom hs d gh.G h

/-- The medium under the mounted record `vm`: `MedFault` with the lost chains `X`. -/
theorem medFault_of_crash (hC : CrashInvX v d gh X) (hs : SameGeom v vm) (hh : HintOK vm) :
    MedFault vm d [] { gh with vol := vm } X := by
  refine ⟨hC.inv.blocksOK, hs.wfGeom hC.inv.geom, hh, WriteRefines.owns_sameGeom hs hC.lost, ⟨4294967296, ?_⟩,
    fun f hf => (by cases hf)⟩
  show TreeOK vm.fatType 4294967296 (rootHead vm) gh.G gh.dirs (dirSlots vm d gh.G) []
  rw [hs.fatType, rootHead_sameGeom hs, slots_sameGeom hs]
  exact treeOK_of_loose hC.inv.tree hC.empty

/-- … `MedFaultL` without any hypothesis on the lost clusters. -/
theorem medFaultL_of_crash (hC : CrashInv v d gh) (hE : EmptyNoCluster v.fatType gh.dirs (dirSlots v d gh.G))
    (hs : SameGeom v vm) (hh : HintOK vm) : MedFaultL vm d [] { gh with vol := vm } := by
  refine ⟨hC.blocksOK, hs.wfGeom hC.geom, hh, CrashBase.ownsLoose_sameGeom hs hC.owns, ⟨4294967296, ?_⟩,
    fun f hf => (by cases hf)⟩
  show TreeOK vm.fatType 4294967296 (rootHead vm) gh.G gh.dirs (dirSlots vm d gh.G) []
  rw [hs.fatType, rootHead_sameGeom hs, slots_sameGeom hs]
  exact treeOK_of_loose hC.tree hE

/-- … and `MedX` (nothing weakened but the lost chains) when the stored sizes fit. -/
theorem medX_of_crash (hC : CrashInvX v d gh X) (hS : SizesFit v d gh) (hs : SameGeom v vm) (hh : HintOK vm) :
    MedX vm d [] { gh with vol := vm } X := by
  refine ⟨hC.inv.blocksOK, hs.wfGeom hC.inv.geom, hh, WriteRefines.owns_sameGeom hs hC.lost, ?_, fun f hf => (by cases hf)⟩
  show TreeOK vm.fatType (clusterBytesLen vm) (rootHead vm) gh.G gh.dirs (dirSlots vm d gh.G) []
  rw [hs.fatType, rootHead_sameGeom hs, slots_sameGeom hs, WriteRefines.sameGeom_clusterBytesLen hs]
  exact treeOK_of_fit hC.inv.tree hC.empty hS

end

/-! ### The mount -/

/-- What a successful `open_raw_volume idx` of a fresh manager `t0` leaves: the state `t1`. -/
structure Mounted (t0 : Mgr) (idx : Nat) (vm : FatVolume) (t1 : Mgr) : Prop where
  run : openRawVolume idx t0 = (.ok t0.nextId, t1)
  disk : t1.dev.disk = t0.dev.disk
  wlog : t1.dev.wlog = t0.dev.wlog
  noFault : t1.dev.faults = []
  coherent : ∀ i, t1.cache.tag = some i → t1.cache.blk = t1.dev.disk.get i
  unlocked : t1.locked = false
  vols : t1.vols = [{ rawVolume := t0.nextId, idx := idx, vol := vm }]
  dirs : t1.dirs = []
  files : t1.files = []
  nextId : t1.nextId = (t0.nextId + 1) % 4294967296
  maxVols : t1.maxVols = 1
  maxDirs : t1.maxDirs = t0.maxDirs
  maxFiles : t1.maxFiles = t0.maxFiles
  clock : t1.clock = t0.clock

/-- A fresh manager on a medium that mounts (all blocks of 512 bytes): the call succeeds. -/
theorem mounted_of_mountPure {t0 : Mgr} {idx : Nat} {vm : FatVolume} (hfr : FreshMgr t0) (hb : BlocksOK t0.dev.disk)
    (hm : mountPure (t0.dev.disk.get 0) idx t0.dev.disk.get = .ok vm) : ∃ t1, Mounted t0 idx vm t1 := by
  have hs : MgrOK t0 := ⟨hfr.noFault, hfr.coherent, hb, hfr.unlocked⟩
  obtain ⟨t1, hrun, heq, hd, hw, hok1⟩ := Reopen.openRawVolume_spec t0 idx vm hs (by rw [hfr.vols, hfr.maxVols]; decide)
    (by rw [hfr.vols]; rfl) hm
  obtain ⟨a, b, _, e⟩ := hok1
  refine ⟨t1, hrun, hd, hw, a, b, e, ?_, ?_, ?_, ?_, ?_, ?_, ?_, ?_⟩
  · rw [heq, hfr.vols]; rfl
  · rw [heq]; exact hfr.dirs
  · rw [heq]; exact hfr.files
  · rw [heq]
  · rw [heq]; exact hfr.maxVols
  · rw [heq]
  · rw [heq]
  · rw [heq]

/-- **Mounting a crashed medium establishes `FaultInv`.** -/
theorem crash_mount_faultInv {t0 : Mgr} {idx : Nat} {v vm : FatVolume} {gh : Ghost} {X : List (List Nat)} (hfr : FreshMgr t0)
    (hC : CrashInvX v t0.dev.disk gh X) (hm : mountPure (t0.dev.disk.get 0) idx t0.dev.disk.get = .ok vm)
    (hs : SameGeom v vm) : ∃ t1, Mounted t0 idx vm t1 ∧ FaultInv t1 { gh with vol := vm } X := by
  obtain ⟨t1, hM⟩ := mounted_of_mountPure hfr hC.inv.blocksOK hm
  refine ⟨t1, hM, hM.coherent, hM.unlocked, hM.maxVols, .inr ⟨_, hM.vols, rfl⟩, ?_, ?_, ?_⟩
  · rw [hM.disk, hM.files]
    exact medFault_of_crash hC hs (mountPure_hintOK hm)
  · intro f hf; rw [hM.files] at hf; cases hf
  · intro di hdi; rw [hM.dirs] at hdi; cases hdi

/-- … `FaultInvL` (the proposed generalisation) from `CrashInv` and `EmptyNoCluster` alone. -/
theorem crash_mount_faultInvL {t0 : Mgr} {idx : Nat} {v vm : FatVolume} {gh : Ghost} (hfr : FreshMgr t0)
    (hC : CrashInv v t0.dev.disk gh) (hE : EmptyNoCluster v.fatType gh.dirs (dirSlots v t0.dev.disk gh.G))
    (hm : mountPure (t0.dev.disk.get 0) idx t0.dev.disk.get = .ok vm) (hs : SameGeom v vm) :
    ∃ t1, Mounted t0 idx vm t1 ∧ FaultInvL t1 { gh with vol := vm } := by
  obtain ⟨t1, hM⟩ := mounted_of_mountPure hfr hC.blocksOK hm
  refine ⟨t1, hM, hM.coherent, hM.unlocked, hM.maxVols, .inr ⟨_, hM.vols, rfl⟩, ?_, ?_, ?_⟩
  · rw [hM.disk, hM.files]
    exact medFaultL_of_crash hC hE hs (mountPure_hintOK hm)
  · intro f hf; rw [hM.files] at hf; cases hf
  · intro di hdi; rw [hM.dirs] at hdi; cases hdi

/-- `FaultInv` implies the proposed `FaultInvL`, whatever the lost chains. -/
theorem faultInvL_of_faultInv {s : Mgr} {gh : Ghost} {X : List (List Nat)} (h : FaultInv s gh X) : FaultInvL s gh := by
  have ho : OwnsLoose gh.vol s.dev.disk gh.G := by
    obtain ⟨h1, h2, h3⟩ := CrashBase.ownsLoose_of_owns h.med.owns
    refine ⟨fun cs hcs => h1 cs (List.mem_append_left _ hcs), ?_, fun c hc => h3 c ?_⟩
    · rw [List.flatten_append] at h2
      exact (List.nodup_append.1 h2).1
    · rw [List.flatten_append]; exact List.mem_append_left _ hc
  exact ⟨h.coherent, h.unlocked, h.maxVols, h.vols,
    ⟨h.med.blocksOK, h.med.geom, h.med.hint, ho, h.med.tree, h.med.fileOK⟩, h.fileVols, h.openDirs⟩

/-! ### The invariant with lost chains and nothing else weakened -/

/-- `VolInv` with lost chains `X` (the invariant proofW's `Lemmas.VolX.VolInvX` — same fields, same order). -/
structure VolInvLost (X : List (List Nat)) (s : Mgr) (gh : Ghost) : Prop where
  noFault : s.dev.faults = []
  coherent : ∀ i, s.cache.tag = some i → s.cache.blk = s.dev.disk.get i
  unlocked : s.locked = false
  maxVols : s.maxVols = 1
  vols : s.vols = [] ∨ ∃ vi, s.vols = [vi] ∧ vi.vol = gh.vol
  med : MedX gh.vol s.dev.disk s.files gh X
  fileVols : ∀ f, f ∈ s.files → ∃ vi, s.vols = [vi] ∧ f.rawVolume = vi.rawVolume
  openDirs : ∀ di, di ∈ s.dirs → ValidDir gh.dirs di.cluster

/-- Mounting a crashed medium whose stored sizes fit: only the lost chains remain of the residue. -/
theorem crash_mount_volInvLost {t0 : Mgr} {idx : Nat} {v vm : FatVolume} {gh : Ghost} {X : List (List Nat)} (hfr : FreshMgr t0)
    (hC : CrashInvX v t0.dev.disk gh X) (hS : SizesFit v t0.dev.disk gh)
    (hm : mountPure (t0.dev.disk.get 0) idx t0.dev.disk.get = .ok vm) (hs : SameGeom v vm) :
    ∃ t1, Mounted t0 idx vm t1 ∧ VolInvLost X t1 { gh with vol := vm } := by
  obtain ⟨t1, hM⟩ := mounted_of_mountPure hfr hC.inv.blocksOK hm
  refine ⟨t1, hM, hM.noFault, hM.coherent, hM.unlocked, hM.maxVols, .inr ⟨_, hM.vols, rfl⟩, ?_, ?_, ?_⟩
  · rw [hM.disk, hM.files]
    exact medX_of_crash hC hS hs (mountPure_hintOK hm)
  · intro f hf; rw [hM.files] at hf; cases hf
  · intro di hdi; rw [hM.dirs] at hdi; cases hdi

/-- `VolInvLost` implies `FaultInv` (as `VolInvF` does with `X = []`). -/
theorem faultInv_of_volInvLost {X : List (List Nat)} {s : Mgr} {gh : Ghost} (h : VolInvLost X s gh) : FaultInv s gh X :=
  ⟨h.coherent, h.unlocked, h.maxVols, h.vols,
    ⟨h.med.blocksOK, h.med.geom, h.med.hint, h.med.owns, ⟨_, h.med.tree⟩, fun f hf =>
      ⟨⟨(h.med.fileOK f hf).1.chain, (h.med.fileOK f hf).1.pos_le, (h.med.fileOK f hf).1.cursor⟩, (h.med.fileOK f hf).2⟩⟩,
    h.fileVols, h.openDirs⟩

end Sdmmc.Lemmas.CrashCont
