/-
C02 over arbitrary histories: the abstract counterpart of a state without open files is well formed
(`ainv_of_abs`): the open directories designate directories, every sub-directory entry names a directory,
stored creation times are at FAT resolution, and the stored size of every file is the length of its bytes.
-/
import Sdmmc.Lemmas.AbsFsRemount
import Sdmmc.Lemmas.AbsFsTimesRun

namespace Sdmmc.Lemmas.AbsFs
open Sdmmc.Model Sdmmc.Model.Fat Sdmmc.Spec.Volume Sdmmc.Lemmas.VolBase Sdmmc.Lemmas.VolTree
open Sdmmc.Spec hiding NoFault Coherent
open Sdmmc.Spec.AbsFs (Meta view storedMeta fatRound OpenFile OpenDir absStep absRun AInv Rounded)
open Sdmmc.Lemmas.VolDisk Sdmmc.Lemmas.VolMed Sdmmc.Lemmas.VolApi Sdmmc.Lemmas.VolEng
open Sdmmc.Lemmas.MHoare

theorem dirIdOf_valid {dirs : List (Nat × Nat)} {c : Nat} (h : ValidDir dirs c) : dirIdOf c ∈ dirIds dirs := by
  unfold dirIdOf dirIds
  by_cases hc : c = Gen.CLUSTER_ROOT_DIR
  · rw [if_pos hc]; exact List.mem_cons_self
  · rw [if_neg hc]
    rcases h with h | h
    · exact absurd h hc
    · exact List.mem_cons_of_mem _ h

theorem readU16_lt (d : Bytes) (o : Nat) : readU16 d o < 65536 := by
  unfold readU16 byteAt
  have h1 := (d.getD o 0).toNat_lt
  have h2 := (d.getD (o + 1) 0).toNat_lt
  omega

/-- The slot of an abstracted directory at index `j`. -/
theorem absSlots_get {s : Mgr} {gh : Ghost} {h j : Nat} {sl : ASlot} (hs : (absSlots s gh h)[j]? = some sl) :
    ∃ o, (beforeEnd (dirSlots gh.vol s.dev.disk gh.G h))[j]? = some o ∧
      sl = absSlot gh.vol.fatType (contentOf gh.vol s.dev.disk gh.G s.files) o := by
  unfold absSlots at hs
  rw [List.getElem?_map] at hs
  cases ho : (beforeEnd (dirSlots gh.vol s.dev.disk gh.G h))[j]? with
  | none => rw [ho] at hs; cases hs
  | some o => rw [ho] at hs; exact ⟨o, rfl, (Option.some.inj hs).symm⟩

/-- What kind of concrete slot an abstract sub-directory / file slot comes from. -/
theorem absSlot_dir_inv {ft : FatType} {cont : Slot → Bytes} {o : Slot} {m : Meta} {t : Nat} (h : absSlot ft cont o = .dir m t) :
    keep o = true ∧ isDirE o = true ∧ t = dirIdOf (Listing.decode ft o).cluster := by
  unfold absSlot at h
  unfold keep
  by_cases h1 : first o = 0xE5
  · rw [if_pos h1] at h; cases h
  · rw [if_neg h1] at h
    by_cases h2 : isFrag o = true
    · rw [if_pos h2] at h; cases h
    · rw [if_neg h2] at h
      by_cases h3 : isDirE o = true
      · rw [if_pos h3] at h
        injection h with _ ht
        exact ⟨by simp [h1, h2], h3, ht.symm⟩
      · rw [if_neg h3] at h; cases h

theorem absSlot_file_inv {ft : FatType} {cont : Slot → Bytes} {o : Slot} {m : Meta} {b : Bytes} (h : absSlot ft cont o = .file m b) :
    keep o = true ∧ isDirE o = false ∧ m = metaOf ft o ∧ b = cont o := by
  unfold absSlot at h
  unfold keep
  by_cases h1 : first o = 0xE5
  · rw [if_pos h1] at h; cases h
  · rw [if_neg h1] at h
    by_cases h2 : isFrag o = true
    · rw [if_pos h2] at h; cases h
    · rw [if_neg h2] at h
      by_cases h3 : isDirE o = true
      · rw [if_pos h3] at h; cases h
      · rw [if_neg h3] at h
        injection h with hm hb
        exact ⟨by simp [h1, h2], by simpa using h3, hm.symm, hb.symm⟩

/-- **The abstract counterpart of a state without open files is well formed.** -/
theorem ainv_of_abs {s : Mgr} {gh : Ghost} {a : AState} (hI : VolInv s gh) (hA : Abs s gh a) (hs : s.files = []) : AInv a := by
  have hM := medX_of_med hI.med
  have hfiles : a.files = [] := by
    have := forall₂_length hA.files
    rw [hs] at this
    exact List.eq_nil_of_length_eq_zero this
  have hentry : ∀ {h j : Nat} {o : Slot}, (beforeEnd (dirSlots gh.vol s.dev.disk gh.G h))[j]? = some o → keep o = true →
      o ∈ entries (dirSlots gh.vol s.dev.disk gh.G h) := by
    intro h j o ho hk
    rw [entries_eq]
    exact List.mem_filter.2 ⟨List.mem_of_getElem? ho, hk⟩
  refine ⟨hA.locked.trans hI.unlocked, ?_, ?_, ?_, ?_, ?_, ?_, ?_, ?_⟩
  · rw [hA.vols, List.length_map]
    rcases hI.vols with h | ⟨vi, h, _⟩ <;> rw [h] <;> simp
  · rw [hA.ids]; exact List.mem_cons_self
  · intro d hd
    rw [hA.dirs] at hd
    obtain ⟨di, hdi, rfl⟩ := List.mem_map.1 hd
    rw [hA.ids]
    exact dirIdOf_valid (hI.openDirs di hdi)
  · intro x hx j m t hsl
    rw [hA.ids] at hx ⊢
    rw [hA.slots x hx] at hsl
    obtain ⟨o, ho, he⟩ := absSlots_get hsl
    obtain ⟨hk, hd, rfl⟩ := absSlot_dir_inv he.symm
    exact dirIdOf_valid (dirEntry_valid hM hx (hentry ho hk) hd)
  · intro f hf; rw [hfiles] at hf; cases hf
  · rw [hfiles]; exact List.nodup_nil
  · intro x hx j m bytes hsl
    rw [hA.ids] at hx
    rw [hA.slots x hx] at hsl
    obtain ⟨o, _, he⟩ := absSlots_get hsl
    obtain ⟨_, _, rfl, _⟩ := absSlot_file_inv he.symm
    exact AbsFsTimes.fromFat_rounded _ _ (readU16_lt _ _) (readU16_lt _ _)
  · intro x hx j m bytes hsl _
    rw [hA.ids] at hx
    rw [hA.slots x hx] at hsl
    obtain ⟨o, ho, he⟩ := absSlots_get hsl
    obtain ⟨hk, hd, rfl, rfl⟩ := absSlot_file_inv he.symm
    have hoe := hentry ho hk
    have hobj : o ∈ objects x (dirSlots gh.vol s.dev.disk gh.G x) := by
      refine entry_object (ft := gh.vol.fatType) hoe hd ?_
      intro hx0
      rcases mem_dirIds.1 hx with e | ⟨p, hp⟩
      · exact absurd e hx0
      · obtain ⟨s0, s1, rest, hss, hd0, hd1⟩ := hI.med.tree.dots x p hp
        exact ⟨p, s0, s1, rest, hss, hd0, hd1⟩
    have hsz := hI.med.tree.sizes x hx o hobj hd
    show (metaOf gh.vol.fatType o).size = (contentOf gh.vol s.dev.disk gh.G s.files o).length
    have hm : (metaOf gh.vol.fatType o).size = sSize o := (decode_fields gh.vol.fatType o).2.2.1
    have heff : effSize s.files o = sSize o := by unfold effSize pendOf; rw [hs]; rfl
    rw [hm]
    unfold contentOf
    rw [heff] at hsz ⊢
    rw [Sdmmc.Lemmas.ChainL.fileContent_length _ _ _ _ hI.med.blocksOK]
    rcases hsz with ⟨_, h0⟩ | ⟨_, hle⟩
    · rw [h0]; exact Nat.zero_le _
    · exact hle

end Sdmmc.Lemmas.AbsFs
