/-
F-level lemmas about single FAT entries, used by `Props/C03.lean` and `Props/C09.lean`:

* `rawEntry` / `rawEntry2`: the raw FAT entry of a cluster in copy 1 / copy 2 of the FAT;
* `fatDisk_rawEntry_other`, `fatDisk_rawEntry2_other`: one FAT update leaves the raw entry of every
  other cluster of the volume alone (copy 2: when the copies were identical before);
* `updateFat_frame`: the same, for the state after `updateFat`;
* `zeroBlocks_disk`: the medium after blanking a run of blocks;
* `alloc_frame`: the medium after a successful allocation — the new cluster reads end-of-chain, the
  predecessor links to it, every other entry is as before, only FAT blocks and (when zeroing) the
  blocks of the new cluster changed;
* `truncate_first_write`, `truncate_noop`: the first write of `truncateClusterChain`;
* `Grows` for `truncateLoop` / `truncateClusterChain` / `freeClusterChain`.
-/
import Sdmmc.Lemmas.DirOps

namespace Sdmmc.Lemmas.DirFat
open Sdmmc.Model Sdmmc.Model.Fat Sdmmc.Spec Sdmmc.Lemmas.FBasic Sdmmc.Lemmas.FatOps Sdmmc.Lemmas.DirOps

/-- The raw FAT entry of cluster `c` in the first FAT copy of the medium. -/
def rawEntry (v : FatVolume) (d : Disk) (c : Nat) : Nat :=
  rawFatEntry v.fatType (d.get (fatBlock v c)) (fatEntOffset v c)

/-- The raw FAT entry of cluster `c` in the second FAT copy, when there is one. -/
def rawEntry2 (v : FatVolume) (d : Disk) (c : Nat) : Option Nat :=
  (fatBlock2 v c).map fun b2 => rawFatEntry v.fatType (d.get b2) (fatEntOffset v c)

theorem entryOnDisk_eq (v : FatVolume) (d : Disk) (c : Nat) :
    entryOnDisk v d c = (match v.fatType with | .fat16 => rawEntry v d c | .fat32 => rawEntry v d c % 268435456) := rfl

/-! ### Membership in the blocks of one FAT update -/

theorem mem_fatWrites (v : FatVolume) (c i : Nat) :
    i ∈ fatWrites v c ↔ i = fatBlock v c ∨ fatBlock2 v c = some i := by
  unfold fatWrites
  cases h : fatBlock2 v c with
  | none =>
    simp only [List.mem_cons, List.not_mem_nil, or_false]
    constructor
    · intro h'; exact .inl h'
    · rintro (h' | h')
      · exact h'
      · cases h'
  | some b =>
    simp only [List.mem_cons, List.not_mem_nil, or_false]
    constructor
    · rintro (h' | h')
      · exact .inl h'
      · exact .inr (by rw [h'])
    · rintro (h' | h')
      · exact .inl h'
      · exact .inr (Option.some.inj h').symm

theorem fatBlock_eq_iff (v : FatVolume) (c c' : Nat) : fatBlock v c = fatBlock v c' ↔ fatIdx v c = fatIdx v c' := by
  rw [fatBlock_eq_idx, fatBlock_eq_idx]; omega

/-! ### One FAT update and the other entries -/

/-- Copy 1: the raw entry of any other cluster of the volume is what it was. -/
theorem fatDisk_rawEntry_other (v : FatVolume) (d : Disk) (c c' val : Nat) (hg : WFGeom v)
    (hc' : c' < endCluster v) (hne : c ≠ c') (hb : BlocksOK d) :
    rawEntry v (fatDisk v d c (patchFatBlock v.fatType (d.get (fatBlock v c)) (fatEntOffset v c) val)) c' =
      rawEntry v d c' := by
  unfold rawEntry
  rw [fatDisk_get]
  by_cases hm : fatBlock v c' ∈ fatWrites v c
  · rw [if_pos hm]
    rcases (mem_fatWrites v c _).mp hm with heq | h2
    · rw [heq]
      exact FatLens.patch_get_other v.fatType _ (fatEntOffset v c) (fatEntOffset v c') val (hb _)
        (FatLens.fatEntOffset_le v c) (FatLens.fatEntOffset_disjoint v c c' hne heq.symm)
    · exact absurd rfl (fatBlock_ne_fatBlock2 v hg c' c _ hc' h2)
  · rw [if_neg hm]

/-- Copy 2: the same, provided the two copies were identical before (`update_fat` copies the whole
sector of copy 1 into copy 2). -/
theorem fatDisk_rawEntry2_other (v : FatVolume) (d : Disk) (c c' val : Nat) (hg : WFGeom v)
    (hc : c < endCluster v) (hc' : c' < endCluster v) (hne : c ≠ c') (hb : BlocksOK d) (hmir : Mirror v d) :
    rawEntry2 v (fatDisk v d c (patchFatBlock v.fatType (d.get (fatBlock v c)) (fatEntOffset v c) val)) c' =
      rawEntry2 v d c' := by
  unfold rawEntry2
  cases h2' : fatBlock2 v c' with
  | none => rfl
  | some b2' =>
    simp only [Option.map_some]
    congr 1
    rw [fatDisk_get]
    by_cases hm : b2' ∈ fatWrites v c
    · rw [if_pos hm]
      rcases (mem_fatWrites v c _).mp hm with heq | h2
      · exact absurd heq.symm (fatBlock_ne_fatBlock2 v hg c c' b2' hc h2')
      · obtain ⟨s2, hs, e1⟩ := fatBlock2_eq_some v c b2' h2
        obtain ⟨s2', hs', e2⟩ := fatBlock2_eq_some v c' b2' h2'
        have hss : s2 = s2' := Option.some.inj (hs.symm.trans hs')
        have hidx : fatIdx v c = fatIdx v c' := by omega
        have heq : fatBlock v c = fatBlock v c' := (fatBlock_eq_iff v c c').mpr hidx
        rw [hmir c' hc' b2' h2', ← heq]
        exact FatLens.patch_get_other v.fatType _ (fatEntOffset v c) (fatEntOffset v c') val (hb _)
          (FatLens.fatEntOffset_le v c) (FatLens.fatEntOffset_disjoint v c c' hne heq)
    · rw [if_neg hm]

/-- The entry that was updated reads back as the patched value. -/
theorem fatDisk_rawEntry_self (v : FatVolume) (d : Disk) (c : Nat) (p : Block) :
    rawEntry v (fatDisk v d c p) c = rawFatEntry v.fatType p (fatEntOffset v c) := by
  unfold rawEntry
  rw [fatDisk_get, if_pos (fatBlock_mem_fatWrites v c)]

theorem fatDisk_rawEntry2_self (v : FatVolume) (d : Disk) (c : Nat) (p : Block) :
    rawEntry2 v (fatDisk v d c p) c = (fatBlock2 v c).map fun _ => rawFatEntry v.fatType p (fatEntOffset v c) := by
  unfold rawEntry2
  cases h2 : fatBlock2 v c with
  | none => rfl
  | some b2 =>
    simp only [Option.map_some]
    rw [fatDisk_get, if_pos ((mem_fatWrites v c b2).mpr (.inr h2))]

/-- Blocks that are not FAT blocks of `c` are untouched by a FAT update of `c`. -/
theorem fatDisk_get_other (v : FatVolume) (d : Disk) (c : Nat) (p : Block) (i : Nat)
    (h : i ∉ fatWrites v c) : (fatDisk v d c p).get i = d.get i := by
  rw [fatDisk_get, if_neg h]

/-- A block outside the FAT region is not written by a FAT update of a cluster of the volume. -/
theorem not_mem_fatWrites_of_region (v : FatVolume) (hg : WFGeom v) (c i : Nat) (hc : c < endCluster v)
    (hr : regionOf v i ≠ .fat) : i ∉ fatWrites v c := by
  intro hm
  obtain ⟨h1, h2⟩ := FatLens.fat_blocks_in_fat_region v hg c hc
  rcases (mem_fatWrites v c i).mp hm with heq | h
  · exact hr (by rw [heq]; exact h1)
  · exact hr (h2 i h)

/-! ### `updateFat`, state level -/

/-- Everything about one `updateFat` on a fault-free coherent state of a well-formed volume. -/
theorem updateFat_frame (s : FS) (c val : Nat) (hn : NoFault s) (hc : Coherent s) (hg : WFGeom s.vol)
    (hcl : c < endCluster s.vol) (hb : BlocksOK s.dev.disk) :
    ∃ s', updateFat c val s = (.ok (), s') ∧ Coherent s' ∧ NoFault s' ∧ s'.vol = s.vol ∧ BlocksOK s'.dev.disk ∧
      s'.dev.wlog = fatWriteLog s.vol c (fatPayload s c val) ++ s.dev.wlog ∧
      s'.dev.disk = fatDisk s.vol s.dev.disk c (fatPayload s c val) ∧
      rawEntry s.vol s'.dev.disk c = rawFatEntry s.vol.fatType (fatPayload s c val) (fatEntOffset s.vol c) ∧
      (∀ c', c' < endCluster s.vol → c' ≠ c → rawEntry s.vol s'.dev.disk c' = rawEntry s.vol s.dev.disk c') ∧
      (Mirror s.vol s.dev.disk → Mirror s.vol s'.dev.disk ∧
        ∀ c', c' < endCluster s.vol → c' ≠ c → rawEntry2 s.vol s'.dev.disk c' = rawEntry2 s.vol s.dev.disk c') ∧
      (∀ i, i ∉ fatWrites s.vol c → s'.dev.disk.get i = s.dev.disk.get i) := by
  obtain ⟨s', h, hc', hn', hv, hw, hd⟩ := updateFat_eq' s c val hn hc
  have hmir : Mirror s.vol s.dev.disk → Mirror s.vol s'.dev.disk := by
    intro hm
    have := updateFat_mirror s c val hn hc hg hcl hm
    rw [h] at this
    exact this
  refine ⟨s', h, hc', hn', hv, ?_, hw, hd, ?_, ?_, ?_, ?_⟩
  · rw [hd]; exact fatDisk_blocksOK _ _ _ _ hb (fatPayload_length s c val hb)
  · rw [hd]; exact fatDisk_rawEntry_self _ _ _ _
  · intro c' hc'' hne
    rw [hd]
    exact fatDisk_rawEntry_other s.vol s.dev.disk c c' val hg hc'' (fun e => hne e.symm) hb
  · intro hm
    refine ⟨hmir hm, fun c' hc'' hne => ?_⟩
    rw [hd]
    exact fatDisk_rawEntry2_other s.vol s.dev.disk c c' val hg hcl hc'' (fun e => hne e.symm) hb hm
  · intro i hi
    rw [hd]; exact fatDisk_get_other _ _ _ _ _ hi

theorem patch_empty_free (ft : FatType) (blk : Block) (off : Nat) (hl : blk.length = 512) (ho : off + entryWidth ft ≤ 512) :
    (match ft with
      | .fat16 => rawFatEntry ft (patchFatBlock ft blk off Gen.CLUSTER_EMPTY) off
      | .fat32 => rawFatEntry ft (patchFatBlock ft blk off Gen.CLUSTER_EMPTY) off % 268435456) = 0 := by
  cases ft
  · exact (FatLens.decode_after_patch .fat16 blk off hl ho).2.2
  · exact (FatLens.decode_after_patch .fat32 blk off hl ho).2.2

/-- Freeing: after `updateFat c CLUSTER_EMPTY` the entry of `c` reads as free. -/
theorem updateFat_empty_reads_free (s : FS) (c : Nat) (hb : BlocksOK s.dev.disk) :
    (match s.vol.fatType with
      | .fat16 => rawFatEntry s.vol.fatType (fatPayload s c Gen.CLUSTER_EMPTY) (fatEntOffset s.vol c)
      | .fat32 => rawFatEntry s.vol.fatType (fatPayload s c Gen.CLUSTER_EMPTY) (fatEntOffset s.vol c) % 268435456) = 0 :=
  patch_empty_free s.vol.fatType (s.dev.disk.get (fatBlock s.vol c)) (fatEntOffset s.vol c)
    (hb _) (FatLens.fatEntOffset_le s.vol c)

theorem free_marks_free (s : FS) (c : Nat) (hn : NoFault s) (hc : Coherent s) (hg : WFGeom s.vol)
    (hcl : c < endCluster s.vol) (hb : BlocksOK s.dev.disk) :
    ∃ s', updateFat c Gen.CLUSTER_EMPTY s = (.ok (), s') ∧ Coherent s' ∧ NoFault s' ∧ s'.vol = s.vol ∧
      BlocksOK s'.dev.disk ∧ entryOnDisk s.vol s'.dev.disk c = 0 ∧
      (∀ c', c' < endCluster s.vol → c' ≠ c → rawEntry s.vol s'.dev.disk c' = rawEntry s.vol s.dev.disk c') ∧
      (Mirror s.vol s.dev.disk → Mirror s.vol s'.dev.disk ∧
        ∀ c', c' < endCluster s.vol → c' ≠ c → rawEntry2 s.vol s'.dev.disk c' = rawEntry2 s.vol s.dev.disk c') ∧
      (∀ i, i ∉ fatWrites s.vol c → s'.dev.disk.get i = s.dev.disk.get i) := by
  obtain ⟨s', h, a1, a2, a3, a4, _, _, a7, a8, a9, a10⟩ := updateFat_frame s c Gen.CLUSTER_EMPTY hn hc hg hcl hb
  refine ⟨s', h, a1, a2, a3, a4, ?_, a8, a9, a10⟩
  rw [entryOnDisk_eq, a7]
  exact updateFat_empty_reads_free s c hb

/-! ### `zeroBlocks`: the medium afterwards -/

theorem zeroBlocks_disk (s : FS) (n first : Nat) (hn : NoFault s) (i : Nat) :
    (zeroBlocks n first s).2.dev.disk.get i =
      if first ≤ i ∧ i < first + n then zeroBlock else s.dev.disk.get i := by
  induction n generalizing first s with
  | zero =>
    rw [zeroBlocks_zero, if_neg (by omega)]
  | succ n ih =>
    obtain ⟨hn1, _, _, _, hd1⟩ := afterZero_facts first s hn
    rw [zeroBlocks_succ n first s hn, ih (afterZero first s) (first + 1) hn1, hd1, Disk.get_set]
    by_cases h1 : first = i
    · subst h1
      rw [if_neg (by omega), if_pos rfl, if_pos (by omega)]
    · rw [if_neg h1]
      by_cases h2 : first + 1 ≤ i ∧ i < first + 1 + n
      · rw [if_pos h2, if_pos (by omega)]
      · rw [if_neg h2, if_neg (by omega)]

/-- The zeroing step of an allocation touches the blocks of the new cluster only. -/
theorem zeroStep_disk (v : FatVolume) (zero : Bool) (c : Nat) (s : FS) (hn : NoFault s) (i : Nat)
    (hi : ¬ (clusterToBlock v c ≤ i ∧ i < clusterToBlock v c + v.blocksPerCluster)) :
    (zeroStep v zero c s).2.dev.disk.get i = s.dev.disk.get i := by
  unfold zeroStep
  cases zero with
  | false => rfl
  | true =>
    simp only [if_true]
    rw [zeroBlocks_disk s _ _ hn, if_neg hi]

/-! ### The allocation: the medium afterwards -/

/-- A FAT block is not a block of a data cluster. -/
theorem fat_ne_cluster_block (v : FatVolume) (hg : WFGeom v) (c i : Nat) (hc2 : 2 ≤ c) (hc : c < endCluster v)
    (hr : regionOf v i = .fat) : ¬ (clusterToBlock v c ≤ i ∧ i < clusterToBlock v c + v.blocksPerCluster) := by
  rintro ⟨h1, h2⟩
  have := FatLens.cluster_blocks_in_data_region v hg c (i - clusterToBlock v c) hc2 hc (by omega)
  rw [show clusterToBlock v c + (i - clusterToBlock v c) = i by omega, hr] at this
  cases this

/-- A successful allocation, cut at its two FAT updates: the state `sZ` after the (optional) zeroing
differs from the start only in the blocks of the new cluster; then `updateFat c END_OF_FILE`, then the
link step; the final medium is the one after the link step. -/
theorem alloc_steps (s s' : FS) (prev : Option Nat) (zero : Bool) (c : Nat) (hn : NoFault s) (hc : Coherent s)
    (hb : BlocksOK s.dev.disk) (h : allocCluster prev zero s = (.ok c, s')) :
    ∃ sZ s3 s4, NoFault sZ ∧ Coherent sZ ∧ sZ.vol = s.vol ∧ BlocksOK sZ.dev.disk ∧
      (∀ i, ¬ (zero = true ∧ clusterToBlock s.vol c ≤ i ∧ i < clusterToBlock s.vol c + s.vol.blocksPerCluster) →
        sZ.dev.disk.get i = s.dev.disk.get i) ∧
      updateFat c Gen.CLUSTER_END_OF_FILE sZ = (.ok (), s3) ∧ linkStep prev c s3 = (.ok (), s4) ∧
      s'.dev.disk = s4.dev.disk ∧ (NoFault s4 → Coherent s4 → NoFault s' ∧ Coherent s') := by
  obtain ⟨s1, sZ, s3, s4, s5, nf, h1, h2, h3, h4, h5, hs'⟩ := alloc_inv s s' prev zero c h
  -- step 1: the pick is read-only
  obtain ⟨s1', e1, ro1, hn1, hc1⟩ := allocPick_eq s hn hc
  rw [h1] at e1
  have es1 : s1 = s1' := congrArg Prod.snd e1
  subst es1
  -- step 2: zeroing
  obtain ⟨sZ', e2, hnZ, hcZ, hvZ, _, hbZ⟩ := zeroStep_eq s.vol zero c s1 hn1 hc1
  rw [h2] at e2
  have esZ : sZ = sZ' := congrArg Prod.snd e2
  subst esZ
  have hdZ : ∀ i, ¬ (zero = true ∧ clusterToBlock s.vol c ≤ i ∧ i < clusterToBlock s.vol c + s.vol.blocksPerCluster) →
      sZ.dev.disk.get i = s.dev.disk.get i := by
    intro i hi
    have : sZ = (zeroStep s.vol zero c s1).2 := by rw [h2]
    rw [this, ← ro1.disk]
    cases zero with
    | false => rfl
    | true => exact zeroStep_disk s.vol true c s1 hn1 i (fun hh => hi ⟨rfl, hh⟩)
  refine ⟨sZ, s3, s4, hnZ, hcZ, hvZ.trans ro1.vol, hbZ (by rw [ro1.disk]; exact hb), hdZ, h3, h4, ?_, ?_⟩
  · obtain ⟨ro5⟩ := allocHint_readOnly s.vol c s4
    rw [h5] at ro5
    rw [hs']; exact ro5
  · intro hn4 hc4
    obtain ⟨nf', s5', e5, ro5, hn5, hc5, _⟩ := allocHint_eq s.vol c s4 hn4 hc4
    rw [h5] at e5
    have es5 : s5 = s5' := congrArg Prod.snd e5
    subst es5
    rw [hs']
    exact ⟨hn5, hc5⟩

/-- The medium after a successful allocation, entry by entry and block by block. -/
theorem alloc_frame (s s' : FS) (prev : Option Nat) (zero : Bool) (c : Nat) (hn : NoFault s) (hc : Coherent s)
    (hb : BlocksOK s.dev.disk) (hg : WFGeom s.vol) (hh : HintOK s.vol)
    (hp : ∀ p, prev = some p → p < endCluster s.vol)
    (h : allocCluster prev zero s = (.ok c, s')) :
    NoFault s' ∧ Coherent s' ∧ BlocksOK s'.dev.disk ∧
    (∀ c', c' < endCluster s.vol → c' ≠ c → prev ≠ some c' →
      rawEntry s.vol s'.dev.disk c' = rawEntry s.vol s.dev.disk c') ∧
    (Mirror s.vol s.dev.disk → Mirror s.vol s'.dev.disk) ∧
    (∀ i, i ∉ fatWrites s.vol c → (∀ p, prev = some p → i ∉ fatWrites s.vol p) →
      ¬ (zero = true ∧ clusterToBlock s.vol c ≤ i ∧ i < clusterToBlock s.vol c + s.vol.blocksPerCluster) →
      s'.dev.disk.get i = s.dev.disk.get i) := by
  obtain ⟨hc2, hcE, _⟩ := alloc_in_range_and_free s s' prev zero c hn hc hh h
  obtain ⟨sZ, s3, s4, hnZ, hcZ, hvZ', hbZ', hdZ, h3, h4, hd', hfin⟩ := alloc_steps s s' prev zero c hn hc hb h
  have hfatZ : ∀ i, regionOf s.vol i = .fat → sZ.dev.disk.get i = s.dev.disk.get i := by
    intro i hr
    exact hdZ i (fun hh => fat_ne_cluster_block s.vol hg c i hc2 hcE hr hh.2)
  -- step 3: the end-of-chain mark
  obtain ⟨s3', e3, hc3, hn3, hv3, hb3, _, _, _, hother3, hmir3, hget3⟩ :=
    updateFat_frame sZ c Gen.CLUSTER_END_OF_FILE hnZ hcZ (by rw [hvZ']; exact hg) (by rw [hvZ']; exact hcE) hbZ'
  rw [h3] at e3
  have es3 : s3 = s3' := congrArg Prod.snd e3
  subst es3
  rw [hvZ'] at hother3 hmir3 hget3
  have hv3' : s3.vol = s.vol := hv3.trans hvZ'
  -- step 4: the link
  have hstep4 : NoFault s4 ∧ Coherent s4 ∧ s4.vol = s.vol ∧ BlocksOK s4.dev.disk ∧
      (∀ c', c' < endCluster s.vol → prev ≠ some c' → rawEntry s.vol s4.dev.disk c' = rawEntry s.vol s3.dev.disk c') ∧
      (Mirror s.vol s3.dev.disk → Mirror s.vol s4.dev.disk) ∧
      (∀ i, (∀ p, prev = some p → i ∉ fatWrites s.vol p) → s4.dev.disk.get i = s3.dev.disk.get i) := by
    unfold linkStep at h4
    cases prev with
    | none =>
      have e : s4 = s3 := (congrArg Prod.snd h4).symm
      subst e
      exact ⟨hn3, hc3, hv3', hb3, fun _ _ _ => rfl, id, fun _ _ => rfl⟩
    | some p =>
      obtain ⟨s4', e4, hc4, hn4, hv4, hb4, _, _, _, hother4, hmir4, hget4⟩ :=
        updateFat_frame s3 p c hn3 hc3 (by rw [hv3']; exact hg) (by rw [hv3']; exact hp p rfl) hb3
      simp only at h4
      rw [h4] at e4
      have es4 : s4 = s4' := congrArg Prod.snd e4
      subst es4
      rw [hv3'] at hother4 hmir4 hget4
      refine ⟨hn4, hc4, hv4.trans hv3', hb4, fun c' hc' hne => hother4 c' hc' (fun e => hne (by rw [e])),
        fun hm => (hmir4 hm).1, fun i hi => hget4 i (hi p rfl)⟩
  obtain ⟨hn4, hc4, hv4, hb4, hother4, hmir4, hget4⟩ := hstep4
  obtain ⟨hn', hc'⟩ := hfin hn4 hc4
  refine ⟨hn', hc', by rw [hd']; exact hb4, ?_, ?_, ?_⟩
  · intro c' hc' hne hnp
    rw [hd', hother4 c' hc' hnp, hother3 c' hc' hne]
    unfold rawEntry
    rw [hfatZ _ (FatLens.fat_blocks_in_fat_region s.vol hg c' hc').1]
  · intro hm
    rw [hd']
    apply hmir4
    apply (hmir3 ?_).1
    intro c' hc' b2 hb2
    obtain ⟨r1, r2⟩ := FatLens.fat_blocks_in_fat_region s.vol hg c' hc'
    rw [hfatZ _ (r2 b2 hb2), hfatZ _ r1]
    exact hm c' hc' b2 hb2
  · intro i hi1 hi2 hi3
    rw [hd', hget4 i hi2, hget3 i hi1, hdZ i hi3]

/-- Extending a chain: `allocCluster (some p) zero` with `p` a cluster in use.  The new cluster `c`
is in range and was free; afterwards `c` reads end-of-chain, `p` reads `c`, and every other entry of
the volume reads exactly as before; identical FAT copies stay identical. -/
theorem alloc_extends_chain (s s' : FS) (p c : Nat) (zero : Bool) (hn : NoFault s) (hc : Coherent s)
    (hb : BlocksOK s.dev.disk) (hg : WFGeom s.vol) (hh : HintOK s.vol)
    (hp : p < endCluster s.vol) (hpu : entryOnDisk s.vol s.dev.disk p ≠ 0)
    (h : allocCluster (some p) zero s = (.ok c, s')) :
    2 ≤ c ∧ c < endCluster s.vol ∧ p ≠ c ∧ entryOnDisk s.vol s.dev.disk c = 0 ∧
    decodeNext s.vol.fatType (rawEntry s.vol s'.dev.disk c) = .err .EndOfFile ∧
    decodeNext s.vol.fatType (rawEntry s.vol s'.dev.disk p) = .ok c ∧
    (∀ c', c' < endCluster s.vol → c' ≠ c → c' ≠ p → rawEntry s.vol s'.dev.disk c' = rawEntry s.vol s.dev.disk c') ∧
    (Mirror s.vol s.dev.disk → Mirror s.vol s'.dev.disk) ∧
    NoFault s' ∧ Coherent s' ∧ BlocksOK s'.dev.disk := by
  obtain ⟨h2, hE, hfree⟩ := alloc_in_range_and_free s s' (some p) zero c hn hc hh h
  have hpc : p ≠ c := fun e => hpu (by rw [e]; exact hfree)
  obtain ⟨f1, f2⟩ := alloc_final_fat s s' (some p) zero c hn hc hb hg hh (fun e => hpc (Option.some.inj e)) h
  obtain ⟨hn', hc', hb', hother, hmir, _⟩ :=
    alloc_frame s s' (some p) zero c hn hc hb hg hh (fun q hq => by cases hq; exact hp) h
  exact ⟨h2, hE, hpc, hfree, f1, f2 p rfl hpc hp,
    fun c' hc'' h1 h2' => hother c' hc'' h1 (fun e => h2' (Option.some.inj e).symm), hmir, hn', hc', hb'⟩

/-- The first cluster of a file or directory: `allocCluster none zero`.  Only the entry of the new
cluster changes. -/
theorem alloc_first_cluster (s s' : FS) (c : Nat) (zero : Bool) (hn : NoFault s) (hc : Coherent s)
    (hb : BlocksOK s.dev.disk) (hg : WFGeom s.vol) (hh : HintOK s.vol)
    (h : allocCluster none zero s = (.ok c, s')) :
    2 ≤ c ∧ c < endCluster s.vol ∧ entryOnDisk s.vol s.dev.disk c = 0 ∧
    decodeNext s.vol.fatType (rawEntry s.vol s'.dev.disk c) = .err .EndOfFile ∧
    (∀ c', c' < endCluster s.vol → c' ≠ c → rawEntry s.vol s'.dev.disk c' = rawEntry s.vol s.dev.disk c') ∧
    (Mirror s.vol s.dev.disk → Mirror s.vol s'.dev.disk) ∧
    NoFault s' ∧ Coherent s' ∧ BlocksOK s'.dev.disk := by
  obtain ⟨h2, hE, hfree⟩ := alloc_in_range_and_free s s' none zero c hn hc hh h
  obtain ⟨f1, _⟩ := alloc_final_fat s s' none zero c hn hc hb hg hh (fun e => by cases e) h
  obtain ⟨hn', hc', hb', hother, hmir, _⟩ :=
    alloc_frame s s' none zero c hn hc hb hg hh (fun q hq => by cases hq) h
  exact ⟨h2, hE, hfree, f1, fun c' hc'' h1 => hother c' hc'' h1 (fun e => by cases e), hmir, hn', hc', hb'⟩

/-! ### The write log of the truncation only grows -/

theorem grows_truncateLoop (fuel next : Nat) : Grows (truncateLoop fuel next) := by
  induction fuel generalizing next with
  | zero => exact grows_of_wlog_eq fun _ => rfl
  | succ fuel ih =>
    unfold truncateLoop
    refine grows_bind (grows_attempt (grows_of_readOnly (nextCluster_readOnly _))) fun r => ?_
    cases r with
    | ok n =>
      exact grows_bind (grows_updateFat _ _) fun _ => grows_bind (grows_modifyVol _) fun _ => ih n
    | err e =>
      cases e
      case EndOfFile => exact grows_bind (grows_updateFat _ _) fun _ => grows_modifyVol _
      all_goals exact grows_lift _
    | panic m => exact grows_lift _
    | diverged => exact grows_lift _

theorem grows_truncateClusterChain (cluster : Nat) : Grows (truncateClusterChain cluster) := by
  unfold truncateClusterChain
  refine grows_ite _ (grows_pure _) ?_
  refine grows_bind (grows_attempt (grows_of_readOnly (nextCluster_readOnly _))) fun r => ?_
  cases r with
  | ok n =>
    exact grows_bind (grows_modifyVol _) fun _ => grows_bind (grows_updateFat _ _) fun _ =>
      grows_bind grows_getVol fun v => grows_truncateLoop _ _
  | err e =>
    cases e
    case EndOfFile => exact grows_pure _
    all_goals exact grows_lift _
  | panic m => exact grows_lift _
  | diverged => exact grows_lift _

theorem grows_freeClusterChain (cluster : Nat) : Grows (freeClusterChain cluster) := by
  unfold freeClusterChain
  refine grows_ite _ (grows_pure _) ?_
  exact grows_bind (grows_truncateClusterChain _) fun _ => grows_bind (grows_updateFat _ _) fun _ => grows_modifyVol _

/-! ### The first write of a truncation -/

/-- The volume record with a new next-free hint addresses the same FAT blocks. -/
theorem fatPayload_vol_hint (s : FS) (f : Option Nat) (c val : Nat) (s1 : FS)
    (hd : s1.dev.disk = s.dev.disk) (hv : s1.vol = { s.vol with nextFreeCluster := f }) :
    fatPayload s1 c val = fatPayload s c val ∧
    (∀ p, fatWriteLog s1.vol c p = fatWriteLog s.vol c p) := by
  constructor
  · unfold fatPayload; rw [hd, hv]; rfl
  · intro p; rw [hv]; rfl

/-- Cutting a chain at `cl` when `cl` links on to `n`: the first device writes of the call are those
of `updateFat cl END_OF_FILE` — the kept prefix is terminated before any cluster is freed. -/
theorem truncate_first_write (s : FS) (cl n : Nat) (hn : NoFault s) (hc : Coherent s)
    (h2 : 2 ≤ cl) (hle : cl ≤ U32_MAX / 4)
    (hnext : decodeNext s.vol.fatType (rawEntry s.vol s.dev.disk cl) = .ok n) :
    ∃ rest, (truncateClusterChain cl s).2.dev.wlog =
      rest ++ fatWriteLog s.vol cl (fatPayload s cl Gen.CLUSTER_END_OF_FILE) ++ s.dev.wlog := by
  unfold truncateClusterChain
  have hlt : ¬ cl < Gen.RESERVED_ENTRIES := by show ¬ cl < 2; omega
  unfold rawEntry at hnext
  simp only [ite_apply, if_neg hlt, bind_apply, attempt_apply, nextCluster_eq cl s hn hc hle, hnext, modifyVol_apply]
  generalize hs1 : ({ afterRead (fatBlock s.vol cl) s with
      vol := { (afterRead (fatBlock s.vol cl) s).vol with nextFreeCluster :=
        match (afterRead (fatBlock s.vol cl) s).vol.nextFreeCluster with
        | some nf => if nf > n then some n else some nf
        | none => some n } } : FS) = s1
  have hn1 : NoFault s1 := by subst hs1; exact hn
  have hc1 : Coherent s1 := by subst hs1; exact afterRead_coherent _ s
  have hd1 : s1.dev.disk = s.dev.disk := by subst hs1; rfl
  have hw1 : s1.dev.wlog = s.dev.wlog := by subst hs1; rfl
  obtain ⟨e1, e2⟩ := fatPayload_vol_hint s _ cl Gen.CLUSTER_END_OF_FILE s1 hd1 (by subst hs1; rfl)
  obtain ⟨s2, hu, _, _, _, hw2, _⟩ := updateFat_eq' s1 cl Gen.CLUSTER_END_OF_FILE hn1 hc1
  rw [hu]
  simp only [getVol_apply]
  obtain ⟨rest, hr⟩ := grows_truncateLoop (chainFuel s2.vol) n s2
  exact ⟨rest, by rw [hr, hw2, e1, e2, hw1, List.append_assoc]⟩

/-- A cluster id below 2 or a cluster whose entry already is an end-of-chain mark: nothing is
written. -/
theorem truncate_noop (s : FS) (cl : Nat) (hn : NoFault s) (hc : Coherent s)
    (h : cl < 2 ∨ (cl ≤ U32_MAX / 4 ∧
      decodeNext s.vol.fatType (rawEntry s.vol s.dev.disk cl) = .err .EndOfFile)) :
    (truncateClusterChain cl s).1 = .ok () ∧ (truncateClusterChain cl s).2.dev.wlog = s.dev.wlog ∧
    (truncateClusterChain cl s).2.dev.disk = s.dev.disk ∧ (truncateClusterChain cl s).2.vol = s.vol := by
  by_cases hlt : cl < Gen.RESERVED_ENTRIES
  · have e : truncateClusterChain cl s = (.ok (), s) := by
      unfold truncateClusterChain
      simp only [ite_apply, if_pos hlt, pure_apply]
    rw [e]
    exact ⟨rfl, rfl, rfl, rfl⟩
  · rcases h with h | ⟨hle, hnext⟩
    · exact absurd h hlt
    · unfold rawEntry at hnext
      have e : truncateClusterChain cl s = (.ok (), afterRead (fatBlock s.vol cl) s) := by
        unfold truncateClusterChain
        simp only [ite_apply, if_neg hlt, bind_apply, attempt_apply, nextCluster_eq cl s hn hc hle, hnext, pure_apply]
      rw [e]
      exact ⟨rfl, rfl, rfl, rfl⟩

/-- The end-of-chain mark written first really reads as end of chain. -/
theorem eof_payload_reads_eof (s : FS) (c : Nat) (hb : BlocksOK s.dev.disk) :
    decodeNext s.vol.fatType (rawFatEntry s.vol.fatType (fatPayload s c Gen.CLUSTER_END_OF_FILE) (fatEntOffset s.vol c)) =
      .err .EndOfFile :=
  (FatLens.decode_after_patch s.vol.fatType _ _ (hb _) (FatLens.fatEntOffset_le s.vol c)).1

/-- `truncate_first_write` with the reading of the payload: the first FAT write of a truncation
makes `cl` an end-of-chain entry. -/
theorem truncate_first_write_eof (s : FS) (cl n : Nat) (hn : NoFault s) (hc : Coherent s) (hb : BlocksOK s.dev.disk)
    (h2 : 2 ≤ cl) (hle : cl ≤ U32_MAX / 4)
    (hnext : decodeNext s.vol.fatType (rawEntry s.vol s.dev.disk cl) = .ok n) :
    (∃ rest, (truncateClusterChain cl s).2.dev.wlog =
      rest ++ fatWriteLog s.vol cl (fatPayload s cl Gen.CLUSTER_END_OF_FILE) ++ s.dev.wlog) ∧
    decodeNext s.vol.fatType (rawFatEntry s.vol.fatType (fatPayload s cl Gen.CLUSTER_END_OF_FILE) (fatEntOffset s.vol cl)) =
      .err .EndOfFile :=
  ⟨truncate_first_write s cl n hn hc h2 hle hnext, eof_payload_reads_eof s cl hb⟩

end Sdmmc.Lemmas.DirFat
