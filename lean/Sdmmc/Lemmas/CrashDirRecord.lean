/-
The crash points of a successful `write_new_directory_entry` in terms of a client record `G` of all chains
of the volume (`Owns`), one of which — index `idir` — is the directory's chain (or the directory is the
FAT16 fixed root): at every crash point the record, or the record with the directory's chain extended by
the new cluster, is structurally sound; every other chain and its bytes are intact; every existing block
outside the FAT is unchanged except for the 32 bytes of the new slot.
-/
import Sdmmc.Lemmas.CrashDirEntry
import Sdmmc.Lemmas.WriteRefinesBytes
import Sdmmc.Lemmas.CrashDelete

namespace Sdmmc.Lemmas.CrashDirRecord
open Sdmmc.Model Sdmmc.Model.Fat Sdmmc.Spec
open Sdmmc.Lemmas.FBasic hiding NoFault Coherent
open Sdmmc.Lemmas.FatOps hiding BlocksOK Mirror HintOK
open Sdmmc.Lemmas.ChainL Sdmmc.Lemmas.ForestBase Sdmmc.Lemmas.ForestTrunc Sdmmc.Lemmas.ForestAlloc Sdmmc.Lemmas.ForestStep
open Sdmmc.Lemmas.ForestOwns
open Sdmmc.Lemmas.CrashBase Sdmmc.Lemmas.CrashFat Sdmmc.Lemmas.CrashAlloc Sdmmc.Lemmas.CrashDirWalk Sdmmc.Lemmas.CrashDirEntry

/-- How the directory written to sits in the record: the fixed root (`none`), or the chain at index
`idir`. -/
def DirIn (v : FatVolume) (dir : Nat) (G : List (List Nat)) (dcs : List Nat) : Option Nat → Prop
  | none => (dirWalkStart v dir).fixedRoot = true
  | some idir => (dirWalkStart v dir).fixedRoot = false ∧ G[idir]? = some dcs ∧ dcs.headD 0 = (dirWalkStart v dir).cluster

/-- What holds of a crashed medium `d` of a creation in the directory `odir` of the record `G`. -/
structure EntryCrash (v : FatVolume) (d0 : Disk) (G : List (List Nat)) (odir : Option Nat) (dcs : List Nat) (e : DirEntry) (d : Disk) : Prop where
  sound : OwnsLoose v d G ∨ ∃ idir c, odir = some idir ∧ OwnsLoose v d (G.set idir (dcs ++ [c]))
  others : ∀ j X, G[j]? = some X → odir ≠ some j → Chain v d (X.headD 0) X ∧ chainBytes v d X = chainBytes v d0 X
  blocks : ∀ i, regionOf v i ≠ .fat → (∀ x, InRange v x → isFree v d0 x → ¬ InCluster v x i) →
    (i ≠ e.entryBlock → d.get i = d0.get i) ∧
    (∀ k, k < e.entryOffset ∨ e.entryOffset + 32 ≤ k → (d.get i).getD k 0 = (d0.get i).getD k 0)

/-- Chains of the record other than one containing cluster `p`: entries and bytes survive a change that
touches only FAT entries of free clusters and of `p`, and only blocks of free clusters and block `b` of the
chain of `p` (or of the root region). -/
theorem other_chain_intact {v : FatVolume} {d0 d : Disk} {G : List (List Nat)} (_hg : WFGeom v) (ho : Owns v d0 G)
    {X : List Nat} (hX : X ∈ G)
    (hfat : ∀ x, x ∈ X → fatRaw v d x = fatRaw v d0 x)
    (hblk : ∀ x, x ∈ X → ∀ j, j < v.blocksPerCluster → d.get (clusterToBlock v x + j) = d0.get (clusterToBlock v x + j)) :
    Chain v d (X.headD 0) X ∧ chainBytes v d X = chainBytes v d0 X :=
  ⟨chain_congr_raw (ho.1 X hX) hfat, CrashBase.chainBytes_congr v d0 d X hblk⟩

theorem mem_of_get {G : List (List Nat)} {j : Nat} {X : List Nat} (h : G[j]? = some X) : X ∈ G := List.mem_of_getElem? h

/-- The blocks of a cluster in use are no blocks of a free cluster, and are outside the FAT. -/
theorem used_block_facts {v : FatVolume} {d0 : Disk} (hg : WFGeom v) {x : Nat} (hu : isUsed v d0 x) {j : Nat}
    (hj : j < v.blocksPerCluster) :
    regionOf v (clusterToBlock v x + j) ≠ .fat ∧
    ∀ y, InRange v y → isFree v d0 y → ¬ InCluster v y (clusterToBlock v x + j) := by
  refine ⟨by rw [FatLens.cluster_blocks_in_data_region v hg x j hu.1.1 hu.1.2 hj]; decide, fun y hy hf hin => ?_⟩
  have := FatLens.cluster_blocks_disjoint_of_lt v hg x y j (clusterToBlock v x + j - clusterToBlock v y) hu.1.1 hy.1 hu.1.2 hy.2 hj
    (by have := hin.1; have := hin.2; omega) (by have := hin.1; omega)
  exact hu.2.1 (this.1 ▸ hf)

/-- A block of the directory (of its fixed root region, or of a cluster of its chain) is no block of a
cluster of any other chain of the record. -/
theorem inWalk_not_other {v : FatVolume} {d0 : Disk} {G : List (List Nat)} {odir : Option Nat} {dcs : List Nat} {dir b : Nat}
    (hg : WFGeom v) (ho : Owns v d0 G) (hdir : DirIn v dir G dcs odir) (hin : InWalk v (dirWalkStart v dir) dcs b)
    {j : Nat} {X : List Nat} (hj : G[j]? = some X) (hne : odir ≠ some j) :
    ∀ x, x ∈ X → ∀ jj, jj < v.blocksPerCluster → clusterToBlock v x + jj ≠ b := by
  intro x hx jj hjj heq
  have hu := owns_mem_used ho (mem_flatten_of_mem (List.mem_of_getElem? hj) hx)
  rcases hin with ⟨hfr, hlo, hhi⟩ | ⟨hfr, y, hy, hyin⟩
  · have hreg := FatLens.cluster_blocks_in_data_region v hg x jj hu.1.1 hu.1.2 hjj
    have hk : v.fatType = .fat16 ∧ dir = Gen.CLUSTER_ROOT_DIR := by
      unfold dirWalkStart at hfr
      cases hft' : v.fatType with
      | fat16 =>
        rw [hft'] at hfr
        by_cases hp : dir = Gen.CLUSTER_ROOT_DIR
        · exact ⟨rfl, hp⟩
        · simp [hp] at hfr
      | fat32 => rw [hft'] at hfr; simp at hfr
    have hfb : (dirWalkStart v dir).firstBlock = v.lbaStart + v.firstRootDirBlock ∧
        (dirWalkStart v dir).dirSize = blockCountFromBytes (v.rootEntriesCount * Gen.DIRENT_LEN) := by
      unfold dirWalkStart; rw [hk.1, hk.2]; simp
    rw [hfb.1] at hlo
    rw [hfb.1, hfb.2] at hhi
    have hroot := FatLens.root_blocks_in_root_region v hg hk.1 (b - (v.lbaStart + v.firstRootDirBlock)) (by omega)
    rw [show v.lbaStart + v.firstRootDirBlock + (b - (v.lbaStart + v.firstRootDirBlock)) = b by omega, ← heq, hreg] at hroot
    cases hroot
  · cases odir with
    | none => rw [hdir] at hfr; cases hfr
    | some idir =>
      obtain ⟨_, hGi, hhd⟩ := hdir
      have hji : j ≠ idir := fun e' => hne (by rw [e'])
      have hyr := chain_inRange (ho.1 dcs (List.mem_of_getElem? hGi)) y hy
      have := FatLens.cluster_blocks_disjoint_of_lt v hg x y jj (b - clusterToBlock v y) hu.1.1 hyr.1 hu.1.2 hyr.2 hjj
        (by have := hyin.1; have := hyin.2; omega) (by have := hyin.1; omega)
      exact CrashHist.ne_of_other_chain ho.2.1 hGi hj hji hy hx this.1

/-- The record with the chain at index `idir` extended by `c2` is sound on a medium on which the old last
cluster `p` links to `c2`, `c2` reads end-of-chain, and every other entry of the record reads as on `d0`. -/
theorem grown_record_sound {v : FatVolume} {d0 d : Disk} {G : List (List Nat)} {idir : Nat} {dcs : List Nat} {p c2 : Nat}
    (ho : Owns v d0 G) (hGi : G[idir]? = some dcs) (hl : dcs.getLast? = some p) (hc2r : InRange v c2) (hc2f : isFree v d0 c2)
    (hoth : ∀ x, x ∈ G.flatten → x ≠ p → fatRaw v d x = fatRaw v d0 x)
    (hlk : nextOf v d p = .ok c2) (heof : nextOf v d c2 = .err .EndOfFile) : OwnsLoose v d (G.set idir (dcs ++ [c2])) := by
  obtain ⟨hsplit, _⟩ := split_at hGi
  have hcsplit : dcs = dcs.dropLast ++ [p] := (getLast?_split hl).symm
  have hc_notG : c2 ∉ G.flatten := fun hm => free_not_used hc2f (owns_mem_used ho hm)
  have hp_dcs : p ∈ dcs := List.mem_of_getLast? hl
  have hch : Chain v d0 (dcs.headD 0) dcs := ho.1 dcs (List.mem_of_getElem? hGi)
  rw [set_at hGi]
  have hnodup := ho.2.1
  rw [hsplit, flatten3, nodup3, flatten_one] at hnodup
  obtain ⟨_, ndcs, _, dAM, _, dMB⟩ := hnodup
  have hbase : OwnsLoose v d0 (G.take idir ++ [dcs] ++ G.drop (idir + 1)) := by
    rw [← hsplit]; exact ownsLoose_of_owns ho
  have hdcsG : ∀ y, y ∈ dcs → y ∈ G.flatten := fun y hy => by
    rw [hsplit]; exact (mem_flatten3 _ _ _ y).2 (.inr (.inl (by rw [flatten_one]; exact hy)))
  refine ownsLoose_splice hbase (fun x hx => ?_) ?_ ?_
  · have hxG : x ∈ G.flatten := by
      rw [hsplit]; exact (mem_flatten3 _ _ _ x).2 (hx.elim .inl (fun h' => .inr (.inr h')))
    refine hoth x hxG (fun e' => ?_)
    subst e'
    exact hx.elim (fun hA => dAM x hA hp_dcs) (fun hB => dMB x hp_dcs hB)
  · have hchain : Chain v d ((dcs ++ [c2]).headD 0) (dcs ++ [c2]) := by
      have hhd' : (dcs ++ [c2]).headD 0 = dcs.headD 0 := by
        cases dcs with
        | nil => cases hl
        | cons a t => rfl
      rw [hhd']
      have hch' : Chain v d0 (dcs.headD 0) (dcs.dropLast ++ [p]) := by rw [← hcsplit]; exact hch
      have := chain_snoc (v' := v) (d' := d) dcs.dropLast hch' rfl hc2r
        (fun hm => hc_notG (hdcsG c2 (by rw [hcsplit]; exact hm)))
        hlk heof (fun y hy => nextOf_congr rfl (hoth y (hdcsG y (by rw [hcsplit]; exact List.mem_append_left _ hy))
          (fun e' => by
            have hnd := ndcs
            rw [hcsplit] at hnd
            obtain ⟨_, _, h3⟩ := List.nodup_append.1 hnd
            exact h3 y hy p (List.mem_singleton.2 rfl) e')))
      rw [← hcsplit] at this
      exact this
    refine ⟨fun cs hcs => by rw [List.mem_singleton.1 hcs]; exact hchain, ?_, fun z hz => ?_⟩
    · rw [flatten_one]; exact chain_nodup hchain
    · rw [flatten_one] at hz; exact chain_mem_used hchain z hz
  · intro x hx
    rw [flatten_one] at hx
    rcases List.mem_append.1 hx with hx | hx
    · exact ⟨fun hA => dAM x hA hx, fun hB => dMB x hx hB⟩
    · rw [List.mem_singleton.1 hx]
      exact ⟨fun hA => hc_notG (by rw [hsplit]; exact (mem_flatten3 _ _ _ c2).2 (.inl hA)),
        fun hB => hc_notG (by rw [hsplit]; exact (mem_flatten3 _ _ _ c2).2 (.inr (.inr hB)))⟩

/-- A sound record stays sound with one more one-cluster chain `[c]`, `c` marked end-of-chain and in no
chain of the record. -/
theorem append_single_sound {v : FatVolume} {d : Disk} {R : List (List Nat)} {c : Nat} (h : OwnsLoose v d R)
    (hc : c ∉ R.flatten) (hrc : InRange v c) (heof : nextOf v d c = .err .EndOfFile) : OwnsLoose v d (R ++ [[c]]) := by
  have hb : OwnsLoose v d (R ++ [] ++ []) := by rw [List.append_nil, List.append_nil]; exact h
  have := ownsLoose_splice (mid' := [[c]]) hb (fun _ _ => rfl)
    ⟨fun cs hcs => by rw [List.mem_singleton.1 hcs]; exact Chain.last c hrc heof,
     by rw [flatten_one]; exact List.nodup_cons.2 ⟨List.not_mem_nil, List.nodup_nil⟩,
     fun z hz => by
      rw [flatten_one, List.mem_singleton] at hz
      rw [hz]; exact ⟨hrc, not_free_of_eof heof⟩⟩
    (fun x hx => by
      rw [flatten_one, List.mem_singleton] at hx
      rw [hx]; exact ⟨hc, List.not_mem_nil⟩)
  rw [List.append_nil] at this
  exact this

theorem newEntry_record_crash (dir : Nat) (name : Bytes) (att fc : Nat) (now : Timestamp) (s s' : FS) (e : DirEntry)
    (G : List (List Nat)) (odir : Option Nat) (dcs : List Nat) (hr : Ready s) (ho : Owns s.vol s.dev.disk G)
    (hdir : DirIn s.vol dir G dcs odir) (hname : name.length = 11)
    (h : writeNewDirectoryEntry dir name att fc now s = (.ok e, s')) :
    ∃ G', Owns s'.vol s'.dev.disk G' ∧ SameGeom s.vol s'.vol ∧ Ready s' ∧
      (G' = G ∨ ∃ idir c, odir = some idir ∧ G' = G.set idir (dcs ++ [c])) ∧
      CrashAll (EntryCrash s.vol s.dev.disk G odir dcs e) s s' := by
  have hg := hr.geom
  have hchdir : ∀ idir, odir = some idir → Chain s.vol s.dev.disk (dirWalkStart s.vol dir).cluster dcs := fun idir hi => by
    subst hi
    obtain ⟨_, hG, hhd⟩ := hdir
    rw [← hhd]; exact ho.1 dcs (mem_of_get hG)
  have hdir' : (dirWalkStart s.vol dir).fixedRoot = true ∨ Chain s.vol s.dev.disk (dirWalkStart s.vol dir).cluster dcs := by
    cases odir with
    | none => exact .inl hdir
    | some idir => exact .inr (hchdir idir rfl)
  obtain ⟨sM, hsw, hsgM, hrM, hcase⟩ := newEntry_crash dir name att fc now s s' e dcs hr.noFault hr.coherent hr.blocksOK hg hr.hint hdir' h
  have hoff := DirSlots.firstFreeSlot_off _ _ hsw.free
  have hser : (DirEntry.serialize sM.vol.fatType e).length = 32 := by
    rw [hsw.entry]; exact FatOps.serialize_length _ _ hname
  have hlM : (sM.dev.disk.get e.entryBlock).length = 512 := hrM.blocksOK _
  -- the slot write, as a change of one block
  have hslot_other : ∀ i, i ≠ e.entryBlock → s'.dev.disk.get i = sM.dev.disk.get i := fun i hi => by
    rw [hsw.disk, Disk.get_set_ne _ _ _ _ (fun e' => hi e'.symm)]
  have hslot_bytes : ∀ k, k < e.entryOffset ∨ e.entryOffset + 32 ≤ k →
      (s'.dev.disk.get e.entryBlock).getD k 0 = (sM.dev.disk.get e.entryBlock).getD k 0 := fun k hk => by
    rw [hsw.disk, Disk.get_set_self]
    exact FatLens.splice_getD_outside _ _ _ k (by rw [hser, hlM]; omega) (by rw [hser]; exact hk)
  have hsg' : SameGeom s.vol s'.vol := hsgM.trans (SameGeom.of_eq hsw.vol)
  have hb' : BlocksOK s'.dev.disk := by
    rw [hsw.disk]
    exact blocksOK_set _ _ _ hrM.blocksOK (by rw [FatLens.splice_length _ _ _ (by rw [hser, hlM]; omega), hlM])
  have hready' : Ready s' := ⟨hsw.noFault, hsw.coherent, hb', hsg'.wfGeom hg, by rw [hsw.vol]; exact hrM.hint⟩
  rcases hcase with ⟨hdM, hin, hcr⟩ | ⟨p, c, hfr, hl, hbk, hoff0, hgr, hcr⟩
  · -- a free slot in an existing block of the directory
    have hbreg : regionOf s.vol e.entryBlock ≠ .fat := by
      rcases hin with ⟨_, hlo, _⟩ | ⟨hfr, x, hx, hxin⟩
      · exact CrashDelete.not_fat_of_ge s.vol _ (Nat.le_trans (CrashDelete.dirWalkStart_ge s.vol hg dir) hlo)
      · have hch := hdir'.resolve_left (by rw [hfr]; decide)
        have hxr := chain_inRange hch x hx
        intro hfat
        exact DirFat.fat_ne_cluster_block s.vol hg x _ hxr.1 hxr.2 hfat hxin
    have hfat : ∀ x, x < endCluster s.vol → s'.dev.disk.get (fatBlock s.vol x) = s.dev.disk.get (fatBlock s.vol x) := fun x hx => by
      rw [hslot_other _ (fun e' => hbreg (by rw [← e']; exact (FatLens.fat_blocks_in_fat_region s.vol hg x hx).1)), hdM]
    have hown' : Owns s'.vol s'.dev.disk G := WriteRefines.owns_sameGeom hsg' (WriteRefines.owns_of_fat_eq hfat ho)
    -- the slot's block is no block of another chain
    have hnotin : ∀ j X, G[j]? = some X → odir ≠ some j → ∀ x, x ∈ X → ∀ jj, jj < s.vol.blocksPerCluster →
        clusterToBlock s.vol x + jj ≠ e.entryBlock := by
      intro j X hj hne x hx jj hjj heq
      have hu := owns_mem_used ho (mem_flatten_of_mem (mem_of_get hj) hx)
      rcases hin with ⟨hfr, hlo, hhi⟩ | ⟨hfr, y, hy, hyin⟩
      · -- fixed root: not in the data area
        have hreg := FatLens.cluster_blocks_in_data_region s.vol hg x jj hu.1.1 hu.1.2 hjj
        cases odir with
        | some idir => obtain ⟨hf', _⟩ := hdir; rw [hfr] at hf'; cases hf'
        | none =>
          have hk : s.vol.fatType = .fat16 ∧ dir = Gen.CLUSTER_ROOT_DIR := by
            unfold dirWalkStart at hfr
            cases hft' : s.vol.fatType with
            | fat16 =>
              rw [hft'] at hfr
              by_cases hp : dir = Gen.CLUSTER_ROOT_DIR
              · exact ⟨rfl, hp⟩
              · simp [hp] at hfr
            | fat32 => rw [hft'] at hfr; simp at hfr
          have hfb : (dirWalkStart s.vol dir).firstBlock = s.vol.lbaStart + s.vol.firstRootDirBlock ∧
              (dirWalkStart s.vol dir).dirSize = blockCountFromBytes (s.vol.rootEntriesCount * Gen.DIRENT_LEN) := by
            unfold dirWalkStart; rw [hk.1, hk.2]; simp
          rw [hfb.1] at hlo
          rw [hfb.1, hfb.2] at hhi
          have hroot := FatLens.root_blocks_in_root_region s.vol hg hk.1 (e.entryBlock - (s.vol.lbaStart + s.vol.firstRootDirBlock)) (by omega)
          rw [show s.vol.lbaStart + s.vol.firstRootDirBlock + (e.entryBlock - (s.vol.lbaStart + s.vol.firstRootDirBlock)) = e.entryBlock by omega,
            ← heq, hreg] at hroot
          cases hroot
      · cases odir with
        | none => rw [hdir] at hfr; cases hfr
        | some idir =>
          obtain ⟨_, hGi, _⟩ := hdir
          have hji : j ≠ idir := fun e' => hne (by rw [e'])
          have hyr := chain_inRange (hchdir idir rfl) y hy
          have := FatLens.cluster_blocks_disjoint_of_lt s.vol hg x y jj (e.entryBlock - clusterToBlock s.vol y) hu.1.1 hyr.1 hu.1.2 hyr.2 hjj
            (by have := hyin.1; have := hyin.2; omega) (by have := hyin.1; omega)
          exact CrashHist.ne_of_other_chain ho.2.1 hGi hj hji hy hx this.1
    refine ⟨G, hown', hsg', hready', .inl rfl, hcr.mono fun d hd => ?_⟩
    have hdfat : ∀ x, x < endCluster s.vol → d.get (fatBlock s.vol x) = s.dev.disk.get (fatBlock s.vol x) := fun x hx => by
      rcases hd with rfl | rfl
      · rfl
      · exact hfat x hx
    have hdraw : ∀ x, x < endCluster s.vol → fatRaw s.vol d x = fatRaw s.vol s.dev.disk x := fun x hx => by
      unfold fatRaw; rw [hdfat x hx]
    refine ⟨.inl (ownsLoose_congr (ownsLoose_of_owns ho) fun x hx => hdraw x (owns_mem_used ho hx).1.2), fun j X hj hne => ?_,
      fun i hi _ => ?_⟩
    · refine other_chain_intact hg ho (mem_of_get hj) (fun x hx => hdraw x (owns_mem_used ho (mem_flatten_of_mem (mem_of_get hj) hx)).1.2)
        fun x hx jj hjj => ?_
      rcases hd with rfl | rfl
      · rfl
      · rw [hslot_other _ (hnotin j X hj hne x hx jj hjj), hdM]
    · rcases hd with rfl | rfl
      · exact ⟨fun _ => rfl, fun _ _ => rfl⟩
      · refine ⟨fun hne => by rw [hslot_other i hne, hdM], fun k hk => ?_⟩
        by_cases hie : i = e.entryBlock
        · rw [hie, hslot_bytes k hk, hdM]
        · rw [hslot_other i hie, hdM]
  · -- the directory grows by the blank cluster `c` first
    cases odir with
    | none => rw [hdir] at hfr; cases hfr
    | some idir =>
      obtain ⟨_, hGi, hhd⟩ := hdir
      have hch := hchdir idir rfl
      obtain ⟨hsplit, _⟩ := split_at hGi
      have hcsplit : dcs = dcs.dropLast ++ [p] := (getLast?_split hl).symm
      have hc_notG : c ∉ G.flatten := fun hm => free_not_used hgr.wasFree (owns_mem_used ho hm)
      have hp_dcs : p ∈ dcs := List.mem_of_getLast? hl
      -- the record after the allocation, on the medium before the slot write
      have hG' : G.set idir (dcs ++ [c]) = G.take idir ++ [dcs ++ [c]] ++ G.drop (idir + 1) := set_at hGi _
      have hnodup := ho.2.1
      rw [hsplit, flatten3, nodup3, flatten_one] at hnodup
      obtain ⟨_, ndcs, _, dAM, _, dMB⟩ := hnodup
      have hsoundM : ∀ d, (∀ x, x < endCluster s.vol → x ≠ c → x ≠ p → fatRaw s.vol d x = fatRaw s.vol s.dev.disk x) →
          nextOf s.vol d p = .ok c → nextOf s.vol d c = .err .EndOfFile → OwnsLoose s.vol d (G.set idir (dcs ++ [c])) := by
        intro d hoth hlk heof
        rw [hG']
        have hbase : OwnsLoose s.vol s.dev.disk (G.take idir ++ [dcs] ++ G.drop (idir + 1)) := by
          rw [← hsplit]; exact ownsLoose_of_owns ho
        refine ownsLoose_splice hbase (fun x hx => ?_) ?_ ?_
        · have hxG : x ∈ G.flatten := by
            rw [hsplit]; exact (mem_flatten3 _ _ _ x).2 (hx.elim .inl (fun h' => .inr (.inr h')))
          refine hoth x (owns_mem_used ho hxG).1.2 (fun e' => hc_notG (e' ▸ hxG)) (fun e' => ?_)
          subst e'
          exact hx.elim (fun hA => dAM x hA hp_dcs) (fun hB => dMB x hp_dcs hB)
        · have hchain : Chain s.vol d ((dcs ++ [c]).headD 0) (dcs ++ [c]) := by
            have hhd' : (dcs ++ [c]).headD 0 = dcs.headD 0 := by
              cases dcs with
              | nil => cases hl
              | cons a t => rfl
            rw [hhd', hhd]
            have hch' : Chain s.vol s.dev.disk (dirWalkStart s.vol dir).cluster (dcs.dropLast ++ [p]) := by rw [← hcsplit]; exact hch
            have := chain_snoc (v' := s.vol) (d' := d) dcs.dropLast hch' rfl hgr.inRange
              (fun hm => hc_notG (by
                rw [hsplit]; exact (mem_flatten3 _ _ _ c).2 (.inr (.inl (by rw [flatten_one, hcsplit]; exact hm)))))
              hlk heof (fun y hy => nextOf_congr rfl (hoth y (chain_inRange hch y (by rw [hcsplit]; exact List.mem_append_left _ hy)).2
                (fun e' => hc_notG (by
                  rw [hsplit]; exact (mem_flatten3 _ _ _ c).2 (.inr (.inl (by rw [flatten_one, hcsplit, ← e']; exact List.mem_append_left _ hy)))))
                (fun e' => by
                  have hnd := ndcs
                  rw [hcsplit] at hnd
                  obtain ⟨_, _, h3⟩ := List.nodup_append.1 hnd
                  exact h3 y hy p (List.mem_singleton.2 rfl) e')))
            rw [← hcsplit] at this
            exact this
          refine ⟨fun cs hcs => by rw [List.mem_singleton.1 hcs]; exact hchain, ?_, fun z hz => ?_⟩
          · rw [flatten_one]; exact chain_nodup hchain
          · rw [flatten_one] at hz; exact chain_mem_used hchain z hz
        · intro x hx
          rw [flatten_one] at hx
          rcases List.mem_append.1 hx with hx | hx
          · exact ⟨fun hA => dAM x hA hx, fun hB => dMB x hx hB⟩
          · rw [List.mem_singleton.1 hx]
            exact ⟨fun hA => hc_notG (by rw [hsplit]; exact (mem_flatten3 _ _ _ c).2 (.inl hA)),
              fun hB => hc_notG (by rw [hsplit]; exact (mem_flatten3 _ _ _ c).2 (.inr (.inr hB)))⟩
      have hMoth : ∀ x, x < endCluster s.vol → x ≠ c → x ≠ p → fatRaw s.vol sM.dev.disk x = fatRaw s.vol s.dev.disk x :=
        fun x hx h1 h2 => hgr.within.other x hx (by simp [h1, h2])
      -- the slot write goes to a block of `c`: the FAT is untouched
      have hbreg : regionOf s.vol e.entryBlock ≠ .fat := by
        rw [hbk]
        have := FatLens.cluster_blocks_in_data_region s.vol hg c 0 hgr.inRange.1 hgr.inRange.2 hg.bpc_pos
        rw [Nat.add_zero] at this; rw [this]; decide
      have hfatS : ∀ x, x < endCluster s.vol → fatRaw s.vol s'.dev.disk x = fatRaw s.vol sM.dev.disk x := fun x hx => by
        unfold fatRaw
        rw [hslot_other _ (fun e' => hbreg (by rw [← e']; exact (FatLens.fat_blocks_in_fat_region s.vol hg x hx).1))]
      have hpE : p < endCluster s.vol := hgr.lastUsed.1.2
      have hownL' : OwnsLoose s.vol s'.dev.disk (G.set idir (dcs ++ [c])) :=
        hsoundM _ (fun x hx h1 h2 => (hfatS x hx).trans (hMoth x hx h1 h2))
          (by rw [nextOf_congr rfl (hfatS p hpE)]; exact hgr.link) (by rw [nextOf_congr rfl (hfatS c hgr.inRange.2)]; exact hgr.eof)
      -- exactness of the final record: every used cluster is in it
      have hown' : Owns s'.vol s'.dev.disk (G.set idir (dcs ++ [c])) := by
        refine WriteRefines.owns_sameGeom hsg' ⟨hownL'.1, hownL'.2.1, fun x => ⟨fun hu => ?_, hownL'.2.2 x⟩⟩
        by_cases hxc : x = c
        · rw [hxc, hG']; exact (mem_flatten3 _ _ _ c).2 (.inr (.inl (by rw [flatten_one]; exact List.mem_append_right _ (List.mem_singleton.2 rfl))))
        · by_cases hxp : x = p
          · rw [hxp, hG']
            exact (mem_flatten3 _ _ _ p).2 (.inr (.inl (by rw [flatten_one]; exact List.mem_append_left _ hp_dcs)))
          · have hraw : fatRaw s.vol s'.dev.disk x = fatRaw s.vol s.dev.disk x := (hfatS x hu.1.2).trans (hMoth x hu.1.2 hxc hxp)
            have hu0 : isUsed s.vol s.dev.disk x := (isUsed_congr_raw hraw).1 hu
            have hxG := (ho.2.2 x).1 hu0
            rw [hsplit] at hxG
            rw [hG']
            rcases (mem_flatten3 _ _ _ x).1 hxG with h1 | h1 | h1
            · exact (mem_flatten3 _ _ _ x).2 (.inl h1)
            · rw [flatten_one] at h1
              exact (mem_flatten3 _ _ _ x).2 (.inr (.inl (by rw [flatten_one]; exact List.mem_append_left _ h1)))
            · exact (mem_flatten3 _ _ _ x).2 (.inr (.inr h1))
      refine ⟨_, hown', hsg', hready', .inr ⟨idir, c, rfl, rfl⟩, hcr.mono fun d hd => ?_⟩
      -- frames of the crashed medium relative to the start
      have hframe : (∀ x, x < endCluster s.vol → x ≠ c → x ≠ p → fatRaw s.vol d x = fatRaw s.vol s.dev.disk x) ∧
          (∀ i, regionOf s.vol i ≠ .fat → ¬ InCluster s.vol c i → d.get i = s.dev.disk.get i) := by
        rcases hd with (hA | ⟨hB, _, _⟩ | ⟨hC, _⟩) | rfl
        · exact ⟨fun x hx _ _ => hA.other x hx List.not_mem_nil, fun i hi hn => hA.nonFat i hi (fun hz => hn hz.2)⟩
        · exact ⟨fun x hx h1 _ => hB.other x hx (by simp [h1]), fun i hi hn => hB.nonFat i hi (fun hz => hn hz.2)⟩
        · exact ⟨fun x hx h1 h2 => (hC.fatRaw hx).trans (hMoth x hx h1 h2),
            fun i hi hn => (hC.nonFat i hi).trans (hgr.within.nonFat i hi (fun hz => hn hz.2))⟩
        · refine ⟨fun x hx h1 h2 => (hfatS x hx).trans (hMoth x hx h1 h2), fun i hi hn => ?_⟩
          rw [hslot_other i (fun e' => hn (by rw [e', hbk]; exact ⟨Nat.le_refl _, by have := hg.bpc_pos; omega⟩))]
          exact hgr.within.nonFat i hi (fun hz => hn hz.2)
      refine ⟨?_, fun j X hj hne => ?_, fun i hi hx => ?_⟩
      · rcases hd with (hA | ⟨hB, _, _⟩ | ⟨hC, _⟩) | rfl
        · exact .inl (ownsLoose_congr (ownsLoose_of_owns ho) fun x hx => hA.other x (owns_mem_used ho hx).1.2 List.not_mem_nil)
        · exact .inl (ownsLoose_congr (ownsLoose_of_owns ho) fun x hx =>
            hB.other x (owns_mem_used ho hx).1.2 (fun hm => hc_notG (List.mem_singleton.1 hm ▸ hx)))
        · exact .inr ⟨idir, c, rfl, hsoundM d hframe.1 (by rw [nextOf_congr rfl (hC.fatRaw hpE)]; exact hgr.link)
            (by rw [nextOf_congr rfl (hC.fatRaw hgr.inRange.2)]; exact hgr.eof)⟩
        · exact .inr ⟨idir, c, rfl, hownL'⟩
      · have hji : j ≠ idir := fun e' => hne (by rw [e'])
        refine other_chain_intact hg ho (mem_of_get hj) (fun x hx => ?_) fun x hx jj hjj => ?_
        · have hu := owns_mem_used ho (mem_flatten_of_mem (mem_of_get hj) hx)
          exact hframe.1 x hu.1.2 (fun e' => hc_notG (e' ▸ mem_flatten_of_mem (mem_of_get hj) hx))
            (CrashHist.ne_of_other_chain ho.2.1 hGi hj hji hp_dcs hx)
        · have hu := owns_mem_used ho (mem_flatten_of_mem (mem_of_get hj) hx)
          obtain ⟨h1, h2⟩ := used_block_facts hg hu hjj
          exact hframe.2 _ h1 (h2 c hgr.inRange hgr.wasFree)
      · have hnc : ¬ InCluster s.vol c i := hx c hgr.inRange hgr.wasFree
        exact ⟨fun _ => hframe.2 i hi hnc, fun k _ => by rw [hframe.2 i hi hnc]⟩

end Sdmmc.Lemmas.CrashDirRecord
