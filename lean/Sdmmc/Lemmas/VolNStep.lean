/-
Several open volumes: **the simulation lemma `step_sim`** — a call addressed (through its handle) to volume record `i`
answers the same, issues the same device reads and writes, and reaches the projected state (up to the order of the
directory / file tables) whether it is run on the manager `s` or on its projection to volume `i`; the records of the
other volumes, all volume handles / partition indices and the limits are untouched.

The one exception is stated as the hypothesis `LabelFresh`: `get_root_volume_label` opens the root directory under a
fresh handle and then lists / closes "the directory with that handle" — the FIRST record carrying it.  If the handle
generator has wrapped around (2^32 handles) and an open directory of ANOTHER volume carries the same raw handle, the call
lists and closes that directory instead.  (This does not endanger the invariant — `Props.C03Multi` treats `label`
separately —, only the simulation.)
-/
import Sdmmc.Lemmas.VolNRead
import Sdmmc.Lemmas.VolNWrite
import Sdmmc.Lemmas.VolNDir
import Sdmmc.Lemmas.VolNDirW
import Sdmmc.Lemmas.VolNOpen
import Sdmmc.Lemmas.VolApiRO
import Sdmmc.Lemmas.VolNInv

namespace Sdmmc.Lemmas.VolN
open Sdmmc.Model Sdmmc.Model.Fat Sdmmc.Spec.Volume
open Sdmmc.Spec hiding NoFault Coherent run step
open Sdmmc.Lemmas.MHoare

/-- The fresh handle `get_root_volume_label` would use is carried by no open directory. -/
def LabelFresh (s : Mgr) : Op → Prop
  | .label _ => s.nextId ∉ s.dirs.map (·.rawDirectory)
  | _ => True

theorem findIdx?_of_nodup {s : Mgr} (hnd : (s.vols.map fun vi => vi.rawVolume).Nodup) {i : Nat} {vi : VolInfo}
    (hvi : s.vols[i]? = some vi) : s.vols.findIdx? (·.rawVolume = vi.rawVolume) = some i := by
  have hm : vi.rawVolume ∈ s.vols.map (·.rawVolume) := List.mem_map.2 ⟨vi, List.mem_of_getElem? hvi, rfl⟩
  obtain ⟨j, w, hj, hw, he⟩ := findIdx?_some_of_mem s.vols (·.rawVolume) vi.rawVolume hm
  rw [hj, index_of_handle hnd hw hvi he]

section
variable {hv i : Nat}

theorem RunSim.toRunSim2 {α : Type} {m : M α} {s : Mgr} (h : RunSim hv i m s) : RunSim2 hv i Eq m m s := by
  refine ⟨?_, h.rel, h.volKeys, h.restVols, h.restDirs, h.restFiles, h.limits⟩
  rw [h.res]
  exact resRel_refl _

/-- Mapping the answer into a payload. -/
theorem RunSim.map {α β : Type} {m : M α} {s : Mgr} (h : RunSim hv i m s) (g : α → β) :
    RunSim hv i (m >>= fun a => (pure (g a) : M β)) s :=
  (RunSim2.bind_const h.toRunSim2 fun a b hab => ⟨.ok (g a), .ok (g b), fun _ => rfl, fun _ => rfl, by rw [hab]; rfl⟩).toRunSim

/-- The target of `label v` is the record carrying `v`. -/
theorem label_handle {s : Mgr} {v : Nat} (hvol : s.vols.findIdx? (·.rawVolume = hv) = some i)
    (ht : s.vols.findIdx? (·.rawVolume = v) = some i) : v = hv := by
  obtain ⟨w, hw, h1⟩ := findIdx?_some_get hvol
  obtain ⟨w', hw', h2⟩ := findIdx?_some_get ht
  rw [hw] at hw'
  cases hw'
  have e1 : w.rawVolume = hv := by simpa using h1
  have e2 : w.rawVolume = v := by simpa using h2
  exact e2.symm.trans e1

/-- **Every call addressed to volume record `i`**, run from `s` and from its projection. -/
theorem runOp_runSim {s : Mgr} (hvol : s.vols.findIdx? (·.rawVolume = hv) = some i) (op : Op) (ht : target s op = some i)
    (hf : LabelFresh s op) : RunSim hv i (runOp op) s := by
  cases op with
  | openVolume _ => cases ht
  | closeVolume _ => cases ht
  | openRoot _ => cases ht
  | closeDir _ => cases ht
  | hasOpen => cases ht
  | openDir d name => exact (openDir_runSim hvol ht name).map _
  | openFile d name mode => exact (openFile_runSim hvol ht name mode).map _
  | delete d name => exact (delete_runSim hvol ht name).map _
  | mkdir d name => exact (mkdir_runSim hvol ht name).map _
  | find d name => exact (find_runSim hvol ht name).map _
  | list d => exact (list_runSim hvol ht).map _
  | listLfn d n => exact (listLfn_runSim hvol ht n).map _
  | read f n => exact (read_runSim hvol ht n).map _
  | write f b => exact (write_runSim hvol ht b).map _
  | seekStart f n => exact (seekStart_runSim hvol ht n).map _
  | seekCur f n => exact (seekCur_runSim hvol ht n).map _
  | seekEnd f n => exact (seekEnd_runSim hvol ht n).map _
  | flush f => exact (flush_runSim hvol ht).map _
  | closeFile f => exact (closeFile_runSim hvol ht).map _
  | length f => exact (length_runSim hvol ht).map _
  | offset f => exact (offset_runSim hvol ht).map _
  | eof f => exact (eof_runSim hvol ht).map _
  | label v =>
    have e := label_handle hvol ht
    subst e
    exact (label_runSim hvol hf).map _

end

/-- What `step_sim` delivers. -/
structure StepSim (hv i : Nat) (s : Mgr) (op : Op) : Prop where
  /-- the same answer, the same device writes, the same device reads -/
  out : (Model.step (projH hv i s) op).2 = (Model.step s op).2
  /-- the state reached from the projection is the projection of the state reached from `s`, up to table order -/
  rel : ProjRel hv i (Model.step s op).1 (Model.step (projH hv i s) op).1
  volKeys : (Model.step s op).1.vols.map vkey = s.vols.map vkey
  restVols : (Model.step s op).1.vols.eraseIdx i = s.vols.eraseIdx i
  restDirs : (otherDirs (Model.step s op).1 hv).Perm (otherDirs s hv)
  restFiles : (otherFiles (Model.step s op).1 hv).Perm (otherFiles s hv)
  limits : (Model.step s op).1.maxVols = s.maxVols ∧ (Model.step s op).1.maxDirs = s.maxDirs ∧
    (Model.step s op).1.maxFiles = s.maxFiles

/-- **The simulation lemma.** -/
theorem step_sim {s : Mgr} {hv i : Nat} (hl : s.locked = false) (hvol : s.vols.findIdx? (·.rawVolume = hv) = some i)
    (op : Op) (ht : target s op = some i) (hf : LabelFresh s op) : StepSim hv i s op := by
  have h := runOp_runSim (s := resetLogs s) (hv := hv) (i := i) hvol op (by exact ht) (by cases op <;> exact hf)
  have e1 := step_unlocked s op hl
  have e2 := step_unlocked (projH hv i s) op (by exact hl)
  have ep : resetLogs (projH hv i s) = projH hv i (resetLogs s) := rfl
  rw [ep] at e2
  obtain ⟨h1, h2, h3, h4, h5, h6, h7⟩ := h
  have hdev : (runOp op (projH hv i (resetLogs s))).2.dev = (runOp op (resetLogs s)).2.dev := h2.dev
  refine ⟨?_, ?_, ?_, ?_, ?_, ?_, ?_⟩
  · rw [e1, e2]
    simp only
    rw [h1, hdev]
  · rw [e1, e2]; exact h2
  · rw [e1]; exact h3
  · rw [e1]; exact h4
  · rw [e1]; exact h5
  · rw [e1]; exact h6
  · rw [e1]; exact h7

end Sdmmc.Lemmas.VolN
