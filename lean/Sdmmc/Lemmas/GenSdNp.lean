/-
Tie of the SD-card driver to the source text: outcomes kept in variables (`S.attempt`) and computations that never
panic (`NoPanic`) — the primitives and the waits.
-/
import Sdmmc.Lemmas.GenSd

namespace Sdmmc.Lemmas.GenSd
open Sdmmc.Model Sdmmc.Model.Sd Sdmmc.Gen Sdmmc.Lemmas.Sd

variable {σ : Type} (B : BusOps σ)

theorem attempt_pure {α : Type} (a : α) : S.attempt (pure a : S σ α) = pure (.ok a) := rfl
theorem attempt_fail {α : Type} (e : SdErr) : S.attempt (S.fail e : S σ α) = pure (.err e) := rfl

theorem attempt_bind {α β : Type} (m : S σ α) (f : α → S σ β) :
    S.attempt (m >>= f) = S.attempt m >>= fun r => match r with
      | .ok a => S.attempt (f a)
      | .err e => pure (.err e)
      | .panic p => pure (.panic p) := by
  funext s
  simp only [bind_apply, attempt_apply]
  rcases m s with ⟨r, s'⟩
  cases r <;> rfl

/-- the computation never panics -/
def NoPanic {α : Type} (m : S σ α) : Prop := ∀ s p, (m s).1 ≠ .panic p

theorem np_pure {α : Type} (a : α) : NoPanic (pure a : S σ α) := fun _ _ h => by cases h
theorem np_fail {α : Type} (e : SdErr) : NoPanic (S.fail e : S σ α) := fun _ _ h => by cases h
theorem np_bind {α β : Type} {m : S σ α} {f : α → S σ β} (hm : NoPanic m) (hf : ∀ a, NoPanic (f a)) : NoPanic (m >>= f) := by
  intro s p
  simp only [bind_apply]
  have := hm s
  rcases h : m s with ⟨r, s'⟩
  rw [h] at this
  cases r with
  | ok a => exact hf a s' p
  | err e => intro h'; cases h'
  | panic q => exact absurd rfl (this q)
theorem np_ite {α : Type} (c : Prop) [Decidable c] {a b : S σ α} (ha : NoPanic a) (hb : NoPanic b) :
    NoPanic (if c then a else b) := by split <;> assumption
theorem np_readByte : NoPanic (readByte B) := by
  intro s p
  rw [readByte_apply]
  cases (B.xfer s.bus [0xFF]).2 <;> intro h <;> cases h
theorem np_xferEv (ev : Event) : NoPanic (xferEv B ev) := by
  intro s p
  rw [xferEv_apply]
  cases (B.xfer s.bus ev.bytes).2 <;> intro h <;> cases h
theorem np_delayTick : NoPanic (delayTick B) := fun _ _ h => by cases h
theorem np_get : NoPanic (S.get : S σ (St σ)) := fun _ _ h => by cases h
theorem np_writeByte (x : UInt8) : NoPanic (writeByte B x) := np_bind (np_xferEv B _) fun _ => np_pure _
theorem np_waitToken (n : Nat) : NoPanic (waitToken B n) := by
  induction n with
  | zero => exact np_bind (np_readByte B) fun a => np_ite _ (np_pure _) (np_fail _)
  | succ k ih => exact np_bind (np_readByte B) fun a => np_ite _ (np_pure _) (np_bind (np_delayTick B) fun _ => ih)
theorem np_waitNotBusy (n : Nat) : NoPanic (waitNotBusy B n) := by
  induction n with
  | zero => exact np_bind (np_readByte B) fun a => np_ite _ (np_pure _) (np_fail _)
  | succ k ih => exact np_bind (np_readByte B) fun a => np_ite _ (np_pure _) (np_bind (np_delayTick B) fun _ => ih)
/-- continuations of an outcome that cannot be a panic need to agree on `ok` and `err` only -/
theorem attempt_congr {α β : Type} {m : S σ α} (hm : NoPanic m) {F G : SRes α → S σ β}
    (hok : ∀ a, F (.ok a) = G (.ok a)) (herr : ∀ e, F (.err e) = G (.err e)) :
    (S.attempt m >>= F) = (S.attempt m >>= G) := by
  funext s
  simp only [bind_apply, attempt_apply]
  have := hm s
  rcases h : m s with ⟨r, s'⟩
  rw [h] at this
  cases r with
  | ok a => exact congrFun (hok a) s'
  | err e => exact congrFun (herr e) s'
  | panic p => exact absurd rfl (this p)

theorem np_attempt_bind {α β : Type} {m : S σ α} {f : SRes α → S σ β} (hm : NoPanic m)
    (hf : ∀ r, (∀ p, r ≠ .panic p) → NoPanic (f r)) : NoPanic (S.attempt m >>= f) := by
  intro s p
  simp only [bind_apply, attempt_apply]
  exact hf (m s).1 (hm s) (m s).2 p
end Sdmmc.Lemmas.GenSd
