/-
Several open volumes: the calls that work on NO volume record — `has_open_handles`, `open_root_dir`, `close_dir`, and
every call whose handle does not lead to an open volume (`target s op = none`: unknown handle, or a directory whose
volume handle is not open — deviation (c)): they answer without touching the medium or a volume record, and keep
`VolInvN`.
-/
import Sdmmc.Lemmas.VolNInv
import Sdmmc.Lemmas.VolApiRO

namespace Sdmmc.Lemmas.VolN
open Sdmmc.Model Sdmmc.Model.Fat Sdmmc.Spec.Volume
open Sdmmc.Spec hiding NoFault Coherent run step
open Sdmmc.Lemmas.MHoare

/-! ### States with the same medium and volume / file tables -/

/-- `VolInvN` only reads the medium, the faults, the cache, the lock and the three tables; a directory record that is
new carries the root marker. -/
theorem volInvN_frame {s s' : Mgr} {ghs : List Ghost} (hI : VolInvN s ghs) (hd : s'.dev.disk = s.dev.disk)
    (hf : s'.dev.faults = []) (hc : ∀ i, s'.cache.tag = some i → s'.cache.blk = s'.dev.disk.get i)
    (hl : s'.locked = false) (hv : s'.vols = s.vols) (hfiles : s'.files = s.files)
    (hdirs : ∀ di, di ∈ s'.dirs → di ∈ s.dirs ∨ di.cluster = Gen.CLUSTER_ROOT_DIR) : VolInvN s' ghs := by
  have hvf : ∀ hv', volFiles s' hv' = volFiles s hv' := fun hv' => by unfold volFiles; rw [hfiles]
  refine
    { noFault := hf, coherent := hc, unlocked := hl, len := by rw [hv]; exact hI.len
      vols := by rw [hv]; exact hI.vols, handles := by rw [hv]; exact hI.handles
      indices := by rw [hv]; exact hI.indices, parts := by rw [hv]; exact hI.parts
      med := ?_, fileVols := by rw [hv, hfiles]; exact hI.fileVols, openDirs := ?_, inertDirs := ?_ }
  · intro i vi gh hvi hgh
    rw [hv] at hvi
    rw [hd, hvf]
    exact hI.med i vi gh hvi hgh
  · intro di hdi i vi gh hvi hgh he
    rw [hv] at hvi
    rcases hdirs di hdi with h | h
    · exact hI.openDirs di h i vi gh hvi hgh he
    · exact .inl h
  · intro di hdi hno
    rw [hv] at hno
    rcases hdirs di hdi with h | h
    · exact hI.inertDirs di h hno
    · exact h

theorem mirrorN_frame {s s' : Mgr} {ghs : List Ghost} (hm : MirrorN s ghs) (hd : s'.dev.disk = s.dev.disk) : MirrorN s' ghs :=
  fun gh hgh => by rw [hd]; exact hm gh hgh

theorem volInvN_resetLogs {s : Mgr} {ghs : List Ghost} (hI : VolInvN s ghs) : VolInvN (resetLogs s) ghs :=
  volInvN_frame (s' := resetLogs s) hI rfl hI.noFault hI.coherent hI.unlocked rfl rfl fun _ h => .inl h

/-- A state that differs from `s` in the handle generator only. -/
theorem volInvN_nextId {s : Mgr} {ghs : List Ghost} (hI : VolInvN s ghs) (n : Nat) : VolInvN { s with nextId := n } ghs :=
  volInvN_frame (s' := { s with nextId := n }) hI rfl hI.noFault hI.coherent hI.unlocked rfl rfl fun _ h => .inl h

/-! ### `open_root_dir`, `close_dir` -/

theorem openRoot_multi {s : Mgr} {ghs : List Ghost} (hI : VolInvN s ghs) (volume : Nat) :
    VolInvN (openRootDir volume s).2 ghs ∧ (openRootDir volume s).2.dev = s.dev := by
  unfold openRootDir
  rw [generate_bind, get_bind]
  simp only
  split
  · exact ⟨volInvN_nextId hI _, rfl⟩
  · refine ⟨volInvN_frame (s' := { s with nextId := _, dirs := s.dirs ++ [_] }) hI rfl hI.noFault hI.coherent hI.unlocked rfl rfl ?_, rfl⟩
    intro di hdi
    rcases List.mem_append.1 hdi with h | h
    · exact .inl h
    · rw [List.mem_singleton.1 h]; exact .inr rfl

theorem closeDir_multi {s : Mgr} {ghs : List Ghost} (hI : VolInvN s ghs) (directory : Nat) :
    VolInvN (closeDir directory s).2 ghs ∧ (closeDir directory s).2.dev = s.dev := by
  unfold closeDir
  rw [get_bind]
  cases h : s.dirs.findIdx? (·.rawDirectory = directory) with
  | none => exact ⟨hI, rfl⟩
  | some k =>
    refine ⟨volInvN_frame (s' := { s with dirs := swapRemove s.dirs k }) hI rfl hI.noFault hI.coherent hI.unlocked rfl rfl ?_, rfl⟩
    intro di hdi
    exact .inl (VolApi.mem_of_mem_swapRemove hdi)

/-! ### Calls whose handle leads to no open volume -/

/-- The common prologue of the directory calls. -/
theorem dirPrologue_untargeted {α : Type} {s : Mgr} {d : Nat} (ht : dirTarget s d = none) (k : Nat → DirInfo → Nat → M α) :
    (getDirById d >>= fun dirIdx => getDir dirIdx >>= fun di => getVolumeById di.rawVolume >>= fun vi => k dirIdx di vi) s =
      (.err .BadHandle, s) := by
  unfold dirTarget at ht
  cases hk : s.dirs.findIdx? (·.rawDirectory = d) with
  | none => exact bind_err (getDirById_bad hk)
  | some j =>
    rw [hk] at ht
    simp only at ht
    obtain ⟨di, hdi, _⟩ := findIdx?_some_get hk
    rw [hdi] at ht
    simp only at ht
    rw [bind_ok (getDirById_ok hk), bind_ok (getDir_ok hdi)]
    exact bind_err (getVolumeById_bad ht)

theorem fileTarget_none {s : Mgr} {ghs : List Ghost} (hI : VolInvN s ghs) {f : Nat} (ht : fileTarget s f = none) :
    s.files.findIdx? (·.rawFile = f) = none := by
  unfold fileTarget at ht
  cases hk : s.files.findIdx? (·.rawFile = f) with
  | none => rfl
  | some j =>
    exfalso
    rw [hk] at ht
    simp only at ht
    obtain ⟨fi, hfi, _⟩ := findIdx?_some_get hk
    rw [hfi] at ht
    simp only at ht
    obtain ⟨vi, hvi, he⟩ := hI.fileVols fi (List.mem_of_getElem? hfi)
    have : fi.rawVolume ∈ s.vols.map (·.rawVolume) := List.mem_map.2 ⟨vi, hvi, he.symm⟩
    obtain ⟨j', w, hj', _⟩ := findIdx?_some_of_mem s.vols (·.rawVolume) fi.rawVolume this
    rw [ht] at hj'
    cases hj'

/-- A call that works on no volume record and is not one of the five table calls leaves the state alone. -/
theorem untargeted_state {s : Mgr} {ghs : List Ghost} (hI : VolInvN s ghs) (op : Op) (ht : target s op = none)
    (h1 : ∀ i, op ≠ .openVolume i) (h2 : ∀ v, op ≠ .closeVolume v) (h3 : ∀ v, op ≠ .openRoot v) (h4 : ∀ d, op ≠ .closeDir d)
    (h5 : op ≠ .hasOpen) : (runOp op s).2 = s := by
  have hfile : ∀ {α : Type} (f : Nat) (k : Nat → M α), fileTarget s f = none → ∃ e, (getFileById f >>= k) s = (.err e, s) :=
    fun f k h => ⟨_, bind_err (getFileById_bad (fileTarget_none hI h))⟩
  cases op with
  | openVolume i => exact absurd rfl (h1 i)
  | closeVolume v => exact absurd rfl (h2 v)
  | openRoot v => exact absurd rfl (h3 v)
  | closeDir d => exact absurd rfl (h4 d)
  | hasOpen => exact absurd rfl h5
  | openDir d name =>
    show ((openDir d name >>= fun h => (pure (Payload.handle h) : M Payload)) s).2 = s
    rw [VolApi.map_state]
    unfold openDir
    rw [get_bind]
    by_cases hc : s.dirs.length ≥ s.maxDirs
    · rw [if_pos hc]; rfl
    · rw [if_neg hc, dirPrologue_untargeted (s := s) ht _]
  | openFile d name mode =>
    show ((openFileInDir d name mode >>= fun h => (pure (Payload.handle h) : M Payload)) s).2 = s
    rw [VolApi.map_state]
    unfold openFileInDir
    rw [get_bind]
    by_cases hc : s.files.length ≥ s.maxFiles
    · rw [if_pos hc]; rfl
    · rw [if_neg hc, dirPrologue_untargeted (s := s) ht _]
  | delete d name =>
    show ((deleteFileInDir d name >>= fun _ => (pure Payload.unit : M Payload)) s).2 = s
    rw [VolApi.seq_state]
    unfold deleteFileInDir
    rw [dirPrologue_untargeted (s := s) ht _]
  | mkdir d name =>
    show ((makeDirInDir d name >>= fun _ => (pure Payload.unit : M Payload)) s).2 = s
    rw [VolApi.seq_state]
    unfold makeDirInDir
    rw [get_bind]
    by_cases hc : s.dirs.length ≥ s.maxDirs
    · rw [if_pos hc]; rfl
    · rw [if_neg hc, dirPrologue_untargeted (s := s) ht _]
  | find d name =>
    show ((Model.findDirectoryEntry d name >>= fun e => (pure (Payload.entry e) : M Payload)) s).2 = s
    rw [VolApi.map_state]
    unfold Model.findDirectoryEntry
    rw [dirPrologue_untargeted (s := s) ht _]
  | list d =>
    show ((iterateDir d >>= fun e => (pure (Payload.entries e) : M Payload)) s).2 = s
    rw [VolApi.map_state]
    unfold iterateDir
    rw [dirPrologue_untargeted (s := s) ht _]
  | listLfn d n =>
    show ((iterateDirLfn d n >>= fun e => (pure (Payload.lfnEntries e) : M Payload)) s).2 = s
    rw [VolApi.map_state]
    unfold iterateDirLfn
    rw [dirPrologue_untargeted (s := s) ht _]
  | read f n =>
    show ((Model.read f n >>= fun b => (pure (Payload.bytes b) : M Payload)) s).2 = s
    rw [VolApi.map_state]
    unfold Model.read
    obtain ⟨e, he⟩ := hfile f _ ht
    rw [he]
  | write f b =>
    show ((Model.write f b >>= fun _ => (pure Payload.unit : M Payload)) s).2 = s
    rw [VolApi.seq_state]
    unfold Model.write
    obtain ⟨e, he⟩ := hfile f _ ht
    rw [he]
  | seekStart f n =>
    show ((fileSeekFromStart f n >>= fun _ => (pure Payload.unit : M Payload)) s).2 = s
    rw [VolApi.seq_state]
    unfold fileSeekFromStart
    obtain ⟨e, he⟩ := hfile f _ ht
    rw [he]
  | seekCur f n =>
    show ((fileSeekFromCurrent f n >>= fun _ => (pure Payload.unit : M Payload)) s).2 = s
    rw [VolApi.seq_state]
    unfold fileSeekFromCurrent
    obtain ⟨e, he⟩ := hfile f _ ht
    rw [he]
  | seekEnd f n =>
    show ((fileSeekFromEnd f n >>= fun _ => (pure Payload.unit : M Payload)) s).2 = s
    rw [VolApi.seq_state]
    unfold fileSeekFromEnd
    obtain ⟨e, he⟩ := hfile f _ ht
    rw [he]
  | flush f =>
    show ((flushFile f >>= fun _ => (pure Payload.unit : M Payload)) s).2 = s
    rw [VolApi.seq_state]
    unfold flushFile
    obtain ⟨e, he⟩ := hfile f _ ht
    rw [he]
  | closeFile f =>
    show ((closeFile f >>= fun _ => (pure Payload.unit : M Payload)) s).2 = s
    rw [VolApi.seq_state]
    have hn := fileTarget_none hI ht
    have hfl : flushFile f s = (.err .BadHandle, s) := by
      unfold flushFile
      rw [bind_err (getFileById_bad hn)]
    unfold closeFile
    rw [attempt_bind, hfl]
    simp only
    rw [bind_err (getFileById_bad hn)]
  | length f =>
    show ((fileLength f >>= fun n => (pure (Payload.num n) : M Payload)) s).2 = s
    rw [VolApi.map_state]
    unfold fileLength
    obtain ⟨e, he⟩ := hfile f _ ht
    rw [he]
  | offset f =>
    show ((fileOffset f >>= fun n => (pure (Payload.num n) : M Payload)) s).2 = s
    rw [VolApi.map_state]
    unfold fileOffset
    obtain ⟨e, he⟩ := hfile f _ ht
    rw [he]
  | eof f =>
    show ((fileEof f >>= fun n => (pure (Payload.bool n) : M Payload)) s).2 = s
    rw [VolApi.map_state]
    unfold fileEof
    obtain ⟨e, he⟩ := hfile f _ ht
    rw [he]
  | label v =>
    show ((getRootVolumeLabel v >>= fun l => (pure (Payload.label l) : M Payload)) s).2 = s
    rw [VolApi.map_state]
    unfold getRootVolumeLabel
    rw [bind_err (getVolumeById_bad ht)]

end Sdmmc.Lemmas.VolN
