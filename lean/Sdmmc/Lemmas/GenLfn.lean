/-
Tie of `LfnBuffer` (filesystem/filename.rs) to the source text (`Props/C17GenM`): the machine translations in
`Gen/FunsName.lean` (tools/translate_name.py) of `new`, `clear`, `push`, `as_str` against `Model/Lfn.lean`.
-/
import Sdmmc.Gen.FunsName
import Sdmmc.Lemmas.C17
import Sdmmc.Lemmas.GenName

namespace Sdmmc.Lemmas.GenLfn
open Sdmmc.Model Sdmmc.Model.Lfn Sdmmc.Gen Sdmmc.Gen.FunsName
open Sdmmc.Lemmas.C17

/-- The four fields the generated `&mut self` methods hand back, in the order of `struct LfnBuffer`. -/
def tupOf (b : Buf) : List UInt8 × Nat × Bool × Option Nat := (b.inner, b.free, b.overflow, b.unpaired)

/-- The generated structure read as the model's. -/
def bufOf (b : FunsName.LfnBuffer) : Buf :=
  { inner := b.inner, free := b.free, overflow := b.overflow, unpaired := b.unpaired_surrogate }

theorem new_eq (storage : Bytes) : bufOf (LfnBuffer_new storage) = Lfn.new storage := rfl

theorem clear_eq (b : Buf) :
    LfnBuffer_clear b.inner b.free b.overflow b.unpaired = pure (tupOf (Lfn.clear b)) := rfl

theorem as_str_eq (b : Buf) : LfnBuffer_as_str b.inner b.free b.overflow = Lfn.asStr b := by
  unfold LfnBuffer_as_str Lfn.asStr
  cases b.overflow <;> rfl

/-- the units up to the first null -/
theorem take_findIdx (l : List Nat) :
    List.take (Option.getD (List.findIdx? (fun b => decide (b = 0)) l) l.length) l = l.takeWhile (· ≠ 0) := by
  induction l with
  | nil => rfl
  | cons a rest ih =>
    by_cases ha : a = 0
    · simp [List.findIdx?_cons, ha]
    · simp only [List.findIdx?_cons, ha, decide_false, Bool.false_eq_true, if_false, List.length_cons]
      rw [List.takeWhile_cons_of_pos (by simpa using ha)]
      cases h : List.findIdx? (fun b => decide (b = 0)) rest with
      | none => simp [h] at ih ⊢; exact ih
      | some i => simp [h] at ih ⊢; exact ih

theorem findIdx_le (l : List Nat) :
    Option.getD (List.findIdx? (fun b => decide (b = 0)) l) l.length ≤ l.length := by
  cases h : List.findIdx? (fun b => decide (b = 0)) l with
  | none => simp
  | some i => simp; exact Nat.le_of_lt (List.findIdx?_eq_some_iff_getElem.1 h).1


/-- The decode loop of `push`: whenever the model's `collect` does not panic, the generated loop returns its result. -/
theorem loop1_eq (items : List Item) : ∀ (acc : List Nat) (isFirst : Bool) (saved : Option Nat) (r : List Nat × Option Nat),
    collect items isFirst acc saved = some r → LfnBuffer_push_loop1 items acc isFirst saved = pure r := by
  induction items with
  | nil =>
    intro acc isFirst saved r h
    rw [collect] at h
    cases h
    simp only [LfnBuffer_push_loop1]
  | cons it rest ih =>
    intro acc isFirst saved r h
    cases it with
    | ch c =>
      rw [LfnBuffer_push_loop1]
      rw [collect] at h
      have hcap : CHAR_VEC_CAP = 14 := rfl
      by_cases hl : acc.length < 14
      · rw [hcap, if_pos hl] at h
        simp only [hl, if_true, GenName.pure_bind]
        exact ih _ _ _ _ h
      · rw [hcap, if_neg hl] at h; cases h
    | unpaired u =>
      rw [LfnBuffer_push_loop1]
      rw [collect] at h
      have hcap : CHAR_VEC_CAP = 14 := rfl
      cases isFirst with
      | true =>
        simp only [if_true, GenName.pure_bind] at h ⊢
        exact ih _ _ _ _ h
      | false =>
        simp only [Bool.false_eq_true, if_false] at h ⊢
        by_cases hl : acc.length < 14
        · rw [hcap, if_pos hl] at h
          simp only [hl, if_true, GenName.pure_bind]
          exact ih _ _ _ _ h
        · rw [hcap, if_neg hl] at h; cases h

theorem ofNat_toNat (b : UInt8) : UInt8.ofNat b.toNat = b := by
  apply UInt8.eq_of_toBitVec_eq
  apply BitVec.eq_of_toNat_eq
  simp [UInt8.ofNat]

theorem splice_step (inner : Bytes) (free : Nat) (b : UInt8) (r : Bytes) (h1 : r.length + 1 ≤ free) (h2 : free ≤ inner.length) :
    splice (List.set inner (free - 1) b) (free - 1 - r.length) r.reverse =
      splice inner (free - (r.length + 1)) (b :: r).reverse := by
  unfold splice
  have e1 : free - 1 - r.length = free - (r.length + 1) := by omega
  rw [e1, List.reverse_cons, List.length_append, List.length_reverse, List.length_singleton]
  have hk : free - (r.length + 1) + (r.length + 1) = free := by omega
  have hk' : free - (r.length + 1) + r.length = free - 1 := by omega
  rw [hk, hk', List.take_set_of_le (by omega)]
  have : List.drop (free - 1) (List.set inner (free - 1) b) = b :: List.drop free inner := by
    rw [List.drop_eq_getElem_cons (by rw [List.length_set]; omega), List.getElem_set_self]
    congr 1
    rw [List.drop_set_of_lt (by omega)]
    congr 1; omega
  rw [this]
  simp

/-- The byte loop of `push`: the encoded char, written backwards below `free`. -/
theorem loop3_eq (rbs : Bytes) : ∀ (free : Nat) (inner : Bytes), rbs.length ≤ free → free ≤ inner.length →
    LfnBuffer_push_loop3 rbs free inner = pure (free - rbs.length, splice inner (free - rbs.length) rbs.reverse) := by
  induction rbs with
  | nil =>
    intro free inner _ h2
    rw [LfnBuffer_push_loop3]
    simp [splice]
  | cons b r ih =>
    intro free inner h1 h2
    rw [LfnBuffer_push_loop3]
    simp only [List.length_cons] at h1
    have hf : 1 ≤ free := by omega
    have hi : free - 1 < inner.length := by omega
    simp only [hf, hi, if_true, ofNat_toNat]
    rw [ih (free - 1) _ (by omega) (by rw [List.length_set]; omega), splice_step inner free b r h1 h2]
    congr 2
    simp only [List.length_cons]; omega

/-- What the store loop hands on: the fields at a `return`, or the three it assigns. -/
def merge (u : Option Nat) : Except (List UInt8 × Nat × Bool × Option Nat) (Nat × List UInt8 × Bool) → List UInt8 × Nat × Bool × Option Nat
  | .error t => t
  | .ok (free, inner, ov) => (inner, free, ov, u)

/-- The store loop of `push` is the model's `store`. -/
theorem loop2_eq (chars : List Nat) : ∀ (b : Buf), b.free ≤ b.inner.length →
    ∃ r, LfnBuffer_push_loop2 b.unpaired chars b.free b.inner b.overflow = pure r ∧ merge b.unpaired r = tupOf (store b chars) := by
  induction chars with
  | nil =>
    intro b _
    exact ⟨_, by rw [LfnBuffer_push_loop2], by rw [store_nil]; rfl⟩
  | cons c rest ih =>
    intro b hb
    rw [LfnBuffer_push_loop2]
    by_cases h : b.free < (Lfn.encodeUtf8 c).length
    · rw [store_cons_overflow b c rest h]
      exact ⟨.error (b.inner, b.free, true, b.unpaired), by simp only [h, if_true], rfl⟩
    · rw [store_cons_fit b c rest h]
      have hle : (Lfn.encodeUtf8 c).length ≤ b.free := by omega
      simp only [h, if_false]
      rw [loop3_eq _ b.free b.inner (by rw [List.length_reverse]; exact hle) hb]
      simp only [GenName.pure_bind, List.length_reverse, List.reverse_reverse]
      have hb' : (storeStep b c).free ≤ (storeStep b c).inner.length := by
        rw [storeStep_free, storeStep_inner, splice_length _ _ _ (by omega)]
        omega
      obtain ⟨r, h1, h2⟩ := ih (storeStep b c) hb'
      exact ⟨r, h1, h2⟩


/-- **`LfnBuffer::push`**: on a buffer whose `free` index is inside the storage and a 13-unit fragment, the generated
function returns the fields of the model's result (and the model does not panic). -/
theorem push_eq (b : Buf) (frag : List Nat) (hb : b.free ≤ b.inner.length) (hf : frag.length = 13) :
    ∃ b', Lfn.push b frag = .ok b' ∧
      LfnBuffer_push b.inner b.free b.overflow b.unpaired frag = pure (tupOf b') := by
  have hW := pushUnits_length_le b frag hf
  have hc := collect_decode (pushUnits b frag) hW
  generalize hch : Spec.Utf.decodeUtf16Lossy (splitFirst (pushUnits b frag)).2 = chars at hc
  generalize hsv : (splitFirst (pushUnits b frag)).1 = saved at hc
  refine ⟨store { b with unpaired := saved } chars.reverse, ?_, ?_⟩
  · unfold Lfn.push
    show (match collect (decodeUtf16 (pushUnits b frag)) true [] none with
      | none => Res.panic "Vec was full!?"
      | some (chars, saved) => Res.ok (store { b with unpaired := saved } chars.reverse)) = _
    rw [hc]
  · unfold LfnBuffer_push
    simp only [findIdx_le, if_true, take_findIdx, GenName.pure_bind]
    have hu : (List.takeWhile (fun x => decide (x ≠ 0)) frag ++ b.unpaired.toList) = pushUnits b frag := rfl
    rw [hu, loop1_eq _ _ _ _ _ hc]
    simp only [GenName.pure_bind]
    obtain ⟨r, h1, h2⟩ := loop2_eq chars.reverse { b with unpaired := saved } hb
    simp only [] at h1
    rw [h1]
    simp only [GenName.pure_bind]
    rw [← h2]
    cases r with
    | error t => rfl
    | ok t => obtain ⟨f, i, o⟩ := t; rfl

end Sdmmc.Lemmas.GenLfn
