/-
Bridging lemmas for `Props/C15Main.lean`:

* `mount_of_wellFormed` — `Lemmas.Mounted.mount_of_formatted` needs only the clauses of `Formatted` about the partition
  table, the boot sector and the FSInfo sector (`Spec.Formatted.WellFormedTables`), not those about the volume's contents;
* `openRawVolume_any` — `Lemmas.Mounted.openRawVolume_total` for ANY manager with a healthy device (not only a fresh one):
  a mount of what `mountPure` computes, or an error that leaves the tables and the medium alone; never a panic;
* `step_openVolume` — the API call `open_volume` in terms of `openRawVolume`;
* `open_volume_total` / `open_volume_locates` — the two put together, for `step`.
-/
import Sdmmc.Lemmas.MountedInv
import Sdmmc.Lemmas.Tables
import Sdmmc.Spec.MainWellFormed

namespace Sdmmc.Lemmas.MainC15
open Sdmmc.Model Sdmmc.Model.Fat Sdmmc.Spec Sdmmc.Spec.FatLayout Sdmmc.Spec.Volume Sdmmc.Spec.Formatted
open Sdmmc.Lemmas.ReadRefines (MgrOK)
open Sdmmc.Lemmas.MHoare (resetLogs)

theorem wellFormed_of_formatted {d : Disk} {idx : Nat} {gh : Ghost} (hF : Formatted d idx gh) : WellFormedTables d idx :=
  ⟨hF.mbrLen, hF.mbrSig, hF.idxLe, hF.status, hF.ptype, hF.bootSig, hF.wf, hF.infoAddr, hF.infoSigs⟩

/-- **Mounting over well-formed tables** succeeds with a record that is the specification's layout up to the two
bookkeeping fields, and whose hint is unknown or at least 2.  (Proof of `Lemmas.Mounted.mount_of_formatted`.) -/
theorem mount_of_wellFormed {d : Disk} {idx : Nat} (hF : WellFormedTables d idx) :
    ∃ v1, mountPure (d.get 0) idx d.get = .ok v1 ∧ SameGeom (layoutOn d idx) v1 ∧ HintOK v1 := by
  obtain ⟨_, _, hmbr3, hsup⟩ := C15.mbr_rules (d.get 0) idx
  have hpp := hmbr3 hF.mbrSig hF.idxLe hF.mbrLen hF.status
  have hs : supportedPartitionType (byteAt (d.get 0) (446 + 16 * idx + 4)) = true := (hsup _).2 hF.ptype
  have hbpb := Mounted.parseVolumeBpb_layout (d.get (partStart (d.get 0) idx)) (partStart (d.get 0) idx)
    (partLen (d.get 0) idx) hF.bootSig hF.wf hF.infoAddr
  unfold mountPure
  rw [hpp]
  simp only [Res.bind_ok, hs, Bool.not_true, Bool.false_eq_true, if_false]
  have hbpb' : parseVolumeBpb (d.get (readU32 (d.get 0) (446 + 16 * idx + 8))) (readU32 (d.get 0) (446 + 16 * idx + 8))
      (readU32 (d.get 0) (446 + 16 * idx + 12)) = .ok (layoutOn d idx) := hbpb
  rw [hbpb']
  simp only [Res.bind_ok]
  by_cases hk : kind (Formatted.fieldsOf (d.get (partStart (d.get 0) idx))) = .fat32
  · have hft : (layoutOn d idx).fatType = .fat32 := by
      unfold layoutOn layoutOf; simp only [hk, if_true]
    have hloc : (layoutOn d idx).infoLocation =
        partStart (d.get 0) idx + (Formatted.fieldsOf (d.get (partStart (d.get 0) idx))).fsInfo := by
      unfold layoutOn layoutOf; simp only [hk, if_true]
    rw [hft]
    simp only
    obtain ⟨hs1, _⟩ := C15.info_sentinels (d.get (layoutOn d idx).infoLocation)
    rw [hloc] at hs1 ⊢
    have hparse := hs1 (hF.infoSigs hk)
    unfold parseVolumeInfo
    rw [hparse]
    simp only [Res.bind_ok, Res.pure_eq]
    refine ⟨_, rfl, ⟨_, _, rfl⟩, ?_⟩
    intro n hn
    simp only at hn
    split at hn
    · cases hn
    · rename_i hne
      have := Option.some.inj hn
      omega
  · have hft : (layoutOn d idx).fatType = .fat16 := by
      unfold layoutOn layoutOf; simp only [hk, if_false]
    rw [hft]
    simp only [Res.pure_eq]
    refine ⟨_, rfl, SameGeom.refl _, ?_⟩
    intro n hn
    have : (layoutOn d idx).nextFreeCluster = none := rfl
    rw [this] at hn; cases hn

/-- **Any medium, any manager with a healthy device and room for the volume: an error or a mount, never a panic.**
(`Lemmas.Mounted.openRawVolume_total` without the hypothesis that nothing else is open.) -/
theorem openRawVolume_any {t0 : Mgr} (idx : Nat) (hs : MgrOK t0) (hroom : t0.vols.length < t0.maxVols)
    (hnot : t0.vols.any (fun x => x.idx = idx) = false) :
    (∃ v t1, mountPure (t0.dev.disk.get 0) idx t0.dev.disk.get = .ok v ∧ openRawVolume idx t0 = (.ok t0.nextId, t1) ∧
        t1 = { t0 with dev := t1.dev, cache := t1.cache, nextId := (t0.nextId + 1) % 4294967296,
                       vols := t0.vols ++ [{ rawVolume := t0.nextId, idx := idx, vol := v }] } ∧
        t1.dev.disk = t0.dev.disk ∧ t1.dev.wlog = t0.dev.wlog) ∨
    (∃ e t1, mountPure (t0.dev.disk.get 0) idx t0.dev.disk.get = .err e ∧ openRawVolume idx t0 = (.err e, t1) ∧
        t1 = { t0 with dev := t1.dev, cache := t1.cache } ∧ t1.dev.disk = t0.dev.disk ∧ t1.dev.wlog = t0.dev.wlog) := by
  rcases C15.mount_total (t0.dev.disk.get 0) idx t0.dev.disk.get with ⟨v, hm⟩ | ⟨e, hm⟩
  · left
    obtain ⟨t1, hrun, heq, hd, hw, _⟩ := Reopen.openRawVolume_spec t0 idx v hs hroom hnot hm
    exact ⟨v, t1, hm, hrun, heq, hd, hw⟩
  · right
    obtain ⟨s1, hr1, hs1⟩ := Reopen.rdBlock_spec t0 hs 0
    rw [Reopen.openRawVolume_eq_alt]
    unfold Reopen.openRawVolumeAlt
    rw [MHoare.get_bind, if_neg (by omega), if_neg (by rw [hnot]; exact Bool.false_ne_true), MHoare.bind_ok hr1]
    have hm0 := hm
    unfold mountPure at hm
    rcases C15.parsePartition_noPanic (t0.dev.disk.get 0) idx with ⟨⟨pt, lba, nb⟩, hpp⟩ | ⟨e1, hpp⟩
    swap
    · rw [hpp] at hm ⊢
      have he : e1 = e := by simpa using hm
      subst he
      exact ⟨e1, s1, hm0, by rw [MHoare.bind_err (MHoare.lift_run _ s1)], hs1.eq, hs1.disk, hs1.wlog⟩
    rw [hpp] at hm ⊢
    rw [MHoare.bind_ok (MHoare.lift_run _ s1)]
    simp only [Res.bind_ok] at hm
    dsimp only
    cases hsup : supportedPartitionType pt with
    | false =>
      rw [hsup] at hm
      simp only [Bool.not_false, if_true] at hm ⊢
      have he : Err.FormatError "Partition type not supported" = e := by simpa using hm
      subst he
      exact ⟨_, s1, hm0, rfl, hs1.eq, hs1.disk, hs1.wlog⟩
    | true =>
      rw [hsup] at hm
      simp only [Bool.not_true, Bool.false_eq_true, if_false] at hm ⊢
      obtain ⟨s2, hr2, hs2⟩ := Reopen.rdBlock_spec s1 hs1.ok lba
      rw [hs1.disk] at hr2
      have h12 := hs1.trans hs2
      rw [MHoare.bind_ok hr2]
      rcases C15.parseVolumeBpb_noPanic (t0.dev.disk.get lba) lba nb with ⟨v0, hbpb⟩ | ⟨e2, hbpb⟩
      swap
      · rw [hbpb] at hm ⊢
        have he : e2 = e := by simpa using hm
        subst he
        exact ⟨e2, s2, hm0, by rw [MHoare.bind_err (MHoare.lift_run _ s2)], h12.eq, h12.disk, h12.wlog⟩
      rw [hbpb] at hm ⊢
      rw [MHoare.bind_ok (MHoare.lift_run _ s2)]
      simp only [Res.bind_ok] at hm
      cases hft : v0.fatType with
      | fat16 =>
        rw [hft] at hm
        simp only [Res.pure_eq] at hm
        cases hm
      | fat32 =>
        rw [hft] at hm
        simp only at hm
        dsimp only
        obtain ⟨s3, hr3, hs3⟩ := Reopen.rdBlock_spec s2 hs2.ok v0.infoLocation
        rw [h12.disk] at hr3
        have h13 := h12.trans hs3
        have hinner : (Reopen.rdBlock v0.infoLocation >>= fun info => M.lift (parseVolumeInfo v0 info)) s2 = (.err e, s3) := by
          rw [MHoare.bind_ok hr3, hm]; rfl
        rw [MHoare.bind_err hinner]
        exact ⟨e, s3, hm0, rfl, h13.eq, h13.disk, h13.wlog⟩

/-! ### The API call -/

/-- `open_volume` as an API call (`step`): the state and the answer of `openRawVolume` run on the log-reset state. -/
theorem step_openVolume (s : Mgr) (idx : Nat) (hl : s.locked = false) :
    (∀ h s', openRawVolume idx (resetLogs s) = (.ok h, s') →
      (step s (.openVolume idx)).1 = s' ∧ (step s (.openVolume idx)).2.result = .ok (.handle h)) ∧
    (∀ e s', openRawVolume idx (resetLogs s) = (.err e, s') →
      (step s (.openVolume idx)).1 = s' ∧ (step s (.openVolume idx)).2.result = .err e) := by
  rw [MHoare.step_unlocked s _ hl]
  refine ⟨fun h s' hr => ?_, fun e s' hr => ?_⟩
  · have : runOp (.openVolume idx) (resetLogs s) = (.ok (.handle h), s') := by
      unfold runOp; exact MHoare.bind_ok hr
    rw [this]; exact ⟨rfl, rfl⟩
  · have : runOp (.openVolume idx) (resetLogs s) = (.err e, s') := by
      unfold runOp; exact MHoare.bind_err hr
    rw [this]; exact ⟨rfl, rfl⟩

theorem mgrOK_resetLogs {s : Mgr} (hs : MgrOK s) : MgrOK (resetLogs s) := hs

/-- **`open_volume` never panics**: on a manager with a healthy device, whatever is open and whatever the medium holds,
the call answers a handle — the counter value, one volume record appended: the one `mountPure` computes from block 0, the
boot sector and the FSInfo sector — or an error, with the volume table unchanged; either way nothing is written. -/
theorem open_volume_total (s : Mgr) (idx : Nat) (hs : MgrOK s) :
    (∃ v, mountPure (s.dev.disk.get 0) idx s.dev.disk.get = .ok v ∧
        (step s (.openVolume idx)).2.result = .ok (.handle s.nextId) ∧
        (step s (.openVolume idx)).1.vols = s.vols ++ [{ rawVolume := s.nextId, idx := idx, vol := v }] ∧
        (step s (.openVolume idx)).1.dev.disk = s.dev.disk ∧ (step s (.openVolume idx)).2.writes = []) ∨
    (∃ e, (step s (.openVolume idx)).2.result = .err e ∧ (step s (.openVolume idx)).1.vols = s.vols ∧
        (step s (.openVolume idx)).1.dev.disk = s.dev.disk ∧ (step s (.openVolume idx)).2.writes = []) := by
  have hl : s.locked = false := hs.2.2.2
  by_cases hfull : s.vols.length ≥ s.maxVols
  · right
    rw [Tables.limit_vols s idx hl hfull]
    exact ⟨_, rfl, rfl, rfl, rfl⟩
  by_cases hopen : idx ∈ s.vols.map (·.idx)
  · right
    rw [Tables.volume_double_open s idx hl (by omega) hopen]
    exact ⟨_, rfl, rfl, rfl, rfl⟩
  have hnot : (resetLogs s).vols.any (fun x => x.idx = idx) = false := by
    show s.vols.any (fun x => x.idx = idx) = false
    cases h : s.vols.any (fun x => x.idx = idx) with
    | false => rfl
    | true =>
      obtain ⟨x, hx, hxi⟩ := List.any_eq_true.1 h
      exact absurd (List.mem_map.2 ⟨x, hx, by simpa using hxi⟩) hopen
  have hwr : ∀ s', s'.dev.wlog = (resetLogs s).dev.wlog → (step s (.openVolume idx)).1 = s' →
      (step s (.openVolume idx)).2.writes = [] := by
    intro s' hw he
    have : (step s (.openVolume idx)).2.writes = (step s (.openVolume idx)).1.dev.wlog.reverse := by
      rw [MHoare.step_unlocked s _ hl]
    rw [this, he, hw]; rfl
  rcases openRawVolume_any (t0 := resetLogs s) idx (mgrOK_resetLogs hs) (show s.vols.length < s.maxVols by omega) hnot with
    ⟨v, t1, hm, hrun, heq, hd, hw⟩ | ⟨e, t1, _, hrun, heq, hd, hw⟩
  · left
    obtain ⟨h1, h2⟩ := (step_openVolume s idx hl).1 _ _ hrun
    exact ⟨v, hm, h2, by rw [h1, heq]; rfl, by rw [h1]; exact hd, hwr t1 hw h1⟩
  · right
    obtain ⟨h1, h2⟩ := (step_openVolume s idx hl).2 _ _ hrun
    exact ⟨e, h2, by rw [h1, heq]; rfl, by rw [h1]; exact hd, hwr t1 hw h1⟩

/-- **`open_volume` over well-formed tables succeeds and locates the volume by the specification's formulas**, on any
manager with a healthy device, room for one more volume and the partition not open yet. -/
theorem open_volume_locates (s : Mgr) (idx : Nat) (hs : MgrOK s) (hroom : s.vols.length < s.maxVols)
    (hnot : idx ∉ s.vols.map (·.idx)) (hF : WellFormedTables s.dev.disk idx) :
    ∃ v, (step s (.openVolume idx)).2.result = .ok (.handle s.nextId) ∧
      (step s (.openVolume idx)).1.vols = s.vols ++ [{ rawVolume := s.nextId, idx := idx, vol := v }] ∧
      SameGeom (layoutOn s.dev.disk idx) v ∧ HintOK v ∧
      (step s (.openVolume idx)).1.dev.disk = s.dev.disk ∧ (step s (.openVolume idx)).2.writes = [] := by
  obtain ⟨v1, hm, hg, hh⟩ := mount_of_wellFormed hF
  have hl : s.locked = false := hs.2.2.2
  rcases open_volume_total s idx hs with ⟨v, hm', h1, h2, h3, h4⟩ | ⟨e, he, _⟩
  · rw [hm] at hm'
    cases hm'
    exact ⟨v1, h1, h2, hg, hh, h3, h4⟩
  · -- an error is impossible: there is room, the partition is not open, and `mountPure` succeeds
    exfalso
    have hnot' : (resetLogs s).vols.any (fun x => x.idx = idx) = false := by
      show s.vols.any (fun x => x.idx = idx) = false
      cases h : s.vols.any (fun x => x.idx = idx) with
      | false => rfl
      | true =>
        obtain ⟨x, hx, hxi⟩ := List.any_eq_true.1 h
        exact absurd (List.mem_map.2 ⟨x, hx, by simpa using hxi⟩) hnot
    obtain ⟨t1, hrun, _⟩ := Reopen.openRawVolume_spec (resetLogs s) idx v1 (mgrOK_resetLogs hs) hroom hnot' hm
    obtain ⟨_, h2⟩ := (step_openVolume s idx hl).1 _ _ hrun
    rw [h2] at he
    cases he

end Sdmmc.Lemmas.MainC15
