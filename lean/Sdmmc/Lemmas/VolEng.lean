/-
Volume invariant (C03), layer 2 (engine): a directory handle's walk data from the invariant
(`dir_walk_facts`) and `find_directory_entry` on a directory of a sound volume (`find_spec`): it answers
with the unique live short entry of that name, or `NotFound`, and changes nothing.
-/
import Sdmmc.Lemmas.VolMed2
import Sdmmc.Lemmas.VolWalk
import Sdmmc.Lemmas.ForestFinal

namespace Sdmmc.Lemmas.VolEng
open Sdmmc.Model Sdmmc.Model.Fat Sdmmc.Spec.Volume Sdmmc.Lemmas.VolBase Sdmmc.Lemmas.VolTree
open Sdmmc.Spec hiding NoFault Coherent
open Sdmmc.Lemmas.VolDisk Sdmmc.Lemmas.VolMed Sdmmc.Lemmas.VolWalk
open Sdmmc.Lemmas.FBasic (NoFault Coherent)

section
variable {v : FatVolume} {d : Disk} {files : List FileInfo} {gh : Ghost} {X : List (List Nat)}

/-- What the walks of the FAT engine need to know about the directory a handle designates. -/
theorem dir_walk_facts (hM : MedX v d files gh X) {dc : Nat} (hv : ValidDir gh.dirs dc) :
    dirIdOf dc ∈ dirIds gh.dirs ∧
    ((dc = 0xFFFFFFFC ∧ v.fatType = .fat16 ∧ dirSlots v d gh.G (dirIdOf dc) = fixedRootSlots v d) ∨
     (¬ (v.fatType = .fat16 ∧ dc = 0xFFFFFFFC) ∧ ¬ isFixedRoot v (dirIdOf dc) ∧
       ∃ cs, chainOf gh.G (dirHead v (dirIdOf dc)) = Listing.startCluster v dc :: cs ∧
         Listing.startCluster v dc = dirHead v (dirIdOf dc) ∧
         Listing.DirChain v d (Listing.startCluster v dc :: cs) ∧ cs.length + 1 ≤ v.clusterCount ∧
         dirSlots v d gh.G (dirIdOf dc) = chainSlots v d (Listing.startCluster v dc :: cs))) := by
  obtain ⟨hh, hne⟩ := validDir_id hM hv
  refine ⟨hh, ?_⟩
  by_cases hf : isFixedRoot v (dirIdOf dc)
  · left
    have hdc : dc = 0xFFFFFFFC := by
      by_contra hdc
      obtain ⟨h1, h2, _⟩ := hne hdc
      rw [h1] at hf
      have := hf.1
      omega
    exact ⟨hdc, hf.2, dirSlots_fixed hf⟩
  · right
    have hkind : ¬ (v.fatType = .fat16 ∧ dc = 0xFFFFFFFC) := by
      rintro ⟨h16, hdc⟩
      apply hf
      refine ⟨?_, h16⟩
      unfold dirIdOf
      rw [if_pos (show dc = Gen.CLUSTER_ROOT_DIR from hdc)]
    have hstart : Listing.startCluster v dc = dirHead v (dirIdOf dc) := by
      unfold Listing.startCluster dirHead dirIdOf
      by_cases hdc : dc = 0xFFFFFFFC
      · have h32 : v.fatType = .fat32 := by
          cases hft : v.fatType with
          | fat16 => exact absurd ⟨hft, hdc⟩ hkind
          | fat32 => rfl
        have hR : Gen.CLUSTER_ROOT_DIR = 4294967292 := rfl
        simp only [h32, hdc, hR, if_true]
      · have hdc' : ¬ dc = Gen.CLUSTER_ROOT_DIR := hdc
        obtain ⟨_, h2, _⟩ := hne hdc
        have h0 : dc ≠ 0 := by omega
        cases hft : v.fatType <;> simp only [hdc, hdc', if_false, h0]
    obtain ⟨hm, hhd⟩ := dirChain_spec hM hh hf
    have hch := med_chain hM hm
    rw [headD_of_head? hhd] at hch
    obtain ⟨cs, hcs⟩ : ∃ cs, chainOf gh.G (dirHead v (dirIdOf dc)) = dirHead v (dirIdOf dc) :: cs := by
      cases hc : chainOf gh.G (dirHead v (dirIdOf dc)) with
      | nil => rw [hc] at hhd; cases hhd
      | cons a l =>
        rw [hc] at hhd
        simp only [List.head?_cons, Option.some.injEq] at hhd
        exact ⟨l, by rw [hhd]⟩
    refine ⟨hkind, hf, cs, by rw [hstart]; exact hcs, hstart, ?_, ?_, ?_⟩
    · rw [hstart, ← hcs]
      exact dirChain_of_chain hM.geom hch
    · have := (ForestFinal.chain_fits_fuel v d _ _ hch).1
      rw [hcs] at this
      simpa using this
    · rw [dirSlots_chain hf, hcs, hstart]

end

/-- **Lookup** on a directory of a sound volume, for a name that does not start with 0xE5: the unique live
short entry with that name, decoded; `NotFound` if there is none.  Nothing is written. -/
theorem find_spec {fs : FS} {files : List FileInfo} {gh : Ghost} {X : List (List Nat)}
    (hM : MedX fs.vol fs.dev.disk files gh X) (hn : NoFault fs) (hc : Coherent fs) {dc : Nat}
    (hv : ValidDir gh.dirs dc) (name : Bytes) (hname : name.head? ≠ some 0xE5) :
    ∃ fs', findDirectoryEntry dc name fs =
        ((((entries (dirSlots fs.vol fs.dev.disk gh.G (dirIdOf dc))).find? fun s => decide (sName s = name)).map
            (Listing.decode fs.vol.fatType)).elim (.err .NotFound) .ok, fs') ∧
      fs'.dev.disk = fs.dev.disk ∧ fs'.dev.wlog = fs.dev.wlog ∧ fs'.vol = fs.vol ∧ NoFault fs' ∧ Coherent fs' := by
  obtain ⟨hh, hcase⟩ := dir_walk_facts hM hv
  have hct := hM.tree.cleanTail _ hh
  rcases hcase with ⟨hdc, h16, hsl⟩ | ⟨hkind, _, cs, _, _, hch, hlen, hsl⟩
  · subst hdc
    obtain ⟨fs', h, rest⟩ := Listing.find_fat16_root_spec name fs hn hc h16
    refine ⟨fs', ?_, rest⟩
    rw [hsl] at hct ⊢
    rw [show Fat.findDirectoryEntry 4294967292 name fs = Fat.findDirectoryEntry Gen.CLUSTER_ROOT_DIR name fs from rfl,
      h, h16]
    have := lookupBlocks_entries .fat16 fs.dev.disk name (fs.vol.lbaStart + fs.vol.firstRootDirBlock)
      (blockCountFromBytes (fs.vol.rootEntriesCount * 32)) hname hct
    rw [this]; rfl
  · obtain ⟨fs', h, rest⟩ := Listing.find_chain_spec fs dc name cs hn hc hkind hch (by omega)
    refine ⟨fs', ?_, rest⟩
    rw [hsl] at hct ⊢
    rw [h, lookupChain_entries _ _ _ _ hname hct]

end Sdmmc.Lemmas.VolEng
