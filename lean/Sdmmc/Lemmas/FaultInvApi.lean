/-
C11 under the invariant, part 5 (API): one engine call on the open volume under a fault schedule (`withVol_faulted`),
and the directories after `flush_file`, `close_file`, `close_volume`, `delete_file_in_dir` under ANY fault schedule.
-/
import Sdmmc.Lemmas.FaultInvEng
import Sdmmc.Lemmas.WriteSetInv
import Sdmmc.Lemmas.VolApiOpen

namespace Sdmmc.Lemmas.FaultInv
open Sdmmc.Model Sdmmc.Model.Fat Sdmmc.Spec.Volume Sdmmc.Lemmas.VolBase Sdmmc.Lemmas.VolTree
open Sdmmc.Spec hiding NoFault Coherent
open Sdmmc.Lemmas.VolDisk Sdmmc.Lemmas.VolMed Sdmmc.Lemmas.VolApi Sdmmc.Lemmas.VolEng
open Sdmmc.Lemmas.FBasic (NoFault Coherent)
open Sdmmc.Lemmas.CrashBase Sdmmc.Lemmas.Retry Sdmmc.Lemmas.FaultPre Sdmmc.Lemmas.MHoare

/-! ### One engine call under a fault schedule -/

theorem afterVol_withFaults (L : List Nat) (s : Mgr) (vi : VolInfo) (t : FS) :
    afterVol (withFaults L s) vi (setFaults L t) = withFaults L (afterVol s vi t) := rfl

/-- **One engine call on the open volume, under any fault schedule.**  Whatever holds of every crash point of the
fault-free call holds of the medium afterwards; the tables other than the volume record are untouched; and either
the call is the fault-free call (same outcome, same state up to the schedule) or it answers `DeviceError`. -/
theorem withVol_faulted {α : Type} {f : F α} (hf : Pre f) (hfs : Fault.F.Inv FaultsSame f) {s0 : Mgr} {gh : Ghost}
    (hn : NoFault (fsOf s0 gh)) {vi : VolInfo} (hvs : s0.vols = [vi]) (hvol : vi.vol = gh.vol) (L : List Nat) :
    (∀ P : Disk → Prop, CrashAll P (fsOf s0 gh) (f (fsOf s0 gh)).2 → P (withVol 0 f (withFaults L s0)).2.dev.disk) ∧
    (withVol 0 f (withFaults L s0)).2.files = s0.files ∧ (withVol 0 f (withFaults L s0)).2.dirs = s0.dirs ∧
    ((withVol 0 f (withFaults L s0) = ((withVol 0 f s0).1, withFaults L (withVol 0 f s0).2)) ∨
      (withVol 0 f (withFaults L s0)).1 = .err .DeviceError) := by
  have hw := withVol_one f (s := withFaults L s0) (gh := gh) hvs hvol
  have hw0 := withVol_one f (s := s0) (gh := gh) hvs hvol
  rw [fsOf_withFaults] at hw
  refine ⟨fun P hP => ?_, by rw [hw]; rfl, by rw [hw]; rfl, ?_⟩
  · rw [hw]
    apply hf.transfer (setFaults L (fsOf s0 gh))
    rw [clr_setFaults L _ hn]; exact hP
  · by_cases hq : (f (setFaults L (fsOf s0 gh))).2.dev.failed = (fsOf s0 gh).dev.failed
    · left
      obtain ⟨h1, h2⟩ := Pre.quiet hf hfs L (fsOf s0 gh) hn hq
      rw [hw, hw0, h1, h2, afterVol_withFaults]
    · right
      rw [hw]
      exact ((hf (setFaults L (fsOf s0 gh))).2.2.2 hq).1

/-! ### `flush_file`, `close_file`, `close_volume` -/

theorem flushF_pre (e : DirEntry) : Pre (DirEntryIO.flushF e) := by
  unfold DirEntryIO.flushF
  exact Pre.bind updateInfoSector_pre fun _ => writeEntryToDisk_pre e

theorem flushF_faults (e : DirEntry) : Fault.F.Inv FaultsSame (DirEntryIO.flushF e) := by
  unfold DirEntryIO.flushF
  exact Fault.F.Inv.bind Fault.updateInfoSector_inv fun _ => Fault.writeEntryToDisk_inv e

/-- **`flush_file` under any fault schedule**: the directories are sound on the medium it leaves. -/
theorem flush_fault_dirs {s0 : Mgr} {gh : Ghost} (hI : VolInv s0 gh) (L : List Nat) (h : Nat) :
    DirsP gh.vol gh.dirs (flushFile h (withFaults L s0)).2.dev.disk ∧
    (flushFile h (withFaults L s0)).2.files = s0.files ∧ (flushFile h (withFaults L s0)).2.dirs = s0.dirs := by
  obtain ⟨hn, hc, hM⟩ := volInv_fs hI
  have h0 : DirsP gh.vol gh.dirs s0.dev.disk := dirsP_of_med hM
  cases hidx : s0.files.findIdx? (·.rawFile = h) with
  | none =>
    have : flushFile h (withFaults L s0) = (.err .BadHandle, withFaults L s0) := by
      unfold flushFile
      rw [bind_err (getFileById_bad (s := withFaults L s0) hidx)]
    rw [this]; exact ⟨h0, rfl, rfl⟩
  | some i =>
    obtain ⟨f, hf, _⟩ := findIdx?_some_get hidx
    have hfm : f ∈ s0.files := List.mem_of_getElem? hf
    cases hd : f.dirty with
    | false =>
      rw [DirMgr.flushFile_clean h i f (withFaults L s0) (getFileById_ok (s := withFaults L s0) hidx)
        (getFile_ok (s := withFaults L s0) hf) hd]
      exact ⟨h0, rfl, rfl⟩
    | true =>
      obtain ⟨vi, hv, hvol, hrv, h3⟩ := vol_of_file hI hfm
      obtain ⟨_, ho, hname, hassert, _⟩ := WriteSetInv.file_slot_facts hI hfm
      have h3' : getVolumeById f.rawVolume (withFaults L s0) = (.ok 0, withFaults L s0) := by
        have : s0.vols.findIdx? (·.rawVolume = f.rawVolume) = some 0 := by rw [hv]; simp [hrv]
        exact getVolumeById_ok (s := withFaults L s0) this
      rw [DirMgr.flushFile_dirty h i 0 f (withFaults L s0) (getFileById_ok (s := withFaults L s0) hidx)
        (getFile_ok (s := withFaults L s0) hf) hd h3' hassert]
      obtain ⟨hP, hfl, hdr, _⟩ := withVol_faulted (flushF_pre f.entry) (flushF_faults f.entry) hn hv hvol L
      exact ⟨hP _ ((flush_crash_dirs hM hn hc hfm ho hname).mono fun d hd => ⟨gh.G, hd⟩), hfl, hdr⟩

theorem closeFile_dev (h : Nat) (s : Mgr) : (closeFile h s).2.dev = (flushFile h s).2.dev ∧
    (closeFile h s).2.dirs = (flushFile h s).2.dirs := by
  unfold closeFile
  rw [attempt_bind]
  generalize (flushFile h s).2 = s1
  generalize (flushFile h s).1 = r1
  cases hidx : s1.files.findIdx? (·.rawFile = h) with
  | none => rw [bind_err (getFileById_bad hidx)]; exact ⟨rfl, rfl⟩
  | some i =>
    rw [bind_ok (getFileById_ok hidx), modify_bind]
    exact ⟨rfl, rfl⟩

/-- **`close_file` under any fault schedule.** -/
theorem closeFile_fault_dirs {s0 : Mgr} {gh : Ghost} (hI : VolInv s0 gh) (L : List Nat) (h : Nat) :
    DirsP gh.vol gh.dirs (closeFile h (withFaults L s0)).2.dev.disk ∧ (closeFile h (withFaults L s0)).2.dirs = s0.dirs := by
  obtain ⟨h1, h2⟩ := closeFile_dev h (withFaults L s0)
  obtain ⟨h3, _, h4⟩ := flush_fault_dirs hI L h
  rw [h1, h2]; exact ⟨h3, h4⟩

/-- **`close_volume` under any fault schedule.** -/
theorem closeVolume_fault_dirs {s0 : Mgr} {gh : Ghost} (hI : VolInv s0 gh) (L : List Nat) (v : Nat) :
    DirsP gh.vol gh.dirs (closeVolume v (withFaults L s0)).2.dev.disk ∧ (closeVolume v (withFaults L s0)).2.dirs = s0.dirs := by
  obtain ⟨hn, hc, hM⟩ := volInv_fs hI
  have h0 : DirsP gh.vol gh.dirs s0.dev.disk := dirsP_of_med hM
  unfold closeVolume
  rw [get_bind]
  split
  · exact ⟨h0, rfl⟩
  split
  · exact ⟨h0, rfl⟩
  cases hv : s0.vols.findIdx? (·.rawVolume = v) with
  | none => rw [bind_err (getVolumeById_bad (s := withFaults L s0) hv)]; exact ⟨h0, rfl⟩
  | some volIdx =>
    obtain ⟨hz, vi, hvs, hvol, _⟩ := vol_of_handle hI hv
    subst hz
    rw [bind_ok (getVolumeById_ok (s := withFaults L s0) hv)]
    obtain ⟨hP, _, hdr, _⟩ := withVol_faulted updateInfoSector_pre Fault.updateInfoSector_inv hn hvs hvol L
    have hcr : CrashAll (DirsP gh.vol gh.dirs) (fsOf s0 gh) (updateInfoSector (fsOf s0 gh)).2 := by
      obtain ⟨fs', hr, _, _, _, _, hcr⟩ := updateInfo_crash_dirs hM hn hc
      rw [hr]
      exact hcr.mono fun d hd => ⟨gh.G, hd⟩
    have hPd := hP _ hcr
    rcases hrun : withVol 0 updateInfoSector (withFaults L s0) with ⟨r, s1⟩
    rw [hrun] at hPd hdr
    cases r with
    | ok u => rw [bind_ok hrun]; exact ⟨hPd, hdr⟩
    | err e => rw [bind_err hrun]; exact ⟨hPd, hdr⟩
    | panic m => rw [bind_panic hrun]; exact ⟨hPd, hdr⟩
    | diverged => rw [bind_diverged hrun]; exact ⟨hPd, hdr⟩

end Sdmmc.Lemmas.FaultInv
