/-
C11, arbitrary fault placement — THE TRUNCATING `open_file_in_dir` UNDER ANY SCHEDULE, part 1 (medium level): the crash
stages of `truncate_cluster_chain(c)` on the chain of a CLOSED file carry the WEAK medium invariant `MedFault`
(`Spec/VolumeFault.lean`; here with its witness explicit: `CrashContDelete.MedW cb`): the file keeps its entry (old size)
over the cut chain `[c]`, the released part of the chain is free and what is left of it is a lost chain
(`medW_trunc_stage`).  The clause `sizes` holds at `cb = (length of the old chain) × (bytes per cluster)` only — the
residue (3) of `FaultInv`.
-/
import Sdmmc.Lemmas.FaultXFree
import Sdmmc.Lemmas.VolXEng7
import Sdmmc.Lemmas.CrashContDelete2

namespace Sdmmc.Lemmas.FaultX
open Sdmmc.Model Sdmmc.Model.Fat Sdmmc.Spec.Volume Sdmmc.Lemmas.VolBase Sdmmc.Lemmas.VolTree
open Sdmmc.Spec hiding NoFault Coherent
open Sdmmc.Lemmas.VolDisk Sdmmc.Lemmas.VolMed Sdmmc.Lemmas.VolEng Sdmmc.Lemmas.VolX
open Sdmmc.Lemmas.CrashBase Sdmmc.Lemmas.CrashFat Sdmmc.Lemmas.CrashContDelete

/-- The clause `sizes` is monotone in the bytes per cluster. -/
theorem treeOK_mono {ft : FatType} {cb cb' : Nat} {root : List Nat} {G : List (List Nat)} {dirs : List (Nat × Nat)}
    {slots : Nat → List Slot} {files : List FileInfo} (h : cb ≤ cb') (hT : TreeOK ft cb root G dirs slots files) :
    TreeOK ft cb' root G dirs slots files :=
  { cleanTail := hT.cleanTail, names := hT.names, order := hT.order, dots := hT.dots, subdirs := hT.subdirs,
    dirRefs := hT.dirRefs, allRefs := hT.allRefs, fileSlots := hT.fileSlots, fileAttrs := hT.fileAttrs,
    filesDistinct := hT.filesDistinct
    sizes := fun x hx o ho hd => (hT.sizes x hx o ho hd).imp id fun ⟨h1, h2⟩ =>
      ⟨h1, Nat.le_trans h2 (Nat.mul_le_mul_left _ h)⟩ }

theorem medW_mono {cb cb' : Nat} {v : FatVolume} {d : Disk} {files : List FileInfo} {gh : Ghost} {X : List (List Nat)}
    (h : cb ≤ cb') (hM : MedW cb v d files gh X) : MedW cb' v d files gh X :=
  ⟨hM.blocksOK, hM.geom, hM.hint, hM.owns, treeOK_mono h hM.tree, hM.fileOK⟩

section
variable {v : FatVolume} {d0 d : Disk} {files : List FileInfo} {gh : Ghost} {X : List (List Nat)}

/-- **A crash stage of the truncation of a closed file**: `c` terminated, the first `j` clusters of the rest of its
chain released. -/
theorem medW_trunc_stage (hM : MedX v d0 files gh X) {h : Nat} (hh : h ∈ dirIds gh.dirs) {o : Slot}
    (ho : o ∈ objects h (dirSlots v d0 gh.G h)) (hod : isDirE o = false) (hfree : pendOf files o = none)
    {A B : List (List Nat)} {tail : List Nat} (hG : gh.G = A ++ (sCluster v.fatType o :: tail) :: B)
    (hb : BlocksOK d) (j : Nat) (hst : Stage v d0 d [sCluster v.fatType o] (tail.take j)) :
    MedW (clusterBytesLen v * (tail.length + 1)) v d files
      { vol := v, G := A ++ [sCluster v.fatType o] :: B, dirs := gh.dirs } (restChains tail j ++ X) := by
  generalize hcdef : sCluster v.fatType o = c at hG hst ⊢
  have hGs : HeadsOK gh.G := med_heads hM
  have hGs' : HeadsOK (A ++ (c :: tail) :: B) := by rw [← hG]; exact hGs
  -- the chains
  have ho0 : Owns v d0 (A ++ [c :: tail] ++ (B ++ X)) := by
    have := hM.owns
    rw [hG] at this
    simpa [List.append_assoc] using this
  have hown1 := owns_free_stage j ho0 hst
  have hown : Owns v d ((A ++ [c] :: B) ++ (restChains tail j ++ X)) := by
    refine owns_perm ?_ hown1
    simp only [List.append_assoc, List.cons_append, List.nil_append]
    refine List.Perm.append_left A (List.Perm.cons _ ?_)
    rw [← List.append_assoc, ← List.append_assoc]
    exact List.Perm.append_right X List.perm_append_comm
  have hG1 : HeadsOK (A ++ [c] :: B) := heads_left (heads_of_owns hown)
  have hheads : heads (A ++ [c] :: B) = heads gh.G := by rw [hG]; exact heads_replace A B _ _ rfl
  have hchains : ∀ x, x ≠ c → chainOf (A ++ [c] :: B) x = chainOf gh.G x := by
    intro x hx
    rw [hG]
    exact chainOf_replace_other hGs' hG1 rfl (by simpa using hx)
  have hself : chainOf (A ++ [c] :: B) c = [c] := chainOf_replace_self hG1 rfl
  have hselfG : chainOf gh.G c = c :: tail := by
    rw [hG]; exact chainOf_replace_self hGs' rfl
  obtain ⟨hdirne, hfilene⟩ := closed_object_apart hM hh ho hod hfree
  rw [hcdef] at hdirne hfilene
  have hc0 : c ≠ 0 := by
    have := hGs'.ge (c :: tail) (List.mem_append_right _ List.mem_cons_self)
    simp only [List.headD_cons] at this
    omega
  -- the blocks of the directories
  have hblocks : ∀ x, x ∈ dirIds gh.dirs → ∀ s, s ∈ dirSlots v d0 gh.G x → d.get s.1 = d0.get s.1 := by
    intro x hx s hs
    apply hst.within.nonFat _ _ id
    rcases dirSlot_not_fat hM hx hs with h1 | h1 <;> rw [h1] <;> intro e <;> cases e
  -- the tree, at the slack that absorbs the old size
  obtain ⟨A0, B0, hAB⟩ := List.append_of_mem ho
  have hO : objects h (dirSlots v d0 gh.G h) = A0 ++ [o] ++ B0 := by rw [hAB]; simp
  have hec : effCluster v.fatType files o = c := by rw [effCluster_of_none hfree]; exact hcdef
  have hes : effSize files o = sSize o := effSize_of_none hfree
  have hT0 := treeOK_mono (cb' := clusterBytesLen v * (tail.length + 1)) (Nat.le_mul_of_pos_right _ (Nat.succ_pos _)) hM.tree
  have htree : TreeOK v.fatType (clusterBytesLen v * (tail.length + 1)) (rootHead v) (A ++ [c] :: B) gh.dirs
      (dirSlots v d0 gh.G) files := by
    apply tree_files_edit hT0 hGs (objPos_nodup hM) hh hO hod (fun _ _ => rfl) hM.tree.filesDistinct hM.tree.fileAttrs
      hM.tree.fileSlots
    · intro x _ hx
      rw [hec] at hx
      rw [hchains x hx]; exact Nat.le_refl _
    · intro a; rw [hheads]
    · unfold SizeOK
      rw [hec, hes, hself]
      right
      refine ⟨hc0, ?_⟩
      have := hM.tree.sizes h hh o ho hod
      rw [hec, hes, hselfG] at this
      rcases this with ⟨h1, _⟩ | ⟨_, h2⟩
      · exact absurd h1 hc0
      · simp only [List.length_cons, List.length_nil] at h2 ⊢
        rw [Nat.mul_comm] at h2
        omega
  -- assembling
  refine medW_assemble (dw := d0) (G0 := gh.G) hM.geom (SameGeom.refl v) hM.hint hb hown
    (fun x hx hfx => hchains _ (hdirne x hx hfx)) hblocks htree fun f hf => ?_
  obtain ⟨hok, hcur⟩ := hM.fileOK f hf
  have hfc : chainOf (A ++ [c] :: B) f.entry.cluster = chainOf gh.G f.entry.cluster := by
    by_cases hfe : f.entry.cluster = c
    · exact absurd (hfilene f hf hfe) hc0
    · exact hchains _ hfe
  rw [hfc]
  have hloose : FileLoose v d0 f (chainOf gh.G f.entry.cluster) := ⟨hok.chain, hok.pos_le, hok.cursor⟩
  refine ⟨fileLoose_of_owns (SameGeom.refl v) hloose hown ?_, hcur⟩
  by_cases hnil : chainOf gh.G f.entry.cluster = []
  · exact .inl hnil
  · right
    rw [← hfc]
    exact List.mem_append_left _ (chainOf_spec hG1 (by rw [hheads]; exact (chainOf_ne_nil_iff hGs).1 hnil)).1

end

end Sdmmc.Lemmas.FaultX
