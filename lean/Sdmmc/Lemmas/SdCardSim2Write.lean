/-
Lemmas for C12, part 21 (end-to-end, continued): the specification card receiving a data block
(token, 512 bytes, CRC-16, data response, busy), `write_data` against it, and the single-block
write.
-/
import Sdmmc.Lemmas.SdCardSim2Cmd

namespace Sdmmc.Lemmas.SdCardSim2
open Sdmmc.Model Sdmmc.Spec.Card Sdmmc.Model.Sd Sdmmc.Lemmas.Sd Sdmmc.Gen Sdmmc.Lemmas.SdCardSim

def setPhase (c : Card) (p : Phase) : Card := { c with phase := p }

@[simp] theorem setPhase_phase (c : Card) (p) : (setPhase c p).phase = p := rfl
@[simp] theorem setPhase_out (c : Card) (p) : (setPhase c p).out = c.out := rfl
@[simp] theorem setPhase_cmdBuf (c : Card) (p) : (setPhase c p).cmdBuf = c.cmdBuf := rfl
@[simp] theorem setPhase_busyLeft (c : Card) (p) : (setPhase c p).busyLeft = c.busyLeft := rfl
@[simp] theorem setPhase_setPhase (c : Card) (p p') : setPhase (setPhase c p) p' = setPhase c p' := rfl
theorem setPhase_self (c : Card) (p) (h : c.phase = p) : setPhase c p = c := by subst h; rfl

/-- The data token the card expects: 0xFE for a single-block write, 0xFC inside a multiple-block write. -/
def dataToken (multi : Bool) : UInt8 := if multi then 0xFC else 0xFE

theorem step_token (c : Card) (hb : c.cmdBuf = []) (multi : Bool) (n : Nat) (hp : c.phase = .recvToken multi n)
    (ho : c.out = []) (hz : c.busyLeft = 0) :
    step c (dataToken multi) = (setPhase c (.recvData multi n []), 0xFF) := by
  rcases c with ⟨kind, mem, csd, cap, ncr, nac, busy, initPolls, idle, spiMode, crcOn, appCmd, cmd8Seen,
    initLeft, initialised, out, busyLeft, cmdBuf, phase, streaming, preErase, violations, commands⟩
  simp only at hb hp ho hz
  subst hb hp ho hz
  cases multi <;> simp [step, setPhase, dataToken]

theorem step_recvData (c : Card) (hb : c.cmdBuf = []) (multi : Bool) (n : Nat) (acc : List UInt8)
    (hp : c.phase = .recvData multi n acc) (ho : c.out = []) (hz : c.busyLeft = 0) (x : UInt8)
    (hl : acc.length + 1 < 514) :
    step c x = (setPhase c (.recvData multi n (acc ++ [x])), 0xFF) := by
  rcases c with ⟨kind, mem, csd, cap, ncr, nac, busy, initPolls, idle, spiMode, crcOn, appCmd, cmd8Seen,
    initLeft, initialised, out, busyLeft, cmdBuf, phase, streaming, preErase, violations, commands⟩
  simp only at hb hp ho hz
  subst hb hp ho hz
  simp [step, setPhase, hl]

theorem run_recvData (multi : Bool) (n : Nat) : ∀ (bs : List UInt8) (c : Card) (acc : List UInt8),
    c.cmdBuf = [] → c.phase = .recvData multi n acc → c.out = [] → c.busyLeft = 0 →
    acc.length + bs.length < 514 →
    run c bs = (setPhase c (.recvData multi n (acc ++ bs)), List.replicate bs.length 0xFF) := by
  intro bs
  induction bs with
  | nil => intro c acc _ hp _ _ _; simp [run, setPhase_self c _ hp]
  | cons x bs ih =>
    intro c acc hb hp ho hz hl
    simp only [List.length_cons] at hl
    rw [run, step_recvData c hb multi n acc hp ho hz x (by omega)]
    simp only
    rw [ih (setPhase c (.recvData multi n (acc ++ [x]))) (acc ++ [x]) hb rfl ho hz (by simp; omega)]
    simp [List.replicate_succ]

/-- The last CRC byte of a data block: the block is stored (when the CRC is right or not
checked), the data response "accepted" is queued, and the card goes busy. -/
theorem step_recvData_last (c : Card) (hb : c.cmdBuf = []) (multi : Bool) (n : Nat) (payload : List UInt8)
    (c1 : UInt8) (hp : c.phase = .recvData multi n (payload ++ [c1])) (hlen : payload.length = 512)
    (ho : c.out = []) (hz : c.busyLeft = 0) (c2 : UInt8)
    (hcrc : c.crcOn = true → c1.toNat * 256 + c2.toNat = crc16Of payload) (hn : n < c.capacity) :
    step c c2 = ({ c with phase := if multi then .recvToken true (n + 1) else .ready,
                          mem := c.mem.insert n payload, out := [0x05], busyLeft := c.busy }, 0xFF) := by
  rcases c with ⟨kind, mem, csd, cap, ncr, nac, busy, initPolls, idle, spiMode, crcOn, appCmd, cmd8Seen,
    initLeft, initialised, out, busyLeft, cmdBuf, phase, streaming, preErase, violations, commands⟩
  simp only at hb hp ho hz hcrc hn
  subst hb hp ho hz
  cases crcOn with
  | false => simp [step, hn, hlen]
  | true => simp [step, hcrc rfl, hn, hlen]

/-! ### `write_data` -/

theorem writeByte_card (x : UInt8) (s : St Card) (c' : Card) (y : UInt8) (h : step s.bus x = (c', y)) :
    ∃ s', writeByte cardBus x s = (.ok (), s') ∧ StAt s c' s' := by
  simp only [writeByte, bind_apply, xferEv, cardBus, Event.bytes, run, h]
  exact ⟨_, rfl, by simp [StAt]⟩

theorem xferEv_dataOut_card (bs : Bytes) (s : St Card) (c' : Card) (ys : List UInt8)
    (h : run s.bus bs = (c', ys)) :
    ∃ s', xferEv cardBus (.dataOut bs) s = (.ok ys, s') ∧ StAt s c' s' := by
  simp only [xferEv, cardBus, Event.bytes, h]
  exact ⟨_, rfl, by simp [StAt]⟩

/-- The two CRC bytes closing a data block. -/
theorem run_crc (c : Card) (hb : c.cmdBuf = []) (multi : Bool) (n : Nat) (payload : List UInt8)
    (hp : c.phase = .recvData multi n payload) (hlen : payload.length = 512)
    (ho : c.out = []) (hz : c.busyLeft = 0) (c1 c2 : UInt8)
    (hcrc : c.crcOn = true → c1.toNat * 256 + c2.toNat = crc16Of payload) (hn : n < c.capacity) :
    run c [c1, c2] = ({ c with phase := if multi then .recvToken true (n + 1) else .ready,
                               mem := c.mem.insert n payload, out := [0x05], busyLeft := c.busy },
                      [0xFF, 0xFF]) := by
  rw [run, step_recvData c hb multi n payload hp ho hz c1 (by omega)]
  simp only
  rw [run, step_recvData_last (setPhase c (.recvData multi n (payload ++ [c1]))) hb multi n payload c1 rfl hlen
    ho hz c2 hcrc hn]
  rfl

/-- An initialised card between commands: ready phase, nothing queued, no streaming read, no
partial frame — possibly still signalling busy. -/
structure Settled (c : Card) : Prop where
  initialised : c.initialised = true
  idle : c.idle = false
  cmdBuf : c.cmdBuf = []
  phase : c.phase = .ready
  streaming : c.streaming = none
  out : c.out = []

/-- `write_data(token, buffer)` against a card waiting for that token: the block is stored, the
data response "accepted" is read, and the card is left busy. -/
theorem writeData_card (s : St Card) (multi : Bool) (n : Nat) (token : Nat) (buffer : Bytes)
    (htok : UInt8.ofNat token = dataToken multi)
    (hb : s.bus.cmdBuf = []) (hp : s.bus.phase = .recvToken multi n) (ho : s.bus.out = [])
    (hz : s.bus.busyLeft = 0) (hst : s.bus.streaming = none) (hlen : buffer.length = 512)
    (hn : n < s.bus.capacity) (hcrc : s.bus.crcOn = true → s.useCrc = true) :
    ∃ s', writeData cardBus token buffer s = (.ok (), s') ∧
      StAt s { s.bus with phase := if multi then .recvToken true (n + 1) else .ready,
                          mem := s.bus.mem.insert n buffer, out := [], busyLeft := s.bus.busy } s' := by
  have hs1 : step s.bus (UInt8.ofNat token) = (setPhase s.bus (.recvData multi n []), 0xFF) := by
    rw [htok]; exact step_token s.bus hb multi n hp ho hz
  obtain ⟨s1, h1, a1⟩ := writeByte_card (UInt8.ofNat token) s _ _ hs1
  have hs2 : run s1.bus buffer = (setPhase s.bus (.recvData multi n buffer), List.replicate buffer.length 0xFF) := by
    rw [a1.1]
    exact run_recvData multi n buffer (setPhase s.bus (.recvData multi n [])) [] hb rfl ho hz (by simp [hlen])
  obtain ⟨s2, h2, a2⟩ := xferEv_dataOut_card buffer s1 _ _ hs2
  let crcBytes : Bytes := if s2.useCrc then
    [UInt8.ofNat (crc16Nat buffer / 256), UInt8.ofNat (crc16Nat buffer % 256)] else [0xFF, 0xFF]
  have hu2 : s2.useCrc = s.useCrc := (a1.trans a2).2.2.1
  have hcb : ∃ c1 c2, crcBytes = [c1, c2] ∧ (s.bus.crcOn = true → c1.toNat * 256 + c2.toNat = crc16Of buffer) := by
    cases hu : s.useCrc with
    | true =>
      refine ⟨UInt8.ofNat (crc16Nat buffer / 256), UInt8.ofNat (crc16Nat buffer % 256), by simp [crcBytes, hu2, hu], ?_⟩
      intro _
      exact crc_bytes_roundtrip _ (crc16Of_lt buffer)
    | false =>
      refine ⟨0xFF, 0xFF, by simp [crcBytes, hu2, hu], ?_⟩
      intro h; rw [hcrc h] at hu; cases hu
  obtain ⟨c1, c2, hcb1, hcb2⟩ := hcb
  have hs3 : run s2.bus crcBytes =
      ({ s.bus with phase := if multi then .recvToken true (n + 1) else .ready,
                    mem := s.bus.mem.insert n buffer, out := [0x05], busyLeft := s.bus.busy }, [0xFF, 0xFF]) := by
    rw [a2.1, hcb1]
    exact run_crc (setPhase s.bus (.recvData multi n buffer)) hb multi n buffer rfl hlen ho hz c1 c2 hcb2 hn
  obtain ⟨s3, h3, a3⟩ := xferEv_dataOut_card crcBytes s2 _ _ hs3
  have hL3 : Listening s3.bus := by
    rw [a3.1]; refine ⟨hb, ?_⟩; cases multi <;> rfl
  have h4 := readByte_pop s3 hL3 0x05 [] (by rw [a3.1])
  refine ⟨{ s3 with bus := popTo s3.bus [], events := .poll (0x05 : UInt8).toNat :: s3.events }, ?_, ?_⟩
  · unfold writeData
    rw [bind_ok h1, bind_ok h2, bind_ok (get_apply s2)]
    show (xferEv cardBus (.dataOut crcBytes) >>= _) s2 = _
    rw [bind_ok h3, bind_ok h4]
    rfl
  · have h := (a1.trans a2).trans a3
    refine ⟨?_, h.2.1, h.2.2.1, h.2.2.2⟩
    show popTo s3.bus [] = _
    rw [a3.1]
    show drain _ = _
    refine (drain_none _ ?_).trans ?_
    · exact hst
    · rfl

/-! ### The single-block write -/

/-- `write(&[blk], idx)`, any card kind: `start` is the address the driver computes for `idx`,
which the card maps back to block `idx`.  CMD24, the data block, the busy wait, CMD13. -/
theorem write_single_card (s : St Card) (hS : Settled s.bus)
    (hbl : s.bus.busyLeft ≤ DEFAULT_COMMAND_RETRIES) (hncr : s.bus.ncr ≤ DEFAULT_COMMAND_RETRIES)
    (hbusy : s.bus.busy ≤ DEFAULT_WRITE_RETRIES) (hcrc : s.bus.crcOn = true → s.useCrc = true)
    (idx start : Nat) (hstart : startIdx s.cardType idx = .ok start) (h32 : start < 4294967296)
    (hblk : blockOfArg s.bus start = some idx) (hidx : idx < s.bus.capacity)
    (blk : Bytes) (hlen : blk.length = 512) :
    ∃ s', Sd.write cardBus [blk] idx s = (.ok (), s') ∧
      StAt s { s.bus with mem := s.bus.mem.insert idx blk, commands := s.bus.commands + 2, appCmd := false,
                          busyLeft := 0, out := [], phase := .ready } s' := by
  obtain ⟨hi, hid, hcb, hp, hst, ho⟩ := hS
  -- CMD24
  obtain ⟨s1, h1, a1⟩ := cardCommand_card2 CMD24 start (by decide) (by decide) (by decide) h32 s hcb hp hst ho hbl
    _ (exec24 (setBusy s.bus 0) hi hst start idx hblk hidx) ⟨hcb, rfl⟩ s.bus.ncr 0x00 [] rfl hncr (by decide)
  have hb1 : s1.bus = { s.bus with busyLeft := 0, commands := s.bus.commands + 1, appCmd := false,
                                   phase := .recvToken false idx, out := [] } := by
    rw [a1.1]; show drain _ = _; refine (drain_none _ ?_).trans ?_
    · exact hst
    · rfl
  -- the data block
  obtain ⟨s2, h2, a2⟩ := writeData_card s1 false idx DATA_START_BLOCK blk rfl (by rw [hb1]; exact hcb)
    (by rw [hb1]) (by rw [hb1]) (by rw [hb1]) (by rw [hb1]; exact hst) hlen (by rw [hb1]; exact hidx)
    (by rw [hb1, a1.2.2.1]; exact hcrc)
  have hb2 : s2.bus = { s.bus with busyLeft := s.bus.busy, commands := s.bus.commands + 1, appCmd := false,
                                   phase := .ready, out := [], mem := s.bus.mem.insert idx blk } := by
    rw [a2.1, hb1]; rfl
  -- busy
  obtain ⟨s3, h3, a3⟩ := waitNotBusy_card2 DEFAULT_WRITE_RETRIES s2 (by rw [hb2]; exact ⟨hcb, rfl⟩) (by rw [hb2])
    (by rw [hb2]; exact hbusy)
  have hb3 : s3.bus = { s.bus with busyLeft := 0, commands := s.bus.commands + 1, appCmd := false,
                                   phase := .ready, out := [], mem := s.bus.mem.insert idx blk } := by
    rw [a3.1, hb2]; rfl
  -- CMD13
  obtain ⟨s4, h4, a4⟩ := cardCommand_card2 CMD13 0 (by decide) (by decide) (by decide) (by decide) s3
    (by rw [hb3]; exact hcb) (by rw [hb3]) (by rw [hb3]; exact hst) (by rw [hb3]) (by rw [hb3]; exact Nat.zero_le _)
    _ (exec13 (setBusy s3.bus 0) (by rw [hb3]; exact hi) (by rw [hb3]; exact hst) (by rw [hb3]; exact hid) 0)
    (by rw [hb3]; exact ⟨hcb, rfl⟩) s.bus.ncr 0x00 [0x00] (by rw [hb3]; rfl) hncr (by decide)
  have hb4 : s4.bus = { s.bus with busyLeft := 0, commands := s.bus.commands + 2, appCmd := false,
                                   phase := .ready, out := [0x00], mem := s.bus.mem.insert idx blk } := by
    rw [a4.1, hb3]; rfl
  have h5 := readByte_pop s4 (by rw [hb4]; exact ⟨hcb, rfl⟩) 0x00 [] (by rw [hb4])
  refine ⟨{ s4 with bus := popTo s4.bus [], events := .poll (0x00 : UInt8).toNat :: s4.events }, ?_, ?_⟩
  · unfold Sd.write
    rw [bind_ok (get_apply s), hstart, bind_ok (show S.lift (SRes.ok start) s = (.ok start, s) from rfl)]
    simp only
    rw [bind_ok h1, bind_ok h2, bind_ok h3, bind_ok h4]
    simp only [show ¬ ((0x00 : UInt8).toNat ≠ 0) from by decide, if_false]
    rw [bind_ok h5]
    rfl
  · have h := ((a1.trans a2).trans a3).trans a4
    refine ⟨?_, h.2.1, h.2.2.1, h.2.2.2⟩
    show popTo s4.bus [] = _
    rw [hb4]; show drain _ = _; refine (drain_none _ ?_).trans ?_
    · exact hst
    · rfl

end Sdmmc.Lemmas.SdCardSim2
