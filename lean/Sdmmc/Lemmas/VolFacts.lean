/-
Volume invariant (C03): facts about the chain list `G` (`chainOf`, first clusters) and what `TreeOK`
says about the first clusters of directories and files.
-/
import Sdmmc.Lemmas.VolTreeEdit
import Sdmmc.Lemmas.ForestBase

namespace Sdmmc.Lemmas.VolTree
open Sdmmc.Model Sdmmc.Model.Fat Sdmmc.Spec Sdmmc.Spec.Volume Sdmmc.Lemmas.VolBase

/-- The first clusters of the chains. -/
abbrev heads (G : List (List Nat)) : List Nat := G.map fun cs => cs.headD 0

/-- What `Owns` gives about the first clusters: no chain is empty, first clusters are data clusters,
no two chains start at the same cluster. -/
structure HeadsOK (G : List (List Nat)) : Prop where
  ne : ∀ cs, cs ∈ G → cs ≠ []
  ge : ∀ cs, cs ∈ G → 2 ≤ cs.headD 0
  nodup : (heads G).Nodup

theorem headD_of_head? {cs : List Nat} {h : Nat} (hh : cs.head? = some h) : cs.headD 0 = h := by
  cases cs with
  | nil => cases hh
  | cons a l => simpa using hh

theorem head?_of_ne {cs : List Nat} (hne : cs ≠ []) : cs.head? = some (cs.headD 0) := by
  cases cs with
  | nil => exact absurd rfl hne
  | cons a l => rfl

theorem heads_of_owns {v : FatVolume} {d : Disk} {G : List (List Nat)} (ho : Owns v d G) : HeadsOK G := by
  have hne : ∀ cs, cs ∈ G → cs ≠ [] := fun cs hcs => ChainL.chain_ne_nil (ho.1 cs hcs)
  refine ⟨hne, ?_, ?_⟩
  · intro cs hcs
    have hch := ho.1 cs hcs
    exact (ChainL.chain_inRange hch _ (ForestBase.chain_head_mem hch)).1
  · -- a repeated head would be a repeated element of the flattening
    have hnd := ho.2.1
    clear ho
    induction G with
    | nil => exact List.nodup_nil
    | cons cs G ih =>
      rw [List.flatten_cons, List.nodup_append] at hnd
      obtain ⟨_, h2, h3⟩ := hnd
      show (cs.headD 0 :: heads G).Nodup
      rw [List.nodup_cons]
      refine ⟨?_, ih (fun x hx => hne x (List.mem_cons_of_mem _ hx)) h2⟩
      intro hm
      obtain ⟨cs', hcs', he⟩ := List.mem_map.1 hm
      have h1 : cs.headD 0 ∈ cs := by
        have := hne cs List.mem_cons_self
        cases cs with
        | nil => exact absurd rfl this
        | cons a l => exact List.mem_cons_self
      have h2' : cs'.headD 0 ∈ G.flatten := by
        have := hne cs' (List.mem_cons_of_mem _ hcs')
        refine List.mem_flatten.2 ⟨cs', hcs', ?_⟩
        cases cs' with
        | nil => exact absurd rfl this
        | cons a l => exact List.mem_cons_self
      exact h3 _ h1 _ h2' he.symm

theorem chainOf_of_mem {G : List (List Nat)} (hG : HeadsOK G) {cs : List Nat} {h : Nat} (hm : cs ∈ G)
    (hh : cs.head? = some h) : chainOf G h = cs := by
  unfold chainOf
  have hnd := hG.nodup
  have hne := hG.ne
  clear hG
  induction G with
  | nil => cases hm
  | cons a G ih =>
    rw [List.find?_cons]
    by_cases ha : a.head? = some h
    · simp only [ha, decide_true]
      rcases List.mem_cons.1 hm with rfl | hm
      · rfl
      · exfalso
        have hnd' : (a.headD 0 :: heads G).Nodup := hnd
        rw [List.nodup_cons] at hnd'
        apply hnd'.1
        rw [headD_of_head? ha, ← headD_of_head? hh]
        exact List.mem_map.2 ⟨cs, hm, rfl⟩
    · have : decide (a.head? = some h) = false := by simpa using ha
      rw [this]
      rcases List.mem_cons.1 hm with rfl | hm
      · exact absurd hh ha
      · have hnd' : (a.headD 0 :: heads G).Nodup := hnd
        exact ih hm (List.nodup_cons.1 hnd').2 (fun x hx => hne x (List.mem_cons_of_mem _ hx))

theorem chainOf_spec {G : List (List Nat)} (hG : HeadsOK G) {h : Nat} (hh : h ∈ heads G) :
    chainOf G h ∈ G ∧ (chainOf G h).head? = some h := by
  obtain ⟨cs, hcs, he⟩ := List.mem_map.1 hh
  have hh' : cs.head? = some h := by rw [head?_of_ne (hG.ne cs hcs), he]
  rw [chainOf_of_mem hG hcs hh']
  exact ⟨hcs, hh'⟩

theorem chainOf_nil {G : List (List Nat)} {h : Nat} (hh : h ∉ heads G) :
    chainOf G h = [] := by
  unfold chainOf
  have : G.find? (fun cs => decide (cs.head? = some h)) = none := by
    rw [List.find?_eq_none]
    intro cs hcs
    simp only [decide_eq_true_eq]
    intro he
    exact hh (List.mem_map.2 ⟨cs, hcs, headD_of_head? he⟩)
  rw [this]; rfl

theorem chainOf_ne_nil_iff {G : List (List Nat)} (hG : HeadsOK G) {h : Nat} : chainOf G h ≠ [] ↔ h ∈ heads G := by
  constructor
  · intro hne
    by_contra hh
    exact hne (chainOf_nil hh)
  · intro hh he
    have := (chainOf_spec hG hh).2
    rw [he] at this; cases this

theorem chainOf_lt_two {G : List (List Nat)} (hG : HeadsOK G) {h : Nat} (hh : h < 2) : chainOf G h = [] := by
  apply chainOf_nil
  intro hm
  obtain ⟨cs, hcs, he⟩ := List.mem_map.1 hm
  have := hG.ge cs hcs
  rw [he] at this
  omega

/-! ### What `TreeOK` says about first clusters -/

section
variable {ft : FatType} {cb : Nat} {root : List Nat} {G : List (List Nat)} {dirs : List (Nat × Nat)}
  {slots : Nat → List Slot} {files : List FileInfo}

/-- The left-hand side of `allRefs`. -/
abbrev refList (ft : FatType) (root : List Nat) (dirs : List (Nat × Nat)) (slots : Nat → List Slot)
    (files : List FileInfo) : List Nat :=
  root ++ dirs.map Prod.fst ++ (dirIds dirs).flatMap fun h => fileRefs ft files (objects h (slots h))

theorem refList_nodup (hT : TreeOK ft cb root G dirs slots files) (hG : HeadsOK G) :
    (refList ft root dirs slots files).Nodup := (hT.allRefs.nodup_iff).2 hG.nodup

theorem dirHeads_nodup (hT : TreeOK ft cb root G dirs slots files) (hG : HeadsOK G) : (dirs.map Prod.fst).Nodup := by
  have := refList_nodup hT hG
  exact (List.nodup_append.1 (List.nodup_append.1 this).1).2.1

theorem dir_mem_heads (hT : TreeOK ft cb root G dirs slots files) {h p : Nat} (hm : (h, p) ∈ dirs) : h ∈ heads G := by
  apply hT.allRefs.subset
  exact List.mem_append_left _ (List.mem_append_right _ (List.mem_map.2 ⟨(h, p), hm, rfl⟩))

theorem root_mem_heads (hT : TreeOK ft cb root G dirs slots files) {c : Nat} (hm : c ∈ root) : c ∈ heads G :=
  hT.allRefs.subset (List.mem_append_left _ (List.mem_append_left _ hm))

theorem dirIds_nodup (hT : TreeOK ft cb root G dirs slots files) (hG : HeadsOK G) : (dirIds dirs).Nodup := by
  unfold dirIds
  rw [List.nodup_cons]
  refine ⟨?_, dirHeads_nodup hT hG⟩
  intro h0
  obtain ⟨⟨h, p⟩, hm, he⟩ := List.mem_map.1 h0
  have he' : h = 0 := he
  subst he'
  obtain ⟨cs, hcs, hcs0⟩ := List.mem_map.1 (dir_mem_heads hT hm)
  have := hG.ge cs hcs
  rw [hcs0] at this
  omega

theorem dir_ge_two (hT : TreeOK ft cb root G dirs slots files) (hG : HeadsOK G) {h p : Nat} (hm : (h, p) ∈ dirs) :
    2 ≤ h := by
  obtain ⟨cs, hcs, hcs0⟩ := List.mem_map.1 (dir_mem_heads hT hm)
  have := hG.ge cs hcs
  rw [hcs0] at this
  exact this

/-- The effective start cluster of a file object, when not zero, is the first cluster of a chain. -/
theorem fileRef_mem_heads (hT : TreeOK ft cb root G dirs slots files) {h : Nat} (hh : h ∈ dirIds dirs) {o : Slot}
    (ho : o ∈ objects h (slots h)) (hd : isDirE o = false) (hc : effCluster ft files o ≠ 0) :
    effCluster ft files o ∈ heads G := by
  apply hT.allRefs.subset
  apply List.mem_append_right
  rw [List.mem_flatMap]
  exact ⟨h, hh, mem_fileRefs.2 ⟨hc, o, ho, hd, rfl⟩⟩

/-- … and it is neither the FAT32 root nor a sub-directory. -/
theorem fileRef_not_dir (hT : TreeOK ft cb root G dirs slots files) (hG : HeadsOK G) {h : Nat} (hh : h ∈ dirIds dirs)
    {o : Slot} (ho : o ∈ objects h (slots h)) (hd : isDirE o = false) (hc : effCluster ft files o ≠ 0) :
    effCluster ft files o ∉ root ∧ effCluster ft files o ∉ dirs.map Prod.fst := by
  have hnd := refList_nodup hT hG
  have hm : effCluster ft files o ∈ (dirIds dirs).flatMap fun h => fileRefs ft files (objects h (slots h)) := by
    rw [List.mem_flatMap]
    exact ⟨h, hh, mem_fileRefs.2 ⟨hc, o, ho, hd, rfl⟩⟩
  have h3 := (List.nodup_append.1 hnd).2.2
  constructor
  · intro hr; exact h3 _ (List.mem_append_left _ hr) _ hm rfl
  · intro hr; exact h3 _ (List.mem_append_right _ hr) _ hm rfl

theorem root_not_dir (hT : TreeOK ft cb root G dirs slots files) (hG : HeadsOK G) {c : Nat} (hc : c ∈ root) :
    c ∉ dirs.map Prod.fst := by
  have hnd := refList_nodup hT hG
  have := (List.nodup_append.1 (List.nodup_append.1 hnd).1).2.2
  intro hm
  exact this c hc c hm rfl

end

end Sdmmc.Lemmas.VolTree
