/-
C10 over whole API calls: crash points BETWEEN two states of the invariant of C03.

The engine works in pieces (one allocation, one truncation, one release of a chain, one block write, blanking a
cluster).  At the boundaries of the pieces the medium satisfies `MedX` (the invariant of C03, possibly with
unreferenced chains) and `RawOK`, hence is crash-consistent (`ci_of_medX`).  INSIDE a piece only FAT entries and
blocks outside all directories change; the crashed medium then carries a sound record `R` (`OwnsLoose`, from the
crash-prefix lemmas of C10 — `Lemmas.CrashStep`, `CrashAlloc`, `CrashFat`) that still contains every directory
chain and a chain for every reference of the raw medium:

* `ci_of_record` — such a medium is crash-consistent (`CI`); `ci_within`, `ci_view` — the special cases "FAT
  entries of clusters outside the record and blocks outside the directories differ" and "looks like a boundary";
* `alloc_ci`, `truncate_ci`, `free_ci`, `zeroBlocks_ci`, `single_ci`, `ro_ci` — the pieces;
* `rawOK_blocks`, `rawOK_within` — `RawOK` across such changes.
-/
import Sdmmc.Lemmas.VolCrashBase
import Sdmmc.Lemmas.VolApiMkdir2
import Sdmmc.Lemmas.CrashStep
import Sdmmc.Lemmas.CrashData
import Sdmmc.Lemmas.CrashFlush

namespace Sdmmc.Lemmas.VolCrash
open Sdmmc.Model Sdmmc.Model.Fat Sdmmc.Spec.Volume
open Sdmmc.Spec hiding NoFault Coherent
open Sdmmc.Lemmas.FBasic
open Sdmmc.Lemmas.VolBase Sdmmc.Lemmas.VolTree Sdmmc.Lemmas.VolMed Sdmmc.Lemmas.VolDisk Sdmmc.Lemmas.VolEng
open Sdmmc.Lemmas.CrashBase Sdmmc.Lemmas.ForestStep
open Sdmmc.Lemmas.FatOps (RO)

/-! ### Chains of a filtered record -/

theorem headsOK_sublist {G G' : List (List Nat)} (h : HeadsOK G) (hs : G'.Sublist G) : HeadsOK G' :=
  ⟨fun cs hcs => h.ne cs (hs.subset hcs), fun cs hcs => h.ge cs (hs.subset hcs), (hs.map _).nodup h.nodup⟩

theorem chainOf_filter {R : List (List Nat)} (hR : HeadsOK R) (p : Nat → Bool) {x : Nat} (hx : x ∈ heads R) (hp : p x = true) :
    chainOf (R.filter fun cs => p (cs.headD 0)) x = chainOf R x := by
  obtain ⟨hm, hh⟩ := chainOf_spec hR hx
  refine chainOf_of_mem (headsOK_sublist hR List.filter_sublist) ?_ hh
  rw [List.mem_filter, headD_of_head? hh]
  exact ⟨hm, hp⟩

/-! ### A crashed medium with a sound record -/

section Record
variable {v : FatVolume} {d0 : Disk} {files : List FileInfo} {gh : Ghost} {X : List (List Nat)}

/-- **The interior lemma.**  `d0` satisfies the invariant of C03 (+ `RawOK`).  The medium `d` carries a sound record
`R` that has a chain for every reference of the raw medium `d0` and contains every directory chain of `d0`, and the
blocks of the directory slots are those of `d0`.  Then `d` is crash-consistent. -/
theorem core_of_record (hM : MedX v d0 files gh X) (hR : RawOK v.fatType d0 files) {d : Disk} {R : List (List Nat)}
    (hO : OwnsLoose v d R)
    (hrefs : ∀ x, x ∈ rawRefs v d0 gh → x ∈ heads R)
    (hdirs : ∀ h, h ∈ dirIds gh.dirs → ¬ isFixedRoot v h → chainOf gh.G (dirHead v h) ∈ R)
    (hblk : ∀ h, h ∈ dirIds gh.dirs → ∀ s, s ∈ dirSlots v d0 gh.G h → d.get s.1 = d0.get s.1) : ∃ gh', CrashCore v d gh' := by
  have hHR := headsOK_of_ownsLoose hO
  let p : Nat → Bool := fun x => decide (x ∈ rawRefs v d0 gh)
  let G' := R.filter fun cs => p (cs.headD 0)
  have hO' : OwnsLoose v d G' := ownsLoose_sublist hO List.filter_sublist
  -- the slots of the directories
  have hslots : ∀ h, h ∈ dirIds gh.dirs → dirSlots v d G' h = dirSlots v d0 gh.G h := by
    intro h hh
    by_cases hf : isFixedRoot v h
    · have := dirSlots_congr (v := v) (d := d0) (G := gh.G) (hblk h hh)
      rw [dirSlots_fixed hf, dirSlots_fixed hf] at this
      rw [dirSlots_fixed hf, dirSlots_fixed hf]
      exact this
    · have hx := dirHead_rawRefs (d := d0) hh hf
      obtain ⟨_, hhd⟩ := dirChain_spec hM hh hf
      have hc : chainOf G' (dirHead v h) = chainOf gh.G (dirHead v h) := by
        rw [chainOf_filter hHR p (hrefs _ hx) (decide_eq_true hx)]
        exact chainOf_of_mem hHR (hdirs h hh hf) hhd
      have := dirSlots_congr (v := v) (d := d0) (G := gh.G) (hblk h hh)
      rw [dirSlots_chain hf, dirSlots_chain hf] at this
      rw [dirSlots_chain hf, dirSlots_chain hf, hc]
      exact this
  -- the references
  have hheads : heads G' = (heads R).filter fun x => p x := by
    show List.map _ (List.filter _ R) = _
    rw [List.filter_map]
    rfl
  have hperm : List.Perm (rawRefs v d0 gh) (heads G') := by
    rw [hheads]
    refine (List.perm_ext_iff_of_nodup (rawRefs_nodup hM hR) (hHR.nodup.filter _)).2 fun a => ?_
    rw [List.mem_filter, decide_eq_true_eq]
    exact ⟨fun h => ⟨hrefs a h, h⟩, fun h => h.2⟩
  have hT := hM.tree
  have hbase : TreeLoose v.fatType (rootHead v) G' gh.dirs (dirSlots v d0 gh.G) :=
    ⟨hT.cleanTail, hT.names, hT.order, hT.dots, hT.subdirs, hT.dirRefs, hperm⟩
  exact ⟨{ vol := v, G := G', dirs := gh.dirs }, hM.geom, hO', treeLoose_congr hbase hslots⟩

/-- … and if all its FAT entries are valid, it is `CI`. -/
theorem ci_of_record (hM : MedX v d0 files gh X) (hR : RawOK v.fatType d0 files) {d : Disk} {R : List (List Nat)}
    (hO : OwnsLoose v d R)
    (hrefs : ∀ x, x ∈ rawRefs v d0 gh → x ∈ heads R)
    (hdirs : ∀ h, h ∈ dirIds gh.dirs → ¬ isFixedRoot v h → chainOf gh.G (dirHead v h) ∈ R)
    (hblk : ∀ h, h ∈ dirIds gh.dirs → ∀ s, s ∈ dirSlots v d0 gh.G h → d.get s.1 = d0.get s.1)
    (hF : FatEntriesOK v d) : CI v d :=
  ⟨core_of_record hM hR hO hrefs hdirs hblk, hF⟩

/-- No directory slot lives in a block for which `dirty` holds. -/
def DirClean (v : FatVolume) (d0 : Disk) (gh : Ghost) (dirty : Nat → Prop) : Prop :=
  ∀ h, h ∈ dirIds gh.dirs → ∀ s, s ∈ dirSlots v d0 gh.G h → ¬ dirty s.1

theorem rawRefs_heads_all (hM : MedX v d0 files gh X) (hR : RawOK v.fatType d0 files) {x : Nat}
    (hx : x ∈ rawRefs v d0 gh) : x ∈ heads (gh.G ++ X) := by
  have := rawRefs_heads hM hR hx
  unfold heads at this ⊢
  rw [List.map_append]
  exact List.mem_append_left _ this

/-- The medium differs from a boundary at most in FAT entries of clusters outside the record, in blocks that hold
no directory slot, and in FAT copy 2. -/
theorem ci_within (hM : MedX v d0 files gh X) (hR : RawOK v.fatType d0 files) {d : Disk} {t : List Nat} {dirty : Nat → Prop}
    (hW : Within v d0 d t dirty) (ht : ∀ x, x ∈ t → x ∉ (gh.G ++ X).flatten) (hd : DirClean v d0 gh dirty)
    (htv : ∀ x, x ∈ t → InRange v x → EntryOK v d x) : CI v d := by
  refine ci_of_record hM hR (R := gh.G ++ X)
    (ownsLoose_congr (ownsLoose_of_owns hM.owns) fun x hx => hW.other x ((hM.owns.2.2 x).2 hx).1.2 fun hm => ht x hm hx)
    (fun x hx => rawRefs_heads_all hM hR hx)
    (fun h hh hf => List.mem_append_left _ (dirChain_spec hM hh hf).1) (fun h hh s hs => ?_)
    (fatOK_patch (fatOK_of_owns hM.owns) t hW.other htv)
  refine hW.nonFat s.1 ?_ (hd h hh s hs)
  rcases dirSlot_not_fat hM hh hs with e | e <;> rw [e] <;> decide

/-- `RawOK` only reads the blocks of the slots of the open files. -/
theorem rawOK_blocks {ft : FatType} {d d' : Disk} {files : List FileInfo} (hR : RawOK ft d files)
    (h : ∀ f, f ∈ files → d'.get f.entry.entryBlock = d.get f.entry.entryBlock) : RawOK ft d' files := by
  intro f hf
  have : slotAt d' f.entry.entryBlock f.entry.entryOffset = slotAt d f.entry.entryBlock f.entry.entryOffset := by
    unfold slotAt; rw [h f hf]
  rw [this]
  exact hR f hf

/-- The slot of an open file is a directory slot. -/
theorem file_dirSlot (hM : MedX v d0 files gh X) {f : FileInfo} (hf : f ∈ files) :
    ∃ h, h ∈ dirIds gh.dirs ∧ ∃ o, o ∈ dirSlots v d0 gh.G h ∧ o.1 = f.entry.entryBlock ∧ o.2.1 = f.entry.entryOffset := by
  obtain ⟨h, hh, o, ho, h1, h2, _⟩ := hM.tree.fileSlots f hf
  exact ⟨h, hh, o, mem_of_mem_objects ho, h1, h2⟩

theorem rawOK_dirBlocks (hM : MedX v d0 files gh X) (hR : RawOK v.fatType d0 files) {d : Disk}
    (hblk : ∀ h, h ∈ dirIds gh.dirs → ∀ s, s ∈ dirSlots v d0 gh.G h → d.get s.1 = d0.get s.1) : RawOK v.fatType d files := by
  refine rawOK_blocks hR fun f hf => ?_
  obtain ⟨h, hh, o, ho, h1, _⟩ := file_dirSlot hM hf
  rw [← h1]
  exact hblk h hh o ho

theorem rawOK_within (hM : MedX v d0 files gh X) (hR : RawOK v.fatType d0 files) {d : Disk} {t : List Nat} {dirty : Nat → Prop}
    (hW : Within v d0 d t dirty) (hd : DirClean v d0 gh dirty) : RawOK v.fatType d files := by
  refine rawOK_dirBlocks hM hR fun h hh s hs => hW.nonFat s.1 ?_ (hd h hh s hs)
  rcases dirSlot_not_fat hM hh hs with e | e <;> rw [e] <;> decide

/-- Blocks of a cluster outside the chains of `G` hold no directory slot. -/
theorem dirClean_cluster (hM : MedX v d0 files gh X) {c : Nat} (hc : InRange v c) (hcG : c ∉ gh.G.flatten) (P : Prop) :
    DirClean v d0 gh fun i => P ∧ InCluster v c i := by
  intro h hh s hs hd
  have h1 := hd.2.1
  have h2 := hd.2.2
  exact dirSlot_not_cluster hM hh hs hc hcG (j := s.1 - clusterToBlock v c) (by omega) (by omega)

end Record

/-- A medium that looks like a crash-consistent one (same FAT copy 1, same blocks outside the FAT). -/
theorem ci_view {v : FatVolume} {d d' : Disk} (h : CI v d) (hv : View v d d') : CI v d' := by
  obtain ⟨⟨gh, hC⟩, hF⟩ := h
  refine ⟨⟨gh, core_congr hC (ownsLoose_view hC.owns hv) fun h hh s hs => hv.nonFat s.1 ?_⟩,
    fun c hc => entryOK_congr (hv.fatRaw hc.2) (hF c hc)⟩
  -- a directory slot does not live in the FAT
  by_cases hf : isFixedRoot v h
  · rw [dirSlots_fixed hf] at hs
    rw [fixedRootSlots_region hC.geom hf.2 hs]; decide
  · rw [dirSlots_chain hf] at hs
    have hx : dirHead v h ∈ heads gh.G := by
      refine hC.tree.allRefs.subset (List.mem_append_left _ ?_)
      unfold dirHead
      by_cases h0 : h = 0
      · rw [if_pos h0]
        have h32 : v.fatType = .fat32 := by
          cases hft : v.fatType with
          | fat16 => exact absurd ⟨h0, hft⟩ hf
          | fat32 => rfl
        refine List.mem_append_left _ ?_
        unfold rootHead; rw [h32]; exact List.mem_singleton.2 rfl
      · rw [if_neg h0]
        rcases mem_dirIds.1 hh with e | ⟨p, hp⟩
        · exact absurd e h0
        · exact List.mem_append_right _ (List.mem_map.2 ⟨(h, p), hp, rfl⟩)
    obtain ⟨hm, _⟩ := chainOf_spec (headsOK_of_ownsLoose hC.owns) hx
    rw [chainSlots_region hC.geom (fun c hc => ChainL.chain_inRange (hC.owns.1 _ hm) c hc) hs]; decide

/-! ### FAT entries at the stages of a truncation / release -/

theorem fatOK_stage {v : FatVolume} {d0 d : Disk} {eofs freed : List Nat} (hF0 : FatEntriesOK v d0)
    (h : CrashFat.Stage v d0 d eofs freed) : FatEntriesOK v d :=
  fatOK_patch hF0 (eofs ++ freed) h.within.other fun y hy _ => by
    rcases List.mem_append.1 hy with hy | hy
    · exact .inr (.inr (.inl (h.eof y hy)))
    · exact .inl (h.free y hy)

theorem fatOK_view {v : FatVolume} {d0 d : Disk} (hF0 : FatEntriesOK v d0) (h : View v d0 d) : FatEntriesOK v d :=
  fun c hc => entryOK_congr (h.fatRaw hc.2) (hF0 c hc)

theorem fatOK_trunc {v : FatVolume} {d0 d : Disk} {x : Nat} {tail : List Nat} (hF0 : FatEntriesOK v d0)
    (h : CrashFat.TruncCrash v d0 x tail d) : FatEntriesOK v d := by
  rcases h with h | ⟨j, _, h⟩
  · exact fatOK_view hF0 h
  · exact fatOK_stage hF0 h

theorem fatOK_freeCrash {v : FatVolume} {d0 d : Disk} {r : Nat} {tail : List Nat} (hF0 : FatEntriesOK v d0)
    (h : CrashFat.FreeCrash v d0 r tail d) : FatEntriesOK v d := by
  rcases h with h | h
  · exact fatOK_trunc hF0 h
  · exact fatOK_stage hF0 h

/-! ### The pieces -/

/-- A piece that writes nothing. -/
theorem ro_ci {v : FatVolume} {s s' : FS} (h : RO s s') (hp : CI v s.dev.disk) : CrashAll (CI v) s s' := CrashAll.of_ro h hp

/-- One block write between two crash-consistent media. -/
theorem single_ci {v : FatVolume} {s s' : FS} {b : Nat} {p : Block} (hw : s'.dev.wlog = (b, p) :: s.dev.wlog)
    (hd : s'.dev.disk = s.dev.disk.set b p) (h0 : CI v s.dev.disk) (h1 : CI v s'.dev.disk) : CrashAll (CI v) s s' :=
  (CrashData.single_write_crash hw hd).mono fun d hd => by
    rcases hd with rfl | rfl
    · exact h0
    · exact h1

section Pieces
variable {files : List FileInfo} {gh : Ghost} {X : List (List Nat)}

/-- A successful allocation from a boundary state to a crash-consistent medium. -/
theorem alloc_ci {s s' : FS} (hM : MedX s.vol s.dev.disk files gh X) (hR : RawOK s.vol.fatType s.dev.disk files)
    (hn : NoFault s) (hc : Coherent s) {prev : Option Nat} {zero : Bool} {c : Nat}
    (hp : ∀ p, prev = some p → p < endCluster s.vol)
    (h : allocCluster prev zero s = (.ok c, s')) (hfin : CI s.vol s'.dev.disk) : CrashAll (CI s.vol) s s' := by
  obtain ⟨hc2, hcE, hfree⟩ := FatOps.alloc_in_range_and_free s s' prev zero c hn hc hM.hint h
  have hcA : c ∉ (gh.G ++ X).flatten := fun hx => ((hM.owns.2.2 c).2 hx).2.1 hfree
  have hcG : c ∉ gh.G.flatten := fun hx => hcA (by rw [List.flatten_append]; exact List.mem_append_left _ hx)
  have hclean : DirClean s.vol s.dev.disk gh (CrashAlloc.zeroing s.vol zero c) :=
    dirClean_cluster hM ⟨hc2, hcE⟩ hcG _
  obtain ⟨hcr, _⟩ := CrashAlloc.alloc_crash s s' prev zero c hn hc hM.blocksOK hM.geom hM.hint hp h
  refine hcr.mono fun d hd => ?_
  rcases hd.1 with hA | ⟨hB, heof, _⟩ | ⟨hC, _⟩
  · exact ci_within hM hR hA (fun x hx => by cases hx) hclean (fun x hx => by cases hx)
  · exact ci_within hM hR hB (fun x hx => by rw [List.mem_singleton.1 hx]; exact hcA) hclean
      (fun x hx _ => by rw [List.mem_singleton.1 hx]; exact .inr (.inr (.inl heof)))
  · exact ci_view hfin hC

/-- Cutting a chain of the record that is no directory chain. -/
theorem truncate_ci {s : FS} (hM : MedX s.vol s.dev.disk files gh X) (hR : RawOK s.vol.fatType s.dev.disk files)
    (hn : NoFault s) (hc : Coherent s) {A B : List (List Nat)} {pre tail : List Nat} {x : Nat}
    (hG : gh.G ++ X = A ++ [pre ++ x :: tail] ++ B)
    (hnd : ∀ h, h ∈ dirIds gh.dirs → ¬ isFixedRoot s.vol h → chainOf gh.G (dirHead s.vol h) ≠ pre ++ x :: tail) :
    ∃ s', truncateClusterChain x s = (.ok (), s') ∧ CrashAll (CI s.vol) s s' := by
  have hr : Ready s := ⟨hn, hc, hM.blocksOK, hM.geom, hM.hint⟩
  have ho : Owns s.vol s.dev.disk (A ++ [pre ++ x :: tail] ++ B) := hG ▸ hM.owns
  obtain ⟨s', ht, hcr⟩ := CrashStep.truncate_stepCrash s A B pre tail x hr ho
  have hch : Chain s.vol s.dev.disk ((pre ++ x :: tail).headD 0) (pre ++ x :: tail) :=
    ho.1 _ (List.mem_append_left _ (List.mem_append_right _ (List.mem_singleton.2 rfl)))
  obtain ⟨s2, ht2, hcr2⟩ := CrashFat.truncate_crash s _ x pre tail hn hc hM.blocksOK hM.geom hch
  have e2 : s2 = s' := by rw [ht] at ht2; exact (congrArg Prod.snd ht2).symm
  subst e2
  have hF0 := fatOK_of_owns hM.owns
  refine ⟨s2, ht, (CrashFlush.CrashAll.and hcr hcr2).mono fun d hd => ?_⟩
  obtain ⟨⟨hsound, _, hblocks, _, _⟩, htc, _⟩ := hd
  have hFd := fatOK_trunc hF0 htc
  have hblk : ∀ h, h ∈ dirIds gh.dirs → ∀ sl, sl ∈ dirSlots s.vol s.dev.disk gh.G h → d.get sl.1 = s.dev.disk.get sl.1 := by
    intro h hh sl hs
    refine hblocks sl.1 ?_
    rcases dirSlot_not_fat hM hh hs with e | e <;> rw [e] <;> decide
  have hmemG : ∀ h, h ∈ dirIds gh.dirs → ¬ isFixedRoot s.vol h → chainOf gh.G (dirHead s.vol h) ∈ gh.G ++ X :=
    fun h hh hf => List.mem_append_left _ (dirChain_spec hM hh hf).1
  rcases hsound with h1 | h2
  · exact ci_of_record hM hR (R := A ++ [pre ++ x :: tail] ++ B) h1 (fun y hy => hG ▸ rawRefs_heads_all hM hR hy)
      (fun h hh hf => hG ▸ hmemG h hh hf) hblk hFd
  · refine ci_of_record hM hR (R := A ++ [pre ++ [x]] ++ B) h2 (fun y hy => ?_) (fun h hh hf => ?_) hblk hFd
    · have := rawRefs_heads_all hM hR hy
      rw [hG] at this
      have hh : (pre ++ [x]).headD 0 = (pre ++ x :: tail).headD 0 := by cases pre <;> rfl
      rw [List.append_assoc, List.singleton_append] at this ⊢
      rw [heads_replace A B (pre ++ x :: tail) (pre ++ [x]) hh]
      exact this
    · have hm := hmemG h hh hf
      rw [hG] at hm
      rcases List.mem_append.1 hm with hm | hm
      · rcases List.mem_append.1 hm with hm | hm
        · exact List.mem_append_left _ (List.mem_append_left _ hm)
        · exact absurd (List.mem_singleton.1 hm) (hnd h hh hf)
      · exact List.mem_append_right _ hm

/-- Releasing a chain of the record that the raw medium does not reference. -/
theorem free_ci {s : FS} (hM : MedX s.vol s.dev.disk files gh X) (hR : RawOK s.vol.fatType s.dev.disk files)
    (hn : NoFault s) (hc : Coherent s) {A B : List (List Nat)} {tail : List Nat} {r : Nat}
    (hG : gh.G ++ X = A ++ [r :: tail] ++ B) (hnr : r ∉ rawRefs s.vol s.dev.disk gh) :
    ∃ s', freeClusterChain r s = (.ok (), s') ∧ CrashAll (CI s.vol) s s' := by
  have hr : Ready s := ⟨hn, hc, hM.blocksOK, hM.geom, hM.hint⟩
  have ho : Owns s.vol s.dev.disk (A ++ [r :: tail] ++ B) := hG ▸ hM.owns
  obtain ⟨s', ht, hcr⟩ := CrashStep.free_stepCrash s A B r tail hr ho
  have hch : Chain s.vol s.dev.disk r (r :: tail) :=
    ho.1 _ (List.mem_append_left _ (List.mem_append_right _ (List.mem_singleton.2 rfl)))
  obtain ⟨s2, ht2, hcr2⟩ := CrashFat.free_crash s r tail hn hc hM.blocksOK hM.geom hch
  have e2 : s2 = s' := by rw [ht] at ht2; exact (congrArg Prod.snd ht2).symm
  subst e2
  have hF0 := fatOK_of_owns hM.owns
  refine ⟨s2, ht, (CrashFlush.CrashAll.and hcr hcr2).mono fun d hd => ?_⟩
  obtain ⟨⟨hsound, _, hblocks, _, _⟩, htc, _⟩ := hd
  have hFd := fatOK_freeCrash hF0 htc
  have hblk : ∀ h, h ∈ dirIds gh.dirs → ∀ sl, sl ∈ dirSlots s.vol s.dev.disk gh.G h → d.get sl.1 = s.dev.disk.get sl.1 := by
    intro h hh sl hs
    refine hblocks sl.1 ?_
    rcases dirSlot_not_fat hM hh hs with e | e <;> rw [e] <;> decide
  refine ci_of_record hM hR (R := A ++ [] ++ B) hsound (fun y hy => ?_) (fun h hh hf => ?_) hblk hFd
  · have := rawRefs_heads_all hM hR hy
    rw [hG] at this
    unfold heads at this ⊢
    simp only [List.map_append, List.map_cons, List.map_nil, List.mem_append, List.mem_cons, List.not_mem_nil, or_false] at this ⊢
    rcases this with (h1 | h1) | h1
    · exact .inl h1
    · exact absurd (show r ∈ _ from (show y = r from h1) ▸ hy) hnr
    · exact .inr h1
  · obtain ⟨hm, hhd⟩ := dirChain_spec hM hh hf
    have hm' : chainOf gh.G (dirHead s.vol h) ∈ gh.G ++ X := List.mem_append_left _ hm
    rw [hG] at hm'
    rcases List.mem_append.1 hm' with hm' | hm'
    · rcases List.mem_append.1 hm' with hm' | hm'
      · exact List.mem_append_left _ (List.mem_append_left _ hm')
      · exfalso
        have e := List.mem_singleton.1 hm'
        rw [e] at hhd
        have : dirHead s.vol h = r := by simpa using hhd.symm
        exact hnr (this ▸ dirHead_rawRefs hh hf)
    · exact List.mem_append_right _ hm'

/-- Blanking blocks of a cluster outside the chains of `G`. -/
theorem zeroBlocks_ci {s : FS} (hM : MedX s.vol s.dev.disk files gh X) (hR : RawOK s.vol.fatType s.dev.disk files)
    (hn : NoFault s) {c : Nat} (hc : InRange s.vol c) (hcG : c ∉ gh.G.flatten) {n first : Nat}
    (hin : ∀ i, first ≤ i → i < first + n → InCluster s.vol c i) :
    CrashAll (CI s.vol) s (zeroBlocks n first s).2 := by
  refine (CrashAlloc.zeroBlocks_crash n first s hn).mono fun d hd => ?_
  have hW := CrashAlloc.within_of_cluster_blocks (v := s.vol) (d := s.dev.disk) (d' := d) (c := c) true hM.geom hc.1 hc.2
    fun i hi => hd i fun hr => hi ⟨rfl, hin i hr.1 hr.2⟩
  exact ci_within hM hR hW (fun x hx => by cases hx) (dirClean_cluster hM hc hcG _) (fun x hx => by cases hx)

/-! ### `RawOK` across the rewriting of one slot -/

/-- One slot of directory `h` is replaced (`old` by `new`, same position); the other slots of all directories keep
their bytes.  Then `RawOK` persists, provided the open file sitting at that slot — if any — is named by the new slot. -/
theorem rawOK_edit {v : FatVolume} {d d' : Disk} {G' : List (List Nat)} (hM : MedX v d files gh X)
    (hR : RawOK v.fatType d files) {h : Nat} {pre post : List Slot} {old new : Slot}
    (hsp : dirSlots v d gh.G h = pre ++ old :: post) (hsp' : dirSlots v d' G' h = pre ++ new :: post)
    (hpos : new.1 = old.1 ∧ new.2.1 = old.2.1)
    (hother : ∀ x, x ∈ dirIds gh.dirs → x ≠ h → dirSlots v d' G' x = dirSlots v d gh.G x)
    (hf : ∀ f, f ∈ files → f.entry.entryBlock = old.1 → f.entry.entryOffset = old.2.1 →
      sCluster v.fatType new = 0 ∨ sCluster v.fatType new = f.entry.cluster) : RawOK v.fatType d' files := by
  intro f hfm
  obtain ⟨x, hx, o, ho, h1, h2⟩ := file_dirSlot hM hfm
  have hnew : new ∈ dirSlots v d' G' h := by rw [hsp']; simp
  by_cases hat : f.entry.entryBlock = old.1 ∧ f.entry.entryOffset = old.2.1
  · rw [hat.1, hat.2, ← hpos.1, ← hpos.2, ← slotAt_of_mem hnew]
    exact hf f hfm hat.1 hat.2
  · have ho' : ∃ y, o ∈ dirSlots v d' G' y := by
      by_cases hxh : x = h
      · subst hxh
        rw [hsp] at ho
        rcases List.mem_append.1 ho with hp | hp
        · exact ⟨x, by rw [hsp']; exact List.mem_append_left _ hp⟩
        · rcases List.mem_cons.1 hp with e | hp
          · exact absurd ⟨by rw [← h1, e], by rw [← h2, e]⟩ hat
          · exact ⟨x, by rw [hsp']; exact List.mem_append_right _ (List.mem_cons_of_mem _ hp)⟩
      · exact ⟨x, by rw [hother x hx hxh]; exact ho⟩
    obtain ⟨y, hy⟩ := ho'
    have e1 := slotAt_of_mem hy
    have e2 := slotAt_of_mem ho
    have := hR f hfm
    rw [← h1, ← h2, ← e2] at this
    rw [← h1, ← h2, ← e1]
    exact this

/-- `RawOK` when every slot list keeps its entries' slots (e.g. a directory grew by a blank cluster). -/
theorem rawOK_keep {v : FatVolume} {d d' : Disk} {G' : List (List Nat)} (hM : MedX v d files gh X)
    (hR : RawOK v.fatType d files)
    (hkeep : ∀ x, x ∈ dirIds gh.dirs → ∀ o, o ∈ dirSlots v d gh.G x → ∃ y, o ∈ dirSlots v d' G' y) :
    RawOK v.fatType d' files := by
  intro f hfm
  obtain ⟨x, hx, o, ho, h1, h2⟩ := file_dirSlot hM hfm
  obtain ⟨y, hy⟩ := hkeep x hx o ho
  have e1 := slotAt_of_mem hy
  have e2 := slotAt_of_mem ho
  have := hR f hfm
  rw [← h1, ← h2, ← e2] at this
  rw [← h1, ← h2, ← e1]
  exact this

end Pieces

end Sdmmc.Lemmas.VolCrash
