/-
Crash points at the manager level (`Mgr`, monad `M`): `MCrash P s s'` — every prefix of the device
writes between the manager states `s` and `s'`, applied to the medium of `s`, satisfies `P` —, how a
FAT-level call run through `withVol` lifts (`withVol_crash`), and the two halves of one iteration of the
loop of `write`: `locate_crash` (read-only, except that the chain is extended by one cluster when the
offset is at its end) and `finish_crash` (one device write: the located data block).
-/
import Sdmmc.Lemmas.CrashHist
import Sdmmc.Lemmas.WriteRefinesLoop

namespace Sdmmc.Lemmas.CrashMgr
open Sdmmc.Model Sdmmc.Model.Fat Sdmmc.Spec
open Sdmmc.Lemmas.FBasic hiding NoFault Coherent
open Sdmmc.Lemmas.FatOps hiding BlocksOK Mirror HintOK
open Sdmmc.Lemmas.ChainL Sdmmc.Lemmas.ForestBase Sdmmc.Lemmas.ForestOwns Sdmmc.Lemmas.ReadRefines
open Sdmmc.Lemmas.WriteRefines Sdmmc.Lemmas.CrashBase Sdmmc.Lemmas.CrashStep

/-! ### Crash points between two manager states -/

/-- Every medium a power cut between the manager states `s` and `s'` can leave satisfies `P`. -/
def MCrash (P : Disk → Prop) (s s' : Mgr) : Prop :=
  ∃ ws, s'.dev.wlog = ws.reverse ++ s.dev.wlog ∧ s'.dev.disk = s.dev.disk.applyWrites ws ∧
    ∀ k, P (s.dev.disk.applyWrites (ws.take k))

theorem MCrash.of_fs {P : Disk → Prop} {a b : FS} {s s' : Mgr} (h : CrashAll P a b) (ha : a.dev = s.dev) (hb : b.dev = s'.dev) :
    MCrash P s s' := by
  obtain ⟨ws, ht, hp⟩ := h
  exact ⟨ws, by rw [← hb, ← ha]; exact ht.wlog, by rw [← hb, ← ha]; exact ht.disk, by rw [← ha]; exact hp⟩

theorem MCrash.to_fs {P : Disk → Prop} {s s' : Mgr} (h : MCrash P s s') (a b : FS) (ha : a.dev = s.dev) (hb : b.dev = s'.dev) :
    CrashAll P a b := by
  obtain ⟨ws, h1, h2, hp⟩ := h
  exact ⟨ws, ⟨by rw [ha, hb]; exact h1, by rw [ha, hb]; exact h2⟩, by rw [ha]; exact hp⟩

/-- A canonical FAT-level state with the device of `s`. -/
def devFS (s : Mgr) : FS := { dev := s.dev, cache := s.cache, vol := default }

theorem MCrash.same {P : Disk → Prop} {s s' : Mgr} (hd : s'.dev = s.dev) (hp : P s.dev.disk) : MCrash P s s' :=
  ⟨[], by rw [hd]; rfl, by rw [hd]; rfl, fun k => by rw [List.take_nil]; exact hp⟩

theorem MCrash.same' {P : Disk → Prop} {s s' : Mgr} (hw : s'.dev.wlog = s.dev.wlog) (hd : s'.dev.disk = s.dev.disk)
    (hp : P s.dev.disk) : MCrash P s s' :=
  ⟨[], by rw [hw]; rfl, by rw [hd]; rfl, fun k => by rw [List.take_nil]; exact hp⟩

theorem MCrash.mono {P Q : Disk → Prop} {s s' : Mgr} (h : MCrash P s s') (hpq : ∀ d, P d → Q d) : MCrash Q s s' :=
  MCrash.of_fs ((h.to_fs (devFS s) (devFS s') rfl rfl).mono hpq) rfl rfl

theorem MCrash.trans {P : Disk → Prop} {s s1 s2 : Mgr} (h1 : MCrash P s s1) (h2 : MCrash P s1 s2) : MCrash P s s2 :=
  MCrash.of_fs ((h1.to_fs (devFS s) (devFS s1) rfl rfl).trans (h2.to_fs (devFS s1) (devFS s2) rfl rfl)) rfl rfl

theorem MCrash.final {P : Disk → Prop} {s s' : Mgr} (h : MCrash P s s') : P s'.dev.disk :=
  (h.to_fs (devFS s) (devFS s') rfl rfl).final

theorem MCrash.initial {P : Disk → Prop} {s s' : Mgr} (h : MCrash P s s') : P s.dev.disk :=
  (h.to_fs (devFS s) (devFS s') rfl rfl).initial

/-- The form the property files state: prefixes of the new part of the write log. -/
theorem MCrash.spec {P : Disk → Prop} {s s' : Mgr} (h : MCrash P s s') (k : Nat) :
    P (crashDisk s.dev.disk (newWrites (devFS s) (devFS s')) k) :=
  (h.to_fs (devFS s) (devFS s') rfl rfl).spec k

/-- A FAT-level call run on volume slot `vi`. -/
theorem withVol_crash {α : Type} {P : Disk → Prop} (vi : Nat) (m : F α) (s : Mgr) (v : VolInfo) (hv : s.vols[vi]? = some v)
    (h : CrashAll P (fsOf s v) (m (fsOf s v)).2) : MCrash P s (withVol vi m s).2 := by
  rw [withVol_run vi m s v hv]
  exact MCrash.of_fs h rfl rfl

/-! ### `find_data_on_disk` writes nothing -/

theorem walkClusters_readOnly (bpc : Nat) : ∀ (n : Nat) (st : Nat × Nat), ReadOnly (walkClusters bpc n st)
  | 0, st => ReadOnly.pure _
  | n + 1, st => by
    unfold walkClusters
    refine ReadOnly.bind (ReadOnly.attempt (nextCluster_readOnly _)) fun r => ?_
    cases r with
    | ok c => exact walkClusters_readOnly bpc n _
    | err e => exact ReadOnly.pure _
    | panic m => exact ReadOnly.pure _
    | diverged => exact ReadOnly.pure _

theorem findDataOnDisk_readOnly (fileStart desired : Nat) (start : Nat × Nat) : ReadOnly (findDataOnDisk fileStart desired start) := by
  unfold findDataOnDisk
  refine ReadOnly.bind ReadOnly.getVol fun v => ?_
  refine ReadOnly.ite _ (ReadOnly.panic _) ?_
  refine ReadOnly.bind (walkClusters_readOnly _ _ _) fun p => ?_
  obtain ⟨st, r⟩ := p
  cases r with
  | ok u => exact ReadOnly.ite _ (ReadOnly.panic _) (ReadOnly.pure _)
  | err e => exact ReadOnly.pure _
  | panic m => exact ReadOnly.pure _
  | diverged => exact ReadOnly.pure _

/-! ### The first half of an iteration: locating the block -/

/-- A crashed medium of `locate`, relative to the medium `d0` before it (record `A ++ [cs] ++ B`): no
block outside the FAT differs; the record is sound as it is, or with the chain extended by the new
cluster — in which case that extended record is the exact record of the medium `dfin` after `locate`. -/
structure LocCrash (v : FatVolume) (d0 dfin : Disk) (A B : List (List Nat)) (cs : List Nat) (d : Disk) : Prop where
  nonFat : ∀ i, regionOf v i ≠ .fat → d.get i = d0.get i
  sound : OwnsLoose v d (A ++ [cs] ++ B) ∨
    ∃ c, OwnsLoose v d (A ++ [cs ++ [c]] ++ B) ∧ Owns v dfin (A ++ [cs ++ [c]] ++ B)

theorem locCrash_refl {v : FatVolume} {d0 dfin : Disk} {A B : List (List Nat)} {cs : List Nat}
    (ho : Owns v d0 (A ++ [cs] ++ B)) : LocCrash v d0 dfin A B cs d0 :=
  ⟨fun _ _ => rfl, .inl (ownsLoose_of_owns ho)⟩

theorem locate_crash (i vi : Nat) (A B : List (List Nat)) (s : Mgr) (f : FileInfo) (v : VolInfo) (cs : List Nat)
    (h : WInv i vi A B s f v cs) :
    MCrash (LocCrash v.vol s.dev.disk (locate vi f s).2.dev.disk A B cs) s (locate vi f s).2 := by
  obtain ⟨hnf, hcoh, hblk, hunl⟩ := h.ok
  have hcb := h.cbpos
  have hn0 : NoFault (fsOf s v) := hnf
  have hc0 : Coherent (fsOf s v) := hcoh
  have hg : WFGeom (fsOf s v).vol := h.geom
  have hle : f.currentOffset ≤ cs.length * clusterBytesLen v.vol := Nat.le_trans h.fileOK.pos_le h.fileOK.size_fits
  by_cases hin : f.currentOffset < cs.length * clusterBytesLen v.vol
  · -- inside the chain: read-only
    have hklt : f.currentOffset / clusterBytesLen v.vol < cs.length := (Nat.div_lt_iff_lt_mul hcb).2 hin
    obtain ⟨c, hk⟩ : ∃ c, cs[f.currentOffset / clusterBytesLen v.vol]? = some c := ⟨_, List.getElem?_eq_getElem hklt⟩
    obtain ⟨fs1, hfind, hro1⟩ := find_on_chain f cs (fsOf s v) f.currentOffset c hn0 hc0 hg h.fileOK hk
    simp only [fsOf_vol] at hfind
    have hfindM := withVol_ro vi (findDataOnDisk f.entry.cluster f.currentOffset (f.curClusterOff, f.curCluster)) s v h.vol
      (by rw [hfind]; exact hro1)
    rw [hfind] at hfindM
    have hrun : (locate vi f s).2 = { s with dev := fs1.dev, cache := fs1.cache } := by
      show ((M.attempt _ >>= _) s).2 = _
      rw [MHoare.attempt_bind, hfindM]
      rfl
    rw [hrun]
    exact MCrash.same' hro1.wlog hro1.disk (locCrash_refl h.owns)
  · -- at the end of the chain
    have hoff : f.currentOffset = cs.length * clusterBytesLen v.vol := by omega
    have hlenpos : 0 < cs.length := List.length_pos_iff.2 h.ne
    obtain ⟨last, hlast⟩ : ∃ last, cs[cs.length - 1]? = some last := ⟨_, List.getElem?_eq_getElem (by omega)⟩
    obtain ⟨fs1, hfind, hro1⟩ := find_at_chain_end f cs (fsOf s v) last hn0 hc0 hg h.fileOK hlast
    simp only [fsOf_vol] at hfind
    rw [← hoff] at hfind
    have hfindM := withVol_ro vi (findDataOnDisk f.entry.cluster f.currentOffset (f.curClusterOff, f.curCluster)) s v h.vol
      (by rw [hfind]; exact hro1)
    rw [hfind] at hfindM
    generalize hs1 : ({ s with dev := fs1.dev, cache := fs1.cache } : Mgr) = s1 at hfindM
    have hfs1 : fsOf s1 v = fs1 := by rw [← hs1]; exact fsOf_ro_eq s v fs1 hro1
    have hv1 : s1.vols[vi]? = some v := by rw [← hs1]; exact h.vol
    have hn1 : NoFault fs1 := hro1.noFault hn0
    have hc1 : Coherent fs1 := hro1.coherent hc0
    have hvol1 : fs1.vol = v.vol := hro1.vol
    have hd1 : fs1.dev.disk = s.dev.disk := hro1.disk
    have hb1 : BlocksOK fs1.dev.disk := by intro j; rw [hd1]; exact hblk j
    have hready : Ready fs1 := ⟨hn1, hc1, hb1, by rw [hvol1]; exact h.geom, by rw [hvol1]; exact h.hint⟩
    have hcs : cs = cs.dropLast ++ [last] := dropLast_append_last cs last hlast
    have hown1 : Owns fs1.vol fs1.dev.disk (A ++ [cs.dropLast ++ [last]] ++ B) := by
      rw [hvol1, hd1, ← hcs]; exact h.owns
    have hallocM := withVol_run vi (allocCluster (some last) false) s1 v hv1
    rw [hfs1] at hallocM
    have c01 : MCrash (LocCrash v.vol s.dev.disk (locate vi f s).2.dev.disk A B cs) s s1 := by
      rw [← hs1]; exact MCrash.same' hro1.wlog hro1.disk (locCrash_refl h.owns)
    rcases alloc_cases fs1 (some last) false hn1 hc1 with ⟨c, fs2, ha⟩ | ⟨fs2, ha, ro2⟩
    · -- a cluster is appended
      obtain ⟨hready2, hown2, hsg, _, _⟩ := ForestStep.owns_extend fs1 fs2 A B cs.dropLast last false c hready hown1 ha
      have hlastm : last ∈ (A ++ [cs.dropLast ++ [last]] ++ B).flatten :=
        (mem_flatten3 _ _ _ last).2 (.inr (.inl (by rw [ForestStep.flatten_one]; exact List.mem_append_right _ (List.mem_singleton.2 rfl))))
      have hcr := alloc_stepCrash fs1 fs2 _ _ (some last) false c hready hown1 (fun p hp => by cases hp; exact hlastm) ha hown2
      rw [← hcs] at hown2 hcr
      rw [ha] at hallocM
      simp only at hallocM
      generalize hv1def : ({ v with vol := fs2.vol } : VolInfo) = v1 at hallocM
      have hv1vol : v1.vol = fs2.vol := by rw [← hv1def]
      generalize hs2 : ({ s1 with dev := fs2.dev, cache := fs2.cache, vols := s1.vols.set vi v1 } : Mgr) = s2 at hallocM
      have hvilt : vi < s.vols.length := (List.getElem?_eq_some_iff.1 h.vol).1
      have hv2 : s2.vols[vi]? = some v1 := by
        rw [← hs2, ← hs1]; exact List.getElem?_set_self hvilt
      have hfs2 : fsOf s2 v1 = fs2 := by
        rw [← hs2]
        show ({ dev := fs2.dev, cache := fs2.cache, vol := v1.vol } : FS) = fs2
        rw [hv1vol]
      -- the second `find_data_on_disk` is read-only
      have hro3 : RO (fsOf s2 v1) (findDataOnDisk f.entry.cluster f.currentOffset ((cs.length - 1) * clusterBytesLen v.vol, last) (fsOf s2 v1)).2 :=
        findDataOnDisk_readOnly _ _ _ _
      have hfind2M := withVol_ro vi (findDataOnDisk f.entry.cluster f.currentOffset
        ((cs.length - 1) * clusterBytesLen v.vol, last)) s2 v1 hv2 hro3
      -- the final state has the device of the state after the second search
      have hfinal : (locate vi f s).2.dev = (findDataOnDisk f.entry.cluster f.currentOffset
          ((cs.length - 1) * clusterBytesLen v.vol, last) (fsOf s2 v1)).2.dev := by
        show ((M.attempt _ >>= _) s).2.dev = _
        rw [MHoare.attempt_bind, hfindM]
        show ((M.attempt _ >>= _) s1).2.dev = _
        rw [MHoare.attempt_bind, hallocM]
        show ((M.attempt _ >>= _) s2).2.dev = _
        rw [MHoare.attempt_bind, hfind2M]
        generalize (findDataOnDisk f.entry.cluster f.currentOffset ((cs.length - 1) * clusterBytesLen v.vol, last) (fsOf s2 v1)) = p
        obtain ⟨r, fs3⟩ := p
        rcases r with ⟨cc2, x⟩ | e | m | _
        · rcases x with x | e | m | _ <;> rfl
        · rfl
        · rfl
        · rfl
      have hdfin : (locate vi f s).2.dev.disk = fs2.dev.disk := by
        rw [hfinal, hro3.disk, hfs2]
      have hwfin : (locate vi f s).2.dev.wlog = fs2.dev.wlog := by
        rw [hfinal, hro3.wlog, hfs2]
      rw [hdfin] at c01 ⊢
      have c12 : MCrash (LocCrash v.vol s.dev.disk fs2.dev.disk A B cs) s1 s2 := by
        have hdev1 : fs1.dev = s1.dev := by rw [← hfs1]; rfl
        have hdev2 : fs2.dev = s2.dev := by rw [← hs2]
        refine MCrash.of_fs (hcr.mono fun d hd => ?_) hdev1 hdev2
        obtain ⟨hsound, _, hblocks, _, _, _⟩ := hd
        rw [hvol1, hd1] at hblocks
        rw [hvol1] at hsound
        refine ⟨fun j hj => Classical.byContradiction fun hne => ?_, ?_⟩
        · have := (hblocks j hj hne).1
          cases this
        · rcases hsound with hs | hs
          · exact .inl hs
          · exact .inr ⟨c, hs, by
              have := owns_sameGeom hsg.symm hown2
              rw [hvol1] at this; exact this⟩
      have c23 : MCrash (LocCrash v.vol s.dev.disk fs2.dev.disk A B cs) s2 (locate vi f s).2 := by
        have hdev2 : s2.dev = fs2.dev := by rw [← hs2]
        exact MCrash.same' (by rw [hwfin, hdev2]) (by rw [hdfin, hdev2]) c12.final
      exact (c01.trans c12).trans c23
    · -- the volume is full: read-only
      rw [ha] at hallocM
      simp only at hallocM
      have hrun : (locate vi f s).2.dev = fs2.dev := by
        show ((M.attempt _ >>= _) s).2.dev = _
        rw [MHoare.attempt_bind, hfindM]
        show ((M.attempt _ >>= _) s1).2.dev = _
        rw [MHoare.attempt_bind, hallocM]
        rfl
      have hdev1 : s1.dev = fs1.dev := by rw [← hs1]
      exact c01.trans (MCrash.same' (by rw [hrun, ro2.wlog, hdev1]) (by rw [hrun, ro2.disk, hdev1]) c01.final)

/-! ### The second half: the data block -/

/-- The block write of an iteration and the update of the file record: one device write. -/
theorem finish_crash (i vi : Nat) (s s2 : Mgr) (v : VolInfo) (b off : Nat) (data : Bytes) (whole : Bool) (g : FileInfo → FileInfo)
    (hs : MOK s) (hv : s.vols[vi]? = some v)
    (h : (withVol vi (writeBlockPart b off data whole) >>= fun _ => modifyFile i g) s = (.ok (), s2)) :
    MCrash (fun d => d = s.dev.disk ∨ d = s2.dev.disk) s s2 := by
  obtain ⟨hnf, hcoh, _, _⟩ := hs
  obtain ⟨fs', hw, hwlog, hdisk, _, _, _⟩ := Files.write_block_part_frame b off data whole (fsOf s v) hnf hcoh
  have hwM := withVol_run vi (writeBlockPart b off data whole) s v hv
  rw [hw] at hwM
  simp only at hwM
  rw [MHoare.bind_ok hwM] at h
  have hdev : s2.dev = fs'.dev := by
    have := congrArg (fun p => p.2.dev) h
    exact this.symm
  refine ⟨[(b, _)], by rw [hdev, hwlog]; rfl, by rw [hdev, hdisk]; rfl, fun k => ?_⟩
  cases k with
  | zero => exact .inl rfl
  | succ k =>
    rw [List.take_succ_cons, List.take_nil]
    exact .inr (by rw [hdev, hdisk]; rfl)

end Sdmmc.Lemmas.CrashMgr
