/-
C04 over whole calls, the block write of `write`: the patched block is a block of a cluster of the
file, and only the bytes holding the file positions `[p, p + data.length)` differ from the medium
(kind (e) of `Sdmmc.Spec.WriteSet`).
-/
import Sdmmc.Lemmas.WriteSetPrim
import Sdmmc.Lemmas.WriteRefinesBytes

namespace Sdmmc.Lemmas.WriteSet
open Sdmmc.Model Sdmmc.Model.Fat Sdmmc.Spec
open Sdmmc.Lemmas.FBasic hiding NoFault Coherent
open Sdmmc.Lemmas.FatOps hiding BlocksOK Mirror HintOK

/-- Positions `p .. p + j` inside one block: same cluster index, same block of the cluster, byte
`p % 512 + j`. -/
theorem pos_shift (bpc p j : Nat) (hb : 0 < bpc) (hj : p % 512 + j < 512) :
    (p + j) / (bpc * 512) = p / (bpc * 512) ∧ (p + j) % (bpc * 512) / 512 = p % (bpc * 512) / 512 ∧
    (p + j) % 512 = p % 512 + j := by
  obtain ⟨a1, a2, a3⟩ := ChainL.offset_arith bpc p hb
  have hr : p % (bpc * 512) + j < bpc * 512 := by omega
  obtain ⟨d1, d2⟩ := WriteRefines.div_mod_of_add (p / (bpc * 512)) (bpc * 512) (p % (bpc * 512) + j) hr
  have e : p + j = p / (bpc * 512) * (bpc * 512) + (p % (bpc * 512) + j) := by omega
  rw [e, d1, d2]
  refine ⟨rfl, by omega, ?_⟩
  rw [← e]
  omega

/-- The block write of `write` at file position `p` (block, offset and `whole` flag as computed by the
loop): licensed by a byte range of the file that contains `[p, p + data.length)`. -/
theorem writeBlockPart_range (s : FS) (L : Licence) (cs : List Nat) (lo hi p c : Nat) (data : Bytes) (whole : Bool)
    (hs : Sound s) (hL : (cs, lo, hi) ∈ L.files) (hk : cs[p / clusterBytesLen s.vol]? = some c) (hr : InRange s.vol c)
    (hlo : lo ≤ p) (hhi : p + data.length ≤ hi) (hfit : p % 512 + data.length ≤ 512)
    (hwhole : whole = true → p % 512 = 0 ∧ data.length = 512) :
    ∃ s', writeBlockPart (clusterToBlock s.vol c + p % clusterBytesLen s.vol / 512) (p % 512) data whole s = (.ok (), s') ∧
      Sound s' ∧ s'.vol = s.vol ∧ LicD s.vol L s.dev s'.dev := by
  have hcbdef : clusterBytesLen s.vol = s.vol.blocksPerCluster * 512 := rfl
  obtain ⟨a1, a2, a3⟩ := ChainL.offset_arith s.vol.blocksPerCluster p hs.geom.bpc_pos
  rw [← hcbdef] at a1 a2 a3
  generalize hbdef : clusterToBlock s.vol c + p % clusterBytesLen s.vol / 512 = b
  obtain ⟨s', h, hw, hd, hv, hn', hc'⟩ := Files.write_block_part_frame b (p % 512) data whole s hs.noFault hs.coherent
  have hold : (s.dev.disk.get b).length = 512 := hs.blocksOK b
  have hpay : splice (if whole = true then zeroBlock else s.dev.disk.get b) (p % 512) data =
      splice (s.dev.disk.get b) (p % 512) data := by
    cases hwh : whole with
    | false => rfl
    | true =>
      obtain ⟨h0, h512⟩ := hwhole hwh
      rw [h0]
      exact WriteRefines.splice_whole_any _ _ _ zeroBlock_length hold h512
  rw [hpay] at hw hd
  have hlen : (splice (s.dev.disk.get b) (p % 512) data).length = 512 := by
    rw [FatLens.splice_length _ _ _ (by rw [hold]; exact hfit), hold]
  have h1 : clusterToBlock s.vol c ≤ b := by omega
  have h2 : b < clusterToBlock s.vol c + s.vol.blocksPerCluster := by omega
  have hreg : regionOf s.vol b = .data := data_block_region s.vol hs.geom c b hr h1 h2
  refine ⟨s', h, ⟨⟨hn', hc', ?_, by rw [hv]; exact hs.geom, by rw [hv]; exact hs.hint⟩, ?_⟩, hv, ?_⟩
  · rw [hd]; exact blocksOK_set _ _ _ hs.blocksOK hlen
  · rw [hv, hd]; exact mirror_set s.vol hs.geom _ _ _ (by rw [hreg]; intro e; cases e) hs.mirror
  · refine LicD.one (b, _) hw hd (.inr (.inr (.inr (.inr ⟨hlen, ⟨cs, lo, hi, c, hL, List.mem_of_getElem? hk, hr, h1, h2⟩, ?_⟩))))
    intro i hi'
    apply FatLens.splice_getD_outside _ _ _ _ (by rw [hold]; exact hfit)
    -- a byte inside the patched stretch holds a licensed position
    refine Classical.byContradiction fun hcon => hi' ?_
    have hi1 : p % 512 ≤ i := by omega
    have hi2 : i < p % 512 + data.length := by omega
    obtain ⟨s1, s2, s3⟩ := pos_shift s.vol.blocksPerCluster p (i - p % 512) hs.geom.bpc_pos (by omega)
    rw [← hcbdef] at s1 s2
    refine ⟨cs, lo, hi, p + (i - p % 512), hL, by omega, by omega, c, by rw [s1]; exact hk, ?_, ?_⟩
    · show b = _; rw [s2]; exact hbdef.symm
    · show i = _; rw [s3]; omega

end Sdmmc.Lemmas.WriteSet
