/-
C11, part 7 — the loop of `write` and the call `write` under an arbitrary fault schedule:
`writeLoop_any`, `write_keeps_others`.
-/
import Sdmmc.Lemmas.RetryWriteM

namespace Sdmmc.Lemmas.Retry
open Sdmmc.Model Sdmmc.Model.Fat Sdmmc.Spec Sdmmc.Lemmas.Fault
open Sdmmc.Lemmas.FBasic hiding cacheRead_cases cacheRead_ok_tag NoFault Coherent
open Sdmmc.Lemmas.FatOps hiding BlocksOK Mirror HintOK
open Sdmmc.Lemmas.ChainL Sdmmc.Lemmas.ForestBase Sdmmc.Lemmas.ForestOwns Sdmmc.Lemmas.ReadRefines
open Sdmmc.Lemmas.WriteRefines

theorem Others.sameGeom {v v' : FatVolume} {A B : List (List Nat)} {d0 d : Disk} {cs : List Nat}
    (hs : Spec.SameGeom v v') (h : Others v' A B d0 cs d) : Others v A B d0 cs d :=
  ⟨fun X hX => ⟨chain_sameGeom hs.symm (h.chains X hX).1, (h.chains X hX).2⟩,
   fun b hb hc => h.frame b (fun hf => hb ((sameGeom_isFatBlock hs b).1 hf)) (fun hc' => hc ((sameGeom_isClusterBlock hs cs b).1 hc')),
   fun x hx => (hs.inRange x).1 (h.inRange x hx)⟩

/-- What the loop of `write` keeps, whatever fails: only device, cache, file slot `i` and the
bookkeeping fields of volume slot `vi` differ; the chains `A ++ B` are chains, disjoint from the
written file's chain `cs'` (an extension of `cs`), and every block that is neither a FAT block nor
a block of `cs'` is the same. -/
structure Kept (i vi : Nat) (A B : List (List Nat)) (v : VolInfo) (cs : List Nat) (s s' : Mgr) : Prop where
  step : ∃ f' v', WStep i vi s s' f' v' ∧ v' = { v with vol := v'.vol } ∧ Spec.SameGeom v.vol v'.vol
  others : ∃ cs', cs <+: cs' ∧ Others v.vol A B s.dev.disk cs' s'.dev.disk

theorem kept_refl {i vi : Nat} {A B : List (List Nat)} {s : Mgr} {f : FileInfo} {v : VolInfo} {cs : List Nat}
    (h : WInv i vi A B (mclr s) f v cs) : Kept i vi A B v cs s s :=
  ⟨⟨f, v, WStep.refl h.file h.vol, rfl, SameGeom.refl _⟩,
   ⟨cs, List.prefix_refl _, others_of_winv (t := mclr s) h (SameGeom.refl _) (fun _ _ _ => rfl)⟩⟩

theorem writeBlockPart_mstrict (vi b o : Nat) (data : Bytes) (whole : Bool) :
    MStrict (withVol vi (writeBlockPart b o data whole)) := MStrict.withVol vi (writeBlockPart_strict b o data whole)

/-- **The loop of `write` under any fault schedule.** -/
theorem writeLoop_any (i vi : Nat) (A B : List (List Nat)) :
    ∀ (fuel : Nat) (buffer : Bytes) (s : Mgr) (f : FileInfo) (v : VolInfo) (cs : List Nat),
      WInv i vi A B (mclr s) f v cs → Kept i vi A B v cs s (writeLoop i vi fuel buffer s).2 := by
  intro fuel
  induction fuel with
  | zero => intro buffer s f v cs h; exact kept_refl h
  | succ fuel ih =>
    intro buffer s f v cs h
    by_cases hne : buffer = []
    · subst hne; rw [writeLoop_nil]; exact kept_refl h
    · have hfile : s.files[i]? = some f := h.file
      have hvol : s.vols[vi]? = some v := h.vol
      rw [writeLoop_succ i vi fuel buffer f s hne (MHoare.getFile_ok hfile)]
      rcases hloc : locate vi f s with ⟨r1, s1⟩
      by_cases hq1 : s1.dev.failed = s.dev.failed
      · -- `locate` hit no fault: it is the fault-free `locate`
        have hclean : locate vi f (mclr s) = (r1, mclr s1) := by
          have := (locate_magree vi f s).2 (by rw [hloc]; exact hq1)
          rw [hloc] at this; exact this
        rcases locate_spec i vi A B (mclr s) f v cs h with
          ⟨c, t1, v1, cs1, hl, h1, hk1, hpre1, hsg1, hvid1, hstep1, hdisk1, _⟩ | ⟨t1, hl, h1, hstep1, hd1, _, _⟩
        · rw [hclean] at hl
          have hr1 := congrArg Prod.fst hl
          have ht1 : mclr s1 = t1 := congrArg Prod.snd hl
          simp only at hr1
          subst hr1; subst ht1
          rw [M.bind_ok hloc]
          dsimp only
          have hcbeq : clusterBytesLen v1.vol = clusterBytesLen v.vol := sameGeom_clusterBytesLen hsg1
          have hctb : ∀ x, clusterToBlock v1.vol x = clusterToBlock v.vol x := sameGeom_clusterToBlock hsg1
          generalize ht : min (512 - f.currentOffset % 512) buffer.length = t
          generalize hb : clusterToBlock v.vol c + f.currentOffset % clusterBytesLen v.vol / 512 = b
          generalize hwh : decide (f.currentOffset % 512 = 0 ∧ t = 512 - f.currentOffset % 512) = whole
          generalize hcc : (f.currentOffset / clusterBytesLen v.vol * clusterBytesLen v.vol, c) = cc
          -- what the first half kept
          have hframe1 : ∀ x, ¬ IsFatBlock v.vol x → s1.dev.disk.get x = s.dev.disk.get x := hdisk1
          have hoth1 : Others v.vol A B s.dev.disk cs1 s1.dev.disk :=
            others_of_winv (t := mclr s1) h1 hsg1 (fun x hx _ => hframe1 x hx)
          have hstep1' : WStep i vi s s1 f v1 := wstep_of_mclr hstep1
          have h1vol : s1.vols[vi]? = some v1 := h1.vol
          have h1file : s1.files[i]? = some f := h1.file
          rcases hw : withVol vi (writeBlockPart b (f.currentOffset % 512) (buffer.take t) whole) s1 with ⟨r2, s2⟩
          have hnotok : (∀ u, r2 ≠ .ok u) → Kept i vi A B v cs s s2 := by
            intro hno
            have hrun := withVol_run vi (writeBlockPart b (f.currentOffset % 512) (buffer.take t) whole) s1 v1 h1vol
            rw [hw] at hrun
            have hr2 : (writeBlockPart b (f.currentOffset % 512) (buffer.take t) whole (fsOf s1 v1)).1 ≠ .ok () := by
              rw [← (congrArg Prod.fst hrun)]; exact hno ()
            obtain ⟨hd, _, hv⟩ := writeBlockPart_fail b (f.currentOffset % 512) (buffer.take t) whole (fsOf s1 v1) hr2
            have hs2 := congrArg Prod.snd hrun
            simp only at hs2
            have hvself : ({ v1 with vol := (writeBlockPart b (f.currentOffset % 512) (buffer.take t) whole (fsOf s1 v1)).2.vol } : VolInfo) = v1 := by
              rw [hv]; rfl
            rw [hvself, list_set_self _ _ _ h1vol] at hs2
            have hd2 : s2.dev.disk = s1.dev.disk := by rw [hs2]; exact hd
            refine ⟨⟨f, v1, hstep1'.trans ⟨?_⟩, hvid1, hsg1⟩, ⟨cs1, hpre1, ?_⟩⟩
            · rw [hs2]
              show _ = ({ s1 with dev := _, cache := _, files := s1.files.set i f, vols := s1.vols.set vi v1 } : Mgr)
              rw [list_set_self _ _ _ h1file, list_set_self _ _ _ h1vol]
            · rw [hd2]; exact hoth1
          cases r2 with
          | err e => rw [M.bind_err hw]; exact hnotok (fun u hu => by cases hu)
          | panic m => rw [M.bind_panic hw]; exact hnotok (fun u hu => by cases hu)
          | diverged => rw [M.bind_diverged hw]; exact hnotok (fun u hu => by cases hu)
          | ok u =>
            -- the block write succeeded: no fault was hit, so it is the fault-free second half
            have hq2 : s2.dev.failed = s1.dev.failed := by
              apply Classical.byContradiction
              intro hne2
              have := writeBlockPart_mstrict vi b (f.currentOffset % 512) (buffer.take t) whole s1 (by rw [hw]; exact hne2)
              rw [hw] at this
              cases this
            rw [M.bind_ok hw]
            have hmod : modifyFile i (bump cc t) s2 = (.ok (), { s2 with files := s2.files.modify i (bump cc t) }) := rfl
            rw [M.bind_ok hmod]
            generalize hs3 : ({ s2 with files := s2.files.modify i (bump cc t) } : Mgr) = s3
            have hboth : (withVol vi (writeBlockPart b (f.currentOffset % 512) (buffer.take t) whole) >>= fun _ =>
                modifyFile i (bump cc t)) s1 = (.ok (), s3) := by
              rw [M.bind_ok hw, hmod, hs3]
            have hclean2 := (finish_magree i vi b (f.currentOffset % 512) (buffer.take t) whole (bump cc t) s1).2
              (by rw [hboth, ← hs3]; exact hq2)
            rw [hboth] at hclean2
            obtain ⟨t3, hfin, h3, hprog3, _⟩ := finish_spec i vi A B (mclr s1) f v1 cs1 c buffer h1 (by rw [hcbeq]; exact hk1) hne
              t (by rw [← ht]) cc (by rw [hcbeq, ← hcc])
            rw [hcbeq, hctb, hb, hwh, hclean2] at hfin
            have ht3 : mclr s3 = t3 := congrArg Prod.snd hfin
            subst ht3
            -- the rest of the loop
            have hrest := ih (buffer.drop t) s3 (bump cc t f) v1 cs1 h3
            obtain ⟨⟨f', v', hstep', hvid', hsg'⟩, ⟨cs', hpre', hoth'⟩⟩ := hrest
            have hstep3 : WStep i vi s s3 (bump cc t f) v1 := hstep1'.trans (wstep_of_mclr hprog3.step)
            have hframe3 : ∀ x, ¬ IsFatBlock v.vol x → ¬ IsClusterBlock v.vol cs1 x → s3.dev.disk.get x = s.dev.disk.get x := by
              intro x hx hc
              have := hprog3.touch.disk x (fun hf => hx ((sameGeom_isFatBlock hsg1 x).1 hf))
                (fun hc' => hc ((sameGeom_isClusterBlock hsg1 cs1 x).1 hc'))
              exact this.trans (hframe1 x hx)
            have hoth3 : Others v.vol A B s.dev.disk cs1 s3.dev.disk := others_of_winv (t := mclr s3) h3 hsg1 hframe3
            refine ⟨⟨f', v', hstep3.trans hstep', volInfo_vid_trans hvid1 hvid', hsg1.trans hsg'⟩,
              ⟨cs', hpre1.trans hpre', hoth3.trans (Others.sameGeom hsg1 hoth') fun x hx => hpre'.mem hx⟩⟩
        · -- the volume is full (no fault): the loop ends
          rw [hclean] at hl
          have hr1 := congrArg Prod.fst hl
          have ht1 : mclr s1 = t1 := congrArg Prod.snd hl
          simp only at hr1
          subst hr1; subst ht1
          rw [M.bind_err hloc]
          exact ⟨⟨f, v, wstep_of_mclr hstep1, rfl, SameGeom.refl _⟩,
            ⟨cs, List.prefix_refl _, others_of_winv (t := mclr s1) h1 (SameGeom.refl _) (fun x _ _ => by
              show (mclr s1).dev.disk.get x = _; rw [hd1]; rfl)⟩⟩
      · -- a device call failed inside `locate`: the loop ends with its error
        obtain ⟨e, he⟩ := locate_reported vi f s (by rw [hloc]; exact hq1)
        rw [hloc] at he
        simp only at he
        subst he
        rw [M.bind_err hloc]
        obtain ⟨v1, heq, hvid1, hsg1, hupd, _⟩ := locate_any i vi A B s f v cs h
        rw [hloc] at heq hupd
        simp only at heq hupd
        refine ⟨⟨f, v1, ⟨?_⟩, hvid1, hsg1⟩, ⟨cs, List.prefix_refl _, ?_⟩⟩
        · rw [list_set_self _ _ _ hfile]; exact heq
        · have ho : Owns v.vol s.dev.disk (A ++ [cs] ++ B) := h.owns
          have := others_of_upd (M := [cs]) ho (by rw [ForestStep.flatten_one]; exact hupd)
          rw [ForestStep.flatten_one] at this
          exact this

end Sdmmc.Lemmas.Retry
