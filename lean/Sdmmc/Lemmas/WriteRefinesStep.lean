/-
Write side of C01, part 2 — the manager level: the loop invariant (`WInv`), what a stretch of the
loop of `write` does to the state (`WStep`, `Touch`, `WProg`), the loop body cut into "locate the
block, extending the chain when the offset is at its end" (`locate`, `locate_spec`) and "patch the
block, advance the file record" (`finish_spec`).
-/
import Sdmmc.Lemmas.WriteRefinesBytes

namespace Sdmmc.Lemmas.WriteRefines
open Sdmmc.Model Sdmmc.Model.Fat Sdmmc.Spec
open Sdmmc.Lemmas.FBasic hiding NoFault Coherent
open Sdmmc.Lemmas.FatOps hiding BlocksOK Mirror HintOK
open Sdmmc.Lemmas.ChainL Sdmmc.Lemmas.ForestBase Sdmmc.Lemmas.ForestOwns Sdmmc.Lemmas.ReadRefines

/-! ### The loop body, cut in two -/

/-- The "locate the block, extending the chain if the offset is at its end" part of one iteration of
the loop of `write` (same term as in `Model.writeLoop`). -/
def locate (volIdx : Nat) (f : FileInfo) : M ((Nat × Nat) × (Nat × Nat × Nat)) := do
  let r ← M.attempt (withVol volIdx (findDataOnDisk f.entry.cluster f.currentOffset (f.curClusterOff, f.curCluster)))
  match r with
  | .ok (cc, .ok x) => pure (cc, x)
  | .ok (cc, .err .EndOfFile) => do
    let ra ← M.attempt (withVol volIdx (Fat.allocCluster (some cc.2) false))
    match ra with
    | .ok _ => do
      let r2 ← M.attempt (withVol volIdx (findDataOnDisk f.entry.cluster f.currentOffset cc))
      match r2 with
      | .ok (cc2, .ok x) => pure (cc2, x)
      | .ok (_, .err _) => M.fail .AllocationError
      | .ok (_, other) => M.lift (other.bind fun _ => .err .AllocationError)
      | other => M.lift (other.bind fun _ => .err .AllocationError)
    | .err _ => M.fail .DiskFull
    | other => M.lift (other.bind fun _ => .err .DiskFull)
  | .ok (_, other) => M.lift (other.bind fun _ => .err .DiskFull)
  | other => M.lift (other.bind fun _ => .err .DiskFull)

/-- The record of the written file after one iteration that copied `toCopy` bytes. -/
def bump (cc : Nat × Nat) (toCopy : Nat) (f : FileInfo) : FileInfo :=
  let newOffset := f.currentOffset + toCopy
  let f := { f with curClusterOff := cc.1, curCluster := cc.2 }
  let f := if newOffset > f.entry.size then f.updateLength newOffset else f
  { f with currentOffset := newOffset }

/-- One iteration of the loop of `write` on a non-empty buffer. -/
theorem writeLoop_succ (fileIdx volIdx fuel : Nat) (buffer : Bytes) (f : FileInfo) (s : Mgr)
    (hne : buffer ≠ []) (hf : getFile fileIdx s = (.ok f, s)) :
    writeLoop fileIdx volIdx (fuel + 1) buffer s =
      (locate volIdx f >>= fun x =>
        withVol volIdx (writeBlockPart x.2.1 x.2.2.1 (buffer.take (min x.2.2.2 buffer.length))
          (decide (x.2.2.1 = 0 ∧ min x.2.2.2 buffer.length = x.2.2.2))) >>= fun _ =>
        modifyFile fileIdx (bump x.1 (min x.2.2.2 buffer.length)) >>= fun _ =>
        writeLoop fileIdx volIdx fuel (buffer.drop (min x.2.2.2 buffer.length))) s := by
  have hne' : buffer.isEmpty = false := by cases buffer <;> simp_all
  rw [writeLoop]
  simp only [hne', Bool.false_eq_true, if_false]
  show (getFile fileIdx >>= _) s = _
  rw [MHoare.bind_ok hf]
  rfl

theorem writeLoop_nil (fileIdx volIdx fuel : Nat) (s : Mgr) : writeLoop fileIdx volIdx fuel [] s = (.ok (), s) := by
  cases fuel with
  | zero => rfl
  | succ n => rw [writeLoop]; rfl

/-! ### `withVol` -/

theorem withVol_run {α : Type} (vi : Nat) (m : F α) (s : Mgr) (v : VolInfo) (hv : s.vols[vi]? = some v) :
    withVol vi m s = ((m (fsOf s v)).1,
      { s with dev := (m (fsOf s v)).2.dev, cache := (m (fsOf s v)).2.cache,
               vols := s.vols.set vi { v with vol := (m (fsOf s v)).2.vol } }) := by
  unfold withVol
  rw [hv]
  rfl

@[simp] theorem fsOf_vol (s : Mgr) (v : VolInfo) : (fsOf s v).vol = v.vol := rfl
@[simp] theorem fsOf_dev (s : Mgr) (v : VolInfo) : (fsOf s v).dev = s.dev := rfl
@[simp] theorem fsOf_cache (s : Mgr) (v : VolInfo) : (fsOf s v).cache = s.cache := rfl

/-! ### What a stretch of the loop does to the manager state -/

/-- Only the device, the cache, file slot `i` and volume slot `vi` differ. -/
structure WStep (i vi : Nat) (s s' : Mgr) (f' : FileInfo) (v' : VolInfo) : Prop where
  eq : s' = { s with dev := s'.dev, cache := s'.cache, files := s.files.set i f', vols := s.vols.set vi v' }

theorem WStep.refl {i vi : Nat} {s : Mgr} {f : FileInfo} {v : VolInfo} (hf : s.files[i]? = some f)
    (hv : s.vols[vi]? = some v) : WStep i vi s s f v :=
  ⟨by rw [list_set_self _ _ _ hf, list_set_self _ _ _ hv]⟩

theorem WStep.trans {i vi : Nat} {a b c : Mgr} {f1 f2 : FileInfo} {v1 v2 : VolInfo} (h1 : WStep i vi a b f1 v1)
    (h2 : WStep i vi b c f2 v2) : WStep i vi a c f2 v2 := by
  have hbf : b.files = a.files.set i f1 := by rw [h1.eq]
  have hbv : b.vols = a.vols.set vi v1 := by rw [h1.eq]
  have e1 := h1.eq
  have e2 := h2.eq
  rw [hbf, hbv, List.set_set, List.set_set] at e2
  exact ⟨by rw [e2, e1]⟩

theorem WStep.files {i vi : Nat} {s s' : Mgr} {f' : FileInfo} {v' : VolInfo} (h : WStep i vi s s' f' v') :
    s'.files = s.files.set i f' := by rw [h.eq]
theorem WStep.vols {i vi : Nat} {s s' : Mgr} {f' : FileInfo} {v' : VolInfo} (h : WStep i vi s s' f' v') :
    s'.vols = s.vols.set vi v' := by rw [h.eq]

/-- Which blocks of the medium differ and which device writes were logged: FAT blocks of the volume
and blocks of the clusters `cs` only. -/
structure Touch (v : FatVolume) (cs : List Nat) (dv dv' : Dev) : Prop where
  disk : ∀ b, ¬ IsFatBlock v b → ¬ IsClusterBlock v cs b → dv'.disk.get b = dv.disk.get b
  wlog : ∃ new, dv'.wlog = new ++ dv.wlog ∧ ∀ w, w ∈ new → IsFatBlock v w.1 ∨ IsClusterBlock v cs w.1

theorem Touch.refl (v : FatVolume) (cs : List Nat) (dv : Dev) : Touch v cs dv dv :=
  ⟨fun _ _ _ => rfl, [], rfl, fun _ h => by cases h⟩

theorem Touch.of_eq {v : FatVolume} {cs : List Nat} {dv dv' : Dev} (hd : dv'.disk = dv.disk) (hw : dv'.wlog = dv.wlog) :
    Touch v cs dv dv' :=
  ⟨fun _ _ _ => by rw [hd], [], by rw [hw]; rfl, fun _ h => by cases h⟩

theorem Touch.mono {v : FatVolume} {cs cs' : List Nat} {dv dv' : Dev} (h : Touch v cs dv dv')
    (hsub : ∀ x, x ∈ cs → x ∈ cs') : Touch v cs' dv dv' := by
  refine ⟨fun b h1 h2 => h.disk b h1 fun hc => h2 (isClusterBlock_mono hsub hc), ?_⟩
  obtain ⟨new, e, hn⟩ := h.wlog
  exact ⟨new, e, fun w hw => (hn w hw).imp id (isClusterBlock_mono hsub)⟩

theorem Touch.trans {v : FatVolume} {cs : List Nat} {a b c : Dev} (h1 : Touch v cs a b) (h2 : Touch v cs b c) :
    Touch v cs a c := by
  refine ⟨fun x hx1 hx2 => (h2.disk x hx1 hx2).trans (h1.disk x hx1 hx2), ?_⟩
  obtain ⟨n1, e1, hn1⟩ := h1.wlog
  obtain ⟨n2, e2, hn2⟩ := h2.wlog
  refine ⟨n2 ++ n1, by rw [e2, e1, List.append_assoc], fun w hw => ?_⟩
  rcases List.mem_append.1 hw with hw | hw
  · exact hn2 w hw
  · exact hn1 w hw

theorem Touch.sameGeom {v v' : FatVolume} {cs : List Nat} {a b : Dev} (hs : SameGeom v v') (h : Touch v' cs a b) :
    Touch v cs a b := by
  refine ⟨fun x h1 h2 => h.disk x (fun hc => h1 ((sameGeom_isFatBlock hs x).1 hc))
    (fun hc => h2 ((sameGeom_isClusterBlock hs cs x).1 hc)), ?_⟩
  obtain ⟨new, e, hn⟩ := h.wlog
  exact ⟨new, e, fun w hw => (hn w hw).imp (sameGeom_isFatBlock hs _).1 (sameGeom_isClusterBlock hs cs _).1⟩

/-- The fields of the file record the loop never touches: identity, mode, dirty flag, and the
directory entry except for its size. -/
structure LoopFile (f f' : FileInfo) : Prop where
  rawFile : f'.rawFile = f.rawFile
  rawVolume : f'.rawVolume = f.rawVolume
  mode : f'.mode = f.mode
  dirty : f'.dirty = f.dirty
  entry : f'.entry = { f.entry with size := f'.entry.size }

theorem LoopFile.refl (f : FileInfo) : LoopFile f f := ⟨rfl, rfl, rfl, rfl, rfl⟩
theorem LoopFile.trans {a b c : FileInfo} (h1 : LoopFile a b) (h2 : LoopFile b c) : LoopFile a c :=
  ⟨h2.rawFile.trans h1.rawFile, h2.rawVolume.trans h1.rawVolume, h2.mode.trans h1.mode, h2.dirty.trans h1.dirty,
   by rw [h2.entry, h1.entry]⟩
theorem LoopFile.cluster {f f' : FileInfo} (h : LoopFile f f') : f'.entry.cluster = f.entry.cluster := by rw [h.entry]

/-- The manager-level standing hypothesis of `Props/C01Read.lean`. -/
abbrev MOK (s : Mgr) : Prop := ReadRefines.MgrOK s

/-- The invariant of the loop of `write`: slot `i` holds the record `f` of a file that owns the
non-empty chain `cs` on the volume in slot `vi`; the chains `A ++ [cs] ++ B` are all the chains of
the volume. -/
structure WInv (i vi : Nat) (A B : List (List Nat)) (s : Mgr) (f : FileInfo) (v : VolInfo) (cs : List Nat) : Prop where
  ok : MOK s
  file : s.files[i]? = some f
  vol : s.vols[vi]? = some v
  geom : WFGeom v.vol
  hint : HintOK v.vol
  fileOK : FileOK v.vol s.dev.disk f cs
  ne : cs ≠ []
  owns : Owns v.vol s.dev.disk (A ++ [cs] ++ B)

theorem WInv.chain {i vi : Nat} {A B : List (List Nat)} {s : Mgr} {f : FileInfo} {v : VolInfo} {cs : List Nat}
    (h : WInv i vi A B s f v cs) : Chain v.vol s.dev.disk f.entry.cluster cs := by
  rcases h.fileOK.chain with ⟨_, h1, _⟩ | h1
  · exact absurd h1 h.ne
  · exact h1

theorem WInv.cbpos {i vi : Nat} {A B : List (List Nat)} {s : Mgr} {f : FileInfo} {v : VolInfo} {cs : List Nat}
    (h : WInv i vi A B s f v cs) : 0 < clusterBytesLen v.vol := Nat.mul_pos h.geom.bpc_pos (by omega)

/-- `s'` is reached from `s` by storing `data` at the offset of `f`: the byte array of the file is
the old one with `data` written at the old position, the position has advanced by `data.length`,
the chain only grew, and only FAT blocks and blocks of the file's own clusters were written. -/
structure WProg (i vi : Nat) (s s' : Mgr) (f f' : FileInfo) (v v' : VolInfo) (cs cs' : List Nat) (data : Bytes) : Prop where
  step : WStep i vi s s' f' v'
  pre : cs <+: cs'
  geom : SameGeom v.vol v'.vol
  vid : v' = { v with vol := v'.vol }
  file : LoopFile f f'
  off : f'.currentOffset = f.currentOffset + data.length
  size : f'.entry.size = max f.entry.size (f.currentOffset + data.length)
  content : fileContent v.vol s'.dev.disk cs' f'.entry.size =
    splice (fileContent v.vol s.dev.disk cs f.entry.size) f.currentOffset data
  touch : Touch v.vol cs' s.dev s'.dev

theorem volInfo_vid_trans {v0 v1 v2 : VolInfo} (h1 : v1 = { v0 with vol := v1.vol }) (h2 : v2 = { v1 with vol := v2.vol }) :
    v2 = { v0 with vol := v2.vol } := by
  cases v0; cases v1; cases v2
  simp only [VolInfo.mk.injEq] at h1 h2 ⊢
  exact ⟨h2.1.trans h1.1, h2.2.1.trans h1.2.1, trivial⟩

theorem WProg.trans {i vi : Nat} {a b c : Mgr} {f0 f1 f2 : FileInfo} {v0 v1 v2 : VolInfo} {cs0 cs1 cs2 : List Nat}
    {d1 d2 : Bytes} (h1 : WProg i vi a b f0 f1 v0 v1 cs0 cs1 d1) (h2 : WProg i vi b c f1 f2 v1 v2 cs1 cs2 d2)
    (hb : BlocksOK a.dev.disk) (hok : FileOK v0.vol a.dev.disk f0 cs0) :
    WProg i vi a c f0 f2 v0 v2 cs0 cs2 (d1 ++ d2) := by
  have hlen : (fileContent v0.vol a.dev.disk cs0 f0.entry.size).length = f0.entry.size :=
    fileContent_length _ _ _ _ hb hok.size_fits
  refine ⟨h1.step.trans h2.step, h1.pre.trans h2.pre, h1.geom.trans h2.geom, volInfo_vid_trans h1.vid h2.vid,
    h1.file.trans h2.file, ?_, ?_, ?_, ?_⟩
  · rw [h2.off, h1.off, List.length_append]; omega
  · rw [h2.size, h1.size, h1.off, List.length_append]; omega
  · have := h2.content
    rw [sameGeom_fileContent h1.geom, sameGeom_fileContent h1.geom, h1.content, h1.off] at this
    rw [this, splice_splice _ _ _ _ (by rw [hlen]; exact hok.pos_le)]
  · exact (h1.touch.mono fun x hx => h2.pre.mem hx).trans (Touch.sameGeom h1.geom h2.touch)

/-! ### Locating the block -/

theorem fsOf_ro_eq (s : Mgr) (v : VolInfo) (fs1 : FS) (h : RO (fsOf s v) fs1) :
    fsOf { s with dev := fs1.dev, cache := fs1.cache } v = fs1 := by
  have := h.vol
  cases fs1
  simp only [fsOf] at this ⊢
  subst this
  rfl

theorem dropLast_append_last (cs : List Nat) (last : Nat) (h : cs[cs.length - 1]? = some last) :
    cs = cs.dropLast ++ [last] := by
  have hne : cs ≠ [] := by intro e; rw [e] at h; simp at h
  have := List.dropLast_concat_getLast hne
  rw [List.getLast_eq_getElem] at this
  have h2 : cs[cs.length - 1]'(by have := List.length_pos_iff.2 hne; omega) = last := by
    have := List.getElem?_eq_some_iff.1 h
    exact this.2
  rw [h2] at this
  exact this.symm

theorem mem_fatWriteLog {v : FatVolume} {c : Nat} {p : Block} {w : Nat × Block} (h : w ∈ fatWriteLog v c p) :
    w.1 ∈ fatWrites v c := by
  rw [← fatWriteLog_idx v c p, List.mem_reverse]
  exact List.mem_map.2 ⟨w, h, rfl⟩

/-- `locate` on a state satisfying the loop invariant: either the block holding the file's offset
is found — after appending a fresh cluster to the chain when the offset is at the chain's end —
or the volume is full and the call ends with `DiskFull`, nothing written. -/
theorem locate_spec (i vi : Nat) (A B : List (List Nat)) (s : Mgr) (f : FileInfo) (v : VolInfo) (cs : List Nat)
    (h : WInv i vi A B s f v cs) :
    (∃ c s1 v1 cs1,
      locate vi f s = (.ok ((f.currentOffset / clusterBytesLen v.vol * clusterBytesLen v.vol, c),
        (clusterToBlock v.vol c + f.currentOffset % clusterBytesLen v.vol / 512, f.currentOffset % 512,
          512 - f.currentOffset % 512)), s1) ∧
      WInv i vi A B s1 f v1 cs1 ∧ cs1[f.currentOffset / clusterBytesLen v.vol]? = some c ∧ cs <+: cs1 ∧
      SameGeom v.vol v1.vol ∧ v1 = { v with vol := v1.vol } ∧ WStep i vi s s1 f v1 ∧
      (∀ b, ¬ IsFatBlock v.vol b → s1.dev.disk.get b = s.dev.disk.get b) ∧
      (∃ new, s1.dev.wlog = new ++ s.dev.wlog ∧ ∀ w, w ∈ new → IsFatBlock v.vol w.1)) ∨
    (∃ s1, locate vi f s = (.err .DiskFull, s1) ∧ WInv i vi A B s1 f v cs ∧ WStep i vi s s1 f v ∧
      s1.dev.disk = s.dev.disk ∧ s1.dev.wlog = s.dev.wlog ∧ Full v.vol s.dev.disk) := by
  obtain ⟨hnf, hcoh, hblk, hunl⟩ := h.ok
  have hcb := h.cbpos
  have hn0 : NoFault (fsOf s v) := hnf
  have hc0 : Coherent (fsOf s v) := hcoh
  have hg : WFGeom (fsOf s v).vol := h.geom
  have hle : f.currentOffset ≤ cs.length * clusterBytesLen v.vol := Nat.le_trans h.fileOK.pos_le h.fileOK.size_fits
  by_cases hin : f.currentOffset < cs.length * clusterBytesLen v.vol
  · -- inside the chain
    left
    have hklt : f.currentOffset / clusterBytesLen v.vol < cs.length := (Nat.div_lt_iff_lt_mul hcb).2 hin
    obtain ⟨c, hk⟩ : ∃ c, cs[f.currentOffset / clusterBytesLen v.vol]? = some c := ⟨_, List.getElem?_eq_getElem hklt⟩
    obtain ⟨fs1, hfind, hro1⟩ := find_on_chain f cs (fsOf s v) f.currentOffset c hn0 hc0 hg h.fileOK hk
    simp only [fsOf_vol] at hfind
    have hfindM := withVol_ro vi (findDataOnDisk f.entry.cluster f.currentOffset (f.curClusterOff, f.curCluster)) s v h.vol
      (by rw [hfind]; exact hro1)
    rw [hfind] at hfindM
    refine ⟨c, { s with dev := fs1.dev, cache := fs1.cache }, v, cs, ?_, ?_, hk, List.prefix_refl _, SameGeom.refl _, rfl, ?_,
      fun b _ => by show fs1.dev.disk.get b = _; rw [hro1.disk]; rfl, [], hro1.wlog, fun _ hw => by cases hw⟩
    · show (M.attempt _ >>= _) s = _
      rw [MHoare.attempt_bind, hfindM]
      rfl
    · refine ⟨⟨hro1.faults.trans hnf, hro1.coherent hc0, ?_, hunl⟩, h.file, h.vol, h.geom, h.hint, ?_, h.ne, ?_⟩
      · intro j; show (fs1.dev.disk.get j).length = 512; rw [hro1.disk]; exact hblk j
      · show FileOK v.vol fs1.dev.disk f cs; rw [hro1.disk]; exact h.fileOK
      · show Owns v.vol fs1.dev.disk _; rw [hro1.disk]; exact h.owns
    · exact ⟨by
        show _ = ({ s with dev := fs1.dev, cache := fs1.cache, files := s.files.set i f, vols := s.vols.set vi v } : Mgr)
        rw [list_set_self _ _ _ h.file, list_set_self _ _ _ h.vol]⟩
  · -- at the end of the chain
    have hoff : f.currentOffset = cs.length * clusterBytesLen v.vol := by omega
    have hlenpos : 0 < cs.length := List.length_pos_iff.2 h.ne
    obtain ⟨last, hlast⟩ : ∃ last, cs[cs.length - 1]? = some last := ⟨_, List.getElem?_eq_getElem (by omega)⟩
    obtain ⟨fs1, hfind, hro1⟩ := find_at_chain_end f cs (fsOf s v) last hn0 hc0 hg h.fileOK hlast
    simp only [fsOf_vol] at hfind
    rw [← hoff] at hfind
    have hfindM := withVol_ro vi (findDataOnDisk f.entry.cluster f.currentOffset (f.curClusterOff, f.curCluster)) s v h.vol
      (by rw [hfind]; exact hro1)
    rw [hfind] at hfindM
    -- the state after the first `find_data_on_disk`
    generalize hs1 : ({ s with dev := fs1.dev, cache := fs1.cache } : Mgr) = s1 at hfindM
    have hfs1 : fsOf s1 v = fs1 := by rw [← hs1]; exact fsOf_ro_eq s v fs1 hro1
    have hv1 : s1.vols[vi]? = some v := by rw [← hs1]; exact h.vol
    have hn1 : NoFault fs1 := hro1.noFault hn0
    have hc1 : Coherent fs1 := hro1.coherent hc0
    have hvol1 : fs1.vol = v.vol := hro1.vol
    have hd1 : fs1.dev.disk = s.dev.disk := hro1.disk
    have hb1 : BlocksOK fs1.dev.disk := by intro j; rw [hd1]; exact hblk j
    have hready : Ready fs1 := ⟨hn1, hc1, hb1, by rw [hvol1]; exact h.geom, by rw [hvol1]; exact h.hint⟩
    have hcs : cs = cs.dropLast ++ [last] := dropLast_append_last cs last hlast
    have hown1 : Owns fs1.vol fs1.dev.disk (A ++ [cs.dropLast ++ [last]] ++ B) := by
      rw [hvol1, hd1, ← hcs]; exact h.owns
    have hallocM := withVol_run vi (allocCluster (some last) false) s1 v hv1
    rw [hfs1] at hallocM
    rcases ForestAlloc.alloc_total fs1 (some last) false hn1 hc1 with ⟨c, fs2, ha⟩ | ⟨fs2, ha, hd2, hv2, hn2, hc2⟩
    · -- a cluster was appended
      left
      obtain ⟨hready2, hown2, hsg, _, _⟩ := ForestStep.owns_extend fs1 fs2 A B cs.dropLast last false c hready hown1 ha
      rw [← hcs] at hown2
      have hlastU : isUsed fs1.vol fs1.dev.disk last := by
        have : last ∈ (A ++ [cs.dropLast ++ [last]] ++ B).flatten :=
          (mem_flatten3 _ _ _ last).2 (.inr (.inl (by rw [ForestStep.flatten_one]; exact List.mem_append_right _ (List.mem_singleton.2 rfl))))
        exact ForestStep.owns_mem_used hown1 this
      obtain ⟨_, _, _, _, _, _, hrc, _, _, _, _, _⟩ :=
        ForestAlloc.alloc_spec fs1 fs2 (some last) false c hn1 hc1 hb1 hready.geom hready.hint
          (fun q hq => by cases hq; exact ⟨hlastU.1.2, hlastU.2.1⟩) ha
      obtain ⟨_, _, _, _, _, hframe⟩ := DirFat.alloc_frame fs1 fs2 (some last) false c hn1 hc1 hb1 hready.geom hready.hint
        (fun q hq => by cases hq; exact hlastU.1.2) ha
      obtain ⟨sZ, s3, s4, ch⟩ := alloc_chain fs1 fs2 (some last) false c hn1 hc1 ha
      rw [ha] at hallocM
      simp only at hallocM
      generalize hv1def : ({ v with vol := fs2.vol } : VolInfo) = v1 at hallocM
      have hv1vol : v1.vol = fs2.vol := by rw [← hv1def]
      have hsg' : SameGeom v.vol v1.vol := by rw [hv1vol, ← hvol1]; exact hsg
      generalize hs2 : ({ s1 with dev := fs2.dev, cache := fs2.cache, vols := s1.vols.set vi v1 } : Mgr) = s2 at hallocM
      have hvilt : vi < s.vols.length := (List.getElem?_eq_some_iff.1 h.vol).1
      have hv2 : s2.vols[vi]? = some v1 := by
        rw [← hs2, ← hs1]; exact List.getElem?_set_self hvilt
      have hfs2 : fsOf s2 v1 = fs2 := by
        rw [← hs2]
        show ({ dev := fs2.dev, cache := fs2.cache, vol := v1.vol } : FS) = fs2
        rw [hv1vol]
      -- the second `find_data_on_disk`, from the cursor the first one left
      have hchain2 : Chain fs2.vol fs2.dev.disk f.entry.cluster (cs ++ [c]) := by
        have := hown2.1 (cs ++ [c]) (List.mem_append_left _ (List.mem_append_right _ (List.mem_singleton.2 rfl)))
        have hhd : (cs ++ [c]).headD 0 = f.entry.cluster := by
          rw [← chain_head_eq h.chain]
          cases hcse : cs with
          | nil => exact absurd hcse h.ne
          | cons a t => rfl
        rw [hhd] at this
        exact this
      have hcbeq : clusterBytesLen fs2.vol = clusterBytesLen v.vol := by
        rw [← hvol1]; exact sameGeom_clusterBytesLen hsg
      have hctb : ∀ x, clusterToBlock fs2.vol x = clusterToBlock v.vol x := by
        intro x; rw [← hvol1]; exact sameGeom_clusterToBlock hsg x
      have hok2 : ∀ (o k x : Nat), k < (cs ++ [c]).length → o = k * clusterBytesLen v.vol → (cs ++ [c])[k]? = some x →
          FileOK fs2.vol fs2.dev.disk { f with curClusterOff := o, curCluster := x } (cs ++ [c]) := by
        intro o k x hk1 hk2 hk3
        refine ⟨.inr hchain2, ?_, h.fileOK.pos_le, .inr ⟨k, hk1, by rw [hcbeq]; exact hk2, hk3⟩⟩
        rw [hcbeq, List.length_append, Nat.add_mul]
        exact Nat.le_trans h.fileOK.size_fits (Nat.le_add_right _ _)
      have hok2' := hok2 ((cs.length - 1) * clusterBytesLen v.vol) (cs.length - 1) last
        (by rw [List.length_append]; omega) rfl (by rw [List.getElem?_append_left (by omega)]; exact hlast)
      have hkc : (cs ++ [c])[f.currentOffset / clusterBytesLen fs2.vol]? = some c := by
        rw [hcbeq, hoff, Nat.mul_div_cancel _ hcb, List.getElem?_append_right (Nat.le_refl _), Nat.sub_self]
        rfl
      obtain ⟨fs3, hfind2, hro3⟩ := find_on_chain _ (cs ++ [c]) fs2 f.currentOffset c hready2.noFault hready2.coherent
        hready2.geom hok2' hkc
      have hfind2M := withVol_ro vi (findDataOnDisk f.entry.cluster f.currentOffset
        ((cs.length - 1) * clusterBytesLen v.vol, last)) s2 v1 hv2 (by rw [hfs2]; rw [hfind2]; exact hro3)
      rw [hfs2, hfind2] at hfind2M
      have hd2 : ∀ b, ¬ IsFatBlock v.vol b → fs2.dev.disk.get b = s.dev.disk.get b := by
        intro b hb
        rw [← hd1]
        refine hframe b (fun hm => hb ?_) (fun p hp hm => hb ?_) (fun hz => by cases hz.1)
        · exact isFatBlock_of_mem (by rw [← hvol1]; exact hrc.2) (by rw [← hvol1]; exact hm)
        · cases hp
          exact isFatBlock_of_mem (by rw [← hvol1]; exact hlastU.1.2) (by rw [← hvol1]; exact hm)
      refine ⟨c, { s2 with dev := fs3.dev, cache := fs3.cache }, v1, cs ++ [c], ?_, ?_, ?_, List.prefix_append _ _, hsg',
        by rw [← hv1def], ?_, ?_, ?_⟩
      · show (M.attempt _ >>= _) s = _
        rw [MHoare.attempt_bind, hfindM]
        show (M.attempt _ >>= _) s1 = _
        rw [MHoare.attempt_bind, hallocM]
        show (M.attempt _ >>= _) s2 = _
        rw [MHoare.attempt_bind, hfind2M, hcbeq]
        simp only [hctb]
        rfl
      · refine ⟨⟨hro3.faults.trans hready2.noFault, hro3.coherent hready2.coherent, ?_, ?_⟩, ?_, hv2, ?_, ?_, ?_,
          by simp, ?_⟩
        · intro j; show (fs3.dev.disk.get j).length = 512; rw [hro3.disk]; exact hready2.blocksOK j
        · rw [← hs2, ← hs1]; exact hunl
        · rw [← hs2, ← hs1]; exact h.file
        · rw [hv1vol]; exact hready2.geom
        · rw [hv1vol]; exact hready2.hint
        · show FileOK v1.vol fs3.dev.disk f (cs ++ [c])
          rw [hro3.disk, hv1vol]
          rcases h.fileOK.cursor with hnil | ⟨k0, hk0, hk0off, hk0c⟩
          · exact absurd hnil h.ne
          · have := hok2 f.curClusterOff k0 f.curCluster (by rw [List.length_append]; omega) hk0off
              (by rw [List.getElem?_append_left hk0]; exact hk0c)
            exact this
        · show Owns v1.vol fs3.dev.disk _
          rw [hro3.disk, hv1vol]; exact hown2
      · rw [← hcbeq]; exact hkc
      · refine ⟨?_⟩
        rw [← hs2, ← hs1]
        show _ = ({ s with dev := fs3.dev, cache := fs3.cache, files := s.files.set i f, vols := s.vols.set vi v1 } : Mgr)
        rw [list_set_self _ _ _ h.file]
      · intro b hb
        show fs3.dev.disk.get b = _
        rw [hro3.disk]; exact hd2 b hb
      · have hlink := ch.link
        simp only at hlink
        refine ⟨fatWriteLog fs1.vol last (fatPayload s3 last c) ++ fatWriteLog fs1.vol c (fatPayload sZ c Gen.CLUSTER_END_OF_FILE), ?_, ?_⟩
        · show fs3.dev.wlog = _
          rw [hro3.wlog, ch.wlog', hlink.1, ch.wlog3, ch.wlogZ, hro1.wlog]
          simp only [zeroLog, Bool.false_eq_true, if_false, List.nil_append, List.append_assoc]
          rfl
        · intro w hw
          rcases List.mem_append.1 hw with hw | hw
          · exact isFatBlock_of_mem (by rw [← hvol1]; exact hlastU.1.2) (by rw [← hvol1]; exact mem_fatWriteLog hw)
          · exact isFatBlock_of_mem (by rw [← hvol1]; exact hrc.2) (by rw [← hvol1]; exact mem_fatWriteLog hw)
    · -- the volume is full
      right
      rw [ha] at hallocM
      simp only at hallocM
      have hvself : ({ v with vol := fs2.vol } : VolInfo) = v := by rw [hv2, hvol1]
      rw [hvself, list_set_self _ _ _ hv1] at hallocM
      refine ⟨{ s1 with dev := fs2.dev, cache := fs2.cache }, ?_, ?_, ?_, ?_, ?_, ?_⟩
      · show (M.attempt _ >>= _) s = _
        rw [MHoare.attempt_bind, hfindM]
        show (M.attempt _ >>= _) s1 = _
        rw [MHoare.attempt_bind, hallocM]
        rfl
      · refine ⟨⟨hn2, hc2, ?_, ?_⟩, ?_, hv1, h.geom, h.hint, ?_, h.ne, ?_⟩
        · intro j; show (fs2.dev.disk.get j).length = 512; rw [hd2]; exact hb1 j
        · rw [← hs1]; exact hunl
        · rw [← hs1]; exact h.file
        · show FileOK v.vol fs2.dev.disk f cs; rw [hd2, hd1]; exact h.fileOK
        · show Owns v.vol fs2.dev.disk _; rw [hd2, hd1]; exact h.owns
      · refine ⟨?_⟩
        rw [← hs1]
        show _ = ({ s with dev := fs2.dev, cache := fs2.cache, files := s.files.set i f, vols := s.vols.set vi v } : Mgr)
        rw [list_set_self _ _ _ h.file, list_set_self _ _ _ h.vol]
      · show fs2.dev.disk = _; rw [hd2, hd1]
      · show fs2.dev.wlog = _
        have := (alloc_fails_if_full fs1 (some last) false hn1 hc1 hready.hint ?_).2
        · rw [ha] at this; rw [this, hro1.wlog]; rfl
        · intro c h2 hE hfree
          obtain ⟨c', fs', ha'⟩ := alloc_succeeds_if_free fs1 (some last) false hn1 hc1 hready.hint ⟨c, h2, hE, hfree⟩
          rw [ha] at ha'; cases ha'
      · intro c hc hfree
        obtain ⟨c', fs', ha'⟩ := alloc_succeeds_if_free fs1 (some last) false hn1 hc1 hready.hint
          ⟨c, hc.1, by rw [hvol1]; exact hc.2, by rw [hvol1, hd1]; exact hfree⟩
        rw [ha] at ha'; cases ha'

end Sdmmc.Lemmas.WriteRefines
