/-
Lemmas for C12, part 19 (end-to-end, continued): the specification card `Sdmmc.Spec.Card` one
byte at a time, in every state the driver meets it in — answering while a streaming read is
pending, signalling busy, waiting for a data token, receiving a data block — and the driver's
polling primitives (`read_byte`, `wait_not_busy`, the response and token loops, `transfer_bytes`)
run against it.  Generalises the `Quiet`-only lemmas of `SdCardSim`.
-/
import Sdmmc.Lemmas.SdCardSim

namespace Sdmmc.Lemmas.SdCardSim2
open Sdmmc.Model Sdmmc.Spec.Card Sdmmc.Model.Sd Sdmmc.Lemmas.Sd Sdmmc.Gen Sdmmc.Lemmas.SdCardSim

/-! ### Card states -/

/-- `true` unless the card is in the middle of receiving a data block. -/
def phaseListening : Phase → Bool
  | .recvData _ _ _ => false
  | _ => true

/-- The card listens for a token or a command: no partial command frame, and not in the middle
of a data block.  A 0xFF from the host changes nothing but what the card has queued. -/
def Listening (c : Card) : Prop := c.cmdBuf = [] ∧ phaseListening c.phase = true

def setBusy (c : Card) (k : Nat) : Card := { c with busyLeft := k }

@[simp] theorem setBusy_busyLeft (c : Card) (k) : (setBusy c k).busyLeft = k := rfl
@[simp] theorem setBusy_out (c : Card) (k) : (setBusy c k).out = c.out := rfl
@[simp] theorem setBusy_setBusy (c : Card) (k k') : setBusy (setBusy c k) k' = setBusy c k' := rfl
@[simp] theorem setOut_busyLeft (c : Card) (o) : (setOut c o).busyLeft = c.busyLeft := rfl
theorem setBusy_self (c : Card) (k) (h : c.busyLeft = k) : setBusy c k = c := by subst h; rfl

/-- The card after its last queued byte has gone out: a pending multiple-block read queues the
next block (or ends at the end of the card); otherwise nothing is queued any more. -/
def drain (c : Card) : Card :=
  match c.streaming with
  | some n => if n < c.capacity then { c with out := dataBlock c (getBlock c n), streaming := some (n + 1) }
              else { c with out := [], streaming := none }
  | none => { c with out := [] }

/-- The card after one queued byte has gone out, `rest` being what was queued behind it. -/
def popTo (c : Card) (rest : List UInt8) : Card :=
  match rest with
  | [] => drain c
  | _ :: _ => setOut c rest

@[simp] theorem drain_setOut (c : Card) (o) : drain (setOut c o) = drain c := by
  unfold drain setOut
  simp only
  cases c.streaming <;> simp only
  split <;> rfl

@[simp] theorem popTo_setOut (c : Card) (o rest) : popTo (setOut c o) rest = popTo c rest := by
  cases rest <;> simp [popTo]

theorem popTo_cons (c : Card) (b rest) : popTo c (b :: rest) = setOut c (b :: rest) := rfl

theorem popTo_ne_nil (c : Card) (rest) (h : rest ≠ []) : popTo c rest = setOut c rest := by
  cases rest with
  | nil => exact absurd rfl h
  | cons b r => rfl

theorem drain_none (c : Card) (h : c.streaming = none) : drain c = setOut c [] := by
  unfold drain
  split
  · next n hn => rw [h] at hn; cases hn
  · rfl

theorem Listening.setOut {c : Card} (h : Listening c) (o) : Listening (setOut c o) := h
theorem Listening.setBusy {c : Card} (h : Listening c) (k) : Listening (setBusy c k) := h
theorem Listening.drain {c : Card} (h : Listening c) : Listening (drain c) := by
  unfold SdCardSim2.drain
  cases c.streaming with
  | none => exact h
  | some n => simp only; split <;> exact h
theorem Listening.popTo {c : Card} (h : Listening c) (rest) : Listening (popTo c rest) := by
  cases rest with
  | nil => exact h.drain
  | cons b r => exact h
theorem Quiet.listening {c : Card} (h : Quiet c) : Listening c := ⟨h.cmdBuf, by rw [h.phase]; rfl⟩

/-! ### One 0xFF from the host -/

theorem step_ff_pop (c : Card) (hL : Listening c) (b : UInt8) (rest : List UInt8) (ho : c.out = b :: rest) :
    step c 0xFF = (popTo c rest, b) := by
  obtain ⟨h1, h2⟩ := hL
  rcases c with ⟨kind, mem, csd, cap, ncr, nac, busy, initPolls, idle, spiMode, crcOn, appCmd, cmd8Seen,
    initLeft, initialised, out, busyLeft, cmdBuf, phase, streaming, preErase, violations, commands⟩
  simp only at h1 h2 ho
  subst h1 ho
  cases phase with
  | recvData m n acc => simp [phaseListening] at h2
  | ready =>
    cases rest with
    | nil =>
      cases streaming with
      | none => simp [step, popTo, drain]
      | some v => by_cases hv : v < cap <;> simp [step, popTo, drain, hv, dataBlock, getBlock]
    | cons b' r => cases streaming <;> simp [step, popTo, setOut]
  | recvToken m n =>
    cases rest with
    | nil =>
      cases streaming with
      | none => simp [step, popTo, drain]
      | some v => by_cases hv : v < cap <;> simp [step, popTo, drain, hv, dataBlock, getBlock]
    | cons b' r => cases streaming <;> simp [step, popTo, setOut]

theorem step_ff_busy (c : Card) (hL : Listening c) (ho : c.out = []) (k : Nat) (hb : c.busyLeft = k + 1) :
    step c 0xFF = (setBusy c k, 0x00) := by
  obtain ⟨h1, h2⟩ := hL
  rcases c with ⟨kind, mem, csd, cap, ncr, nac, busy, initPolls, idle, spiMode, crcOn, appCmd, cmd8Seen,
    initLeft, initialised, out, busyLeft, cmdBuf, phase, streaming, preErase, violations, commands⟩
  simp only at h1 h2 ho hb
  subst h1 ho hb
  cases phase with
  | recvData m n acc => simp [phaseListening] at h2
  | ready => simp [step, setBusy]
  | recvToken m n => simp [step, setBusy]

theorem step_ff_idle (c : Card) (hL : Listening c) (ho : c.out = []) (hb : c.busyLeft = 0) :
    step c 0xFF = (c, 0xFF) := by
  obtain ⟨h1, h2⟩ := hL
  rcases c with ⟨kind, mem, csd, cap, ncr, nac, busy, initPolls, idle, spiMode, crcOn, appCmd, cmd8Seen,
    initLeft, initialised, out, busyLeft, cmdBuf, phase, streaming, preErase, violations, commands⟩
  simp only at h1 h2 ho hb
  subst h1 ho hb
  cases phase with
  | recvData m n acc => simp [phaseListening] at h2
  | ready => simp [step]
  | recvToken m n => simp [step]

/-- Clocking out as many 0xFF as the non-empty prefix `pre` of the queue is long. -/
theorem run_ff_pop : ∀ (pre : List UInt8) (c : Card), Listening c → ∀ (post : List UInt8),
    c.out = pre ++ post → pre ≠ [] →
    run c (List.replicate pre.length 0xFF) = (popTo c post, pre) := by
  intro pre
  induction pre with
  | nil => intro c _ post _ h; exact absurd rfl h
  | cons b pre ih =>
    intro c hL post ho _
    rw [List.length_cons, List.replicate_succ, run, step_ff_pop c hL b (pre ++ post) (by simpa using ho)]
    cases pre with
    | nil =>
      simp only [List.nil_append, List.length_nil, List.replicate_zero, run]
    | cons b' pre' =>
      simp only
      rw [List.cons_append, popTo_cons, ih (setOut c (b' :: (pre' ++ post))) (hL.setOut _) post (by simp) (by simp)]
      simp

/-! ### The driver's polling primitives -/

theorem readByte_pop (s : St Card) (hL : Listening s.bus) (b : UInt8) (rest : List UInt8)
    (ho : s.bus.out = b :: rest) :
    readByte cardBus s = (.ok b.toNat,
      { s with bus := popTo s.bus rest, events := .poll b.toNat :: s.events }) := by
  simp [readByte, cardBus, run, step_ff_pop s.bus hL b rest ho]

theorem readByte_busy (s : St Card) (hL : Listening s.bus) (ho : s.bus.out = []) (k : Nat)
    (hb : s.bus.busyLeft = k + 1) :
    readByte cardBus s = (.ok 0, { s with bus := setBusy s.bus k, events := .poll 0 :: s.events }) := by
  simp [readByte, cardBus, run, step_ff_busy s.bus hL ho k hb]

theorem readByte_idle (s : St Card) (hL : Listening s.bus) (ho : s.bus.out = []) (hb : s.bus.busyLeft = 0) :
    readByte cardBus s = (.ok 255, { s with events := .poll 255 :: s.events }) := by
  simp [readByte, cardBus, run, step_ff_idle s.bus hL ho hb]

theorem StAt.refl (s : St Card) : StAt s s.bus s := ⟨rfl, rfl, rfl, rfl⟩

/-- `wait_not_busy` against a card that is busy for at most `n` more bytes: it polls the busy
bytes away and sees the 0xFF. -/
theorem waitNotBusy_card2 (n : Nat) : ∀ (s : St Card), Listening s.bus → s.bus.out = [] → s.bus.busyLeft ≤ n →
    ∃ s', waitNotBusy cardBus n s = (.ok (), s') ∧ StAt s (setBusy s.bus 0) s' := by
  induction n with
  | zero =>
    intro s hL ho hb
    have hb0 : s.bus.busyLeft = 0 := by omega
    simp only [waitNotBusy, bind_apply, readByte_idle s hL ho hb0]
    exact ⟨_, rfl, by simp [StAt, setBusy_self _ _ hb0]⟩
  | succ n ih =>
    intro s hL ho hb
    cases hk : s.bus.busyLeft with
    | zero =>
      simp only [waitNotBusy, bind_apply, readByte_idle s hL ho hk]
      exact ⟨_, rfl, by simp [StAt, setBusy_self _ _ hk]⟩
    | succ k =>
      simp only [waitNotBusy, bind_apply, readByte_busy s hL ho k hk]
      obtain ⟨s', h1, h2⟩ := ih ⟨setBusy s.bus k, s.cardType, s.useCrc, s.acquireRetries,
        Event.poll 0 :: s.events, s.delays + 1⟩ (hL.setBusy _) ho (by simp; omega)
      exact ⟨s', h1, by simpa [StAt] using h2⟩

theorem waitResponse_card2 (cmd : Nat) (n : Nat) : ∀ (k : Nat) (s : St Card), Listening s.bus →
    ∀ (r : UInt8) (rest : List UInt8), s.bus.out = List.replicate k 0xFF ++ r :: rest →
    r.toNat / 128 % 2 = 0 → k ≤ n →
    ∃ s', waitResponse cardBus cmd n s = (.ok r.toNat, s') ∧ StAt s (popTo s.bus rest) s' := by
  induction n with
  | zero =>
    intro k s h r rest ho hr hk
    have : k = 0 := by omega
    subst this
    simp only [List.replicate_zero, List.nil_append] at ho
    simp only [waitResponse, bind_apply, readByte_pop s h r rest ho, hr, if_true]
    exact ⟨_, rfl, by simp [StAt]⟩
  | succ n ih =>
    intro k s h r rest ho hr hk
    cases k with
    | zero =>
      simp only [List.replicate_zero, List.nil_append] at ho
      simp only [waitResponse, bind_apply, readByte_pop s h r rest ho, hr, if_true]
      exact ⟨_, rfl, by simp [StAt]⟩
    | succ k =>
      rw [List.replicate_succ, List.cons_append] at ho
      have hff : (255 : UInt8).toNat / 128 % 2 = 0 ↔ False := by decide
      have hne : List.replicate k (255 : UInt8) ++ r :: rest ≠ [] := by simp
      simp only [waitResponse, bind_apply, readByte_pop s h 255 _ ho, popTo_ne_nil _ _ hne, hff, if_false,
        delayTick_card]
      obtain ⟨s', h1, h2⟩ := ih k ⟨setOut s.bus (List.replicate k 255 ++ r :: rest), s.cardType, s.useCrc,
        s.acquireRetries, Event.poll (UInt8.toNat 255) :: s.events, s.delays + 1⟩
        (h.setOut _) r rest (by simp) hr (by omega)
      exact ⟨s', h1, by simpa [StAt] using h2⟩

theorem waitToken_card2 (n : Nat) : ∀ (k : Nat) (s : St Card), Listening s.bus →
    ∀ (t : UInt8) (rest : List UInt8), s.bus.out = List.replicate k 0xFF ++ t :: rest →
    t.toNat ≠ 255 → k ≤ n →
    ∃ s', waitToken cardBus n s = (.ok t.toNat, s') ∧ StAt s (popTo s.bus rest) s' := by
  induction n with
  | zero =>
    intro k s h t rest ho ht hk
    have : k = 0 := by omega
    subst this
    simp only [List.replicate_zero, List.nil_append] at ho
    simp only [waitToken, bind_apply, readByte_pop s h t rest ho, ne_eq, ht, not_false_eq_true, if_true]
    exact ⟨_, rfl, by simp [StAt]⟩
  | succ n ih =>
    intro k s h t rest ho ht hk
    cases k with
    | zero =>
      simp only [List.replicate_zero, List.nil_append] at ho
      simp only [waitToken, bind_apply, readByte_pop s h t rest ho, ne_eq, ht, not_false_eq_true, if_true]
      exact ⟨_, rfl, by simp [StAt]⟩
    | succ k =>
      rw [List.replicate_succ, List.cons_append] at ho
      have hff : (255 : UInt8).toNat ≠ 255 ↔ False := by decide
      have hne : List.replicate k (255 : UInt8) ++ t :: rest ≠ [] := by simp
      simp only [waitToken, bind_apply, readByte_pop s h 255 _ ho, popTo_ne_nil _ _ hne, hff, if_false,
        delayTick_card]
      obtain ⟨s', h1, h2⟩ := ih k ⟨setOut s.bus (List.replicate k 255 ++ t :: rest), s.cardType, s.useCrc,
        s.acquireRetries, Event.poll (UInt8.toNat 255) :: s.events, s.delays + 1⟩
        (h.setOut _) t rest (by simp) ht (by omega)
      exact ⟨s', h1, by simpa [StAt] using h2⟩

/-- `transfer_bytes` of `pre.length` 0xFF: the card's queued bytes come back. -/
theorem xferEv_dataIn_card2 (s : St Card) (hL : Listening s.bus) (pre post : List UInt8)
    (ho : s.bus.out = pre ++ post) (hne : pre ≠ []) :
    ∃ s', xferEv cardBus (.dataIn pre.length) s = (.ok pre, s') ∧ StAt s (popTo s.bus post) s' := by
  simp only [xferEv, cardBus, Event.bytes, run_ff_pop pre s.bus hL post ho hne]
  exact ⟨_, rfl, by simp [StAt]⟩

/-- `read_data(len)` against a card that has a data block of `len` bytes queued (and possibly a
streaming read pending behind it): the payload, in either CRC mode. -/
theorem readData_card2 (s : St Card) (hL : Listening s.bus) (c0 : Card) (payload : List UInt8)
    (hlen : payload ≠ []) (hnac : c0.nac ≤ DEFAULT_READ_RETRIES)
    (hout : s.bus.out = dataBlock c0 payload) :
    ∃ s', readData cardBus payload.length s = (.ok payload, s') ∧ StAt s (drain s.bus) s' := by
  have hdb : dataBlock c0 payload = List.replicate c0.nac 0xFF ++ 0xFE ::
      (payload ++ [UInt8.ofNat (crc16Of payload / 256), UInt8.ofNat (crc16Of payload % 256)]) := by
    simp [dataBlock]
  obtain ⟨s1, h1, a1⟩ := waitToken_card2 DEFAULT_READ_RETRIES c0.nac s hL 0xFE _ (hout.trans hdb) (by decide) hnac
  rw [popTo_ne_nil _ _ (by simp)] at a1
  have hL1 : Listening s1.bus := by rw [a1.1]; exact hL.setOut _
  obtain ⟨s2, h2, a2⟩ := xferEv_dataIn_card2 s1 hL1 payload
    [UInt8.ofNat (crc16Of payload / 256), UInt8.ofNat (crc16Of payload % 256)] (by rw [a1.1]; rfl) hlen
  rw [popTo_ne_nil _ _ (by simp)] at a2
  have hL2 : Listening s2.bus := by rw [a2.1]; exact hL1.setOut _
  obtain ⟨s3, h3, a3⟩ := xferEv_dataIn_card2 s2 hL2
    [UInt8.ofNat (crc16Of payload / 256), UInt8.ofNat (crc16Of payload % 256)] [] (by rw [a2.1]; rfl) (by simp)
  have hfin : StAt s (drain s.bus) s3 := by
    refine (a1.trans a2).trans ?_
    have : popTo s2.bus [] = drain s.bus := by
      rw [a2.1, a1.1]; simp [popTo]
    rw [this] at a3; exact a3
  refine ⟨s3, ?_, hfin⟩
  unfold readData
  rw [bind_ok h1]
  simp only [show ¬ ((0xFE : UInt8).toNat ≠ DATA_START_BLOCK) from by decide, if_false]
  rw [bind_ok h2]
  simp only [List.length_cons, List.length_nil] at h3
  rw [bind_ok h3, bind_ok (get_apply s3)]
  have hck : (List.getD [UInt8.ofNat (crc16Of payload / 256), UInt8.ofNat (crc16Of payload % 256)] 0 0).toNat * 256 +
      (List.getD [UInt8.ofNat (crc16Of payload / 256), UInt8.ofNat (crc16Of payload % 256)] 1 0).toNat =
      crc16Nat payload := by
    simp only [List.getD_cons_zero, List.getD_cons_succ]
    exact crc_bytes_roundtrip _ (crc16Of_lt payload)
  split
  · rw [if_neg (by rw [hck]; simp)]; rfl
  · rfl

end Sdmmc.Lemmas.SdCardSim2
