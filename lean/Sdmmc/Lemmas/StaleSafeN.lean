/-
C16, last sentence, several open volumes — the multi-volume invariant `VolInvN` (`Spec/VolumeN.lean`) does not look at
the free-space record either: `volInvN_any_record`, `mirrorN_any_record` — replace, in volume record `i` (and in its
ghost), the free count by ANY value and the next-free hint by ANY value that is unknown or `≥ 2`: `VolInvN` and `MirrorN`
still hold.  With `Lemmas.StaleSafe.history_clean_multi`: `stale_record_never_panics_multi`.
Hypotheses: none beyond the invariant and `≥ 2` for a known hint (what mounting produces from any stored value).
-/
import Sdmmc.Lemmas.StaleSafe

namespace Sdmmc.Lemmas.StaleSafe
open Sdmmc.Model Sdmmc.Model.Fat Sdmmc.Spec.Volume
open Sdmmc.Spec hiding run step NoFault Coherent

/-- The record of a volume-table entry replaced. -/
def recVol (cnt hint : Option Nat) (vi : VolInfo) : VolInfo := { vi with vol := withRecord vi.vol cnt hint }
/-- … and of a ghost. -/
def recGhost (cnt hint : Option Nat) (gh : Ghost) : Ghost := { gh with vol := withRecord gh.vol cnt hint }

/-- The manager with the record of volume slot `i` replaced. -/
def mgrRecN (s : Mgr) (i : Nat) (cnt hint : Option Nat) : Mgr := { s with vols := s.vols.modify i (recVol cnt hint) }

theorem partDisjoint_congr {a a' b b' : FatVolume} (ha : SameGeom a a') (hb : SameGeom b b') (h : PartDisjoint a b) :
    PartDisjoint a' b' := by
  obtain ⟨_, _, rfl⟩ := ha
  obtain ⟨_, _, rfl⟩ := hb
  exact h

section
variable {s : Mgr} {ghs : List Ghost} {i : Nat} {cnt hint : Option Nat}

/-- What slot `j` of the new volume table holds. -/
theorem vols_modify_get {j : Nat} {z : VolInfo} (h : (mgrRecN s i cnt hint).vols[j]? = some z) :
    ∃ z0, s.vols[j]? = some z0 ∧ z = (if i = j then recVol cnt hint z0 else z0) := by
  have h : (s.vols.modify i (recVol cnt hint))[j]? = some z := h
  rw [List.getElem?_modify] at h
  cases h0 : s.vols[j]? with
  | none => rw [h0] at h; cases h
  | some z0 =>
    rw [h0] at h
    exact ⟨z0, rfl, (Option.some.inj h).symm⟩

theorem ghs_modify_get {j : Nat} {g : Ghost} (h : (ghs.modify i (recGhost cnt hint))[j]? = some g) :
    ∃ g0, ghs[j]? = some g0 ∧ g = (if i = j then recGhost cnt hint g0 else g0) := by
  rw [List.getElem?_modify] at h
  cases h0 : ghs[j]? with
  | none => rw [h0] at h; cases h
  | some g0 =>
    rw [h0] at h
    exact ⟨g0, rfl, (Option.some.inj h).symm⟩

theorem vols_modify_mem {z0 : VolInfo} (h : z0 ∈ s.vols) :
    ∃ z, z ∈ (mgrRecN s i cnt hint).vols ∧ z.rawVolume = z0.rawVolume := by
  obtain ⟨j, hj⟩ := List.mem_iff_getElem?.1 h
  refine ⟨if i = j then recVol cnt hint z0 else z0, List.mem_iff_getElem?.2 ⟨j, ?_⟩, by split <;> rfl⟩
  show (s.vols.modify i (recVol cnt hint))[j]? = _
  rw [List.getElem?_modify, hj]
  rfl

theorem pick_rawVolume (j : Nat) (z0 : VolInfo) : (if i = j then recVol cnt hint z0 else z0).rawVolume = z0.rawVolume := by
  split <;> rfl
theorem pick_sameGeom (j : Nat) (z0 : VolInfo) : SameGeom z0.vol (if i = j then recVol cnt hint z0 else z0).vol := by
  split
  · exact sameGeom_withRecord _ _ _
  · exact SameGeom.refl _

/-- **The multi-volume invariant with ANY count and ANY hint `≥ 2` in the record of volume slot `i`.** -/
theorem volInvN_any_record (hI : VolInvN s ghs) (i : Nat) (cnt hint : Option Nat) (hh : ∀ n, hint = some n → 2 ≤ n) :
    VolInvN (mgrRecN s i cnt hint) (ghs.modify i (recGhost cnt hint)) := by
  refine ⟨hI.noFault, hI.coherent, hI.unlocked, ?_, ?_, ?_, ?_, ?_, ?_, ?_, ?_, ?_⟩
  · show (ghs.modify i _).length = (s.vols.modify i _).length
    rw [List.length_modify, List.length_modify]; exact hI.len
  · intro j z g hz hg
    obtain ⟨z0, hz0, rfl⟩ := vols_modify_get hz
    obtain ⟨g0, hg0, rfl⟩ := ghs_modify_get hg
    have := hI.vols j z0 g0 hz0 hg0
    split
    · show withRecord z0.vol cnt hint = withRecord g0.vol cnt hint
      rw [this]
    · exact this
  · show ((s.vols.modify i (recVol cnt hint)).map fun vi => vi.rawVolume).Nodup
    rw [MHoare.map_modify_of_eq s.vols (fun vi => vi.rawVolume) i (recVol cnt hint) fun _ => rfl]; exact hI.handles
  · show ((s.vols.modify i (recVol cnt hint)).map fun vi => vi.idx).Nodup
    rw [MHoare.map_modify_of_eq s.vols (fun vi => vi.idx) i (recVol cnt hint) fun _ => rfl]; exact hI.indices
  · intro j k z w hz hw hjk
    obtain ⟨z0, hz0, rfl⟩ := vols_modify_get hz
    obtain ⟨w0, hw0, rfl⟩ := vols_modify_get hw
    exact partDisjoint_congr (pick_sameGeom j z0) (pick_sameGeom k w0) (hI.parts j k z0 w0 hz0 hw0 hjk)
  · intro j z g hz hg
    obtain ⟨z0, hz0, rfl⟩ := vols_modify_get hz
    obtain ⟨g0, hg0, rfl⟩ := ghs_modify_get hg
    have hm := hI.med j z0 g0 hz0 hg0
    have hf : volFiles (mgrRecN s i cnt hint) (if i = j then recVol cnt hint z0 else z0).rawVolume =
        volFiles s z0.rawVolume := by
      rw [pick_rawVolume]; rfl
    rw [hf]
    split
    · exact medInv_any_record hm cnt hint hh _
    · exact hm
  · intro f hf
    obtain ⟨z0, hz0, he⟩ := hI.fileVols f hf
    obtain ⟨z, hz, hr⟩ := vols_modify_mem (i := i) (cnt := cnt) (hint := hint) hz0
    exact ⟨z, hz, he.trans hr.symm⟩
  · intro di hdi j z g hz hg hr
    obtain ⟨z0, hz0, rfl⟩ := vols_modify_get hz
    obtain ⟨g0, hg0, rfl⟩ := ghs_modify_get hg
    rw [pick_rawVolume] at hr
    have := hI.openDirs di hdi j z0 g0 hz0 hg0 hr
    split
    · exact this
    · exact this
  · intro di hdi hno
    refine hI.inertDirs di hdi fun z0 hz0 => ?_
    obtain ⟨z, hz, hr⟩ := vols_modify_mem (i := i) (cnt := cnt) (hint := hint) hz0
    rw [← hr]
    exact hno z hz

/-- The agreement of the FAT copies of every open volume does not look at the record. -/
theorem mirrorN_any_record (hm : MirrorN s ghs) (i : Nat) (cnt hint : Option Nat) :
    MirrorN (mgrRecN s i cnt hint) (ghs.modify i (recGhost cnt hint)) := by
  intro g hg
  obtain ⟨j, hj⟩ := List.mem_iff_getElem?.1 hg
  obtain ⟨g0, hg0, rfl⟩ := ghs_modify_get hj
  have := hm g0 (List.mem_of_getElem? hg0)
  split
  · exact (mirror_any_record cnt hint).2 this
  · exact this

end

/-- **Several open volumes, ANY record in volume slot `i`**: every history answers only `Ok` / errors and keeps the
invariant after every prefix. -/
theorem stale_record_never_panics_multi {s : Mgr} {ghs : List Ghost} (hI : VolInvN s ghs) (hm : MirrorN s ghs) (i : Nat)
    (cnt hint : Option Nat) (hh : ∀ n, hint = some n → 2 ≤ n) (ops : List Op)
    (hc : Props.C03Multi.CoveredNRun (mgrRecN s i cnt hint) ops) (hf : Props.C01Multi.FreshRun (mgrRecN s i cnt hint) ops) :
    (∀ o, o ∈ (run (mgrRecN s i cnt hint) ops).2 → Clean o.result) ∧
    ∀ k, ∃ ghs', VolInvN (run (mgrRecN s i cnt hint) (ops.take k)).1 ghs' ∧
      MirrorN (run (mgrRecN s i cnt hint) (ops.take k)).1 ghs' :=
  history_clean_multi ops (volInvN_any_record hI i cnt hint hh) (mirrorN_any_record hm i cnt hint) hc hf

end Sdmmc.Lemmas.StaleSafe
