/-
The fill / delete / refill cycle without glue (C05), part 5 — deleting a closed file.

* `delete_med_x` (engine): `Lemmas.VolEng.delete_med` with the ghost, the accounting (`Gave`) and the
  slot lists afterwards made explicit;
* `delete_succeeds` (API): on a state satisfying the volume invariant, `delete_file_in_dir` of a name
  that designates a closed plain file answers `Ok`, and the above holds of the state it leaves.
-/
import Sdmmc.Lemmas.CycleNew
import Sdmmc.Lemmas.AcctAllBase
import Sdmmc.Lemmas.VolApiOpen

namespace Sdmmc.Lemmas.Cycle
open Sdmmc.Model Sdmmc.Model.Fat Sdmmc.Spec.Volume Sdmmc.Lemmas.VolBase Sdmmc.Lemmas.VolTree
open Sdmmc.Spec hiding NoFault Coherent
open Sdmmc.Lemmas.VolDisk Sdmmc.Lemmas.VolMed Sdmmc.Lemmas.VolEng Sdmmc.Lemmas.VolApi Sdmmc.Lemmas.VolWalk
open Sdmmc.Lemmas.FBasic (NoFault Coherent)
open Sdmmc.Lemmas.MHoare
open Sdmmc.Lemmas.AcctAll (Gave)

/-- **A file entry is deleted and its chain given back**, with everything explicit: the chain list
afterwards is the old one (`k = 0`, the entry had no cluster) or the old one without the chain of the
entry (`k` = its length); `k` clusters were given back; the directory's slot list is the old one with the
slot of the entry marked `0xE5`; every other directory's slot list is the same. -/
theorem delete_med_x {fs : FS} {files : List FileInfo} {gh : Ghost} (hM : MedX fs.vol fs.dev.disk files gh [])
    (hn : NoFault fs) (hc : Coherent fs) {dc : Nat} (hv : ValidDir gh.dirs dc)
    (name : Bytes) (hname : name.head? ≠ some 0xE5) {o : Slot}
    (ho : o ∈ objects (dirIdOf dc) (dirSlots fs.vol fs.dev.disk gh.G (dirIdOf dc)))
    (hod : isDirE o = false) (hsn : sName o = name) (hfree : pendOf files o = none) :
    ∃ fs' G' k pre post,
      (do Fat.deleteDirectoryEntry dc name; Fat.freeClusterChain (sCluster fs.vol.fatType o) : F Unit) fs = (.ok (), fs') ∧
      NoFault fs' ∧ Coherent fs' ∧ SameGeom fs.vol fs'.vol ∧
      MedX fs'.vol fs'.dev.disk files { vol := fs'.vol, G := G', dirs := gh.dirs } [] ∧
      Gave fs.vol fs'.vol fs.dev.disk fs'.dev.disk k ∧
      ((sCluster fs.vol.fatType o = 0 ∧ G' = gh.G ∧ k = 0) ∨
       (∃ A B tail, gh.G = A ++ (sCluster fs.vol.fatType o :: tail) :: B ∧ G' = A ++ B ∧ k = tail.length + 1)) ∧
      dirSlots fs.vol fs.dev.disk gh.G (dirIdOf dc) = pre ++ o :: post ∧ (∀ t, t ∈ pre → first t ≠ 0) ∧
      dirSlots fs'.vol fs'.dev.disk G' (dirIdOf dc) = pre ++ (o.1, o.2.1, o.2.2.set 0 (UInt8.ofNat 0xE5)) :: post ∧
      (∀ x, x ∈ dirIds gh.dirs → x ≠ dirIdOf dc →
        dirSlots fs'.vol fs'.dev.disk G' x = dirSlots fs.vol fs.dev.disk gh.G x) := by
  obtain ⟨hh, _⟩ := validDir_id hM hv
  obtain ⟨pre, post, hsp, hprenz, _, _, _⟩ := object_split hM hh ho
  obtain ⟨_, _, hsl1, hoth1⟩ := slot_mark hM hh hsp (UInt8.ofNat 0xE5)
  obtain ⟨fs1, hrun1, hd1, hv1, hn1, hc1⟩ := delete_mark hM hn hc hv name hname (mem_entries_of_objects ho) hsn
  have hmem : o ∈ dirSlots fs.vol fs.dev.disk gh.G (dirIdOf dc) := by rw [hsp]; simp
  have hgave1 : Gave fs.vol fs1.vol fs.dev.disk fs1.dev.disk 0 := by
    rw [hv1, hd1]
    exact AcctAll.gave_of_fat_eq (slot_write_fat hM hh hmem _)
  rcases mark_med hM hh ho hod hfree with ⟨hc0, hM1⟩ | ⟨A, B, tail, hGeq, hM1⟩
  · have hrun2 : freeClusterChain (sCluster fs.vol.fatType o) fs1 = (.ok (), fs1) := by
      rw [hc0]; rfl
    refine ⟨fs1, gh.G, 0, pre, post, ?_, hn1, hc1, SameGeom.of_eq hv1, ?_, hgave1, .inl ⟨hc0, rfl, rfl⟩, hsp, hprenz, ?_, ?_⟩
    · rw [FBasic.bind_ok hrun1, hrun2]
    · rw [hv1, hd1]; exact medX_of_ghost hM1 rfl rfl
    · rw [hv1, hd1]; exact hsl1
    · intro x hx hne
      rw [hv1, hd1]; exact hoth1 x hx hne
  · replace hM1 : MedX fs1.vol fs1.dev.disk files { vol := gh.vol, G := A ++ B, dirs := gh.dirs }
        [sCluster fs.vol.fatType o :: tail] := by rw [hd1, hv1]; exact hM1
    obtain ⟨fs2, hrun2, hn2, hc2, hsg2, hM2⟩ := free_unreferenced hM1 hn1 hc1
    have hmemX : (sCluster fs.vol.fatType o :: tail) ∈ (A ++ B) ++ [sCluster fs.vol.fatType o :: tail] :=
      List.mem_append_right _ (List.mem_singleton.2 rfl)
    have hch : Chain fs1.vol fs1.dev.disk (sCluster fs.vol.fatType o) (sCluster fs.vol.fatType o :: tail) :=
      hM1.owns.1 (sCluster fs.vol.fatType o :: tail) hmemX
    have hused : ∀ y, y ∈ sCluster fs.vol.fatType o :: tail → ¬ isFree fs1.vol fs1.dev.disk y := fun y hy =>
      (ForestStep.owns_mem_used hM1.owns (List.mem_flatten_of_mem hmemX hy)).2.1
    obtain ⟨fs2', hrun2', hgave2, hnonfat⟩ :=
      AcctAll.free_gave fs1 (sCluster fs.vol.fatType o) (sCluster fs.vol.fatType o :: tail) hn1 hc1 hM1.blocksOK hM1.geom hch hused
    have hfs : fs2' = fs2 := by
      have := hrun2'.symm.trans hrun2
      exact (Prod.mk.inj this).2
    subst hfs
    have hG := med_heads hM
    have hG0 : HeadsOK (A ++ (sCluster fs.vol.fatType o :: tail) :: B) := by rw [← hGeq]; exact hG
    have hc0 : sCluster fs.vol.fatType o ≠ 0 := by
      have := hG0.ge (sCluster fs.vol.fatType o :: tail) (by simp)
      simp only [List.headD_cons] at this
      omega
    have hec : effCluster fs.vol.fatType files o = sCluster fs.vol.fatType o := effCluster_of_none hfree
    -- the slot lists do not depend on the removed chain, nor on the FAT
    have hslots : ∀ x, x ∈ dirIds gh.dirs → dirSlots fs2'.vol fs2'.dev.disk (A ++ B) x =
        dirSlots fs.vol (fs.dev.disk.set o.1 ((fs.dev.disk.get o.1).set o.2.1 (UInt8.ofNat 0xE5))) gh.G x := by
      intro x hx
      rw [dirSlots_sameGeom hsg2, hv1]
      have h1 : dirSlots fs.vol fs2'.dev.disk (A ++ B) x = dirSlots fs.vol fs2'.dev.disk gh.G x := by
        by_cases hf : isFixedRoot fs.vol x
        · rw [dirSlots_fixed hf, dirSlots_fixed hf]
        · rw [dirSlots_chain hf, dirSlots_chain hf]
          congr 1
          rw [hGeq]
          apply chainOf_erase_other hG0
          have := dirHead_ne_fileRef hM hh ho hod (by rw [hec]; exact hc0) hx hf
          rw [hec] at this
          simpa using this
      rw [h1]
      apply dirSlots_congr
      intro sl hsl
      rw [← hd1]
      apply hnonfat
      rw [hv1]
      rcases dirSlot_not_fat hM hx hsl with h2 | h2 <;> rw [h2] <;> intro e <;> cases e
    refine ⟨fs2', A ++ B, tail.length + 1, pre, post, ?_, hn2, hc2, (SameGeom.of_eq hv1).trans hsg2, hM2, ?_,
      .inr ⟨A, B, tail, hGeq, rfl, rfl⟩, hsp, hprenz, ?_, ?_⟩
    · rw [FBasic.bind_ok hrun1, hrun2]
    · have := AcctAll.Gave.trans (SameGeom.of_eq hv1) hgave1 hgave2
      rw [Nat.zero_add] at this
      exact this
    · rw [hslots _ hh]; exact hsl1
    · intro x hx hne
      rw [hslots x hx]; exact hoth1 x hx hne

/-- **Deleting a closed file succeeds.**  `s` satisfies the volume invariant; the directory handle
resolves (record `d`), its volume is open, the name has the short form `sfn` (not starting with 0xE5);
`o` is a plain-file object of the directory with that name that no open file sits at.  Then
`delete_file_in_dir` answers `Ok`; the tables are the same except the volume record, which differs in its
bookkeeping fields at most; the invariant holds for the chain list `G'` — the old one, or the old one
without the chain of the entry —, `k` clusters were given back (`Gave`), and the directory's slot list is
the old one with the slot of `o` marked `0xE5`. -/
theorem delete_succeeds {s : Mgr} {gh : Ghost} (hI : VolInv s gh) (directory di : Nat) (name : List Nat) (d : DirInfo)
    (sfn : Bytes) (hdi : s.dirs.findIdx? (·.rawDirectory = directory) = some di) (hd : s.dirs[di]? = some d)
    (hvo : ∃ volIdx, s.vols.findIdx? (·.rawVolume = d.rawVolume) = some volIdx)
    (hsfn : Sfn.createFromStr name = .ok sfn) (hne5 : sfn.head? ≠ some 0xE5) {o : Slot}
    (ho : o ∈ objects (dirIdOf d.cluster) (dirSlots gh.vol s.dev.disk gh.G (dirIdOf d.cluster)))
    (hod : isDirE o = false) (hsn : sName o = sfn) (hfree : pendOf s.files o = none) :
    ∃ s' vi' G' k pre post, deleteFileInDir directory name s = (.ok (), s') ∧
      s'.files = s.files ∧ s'.dirs = s.dirs ∧ s'.nextId = s.nextId ∧ s'.maxFiles = s.maxFiles ∧ s'.vols = [vi'] ∧
      vi'.rawVolume = d.rawVolume ∧ SameGeom gh.vol vi'.vol ∧
      VolInv s' { vol := vi'.vol, G := G', dirs := gh.dirs } ∧
      Gave gh.vol vi'.vol s.dev.disk s'.dev.disk k ∧
      ((sCluster gh.vol.fatType o = 0 ∧ G' = gh.G ∧ k = 0) ∨
       (∃ A B tail, gh.G = A ++ (sCluster gh.vol.fatType o :: tail) :: B ∧ G' = A ++ B ∧ k = tail.length + 1)) ∧
      dirSlots gh.vol s.dev.disk gh.G (dirIdOf d.cluster) = pre ++ o :: post ∧ (∀ t, t ∈ pre → first t ≠ 0) ∧
      dirSlots vi'.vol s'.dev.disk G' (dirIdOf d.cluster) = pre ++ (o.1, o.2.1, o.2.2.set 0 (UInt8.ofNat 0xE5)) :: post ∧
      (∀ x, x ∈ dirIds gh.dirs → x ≠ dirIdOf d.cluster → dirSlots vi'.vol s'.dev.disk G' x = dirSlots gh.vol s.dev.disk gh.G x) := by
  obtain ⟨volIdx, hv⟩ := hvo
  obtain ⟨h0, vi, hvs, hvol, hraw⟩ := vol_of_handle hI hv
  subst h0
  have hdm : d ∈ s.dirs := List.mem_of_getElem? hd
  have hdv := hI.openDirs d hdm
  have hM0 := medX_of_med hI.med
  obtain ⟨hid, _⟩ := validDir_id hM0 hdv
  have hoe : o ∈ entries (dirSlots gh.vol s.dev.disk gh.G (dirIdOf d.cluster)) := mem_entries_of_objects ho
  unfold deleteFileInDir
  rw [bind_ok (getDirById_ok hdi), bind_ok (getDir_ok hd), bind_ok (getVolumeById_ok hv), bind_ok (Modes.toSfn_ok hsfn s)]
  obtain ⟨r0, fs', hlk, hdisk, hvol', h1, hcase⟩ := lookup_found hI hvs hvol hdv sfn hne5
  rw [bind_def, hlk]
  rcases hcase with ⟨_, hfresh⟩ | ⟨e, o', hr, hF⟩
  · exact absurd (List.mem_map.2 ⟨o, hoe, hsn⟩) hfresh
  subst hr
  simp only
  -- the entry found is `o`
  have hoo : o = o' := by
    have hm := hF.mem
    rw [hdisk] at hm
    exact (List.inj_on_of_nodup_map (hI.med.tree.names _ hid) hm hoe (hF.name.trans hsn.symm)).symm
  subst hoo
  obtain ⟨_, hea, _, heb, heo, hnd⟩ := hF.fields
  have hdir : Attr.isDirectory e.attributes = false := by
    rw [hea]
    exact hod
  obtain ⟨_, hcl⟩ := hnd hdir
  have hfiles1 : (afterVol s vi fs').files = s.files := rfl
  have hopen : fileIsOpen (afterVol s vi fs') d.rawVolume e = false := by
    cases hfo : fileIsOpen (afterVol s vi fs') d.rawVolume e with
    | false => rfl
    | true =>
      exfalso
      unfold fileIsOpen at hfo
      rw [List.any_eq_true] at hfo
      obtain ⟨g, hg, hgp⟩ := hfo
      simp only [decide_eq_true_eq] at hgp
      rw [hfiles1] at hg
      exact (pendOf_none_iff _ _).1 hfree g hg (Prod.ext (hgp.2.1.trans heb) (hgp.2.2.trans heo))
  rw [if_neg (by rw [hdir]; exact Bool.false_ne_true), get_bind, if_neg (by rw [hopen]; exact Bool.false_ne_true)]
  have hvols1 : (afterVol s vi fs').vols = [{ vi with vol := fs'.vol }] := rfl
  have hv1 : (afterVol s vi fs').vols.findIdx? (·.rawVolume = d.rawVolume) = some 0 := by
    rw [hvols1]; simp [hraw]
  rw [bind_ok (getVolumeById_ok hv1), withVol_one _ hvols1 hvol']
  obtain ⟨hn1, hc1, hM1⟩ := volInv_fs h1
  have hdisk1 : (fsOf (afterVol s vi fs') gh).dev.disk = s.dev.disk := hdisk
  have ho1 : o ∈ objects (dirIdOf d.cluster)
      (dirSlots (fsOf (afterVol s vi fs') gh).vol (fsOf (afterVol s vi fs') gh).dev.disk gh.G (dirIdOf d.cluster)) := by
    rw [hdisk1]; exact ho
  obtain ⟨fs2, G', k, pre, post, hrun2, hn2, hc2, hsg2, hM2, hgave, hcase2, hsp, hprenz, hsl, hoth⟩ :=
    delete_med_x hM1 hn1 hc1 hdv sfn hne5 ho1 hod hsn (by rw [hfiles1]; exact hfree)
  rw [hcl]
  have hrun2' : (do Fat.deleteDirectoryEntry d.cluster sfn; Fat.freeClusterChain (sCluster gh.vol.fatType o) : F Unit)
      (fsOf (afterVol s vi fs') gh) = (.ok (), fs2) := hrun2
  rw [hrun2']
  rw [hdisk1] at hgave hsp hoth
  have hI2 := volInv_afterVol (gh' := { vol := fs2.vol, G := G', dirs := gh.dirs }) h1 hvols1 hn2 hc2 rfl hM2 (fun _ h => h)
  exact ⟨_, { vi with vol := fs2.vol }, G', k, pre, post, rfl, rfl, rfl, rfl, rfl, rfl, hraw, hsg2, hI2, hgave, hcase2, hsp, hprenz, hsl, hoth⟩

end Sdmmc.Lemmas.Cycle
