/-
Lemmas for C14, part 17: the identification sequence — the order of the commands of `acquire`,
and that data commands are only sent to an identified card.
-/
import Sdmmc.Lemmas.SdCmdSeq
import Sdmmc.Lemmas.SdKeeps

namespace Sdmmc.Lemmas.Sd
open Sdmmc.Model Sdmmc.Model.Sd Sdmmc.Gen

variable {σ : Type} {α β : Type} (B : BusOps σ)

/-- The command indices of a log, in order.  Same body as `Sdmmc.Props.C14.cmdIdxs`. -/
def cmdIdxs (evs : List Event) : List Nat :=
  evs.filterMap fun e => match e with
    | .cmd f => some (cmdIdx f)
    | _ => none

@[simp] theorem cmdIdxs_nil : cmdIdxs [] = [] := rfl
@[simp] theorem cmdIdxs_append (a b : List Event) : cmdIdxs (a ++ b) = cmdIdxs a ++ cmdIdxs b := by
  simp [cmdIdxs]
@[simp] theorem cmdIdxs_cons_cmd (f : Bytes) (l : List Event) : cmdIdxs (.cmd f :: l) = cmdIdx f :: cmdIdxs l := by
  simp [cmdIdxs]

theorem cmdIdxs_polls {evs : List Event} (h : AllPolls evs) : cmdIdxs evs = [] := by
  simp only [cmdIdxs, List.filterMap_eq_nil_iff]
  intro e he
  have := h e he
  cases e <;> simp_all [isPoll]

theorem cmdIdxs_nocmds {evs : List Event} (h : NoCmds evs) : cmdIdxs evs = [] := by
  simp only [cmdIdxs, List.filterMap_eq_nil_iff]
  intro e he
  cases e with
  | cmd f =>
    have : Event.cmd f ∈ cmdEvs evs := by simp [cmdEvs, he, isCmdEv]
    rw [h] at this; simp at this
  | _ => rfl

theorem cmdIdxs_cmdChunk {c arg : Nat} {r : SRes Nat} {evs : List Event} (hc : c < 64)
    (h : CmdChunk c arg r evs) : cmdIdxs evs = [c] ∨ (cmdIdxs evs = [] ∧ ∃ e, r = .err e) := by
  rcases h with ⟨pre, post, h1, h2, rfl, _⟩ | ⟨h1, _, _, he⟩
  · left; simp [cmdIdxs_polls h1, cmdIdxs_polls h2, cmdIdx_frame c arg hc]
  · right; exact ⟨cmdIdxs_polls h1, he⟩

/-- All command frames in the chunk have index `c`. -/
def OnlyCmd (c : Nat) (evs : List Event) : Prop := ∀ f, Event.cmd f ∈ evs → cmdIdx f = c

instance (c : Nat) : Local (OnlyCmd c) where
  nil := by simp [OnlyCmd]
  single e he := by intro f hf; simp at hf; exact absurd hf.symm (he f)
  append a b ha hb := by
    intro f hf
    rcases List.mem_append.mp hf with h | h
    · exact ha f h
    · exact hb f h

theorem onlyCmd_idxs {c : Nat} {evs : List Event} (h : OnlyCmd c evs) :
    cmdIdxs evs = List.replicate (cmdIdxs evs).length c := by
  rw [List.eq_replicate_iff]
  refine ⟨rfl, fun x hx => ?_⟩
  simp only [cmdIdxs, List.mem_filterMap] at hx
  obtain ⟨e, he, hx⟩ := hx
  cases e with
  | cmd f => simp at hx; rw [← hx]; exact h f he
  | _ => simp at hx

theorem cardCommand_onlyCmd (c arg : Nat) (hc : c < 64) : Emits (OnlyCmd c) (cardCommand B c arg) :=
  (cardCommand_tr B c arg).conseq fun _ _ ⟨h, _⟩ => by
    intro f hf
    obtain ⟨pre, post, he⟩ := List.append_of_mem hf
    rw [(cmdChunk_split h he).1, cmdIdx_frame c arg hc]

/-! ### The five stages of `acquire`'s closure -/

/-- Stage 1, the CMD0 loop: one or more CMD0, nothing else. -/
theorem enterSpiMode_idxs (n : Nat) :
    Tr (enterSpiMode B n) (fun _ evs => ∃ k, 1 ≤ k ∧ cmdIdxs evs = List.replicate k 0) := by
  have h0 : Emits (OnlyCmd 0) (enterSpiMode B n) :=
    enterSpiMode_emits' B (fun a => cardCommand_onlyCmd B CMD0 a (by decide)) n
  have hfirst : Tr (enterSpiMode B n) (fun _ evs => ∃ f, Event.cmd f ∈ evs) := by
    have hstep : ∀ next : Option (S σ Unit), (∀ k, next = some k → Emits (fun _ => True) k) →
        Tr (enterSpiModeStep B next) (fun _ evs => ∃ f, Event.cmd f ∈ evs) := by
      intro next hn
      unfold enterSpiModeStep
      refine (Tr.bind (Tr.attempt (cardCommand_tr B CMD0 0)) fun r =>
        (?_ : Emits (fun _ => True) _)).conseq ?_
      · cases next with
        | none => emits [flushBytes_emits B _]
        | some k => have := hn k rfl; emits [flushBytes_emits B _, delayTick_emits B, this]
      · rintro r evs (⟨_, e1, e2, rfl, ⟨_, h0, h1, _⟩, _⟩ | ⟨e, rfl, _, h, _⟩ | ⟨p, rfl, _, h, _⟩)
        · rcases h1 with ⟨pre, post, _, _, rfl, _⟩ | ⟨_, hne, _⟩
          · exact ⟨frame CMD0 0, by simp⟩
          · exact absurd rfl hne
        · cases h
        · cases h
    have hany : ∀ n, Emits (fun _ => True) (enterSpiMode B n) := fun n =>
      enterSpiMode_emits' B (fun a => (cardCommand_tr B CMD0 a).conseq fun _ _ _ => trivial) n
    cases n with
    | zero => unfold enterSpiMode; exact hstep none (by simp)
    | succ n => unfold enterSpiMode; exact hstep _ (fun k hk => by cases hk; exact hany n)
  refine (Tr.and h0 hfirst).conseq ?_
  rintro r evs ⟨h1, f, hf⟩
  refine ⟨(cmdIdxs evs).length, ?_, onlyCmd_idxs h1⟩
  obtain ⟨pre, post, rfl⟩ := List.append_of_mem hf
  simp; omega

/-- Stage 2, the optional CMD59. -/
theorem crcStage_idxs (u : Bool) : Tr (if u = true then (do
      let r ← cardCommand B CMD59 1
      if r ≠ R1_IDLE_STATE then S.fail SdErr.CantEnableCRC else pure ()) else pure ())
    (fun r evs => (cmdIdxs evs = [] ∨ cmdIdxs evs = [59]) ∧
      ((∃ a, r = .ok a) → cmdIdxs evs = if u = true then [59] else [])) := by
  split
  · refine (Tr.bind (cardCommand_tr B CMD59 1) fun r =>
      Tr.ite (c := r ≠ R1_IDLE_STATE) (fun _ => Tr.fail SdErr.CantEnableCRC) (fun _ => Tr.pure ())).conseq ?_
    rintro r evs (⟨a, e1, e2, rfl, ⟨h1, _⟩, h2⟩ | ⟨e, rfl, h, _⟩ | ⟨p, rfl, _, h⟩)
    · have he2 : e2 = [] := by rcases h2 with ⟨_, _, h⟩ | ⟨_, _, h⟩ <;> exact h
      subst he2
      rcases cmdIdxs_cmdChunk (by decide) h1 with h | ⟨_, e, he⟩
      · simp [h, CMD59]
      · cases he
    · rcases cmdIdxs_cmdChunk (by decide) h with h | ⟨h, _⟩
      · exact ⟨Or.inr (by simp [h, CMD59]), fun ⟨_, hr⟩ => by cases hr⟩
      · exact ⟨Or.inl h, fun ⟨_, hr⟩ => by cases hr⟩
    · exact absurd rfl (h p)
  · exact (Tr.pure ()).conseq fun r evs h => by simp [h.2]

/-- Stage 3, the CMD8 loop: only CMD8, and at least one when it succeeds. -/
theorem checkVersion_idxs (n : Nat) :
    Tr (checkVersion B n) (fun r evs => ∃ k, cmdIdxs evs = List.replicate k 8 ∧ ((∃ a, r = .ok a) → 1 ≤ k)) := by
  have h8 : Emits (OnlyCmd 8) (checkVersion B n) :=
    checkVersion_emits' B (fun a => cardCommand_onlyCmd B CMD8 a (by decide)) n
  have hfirst : Tr (checkVersion B n) (fun r evs => (∃ a, r = .ok a) → ∃ f, Event.cmd f ∈ evs) := by
    have hstep : ∀ next : Option (S σ (CardType × Nat)), (∀ k, next = some k → Emits (fun _ => True) k) →
        Tr (checkVersionStep B next) (fun r evs => (∃ a, r = .ok a) → ∃ f, Event.cmd f ∈ evs) := by
      intro next hn
      unfold checkVersionStep
      refine (Tr.bind (cardCommand_tr B CMD8 0x1AA) fun r => (?_ : Emits (fun _ => True) _)).conseq ?_
      · cases next with
        | none => emits [xferEv_emits B (.dataIn _) (by simp)]
        | some k => have := hn k rfl; emits [xferEv_emits B (.dataIn _) (by simp), delayTick_emits B, this]
      · rintro r evs (⟨_, e1, e2, rfl, ⟨h1, _⟩, _⟩ | ⟨e, rfl, _⟩ | ⟨p, rfl, _⟩)
        · intro _
          rcases h1 with ⟨pre, post, _, _, rfl, _⟩ | ⟨_, _, _, e, he⟩
          · exact ⟨frame CMD8 0x1AA, by simp⟩
          · cases he
        · rintro ⟨_, hr⟩; cases hr
        · rintro ⟨_, hr⟩; cases hr
    have hany : ∀ n, Emits (fun _ => True) (checkVersion B n) := fun n =>
      checkVersion_emits' B (fun a => (cardCommand_tr B CMD8 a).conseq fun _ _ _ => trivial) n
    cases n with
    | zero => unfold checkVersion; exact hstep none (by simp)
    | succ n => unfold checkVersion; exact hstep _ (fun k hk => by cases hk; exact hany n)
  refine (Tr.and h8 hfirst).conseq ?_
  rintro r evs ⟨h1, h2⟩
  refine ⟨(cmdIdxs evs).length, onlyCmd_idxs h1, fun hr => ?_⟩
  obtain ⟨f, hf⟩ := h2 hr
  obtain ⟨pre, post, rfl⟩ := List.append_of_mem hf
  simp; omega

/-- `k` times (CMD55, ACMD41).  Same body as `Sdmmc.Props.C14.pairs`. -/
def pairs (k : Nat) : List Nat := (List.replicate k [55, 41]).flatten

theorem pairs_succ (k : Nat) : pairs (k + 1) = [55, 41] ++ pairs k := by
  simp [pairs, List.replicate_succ]

theorem cardAcmd41_idxs (arg : Nat) : Tr (cardAcmd B ACMD41 arg)
    (fun r evs => cmdIdxs evs = [55, 41] ∨ ((cmdIdxs evs = [] ∨ cmdIdxs evs = [55]) ∧ ∃ e, r = .err e)) :=
  (cardAcmd_tr B ACMD41 arg).conseq fun r evs ⟨h, _⟩ => by
    rcases h with ⟨r1, e1, e2, rfl, h1, h2⟩ | ⟨he, r1, h1⟩
    · rcases cmdIdxs_cmdChunk (by decide) h1 with k1 | ⟨_, e, he⟩
      · rcases cmdIdxs_cmdChunk (by decide) h2 with k2 | ⟨k2, he⟩
        · left; simp [k1, k2, CMD55, ACMD41]
        · right; exact ⟨Or.inr (by simp [k1, k2, CMD55]), he⟩
      · cases he
    · rcases cmdIdxs_cmdChunk (by decide) h1 with k1 | ⟨k1, _⟩
      · right; exact ⟨Or.inr (by simp [k1, CMD55]), he⟩
      · right; exact ⟨Or.inl k1, he⟩

/-- What the ACMD41 loop sends: pairs (CMD55, ACMD41), possibly a dangling CMD55 when it fails;
at least one complete pair and nothing dangling when it succeeds. -/
def ReadyIdxs {α : Type} (r : SRes α) (evs : List Event) : Prop :=
  ∃ k t, cmdIdxs evs = pairs k ++ t ∧ (t = [] ∨ t = [55]) ∧ ((∃ a, r = .ok a) → 1 ≤ k ∧ t = [])

theorem waitReadyStep_idxs (arg : Nat) (next : Option (S σ Unit)) (hn : ∀ k, next = some k → Tr k ReadyIdxs) :
    Tr (waitReadyStep B arg next) ReadyIdxs := by
  have hnext : Tr (match next with
      | none => S.fail (SdErr.TimeoutACommand ACMD41)
      | some k => do delayTick B; k)
      (fun r evs => ∃ k t, cmdIdxs evs = pairs k ++ t ∧ (t = [] ∨ t = [55]) ∧ ((∃ a, r = .ok a) → t = [])) := by
    cases next with
    | none => exact (Tr.fail _).conseq fun r evs h => ⟨0, [], by simp [h.2, pairs], Or.inl rfl, fun _ => rfl⟩
    | some k =>
      refine (Tr.bind (delayTick_tr B) fun _ => hn k rfl).conseq ?_
      rintro r evs (⟨_, e1, e2, rfl, ⟨_, rfl⟩, k, t, h1, h2, h3⟩ | ⟨e, rfl, h, _⟩ | ⟨p, rfl, h, _⟩)
      · exact ⟨k, t, by simpa using h1, h2, fun hr => (h3 hr).2⟩
      · cases h
      · cases h
  unfold waitReadyStep
  refine (Tr.bind (cardAcmd41_idxs B arg) fun r => Tr.ite (c := r = R1_READY_STATE)
    (fun _ => Tr.pure ()) (fun _ => hnext)).conseq ?_
  rintro r evs (⟨a, e1, e2, rfl, h1, h2⟩ | ⟨e, rfl, h⟩ | ⟨p, rfl, h⟩)
  · rcases h1 with h1 | ⟨_, e, he⟩
    · rcases h2 with ⟨_, rfl, rfl⟩ | ⟨_, k, t, g1, g2, g3⟩
      · exact ⟨1, [], by simp [h1, pairs], Or.inl rfl, fun _ => ⟨Nat.le_refl _, rfl⟩⟩
      · exact ⟨k + 1, t, by rw [cmdIdxs_append, h1, g1, pairs_succ]; simp, g2,
          fun hr => ⟨by omega, g3 hr⟩⟩
    · cases he
  · rcases h with h | ⟨h | h, _⟩
    · exact ⟨1, [], by simp [h, pairs], Or.inl rfl, fun ⟨_, hr⟩ => by cases hr⟩
    · exact ⟨0, [], by simp [h, pairs], Or.inl rfl, fun ⟨_, hr⟩ => by cases hr⟩
    · exact ⟨0, [55], by simp [h, pairs], Or.inr rfl, fun ⟨_, hr⟩ => by cases hr⟩
  · rcases h with h | ⟨_, e, he⟩
    · exact ⟨1, [], by simp [h, pairs], Or.inl rfl, fun ⟨_, hr⟩ => by cases hr⟩
    · cases he

/-- Stage 4, the ACMD41 loop. -/
theorem waitReady_idxs (arg n : Nat) : Tr (waitReady B arg n) ReadyIdxs := by
  induction n with
  | zero => unfold waitReady; exact waitReadyStep_idxs B arg none (by simp)
  | succ n ih =>
    unfold waitReady
    exact waitReadyStep_idxs B arg _ (fun k hk => by cases hk; exact ih)

/-- Stage 5, the optional CMD58 (with its four OCR bytes). -/
theorem ocrStage_idxs (ct : CardType) : Tr (if ct = CardType.SD2 then (do
      let r ← cardCommand B CMD58 0
      if r ≠ 0 then S.fail SdErr.Cmd58Error else do
        let buf ← xferEv B (Event.dataIn 4)
        if (List.getD buf 0 0).toNat / 64 = 3 then pure CardType.SDHC else pure ct)
    else pure ct)
    (fun _ evs => cmdIdxs evs = [] ∨ cmdIdxs evs = [58]) := by
  split
  · have hrest : ∀ r : Nat, Emits NoCmds (if r ≠ 0 then (S.fail SdErr.Cmd58Error : S σ CardType) else do
        let buf ← xferEv B (Event.dataIn 4)
        if (List.getD buf 0 0).toNat / 64 = 3 then pure CardType.SDHC else pure ct) := by
      intro r
      emits [xferEv_emits B (.dataIn _) (by simp)]
    refine (Tr.bind (cardCommand_tr B CMD58 0) hrest).conseq ?_
    rintro r evs (⟨a, e1, e2, rfl, ⟨h1, _⟩, h2⟩ | ⟨e, rfl, h, _⟩ | ⟨p, rfl, _, h⟩)
    · rcases cmdIdxs_cmdChunk (by decide) h1 with k1 | ⟨_, e, he⟩
      · right; simp [k1, cmdIdxs_nocmds h2, CMD58]
      · cases he
    · rcases cmdIdxs_cmdChunk (by decide) h with k1 | ⟨k1, _⟩
      · right; simp [k1, CMD58]
      · left; exact k1
    · exact absurd rfl (h p)
  · exact (Tr.pure ct).conseq fun _ _ h => Or.inl (by simp [h.2])

/-! ### Putting the stages in order -/

/-- A set of index sequences. -/
abbrev Lang := List Nat → Prop

/-- Concatenation of languages.  Same body as `Sdmmc.Props.C14.cat`. -/
def cat (L M : Lang) : Lang := fun l => ∃ l1 l2, l = l1 ++ l2 ∧ L l1 ∧ M l2
/-- `c*` -/
def star (c : Nat) : Lang := fun l => ∃ k, l = List.replicate k c
/-- `c+` -/
def plus (c : Nat) : Lang := fun l => ∃ k, 1 ≤ k ∧ l = List.replicate k c
/-- exactly `l0` -/
def lit (l0 : List Nat) : Lang := fun l => l = l0
/-- `(l0)?` -/
def opt (l0 : List Nat) : Lang := fun l => l = [] ∨ l = l0
/-- `(55 41)+` -/
def pairsPlus : Lang := fun l => ∃ k, 1 ≤ k ∧ l = pairs k
/-- `(55 41)* (55)?` -/
def pairsDangling : Lang := fun l => ∃ k t, l = pairs k ++ t ∧ (t = [] ∨ t = [55])

theorem star_nil (c : Nat) : star c [] := ⟨0, rfl⟩
theorem opt_nil (l0 : List Nat) : opt l0 [] := Or.inl rfl
theorem pairsDangling_nil : pairsDangling [] := ⟨0, [], by simp [pairs], Or.inl rfl⟩
theorem cat_nil {L M : Lang} (hl : L []) (hm : M []) : cat L M [] := ⟨[], [], rfl, hl, hm⟩

/-- Weak language `W` for every run, strong language `S` for successful runs. -/
def IdxSpec {α : Type} (W S : Lang) (r : SRes α) (evs : List Event) : Prop :=
  W (cmdIdxs evs) ∧ ((∃ a, r = .ok a) → S (cmdIdxs evs))

theorem IdxSpec.bind {m : S σ α} {f : α → S σ β} {W1 S1 W2 S2 : Lang}
    (hm : Tr m (IdxSpec W1 S1)) (hf : ∀ a, Tr (f a) (IdxSpec W2 S2)) (h2 : W2 []) :
    Tr (m >>= f) (IdxSpec (cat W1 W2) (cat S1 S2)) :=
  (Tr.bind hm hf).conseq fun r evs h => by
    rcases h with ⟨a, e1, e2, rfl, h1, g1⟩ | ⟨e, rfl, h1⟩ | ⟨p, rfl, h1⟩
    · exact ⟨⟨_, _, cmdIdxs_append _ _, h1.1, g1.1⟩, fun hr => ⟨_, _, cmdIdxs_append _ _, h1.2 ⟨a, rfl⟩, g1.2 hr⟩⟩
    · exact ⟨⟨_, [], by simp, h1.1, h2⟩, fun ⟨_, hr⟩ => by cases hr⟩
    · exact ⟨⟨_, [], by simp, h1.1, h2⟩, fun ⟨_, hr⟩ => by cases hr⟩

theorem IdxSpec.bind_silent {m : S σ α} {f : α → S σ β} {W S : Lang}
    (hm : Tr m (IdxSpec W S)) (hf : ∀ a, Tr (f a) (fun _ evs => cmdIdxs evs = [])) :
    Tr (m >>= f) (IdxSpec W S) :=
  (Tr.bind hm hf).conseq fun r evs h => by
    rcases h with ⟨a, e1, e2, rfl, h1, g1⟩ | ⟨e, rfl, h1⟩ | ⟨p, rfl, h1⟩
    · simp only [IdxSpec, cmdIdxs_append, g1, List.append_nil]; exact ⟨h1.1, fun _ => h1.2 ⟨a, rfl⟩⟩
    · exact ⟨h1.1, fun ⟨_, hr⟩ => by cases hr⟩
    · exact ⟨h1.1, fun ⟨_, hr⟩ => by cases hr⟩

/-- Every run of the identification sequence: `0+ (59)? 8* (55 41)* (55)? (58)?`.
Same body as `Sdmmc.Props.C14.IdentOrderWeak`. -/
def IdentOrderWeak : Lang :=
  cat (plus 0) (cat (opt [59]) (cat (star 8) (cat pairsDangling (opt [58]))))

/-- A successful identification sequence: `0+ 59 8+ (55 41)+ (58)?` with CRC on,
`0+ 8+ (55 41)+ (58)?` with CRC off.  Same body as `Sdmmc.Props.C14.IdentOrder`. -/
def IdentOrder (useCrc : Bool) : Lang :=
  cat (plus 0) (cat (lit (if useCrc = true then [59] else [])) (cat (plus 8) (cat pairsPlus (opt [58]))))

/-- `acquire`'s closure as a plain sequence of its five stages (the same function; the model's
`do` block nests the tail under the CMD59 branches). -/
theorem acquireBody_seq (s : St σ) : acquireBody B s = (do
    enterSpiMode B s.acquireRetries
    (if s.useCrc = true then (do
        let r ← cardCommand B CMD59 1
        if r ≠ R1_IDLE_STATE then S.fail SdErr.CantEnableCRC else pure ()) else pure ())
    let x ← checkVersion B DEFAULT_COMMAND_RETRIES
    waitReady B x.2 DEFAULT_COMMAND_RETRIES
    let ct ← (if x.1 = CardType.SD2 then (do
        let r ← cardCommand B CMD58 0
        if r ≠ 0 then S.fail SdErr.Cmd58Error else do
          let buf ← xferEv B (Event.dataIn 4)
          if (List.getD buf 0 0).toNat / 64 = 3 then pure CardType.SDHC else pure x.1)
      else pure x.1 : S σ CardType)
    setCardType ct) s := by
  rw [acquireBody_eq]
  simp only [bind_apply, get_apply]
  rcases enterSpiMode B s.acquireRetries s with ⟨r1, s1⟩
  cases r1 with
  | err e => rfl
  | panic p => rfl
  | ok u1 =>
    simp only []
    cases s.useCrc with
    | false => rfl
    | true =>
      simp only [if_true, bind_apply]
      rcases cardCommand B CMD59 1 s1 with ⟨r2, s2⟩
      cases r2 with
      | err e => rfl
      | panic p => rfl
      | ok g =>
        simp only []
        split <;> rfl

theorem acquireBody_order (s : St σ) :
    TrAt (acquireBody B) s (IdxSpec IdentOrderWeak (IdentOrder s.useCrc)) := by
  unfold TrAt
  rw [acquireBody_seq]
  have h1 : Tr (enterSpiMode B s.acquireRetries) (IdxSpec (plus 0) (plus 0)) :=
    (enterSpiMode_idxs B _).conseq fun _ _ h => ⟨h, fun _ => h⟩
  have h2 : Tr (if s.useCrc = true then (do
        let r ← cardCommand B CMD59 1
        if r ≠ R1_IDLE_STATE then S.fail SdErr.CantEnableCRC else pure ()) else pure ())
      (IdxSpec (opt [59]) (lit (if s.useCrc = true then [59] else []))) :=
    (crcStage_idxs B s.useCrc).conseq fun _ _ h => h
  have h3 : Tr (checkVersion B DEFAULT_COMMAND_RETRIES) (IdxSpec (star 8) (plus 8)) :=
    (checkVersion_idxs B _).conseq fun _ _ ⟨k, hk, hok⟩ => ⟨⟨k, hk⟩, fun hr => ⟨k, hok hr, hk⟩⟩
  have h4 : ∀ arg, Tr (waitReady B arg DEFAULT_COMMAND_RETRIES) (IdxSpec pairsDangling pairsPlus) := fun arg =>
    (waitReady_idxs B arg _).conseq fun _ _ ⟨k, t, hk, ht, hok⟩ =>
      ⟨⟨k, t, hk, ht⟩, fun hr => ⟨k, (hok hr).1, by rw [hk, (hok hr).2, List.append_nil]⟩⟩
  have h5 : ∀ ct, Tr (if ct = CardType.SD2 then (do
        let r ← cardCommand B CMD58 0
        if r ≠ 0 then S.fail SdErr.Cmd58Error else do
          let buf ← xferEv B (Event.dataIn 4)
          if (List.getD buf 0 0).toNat / 64 = 3 then pure CardType.SDHC else pure ct)
      else pure ct) (IdxSpec (opt [58]) (opt [58])) := fun ct =>
    (ocrStage_idxs B ct).conseq fun _ _ h => ⟨h, fun _ => h⟩
  have h6 : ∀ ct, Tr (setCardType ct : S σ Unit) (fun _ evs => cmdIdxs evs = []) := fun ct =>
    (setCardType_emits (Q := NoCmds) ct).conseq fun _ _ h => cmdIdxs_nocmds h
  have w5 : opt [58] [] := opt_nil _
  have w4 := cat_nil pairsDangling_nil w5
  have w3 := cat_nil (star_nil 8) w4
  have w2 := cat_nil (opt_nil [59]) w3
  exact IdxSpec.bind h1 (fun _ => IdxSpec.bind h2 (fun _ => IdxSpec.bind h3 (fun x =>
    IdxSpec.bind (h4 x.2) (fun _ => IdxSpec.bind_silent (h5 x.1) h6) w5) w4) w3) w2 s

/-! ### Data commands only after identification -/

/-- The commands of the identification sequence.  Same body as `Sdmmc.Props.C14.identCmds`. -/
def identCmds : List Nat := [0, 59, 8, 55, 41, 58]

/-- Only identification commands.  Same body as `Sdmmc.Props.C14.IdentOnly`. -/
def IdentOnly (evs : List Event) : Prop := ∀ f, Event.cmd f ∈ evs → cmdIdx f ∈ identCmds

instance : Local IdentOnly where
  nil := by simp [IdentOnly]
  single e he := by intro f hf; simp at hf; exact absurd hf.symm (he f)
  append a b ha hb := by
    intro f hf
    rcases List.mem_append.mp hf with h | h
    · exact ha f h
    · exact hb f h

theorem cardCommand_identOnly (c arg : Nat) (hc : c ∈ identCmds) : Emits IdentOnly (cardCommand B c arg) :=
  (cardCommand_onlyCmd B c arg (by simp [identCmds] at hc; omega)).conseq fun _ _ h f hf => by
    rw [h f hf]; exact hc

theorem cardAcmd41_identOnly (arg : Nat) : Emits IdentOnly (cardAcmd B ACMD41 arg) := by
  unfold cardAcmd
  exact Emits.bind (cardCommand_identOnly B _ _ (by decide)) fun _ => cardCommand_identOnly B _ _ (by decide)

theorem acquire_identOnly : Emits IdentOnly (acquire B) :=
  acquire_emits' B (fun a => cardCommand_identOnly B _ a (by decide)) (fun a => cardCommand_identOnly B _ a (by decide))
    (fun a => cardCommand_identOnly B _ a (by decide)) (cardAcmd41_identOnly B)
    (fun a => cardCommand_identOnly B _ a (by decide))

/-- The part of a call after `check_init`. -/
def opPart (B : BusOps σ) : Call → S σ Answer
  | .read n idx => do let bs ← Sd.read B n idx; pure (.blocks bs)
  | .write bs idx => do write B bs idx; pure .unit
  | .numBlocks => do let n ← numBlocks B; pure (.num n)
  | .numBytes => do let n ← numBytes B; pure (.num n)
  | .cardType => pure (.ctype none)
  | .markUninit => pure .unit

theorem call_eq_op (c : Call) (hc : c ≠ .cardType) (hm : c ≠ .markUninit) :
    call B c = (checkInit B >>= fun _ => opPart B c) := by
  cases c <;> first | rfl | contradiction

theorem opPart_any (c : Call) : Emits (fun _ => True) (opPart B c) := by
  have hc : ∀ c arg, c ∈ plainCmds → Emits (fun _ => True) (cardCommand B c arg) := fun c arg _ => cardCommand_any B c arg
  have ha : ∀ c arg, c = ACMD41 ∨ c = ACMD23 → Emits (fun _ => True) (cardAcmd B c arg) := fun c arg _ => cardAcmd_any B c arg
  cases c with
  | read n idx => unfold opPart; emits [read_emits B hc _ _]
  | write blocks idx => unfold opPart; emits [write_emits B hc ha _ _]
  | numBlocks => unfold opPart numBlocks; emits [readCsd_emits B hc]
  | numBytes => unfold opPart numBytes; emits [readCsd_emits B hc]
  | cardType => unfold opPart; emits []
  | markUninit => unfold opPart; emits []

/-- Data commands are only sent to an identified card: the events of a call split into the
events of `acquire` (identification commands only; present exactly when the card was marked
uninitialised) and the events of the operation proper, which are sent only if the card was
already initialised or that `acquire` succeeded. -/
theorem ident_before_data (c : Call) (s : St σ) :
    ∃ ea eo, evsNew s (call B c s).2 = ea ++ eo ∧ IdentOnly ea ∧
      (s.cardType.isSome → ea = []) ∧
      (s.cardType = none → c ≠ .markUninit →
        ea = evsNew s (acquire B s).2 ∧ (eo ≠ [] → (acquire B s).1 = .ok ())) := by
  by_cases hm : c = .markUninit
  · subst hm
    exact ⟨[], [], by simp [call, evsNew], Local.nil, fun _ => rfl, fun _ h => absurd rfl h⟩
  cases hct : s.cardType with
  | some ct =>
    have hci := checkInit_of_some B s (by simp [hct])
    refine ⟨[], evsNew s (call B c s).2, by simp, Local.nil, fun _ => rfl, (fun h => by cases h)⟩
  | none =>
    have hci := checkInit_of_none B s hct
    obtain ⟨ea, h1, _, _, h4⟩ := acquire_identOnly B s
    by_cases hc : c = .cardType
    · subst hc
      refine ⟨ea, [], ?_, h4, (fun h => by cases h), fun _ _ => ⟨(evsNew_of_eq h1).symm, fun h => absurd rfl h⟩⟩
      have : (call B .cardType s).2 = (acquire B s).2 := by
        unfold call
        simp only [bind_apply, attempt_apply, hci]
        rcases acquire B s with ⟨r, s1⟩
        cases r <;> rfl
      rw [this, evsNew_of_eq h1]; simp
    · rw [call_eq_op B c hc hm]
      rcases hacq : acquire B s with ⟨r, s1⟩
      rw [hacq] at h1
      simp only at h1
      cases r with
      | ok u =>
        obtain ⟨eo, g1, _⟩ := opPart_any B c s1
        refine ⟨ea, eo, ?_, h4, (fun h => by cases h), fun _ _ => ⟨(evsNew_of_eq h1).symm, fun _ => rfl⟩⟩
        rw [bind_ok (hci.trans hacq)]
        exact evsNew_of_eq (by rw [g1, h1]; simp)
      | err e =>
        refine ⟨ea, [], ?_, h4, (fun h => by cases h), fun _ _ => ⟨(evsNew_of_eq h1).symm, fun h => absurd rfl h⟩⟩
        rw [bind_err (hci.trans hacq)]
        simp [evsNew_of_eq h1]
      | panic p =>
        refine ⟨ea, [], ?_, h4, (fun h => by cases h), fun _ _ => ⟨(evsNew_of_eq h1).symm, fun h => absurd rfl h⟩⟩
        rw [bind_panic (hci.trans hacq)]
        simp [evsNew_of_eq h1]

/-- `acquire` succeeds only if its closure — the identification sequence — succeeded. -/
theorem acquire_ok_body_ok (s : St σ) (h : (acquire B s).1 = .ok ()) : (acquireBody B s).1 = .ok () := by
  revert h
  rw [acquire_eq]
  simp only [bind_apply, attempt_apply]
  rcases acquireBody B s with ⟨r1, s1⟩
  rcases readByte B s1 with ⟨t1, s2⟩
  cases r1 <;> cases t1 <;> simp

end Sdmmc.Lemmas.Sd
