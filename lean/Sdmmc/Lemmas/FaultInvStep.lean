/-
C11 under the invariant, part 15 (API): `make_dir_in_dir` under ANY fault schedule (`mkdir_fault_dirs`) and the
theorem for every call (`dirs_after_faulted_step`): from a state with the invariant, under ANY fault schedule, after
ANY covered call — whatever device call of it failed — the directories are sound on the medium.
-/
import Sdmmc.Lemmas.FaultInvMkdir
import Sdmmc.Lemmas.FaultInvOpen
import Sdmmc.Lemmas.FaultInvWrite
import Sdmmc.Lemmas.VolApiMkdir
import Sdmmc.Lemmas.FaultFrame

namespace Sdmmc.Lemmas.FaultInv
open Sdmmc.Model Sdmmc.Model.Fat Sdmmc.Spec.Volume Sdmmc.Lemmas.VolBase Sdmmc.Lemmas.VolTree
open Sdmmc.Spec hiding NoFault Coherent
open Sdmmc.Lemmas.VolDisk Sdmmc.Lemmas.VolMed Sdmmc.Lemmas.VolApi Sdmmc.Lemmas.VolEng
open Sdmmc.Lemmas.FBasic (NoFault Coherent)
open Sdmmc.Lemmas.CrashBase Sdmmc.Lemmas.Retry Sdmmc.Lemmas.FaultPre Sdmmc.Lemmas.MHoare

/-- **`make_dir_in_dir` under any fault schedule.** -/
theorem mkdir_fault_dirs {s0 : Mgr} {gh : Ghost} (hI : VolInv s0 gh) (L : List Nat) (d : Nat) (name : List Nat)
    (hname : ∀ sfn, Sfn.createFromStr name = .ok sfn → sfn.head? ≠ some 0xE5) :
    DirsP gh.vol gh.dirs (makeDirInDir d name (withFaults L s0)).2.dev.disk ∧
    (makeDirInDir d name (withFaults L s0)).2.dirs = s0.dirs := by
  obtain ⟨hn, hc, hM⟩ := volInv_fs hI
  have h0 : DirsP gh.vol gh.dirs s0.dev.disk := dirsP_of_med hM
  unfold makeDirInDir
  rw [get_bind]
  by_cases hfull : (withFaults L s0).dirs.length ≥ (withFaults L s0).maxDirs
  · rw [if_pos hfull]; exact ⟨h0, rfl⟩
  rw [if_neg hfull]
  cases hidx : s0.dirs.findIdx? (·.rawDirectory = d) with
  | none => rw [bind_err (getDirById_bad (s := withFaults L s0) hidx)]; exact ⟨h0, rfl⟩
  | some i =>
    obtain ⟨di, hdi, _⟩ := findIdx?_some_get hidx
    have hdim : di ∈ s0.dirs := List.mem_of_getElem? hdi
    rw [bind_ok (getDirById_ok (s := withFaults L s0) hidx), bind_ok (getDir_ok (s := withFaults L s0) hdi)]
    cases hv : s0.vols.findIdx? (·.rawVolume = di.rawVolume) with
    | none => rw [bind_err (getVolumeById_bad (s := withFaults L s0) hv)]; exact ⟨h0, rfl⟩
    | some volIdx =>
      obtain ⟨hz, vi, hvs, hvol, hraw⟩ := vol_of_handle hI hv
      subst hz
      rw [bind_ok (getVolumeById_ok (s := withFaults L s0) hv)]
      cases hs : Sfn.createFromStr name with
      | error e => rw [bind_err (Modes.toSfn_err hs _)]; exact ⟨h0, rfl⟩
      | ok sfn =>
        rw [bind_ok (Modes.toSfn_ok hs _), attempt_bind]
        have hdv := hI.openDirs di hdim
        obtain ⟨r, fs', hlk, hdisk, hvol', h1, hcase⟩ := lookup_found hI hvs hvol hdv sfn (hname sfn hs)
        rcases lookup_faulted hI hvs hvol di.cluster sfn L with hq | ⟨he, hu⟩
        swap
        · rw [he]
          show DirsP gh.vol gh.dirs (withVol 0 (Fat.findDirectoryEntry di.cluster sfn) (withFaults L s0)).2.dev.disk ∧
            (withVol 0 (Fat.findDirectoryEntry di.cluster sfn) (withFaults L s0)).2.dirs = s0.dirs
          exact ⟨by rw [hu.disk]; exact h0, hu.dirs⟩
        rw [hlk] at hq
        rw [hq]
        set s1 := afterVol s0 vi fs' with hs1
        have hvs1 : s1.vols = [{ vi with vol := fs'.vol }] := rfl
        have h01 : DirsP gh.vol gh.dirs s1.dev.disk := by rw [hdisk]; exact h0
        rcases hcase with ⟨hr, hfresh⟩ | ⟨e, o, hr, _⟩
        swap
        · subst hr
          dsimp only
          split <;> exact ⟨h01, rfl⟩
        subst hr
        dsimp only
        -- the directory is made
        obtain ⟨hn1, hc1, hM1⟩ := volInv_fs h1
        have hfresh1 : sfn ∉ (entries (dirSlots (fsOf s1 gh).vol (fsOf s1 gh).dev.disk gh.G (dirIdOf di.cluster))).map sName := by
          show sfn ∉ (entries (dirSlots gh.vol s1.dev.disk gh.G (dirIdOf di.cluster))).map sName
          rw [hdisk]; exact hfresh
        have hw := withVol_one (Fat.makeDir di.cluster sfn Gen.ATTR_DIRECTORY (withFaults L s0).clock) (s := withFaults L s1) (gh := gh) hvs1 hvol'
        rw [hw]
        refine ⟨?_, rfl⟩
        rw [fsOf_withFaults]
        exact makeDir_fault_dirs hM1 hn1 hc1 hdv sfn (sfn_length hs) (sfn_first_nz hs) (first_ne_E5 (hname sfn hs)) hfresh1 _ L

/-! ### Every call -/

/-- The names a call looks up, where it creates or removes an entry, do not start (in 8.3 form) with 0xE5. -/
def NamesOK : Op → Prop
  | .openFile _ name _ => ∀ sfn, Sfn.createFromStr name = .ok sfn → sfn.head? ≠ some 0xE5
  | .delete _ name => ∀ sfn, Sfn.createFromStr name = .ok sfn → sfn.head? ≠ some 0xE5
  | .mkdir _ name => ∀ sfn, Sfn.createFromStr name = .ok sfn → sfn.head? ≠ some 0xE5
  | _ => True

theorem resetLogs_withFaults (L : List Nat) (s : Mgr) : resetLogs (withFaults L s) = withFaults L (resetLogs s) := rfl

/-- **After any call under any fault schedule the directories are sound**: every directory of the volume still has
its chain, a clean tail, pairwise distinct names and its dot entries — on the medium the call leaves, whatever device
call of it failed. -/
theorem dirs_after_faulted_step {s0 : Mgr} {gh : Ghost} (hI : VolInv s0 gh) (L : List Nat) (op : Op) (hc : NamesOK op) :
    DirsP gh.vol gh.dirs (step (withFaults L s0) op).1.dev.disk := by
  have hI' := volInv_resetLogs hI
  have hM := medX_of_med hI.med
  by_cases hro : Fault.readOnlyOp op = true
  · rw [(Fault.step_readonly_nowrite (withFaults L s0) op hro).1]
    exact dirsP_of_med hM
  rw [step_unlocked (withFaults L s0) op hI.unlocked, resetLogs_withFaults]
  cases op with
  | closeVolume v =>
    show DirsP gh.vol gh.dirs ((closeVolume v >>= fun _ => (pure Payload.unit : M Payload)) (withFaults L (resetLogs s0))).2.dev.disk
    rw [seq_state]; exact (closeVolume_fault_dirs hI' L v).1
  | openFile d name mode =>
    show DirsP gh.vol gh.dirs ((openFileInDir d name mode >>= fun h => (pure (Payload.handle h) : M Payload)) (withFaults L (resetLogs s0))).2.dev.disk
    rw [map_state]; exact (openFile_fault_dirs hI' L d name mode hc).1
  | write f data =>
    show DirsP gh.vol gh.dirs ((Model.write f data >>= fun _ => (pure Payload.unit : M Payload)) (withFaults L (resetLogs s0))).2.dev.disk
    rw [seq_state]; exact (write_fault_dirs hI' L f data).1
  | flush f =>
    show DirsP gh.vol gh.dirs ((flushFile f >>= fun _ => (pure Payload.unit : M Payload)) (withFaults L (resetLogs s0))).2.dev.disk
    rw [seq_state]; exact (flush_fault_dirs hI' L f).1
  | closeFile f =>
    show DirsP gh.vol gh.dirs ((closeFile f >>= fun _ => (pure Payload.unit : M Payload)) (withFaults L (resetLogs s0))).2.dev.disk
    rw [seq_state]; exact (closeFile_fault_dirs hI' L f).1
  | delete d name =>
    show DirsP gh.vol gh.dirs ((deleteFileInDir d name >>= fun _ => (pure Payload.unit : M Payload)) (withFaults L (resetLogs s0))).2.dev.disk
    rw [seq_state]; exact (delete_fault_dirs hI' L d name hc).1
  | mkdir d name =>
    show DirsP gh.vol gh.dirs ((makeDirInDir d name >>= fun _ => (pure Payload.unit : M Payload)) (withFaults L (resetLogs s0))).2.dev.disk
    rw [seq_state]; exact (mkdir_fault_dirs hI' L d name hc).1
  | _ => exact absurd rfl hro

end Sdmmc.Lemmas.FaultInv
