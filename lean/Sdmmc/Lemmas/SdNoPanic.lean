/-
Lemmas for C13, part 8: which functions never panic (`acquire` and everything below it; `read`
and `write` can: the byte address of a standard-capacity card may overflow `u32`).
-/
import Sdmmc.Lemmas.SdBasic

namespace Sdmmc.Lemmas.Sd
open Sdmmc.Model Sdmmc.Model.Sd Sdmmc.Gen

variable {σ : Type} {α β : Type}

def NoPanic (m : S σ α) : Prop := ∀ s p, (m s).1 ≠ .panic p

namespace NoPanic
theorem pure (a : α) : NoPanic (pure a : S σ α) := fun _ _ => by simp
theorem fail (e : SdErr) : NoPanic (S.fail e : S σ α) := fun _ _ => by simp
theorem failUninit (e : SdErr) : NoPanic (failUninit e : S σ α) := fun _ _ => by simp
theorem lift (r : SRes α) (h : ∀ p, r ≠ .panic p) : NoPanic (S.lift r : S σ α) := fun _ p => by simpa using h p
theorem get : NoPanic (S.get : S σ (St σ)) := fun _ _ => by simp
theorem bind {m : S σ α} {f : α → S σ β} (hm : NoPanic m) (hf : ∀ a, NoPanic (f a)) : NoPanic (m >>= f) := by
  intro s p
  have h1 := hm s
  rw [bind_apply]
  rcases hms : m s with ⟨r, s'⟩
  rw [hms] at h1
  cases r with
  | ok a => exact hf a s' p
  | err e => simp
  | panic q => exact absurd rfl (h1 q)
theorem ite {c : Prop} [Decidable c] {m1 m2 : S σ α} (h1 : NoPanic m1) (h2 : NoPanic m2) :
    NoPanic (if c then m1 else m2) := by split <;> assumption
theorem attempt {m : S σ α} : NoPanic (S.attempt m) := fun _ _ => by simp
end NoPanic

variable (B : BusOps σ)

theorem xferEv_nopanic (ev : Event) : NoPanic (xferEv B ev) := by
  intro s p; unfold xferEv
  rcases B.xfer s.bus ev.bytes with ⟨b', r⟩
  cases r <;> simp

theorem readByte_nopanic : NoPanic (readByte B) := by
  intro s p; unfold readByte
  rcases B.xfer s.bus [0xFF] with ⟨b', r⟩
  cases r <;> simp

theorem delayTick_nopanic : NoPanic (delayTick B) := fun _ _ => by simp [delayTick]

/-- Apply the structural rules of `NoPanic` and the given facts about sub-computations. -/
syntax "nopanic_tac" "[" term,* "]" : tactic
macro_rules
  | `(tactic| nopanic_tac [$ts,*]) =>
    `(tactic| (
        try dsimp only
        repeat (with_reducible first
          | exact NoPanic.pure _ | exact NoPanic.fail _ | exact NoPanic.failUninit _ | exact NoPanic.lift _ | exact NoPanic.get
          $[| exact $ts]*
          | apply NoPanic.bind
          | apply NoPanic.ite
          | intro _
          | split
          | contradiction)))

theorem writeByte_nopanic (x : UInt8) : NoPanic (writeByte B x) := by
  unfold writeByte; nopanic_tac [xferEv_nopanic B _]

theorem waitNotBusy_nopanic (n : Nat) : NoPanic (waitNotBusy B n) := by
  induction n with
  | zero => unfold waitNotBusy; nopanic_tac [readByte_nopanic B]
  | succ n ih => unfold waitNotBusy; nopanic_tac [readByte_nopanic B, delayTick_nopanic B, ih]

theorem waitResponse_nopanic (c n : Nat) : NoPanic (waitResponse B c n) := by
  induction n with
  | zero => unfold waitResponse; nopanic_tac [readByte_nopanic B]
  | succ n ih => unfold waitResponse; nopanic_tac [readByte_nopanic B, delayTick_nopanic B, ih]

theorem waitToken_nopanic (n : Nat) : NoPanic (waitToken B n) := by
  induction n with
  | zero => unfold waitToken; nopanic_tac [readByte_nopanic B]
  | succ n ih => unfold waitToken; nopanic_tac [readByte_nopanic B, delayTick_nopanic B, ih]

theorem cardCommand_nopanic (c arg : Nat) : NoPanic (cardCommand B c arg) := by
  unfold cardCommand
  nopanic_tac [waitNotBusy_nopanic B _, waitResponse_nopanic B _ _, readByte_nopanic B, xferEv_nopanic B _]

theorem cardAcmd_nopanic (c arg : Nat) : NoPanic (cardAcmd B c arg) := by
  unfold cardAcmd; nopanic_tac [cardCommand_nopanic B _ _]

theorem readData_nopanic (len : Nat) : NoPanic (readData B len) := by
  unfold readData
  nopanic_tac [waitToken_nopanic B _, xferEv_nopanic B _]

theorem writeData_nopanic (tok : Nat) (buf : Bytes) : NoPanic (writeData B tok buf) := by
  unfold writeData
  nopanic_tac [writeByte_nopanic B _, xferEv_nopanic B _, readByte_nopanic B]

theorem flushBytes_nopanic (n : Nat) : NoPanic (flushBytes B n) := by
  induction n with
  | zero => unfold flushBytes; nopanic_tac []
  | succ n ih => unfold flushBytes; nopanic_tac [writeByte_nopanic B _, ih]

theorem readBlocks_nopanic (n : Nat) : NoPanic (readBlocks B n) := by
  induction n with
  | zero => unfold readBlocks; nopanic_tac []
  | succ n ih => unfold readBlocks; nopanic_tac [readData_nopanic B _, ih]

theorem writeBlocks_nopanic (l : List Bytes) : NoPanic (writeBlocks B l) := by
  induction l with
  | nil => unfold writeBlocks; nopanic_tac []
  | cons b rest ih => unfold writeBlocks; nopanic_tac [waitNotBusy_nopanic B _, writeData_nopanic B _ _, ih]

theorem stopWrite_nopanic : NoPanic (stopWrite B) := by
  unfold stopWrite; nopanic_tac [waitNotBusy_nopanic B _, writeByte_nopanic B _, readByte_nopanic B]

theorem checkVersionStep_nopanic (next : Option (S _ (CardType × Nat))) (hn : ∀ k, next = some k → NoPanic k) :
    NoPanic (checkVersionStep B next) := by
  cases next with
  | none => unfold checkVersionStep; nopanic_tac [cardCommand_nopanic B _ _, xferEv_nopanic B _]
  | some k =>
    have := hn k rfl
    unfold checkVersionStep
    nopanic_tac [cardCommand_nopanic B _ _, xferEv_nopanic B _, delayTick_nopanic B, this]

theorem checkVersion_nopanic (n : Nat) : NoPanic (checkVersion B n) := by
  induction n with
  | zero => unfold checkVersion; exact checkVersionStep_nopanic B none (by simp)
  | succ n ih =>
    unfold checkVersion
    exact checkVersionStep_nopanic B _ (fun k hk => by cases hk; exact ih)

theorem waitReadyStep_nopanic (arg : Nat) (next : Option (S _ Unit)) (hn : ∀ k, next = some k → NoPanic k) :
    NoPanic (waitReadyStep B arg next) := by
  cases next with
  | none => unfold waitReadyStep; nopanic_tac [cardAcmd_nopanic B _ _]
  | some k =>
    have := hn k rfl
    unfold waitReadyStep; nopanic_tac [cardAcmd_nopanic B _ _, delayTick_nopanic B, this]

theorem waitReady_nopanic (arg n : Nat) : NoPanic (waitReady B arg n) := by
  induction n with
  | zero => unfold waitReady; exact waitReadyStep_nopanic B arg none (by simp)
  | succ n ih =>
    unfold waitReady
    exact waitReadyStep_nopanic B arg _ (fun k hk => by cases hk; exact ih)

theorem NoPanic.attempt_bind {m : S σ α} {g : SRes α → S σ β} (hm : NoPanic m)
    (hg : ∀ r, (∀ p, r ≠ .panic p) → NoPanic (g r)) : NoPanic (S.attempt m >>= g) := by
  intro s p
  rw [bind_apply, attempt_apply]
  exact hg (m s).1 (hm s) (m s).2 p

theorem enterSpiModeStep_nopanic (next : Option (S σ Unit)) (hn : ∀ k, next = some k → NoPanic k) :
    NoPanic (enterSpiModeStep B next) := by
  unfold enterSpiModeStep
  refine NoPanic.attempt_bind (cardCommand_nopanic B _ _) fun r hr => ?_
  cases r with
  | panic q => exact absurd rfl (hr q)
  | ok r1 =>
    cases next with
    | none => nopanic_tac []
    | some k => have := hn k rfl; nopanic_tac [delayTick_nopanic B, this]
  | err e =>
    cases next with
    | none => nopanic_tac [flushBytes_nopanic B _]
    | some k => have := hn k rfl; nopanic_tac [flushBytes_nopanic B _, delayTick_nopanic B, this]

theorem enterSpiMode_nopanic (n : Nat) : NoPanic (enterSpiMode B n) := by
  induction n with
  | zero => unfold enterSpiMode; exact enterSpiModeStep_nopanic B none (by simp)
  | succ n ih =>
    unfold enterSpiMode
    exact enterSpiModeStep_nopanic B _ (fun k hk => by cases hk; exact ih)

theorem setCardType_nopanic (ct : CardType) : NoPanic (setCardType ct : S σ Unit) := fun _ _ => by simp [setCardType]

theorem acquireBody_nopanic : NoPanic (acquireBody B) := by
  rw [acquireBody_eq]
  nopanic_tac [enterSpiMode_nopanic B _, cardCommand_nopanic B _ _, checkVersion_nopanic B _,
    waitReady_nopanic B _ _, xferEv_nopanic B _, setCardType_nopanic _]

theorem acquire_nopanic : NoPanic (acquire B) := by
  rw [acquire_eq]
  refine NoPanic.attempt_bind (acquireBody_nopanic B) fun r hr => ?_
  refine NoPanic.attempt_bind (readByte_nopanic B) fun t ht => ?_
  cases r with
  | panic q => exact absurd rfl (hr q)
  | err e => exact NoPanic.failUninit e
  | ok u =>
    cases t with
    | panic q => exact absurd rfl (ht q)
    | err e => exact NoPanic.failUninit e
    | ok g => exact NoPanic.pure _

theorem checkInit_nopanic : NoPanic (checkInit B) := by
  unfold checkInit
  nopanic_tac [acquire_nopanic B]

end Sdmmc.Lemmas.Sd
