/-
C04 over whole calls, `make_dir` (engine level): a free cluster `cn` is marked end-of-chain, its first
block gets the `.` and `..` entries, its other blocks are blanked; then the entry is written into the
parent directory as by `write_new_directory_entry` (`WriteSetCreate`); when that ends with
`NotEnoughSpace`, `cn` is freed again.
-/
import Sdmmc.Lemmas.WriteSetCreate
import Sdmmc.Lemmas.DirMake

namespace Sdmmc.Lemmas.WriteSet
open Sdmmc.Model Sdmmc.Model.Fat Sdmmc.Spec
open Sdmmc.Lemmas.FBasic hiding NoFault Coherent
open Sdmmc.Lemmas.FatOps hiding BlocksOK Mirror HintOK
open Sdmmc.Lemmas.ChainL Sdmmc.Lemmas.ForestBase
open Sdmmc.Lemmas.Reopen (IsFixedRoot rootStart rootBlocks)
open Sdmmc.Lemmas.Listing (startCluster)

theorem DirBlock.sameGeom {v v' : FatVolume} (h : SameGeom v v') (dc : Nat) (dcs : List Nat) (b : Nat) :
    DirBlock v' dc dcs b ↔ DirBlock v dc dcs b := by
  obtain ⟨a, c, rfl⟩ := h
  exact Iff.rfl

theorem IsFixedRoot.sameGeom {v v' : FatVolume} (h : SameGeom v v') (dc : Nat) : IsFixedRoot v' dc ↔ IsFixedRoot v dc := by
  obtain ⟨a, c, rfl⟩ := h
  exact Iff.rfl

theorem startCluster_sameGeom {v v' : FatVolume} (h : SameGeom v v') (dc : Nat) : startCluster v' dc = startCluster v dc := by
  obtain ⟨a, c, rfl⟩ := h
  rfl

/-- How `make_dir` ended once the new cluster `cn` was allocated, with the licence of its writes. -/
inductive MkdirOutcome (v : FatVolume) (dc : Nat) (dcs : List Nat) (cn : Nat) (dv dv' : Dev) : Res Unit → Prop
  /-- the parent had a free slot `(b, off)` -/
  | slot (b off : Nat) (hb : DirBlock v dc dcs b) (ho : off + 32 ≤ 512) (hal : off % 32 = 0) (hfree : FreeAt dv.disk b off)
      (lic : ∀ L : Licence, cn ∈ L.fatClusters → cn ∈ L.dataClusters → (b, off) ∈ L.slots → LicD v L dv dv') :
      MkdirOutcome v dc dcs cn dv dv' (.ok ())
  /-- the chained parent was full and grew by the cluster `c` -/
  | grown (last c : Nat) (hk : ¬ IsFixedRoot v dc) (hl : dcs.getLast? = some last) (hr : InRange v c)
      (hfc : isFree v dv.disk c)
      (lic : ∀ L : Licence, cn ∈ L.fatClusters → cn ∈ L.dataClusters → last ∈ L.fatClusters → c ∈ L.fatClusters →
        c ∈ L.dataClusters → LicD v L dv dv') : MkdirOutcome v dc dcs cn dv dv' (.ok ())
  /-- no room for the entry in the parent: the new cluster was freed again -/
  | full (lic : ∀ L : Licence, cn ∈ L.fatClusters → cn ∈ L.dataClusters → LicD v L dv dv') :
      MkdirOutcome v dc dcs cn dv dv' (.err .NotEnoughSpace)

/-- **`make_dir`** on a sound state, the parent the FAT16 fixed root or a directory with a well-formed
chain `dcs`, an eleven-byte name: either the volume is full — `NotEnoughSpace`, nothing written — or a
free cluster `cn` was taken and the call ended as `MkdirOutcome` says. -/
theorem makeDir_lic (parent : Nat) (sfn : Bytes) (att : Nat) (now : Timestamp) (hname : sfn.length = 11) (s : FS) (hs : Sound s)
    (dcs : List Nat) (hdir : ¬ IsFixedRoot s.vol parent → Chain s.vol s.dev.disk (startCluster s.vol parent) dcs) :
    (∃ s', makeDir parent sfn att now s = (.err .NotEnoughSpace, s') ∧ s'.dev.wlog = s.dev.wlog ∧ s'.dev.disk = s.dev.disk ∧
      Sound s' ∧ s'.vol = s.vol) ∨
    (∃ cn r s', makeDir parent sfn att now s = (r, s') ∧ Sound s' ∧ SameGeom s.vol s'.vol ∧ InRange s.vol cn ∧
      isFree s.vol s.dev.disk cn ∧ MkdirOutcome s.vol parent dcs cn s.dev s'.dev r) := by
  rcases ForestAlloc.alloc_total s none false hs.noFault hs.coherent with ⟨cn, s1, ha⟩ | ⟨s1, ha, _, _, _, _⟩
  · right
    -- the allocation
    obtain ⟨hs1, hg1, _, hrn⟩ := alloc_lic s s1 none false cn hs (fun p hp => by cases hp) ha { fatClusters := [cn] }
      List.mem_cons_self (fun p hp => by cases hp) (fun hz => by cases hz)
    obtain ⟨_, _, _, _, _, _, _, hfree, heof, _, hother, _⟩ := ForestAlloc.alloc_spec s s1 none false cn hs.noFault hs.coherent
      hs.blocksOK hs.geom hs.hint (fun p hp => by cases hp) ha
    have hctb : clusterToBlock s1.vol cn = clusterToBlock s.vol cn := WriteRefines.sameGeom_clusterToBlock hg1 cn
    have hbpc : s1.vol.blocksPerCluster = s.vol.blocksPerCluster := WriteRefines.sameGeom_bpc hg1
    have hrn1 : InRange s1.vol cn := (hg1.inRange cn).2 hrn
    have hbpos := hs1.geom.bpc_pos
    -- the first block of the new directory
    generalize hsbdef : clusterToBlock s1.vol cn = sb at hctb
    generalize hpaydef : splice (splice zeroBlock 0 (DirEntry.serialize s1.vol.fatType
        { name := Sfn.thisDir, mtime := now, ctime := now, attributes := att, cluster := cn, size := 0, entryBlock := sb, entryOffset := 0 }))
        Gen.DIRENT_LEN (DirEntry.serialize s1.vol.fatType
        { name := Sfn.parentDir, mtime := now, ctime := now, attributes := att,
          cluster := if parent = Gen.CLUSTER_ROOT_DIR then Gen.CLUSTER_EMPTY else parent, size := 0, entryBlock := sb,
          entryOffset := Gen.DIRENT_LEN }) = pay
    have hpaylen : pay.length = 512 := by
      rw [← hpaydef]; exact (DirMake.dirBlock_facts s1.vol.fatType cn parent att now sb).1
    generalize hs2def : ({ s1 with cache := { tag := some sb, blk := pay } } : FS) = s2
    have hn2 : NoFault s2 := by rw [← hs2def]; exact hs1.noFault
    have htag2 : s2.cache.tag = some sb := by rw [← hs2def]
    have hwb := writeBack_eq s2 sb hn2 htag2
    generalize hs3def : ({ s2 with dev := { s2.dev with calls := s2.dev.calls + 1, disk := s2.dev.disk.set sb s2.cache.blk, wlog := (sb, s2.cache.blk) :: s2.dev.wlog } } : FS) = s3 at hwb
    have hd3 : s3.dev.disk = s1.dev.disk.set sb pay := by rw [← hs3def, ← hs2def]
    have hw3 : s3.dev.wlog = (sb, pay) :: s1.dev.wlog := by rw [← hs3def, ← hs2def]
    have hv3 : s3.vol = s1.vol := by rw [← hs3def, ← hs2def]
    have hregsb : regionOf s1.vol sb = .data := by
      rw [← hsbdef]; exact data_block_region s1.vol hs1.geom cn _ hrn1 (Nat.le_refl _) (by omega)
    have hs3 : Sound s3 := by
      refine ⟨⟨by rw [← hs3def]; exact hn2, ?_, ?_, by rw [hv3]; exact hs1.geom, by rw [hv3]; exact hs1.hint⟩, ?_⟩
      · have := writeBack_coherent s2 sb hn2 htag2
        rw [hwb] at this; exact this
      · rw [hd3]; exact blocksOK_set _ _ _ hs1.blocksOK hpaylen
      · rw [hv3, hd3]; exact mirror_set s1.vol hs1.geom _ _ _ (by rw [hregsb]; intro e; cases e) hs1.mirror
    have hl13 : ∀ L : Licence, cn ∈ L.dataClusters → LicD s1.vol L s1.dev s3.dev := fun L hL =>
      LicD.one (sb, pay) hw3 hd3 (.inr (.inl ⟨hpaylen, cn, hL, hrn1, by rw [hsbdef]; exact Nat.le_refl _, by rw [hsbdef]; omega⟩))
    -- the other blocks
    obtain ⟨s4, hz, hs4, hv4, _⟩ := zeroBlocks_lic s1.vol { dataClusters := [cn] } cn List.mem_cons_self hrn1 (s1.vol.blocksPerCluster - 1)
      (sb + 1) s3 hs3 hv3 (by rw [hsbdef]; omega) (by rw [hsbdef]; omega)
    have hl34 : ∀ L : Licence, cn ∈ L.dataClusters → LicD s1.vol L s3.dev s4.dev := fun L hL => by
      obtain ⟨s4', hz', _, _, hl⟩ := zeroBlocks_lic s1.vol L cn hL hrn1 (s1.vol.blocksPerCluster - 1) (sb + 1) s3 hs3 hv3
        (by rw [hsbdef]; omega) (by rw [hsbdef]; omega)
      rw [hz] at hz'
      have : s4 = s4' := congrArg Prod.snd hz'
      rw [this]; exact hl
    have hv4' : s4.vol = s1.vol := hv4.trans hv3
    have hg4 : SameGeom s.vol s4.vol := hg1.trans (SameGeom.of_eq hv4')
    have hfat4 : ∀ i, regionOf s1.vol i = .fat → s4.dev.disk.get i = s1.dev.disk.get i := by
      intro i hi
      have h4 := zeroBlocks_content (s1.vol.blocksPerCluster - 1) (sb + 1) s3 hs3.noFault i
      rw [hz] at h4
      have hne : ∀ j, j < s1.vol.blocksPerCluster → i ≠ sb + j := by
        intro j hj e
        have := data_block_region s1.vol hs1.geom cn i hrn1 (by rw [hsbdef, e]; omega) (by rw [hsbdef, e]; omega)
        rw [hi] at this; cases this
      rw [h4, if_neg (by
        rintro ⟨g1, g2⟩
        exact hne (i - sb) (by omega) (by omega)), hd3, Disk.get_set_ne _ _ _ _ (fun e => hne 0 hbpos (by omega))]
    have hraw4 : ∀ x, x < endCluster s.vol → fatRaw s.vol s4.dev.disk x = fatRaw s.vol s1.dev.disk x := by
      intro x hx
      unfold fatRaw
      rw [hfat4 (fatBlock s.vol x) (by
        rw [hg1.regionOf]; exact (FatLens.fat_blocks_in_fat_region s.vol hs.geom x hx).1)]
    -- the parent directory is still where it was
    have hcn_dcs : ¬ IsFixedRoot s.vol parent → cn ∉ dcs := fun hk hmem =>
      (chain_mem_used (hdir hk) cn hmem).2.1 hfree
    have hdir4 : ¬ IsFixedRoot s4.vol parent → Chain s4.vol s4.dev.disk (startCluster s4.vol parent) dcs := by
      intro hk4
      have hk : ¬ IsFixedRoot s.vol parent := fun h => hk4 ((IsFixedRoot.sameGeom hg4 parent).2 h)
      rw [startCluster_sameGeom hg4]
      refine chain_transfer (hdir hk) hg4.endCluster fun x hx => ?_
      have hxE := (chain_inRange (hdir hk) x hx).2
      rw [hg4.nextOf]
      refine nextOf_congr rfl ((hraw4 x hxE).trans (hother x hxE (fun e => hcn_dcs hk (e ▸ hx)) (fun e => by cases e)))
    -- the entry in the parent
    obtain ⟨re, s5, hrun5, hs5, hg5, hout⟩ := createEntry_lic parent sfn att cn now hname s4 hs4 dcs hdir4
    have hhead : makeDir parent sfn att now s =
        (match re with
          | .ok _ => (pure () : F Unit)
          | .err e => (do let _ ← F.attempt (freeClusterChain cn); F.fail e)
          | other => F.lift (other.bind fun _ => .ok ())) s5 := by
      unfold makeDir
      rw [bind_ok ha]
      simp only [bind_apply, getVol_apply, blankMut_apply, cacheModify_apply, hsbdef, hpaydef, hs2def, hwb, hbpc]
      rw [← hbpc, hz]
      simp only [attempt_apply, hrun5]
      rfl
    have hl04 : ∀ L : Licence, cn ∈ L.fatClusters → cn ∈ L.dataClusters → LicD s.vol L s.dev s4.dev := fun L h1 h2 => by
      obtain ⟨_, _, hl01, _⟩ := alloc_lic s s1 none false cn hs (fun p hp => by cases hp) ha L h1 (fun p hp => by cases hp)
        (fun hz => by cases hz)
      exact hl01.trans (LicD.sameGeom hg1 ((hl13 L h2).trans (hl34 L h2)))
    cases hout with
    | slot en hb ho hal hfr lic =>
      refine ⟨cn, .ok (), s5, by rw [hhead]; rfl, hs5, hg4.trans hg5, hrn, hfree, ?_⟩
      have hb' : DirBlock s.vol parent dcs en.entryBlock := (DirBlock.sameGeom hg4 _ _ _).1 hb
      -- the parent's block is no block of the new cluster: it is what it was before the call
      have hkeepb : s4.dev.disk.get en.entryBlock = s.dev.disk.get en.entryBlock := by
        have hregb := dirBlock_region s.vol hs.geom parent dcs en.entryBlock
          (fun hk x hx => chain_inRange (hdir hk) x hx) hb'
        have hnf : regionOf s.vol en.entryBlock ≠ .fat := by rcases hregb with h | h <;> rw [h] <;> intro e <;> cases e
        have hne : ∀ j, j < s1.vol.blocksPerCluster → en.entryBlock ≠ sb + j := by
          intro j hj e
          have hdat : regionOf s.vol en.entryBlock = .data := by
            rw [← hg1.regionOf, e]
            exact data_block_region s1.vol hs1.geom cn _ hrn1 (by rw [hsbdef]; omega) (by rw [hsbdef]; omega)
          unfold DirBlock at hb'
          by_cases hk : IsFixedRoot s.vol parent
          · rw [if_pos hk] at hb'
            have := FatLens.root_blocks_in_root_region s.vol hs.geom hk.1 (en.entryBlock - rootStart s.vol) (by
              have := hb'.2; unfold rootBlocks at this; show _ < blockCountFromBytes (s.vol.rootEntriesCount * 32); omega)
            rw [show s.vol.lbaStart + s.vol.firstRootDirBlock + (en.entryBlock - rootStart s.vol) = en.entryBlock by
              have := hb'.1; unfold rootStart at this ⊢; omega, hdat] at this
            cases this
          · rw [if_neg hk] at hb'
            obtain ⟨x, hx, g1, g2⟩ := hb'
            have hxr := chain_inRange (hdir hk) x hx
            have := FatLens.cluster_blocks_disjoint_of_lt s.vol hs.geom x cn (en.entryBlock - clusterToBlock s.vol x) j hxr.1 hrn.1
              hxr.2 hrn.2 (by omega) (by rw [← hbpc]; exact hj) (by rw [← hctb]; omega)
            exact hcn_dcs hk (this.1 ▸ hx)
        have h4 := zeroBlocks_content (s1.vol.blocksPerCluster - 1) (sb + 1) s3 hs3.noFault en.entryBlock
        rw [hz] at h4
        rw [h4, if_neg (by
          rintro ⟨g1, g2⟩
          exact hne (en.entryBlock - sb) (by omega) (by omega)), hd3, Disk.get_set_ne _ _ _ _ (fun e => hne 0 hbpos (by omega))]
        obtain ⟨_, _, _, _, _, hfr1⟩ := DirFat.alloc_frame s s1 none false cn hs.noFault hs.coherent hs.blocksOK hs.geom hs.hint
          (fun p hp => by cases hp) ha
        exact hfr1 _ (DirFat.not_mem_fatWrites_of_region s.vol hs.geom cn _ hrn.2 hnf) (fun p hp => by cases hp)
          (fun hzz => by cases hzz.1)
      exact .slot en.entryBlock en.entryOffset hb' ho hal (by unfold FreeAt at hfr ⊢; rw [← hkeepb]; exact hfr) fun L h1 h2 h3 =>
        (hl04 L h1 h2).trans (LicD.sameGeom hg4 (lic L h3))
    | grown en last c hk hl hr hfree' hb ho lic =>
      refine ⟨cn, .ok (), s5, by rw [hhead]; rfl, hs5, hg4.trans hg5, hrn, hfree, ?_⟩
      have hr0 : InRange s.vol c := (hg4.inRange c).1 hr
      have hfc4 : isFree s.vol s4.dev.disk c := (hg4.isFree _ c).1 hfree'
      have hne : c ≠ cn := by
        intro e
        rw [e] at hfc4
        have h1 : isFree s.vol s1.dev.disk cn := (ForestStep.isFree_congr_raw (hraw4 cn hrn.2)).1 hfc4
        have h2 : nextOf s.vol s1.dev.disk cn = decodeNext s.vol.fatType (fatRaw s.vol s1.dev.disk cn) := rfl
        rw [heof] at h2
        unfold isFree fatEntry at h1
        cases hft : s.vol.fatType <;> rw [hft] at h1 h2 <;> simp only at h1
        · rw [h1] at h2; unfold decodeNext at h2; simp at h2
        · unfold decodeNext at h2
          simp only at h2
          rw [h1] at h2; simp at h2
      have hfc0 : isFree s.vol s.dev.disk c :=
        (ForestStep.isFree_congr_raw ((hraw4 c hr0.2).trans (hother c hr0.2 hne (fun e => by cases e)))).1 hfc4
      exact .grown last c (fun h => hk ((IsFixedRoot.sameGeom hg4 parent).2 h)) hl hr0 hfc0 fun L h1 h2 h3 h4 h5 =>
        (hl04 L h1 h2).trans (LicD.sameGeom hg4 (lic L h3 h4 h5))
    | full hw hd =>
      -- the clean-up
      have hch5 : Chain s5.vol s5.dev.disk cn [cn] := by
        refine Chain.last cn ((hg4.trans hg5).inRange cn |>.2 hrn) ?_
        rw [(hg4.trans hg5).nextOf, hd]
        rw [← heof]
        exact nextOf_congr rfl (hraw4 cn hrn.2)
      obtain ⟨s6, hfree6, hs6, hg6, _⟩ := free_lic s5 cn [] hs5 hch5 { fatClusters := [cn] } (fun y hy => hy)
      refine ⟨cn, .err .NotEnoughSpace, s6, ?_, hs6, (hg4.trans hg5).trans hg6, hrn, hfree, ?_⟩
      · rw [hhead]
        simp only [bind_apply, attempt_apply, hfree6, fail_apply]
      · refine .full fun L h1 h2 => ?_
        obtain ⟨s6', hfree6', _, _, hl56⟩ := free_lic s5 cn [] hs5 hch5 L (fun y hy => by
          rw [List.mem_singleton] at hy; rw [hy]; exact h1)
        rw [hfree6] at hfree6'
        have : s6 = s6' := congrArg Prod.snd hfree6'
        rw [this]
        exact (hl04 L h1 h2).trans ((LicD.same hw hd).trans (LicD.sameGeom (hg4.trans hg5) hl56))
  · left
    obtain ⟨h1, h2, h3, h4⟩ := alloc_none_nowrite s none false hs _ s1 ha
    refine ⟨s1, ?_, h1, h2, h3, h4⟩
    unfold makeDir
    rw [bind_err ha]

theorem MkdirOutcome.of_ro {v : FatVolume} {dc : Nat} {dcs : List Nat} {cn : Nat} {dv dv1 dv' : Dev} {r : Res Unit}
    (hw : dv1.wlog = dv.wlog) (hd : dv1.disk = dv.disk) (h : MkdirOutcome v dc dcs cn dv1 dv' r) :
    MkdirOutcome v dc dcs cn dv dv' r := by
  cases h with
  | slot b off hb ho hal hfree lic =>
    exact .slot b off hb ho hal (by unfold FreeAt at hfree ⊢; rw [← hd]; exact hfree) fun L h1 h2 h3 =>
      (LicD.same hw hd).trans (lic L h1 h2 h3)
  | grown last c hk hl hr hfc lic =>
    exact .grown last c hk hl hr (by rw [← hd]; exact hfc) fun L h1 h2 h3 h4 h5 => (LicD.same hw hd).trans (lic L h1 h2 h3 h4 h5)
  | full lic => exact .full fun L h1 h2 => (LicD.same hw hd).trans (lic L h1 h2)

end Sdmmc.Lemmas.WriteSet
