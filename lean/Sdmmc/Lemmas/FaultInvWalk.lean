/-
C11 under the invariant, part 7 (engine, fault-free): a `write_new_directory_entry` that does not succeed has
written nothing (`writeNew_err_nowrite`) — a full FAT16 root, or a full chained directory on a full volume.
(The licence lemma `WriteSet.createEntry_lic` says the same under the extra hypothesis that the FAT copies are
identical; here it is not needed.)
-/
import Sdmmc.Lemmas.WriteSetCreate
import Sdmmc.Lemmas.VolEng3

namespace Sdmmc.Lemmas.FaultInv
open Sdmmc.Model Sdmmc.Model.Fat Sdmmc.Spec
open Sdmmc.Lemmas.FBasic hiding NoFault Coherent
open Sdmmc.Lemmas.FatOps hiding BlocksOK Mirror HintOK
open Sdmmc.Lemmas.ChainL Sdmmc.Lemmas.ForestBase Sdmmc.Lemmas.WriteSet
open Sdmmc.Lemmas.Reopen (IsFixedRoot rootStart rootBlocks)
open Sdmmc.Lemmas.Listing (startCluster)

/-- The hypotheses of an engine state, kept by read-only steps. -/
structure Rdy (s : FS) : Prop where
  noFault : NoFault s
  coherent : Coherent s
  blocksOK : BlocksOK s.dev.disk
  geom : WFGeom s.vol
  hint : HintOK s.vol

theorem Rdy.of_ro {s s' : FS} (h : Rdy s) (hro : RO s s') : Rdy s' :=
  ⟨hro.noFault h.noFault, hro.coherent h.coherent, by intro i; rw [hro.disk]; exact h.blocksOK i,
   by rw [hro.vol]; exact h.geom, by rw [hro.vol]; exact h.hint⟩

/-- The medium and the write log are as before. -/
def Same (s s' : FS) : Prop := s'.dev.wlog = s.dev.wlog ∧ s'.dev.disk = s.dev.disk

/-- An allocation that does not succeed writes nothing. -/
theorem alloc_err_same (s : FS) (prev : Option Nat) (zero : Bool) (hn : NoFault s) (hc : Coherent s) (e : Err) (s' : FS)
    (h : allocCluster prev zero s = (.err e, s')) : Same s s' := by
  rcases ForestAlloc.alloc_total s prev zero hn hc with ⟨c, s'', ha⟩ | ⟨s'', ha, hd, _, _, _⟩
  · rw [h] at ha; cases ha
  · rw [h] at ha
    have e2 : s' = s'' := congrArg Prod.snd ha
    subst e2
    have hp : pick s.vol s.dev.disk = none := by
      cases hp : pick s.vol s.dev.disk with
      | none => rfl
      | some c =>
        obtain ⟨_, _, _, s2, ch⟩ := alloc_forward s prev zero c hn hc hp
        have hrun := ch.run
        rw [h] at hrun; cases hrun
    have hw := (alloc_none s prev zero hn hc hp).2
    rw [h] at hw
    exact ⟨hw, hd⟩

/-- The walk over a chained directory: it succeeds, or nothing was written. -/
theorem writeNewWalk_err_same (name : Bytes) (att fc : Nat) (now : Timestamp) (hname : name.length = 11) :
    ∀ (dcs : List Nat) (c fuel : Nat) (w : DirWalk) (s : FS), Rdy s → Chain s.vol s.dev.disk c dcs → dcs.length < fuel →
      w.cluster = c → w.firstBlock = clusterToBlock s.vol c → w.dirSize = s.vol.blocksPerCluster → w.fixedRoot = false →
      ∃ r s', writeNewWalk name att fc now fuel w s = (r, s') ∧ ((∃ en, r = .ok en) ∨ Same s s') := by
  intro dcs
  induction dcs with
  | nil => intro c fuel w s _ hch; exact absurd rfl (chain_ne_nil hch)
  | cons a rest ih =>
    intro c fuel w s hs hch hfuel hwc hwb hws hwf
    obtain ⟨fuel, rfl⟩ : ∃ f, fuel = f + 1 := ⟨fuel - 1, by simp only [List.length_cons] at hfuel; omega⟩
    have hac : a = c := by have := chain_head_eq hch; simpa using this
    subst hac
    have hr : InRange s.vol a := chain_inRange hch a List.mem_cons_self
    have hbpc := hs.geom.bpc_pos
    obtain ⟨r1, s1, hrun1, hcase⟩ := writeNewBlocks_written name att fc now hname w.dirSize w.firstBlock s hs.noFault hs.coherent
      hs.blocksOK
    rw [writeNewWalk]
    simp only [bind_apply, hrun1]
    rcases hcase with ⟨hr1, ro1, hnone⟩ | ⟨b, off, hr1, hb1, hb2, _, hsw⟩
    · -- no free slot in this cluster
      subst hr1
      have hs1 : Rdy s1 := hs.of_ro ro1
      have hnc := ChainL.nextCluster_spec a s1 hs1.noFault hs1.coherent hs1.geom (by rw [ro1.vol]; exact hr)
      rw [ro1.vol, ro1.disk] at hnc
      generalize hs2def : afterRead (fatBlock s.vol a) s1 = s2 at hnc
      have ro2 : RO s s2 := by rw [← hs2def]; exact ro1.trans (ro_afterRead _ s1)
      have hs2 : Rdy s2 := hs.of_ro ro2
      simp only [hwf, Bool.false_eq_true, if_false, bind_apply, attempt_apply, hwc, hnc]
      by_cases hrest : rest = []
      · subst hrest
        rw [chain_last_of_split (pre := []) hch]
        simp only [bind_apply]
        have hp : ∀ p, some a = some p → p < endCluster s2.vol := fun p hp => by
          cases hp; rw [ro2.vol]; exact hr.2
        rcases ForestAlloc.alloc_total s2 (some a) true hs2.noFault hs2.coherent with ⟨cn, s3, ha⟩ | ⟨s3, ha, hd3, hv3, hn3, hc3⟩
        · -- a cluster was appended: the entry goes into its first slot
          rw [ha]
          simp only [getVol_apply]
          have hzero := VolEng.alloc_zeroed s2 s3 (some a) cn hs2.noFault hs2.coherent hs2.blocksOK hs2.geom hs2.hint hp ha
          have hused : isUsed s2.vol s2.dev.disk a := by
            rw [ro2.vol, ro2.disk]; exact chain_mem_used hch a List.mem_cons_self
          obtain ⟨hn3, hc3, hb3, hg3, _, _, hrn, _⟩ := ForestAlloc.alloc_spec s2 s3 (some a) true cn hs2.noFault hs2.coherent hs2.blocksOK
            hs2.geom hs2.hint (fun q hq => by cases hq; exact ⟨hused.1.2, hused.2.1⟩) ha
          rw [ro2.vol] at hzero hg3
          have hctb : clusterToBlock s3.vol cn = clusterToBlock s.vol cn := WriteRefines.sameGeom_clusterToBlock hg3 cn
          obtain ⟨g, rfl⟩ : ∃ g, fuel = g + 1 := ⟨fuel - 1, by simp only [List.length_cons, List.length_nil] at hfuel; omega⟩
          obtain ⟨r4, s4, hrun4, hcase4⟩ := writeNewBlocks_written name att fc now hname w.dirSize (clusterToBlock s3.vol cn) s3
            hn3 hc3 hb3
          rw [writeNewWalk]
          simp only [bind_apply, hrun4]
          have hz0 : s3.dev.disk.get (clusterToBlock s3.vol cn) = zeroBlock := by
            have := hzero 0 hbpc; rw [Nat.add_zero] at this; rw [hctb]; exact this
          rcases hcase4 with ⟨_, _, hnone4⟩ | ⟨b, off, hr4, _, _, _, _⟩
          · exfalso
            have := hnone4 (clusterToBlock s3.vol cn) (Nat.le_refl _) (by rw [hws]; omega)
            rw [hz0, firstFreeSlot_zero] at this
            cases this
          · subst hr4
            exact ⟨_, s4, rfl, .inl ⟨_, rfl⟩⟩
        · -- the volume is full
          rw [ha]
          refine ⟨_, s3, rfl, .inr ?_⟩
          obtain ⟨hw3, hd3'⟩ := alloc_err_same s2 (some a) true hs2.noFault hs2.coherent _ s3 ha
          exact ⟨by rw [hw3, ro2.wlog], by rw [hd3', ro2.disk]⟩
      · -- on to the next cluster of the directory
        obtain ⟨_, _, m, hm, _, hchm⟩ := chain_cons_inv hch hrest
        rw [hm]
        simp only [bind_apply, getVol_apply]
        have hch2 : Chain s2.vol s2.dev.disk m rest := by rw [ro2.vol, ro2.disk]; exact hchm
        obtain ⟨r, s', hrun, hout⟩ := ih m fuel { cluster := m, firstBlock := clusterToBlock s2.vol m, dirSize := w.dirSize, fixedRoot := false } s2 hs2 hch2
          (by simp only [List.length_cons] at hfuel; omega) rfl rfl (by rw [ro2.vol]; exact hws) rfl
        refine ⟨r, s', hrun, ?_⟩
        rcases hout with h | ⟨h1, h2⟩
        · exact .inl h
        · exact .inr ⟨by rw [h1, ro2.wlog], by rw [h2, ro2.disk]⟩
    · -- a free slot in this cluster
      subst hr1
      exact ⟨_, s1, rfl, .inl ⟨_, rfl⟩⟩

/-- **`write_new_directory_entry`** on a ready state (the directory the FAT16 fixed root, or a directory with the
well-formed chain `dcs`), an eleven-byte name: it succeeds, or nothing was written. -/
theorem writeNew_err_same (dc : Nat) (name : Bytes) (att fc : Nat) (now : Timestamp) (hname : name.length = 11) (s : FS)
    (hs : Rdy s) (dcs : List Nat)
    (hdir : ¬ IsFixedRoot s.vol dc → Chain s.vol s.dev.disk (startCluster s.vol dc) dcs) :
    (∃ en, (writeNewDirectoryEntry dc name att fc now s).1 = .ok en) ∨ Same s (writeNewDirectoryEntry dc name att fc now s).2 := by
  unfold writeNewDirectoryEntry
  simp only [bind_apply, getVol_apply]
  by_cases hk : IsFixedRoot s.vol dc
  · obtain ⟨h16, hdc⟩ := hk
    have hw : dirWalkStart s.vol dc = { cluster := dc, firstBlock := rootStart s.vol, dirSize := rootBlocks s.vol, fixedRoot := true } := by
      unfold dirWalkStart
      rw [h16]
      simp only
      rw [if_pos (show dc = Gen.CLUSTER_ROOT_DIR from hdc)]
      rfl
    rw [hw]
    obtain ⟨r1, s1, hrun1, hcase⟩ := writeNewBlocks_written name att fc now hname (rootBlocks s.vol) (rootStart s.vol) s hs.noFault
      hs.coherent hs.blocksOK
    rw [writeNewWalk]
    simp only [bind_apply, hrun1]
    rcases hcase with ⟨hr1, ro1, _⟩ | ⟨b, off, hr1, _, _, _, _⟩
    · subst hr1
      exact .inr ⟨ro1.wlog, ro1.disk⟩
    · subst hr1
      exact .inl ⟨_, rfl⟩
  · have hch := hdir hk
    obtain ⟨h1, h2, h3, h4⟩ := Listing.dirWalkStart_chain s.vol dc hk
    have hlen : dcs.length < chainFuel s.vol + 1 := by
      have := chain_length_le hch
      unfold chainFuel; omega
    obtain ⟨r, s', hrun, hout⟩ := writeNewWalk_err_same name att fc now hname dcs (startCluster s.vol dc) (chainFuel s.vol + 1)
      (dirWalkStart s.vol dc) s hs hch hlen h1 h2 h3 h4
    rw [hrun]
    exact hout

end Sdmmc.Lemmas.FaultInv
