/-
C09 over whole histories, part 11: ONE CALL.  `Kept v0 e cs ys h s gh`: the state `s` (invariant, ghost `gh`) shows the
flushed file `e` (chain `cs`) as an object of directory `h` no handle of which has unflushed changes.
`kept_step`: a covered call that does not target the file has a licence that is `NotNamed` for it and names no FAT
entry of a non-last cluster of the directory's chain, and the state after the call is `Kept` again.
-/
import Sdmmc.Lemmas.SurviveTrack2
import Sdmmc.Lemmas.SurviveDir2
import Sdmmc.Lemmas.SurviveMain
import Sdmmc.Lemmas.AbsFsTotal
import Sdmmc.Lemmas.NameE5
import Sdmmc.Lemmas.SurviveFlush
import Sdmmc.Lemmas.VolCrashHist

namespace Sdmmc.Lemmas.Survive
open Sdmmc.Model Sdmmc.Model.Fat Sdmmc.Spec.Volume Sdmmc.Lemmas.VolBase Sdmmc.Lemmas.VolTree
open Sdmmc.Spec hiding NoFault Coherent
open Sdmmc.Lemmas.VolDisk Sdmmc.Lemmas.VolMed Sdmmc.Lemmas.VolEng
open Sdmmc.Lemmas.WriteSetInv
open Sdmmc.Lemmas.AbsFs (Abs metaOf contentOf FsCovered)
open Sdmmc.Lemmas.SurviveAbs (KeepsA QuietA NamesA ROA)

/-! ### Transfers between records of the same geometry -/

theorem NotNamed.sameGeom {v v' : FatVolume} (h : SameGeom v v') {L : Licence} {sb so : Nat} {cs : List Nat}
    (hn : NotNamed v' L sb so cs) : NotNamed v L sb so cs := by
  obtain ⟨a, b, rfl⟩ := h
  exact ⟨hn.fat, hn.data, hn.slots, hn.files⟩

theorem dirChain_sameGeom {v v' : FatVolume} (h : SameGeom v v') (G : List (List Nat)) (x : Nat) :
    dirChain v' G x = dirChain v G x := by
  obtain ⟨a, b, rfl⟩ := h
  rfl

theorem nameCovered_all (op : Op) : NameCovered op := by
  cases op <;> first
    | trivial
    | exact fun _ h => NameE5.createFromStr_first_byte h

/-! ### The invariant of the flushed file -/

/-- The state `s` (ghost `gh`, geometry of `v0`, FAT copies identical, `RawOK`) shows the flushed file: its slot holds
the serialised entry `e`, `cs` is its chain, the slot is a file object of directory `h`, and every open file that sits
at the slot has no unflushed changes or still has the flushed entry as its record (`f.entry = e`; then the file owns a
cluster: what a later `flush_file` / `close_file` of that handle stores is what the slot holds). -/
structure Kept (v0 : FatVolume) (e : DirEntry) (cs : List Nat) (ys : List Slot) (h : Nat) (s : Mgr) (gh : Ghost) : Prop where
  inv : VolInv s gh
  mirror : Mirror gh.vol s.dev.disk
  raw : RawOK gh.vol.fatType s.dev.disk s.files
  geom : SameGeom v0 gh.vol
  flushed : FlushedOn v0 s.dev.disk e cs
  dir : h ∈ dirIds gh.dirs
  mem : slotOf v0.fatType e ∈ objects h (dirSlots gh.vol s.dev.disk gh.G h)
  file : isDirE (slotOf v0.fatType e) = false
  synced : ∀ f, f ∈ s.files → fkey f = (e.entryBlock, e.entryOffset) → f.dirty = false ∨ (f.entry = e ∧ e.cluster ≠ 0)
  /-- the sub-directory entries `ys` lead from the root directory to `h` -/
  path : PathOn gh.vol.fatType gh.dirs (dirSlots gh.vol s.dev.disk gh.G) 0 ys h
  pathNames : ∀ y, y ∈ ys → sName y ≠ Sfn.thisDir ∧ sName y ≠ Sfn.parentDir

/-- No open file at the slot has unflushed changes. -/
def CleanAt (s : Mgr) (pos : Nat × Nat) : Prop := ∀ f, f ∈ s.files → fkey f = pos → f.dirty = false

/-- What every crash point `dk` of a call keeps of the file (medium `d` before the call; `gh` the ghost before it, `ys`
the sub-directory entries on the way to the file): 512-byte blocks, the 32 bytes of the slot, the FAT entries and the
bytes of the file's chain, the FAT entries of the non-last clusters of EVERY directory's chain, and the 32 bytes of the
slots of `ys`. -/
structure SameFile (v0 : FatVolume) (e : DirEntry) (cs : List Nat) (gh : Ghost) (ys : List Slot) (d dk : Disk) : Prop where
  blocks : BlocksOK dk
  slot : slice (dk.get e.entryBlock) e.entryOffset 32 = slice (d.get e.entryBlock) e.entryOffset 32
  fat : ∀ x, x ∈ cs → fatRaw v0 dk x = fatRaw v0 d x
  bytes : chainBytes v0 dk cs = chainBytes v0 d cs
  dirfat : ∀ q, q ∈ dirIds gh.dirs → ∀ c, c ∈ (dirChain gh.vol gh.G q).dropLast → fatRaw v0 dk c = fatRaw v0 d c
  path : ∀ y, y ∈ ys → slice (dk.get y.1) y.2.1 32 = slice (d.get y.1) y.2.1 32

theorem SameFile.congr {v0 : FatVolume} {e : DirEntry} {cs : List Nat} {gh : Ghost} {ys : List Slot} {d dk d' : Disk}
    (h : SameFile v0 e cs gh ys d dk) (hd : ∀ i, d'.get i = dk.get i) : SameFile v0 e cs gh ys d d' :=
  ⟨fun i => by rw [hd]; exact h.blocks i, by rw [hd]; exact h.slot,
   fun x hx => by unfold fatRaw; rw [hd]; exact h.fat x hx,
   by rw [WriteRefines.chainBytes_congr v0 dk d' cs (fun x _ j _ => hd _)]; exact h.bytes,
   fun q hq c hc => by unfold fatRaw; rw [hd]; exact h.dirfat q hq c hc,
   fun y hy => by rw [hd]; exact h.path y hy⟩

theorem SameFile.flushed {v0 : FatVolume} {e : DirEntry} {cs : List Nat} {gh : Ghost} {ys : List Slot} {d dk : Disk}
    (h : SameFile v0 e cs gh ys d dk)
    (hF : FlushedOn v0 d e cs) : FlushedOn v0 dk e cs := by
  refine ⟨by rw [h.slot]; exact hF.slot, ?_⟩
  rcases hF.chain with h1 | h1
  · exact .inl h1
  · exact .inr (ForestBase.chain_transfer h1 rfl fun x hx => ForestBase.nextOf_congr rfl (h.fat x hx))

section
variable {v0 : FatVolume} {e : DirEntry} {cs : List Nat} {ys : List Slot} {h : Nat} {s : Mgr} {gh : Ghost}

/-- The object of the invariant. -/
theorem Kept.obj (hK : Kept v0 e cs ys h s gh) (hst : Reopen.Storable v0.fatType e) : Obj s gh h (slotOf v0.fatType e) := by
  refine ⟨hK.dir, hK.mem, hK.file, fun f hf hk => ?_⟩
  rcases hK.synced f hf hk with hc | ⟨hc, _⟩
  · exact .inl hc
  · right
    obtain ⟨_, _, _, h4, h5⟩ := slotOf_fields v0.fatType e hst
    rw [hK.geom.fatType, hc]
    exact ⟨h4, h5⟩

theorem Kept.obj' (hK : Kept v0 e cs ys h s gh) (hst : Reopen.Storable v0.fatType e) : Obj s gh h (slotOf gh.vol.fatType e) := by
  rw [hK.geom.fatType]; exact hK.obj hst

/-- The chain the ghost records for the file is `cs`. -/
theorem Kept.chain (hK : Kept v0 e cs ys h s gh) (hst : Reopen.Storable v0.fatType e) : chainOf gh.G e.cluster = cs := by
  have hM := medX_of_med hK.inv.med
  have hG := med_heads hM
  have hx := hK.obj' hst
  have hft := hK.geom.fatType
  rw [← hft] at hst
  have hcl : sCluster gh.vol.fatType (slotOf gh.vol.fatType e) = e.cluster := (slotOf_fields _ e hst).2.2.2.1
  rcases hK.flushed.chain with ⟨h1, h2, _⟩ | hch
  · rw [h2]; exact chainOf_lt_two hG h1
  · have hch' : Chain gh.vol s.dev.disk e.cluster cs := ForestBase.chain_sameGeom hK.geom hch
    have hne : e.cluster ≠ 0 := by
      intro e0
      have := (ChainL.chain_inRange hch' _ (ForestBase.chain_head_mem hch')).1
      omega
    have hm := fileRef_mem_heads hM.tree hx.dir hx.mem hx.file (by rw [hx.eff hK.inv, hcl]; exact hne)
    rw [hx.eff hK.inv, hcl] at hm
    obtain ⟨hmem, hhd⟩ := chainOf_spec hG hm
    have := med_chain hM hmem
    rw [headD_of_head? hhd] at this
    exact ChainL.chain_unique this cs hch'

/-- What the invariant says about the entry. -/
theorem Kept.facts (hK : Kept v0 e cs ys h s gh) (hst : Reopen.Storable v0.fatType e) :
    byteAt e.name 0 ≠ 0 ∧ byteAt e.name 0 ≠ 0xE5 ∧ e.attributes % 16 ≠ 15 ∧ Attr.isDirectory e.attributes = false ∧
    (regionOf v0 e.entryBlock = .root ∨ regionOf v0 e.entryBlock = .data) ∧ e.entryOffset % 32 = 0 ∧
    e.entryOffset + 32 ≤ 512 ∧ (∀ c, c ∈ cs → InRange v0 c) := by
  have hM := medX_of_med hK.inv.med
  have hx := hK.obj hst
  obtain ⟨_, h2, h3, _⟩ := slotOf_fields v0.fatType e hst
  obtain ⟨_, _, _, _, _, hnz, hk⟩ := object_split hM hx.dir hx.mem
  unfold VolBase.keep isFrag at hk
  rw [h2] at hnz
  rw [h2, h3] at hk
  simp only [Bool.and_eq_true, decide_eq_true_eq, Bool.not_eq_true', decide_eq_false_iff_not] at hk
  have hdir := hx.file
  rw [slotOf_isDir v0.fatType e hst] at hdir
  have hreg : regionOf v0 e.entryBlock = .root ∨ regionOf v0 e.entryBlock = .data := by
    rw [← hK.geom.regionOf]
    rcases dirSlot_not_fat hM hx.dir hx.memSlots with h1 | h1
    · exact .inr h1
    · exact .inl h1
  have hoff : ∃ i, i < 16 ∧ e.entryOffset = 32 * i := by
    have hm := hx.memSlots
    rw [dirSlots_eq] at hm
    split at hm
    · exact slot_offset hm
    · obtain ⟨c, _, hrun⟩ := mem_chainSlots.1 hm
      exact slot_offset hrun
  obtain ⟨i, hi, hei⟩ := hoff
  refine ⟨hnz, hk.1, hk.2, hdir, hreg, by omega, by omega, ?_⟩
  intro c hc
  rw [← hK.chain hst] at hc
  exact (hK.geom.inRange c).1 (chainOf_inRange hM hc)

/-- No unflushed changes, or the record agrees: the record's size agrees with the slot. -/
theorem Obj.effSize {x : Slot} (hI : VolInv s gh) (hx : Obj s gh h x) : effSize s.files x = sSize x := by
  have hM := medX_of_med hI.med
  cases hp : pendOf s.files x with
  | none => exact effSize_of_none hp
  | some f =>
    obtain ⟨hfm, hk⟩ := pendOf_some_mem hp
    rw [effSize_of_pend hp]
    rcases hx.quiet f hfm hk with hd | hd
    · obtain ⟨h', hh', A, o, B, hO, hpo, _, _, hcl, _⟩ := file_object hM.tree hfm
      have ho : o ∈ objects h' (dirSlots gh.vol s.dev.disk gh.G h') := by rw [hO]; simp
      obtain ⟨_, rfl⟩ := AbsFs.slot_unique hM hh' hx.dir (mem_of_mem_objects ho) (mem_of_mem_objects hx.mem) (hpo.trans hk)
      exact ((hcl hd).2).symm
    · exact hd.2.symm

/-- The chain is long enough for the size. -/
theorem Kept.fit (hK : Kept v0 e cs ys h s gh) (hst : Reopen.Storable v0.fatType e) : e.size ≤ cs.length * clusterBytesLen v0 := by
  have hx := hK.obj' hst
  have hft := hK.geom.fatType
  have hst' : Reopen.Storable gh.vol.fatType e := by rw [hft]; exact hst
  obtain ⟨_, _, _, hcl, hsz⟩ := slotOf_fields gh.vol.fatType e hst'
  have := hK.inv.med.tree.sizes h hx.dir _ hx.mem hx.file
  rw [hx.eff hK.inv, hx.effSize hK.inv, hcl, hsz, hK.chain hst] at this
  rw [← WriteRefines.sameGeom_clusterBytesLen hK.geom]
  rcases this with ⟨_, h2⟩ | ⟨_, h2⟩
  · rw [h2]; exact Nat.zero_le _
  · exact h2

end

/-! ### One call -/

/-- The bytes of a directory slot are the 32 bytes at its position. -/
theorem dirSlots_bytes {v : FatVolume} {d : Disk} {G : List (List Nat)} {h : Nat} {y : Slot} (hy : y ∈ dirSlots v d G h) :
    y.2.2 = slice (d.get y.1) y.2.1 32 := by
  rw [dirSlots_eq] at hy
  split at hy
  · obtain ⟨j, i, _, _, rfl⟩ := mem_runSlots.1 hy
    rfl
  · obtain ⟨c', _, hrun⟩ := mem_chainSlots.1 hy
    obtain ⟨j, i, _, _, rfl⟩ := mem_runSlots.1 hrun
    rfl

/-- What a licence that names no FAT entry, no data cluster and no file range, and at most the file's own slot, leaves
alone: every byte of every block other than the slot's block and the FAT32 info sector. -/
theorem not_covers_of_slot_only {v : FatVolume} {L : Licence} {eb eo : Nat} (h1 : L.fatClusters = []) (h2 : L.dataClusters = [])
    (h3 : L.files = []) (h4 : ∀ p, p ∈ L.slots → p = (eb, eo)) {b i : Nat} (hb : b ≠ eb)
    (hi : v.fatType = .fat32 → b ≠ v.infoLocation) : ¬ Covers v L b i := by
  rintro (⟨c, hc, _⟩ | ⟨c, hc, _⟩ | ⟨off, hoff, _, _⟩ | ⟨_, h32, hbi, _, _⟩ | ⟨cs', lo, hi', p, hm, _⟩)
  · rw [h1] at hc; cases hc
  · rw [h2] at hc; cases hc
  · have := h4 _ hoff
    exact hb (Prod.mk.inj this).1
  · exact hi h32 hbi
  · rw [h3] at hm; cases hm

theorem reflush_licence {gh : Ghost} {files : List FileInfo} {dirs : List DirInfo} {d : Disk} {op : Op} {L : Licence} {hd i : Nat}
    {f : FileInfo} (hop : op = .flush hd ∨ op = .closeFile hd) (hidx : files.findIdx? (·.rawFile = hd) = some i)
    (hfi : files[i]? = some f) (h : LicenceFor gh files dirs d op L) :
    L.fatClusters = [] ∧ L.dataClusters = [] ∧ L.files = [] ∧ ∀ p, p ∈ L.slots → p = (f.entry.entryBlock, f.entry.entryOffset) := by
  rcases hop with rfl | rfl
  · cases h with
    | nothing => exact ⟨rfl, rfl, rfl, fun _ hp => nomatch hp⟩
    | flush _ g hg hh hdirty j hj hgj =>
      rw [hidx] at hj
      cases hj
      rw [hfi] at hgj
      cases hgj
      exact ⟨rfl, rfl, rfl, fun p hp => List.mem_singleton.1 hp⟩
  · cases h with
    | nothing => exact ⟨rfl, rfl, rfl, fun _ hp => nomatch hp⟩
    | closeFile _ g hg hh hdirty j hj hgj =>
      rw [hidx] at hj
      cases hj
      rw [hfi] at hgj
      cases hgj
      exact ⟨rfl, rfl, rfl, fun p hp => List.mem_singleton.1 hp⟩

/-- **One call.**  From `Kept`, a covered call that does not target the file: at EVERY crash point of the call the
file is intact (`SameFile`: slot bytes, chain, contents; the directory's chain keeps its non-last links); the state
after the call is `Kept` again (for a new ghost); if no handle at the slot has unflushed changes, the call has a licence
that is `NotNamed` for the file, and still no handle at the slot has unflushed changes; if only read-only handles sit
at the slot and the call does not open the file in another mode, only read-only handles sit there afterwards. -/
theorem kept_step {v0 : FatVolume} {e : DirEntry} {cs : List Nat} {ys : List Slot} {h : Nat} {s : Mgr} {gh : Ghost}
    (hK : Kept v0 e cs ys h s gh)
    (hst : Reopen.Storable v0.fatType e) {op : Op} (hc : FsCovered v0 s op)
    (hn : ¬ Targets s h e.name (e.entryBlock, e.entryOffset) op) :
    (∀ k, SameFile v0 e cs gh ys s.dev.disk (crashDisk s.dev.disk (step s op).2.writes k)) ∧
    (∀ i, (step s op).1.dev.disk.get i = (s.dev.disk.applyWrites (step s op).2.writes).get i) ∧
    (CleanAt s (e.entryBlock, e.entryOffset) →
      ∃ L, LicenceFor gh s.files s.dirs s.dev.disk op L ∧ AllLicensed v0 s.dev.disk L (step s op).2.writes ∧
        NotNamed v0 L e.entryBlock e.entryOffset cs) ∧
    ∃ gh', Kept v0 e cs ys h (step s op).1 gh' ∧
      (CleanAt s (e.entryBlock, e.entryOffset) → CleanAt (step s op).1 (e.entryBlock, e.entryOffset)) ∧
      ((∀ f, f ∈ s.files → fkey f = (e.entryBlock, e.entryOffset) → f.mode = .ReadOnly) → ¬ Opens s h e.name op →
        ∀ f, f ∈ (step s op).1.files → fkey f = (e.entryBlock, e.entryOffset) → f.mode = .ReadOnly) := by
  have hI := hK.inv
  have hM := medX_of_med hI.med
  have hg0 : WFGeom v0 := hK.geom.symm.wfGeom hI.med.geom
  have hft := hK.geom.fatType
  have hx := hK.obj' hst
  have hst' : Reopen.Storable gh.vol.fatType e := by rw [hft]; exact hst
  obtain ⟨hsn, _, _, hcl, _⟩ := slotOf_fields gh.vol.fatType e hst'
  obtain ⟨hn0, hn5, hlfn, hplain, hreg, hal, _, hin⟩ := hK.facts hst
  have hb := hI.med.blocksOK
  -- the licence
  obtain ⟨L, hSL⟩ := step_callOK hI hK.mirror op (nameCovered_all op)
  have hwf : LicWF v0 L := LicWF.sameGeom hK.geom (licenceFor_wf hI hSL.lic)
  have hall : AllLicensed v0 s.dev.disk L (step s op).2.writes := (WriteSet.allLicensed_sameGeom hK.geom L _ _).1 hSL.all
  have hbk : ∀ k, BlocksOK (crashDisk s.dev.disk (step s op).2.writes k) := fun k =>
    allLicensed_blocksOK _ _ hb (allLicensed_take _ _ k hall)
  have hFk : ∀ k b i, ¬ Covers v0 L b i →
      ((crashDisk s.dev.disk (step s op).2.writes k).get b).getD i 0 = (s.dev.disk.get b).getD i 0 :=
    fun k b i hcov => crash_frame hall hcov k
  -- every directory's chain keeps its links, the entries on the way keep their bytes: from the licence alone
  have hdirfat : ∀ k q, q ∈ dirIds gh.dirs → ∀ c, c ∈ (dirChain gh.vol gh.G q).dropLast →
      fatRaw v0 (crashDisk s.dev.disk (step s op).2.writes k) c = fatRaw v0 s.dev.disk c := by
    intro k q hq c hc
    have hcr : InRange v0 c := by
      have hcm := dirChain_sub hM (List.dropLast_subset _ hc)
      exact (hK.geom.inRange c).1 (chainOf_inRange hM hcm)
    exact fatRaw_of_frame hg0 hwf (hFk k) hcr (licence_avoids_dir hI hq hSL.lic c hc)
  have hpath : ∀ k y, y ∈ ys → slice ((crashDisk s.dev.disk (step s op).2.writes k).get y.1) y.2.1 32 =
      slice (s.dev.disk.get y.1) y.2.1 32 := by
    intro k y hy
    obtain ⟨q, hq, hyo, hyd⟩ := hK.path.entry y hy
    have hDO : DirObj s gh q y := ⟨hq, hyo, hyd⟩
    have hnnd : NotNamed v0 L y.1 y.2.1 [] := NotNamed.sameGeom hK.geom (licence_notNamed_dir hI hDO hSL.lic)
    have hyreg : regionOf v0 y.1 = .root ∨ regionOf v0 y.1 = .data := by
      rw [← hK.geom.regionOf]
      rcases dirSlot_not_fat hM hq hDO.memSlots with h1 | h1
      · exact .inr h1
      · exact .inl h1
    have hyoff : y.2.1 % 32 = 0 := by
      have hm := hDO.memSlots
      rw [dirSlots_eq] at hm
      split at hm
      · obtain ⟨i, _, hi⟩ := slot_offset hm; omega
      · obtain ⟨c, _, hrun⟩ := mem_chainSlots.1 hm
        obtain ⟨i, _, hi⟩ := slot_offset hrun; omega
    have hsp : ∀ L', L' ∈ [L] → Spares v0 L' y.1 y.2.1 [] := by
      intro L' hL'
      rw [List.mem_singleton.1 hL']
      exact spares_of_avoids hg0 (fun c hc => nomatch hc) hyreg hyoff (avoids_of hwf hnnd)
    exact (spared_at hb (hbk k) (fun b i hcov => hFk k b i (hcov L List.mem_cons_self)) y.1 y.2.1 [] hsp).1
  -- what the licence gives when it does not name the file
  have lic_same : NotNamed v0 L e.entryBlock e.entryOffset cs →
      ∀ k, SameFile v0 e cs gh ys s.dev.disk (crashDisk s.dev.disk (step s op).2.writes k) := by
    intro hnn0 k
    have hsp : ∀ L', L' ∈ [L] → Spares v0 L' e.entryBlock e.entryOffset cs := by
      intro L' hL'
      rw [List.mem_singleton.1 hL']
      exact spares_of_avoids hg0 hin hreg hal (avoids_of hwf hnn0)
    obtain ⟨f1, f2, _, f4⟩ := spared_at hb (hbk k) (fun b i hcov => hFk k b i (hcov L List.mem_cons_self)) e.entryBlock
      e.entryOffset cs hsp
    exact ⟨hbk k, f1, f2, f4, hdirfat k, hpath k⟩
  -- every crash point
  have hsame : ∀ k, SameFile v0 e cs gh ys s.dev.disk (crashDisk s.dev.disk (step s op).2.writes k) := by
    by_cases hrf : Reflush s (e.entryBlock, e.entryOffset) op
    · -- the call stores the record of a handle of the file again: the same 32 bytes
      obtain ⟨hd, i, f, hop, hidx, hfi, hkey, hdirty⟩ : ∃ hd i f, (op = .flush hd ∨ op = .closeFile hd) ∧
          s.files.findIdx? (·.rawFile = hd) = some i ∧ s.files[i]? = some f ∧ fkey f = (e.entryBlock, e.entryOffset) ∧
          f.dirty = true := by
        cases op with
        | flush hd => obtain ⟨i, f, h1, h2, h3, h4⟩ := hrf; exact ⟨hd, i, f, .inl rfl, h1, h2, h3, h4⟩
        | closeFile hd => obtain ⟨i, f, h1, h2, h3, h4⟩ := hrf; exact ⟨hd, i, f, .inr rfl, h1, h2, h3, h4⟩
        | _ => exact hrf.elim
      have hfm : f ∈ s.files := List.mem_of_getElem? hfi
      have hfe : f.entry = e := by
        rcases hK.synced f hfm hkey with hcn | ⟨hcn, _⟩
        · rw [hdirty] at hcn; cases hcn
        · exact hcn
      obtain ⟨l1, l2, l3, l4⟩ := reflush_licence hop hidx hfi hSL.lic
      rw [hfe] at l4
      have hnc : ∀ b i, b ≠ e.entryBlock → (v0.fatType = .fat32 → b ≠ v0.infoLocation) → ¬ Covers v0 L b i :=
        fun b i h1 h2 => not_covers_of_slot_only l1 l2 l3 l4 h1 h2
      have hinfo : ∀ b, (regionOf v0 b = .fat ∨ regionOf v0 b = .data) → v0.fatType = .fat32 → b ≠ v0.infoLocation := by
        intro b hb' h32 e1
        have := FatLens.info_block_in_info_region v0 hg0 h32 (Reopen.fatStart_le_numBlocks v0 hg0)
        rw [← e1] at this
        rcases hb' with h' | h' <;> rw [h'] at this <;> cases this
      intro k
      have hfinal : ∀ i, (step s op).1.dev.disk.get i =
          (crashDisk s.dev.disk (step s op).2.writes (step s op).2.writes.length).get i := by
        intro i; rw [hSL.disk i]; unfold crashDisk; rw [List.take_length]
      refine ⟨hbk k, ?_, ?_, ?_, hdirfat k, hpath k⟩
      · -- the slot: old block, or the block the call leaves, which carries the same 32 bytes
        have hat := reflush_atomic hI hK.mirror hidx hfi hdirty op hop k
        rw [hfe] at hat
        rcases hat with hat | hat
        · rw [hat]
        · rw [hat]
          -- the final block: outside the slot as before, the slot holds `serialize e`
          obtain ⟨_, hFfin, _⟩ : True ∧ slice ((step s op).1.dev.disk.get e.entryBlock) e.entryOffset 32 =
              e.serialize gh.vol.fatType ∧ True := by
            refine ⟨trivial, ?_, trivial⟩
            rcases hop with rfl | rfl
            · have := (flush_step_flushed hI hidx hfi hdirty).2.1.slot
              rw [hfe] at this; exact this
            · have := (close_step_flushed hI hidx hfi hdirty).2.1.slot
              rw [hfe] at this; exact this
          rw [hFfin, hft]
          exact hK.flushed.slot.symm
      · intro x hx'
        have hxr := hin x hx'
        unfold fatRaw
        have hreg' : regionOf v0 (fatBlock v0 x) = .fat := (FatLens.fat_blocks_in_fat_region v0 hg0 x hxr.2).1
        have hne : fatBlock v0 x ≠ e.entryBlock := by
          intro e1; rw [e1] at hreg'
          rcases hreg with h' | h' <;> rw [h'] at hreg' <;> cases hreg'
        rw [block_ext hb (hbk k) _ fun i => hFk k _ i (hnc _ i hne (hinfo _ (.inl hreg')))]
      · refine WriteRefines.chainBytes_congr v0 _ _ cs fun x hx' j hj => ?_
        have hxr := hin x hx'
        have hreg' : regionOf v0 (clusterToBlock v0 x + j) = .data :=
          WriteSet.data_block_region v0 hg0 x _ hxr (Nat.le_add_right _ _) (by omega)
        have hne : clusterToBlock v0 x + j ≠ e.entryBlock := by
          have h11 := (file_entry_facts hI hfm).2.2.2.2.2.2.2.2.2.2
          rw [hfe, hK.chain hst] at h11
          have e1 := WriteRefines.sameGeom_bpc hK.geom
          have e2 := WriteRefines.sameGeom_clusterToBlock hK.geom x
          have := h11 x hx' j (by omega)
          omega
        exact block_ext hb (hbk k) _ fun i => hFk k _ i (hnc _ i hne (hinfo _ (.inr hreg')))
    · obtain ⟨hnn, _⟩ := licence_notNamed hI hx (by rw [hsn]; exact hn) hrf hSL.lic
      rw [hcl, hK.chain hst] at hnn
      exact lic_same (NotNamed.sameGeom hK.geom hnn)
  refine ⟨hsame, hSL.disk, ?_, ?_⟩
  · -- no handle with unflushed changes at the slot: the licence does not name the file
    intro hclean
    have hrf : ¬ Reflush s (e.entryBlock, e.entryOffset) op := by
      intro hrf
      cases op with
      | flush hd => obtain ⟨i, f, _, h2, h3, h4⟩ := hrf; rw [hclean f (List.mem_of_getElem? h2) h3] at h4; cases h4
      | closeFile hd => obtain ⟨i, f, _, h2, h3, h4⟩ := hrf; rw [hclean f (List.mem_of_getElem? h2) h3] at h4; cases h4
      | _ => exact hrf.elim
    obtain ⟨hnn, _⟩ := licence_notNamed hI hx (by rw [hsn]; exact hn) hrf hSL.lic
    rw [hcl, hK.chain hst] at hnn
    exact ⟨L, hSL.lic, hall, NotNamed.sameGeom hK.geom hnn⟩
  -- the state after the call
  have hsfin : SameFile v0 e cs gh ys s.dev.disk (step s op).1.dev.disk :=
    (hsame (step s op).2.writes.length).congr fun i => by rw [hSL.disk i]; unfold crashDisk; rw [List.take_length]
  have hFl' : FlushedOn v0 (step s op).1.dev.disk e cs := hsfin.flushed hK.flushed
  -- the abstract step
  obtain ⟨a, hA⟩ := AbsFs.abs_total hI
  obtain ⟨gh', a', hI', hg', hA', hstep⟩ := AbsFs.fs_step_refines v0 hI hA hK.geom op hc
  have hgg : SameGeom gh.vol gh'.vol := hK.geom.symm.trans hg'
  have hraw' : RawOK gh'.vol.fatType (step s op).1.dev.disk (step s op).1.files := by
    rw [hgg.fatType]
    exact (VolCrash.step_stepC hI hK.raw op (nameCovered_all op)).raw
  have hcl0 : e.cluster < 4294967296 := by
    have := hst.cluster_lt
    cases hv : v0.fatType <;> rw [hv] at this <;> simp only at this <;> omega
  have hmeta : metaOf gh.vol.fatType (slotOf gh.vol.fatType e) = Spec.AbsFs.storedMeta (Spec.AbsFs.view e) :=
    AbsFs.metaOf_serialize gh.vol.fatType e e.entryBlock e.entryOffset hst.name_len hst.attr_lt hst.size_lt hcl0
  obtain ⟨j, hj, hk⟩ := keepsA_of_obj hI hA hx (fun pm => pm = Spec.AbsFs.view e ∧ e.cluster ≠ 0)
    (fun f hf hkey => by
      rcases hK.synced f hf hkey with hcn | ⟨hcn, hne⟩
      · exact .inl hcn
      · exact .inr ⟨by rw [hcn], hne⟩)
    (fun pm hp => by rw [hp.1, hmeta])
  have hmname : (metaOf gh.vol.fatType (slotOf gh.vol.fatType e)).name = e.name :=
    ((VolDisk.decode_fields gh.vol.fatType _).1).trans hsn
  have hk' := SurviveAbs.absStep_keeps hstep hk (fun hna => hn (by
    have := targets_of_namesA hA hj hna
    rw [hmname] at this
    exact this))
  have hh' : h ∈ dirIds gh'.dirs := by rw [← hA'.ids]; exact hk'.ids
  -- the chains of the directories have only grown
  have hpreAll : ∀ q, q ∈ dirIds gh.dirs → q ∈ dirIds gh'.dirs → dirChain gh.vol gh.G q <+: dirChain gh'.vol gh'.G q := by
    intro q hq hq'
    rw [dirChain_sameGeom hgg]
    by_cases hf : isFixedRoot gh.vol q
    · unfold dirChain; rw [if_pos hf, if_pos hf]; exact List.prefix_refl _
    · have hf' : ¬ isFixedRoot gh'.vol q := by unfold isFixedRoot at hf ⊢; rw [hgg.fatType]; exact hf
      have hM' := medX_of_med hI'.med
      obtain ⟨m1, d1⟩ := dirChain_spec hM hq hf
      obtain ⟨m2, d2⟩ := dirChain_spec hM' hq' hf'
      have c1 := med_chain hM m1
      have c2 := med_chain hM' m2
      rw [headD_of_head? d1] at c1
      rw [headD_of_head? d2] at c2
      have c2' : Chain gh.vol (step s op).1.dev.disk (dirHead gh.vol q) (chainOf gh'.G (dirHead gh.vol q)) := by
        have := ForestBase.chain_sameGeom hgg.symm c2
        have hdh : dirHead gh'.vol q = dirHead gh.vol q := by
          obtain ⟨a, b, hv⟩ := hgg
          rw [hv]; rfl
        rw [hdh] at this
        exact this
      have hdc1 : dirChain gh.vol gh.G q = chainOf gh.G (dirHead gh.vol q) := by unfold dirChain; rw [if_neg hf]
      have hdc2 : dirChain gh.vol gh'.G q = chainOf gh'.G (dirHead gh.vol q) := by unfold dirChain; rw [if_neg hf]
      have hdf := hsfin.dirfat q hq
      rw [hdc2]
      rw [hdc1] at hdf ⊢
      refine chain_prefix c1 c2' fun c hc => ?_
      rw [hK.geom.nextOf, hK.geom.nextOf]
      exact ForestBase.nextOf_congr rfl (hdf c hc)
  have hpre : dirChain gh.vol gh.G h <+: dirChain gh'.vol gh'.G h := hpreAll h hx.dir hh'
  -- the way to the directory is still there
  have hpath' : PathOn gh'.vol.fatType gh'.dirs (dirSlots gh'.vol (step s op).1.dev.disk gh'.G) 0 ys h := by
    refine pathOn_next hgg (TreeView.of_treeOK hI.med.tree) (TreeView.of_treeOK hI'.med.tree) hpreAll ?_ hK.path hK.pathNames
      (zero_mem_dirIds _)
    intro y hy
    obtain ⟨q, hq, hyo, _⟩ := hK.path.entry y hy
    rw [hsfin.path y hy]
    exact (dirSlots_bytes (mem_of_mem_objects hyo)).symm
  -- the slot is still in its directory
  have hxm' : slotOf gh.vol.fatType e ∈ dirSlots gh'.vol (step s op).1.dev.disk gh'.G h := by
    refine mem_dirSlots_next hgg hx.memSlots ?_ hpre
    show slice ((step s op).1.dev.disk.get e.entryBlock) e.entryOffset 32 = e.serialize gh.vol.fatType
    rw [hFl'.slot, hft]
  -- a handle at the slot whose pending entry is the flushed one has the flushed record
  have hrec : ∀ f, f ∈ (step s op).1.files → fkey f = (e.entryBlock, e.entryOffset) →
      (Spec.AbsFs.view f.entry = Spec.AbsFs.view e ∧ e.cluster ≠ 0) → f.entry = e ∧ e.cluster ≠ 0 := by
    intro f hf hkey ⟨hv, hne⟩
    refine ⟨?_, hne⟩
    have hcl' : f.entry.cluster = e.cluster := by
      have hr := hraw' f hf
      have hsl : slotAt (step s op).1.dev.disk f.entry.entryBlock f.entry.entryOffset = slotOf gh.vol.fatType e := by
        obtain ⟨k1, k2⟩ := Prod.mk.inj hkey
        have h32 : slice ((step s op).1.dev.disk.get e.entryBlock) e.entryOffset 32 = e.serialize gh.vol.fatType := by
          rw [hFl'.slot, hft]
        show (f.entry.entryBlock, f.entry.entryOffset,
          slice ((step s op).1.dev.disk.get f.entry.entryBlock) f.entry.entryOffset 32) = _
        rw [k1, k2, h32]
        rfl
      rw [hsl, hgg.fatType, hcl] at hr
      rcases hr with hr | hr
      · exact absurd hr hne
      · exact hr.symm
    obtain ⟨k1, k2⟩ := Prod.mk.inj hkey
    have hv' := hv
    unfold Spec.AbsFs.view at hv'
    injection hv' with v1 v2 v3 v4 v5
    cases hfe : f.entry with
    | mk n mt ct at' cl sz eb eo =>
      rw [hfe] at v1 v2 v3 v4 v5 hcl' k1 k2
      cases he : e with
      | mk n' mt' ct' at'' cl' sz' eb' eo' =>
        rw [he] at v1 v2 v3 v4 v5 hcl' k1 k2
        simp only at v1 v2 v3 v4 v5 hcl' k1 k2
        subst v1 v2 v3 v4 v5 hcl' k1 k2
        rfl
  obtain ⟨hobj', hj', hq'⟩ := obj_of_keepsA hI' hA' hk' hxm' (by rw [(slotOf_fields _ e hst').2.1]; exact hn0)
    (slotOf_keep _ e hst' hn5 hlfn) (by rw [slotOf_isDir _ e hst']; exact hplain) (by rw [hsn, hmname])
    (fun f hf hkey hP => by
      obtain ⟨hfe, _⟩ := hrec f hf hkey hP
      obtain ⟨_, _, _, h4, h5⟩ := slotOf_fields gh.vol.fatType e hst'
      rw [hgg.fatType, hfe]; exact ⟨h4, h5⟩)
  refine ⟨gh', ⟨hI', (hgg.mirror _).2 hSL.mirror, hraw', hg', hFl', hh', ?_, ?_, ?_, hpath', hK.pathNames⟩, ?_, ?_⟩
  · rw [← hft]; exact hobj'.mem
  · rw [← hft]; exact hobj'.file
  · intro f hf hkey
    rcases hq' f hf hkey with hcn | hcn
    · exact .inl hcn
    · exact .inr (hrec f hf hkey hcn)
  · -- clean handles stay clean
    intro hclean f hf hkey
    have hqa : SurviveAbs.QuietA a h j (fun _ => False) := by
      intro af haf h1 h2
      obtain ⟨g, hg, hrel⟩ := forall₂_left hA.files haf
      obtain ⟨o, ho, hp⟩ := hrel.slot
      rw [h1, h2, hj] at ho
      injection ho with ho
      subst ho
      exact .inl (hrel.dirty.trans (hclean g hg hp.symm))
    have hk0 : KeepsA a h j (metaOf gh.vol.fatType (slotOf gh.vol.fatType e))
        (contentOf gh.vol s.dev.disk gh.G s.files (slotOf gh.vol.fatType e)) (fun _ => False) :=
      ⟨hk.ids, hk.slot, hqa, fun _ hF => hF.elim⟩
    have hk0' := SurviveAbs.absStep_keeps hstep hk0 (fun hna => hn (by
      have := targets_of_namesA hA hj hna
      rw [hmname] at this
      exact this))
    obtain ⟨af, haf, hrel⟩ := forall₂_right' hA'.files hf
    obtain ⟨o', ho', hp'⟩ := hrel.slot
    have hM' := medX_of_med hI'.med
    obtain ⟨e1, e2⟩ := AbsFs.slot_unique hM' hrel.dirMem hh' (AbsFs.mem_of_beforeEnd_getElem? ho') hxm' (hp'.trans hkey)
    subst e2
    rw [e1] at ho'
    have hidx : af.idx = j := by
      have hnd := beforeEnd_nodup (dirSlots_pos_nodup hM' hh' (step s op).1.dev.disk)
      have hlt : af.idx < (Spec.Volume.beforeEnd (dirSlots gh'.vol (step s op).1.dev.disk gh'.G h)).length :=
        (List.getElem?_eq_some_iff.1 ho').1
      exact (List.getElem?_inj hlt hnd).1 (ho'.trans hj'.symm)
    rcases hk0'.quiet af haf e1 hidx with hcn | hcn
    · exact hrel.dirty.symm.trans hcn
    · exact hcn.elim
  · intro hro hno
    have hroA := roA_of_allRO hA hj hro
    have hroA' := SurviveAbs.absStep_ro hstep hk.slot hroA (fun ho => hno (by
      have := opens_of_opensA hA ho
      rw [hmname] at this
      exact this))
    exact allRO_of_roA hI' hA' hh' hj' hroA'

end Sdmmc.Lemmas.Survive
