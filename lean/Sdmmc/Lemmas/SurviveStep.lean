/-
C09 over whole histories, part 11: ONE CALL.  `Kept v0 e cs h s gh`: the state `s` (invariant, ghost `gh`) shows the
flushed file `e` (chain `cs`) as an object of directory `h` no handle of which has unflushed changes.
`kept_step`: a covered call that does not target the file has a licence that is `NotNamed` for it and names no FAT
entry of a non-last cluster of the directory's chain, and the state after the call is `Kept` again.
-/
import Sdmmc.Lemmas.SurviveTrack2
import Sdmmc.Lemmas.SurviveMain
import Sdmmc.Lemmas.AbsFsTotal
import Sdmmc.Lemmas.NameE5

namespace Sdmmc.Lemmas.Survive
open Sdmmc.Model Sdmmc.Model.Fat Sdmmc.Spec.Volume Sdmmc.Lemmas.VolBase Sdmmc.Lemmas.VolTree
open Sdmmc.Spec hiding NoFault Coherent
open Sdmmc.Lemmas.VolDisk Sdmmc.Lemmas.VolMed Sdmmc.Lemmas.VolEng
open Sdmmc.Lemmas.WriteSetInv
open Sdmmc.Lemmas.AbsFs (Abs metaOf contentOf FsCovered)
open Sdmmc.Lemmas.SurviveAbs (KeepsA QuietA NamesA ROA)

/-! ### Transfers between records of the same geometry -/

theorem NotNamed.sameGeom {v v' : FatVolume} (h : SameGeom v v') {L : Licence} {sb so : Nat} {cs : List Nat}
    (hn : NotNamed v' L sb so cs) : NotNamed v L sb so cs := by
  obtain ⟨a, b, rfl⟩ := h
  exact ⟨hn.fat, hn.data, hn.slots, hn.files⟩

theorem dirChain_sameGeom {v v' : FatVolume} (h : SameGeom v v') (G : List (List Nat)) (x : Nat) :
    dirChain v' G x = dirChain v G x := by
  obtain ⟨a, b, rfl⟩ := h
  rfl

theorem nameCovered_all (op : Op) : NameCovered op := by
  cases op <;> first
    | trivial
    | exact fun _ h => NameE5.createFromStr_first_byte h

/-! ### The invariant of the flushed file -/

/-- The state `s` (ghost `gh`, geometry of `v0`, FAT copies identical) shows the flushed file: its slot holds the
serialised entry `e`, `cs` is its chain, the slot is an object of directory `h`, and no handle of it has unflushed changes. -/
structure Kept (v0 : FatVolume) (e : DirEntry) (cs : List Nat) (h : Nat) (s : Mgr) (gh : Ghost) : Prop where
  inv : VolInv s gh
  mirror : Mirror gh.vol s.dev.disk
  geom : SameGeom v0 gh.vol
  flushed : FlushedOn v0 s.dev.disk e cs
  obj : Obj s gh h (slotOf v0.fatType e)

section
variable {v0 : FatVolume} {e : DirEntry} {cs : List Nat} {h : Nat} {s : Mgr} {gh : Ghost}

theorem Kept.obj' (hK : Kept v0 e cs h s gh) : Obj s gh h (slotOf gh.vol.fatType e) := by
  rw [hK.geom.fatType]; exact hK.obj

/-- The chain the ghost records for the file is `cs`. -/
theorem Kept.chain (hK : Kept v0 e cs h s gh) (hst : Reopen.Storable v0.fatType e) : chainOf gh.G e.cluster = cs := by
  have hM := medX_of_med hK.inv.med
  have hG := med_heads hM
  have hx := hK.obj'
  have hft := hK.geom.fatType
  rw [← hft] at hst
  have hcl : sCluster gh.vol.fatType (slotOf gh.vol.fatType e) = e.cluster := (slotOf_fields _ e hst).2.2.2.1
  rcases hK.flushed.chain with ⟨h1, h2, _⟩ | hch
  · rw [h2]; exact chainOf_lt_two hG h1
  · have hch' : Chain gh.vol s.dev.disk e.cluster cs := ForestBase.chain_sameGeom hK.geom hch
    have hne : e.cluster ≠ 0 := by
      intro e0
      have := (ChainL.chain_inRange hch' _ (ForestBase.chain_head_mem hch')).1
      omega
    have hm := fileRef_mem_heads hM.tree hx.dir hx.mem hx.file (by rw [hx.eff hK.inv, hcl]; exact hne)
    rw [hx.eff hK.inv, hcl] at hm
    obtain ⟨hmem, hhd⟩ := chainOf_spec hG hm
    have := med_chain hM hmem
    rw [headD_of_head? hhd] at this
    exact ChainL.chain_unique this cs hch'

/-- What the invariant says about the entry. -/
theorem Kept.facts (hK : Kept v0 e cs h s gh) (hst : Reopen.Storable v0.fatType e) :
    byteAt e.name 0 ≠ 0 ∧ byteAt e.name 0 ≠ 0xE5 ∧ e.attributes % 16 ≠ 15 ∧ Attr.isDirectory e.attributes = false ∧
    (regionOf v0 e.entryBlock = .root ∨ regionOf v0 e.entryBlock = .data) ∧ e.entryOffset % 32 = 0 ∧
    e.entryOffset + 32 ≤ 512 ∧ (∀ c, c ∈ cs → InRange v0 c) := by
  have hM := medX_of_med hK.inv.med
  have hx := hK.obj
  obtain ⟨_, h2, h3, _⟩ := slotOf_fields v0.fatType e hst
  obtain ⟨_, _, _, _, _, hnz, hk⟩ := object_split hM hx.dir hx.mem
  unfold VolBase.keep isFrag at hk
  rw [h2] at hnz
  rw [h2, h3] at hk
  simp only [Bool.and_eq_true, decide_eq_true_eq, Bool.not_eq_true', decide_eq_false_iff_not] at hk
  have hdir := hx.file
  rw [slotOf_isDir v0.fatType e hst] at hdir
  have hreg : regionOf v0 e.entryBlock = .root ∨ regionOf v0 e.entryBlock = .data := by
    rw [← hK.geom.regionOf]
    rcases dirSlot_not_fat hM hx.dir hx.memSlots with h1 | h1
    · exact .inr h1
    · exact .inl h1
  have hoff : ∃ i, i < 16 ∧ e.entryOffset = 32 * i := by
    have hm := hx.memSlots
    rw [dirSlots_eq] at hm
    split at hm
    · exact slot_offset hm
    · obtain ⟨c, _, hrun⟩ := mem_chainSlots.1 hm
      exact slot_offset hrun
  obtain ⟨i, hi, hei⟩ := hoff
  refine ⟨hnz, hk.1, hk.2, hdir, hreg, by omega, by omega, ?_⟩
  intro c hc
  rw [← hK.chain hst] at hc
  exact (hK.geom.inRange c).1 (chainOf_inRange hM hc)

/-- Only clean read-only handles: the record's size agrees with the slot. -/
theorem Obj.effSize {x : Slot} (hI : VolInv s gh) (hx : Obj s gh h x) : effSize s.files x = sSize x := by
  have hM := medX_of_med hI.med
  cases hp : pendOf s.files x with
  | none => exact effSize_of_none hp
  | some f =>
    obtain ⟨hfm, hk⟩ := pendOf_some_mem hp
    have hd := hx.quiet f hfm hk
    obtain ⟨h', hh', A, o, B, hO, hpo, _, _, hcl, _⟩ := file_object hM.tree hfm
    have ho : o ∈ objects h' (dirSlots gh.vol s.dev.disk gh.G h') := by rw [hO]; simp
    obtain ⟨_, rfl⟩ := AbsFs.slot_unique hM hh' hx.dir (mem_of_mem_objects ho) (mem_of_mem_objects hx.mem) (hpo.trans hk)
    rw [effSize_of_pend hp]
    exact ((hcl hd).2).symm

/-- The chain is long enough for the size. -/
theorem Kept.fit (hK : Kept v0 e cs h s gh) (hst : Reopen.Storable v0.fatType e) : e.size ≤ cs.length * clusterBytesLen v0 := by
  have hx := hK.obj'
  have hft := hK.geom.fatType
  have hst' : Reopen.Storable gh.vol.fatType e := by rw [hft]; exact hst
  obtain ⟨_, _, _, hcl, hsz⟩ := slotOf_fields gh.vol.fatType e hst'
  have := hK.inv.med.tree.sizes h hx.dir _ hx.mem hx.file
  rw [hx.eff hK.inv, hx.effSize hK.inv, hcl, hsz, hK.chain hst] at this
  rw [← WriteRefines.sameGeom_clusterBytesLen hK.geom]
  rcases this with ⟨_, h2⟩ | ⟨_, h2⟩
  · rw [h2]; exact Nat.zero_le _
  · exact h2

end

/-! ### One call -/

/-- **One call.**  From `Kept`, a covered call that does not target the file: its licence (any licence
`StepLicensed` provides) is well formed, `NotNamed` for the file and names no FAT entry of a non-last cluster of the
chain of the file's directory; and the state after the call is `Kept` again (for a new ghost). -/
theorem kept_step {v0 : FatVolume} {e : DirEntry} {cs : List Nat} {h : Nat} {s : Mgr} {gh : Ghost} (hK : Kept v0 e cs h s gh)
    (hst : Reopen.Storable v0.fatType e) {op : Op} (hc : FsCovered v0 s op)
    (hn : ¬ Targets s h e.name (e.entryBlock, e.entryOffset) op) :
    ∃ L, LicenceFor gh s.files s.dirs s.dev.disk op L ∧ AllLicensed v0 s.dev.disk L (step s op).2.writes ∧
      (∀ i, (step s op).1.dev.disk.get i = (s.dev.disk.applyWrites (step s op).2.writes).get i) ∧
      LicWF v0 L ∧ NotNamed v0 L e.entryBlock e.entryOffset cs ∧
      (∀ c, c ∈ (dirChain gh.vol gh.G h).dropLast → c ∉ L.fatClusters) ∧
      ∃ gh', Kept v0 e cs h (step s op).1 gh' ∧
        ((∀ f, f ∈ s.files → fkey f = (e.entryBlock, e.entryOffset) → f.mode = .ReadOnly) → ¬ Opens s h e.name op →
          ∀ f, f ∈ (step s op).1.files → fkey f = (e.entryBlock, e.entryOffset) → f.mode = .ReadOnly) := by
  have hI := hK.inv
  have hM := medX_of_med hI.med
  have hg0 : WFGeom v0 := hK.geom.symm.wfGeom hI.med.geom
  have hft := hK.geom.fatType
  have hx := hK.obj'
  have hst' : Reopen.Storable gh.vol.fatType e := by rw [hft]; exact hst
  obtain ⟨hsn, _, _, hcl, _⟩ := slotOf_fields gh.vol.fatType e hst'
  obtain ⟨hn0, hn5, hlfn, hplain, hreg, hal, _, hin⟩ := hK.facts hst
  -- the licence
  obtain ⟨L, hSL⟩ := step_callOK hI hK.mirror op (nameCovered_all op)
  have hwf : LicWF v0 L := LicWF.sameGeom hK.geom (licenceFor_wf hI hSL.lic)
  obtain ⟨hnn, hav⟩ := licence_notNamed hI hx (by rw [hsn]; exact hn) hSL.lic
  rw [hcl, hK.chain hst] at hnn
  have hnn0 : NotNamed v0 L e.entryBlock e.entryOffset cs := NotNamed.sameGeom hK.geom hnn
  have hall : AllLicensed v0 s.dev.disk L (step s op).2.writes := (WriteSet.allLicensed_sameGeom hK.geom L _ _).1 hSL.all
  refine ⟨L, hSL.lic, hall, hSL.disk, hwf, hnn0, hav, ?_⟩
  -- the abstract step
  obtain ⟨a, hA⟩ := AbsFs.abs_total hI
  obtain ⟨gh', a', hI', hg', hA', hstep⟩ := AbsFs.fs_step_refines v0 hI hA hK.geom op hc
  have hgg : SameGeom gh.vol gh'.vol := hK.geom.symm.trans hg'
  obtain ⟨j, hj, hk⟩ := keepsA_of_obj hI hA hx
  have hmname : (metaOf gh.vol.fatType (slotOf gh.vol.fatType e)).name = e.name :=
    ((VolDisk.decode_fields gh.vol.fatType _).1).trans hsn
  have hk' := SurviveAbs.absStep_keeps hstep hk (fun hna => hn (by
    have := targets_of_namesA hA hj hna
    rw [hmname] at this
    exact this))
  have hh' : h ∈ dirIds gh'.dirs := by rw [← hA'.ids]; exact hk'.ids
  -- the frame of the call
  have hb := hI.med.blocksOK
  have hb' := hI'.med.blocksOK
  have hF : ∀ b i, (∀ L', L' ∈ [L] → ¬ Covers v0 L' b i) →
      ((step s op).1.dev.disk.get b).getD i 0 = (s.dev.disk.get b).getD i 0 := by
    intro b i hcov
    rw [hSL.disk b]
    exact allLicensed_frame (hcov L List.mem_cons_self) _ _ hall
  have hsp : ∀ L', L' ∈ [L] → Spares v0 L' e.entryBlock e.entryOffset cs := by
    intro L' hL'
    rw [List.mem_singleton.1 hL']
    exact spares_of_avoids hg0 hin hreg hal (avoids_of hwf hnn0)
  obtain ⟨f1, _, f3, _⟩ := spared_at hb hb' hF e.entryBlock e.entryOffset cs hsp
  have hFl' : FlushedOn v0 (step s op).1.dev.disk e cs := by
    refine ⟨by rw [f1]; exact hK.flushed.slot, ?_⟩
    rcases hK.flushed.chain with h1 | h1
    · exact .inl h1
    · exact .inr (f3 _ h1)
  -- the directory's chain has only grown
  have hpre : dirChain gh.vol gh.G h <+: dirChain gh'.vol gh'.G h := by
    rw [dirChain_sameGeom hgg]
    by_cases hf : isFixedRoot gh.vol h
    · unfold dirChain; rw [if_pos hf, if_pos hf]; exact List.prefix_refl _
    · have hf' : ¬ isFixedRoot gh'.vol h := by unfold isFixedRoot at hf ⊢; rw [hgg.fatType]; exact hf
      have hM' := medX_of_med hI'.med
      obtain ⟨m1, d1⟩ := dirChain_spec hM hx.dir hf
      obtain ⟨m2, d2⟩ := dirChain_spec hM' hh' hf'
      have c1 := med_chain hM m1
      have c2 := med_chain hM' m2
      rw [headD_of_head? d1] at c1
      rw [headD_of_head? d2] at c2
      have c2' : Chain gh.vol (step s op).1.dev.disk (dirHead gh.vol h) (chainOf gh'.G (dirHead gh.vol h)) := by
        have := ForestBase.chain_sameGeom hgg.symm c2
        have hdh : dirHead gh'.vol h = dirHead gh.vol h := by
          obtain ⟨a, b, hv⟩ := hgg
          rw [hv]; rfl
        rw [hdh] at this
        exact this
      have hdc1 : dirChain gh.vol gh.G h = chainOf gh.G (dirHead gh.vol h) := by unfold dirChain; rw [if_neg hf]
      have hdc2 : dirChain gh.vol gh'.G h = chainOf gh'.G (dirHead gh.vol h) := by unfold dirChain; rw [if_neg hf]
      rw [hdc1, hdc2]
      refine chain_prefix c1 c2' fun c hc => ?_
      have hcr : InRange gh.vol c := med_inRange hM m1 (List.dropLast_subset _ hc)
      have hraw : fatRaw v0 (step s op).1.dev.disk c = fatRaw v0 s.dev.disk c :=
        fatRaw_of_frame hg0 hwf (fun b i hcov => hF b i (fun L' hL' => by rw [List.mem_singleton.1 hL']; exact hcov))
          ((hK.geom.inRange c).1 hcr) (hav c (by rw [hdc1]; exact hc))
      rw [hK.geom.nextOf, hK.geom.nextOf]
      exact ForestBase.nextOf_congr rfl hraw
  -- the slot is still in its directory
  have hxm' : slotOf gh.vol.fatType e ∈ dirSlots gh'.vol (step s op).1.dev.disk gh'.G h := by
    refine mem_dirSlots_next hgg hx.memSlots ?_ hpre
    show slice ((step s op).1.dev.disk.get e.entryBlock) e.entryOffset 32 = e.serialize gh.vol.fatType
    rw [hFl'.slot, hft]
  have hobj' : Obj (step s op).1 gh' h (slotOf gh.vol.fatType e) ∧
      (beforeEnd (dirSlots gh'.vol (step s op).1.dev.disk gh'.G h))[j]? = some (slotOf gh.vol.fatType e) := by
    refine obj_of_keepsA hI' hA' hk' hxm' ?_ (slotOf_keep _ e hst' hn5 hlfn) ?_ ?_
    · rw [(slotOf_fields _ e hst').2.1]; exact hn0
    · rw [slotOf_isDir _ e hst']; exact hplain
    · rw [hsn, hmname]
  refine ⟨gh', ⟨hI', (hgg.mirror _).2 hSL.mirror, hg', hFl', by rw [← hft]; exact hobj'.1⟩, ?_⟩
  intro hro hno
  have hroA := roA_of_allRO hA hj hro
  have hroA' := SurviveAbs.absStep_ro hstep hk.slot hroA (fun ho => hno (by
    have := opens_of_opensA hA ho
    rw [hmname] at this
    exact this))
  exact allRO_of_roA hI' hA' hh' hobj'.2 hroA'

end Sdmmc.Lemmas.Survive
