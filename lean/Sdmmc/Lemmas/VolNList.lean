/-
Several open volumes (`Props/C03Multi.lean`): lists and their sub-lists of the elements satisfying a predicate — the
position `pidx p l k` an element at position `k` of `l` has in `l.filter p`, and how `getElem?`, `findIdx?`, `set`,
`modify`, `++`, `eraseIdx` and `swapRemove` commute with `filter`.
-/
import Sdmmc.Lemmas.VolApi2

namespace Sdmmc.Lemmas.VolN
open Sdmmc.Model

/-- The number of elements before position `k` that satisfy `p`: the position of `l[k]` in `l.filter p`. -/
def pidx {α : Type} (p : α → Bool) (l : List α) (k : Nat) : Nat := ((l.take k).filter p).length

theorem pidx_cons_succ {α : Type} (p : α → Bool) (a : α) (l : List α) (k : Nat) :
    pidx p (a :: l) (k + 1) = (if p a then 1 else 0) + pidx p l k := by
  unfold pidx
  rw [List.take_succ_cons, List.filter_cons]
  split
  · simp; omega
  · simp

theorem pidx_zero {α : Type} (p : α → Bool) (l : List α) : pidx p l 0 = 0 := by
  unfold pidx; simp

theorem getElem?_filter_pidx {α : Type} (p : α → Bool) : ∀ (l : List α) (k : Nat) (x : α), l[k]? = some x → p x = true →
    (l.filter p)[pidx p l k]? = some x
  | [], k, x, h, _ => by simp at h
  | a :: l, 0, x, h, hp => by
    have : a = x := by simpa using h
    subst this
    rw [pidx_zero, List.filter_cons, if_pos hp]
    rfl
  | a :: l, k + 1, x, h, hp => by
    have h' : l[k]? = some x := by simpa using h
    have ih := getElem?_filter_pidx p l k x h' hp
    rw [pidx_cons_succ, List.filter_cons]
    by_cases ha : p a = true
    · rw [if_pos ha, if_pos ha, Nat.add_comm, List.getElem?_cons_succ]; exact ih
    · rw [if_neg ha, if_neg ha, Nat.zero_add]; exact ih

theorem pidx_lt {α : Type} (p : α → Bool) (l : List α) (k : Nat) (x : α) (h : l[k]? = some x) (hp : p x = true) :
    pidx p l k < (l.filter p).length :=
  (List.getElem?_eq_some_iff.1 (getElem?_filter_pidx p l k x h hp)).1

theorem filter_set {α : Type} (p : α → Bool) : ∀ (l : List α) (k : Nat) (x y : α), l[k]? = some x → p x = true → p y = true →
    (l.set k y).filter p = (l.filter p).set (pidx p l k) y
  | [], k, x, y, h, _, _ => by simp at h
  | a :: l, 0, x, y, h, hx, hy => by
    have : a = x := by simpa using h
    subst this
    rw [pidx_zero, List.set_cons_zero, List.filter_cons, if_pos hy, List.filter_cons, if_pos hx, List.set_cons_zero]
  | a :: l, k + 1, x, y, h, hx, hy => by
    have h' : l[k]? = some x := by simpa using h
    have ih := filter_set p l k x y h' hx hy
    rw [pidx_cons_succ, List.set_cons_succ, List.filter_cons, List.filter_cons]
    by_cases ha : p a = true
    · rw [if_pos ha, if_pos ha, if_pos ha, Nat.add_comm, List.set_cons_succ, ih]
    · rw [if_neg ha, if_neg ha, if_neg ha, Nat.zero_add, ih]

/-- Replacing an element that does not satisfy `p` by another such element does not change `l.filter p`. -/
theorem filter_set_other {α : Type} (p : α → Bool) : ∀ (l : List α) (k : Nat) (x y : α), l[k]? = some x → p x = false → p y = false →
    (l.set k y).filter p = l.filter p
  | [], k, x, y, h, _, _ => by simp at h
  | a :: l, 0, x, y, h, hx, hy => by
    have : a = x := by simpa using h
    subst this
    rw [List.set_cons_zero, List.filter_cons, List.filter_cons]
    simp [hx, hy]
  | a :: l, k + 1, x, y, h, hx, hy => by
    have h' : l[k]? = some x := by simpa using h
    rw [List.set_cons_succ, List.filter_cons, List.filter_cons, filter_set_other p l k x y h' hx hy]

theorem modify_eq_set {α : Type} (l : List α) (k : Nat) (g : α → α) (x : α) (h : l[k]? = some x) :
    l.modify k g = l.set k (g x) := by
  induction l generalizing k with
  | nil => simp at h
  | cons a l ih =>
    cases k with
    | zero =>
      have : a = x := by simpa using h
      subst this
      simp
    | succ k =>
      have h' : l[k]? = some x := by simpa using h
      simp [ih k h']

theorem modify_of_none {α : Type} (l : List α) (k : Nat) (g : α → α) (h : l[k]? = none) : l.modify k g = l := by
  induction l generalizing k with
  | nil => simp
  | cons a l ih =>
    cases k with
    | zero => simp at h
    | succ k =>
      have h' : l[k]? = none := by simpa using h
      simp [ih k h']

theorem findIdx?_filter {α : Type} (p q : α → Bool) : ∀ (l : List α) (k : Nat) (x : α), l.findIdx? q = some k → l[k]? = some x →
    p x = true → (l.filter p).findIdx? q = some (pidx p l k)
  | [], k, x, h, _, _ => by simp at h
  | a :: l, k, x, h, hx, hp => by
    rw [List.findIdx?_cons] at h
    by_cases hq : q a = true
    · rw [if_pos hq] at h
      have hk : k = 0 := by injection h with h; exact h.symm
      subst hk
      have : a = x := by simpa using hx
      subst this
      rw [pidx_zero, List.filter_cons, if_pos hp, List.findIdx?_cons, if_pos hq]
    · rw [if_neg hq] at h
      cases hr : l.findIdx? q with
      | none => rw [hr] at h; simp at h
      | some j =>
        rw [hr] at h
        have hk : k = j + 1 := by
          have : some (j + 1) = some k := by simpa using h
          injection this with this; exact this.symm
        subst hk
        have hx' : l[j]? = some x := by simpa using hx
        have ih := findIdx?_filter p q l j x hr hx' hp
        rw [pidx_cons_succ, List.filter_cons]
        by_cases ha : p a = true
        · rw [if_pos ha, if_pos ha, List.findIdx?_cons, if_neg hq, ih]
          simp [Nat.add_comm]
        · rw [if_neg ha, if_neg ha, Nat.zero_add]; exact ih

theorem findIdx?_filter_none {α : Type} (p q : α → Bool) (l : List α) (h : l.findIdx? q = none) :
    (l.filter p).findIdx? q = none := by
  rw [List.findIdx?_eq_none_iff] at h ⊢
  intro x hx
  exact h x (List.mem_of_mem_filter hx)

/-- Removing an element that satisfies `p`. -/
theorem filter_eraseIdx {α : Type} (p : α → Bool) : ∀ (l : List α) (k : Nat) (x : α), l[k]? = some x → p x = true →
    (l.eraseIdx k).filter p = (l.filter p).eraseIdx (pidx p l k)
  | [], k, x, h, _ => by simp at h
  | a :: l, 0, x, h, hx => by
    have : a = x := by simpa using h
    subst this
    rw [pidx_zero, List.eraseIdx_cons_zero, List.filter_cons, if_pos hx, List.eraseIdx_cons_zero]
  | a :: l, k + 1, x, h, hx => by
    have h' : l[k]? = some x := by simpa using h
    have ih := filter_eraseIdx p l k x h' hx
    rw [pidx_cons_succ, List.eraseIdx_cons_succ, List.filter_cons, List.filter_cons]
    by_cases ha : p a = true
    · rw [if_pos ha, if_pos ha, if_pos ha, Nat.add_comm, List.eraseIdx_cons_succ, ih]
    · rw [if_neg ha, if_neg ha, if_neg ha, Nat.zero_add, ih]

/-- Removing an element that does not satisfy `p`. -/
theorem filter_eraseIdx_other {α : Type} (p : α → Bool) : ∀ (l : List α) (k : Nat) (x : α), l[k]? = some x → p x = false →
    (l.eraseIdx k).filter p = l.filter p
  | [], k, x, h, _ => by simp at h
  | a :: l, 0, x, h, hx => by
    have : a = x := by simpa using h
    subst this
    rw [List.eraseIdx_cons_zero, List.filter_cons]
    simp [hx]
  | a :: l, k + 1, x, h, hx => by
    have h' : l[k]? = some x := by simpa using h
    rw [List.eraseIdx_cons_succ, List.filter_cons, List.filter_cons, filter_eraseIdx_other p l k x h' hx]

/-- `swap_remove` of an element satisfying `p`, seen through the filter: the same up to order. -/
theorem swapRemove_filter_perm {α : Type} (p : α → Bool) (l : List α) (k : Nat) (x : α) (h : l[k]? = some x) (hx : p x = true) :
    ((swapRemove l k).filter p).Perm (swapRemove (l.filter p) (pidx p l k)) := by
  have h1 := (VolApi.swapRemove_perm l k x h).filter p
  rw [filter_eraseIdx p l k x h hx] at h1
  exact h1.trans (VolApi.swapRemove_perm (l.filter p) (pidx p l k) x (getElem?_filter_pidx p l k x h hx)).symm

theorem swapRemove_filter_other {α : Type} (p : α → Bool) (l : List α) (k : Nat) (x : α) (h : l[k]? = some x) (hx : p x = false) :
    ((swapRemove l k).filter p).Perm (l.filter p) := by
  have h1 := (VolApi.swapRemove_perm l k x h).filter p
  rwa [filter_eraseIdx_other p l k x h hx] at h1

/-- `pidx` only depends on which elements before `k` satisfy `p`. -/
theorem pidx_congr {α β : Type} (p : α → Bool) (q : β → Bool) (l : List α) (l' : List β) (h : l.map p = l'.map q) (k : Nat) :
    pidx p l k = pidx q l' k := by
  induction l generalizing l' k with
  | nil =>
    cases l' with
    | nil => unfold pidx; simp
    | cons b l' => simp at h
  | cons a l ih =>
    cases l' with
    | nil => simp at h
    | cons b l' =>
      rw [List.map_cons, List.map_cons] at h
      injection h with h1 h2
      cases k with
      | zero => rw [pidx_zero, pidx_zero]
      | succ k => rw [pidx_cons_succ, pidx_cons_succ, h1, ih l' h2 k]

theorem length_filter_add {α : Type} (p : α → Bool) (l : List α) :
    (l.filter p).length + (l.filter fun x => !p x).length = l.length := by
  induction l with
  | nil => rfl
  | cons a l ih =>
    rw [List.filter_cons, List.filter_cons]
    by_cases ha : p a = true
    · simp [ha]; omega
    · simp [ha]; omega

end Sdmmc.Lemmas.VolN
