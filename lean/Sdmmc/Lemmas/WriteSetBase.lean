/-
Base lemmas for C04 over whole API calls (`Sdmmc.Props.C04Api`; vocabulary: `Sdmmc.Spec.WriteSet`):

* `Licensed` / `AllLicensed`: monotone in the licence, independent of the two bookkeeping fields of
  the volume record (`SameGeom`), `AllLicensed` of a concatenation;
* `licensed_in_region`: a licensed write goes to a block of the FAT, root, data or info region — inside
  the partition, not block 0, not the boot sector;
* `fatWrite_other_entries`: what (a) means entry by entry;
* `DTrace dv dv' ws`, `LicD v L dv dv'`: the device went from `dv` to `dv'` by exactly the writes `ws`,
  all licensed; sequencing, weakening, calls that write nothing;
* `Sound s`: the standing hypotheses of an engine state (no fault scheduled, coherent cache, 512-byte
  blocks, `WFGeom`, hint ≥ 2, identical FAT copies).
-/
import Sdmmc.Spec.WriteSet
import Sdmmc.Lemmas.CrashBase
import Sdmmc.Lemmas.ReopenFlush

namespace Sdmmc.Lemmas.WriteSet
open Sdmmc.Model Sdmmc.Model.Fat Sdmmc.Spec
open Sdmmc.Lemmas.FBasic hiding NoFault Coherent

/-! ### The licence order -/

theorem Licence.le_refl (L : Licence) : L.le L := ⟨fun _ h => h, fun _ h => h, fun _ h => h, id, fun _ h => h⟩

theorem Licence.le_trans {A B C : Licence} (h1 : A.le B) (h2 : B.le C) : A.le C :=
  ⟨fun c h => h2.1 c (h1.1 c h), fun c h => h2.2.1 c (h1.2.1 c h), fun p h => h2.2.2.1 p (h1.2.2.1 p h),
   fun h => h2.2.2.2.1 (h1.2.2.2.1 h), fun r h => h2.2.2.2.2 r (h1.2.2.2.2 r h)⟩

theorem Licence.le_union_left (A B : Licence) : A.le (A.union B) :=
  ⟨fun _ h => List.mem_append_left _ h, fun _ h => List.mem_append_left _ h, fun _ h => List.mem_append_left _ h,
   fun h => by show (A.info || B.info) = true; rw [h]; rfl, fun _ h => List.mem_append_left _ h⟩

theorem Licence.le_union_right (A B : Licence) : B.le (A.union B) :=
  ⟨fun _ h => List.mem_append_right _ h, fun _ h => List.mem_append_right _ h, fun _ h => List.mem_append_right _ h,
   fun h => by show (A.info || B.info) = true; rw [h]; exact Bool.or_true _, fun _ h => List.mem_append_right _ h⟩

theorem Licence.none_le (L : Licence) : Licence.none.le L :=
  ⟨fun _ h => (by cases h), fun _ h => (by cases h), fun _ h => (by cases h), fun h => (by cases h), fun _ h => (by cases h)⟩

theorem licensed_mono {v : FatVolume} {d : Disk} {L L' : Licence} {w : Nat × Block} (hle : L.le L')
    (h : Licensed v d L w) : Licensed v d L' w := by
  rcases h with ⟨h1, h2, h3, h4⟩ | ⟨h1, c, hc, h2⟩ | ⟨h1, h2, ⟨off, ho⟩, h3⟩ | ⟨h1, h2, h3, h4, h5⟩ |
    ⟨h1, ⟨cs, lo, hi, c, hm, h2⟩, h3⟩
  · refine .inl ⟨h1, h2, fun i hi => h3 i ?_, h4⟩
    rintro ⟨c, hc, hh⟩
    exact hi ⟨c, hle.1 c hc, hh⟩
  · exact .inr (.inl ⟨h1, c, hle.2.1 c hc, h2⟩)
  · refine .inr (.inr (.inl ⟨h1, h2, ⟨off, hle.2.2.1 _ ho⟩, fun i hi => h3 i ?_⟩))
    rintro ⟨o, ho', hh⟩
    exact hi ⟨o, hle.2.2.1 _ ho', hh⟩
  · exact .inr (.inr (.inr (.inl ⟨hle.2.2.2.1 h1, h2, h3, h4, h5⟩)))
  · refine .inr (.inr (.inr (.inr ⟨h1, ⟨cs, lo, hi, c, hle.2.2.2.2 _ hm, h2⟩, fun i hi' => h3 i ?_⟩)))
    rintro ⟨cs', lo', hi'', p, hm', hh⟩
    exact hi' ⟨cs', lo', hi'', p, hle.2.2.2.2 _ hm', hh⟩

theorem allLicensed_mono {v : FatVolume} {L L' : Licence} (hle : L.le L') : ∀ {ws : List (Nat × Block)} {d : Disk},
    AllLicensed v d L ws → AllLicensed v d L' ws
  | [], _, _ => trivial
  | _ :: _, _, h => ⟨licensed_mono hle h.1, allLicensed_mono hle h.2⟩

theorem allLicensed_append (v : FatVolume) (L : Licence) : ∀ (ws1 ws2 : List (Nat × Block)) (d : Disk),
    AllLicensed v d L (ws1 ++ ws2) ↔ AllLicensed v d L ws1 ∧ AllLicensed v (d.applyWrites ws1) L ws2
  | [], ws2, d => by simp [AllLicensed]
  | w :: ws1, ws2, d => by
    rw [List.cons_append, Disk.applyWrites_cons]
    show Licensed v d L w ∧ AllLicensed v (d.set w.1 w.2) L (ws1 ++ ws2) ↔ _
    rw [allLicensed_append v L ws1 ws2]
    exact ⟨fun h => ⟨⟨h.1, h.2.1⟩, h.2.2⟩, fun h => ⟨h.1.1, h.1.2, h.2⟩⟩

/-- `Licensed` reads the geometry only. -/
theorem licensed_sameGeom {v v' : FatVolume} (hs : SameGeom v v') (d : Disk) (L : Licence) (w : Nat × Block) :
    Licensed v' d L w ↔ Licensed v d L w := by
  obtain ⟨a, b, rfl⟩ := hs
  exact Iff.rfl

theorem allLicensed_sameGeom {v v' : FatVolume} (hs : SameGeom v v') (L : Licence) :
    ∀ (ws : List (Nat × Block)) (d : Disk), AllLicensed v' d L ws ↔ AllLicensed v d L ws
  | [], _ => Iff.rfl
  | w :: ws, d => by
    show Licensed v' d L w ∧ _ ↔ Licensed v d L w ∧ _
    rw [licensed_sameGeom hs, allLicensed_sameGeom hs L ws]

/-! ### 1. Regions -/

/-- **A licensed write stays where it belongs**: its block lies in the FAT region (a), the data region
(b), the FAT16 root or the data region (c), the info region (d) — hence strictly inside the partition:
never block 0, never the boot sector, never a reserved block other than the info sector, never a block
behind the last cluster, never a block of another partition. -/
theorem licensed_in_region (v : FatVolume) (hg : WFGeom v) (d : Disk) (L : Licence) (w : Nat × Block)
    (h : Licensed v d L w) :
    (regionOf v w.1 = .fat ∨ regionOf v w.1 = .root ∨ regionOf v w.1 = .data ∨ regionOf v w.1 = .info) ∧
    InPartition v w.1 ∧ v.lbaStart < w.1 ∧ w.1 ≠ 0 := by
  have hreg : regionOf v w.1 = .fat ∨ regionOf v w.1 = .root ∨ regionOf v w.1 = .data ∨ regionOf v w.1 = .info := by
    rcases h with ⟨⟨c, hc, hb⟩, _⟩ | ⟨_, c, _, hr, h1, h2⟩ | ⟨h1, _⟩ | ⟨_, h32, hi, _⟩ | ⟨_, ⟨_, _, _, c, _, _, hr, h1, h2⟩, _⟩
    · left
      obtain ⟨r1, r2⟩ := FatLens.fat_blocks_in_fat_region v hg c hc
      rcases hb with hb | hb
      · rw [hb]; exact r1
      · exact r2 _ hb
    · right; right; left
      have := FatLens.cluster_blocks_in_data_region v hg c (w.1 - clusterToBlock v c) hr.1 hr.2 (by omega)
      rw [show clusterToBlock v c + (w.1 - clusterToBlock v c) = w.1 by omega] at this
      exact this
    · rcases h1 with h1 | h1
      · exact .inr (.inl h1)
      · exact .inr (.inr (.inl h1))
    · right; right; right
      rw [hi]
      exact FatLens.info_block_in_info_region v hg h32 (Reopen.fatStart_le_numBlocks v hg)
    · right; right; left
      have := FatLens.cluster_blocks_in_data_region v hg c (w.1 - clusterToBlock v c) hr.1 hr.2 (by omega)
      rw [show clusterToBlock v c + (w.1 - clusterToBlock v c) = w.1 by omega] at this
      exact this
  have hin := FatLens.region_inside_partition v w.1 (by
    rcases hreg with h | h | h | h <;> rw [h] <;> simp)
  exact ⟨hreg, ⟨Nat.le_of_lt hin.1, hin.2⟩, hin.1, by omega⟩

/-- Every write of a licensed list stays in those regions. -/
theorem allLicensed_in_region (v : FatVolume) (hg : WFGeom v) (L : Licence) : ∀ (ws : List (Nat × Block)) (d : Disk),
    AllLicensed v d L ws → ∀ w, w ∈ ws →
      (regionOf v w.1 = .fat ∨ regionOf v w.1 = .root ∨ regionOf v w.1 = .data ∨ regionOf v w.1 = .info) ∧
      InPartition v w.1 ∧ v.lbaStart < w.1 ∧ w.1 ≠ 0
  | [], _, _, _, hw => nomatch hw
  | w0 :: ws, d, h, w, hw => by
    rcases List.mem_cons.1 hw with rfl | hw
    · exact licensed_in_region v hg d L _ h.1
    · exact allLicensed_in_region v hg L ws _ h.2 w hw

/-! ### (a), entry by entry -/

/-- What (a) says about the entries of the block: the entry of every cluster that is not licensed reads
the same in the payload as on the medium (all 32 bits on FAT32). -/
theorem fatWrite_other_entries {v : FatVolume} {d : Disk} {L : Licence} {w : Nat × Block} (h : FatWrite v d L w)
    (c : Nat) (_hb : HoldsEntry v w.1 c)
    (hc : ∀ c', c' ∈ L.fatClusters → HoldsEntry v w.1 c' → fatEntOffset v c' = fatEntOffset v c → False)
    (hdis : ∀ c', c' ∈ L.fatClusters → HoldsEntry v w.1 c' → fatEntOffset v c' ≠ fatEntOffset v c →
      fatEntOffset v c' + entryWidth v.fatType ≤ fatEntOffset v c ∨ fatEntOffset v c + entryWidth v.fatType ≤ fatEntOffset v c') :
    entryIn v w.2 c = entryIn v (d.get w.1) c := by
  obtain ⟨_, _, h3, _⟩ := h
  unfold entryIn
  apply DirFrames.rawFatEntry_congr
  intro i h1 h2
  apply h3
  rintro ⟨c', hc', hh, h4, h5⟩
  by_cases he : fatEntOffset v c' = fatEntOffset v c
  · exact hc c' hc' hh he
  · rcases hdis c' hc' hh he with h6 | h6 <;> omega

/-! ### Media with the same blocks -/

/-- The two media hold the same blocks (`Disk` is a search tree: equal contents need not be equal trees). -/
def Eqv (d d' : Disk) : Prop := ∀ i, d.get i = d'.get i

theorem Eqv.refl (d : Disk) : Eqv d d := fun _ => rfl
theorem Eqv.of_eq {d d' : Disk} (h : d = d') : Eqv d d' := fun _ => by rw [h]
theorem Eqv.symm {d d' : Disk} (h : Eqv d d') : Eqv d' d := fun i => (h i).symm
theorem Eqv.trans {a b c : Disk} (h1 : Eqv a b) (h2 : Eqv b c) : Eqv a c := fun i => (h1 i).trans (h2 i)

theorem Eqv.set {d d' : Disk} (h : Eqv d d') (i : Nat) (b : Block) : Eqv (d.set i b) (d'.set i b) := by
  intro j
  rw [Disk.get_set, Disk.get_set, h j]

theorem Eqv.applyWrites {d d' : Disk} (h : Eqv d d') : ∀ ws : List (Nat × Block), Eqv (d.applyWrites ws) (d'.applyWrites ws) := by
  intro ws
  induction ws generalizing d d' with
  | nil => exact h
  | cons w ws ih => rw [Disk.applyWrites_cons, Disk.applyWrites_cons]; exact ih (h.set w.1 w.2)

theorem licensed_congr {v : FatVolume} {d d' : Disk} (h : Eqv d d') (L : Licence) (w : Nat × Block) :
    Licensed v d L w ↔ Licensed v d' L w := by
  unfold Licensed FatWrite SlotWrite InfoWrite RangeWrite
  rw [h w.1]

theorem allLicensed_congr {v : FatVolume} (L : Licence) : ∀ (ws : List (Nat × Block)) {d d' : Disk}, Eqv d d' →
    (AllLicensed v d L ws ↔ AllLicensed v d' L ws)
  | [], _, _, _ => Iff.rfl
  | w :: ws, d, d', h => by
    show Licensed v d L w ∧ _ ↔ Licensed v d' L w ∧ _
    rw [licensed_congr h, allLicensed_congr L ws (h.set w.1 w.2)]

/-! ### Traces on the device -/

/-- The device went from `dv` to `dv'` by exactly the writes `ws` (oldest first). -/
structure DTrace (dv dv' : Dev) (ws : List (Nat × Block)) : Prop where
  wlog : dv'.wlog = ws.reverse ++ dv.wlog
  disk : Eqv dv'.disk (dv.disk.applyWrites ws)

theorem DTrace.same {dv dv' : Dev} (hw : dv'.wlog = dv.wlog) (hd : dv'.disk = dv.disk) : DTrace dv dv' [] :=
  ⟨by rw [hw]; rfl, by rw [hd]; exact Eqv.refl _⟩

theorem DTrace.trans {a b c : Dev} {ws1 ws2 : List (Nat × Block)} (h1 : DTrace a b ws1) (h2 : DTrace b c ws2) :
    DTrace a c (ws1 ++ ws2) :=
  ⟨by rw [h2.wlog, h1.wlog, List.reverse_append, List.append_assoc],
   by rw [Disk.applyWrites_append]; exact h2.disk.trans (h1.disk.applyWrites ws2)⟩

/-- From a write log given newest first, as the engine lemmas state it. -/
theorem DTrace.of_log {dv dv' : Dev} (log : List (Nat × Block)) (hw : dv'.wlog = log ++ dv.wlog)
    (hd : Eqv dv'.disk (dv.disk.applyWrites log.reverse)) : DTrace dv dv' log.reverse :=
  ⟨by rw [List.reverse_reverse]; exact hw, hd⟩

/-- The device went from `dv` to `dv'` by writes that are all within the licence `L` (for the geometry
`v`), each judged against the medium before it. -/
def LicD (v : FatVolume) (L : Licence) (dv dv' : Dev) : Prop :=
  ∃ ws, DTrace dv dv' ws ∧ AllLicensed v dv.disk L ws

theorem LicD.same {v : FatVolume} {L : Licence} {dv dv' : Dev} (hw : dv'.wlog = dv.wlog) (hd : dv'.disk = dv.disk) :
    LicD v L dv dv' := ⟨[], DTrace.same hw hd, trivial⟩

theorem LicD.refl (v : FatVolume) (L : Licence) (dv : Dev) : LicD v L dv dv := LicD.same rfl rfl

theorem LicD.trans {v : FatVolume} {L : Licence} {a b c : Dev} (h1 : LicD v L a b) (h2 : LicD v L b c) : LicD v L a c := by
  obtain ⟨ws1, t1, l1⟩ := h1
  obtain ⟨ws2, t2, l2⟩ := h2
  exact ⟨ws1 ++ ws2, t1.trans t2, (allLicensed_append v L ws1 ws2 a.disk).2 ⟨l1, (allLicensed_congr L ws2 t1.disk).1 l2⟩⟩

theorem LicD.mono {v : FatVolume} {L L' : Licence} {a b : Dev} (hle : L.le L') (h : LicD v L a b) : LicD v L' a b := by
  obtain ⟨ws, t, l⟩ := h
  exact ⟨ws, t, allLicensed_mono hle l⟩

theorem LicD.sameGeom {v v' : FatVolume} {L : Licence} {a b : Dev} (hs : SameGeom v v') (h : LicD v' L a b) : LicD v L a b := by
  obtain ⟨ws, t, l⟩ := h
  exact ⟨ws, t, (allLicensed_sameGeom hs L ws _).1 l⟩

/-- A computation that did not write. -/
theorem LicD.of_ro {v : FatVolume} {L : Licence} {s s' : FS} (h : FatOps.RO s s') : LicD v L s.dev s'.dev :=
  LicD.same h.wlog h.disk

/-- One licensed write. -/
theorem LicD.one {v : FatVolume} {L : Licence} {dv dv' : Dev} (w : Nat × Block)
    (hw : dv'.wlog = w :: dv.wlog) (hd : dv'.disk = dv.disk.set w.1 w.2) (hl : Licensed v dv.disk L w) :
    LicD v L dv dv' :=
  ⟨[w], ⟨by rw [hw]; rfl, by rw [hd]; exact Eqv.refl _⟩, hl, trivial⟩

/-- The writes of a licensed step, as a list. -/
theorem LicD.writes {v : FatVolume} {L : Licence} {dv dv' : Dev} (h : LicD v L dv dv') :
    ∃ ws, dv'.wlog = ws.reverse ++ dv.wlog ∧ (∀ i, dv'.disk.get i = (dv.disk.applyWrites ws).get i) ∧
      AllLicensed v dv.disk L ws := by
  obtain ⟨ws, t, l⟩ := h
  exact ⟨ws, t.wlog, t.disk, l⟩

/-! ### The standing hypotheses -/

/-- No device fault scheduled, coherent cache, 512-byte blocks, sane geometry, hint ≥ 2, and FAT copy 2
identical to copy 1. -/
structure Sound (s : FS) : Prop where
  ready : Ready s
  mirror : Mirror s.vol s.dev.disk

theorem Sound.noFault {s : FS} (h : Sound s) : NoFault s := h.ready.noFault
theorem Sound.coherent {s : FS} (h : Sound s) : Coherent s := h.ready.coherent
theorem Sound.blocksOK {s : FS} (h : Sound s) : BlocksOK s.dev.disk := h.ready.blocksOK
theorem Sound.geom {s : FS} (h : Sound s) : WFGeom s.vol := h.ready.geom
theorem Sound.hint {s : FS} (h : Sound s) : HintOK s.vol := h.ready.hint

/-- A read-only step keeps them. -/
theorem Sound.of_ro {s s' : FS} (h : Sound s) (hro : FatOps.RO s s') : Sound s' := by
  refine ⟨⟨hro.noFault h.noFault, hro.coherent h.coherent, ?_, ?_, ?_⟩, ?_⟩
  · intro i; rw [hro.disk]; exact h.blocksOK i
  · rw [hro.vol]; exact h.geom
  · rw [hro.vol]; exact h.hint
  · rw [hro.vol, hro.disk]; exact h.mirror

end Sdmmc.Lemmas.WriteSet
