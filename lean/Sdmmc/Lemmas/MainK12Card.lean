/-
Bridging lemmas for `Props/C12Main2.lean`, part 2: the specification card never changes its timing
parameter `initPolls`; and re-identification of a card that is STILL BUSY — CMD0 is sent without
waiting (as the specification allows) and ends the busy state, so `acquire` on a busy card is
`acquire` on the same card not busy.
-/
import Sdmmc.Lemmas.MainK12Bus
import Sdmmc.Props.C12EndToEnd

namespace Sdmmc.Lemmas.MainK12
open Sdmmc.Model Sdmmc.Spec.Card Sdmmc.Model.Sd Sdmmc.Lemmas.Sd Sdmmc.Gen Sdmmc.Lemmas.SdCardSim
open Sdmmc.Lemmas.SdCardSim2

/-! ### `initPolls` is a constant of the card -/

theorem respond_ip (c : Card) (b) : (respond c b).initPolls = c.initPolls := rfl
theorem violate_ip (c : Card) (w) : (violate c w).initPolls = c.initPolls := rfl

set_option linter.unusedSimpArgs false in
theorem execCommand_initPolls (c : Card) (idx arg : Nat) : (execCommand c idx arg).initPolls = c.initPolls := by
  unfold execCommand
  simp only []
  repeat' split
  all_goals simp only [respond_ip, violate_ip, respond, violate]

set_option linter.unusedSimpArgs false in
theorem frameDone_initPolls (c : Card) (f) : (frameDone c f).initPolls = c.initPolls := by
  unfold frameDone
  simp only []
  repeat' split
  all_goals simp only [execCommand_initPolls, respond_ip, violate_ip]

set_option linter.unusedSimpArgs false in
theorem step_initPolls (c : Card) (x : UInt8) : (step c x).1.initPolls = c.initPolls := by
  unfold step
  simp only []
  repeat' split
  all_goals simp only [frameDone_initPolls, violate_ip, violate]

theorem run_fst_cons (c : Card) (x : UInt8) (xs : List UInt8) : (run c (x :: xs)).1 = (run (step c x).1 xs).1 := by
  simp only [run]

theorem run_initPolls (xs : List UInt8) : ∀ c : Card, (run c xs).1.initPolls = c.initPolls := by
  induction xs with
  | nil => intro c; rfl
  | cons x xs ih => intro c; rw [run_fst_cons, ih, step_initPolls]

/-- Every public call leaves the card's `initPolls` as it was. -/
theorem call_initPolls (c : Call) (s : St Card) : (call cardBus c s).2.bus.initPolls = s.bus.initPolls :=
  SdBus.call_bk cardBus (fun b => b.initPolls = s.bus.initPolls)
    (fun b out h => by
      show (run b out).1.initPolls = _
      rw [run_initPolls]; exact h)
    (fun b h => h) c s rfl

/-! ### CMD0 to a busy card -/

/-- One busy byte less (none if the card is not busy). -/
def busyDec (c : Card) : Card := setBusy c (c.busyLeft - 1)

@[simp] theorem busyDec_cmdBuf (c : Card) : (busyDec c).cmdBuf = c.cmdBuf := rfl
@[simp] theorem busyDec_out (c : Card) : (busyDec c).out = c.out := rfl
@[simp] theorem busyDec_phase (c : Card) : (busyDec c).phase = c.phase := rfl
@[simp] theorem setBuf_phase (c : Card) (b) : (setBuf c b).phase = c.phase := rfl

/-- The first byte of a CMD0 frame is accepted by a busy card without a violation. -/
theorem step_start_busy (c : Card) (hb : c.cmdBuf = []) (hp : c.phase = .ready) (ho : c.out = [])
    (x : UInt8) (hx : x.toNat / 64 = 1) (h0 : x.toNat % 64 = 0) : (step c x).1 = setBuf (busyDec c) [x] := by
  rcases c with ⟨kind, mem, csd, cap, ncr, nac, busy, initPolls, idle, spiMode, crcOn, appCmd, cmd8Seen,
    initLeft, initialised, out, busyLeft, cmdBuf, phase, streaming, preErase, violations, commands⟩
  simp only at hb hp ho
  subst hb hp ho
  cases busyLeft <;> simp [step, setBuf, busyDec, setBusy, hx, h0]

theorem step_mid_busy (c : Card) (y : UInt8) (ys : List UInt8) (hb : c.cmdBuf = y :: ys) (ho : c.out = [])
    (x : UInt8) (hl : (y :: ys ++ [x]).length ≠ 6) : (step c x).1 = setBuf (busyDec c) (y :: ys ++ [x]) := by
  rcases c with ⟨kind, mem, csd, cap, ncr, nac, busy, initPolls, idle, spiMode, crcOn, appCmd, cmd8Seen,
    initLeft, initialised, out, busyLeft, cmdBuf, phase, streaming, preErase, violations, commands⟩
  simp only at hb ho
  subst hb ho
  have hl' : ¬ (ys.length + 1 + 1 = 6) := by simpa using hl
  cases busyLeft <;> simp [step, setBuf, busyDec, setBusy, hl']

theorem step_last_busy (c : Card) (y : UInt8) (ys : List UInt8) (hb : c.cmdBuf = y :: ys) (ho : c.out = [])
    (x : UInt8) (hl : (y :: ys ++ [x]).length = 6) :
    (step c x).1 = frameDone (setBuf (busyDec c) []) (y :: ys ++ [x]) := by
  rcases c with ⟨kind, mem, csd, cap, ncr, nac, busy, initPolls, idle, spiMode, crcOn, appCmd, cmd8Seen,
    initLeft, initialised, out, busyLeft, cmdBuf, phase, streaming, preErase, violations, commands⟩
  simp only at hb ho
  subst hb ho
  have hl' : ys.length + 1 + 1 = 6 := by simpa using hl
  cases busyLeft <;> simp [step, setBuf, busyDec, setBusy, hl']

/-- Bytes of a frame clocked into a card that has begun to receive one (fewer than six in all): they
are collected; the busy counter goes down on the side. -/
theorem feed_mid : ∀ (xs : List UInt8) (c : Card) (buf : List UInt8), c.cmdBuf = buf → buf ≠ [] → c.out = [] →
    buf.length + xs.length < 6 → ∃ k, (run c xs).1 = setBuf (setBusy c k) (buf ++ xs) := by
  intro xs
  induction xs with
  | nil =>
    intro c buf hb _ _ _
    refine ⟨c.busyLeft, ?_⟩
    subst hb
    simp only [run, List.append_nil]
    rfl
  | cons x xs ih =>
    intro c buf hb hne ho hl
    obtain ⟨y, ys, rfl⟩ : ∃ y ys, buf = y :: ys := by
      cases buf with
      | nil => exact absurd rfl hne
      | cons y ys => exact ⟨y, ys, rfl⟩
    have hstep := step_mid_busy c y ys hb ho x (by simp only [List.length_cons, List.length_append, List.length_nil] at hl ⊢; omega)
    obtain ⟨k, hk⟩ := ih (setBuf (busyDec c) (y :: ys ++ [x])) (y :: ys ++ [x]) rfl (by simp) ho
      (by simp only [List.length_cons, List.length_append, List.length_nil] at hl ⊢; omega)
    refine ⟨k, ?_⟩
    rw [run_fst_cons, hstep, hk]
    simp only [List.cons_append, List.append_assoc, List.nil_append]
    rfl

/-- A CMD0 frame clocked into a card that is between commands — busy or not — resets it: the card
afterwards is the card after CMD0, whatever `busyLeft` was. -/
theorem run_frame0_busy (c : Card) (hb : c.cmdBuf = []) (hp : c.phase = .ready) (ho : c.out = [])
    (hs : c.streaming = none) :
    (run c (frame 0 0)).1 =
      setOut (initCard c (c.commands + 1) true false false false c.initPolls) (List.replicate c.ncr 0xFF ++ [0x01]) := by
  obtain ⟨x0, x1, x2, x3, x4, x5, hf⟩ := frame_six 0 0
  have hfd : ∀ c' : Card, frameDone c' [x0, x1, x2, x3, x4, x5] = execCommand c' 0 0 := fun c' => by
    rw [← hf]; exact frameDone_frame c' 0 0 (by decide) (by decide)
  have hx0 : x0 = 0x40 := by
    have : (frame 0 0).head? = some 0x40 := by decide +kernel
    rw [hf] at this
    simpa using this
  rw [hf]
  rw [run_fst_cons, step_start_busy c hb hp ho x0 (by rw [hx0]; decide) (by rw [hx0]; decide)]
  obtain ⟨k, hk⟩ := feed_mid [x1, x2, x3, x4] (setBuf (busyDec c) [x0]) [x0] rfl (by simp) ho (by simp)
  have hsplit : (run (setBuf (busyDec c) [x0]) [x1, x2, x3, x4, x5]).1 =
      (step (run (setBuf (busyDec c) [x0]) [x1, x2, x3, x4]).1 x5).1 := by
    simp only [run_fst_cons]
    rfl
  simp only [List.cons_append, List.nil_append] at hk
  rw [hsplit, hk]
  rw [step_last_busy (setBuf (setBusy (setBuf (busyDec c) [x0]) k) [x0, x1, x2, x3, x4]) x0 [x1, x2, x3, x4] rfl ho x5
    (by simp)]
  simp only [List.cons_append, List.nil_append]
  have hc6 : setBuf (busyDec (setBuf (setBusy (setBuf (busyDec c) [x0]) k) [x0, x1, x2, x3, x4])) [] = setBusy c (k - 1) := by
    rcases c with ⟨kind, mem, csd, cap, ncr, nac, busy, initPolls, idle, spiMode, crcOn, appCmd, cmd8Seen,
      initLeft, initialised, out, busyLeft, cmdBuf, phase, streaming, preErase, violations, commands⟩
    simp only at hb
    subst hb
    rfl
  rw [hc6, hfd (setBusy c (k - 1)), exec0 (setBusy c (k - 1)) hb hs 0]
  rfl

theorem xferEv_cmd_run (f : Bytes) (s : St Card) :
    xferEv cardBus (.cmd f) s =
      (.ok (run s.bus f).2, { s with bus := (run s.bus f).1, events := .cmd f :: s.events }) := by
  simp only [xferEv, cardBus, Event.bytes]

/-- `card_command(CMD0, 0)` does the same to a busy card as to the same card not busy. -/
theorem cardCommand0_busy_eq (s : St Card) (hb : s.bus.cmdBuf = []) (hp : s.bus.phase = .ready)
    (ho : s.bus.out = []) (hs : s.bus.streaming = none) :
    cardCommand cardBus CMD0 0 s = cardCommand cardBus CMD0 0 { s with bus := setBusy s.bus 0 } := by
  have h1 := run_frame0_busy s.bus hb hp ho hs
  have h2 := run_frame0_busy (setBusy s.bus 0) hb hp ho hs
  unfold cardCommand
  dsimp only
  rw [if_neg (show ¬ (CMD0 ≠ CMD0 ∧ CMD0 ≠ CMD12) by decide)]
  simp only [bind_apply, xferEv_cmd_run, show CMD0 = 0 from rfl, h1, h2]
  rfl

/-- … hence so does `acquire`. -/
theorem acquire_busy_eq (s : St Card) (hb : s.bus.cmdBuf = []) (hp : s.bus.phase = .ready)
    (ho : s.bus.out = []) (hs : s.bus.streaming = none) :
    acquire cardBus s = acquire cardBus { s with bus := setBusy s.bus 0 } := by
  have hc := cardCommand0_busy_eq s hb hp ho hs
  have hE : ∀ n, enterSpiMode cardBus n s = enterSpiMode cardBus n { s with bus := setBusy s.bus 0 } := by
    intro n
    cases n <;> simp only [enterSpiMode, enterSpiModeStep, bind_apply, attempt_apply, hc]
  rw [acquire_eq, acquireBody_eq]
  simp only [bind_apply, attempt_apply, get_apply, hE]

/-- Identification of a card that is between commands, in ANY protocol state (initialised or not,
CRC checking on or off) and busy for ANY number of bytes: as `C12EndToEnd.acquire_correct`. -/
theorem acquire_correct_busy (s : St Card) (hb : s.bus.cmdBuf = []) (hp : s.bus.phase = .ready)
    (ho : s.bus.out = []) (hs : s.bus.streaming = none)
    (hncr : s.bus.ncr ≤ DEFAULT_COMMAND_RETRIES) (hpolls : s.bus.initPolls ≤ DEFAULT_COMMAND_RETRIES) :
    ∃ s', acquire cardBus s = (.ok (), s') ∧ s'.cardType = some (Props.C12EndToEnd.typeOfKind s.bus.kind) ∧
      Props.C12EndToEnd.Settled s'.bus ∧ s'.bus.busyLeft = 0 ∧ s'.bus.crcOn = s.useCrc ∧
      s'.bus.kind = s.bus.kind ∧ s'.bus.capacity = s.bus.capacity ∧ s'.bus.csd = s.bus.csd ∧
      s'.bus.ncr = s.bus.ncr ∧ s'.bus.nac = s.bus.nac ∧ s'.bus.busy = s.bus.busy ∧
      s'.bus.mem = s.bus.mem ∧ s'.bus.violations = s.bus.violations ∧ s'.useCrc = s.useCrc ∧
      s'.bus.stopGap = s.bus.stopGap := by
  rw [acquire_busy_eq s hb hp ho hs]
  exact Props.C12EndToEnd.acquire_correct { s with bus := setBusy s.bus 0 } ⟨hb, hp, hs, rfl, ho⟩ hncr hpolls

end Sdmmc.Lemmas.MainK12
