/-
C11 — every function of `Sdmmc.Model.Fat` is `FaultStrict` (`makeDir`: `FaultWeak`), and
respects every relation that the cache primitives respect (`F.Inv R`, used with
`R = FailedLe`: `failed` never decreases, and for the reading functions with `R = NoWrite`).
-/
import Sdmmc.Lemmas.FaultBase

namespace Sdmmc.Lemmas.Fault

open Sdmmc.Model Sdmmc.Model.Fat

/-! ### `FaultStrict` -/

theorem updateFat_strict (c n : Nat) : FaultStrict (updateFat c n) := by
  unfold updateFat; fault_auto

theorem nextCluster_strict (c : Nat) : FaultStrict (nextCluster c) := by
  unfold nextCluster; fault_auto

theorem findNextFreeCluster_strict (fuel cur endC : Nat) : FaultStrict (findNextFreeCluster fuel cur endC) := by
  induction fuel generalizing cur with
  | zero => unfold findNextFreeCluster; fault_auto
  | succ n ih => unfold findNextFreeCluster; fault_auto

theorem findNextFree_strict (a b : Nat) : FaultStrict (findNextFree a b) := findNextFreeCluster_strict _ _ _

theorem zeroBlocks_strict (n first : Nat) : FaultStrict (zeroBlocks n first) := by
  induction n generalizing first with
  | zero => unfold zeroBlocks; fault_auto
  | succ n ih => unfold zeroBlocks; fault_auto

theorem allocCluster_strict (prev : Option Nat) (zero : Bool) : FaultStrict (allocCluster prev zero) := by
  have := findNextFree_strict
  have := zeroBlocks_strict
  have := updateFat_strict
  unfold allocCluster; fault_auto

theorem truncateLoop_strict (fuel next : Nat) : FaultStrict (truncateLoop fuel next) := by
  have := nextCluster_strict
  have := updateFat_strict
  induction fuel generalizing next with
  | zero => unfold truncateLoop; fault_auto
  | succ n ih => unfold truncateLoop; fault_auto

theorem truncateClusterChain_strict (c : Nat) : FaultStrict (truncateClusterChain c) := by
  have := nextCluster_strict
  have := updateFat_strict
  have := truncateLoop_strict
  unfold truncateClusterChain; fault_auto

theorem freeClusterChain_strict (c : Nat) : FaultStrict (freeClusterChain c) := by
  have := truncateClusterChain_strict
  have := updateFat_strict
  unfold freeClusterChain; fault_auto

theorem updateInfoSector_strict : FaultStrict updateInfoSector := by
  unfold updateInfoSector; fault_auto

theorem writeEntryToDisk_strict (e : DirEntry) : FaultStrict (writeEntryToDisk e) := by
  unfold writeEntryToDisk; fault_auto

theorem iterateBlocks_strict (n b : Nat) : FaultStrict (iterateBlocks n b) := by
  induction n generalizing b with
  | zero => unfold iterateBlocks; fault_auto
  | succ n ih => unfold iterateBlocks; fault_auto

theorem iterateWalk_strict (fuel : Nat) (w : DirWalk) : FaultStrict (iterateWalk fuel w) := by
  have := nextCluster_strict
  have := iterateBlocks_strict
  induction fuel generalizing w with
  | zero => unfold iterateWalk; fault_auto
  | succ n ih => unfold iterateWalk; fault_auto

theorem iterateRaw_strict (d : Nat) : FaultStrict (iterateRaw d) := by
  have := iterateWalk_strict
  unfold iterateRaw; fault_auto

theorem findBlocks_strict (name : Bytes) (n b : Nat) : FaultStrict (findBlocks name n b) := by
  induction n generalizing b with
  | zero => unfold findBlocks; fault_auto
  | succ n ih => unfold findBlocks; fault_auto

theorem findWalk_strict (name : Bytes) (fuel : Nat) (w : DirWalk) : FaultStrict (findWalk name fuel w) := by
  have := nextCluster_strict
  have := findBlocks_strict
  induction fuel generalizing w with
  | zero => unfold findWalk; fault_auto
  | succ n ih => unfold findWalk; fault_auto

theorem findDirectoryEntry_strict (d : Nat) (name : Bytes) : FaultStrict (Fat.findDirectoryEntry d name) := by
  have := findWalk_strict
  unfold Fat.findDirectoryEntry; fault_auto

theorem deleteBlocks_strict (name : Bytes) (n b : Nat) : FaultStrict (deleteBlocks name n b) := by
  induction n generalizing b with
  | zero => unfold deleteBlocks; fault_auto
  | succ n ih => unfold deleteBlocks; fault_auto

theorem deleteWalk_strict (name : Bytes) (fuel : Nat) (w : DirWalk) : FaultStrict (deleteWalk name fuel w) := by
  have := nextCluster_strict
  have := deleteBlocks_strict
  induction fuel generalizing w with
  | zero => unfold deleteWalk; fault_auto
  | succ n ih => unfold deleteWalk; fault_auto

theorem deleteDirectoryEntry_strict (d : Nat) (name : Bytes) : FaultStrict (deleteDirectoryEntry d name) := by
  have := deleteWalk_strict
  unfold deleteDirectoryEntry; fault_auto

theorem writeNewBlocks_strict (name : Bytes) (att fc : Nat) (now : Timestamp) (n b : Nat) :
    FaultStrict (writeNewBlocks name att fc now n b) := by
  induction n generalizing b with
  | zero => unfold writeNewBlocks; fault_auto
  | succ n ih => unfold writeNewBlocks; fault_auto

theorem writeNewWalk_strict (name : Bytes) (att fc : Nat) (now : Timestamp) (fuel : Nat) (w : DirWalk) :
    FaultStrict (writeNewWalk name att fc now fuel w) := by
  have := nextCluster_strict
  have := writeNewBlocks_strict
  have := allocCluster_strict
  induction fuel generalizing w with
  | zero => unfold writeNewWalk; fault_auto
  | succ n ih => unfold writeNewWalk; fault_auto

theorem writeNewDirectoryEntry_strict (d : Nat) (name : Bytes) (att fc : Nat) (now : Timestamp) :
    FaultStrict (writeNewDirectoryEntry d name att fc now) := by
  have := writeNewWalk_strict
  unfold writeNewDirectoryEntry; fault_auto

/-- A computation that always ends in an error is weak. -/
theorem FaultWeak.of_always_err {α} {m : F α} (h : ∀ s, ∃ e, (m s).1 = .err e) : FaultWeak m :=
  fun s _ => h s

/-- `make_dir`: a failure before or inside `write_new_directory_entry` is `DeviceError`; a failure
inside the clean-up (`let _ = free_cluster_chain(..)`) is dropped and the original error of
`write_new_directory_entry` is returned — still an error. -/
theorem makeDir_weak (parent : Nat) (sfn : Bytes) (att : Nat) (now : Timestamp) :
    FaultWeak (makeDir parent sfn att now) := by
  unfold makeDir
  refine FaultWeak.bind (allocCluster_strict _ _) fun c => ?_
  refine FaultWeak.bind FaultStrict.getVol fun v => ?_
  dsimp only
  refine FaultWeak.bind (FaultStrict.blankMut _) fun _ => ?_
  refine FaultWeak.bind (FaultStrict.cacheModify _) fun _ => ?_
  refine FaultWeak.bind FaultStrict.writeBack fun _ => ?_
  refine FaultWeak.bind (zeroBlocks_strict _ _) fun _ => ?_
  refine FaultWeak.attempt_bind (writeNewDirectoryEntry_strict _ _ _ _ _) ?_ ?_
  · intro r
    split
    · exact (FaultStrict.pure _).weak
    · exact FaultWeak.of_always_err fun s => ⟨_, rfl⟩
    · exact (FaultStrict.lift _).weak
  · intro s
    exact ⟨_, rfl⟩

/-! ### Invariants: `failed` never decreases, reading functions write nothing -/

section Inv
variable {R : FS → FS → Prop}

theorem nextCluster_inv [ReadOK R] (c : Nat) : F.Inv R (nextCluster c) := by
  unfold nextCluster; fault_auto

theorem findNextFreeCluster_inv [ReadOK R] (fuel cur endC : Nat) : F.Inv R (findNextFreeCluster fuel cur endC) := by
  induction fuel generalizing cur with
  | zero => unfold findNextFreeCluster; fault_auto
  | succ n ih => unfold findNextFreeCluster; fault_auto

theorem findNextFree_inv [ReadOK R] (a b : Nat) : F.Inv R (findNextFree a b) := findNextFreeCluster_inv _ _ _

theorem iterateBlocks_inv [ReadOK R] (n b : Nat) : F.Inv R (iterateBlocks n b) := by
  induction n generalizing b with
  | zero => unfold iterateBlocks; fault_auto
  | succ n ih => unfold iterateBlocks; fault_auto

theorem iterateWalk_inv [ReadOK R] (fuel : Nat) (w : DirWalk) : F.Inv R (iterateWalk fuel w) := by
  have := @nextCluster_inv R _
  have := @iterateBlocks_inv R _
  induction fuel generalizing w with
  | zero => unfold iterateWalk; fault_auto
  | succ n ih => unfold iterateWalk; fault_auto

theorem iterateRaw_inv [ReadOK R] (d : Nat) : F.Inv R (iterateRaw d) := by
  have := @iterateWalk_inv R _
  unfold iterateRaw; fault_auto

theorem findBlocks_inv [ReadOK R] (name : Bytes) (n b : Nat) : F.Inv R (findBlocks name n b) := by
  induction n generalizing b with
  | zero => unfold findBlocks; fault_auto
  | succ n ih => unfold findBlocks; fault_auto

theorem findWalk_inv [ReadOK R] (name : Bytes) (fuel : Nat) (w : DirWalk) : F.Inv R (findWalk name fuel w) := by
  have := @nextCluster_inv R _
  have := @findBlocks_inv R _
  induction fuel generalizing w with
  | zero => unfold findWalk; fault_auto
  | succ n ih => unfold findWalk; fault_auto

theorem findDirectoryEntry_inv [ReadOK R] (d : Nat) (name : Bytes) : F.Inv R (Fat.findDirectoryEntry d name) := by
  have := @findWalk_inv R _
  unfold Fat.findDirectoryEntry; fault_auto

theorem updateFat_inv [WriteOK R] (c n : Nat) : F.Inv R (updateFat c n) := by
  unfold updateFat; fault_auto

theorem zeroBlocks_inv [WriteOK R] (n first : Nat) : F.Inv R (zeroBlocks n first) := by
  induction n generalizing first with
  | zero => unfold zeroBlocks; fault_auto
  | succ n ih => unfold zeroBlocks; fault_auto

theorem allocCluster_inv [WriteOK R] (prev : Option Nat) (zero : Bool) : F.Inv R (allocCluster prev zero) := by
  have := @findNextFree_inv R _
  have := @zeroBlocks_inv R _
  have := @updateFat_inv R _
  unfold allocCluster; fault_auto

theorem truncateLoop_inv [WriteOK R] (fuel next : Nat) : F.Inv R (truncateLoop fuel next) := by
  have := @nextCluster_inv R _
  have := @updateFat_inv R _
  induction fuel generalizing next with
  | zero => unfold truncateLoop; fault_auto
  | succ n ih => unfold truncateLoop; fault_auto

theorem truncateClusterChain_inv [WriteOK R] (c : Nat) : F.Inv R (truncateClusterChain c) := by
  have := @nextCluster_inv R _
  have := @updateFat_inv R _
  have := @truncateLoop_inv R _
  unfold truncateClusterChain; fault_auto

theorem freeClusterChain_inv [WriteOK R] (c : Nat) : F.Inv R (freeClusterChain c) := by
  have := @truncateClusterChain_inv R _
  have := @updateFat_inv R _
  unfold freeClusterChain; fault_auto

theorem updateInfoSector_inv [WriteOK R] : F.Inv R updateInfoSector := by
  unfold updateInfoSector; fault_auto

theorem writeEntryToDisk_inv [WriteOK R] (e : DirEntry) : F.Inv R (writeEntryToDisk e) := by
  unfold writeEntryToDisk; fault_auto

theorem deleteBlocks_inv [WriteOK R] (name : Bytes) (n b : Nat) : F.Inv R (deleteBlocks name n b) := by
  induction n generalizing b with
  | zero => unfold deleteBlocks; fault_auto
  | succ n ih => unfold deleteBlocks; fault_auto

theorem deleteWalk_inv [WriteOK R] (name : Bytes) (fuel : Nat) (w : DirWalk) : F.Inv R (deleteWalk name fuel w) := by
  have := @nextCluster_inv R _
  have := @deleteBlocks_inv R _
  induction fuel generalizing w with
  | zero => unfold deleteWalk; fault_auto
  | succ n ih => unfold deleteWalk; fault_auto

theorem deleteDirectoryEntry_inv [WriteOK R] (d : Nat) (name : Bytes) : F.Inv R (deleteDirectoryEntry d name) := by
  have := @deleteWalk_inv R _
  unfold deleteDirectoryEntry; fault_auto

theorem writeNewBlocks_inv [WriteOK R] (name : Bytes) (att fc : Nat) (now : Timestamp) (n b : Nat) :
    F.Inv R (writeNewBlocks name att fc now n b) := by
  induction n generalizing b with
  | zero => unfold writeNewBlocks; fault_auto
  | succ n ih => unfold writeNewBlocks; fault_auto

theorem writeNewWalk_inv [WriteOK R] (name : Bytes) (att fc : Nat) (now : Timestamp) (fuel : Nat) (w : DirWalk) :
    F.Inv R (writeNewWalk name att fc now fuel w) := by
  have := @nextCluster_inv R _
  have := @writeNewBlocks_inv R _
  have := @allocCluster_inv R _
  induction fuel generalizing w with
  | zero => unfold writeNewWalk; fault_auto
  | succ n ih => unfold writeNewWalk; fault_auto

theorem writeNewDirectoryEntry_inv [WriteOK R] (d : Nat) (name : Bytes) (att fc : Nat) (now : Timestamp) :
    F.Inv R (writeNewDirectoryEntry d name att fc now) := by
  have := @writeNewWalk_inv R _
  unfold writeNewDirectoryEntry; fault_auto

theorem makeDir_inv [WriteOK R] (parent : Nat) (sfn : Bytes) (att : Nat) (now : Timestamp) :
    F.Inv R (makeDir parent sfn att now) := by
  have := @allocCluster_inv R _
  have := @zeroBlocks_inv R _
  have := @writeNewDirectoryEntry_inv R _
  have := @freeClusterChain_inv R _
  unfold makeDir; fault_auto

end Inv

end Sdmmc.Lemmas.Fault
