/-
C11, arbitrary fault placement — `EntryNotAhead` AS AN INVARIANT, part 7: the FAULT-FREE `open_file_in_dir`, every mode
(`openFile_disk_clean`): the truncating modes cut the chain of a file that is NOT open (FAT blocks only) and rewrite ITS
entry — the entries of the open files keep their bytes.  (A device failure inside a truncating open is still excluded;
this covers truncating opens that hit no fault.)
-/
import Sdmmc.Lemmas.FaultXRawApi

namespace Sdmmc.Lemmas.FaultX
open Sdmmc.Model Sdmmc.Model.Fat Sdmmc.Spec.Volume Sdmmc.Lemmas.VolBase Sdmmc.Lemmas.VolTree
open Sdmmc.Spec hiding NoFault Coherent
open Sdmmc.Lemmas.VolDisk Sdmmc.Lemmas.VolMed Sdmmc.Lemmas.VolEng Sdmmc.Lemmas.VolX Sdmmc.Lemmas.VolApi
open Sdmmc.Lemmas.FBasic (NoFault Coherent)
open Sdmmc.Lemmas.MHoare Sdmmc.Lemmas.FaultInv

theorem withFaults_nil {s : Mgr} (h : s.dev.faults = []) : withFaults [] s = s := by
  cases s with
  | mk dev cache nextId vols dirs files maxVols maxDirs maxFiles clock locked =>
    cases dev with
    | mk disk calls faults failed wlog rlog =>
      simp only at h
      subst h
      rfl

section
variable {files : List FileInfo} {gh : Ghost} {X : List (List Nat)}

/-- A closed file is truncated (its chain cut, its entry rewritten): the entries of the open files keep their bytes. -/
theorem truncEntry_raw {fs : FS} (hM : MedX fs.vol fs.dev.disk files gh X) (hR : RawAllD fs.vol.fatType fs.dev.disk files)
    (hn : NoFault fs) (hc : Coherent fs) {h : Nat}
    (hh : h ∈ dirIds gh.dirs) {o : Slot} (ho : o ∈ objects h (dirSlots fs.vol fs.dev.disk gh.G h)) (hod : isDirE o = false)
    (hfree : pendOf files o = none) (e : DirEntry) (hblk : e.entryBlock = o.1) (hoff : e.entryOffset = o.2.1)
    (hnm : e.name = sName o) (hcl : e.cluster = sCluster fs.vol.fatType o) :
    ∃ fs1 fs2, truncateClusterChain e.cluster fs = (.ok (), fs1) ∧ writeEntryToDisk e fs1 = (.ok (), fs2) ∧
      RawAllD fs.vol.fatType fs2.dev.disk files := by
  have hco := closed_object_chain hM hh ho hod hfree
  obtain ⟨fs1, G', hrun1, hn1, hc1, hb1, hsg1, hh1, ho1, hheads, hchains, hnonfat, _⟩ :=
    truncate_fat hM hn hc (c := sCluster fs.vol.fatType o) (by
      rcases hco with ⟨h1, _, _⟩ | ⟨_, _, h3, h4⟩
      · exact .inl h1
      · exact .inr ⟨h4, h3⟩)
  obtain ⟨fs2, hrun2, hd2, hv2, hn2, hc2⟩ := writeEntryToDisk_exact fs1 e hn1 hc1
  refine ⟨fs1, fs2, by rw [hcl]; exact hrun1, hrun2, ?_⟩
  obtain ⟨pre, post, hsp, _, _, _, _⟩ := object_split hM hh ho
  have hmem : o ∈ dirSlots fs.vol fs.dev.disk gh.G h := by rw [hsp]; simp
  have hol := mem_dirSlots_length hM.blocksOK hmem
  have hname : e.name.length = 11 := by
    rw [hnm]; unfold sName; rw [List.length_take, hol]; rfl
  have hbl : (DirEntry.serialize fs1.vol.fatType e).length = 32 := VolDisk.serialize_length _ _ hname
  obtain ⟨_, _, hsl', hoth'⟩ := slot_write hM hh hsp (DirEntry.serialize fs1.vol.fatType e) hbl
  -- the pure slot write on the medium before
  have hRw : RawAllD fs.vol.fatType (fs.dev.disk.set o.1 (splice (fs.dev.disk.get o.1) o.2.1 (DirEntry.serialize fs1.vol.fatType e))) files := by
    refine rawAll_edit hM hR hsp hsl' ⟨rfl, rfl⟩ hoth' fun f hf hb hof => ?_
    exact absurd (show fkey f = spos o from Prod.ext hb hof) ((pendOf_none_iff files o).1 hfree f hf)
  have honf : regionOf fs.vol o.1 ≠ .fat := by
    rcases dirSlot_not_fat hM hh hmem with e1 | e1 <;> rw [e1] <;> decide
  refine rawAll_blocks hRw fun f hf => ?_
  obtain ⟨x, hx, sl, hsl, h1, _⟩ := VolCrash.file_dirSlot hM hf
  have hnf : regionOf fs.vol sl.1 ≠ .fat := by
    rcases dirSlot_not_fat hM hx hsl with e1 | e1 <;> rw [e1] <;> decide
  rw [← h1, hd2, hblk, hoff]
  by_cases hb : o.1 = sl.1
  · rw [← hb, FBasic.Disk.get_set_self, FBasic.Disk.get_set_self, hnonfat o.1 honf]
  · rw [FBasic.Disk.get_set_ne _ _ _ _ hb, FBasic.Disk.get_set_ne _ _ _ _ hb, hnonfat sl.1 hnf]

end

variable {X : List (List Nat)}

/-- The truncating branch of `open_file_in_dir`, fault-free. -/
theorem truncRun_disk {s : Mgr} {gh : Ghost} (hI : VolInvX X s gh) (hR : RawAllD gh.vol.fatType s.dev.disk s.files)
    {vi : VolInfo} (hvs : s.vols = [vi]) (hvol : vi.vol = gh.vol)
    {d : DirInfo} (hdv : ValidDir gh.dirs d.cluster) (hraw : vi.rawVolume = d.rawVolume) {sfn : Bytes} {e : DirEntry} {o : Slot}
    (hF : Found s gh d sfn e o) (hdir : Attr.isDirectory e.attributes = false) (hopen : fileIsOpen s d.rawVolume e = false)
    (id : Nat) (now : Timestamp) : RawAllD gh.vol.fatType (Modes.truncRun d 0 e id now s).2.dev.disk s.files := by
  obtain ⟨ho, hod, hfree⟩ := VolX.Found_object hI hvs hdv hraw hF hdir hopen
  obtain ⟨hnm, hat, hsz, hb, hoo, hnd⟩ := hF.fields
  obtain ⟨_, hcl⟩ := hnd hdir
  obtain ⟨hn, hc, hM⟩ := VolX.volInv_fs hI
  obtain ⟨hid, _⟩ := validDir_id hM hdv
  obtain ⟨fs1, fs2, hr1, hr2, hR2⟩ :=
    truncEntry_raw hM hR hn hc hid ho hod hfree (Modes.truncatedFile d id e now).entry hb hoo hnm hcl
  have hw1 := withVol_one (Fat.truncateClusterChain e.cluster) hvs hvol
  have hr1' : Fat.truncateClusterChain e.cluster (fsOf s gh) = (.ok (), fs1) := hr1
  rw [hr1'] at hw1
  have hvs1 : (afterVol s vi fs1).vols = [{ vi with vol := fs1.vol }] := rfl
  have hw2 := withVol_one (gh := { gh with vol := fs1.vol }) (Fat.writeEntryToDisk (Modes.truncatedFile d id e now).entry) hvs1 rfl
  have hfs1 : fsOf (afterVol s vi fs1) { gh with vol := fs1.vol } = fs1 := rfl
  rw [hfs1, hr2] at hw2
  unfold Modes.truncRun
  have hinner : ((do
      withVol 0 (Fat.truncateClusterChain e.cluster)
      withVol 0 (Fat.writeEntryToDisk (Modes.truncatedFile d id e now).entry)
      pure (Modes.truncatedFile d id e now) : M FileInfo)) s =
      (.ok (Modes.truncatedFile d id e now), afterVol (afterVol s vi fs1) { vi with vol := fs1.vol } fs2) := by
    rw [bind_ok hw1, bind_ok hw2]; rfl
  rw [bind_ok hinner, modify_bind]
  exact hR2

/-- **The fault-free `open_file_in_dir`**, every mode. -/
theorem openFile_disk_clean {s : Mgr} {gh : Ghost} (hI : VolInvX X s gh) (hR : RawAllD gh.vol.fatType s.dev.disk s.files)
    (directory : Nat) (name : List Nat) (mode : Mode)
    (hname : ∀ sfn, Sfn.createFromStr name = .ok sfn → sfn.head? ≠ some 0xE5) :
    RawAllD gh.vol.fatType (openFileInDir directory name mode s).2.dev.disk s.files := by
  by_cases hmode : nonTruncating mode = true
  · have := openFile_disk hI hR [] directory name mode hmode hname
    rw [withFaults_nil hI.noFault] at this
    exact this
  rw [Modes.openFileInDir_eq]
  unfold Modes.openFileInDirAlt
  rw [get_bind]
  by_cases hroom : s.files.length ≥ s.maxFiles
  · rw [if_pos hroom]; exact hR
  rw [if_neg hroom]
  cases hidx : s.dirs.findIdx? (·.rawDirectory = directory) with
  | none => rw [bind_err (getDirById_bad hidx)]; exact hR
  | some i =>
    obtain ⟨d, hdi, _⟩ := findIdx?_some_get hidx
    have hdm : d ∈ s.dirs := List.mem_of_getElem? hdi
    rw [bind_ok (getDirById_ok hidx), bind_ok (getDir_ok hdi)]
    cases hv : s.vols.findIdx? (·.rawVolume = d.rawVolume) with
    | none => rw [bind_err (getVolumeById_bad hv)]; exact hR
    | some volIdx =>
      obtain ⟨hz, vi, hvs, hvol, hraw⟩ := VolX.vol_of_handle hI hv
      subst hz
      rw [bind_ok (getVolumeById_ok hv)]
      cases hs : Sfn.createFromStr name with
      | error e => rw [bind_err (Modes.toSfn_err hs _)]; exact hR
      | ok sfn =>
        rw [bind_ok (Modes.toSfn_ok hs _), attempt_bind]
        have hdv := hI.openDirs d hdm
        obtain ⟨r, fs', hlk, hdisk, hvol', h1, hcase⟩ := VolX.lookup_found hI hvs hvol hdv sfn (hname sfn hs)
        rw [hlk]
        set s1 := afterVol s vi fs' with hs1
        show RawAllD gh.vol.fatType (Modes.openFileTail d 0 sfn mode r s1).2.dev.disk s.files
        have hvs1 : s1.vols = [{ vi with vol := fs'.vol }] := rfl
        have hraw1 : ({ vi with vol := fs'.vol } : VolInfo).rawVolume = d.rawVolume := hraw
        have hR1 : RawAllD gh.vol.fatType s1.dev.disk s1.files := by rw [hdisk]; exact hR
        have h01 : RawAllD gh.vol.fatType s1.dev.disk s.files := hR1
        rcases hcase with ⟨hr, hfresh⟩ | ⟨e, o, hr, hF⟩
        · subst hr
          by_cases hm : mode = .ReadWriteCreate ∨ mode = .ReadWriteCreateOrTruncate ∨ mode = .ReadWriteCreateOrAppend
          · rw [Modes.tail_create_eq d 0 sfn _ mode hm]
            obtain ⟨hlen, hz⟩ := VolSfn.sfn_facts hs
            have := createRun_disk h1 hR1 hvs1 hvol' hdv hraw1 sfn hlen s1.clock []
            rw [withFaults_nil h1.noFault] at this
            exact this
          · have hm' : mode = .ReadOnly ∨ mode = .ReadWriteAppend ∨ mode = .ReadWriteTruncate := by
              cases mode <;> simp at hm ⊢
            rw [Modes.tail_notFound d 0 sfn _ mode hm']
            exact h01
        · subst hr
          by_cases hopen : fileIsOpen s1 d.rawVolume e = true
          · rw [Modes.tail_open d 0 sfn _ mode e hopen]; exact h01
          have hopen' : fileIsOpen s1 d.rawVolume e = false := by simpa using hopen
          have hcreate : mode ≠ .ReadWriteCreate := by intro h; rw [h] at hmode; exact hmode rfl
          by_cases hro : Attr.isReadOnly e.attributes = true ∧ mode ≠ .ReadOnly
          · rw [Modes.tail_readOnlyAttr d 0 sfn _ mode e hopen' hcreate hro.2 hro.1]; exact h01
          have hro' : Attr.isReadOnly e.attributes = false ∨ mode = .ReadOnly := by
            by_cases h : mode = .ReadOnly
            · exact .inr h
            · left
              by_cases h2 : Attr.isReadOnly e.attributes = true
              · exact absurd ⟨h2, h⟩ hro
              · simpa using h2
          by_cases hdir : Attr.isDirectory e.attributes = true
          · rw [Modes.tail_dirAsFile d 0 sfn _ mode e hopen' hcreate hro' hdir]; exact h01
          have hdir' : Attr.isDirectory e.attributes = false := by simpa using hdir
          have h1' : VolInvX X { s1 with nextId := (s1.nextId + 1) % 4294967296 } gh :=
            VolX.volInv_ro h1 rfl h1.noFault h1.coherent rfl rfl rfl rfl h1.openDirs
          have hF' : Found { s1 with nextId := (s1.nextId + 1) % 4294967296 } gh d sfn e o := ⟨hF.mem, hF.name, hF.dec⟩
          cases mode with
          | ReadWriteTruncate =>
            have hron : Attr.isReadOnly e.attributes = false := hro'.elim id (fun h => by cases h)
            rw [Modes.tail_truncate_eq d 0 sfn _ .ReadWriteTruncate (.inl rfl) e hopen' hron hdir']
            exact truncRun_disk h1' hR1 hvs1 hvol' hdv hraw1 hF' hdir' hopen' _ _
          | ReadWriteCreateOrTruncate =>
            have hron : Attr.isReadOnly e.attributes = false := hro'.elim id (fun h => by cases h)
            rw [Modes.tail_truncate_eq d 0 sfn _ .ReadWriteCreateOrTruncate (.inr rfl) e hopen' hron hdir']
            exact truncRun_disk h1' hR1 hvs1 hvol' hdv hraw1 hF' hdir' hopen' _ _
          | ReadOnly => exact absurd rfl hmode
          | ReadWriteCreate => exact absurd rfl hmode
          | ReadWriteAppend => exact absurd rfl hmode
          | ReadWriteCreateOrAppend => exact absurd rfl hmode

end Sdmmc.Lemmas.FaultX
