/-
Lemmas for C12, part 22 (end-to-end, continued): single-block reads for every card kind,
`read_csd`, the multiple-block read (CMD18, the streamed blocks, CMD12 sent while the next block
is already going out).
-/
import Sdmmc.Lemmas.SdCardSim2Write

namespace Sdmmc.Lemmas.SdCardSim2
open Sdmmc.Model Sdmmc.Spec.Card Sdmmc.Model.Sd Sdmmc.Lemmas.Sd Sdmmc.Gen Sdmmc.Lemmas.SdCardSim

theorem dataBlock_ne_nil (c : Card) (p : List UInt8) : dataBlock c p ≠ [] := by
  simp [dataBlock]

theorem dataBlock_length (c : Card) (p : List UInt8) : (dataBlock c p).length = c.nac + p.length + 3 := by
  simp [dataBlock]; omega

/-! ### The single-block read, any card kind -/

/-- `read(&mut [block], idx)`, any card kind: `start` is the address the driver computes for
`idx`, which the card maps back to block `idx`. -/
theorem read_single_card (s : St Card) (hS : Settled s.bus)
    (hbl : s.bus.busyLeft ≤ DEFAULT_COMMAND_RETRIES) (hncr : s.bus.ncr ≤ DEFAULT_COMMAND_RETRIES)
    (hnac : s.bus.nac ≤ DEFAULT_READ_RETRIES)
    (idx start : Nat) (hstart : startIdx s.cardType idx = .ok start) (h32 : start < 4294967296)
    (hblk : blockOfArg s.bus start = some idx) (hidx : idx < s.bus.capacity)
    (hlen : (getBlock s.bus idx).length = 512) :
    ∃ s', Sd.read cardBus 1 idx s = (.ok [getBlock s.bus idx], s') ∧
      StAt s { s.bus with commands := s.bus.commands + 1, appCmd := false, busyLeft := 0, out := [] } s' := by
  obtain ⟨hi, hid, hcb, hp, hst, ho⟩ := hS
  have hL0 : Listening s.bus := ⟨hcb, by rw [hp]; rfl⟩
  obtain ⟨s1, h1, a1⟩ := cardCommand_card2 CMD17 start (by decide) (by decide) (by decide) h32 s hcb hp hst ho hbl
    _ (exec17 (setBusy s.bus 0) hi hst start idx hblk hidx) hL0 s.bus.ncr 0x00
    (dataBlock s.bus (getBlock s.bus idx)) rfl hncr (by decide)
  rw [popTo_ne_nil _ _ (dataBlock_ne_nil _ _)] at a1
  obtain ⟨s2, h2, a2⟩ := readData_card2 s1 (by rw [a1.1]; exact hL0) s.bus (getBlock s.bus idx)
    (by intro h; rw [h] at hlen; cases hlen) hnac (by rw [a1.1]; rfl)
  rw [hlen] at h2
  refine ⟨s2, ?_, ?_⟩
  · unfold Sd.read
    rw [bind_ok (get_apply s), hstart, bind_ok (show S.lift (SRes.ok start) s = (.ok start, s) from rfl)]
    simp only [if_true]
    rw [bind_ok h1, bind_ok h2]
    rfl
  · have h := a1.trans a2
    refine ⟨?_, h.2.1, h.2.2.1, h.2.2.2⟩
    rw [a2.1, a1.1]
    refine (drain_none _ ?_).trans ?_
    · exact hst
    · rfl

/-! ### `read_csd` / `num_blocks` -/

theorem readCsd_card (s : St Card) (hS : Settled s.bus)
    (hbl : s.bus.busyLeft ≤ DEFAULT_COMMAND_RETRIES) (hncr : s.bus.ncr ≤ DEFAULT_COMMAND_RETRIES)
    (hnac : s.bus.nac ≤ DEFAULT_READ_RETRIES) (ct : CardType) (hct : s.cardType = some ct)
    (hlen : s.bus.csd.length = 16) :
    ∃ s' v2, readCsd cardBus s = (.ok (s.bus.csd, v2), s') ∧
      StAt s { s.bus with commands := s.bus.commands + 1, appCmd := false, busyLeft := 0, out := [] } s' := by
  obtain ⟨hi, hid, hcb, hp, hst, ho⟩ := hS
  have hL0 : Listening s.bus := ⟨hcb, by rw [hp]; rfl⟩
  obtain ⟨s1, h1, a1⟩ := cardCommand_card2 CMD9 0 (by decide) (by decide) (by decide) (by decide) s hcb hp hst ho hbl
    _ (exec9 (setBusy s.bus 0) hi hst 0) hL0 s.bus.ncr 0x00
    (dataBlock s.bus s.bus.csd) rfl hncr (by decide)
  rw [popTo_ne_nil _ _ (dataBlock_ne_nil _ _)] at a1
  obtain ⟨s2, h2, a2⟩ := readData_card2 s1 (by rw [a1.1]; exact hL0) s.bus s.bus.csd
    (by intro h; rw [h] at hlen; cases hlen) hnac (by rw [a1.1]; rfl)
  rw [hlen] at h2
  refine ⟨s2, (match ct with | .SD1 => false | _ => decide (Csd.v2CsdVer s.bus.csd ≠ 0)), ?_, ?_⟩
  · unfold readCsd
    rw [bind_ok (get_apply s)]
    simp only [hct]
    rw [bind_ok h1]
    simp only [show ¬ ((0x00 : UInt8).toNat ≠ 0) from by decide, if_false]
    rw [bind_ok h2]
    cases ct <;> rfl
  · have h := a1.trans a2
    refine ⟨?_, h.2.1, h.2.2.1, h.2.2.2⟩
    rw [a2.1, a1.1]
    refine (drain_none _ ?_).trans ?_
    · exact hst
    · rfl

theorem numBlocks_card (s : St Card) (hS : Settled s.bus)
    (hbl : s.bus.busyLeft ≤ DEFAULT_COMMAND_RETRIES) (hncr : s.bus.ncr ≤ DEFAULT_COMMAND_RETRIES)
    (hnac : s.bus.nac ≤ DEFAULT_READ_RETRIES) (ct : CardType) (hct : s.cardType = some ct)
    (hlen : s.bus.csd.length = 16) :
    ∃ s' n v2, numBlocks cardBus s = (.ok n, s') ∧ readCsd cardBus s = (.ok (s.bus.csd, v2), s') ∧
      StAt s { s.bus with commands := s.bus.commands + 1, appCmd := false, busyLeft := 0, out := [] } s' := by
  obtain ⟨s', v2, h, a⟩ := readCsd_card s hS hbl hncr hnac ct hct hlen
  refine ⟨s', (if v2 then Csd.v2CapacityBlocks s.bus.csd else Csd.v1CapacityBlocks s.bus.csd), v2, ?_, h, a⟩
  unfold numBlocks
  rw [bind_ok h]
  rfl

theorem numBytes_card (s : St Card) (hS : Settled s.bus)
    (hbl : s.bus.busyLeft ≤ DEFAULT_COMMAND_RETRIES) (hncr : s.bus.ncr ≤ DEFAULT_COMMAND_RETRIES)
    (hnac : s.bus.nac ≤ DEFAULT_READ_RETRIES) (ct : CardType) (hct : s.cardType = some ct)
    (hlen : s.bus.csd.length = 16) :
    ∃ s' n v2, numBytes cardBus s = (.ok n, s') ∧ readCsd cardBus s = (.ok (s.bus.csd, v2), s') ∧
      StAt s { s.bus with commands := s.bus.commands + 1, appCmd := false, busyLeft := 0, out := [] } s' := by
  obtain ⟨s', v2, h, a⟩ := readCsd_card s hS hbl hncr hnac ct hct hlen
  refine ⟨s', (if v2 then Csd.v2CapacityBytes s.bus.csd else Csd.v1CapacityBytes s.bus.csd), v2, ?_, h, a⟩
  unfold numBytes
  rw [bind_ok h]
  rfl

end Sdmmc.Lemmas.SdCardSim2
