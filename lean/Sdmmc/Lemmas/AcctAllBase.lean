/-
C16 over all calls, part 1 — the accounting relation for clusters GIVEN BACK (`Gave`, the counterpart
of `Lemmas.Acct.Acct` for clusters taken): both FAT copies still identical, the in-memory free count
went up by `k` (saturating at `u32::MAX`; unknown stays unknown), the number of free FAT entries went up
by exactly `k`.
-/
import Sdmmc.Lemmas.AcctBase
import Sdmmc.Lemmas.ForestFinal

namespace Sdmmc.Lemmas.AcctAll
open Sdmmc.Model Sdmmc.Model.Fat Sdmmc.Spec
open Sdmmc.Lemmas.FBasic hiding NoFault Coherent
open Sdmmc.Lemmas.FatOps hiding BlocksOK Mirror HintOK
open Sdmmc.Lemmas.ChainL Sdmmc.Lemmas.ForestBase Sdmmc.Lemmas.ForestCount
open Sdmmc.Lemmas.Acct (Acct)

/-- From `(v, d)` to `(v', d')`, `k` clusters were given back. -/
structure Gave (v v' : FatVolume) (d d' : Disk) (k : Nat) : Prop where
  mirror : Mirror v d → Mirror v d'
  count : v'.freeClustersCount = v.freeClustersCount.map (satAdd · k)
  free : freeCount v d' = freeCount v d + k

theorem Gave.refl (v : FatVolume) (d : Disk) : Gave v v d d 0 :=
  ⟨id, by cases v.freeClustersCount <;> rfl, rfl⟩

theorem satAdd_add (n a b : Nat) : satAdd (satAdd n a) b = satAdd n (a + b) := by
  induction a generalizing n with
  | zero => show satAdd n b = satAdd n (0 + b); rw [Nat.zero_add]
  | succ a ih =>
    show satAdd (satAdd (satInc n) a) b = _
    rw [ih, show a + 1 + b = (a + b) + 1 by omega]
    rfl

theorem Gave.trans {v v1 v2 : FatVolume} {d d1 d2 : Disk} {k1 k2 : Nat} (hs : SameGeom v v1)
    (h1 : Gave v v1 d d1 k1) (h2 : Gave v1 v2 d1 d2 k2) : Gave v v2 d d2 (k1 + k2) := by
  refine ⟨fun hm => (hs.mirror d2).1 (h2.mirror ((hs.mirror d1).2 (h1.mirror hm))), ?_, ?_⟩
  · rw [h2.count, h1.count]
    cases v.freeClustersCount with
    | none => rfl
    | some n => simp only [Option.map_some]; rw [satAdd_add]
  · have := h2.free
    rw [hs.freeCount, hs.freeCount] at this
    have := h1.free
    omega

/-- A change of the medium that touches no FAT block, with the volume record as it was: nothing given. -/
theorem gave_of_fat_eq {v : FatVolume} {d d' : Disk} (h : ∀ b, IsFatBlock v b → d'.get b = d.get b) : Gave v v d d' 0 :=
  ⟨Acct.mirror_congr h, by cases v.freeClustersCount <;> rfl,
   by rw [Nat.add_zero]; exact Acct.freeCount_congr fun c hc => h _ ⟨c, hc, .inl rfl⟩⟩

theorem Gave.of_vol_eq {v v' : FatVolume} {d d' : Disk} {k : Nat} {w : FatVolume} (hw : w = v) (h : Gave v v' d d' k) :
    Gave w v' d d' k := by rw [hw]; exact h

/-- **`free_cluster_chain(c)`** on the chain `cs` of `c`, every cluster of which is in use (not free):
exactly `cs.length` clusters are given back. -/
theorem free_gave (s : FS) (c : Nat) (cs : List Nat) (hn : Spec.NoFault s) (hc : Spec.Coherent s) (hb : BlocksOK s.dev.disk)
    (hg : WFGeom s.vol) (hch : Chain s.vol s.dev.disk c cs) (hused : ∀ y, y ∈ cs → ¬ isFree s.vol s.dev.disk y) :
    ∃ s', freeClusterChain c s = (.ok (), s') ∧ Gave s.vol s'.vol s.dev.disk s'.dev.disk cs.length ∧
      (∀ i, regionOf s.vol i ≠ .fat → s'.dev.disk.get i = s.dev.disk.get i) := by
  obtain ⟨s', hrun, hfree, hother, hnonfat, hmir, hsg, hcnt, _⟩ :=
    ForestFinal.free_chain_frees_exactly_chain s c cs hn hc hb hg hch
  refine ⟨s', hrun, ⟨fun hm => (hsg.mirror _).1 (hmir hm), hcnt, ?_⟩, hnonfat⟩
  refine freeCount_add cs (chain_nodup hch) (fun y hy => chain_inRange hch y hy) hused
    (fun y hy => (hsg.isFree _ _).1 (hfree y hy)) (fun z hrz hz => ForestStep.isFree_congr_raw ?_)
  have := hother z hrz.2 hz
  rw [hsg.fatRaw] at this
  exact this

/-- **`truncate_cluster_chain(c)`** on the chain `c :: tail` of `c`, every cluster of which is in use:
exactly `tail.length` clusters are given back (the first cluster stays). -/
theorem truncate_gave (s : FS) (c : Nat) (tail : List Nat) (hn : Spec.NoFault s) (hc : Spec.Coherent s) (hb : BlocksOK s.dev.disk)
    (hg : WFGeom s.vol) (hch : Chain s.vol s.dev.disk c (c :: tail)) (hused : ∀ y, y ∈ c :: tail → ¬ isFree s.vol s.dev.disk y) :
    ∃ s', truncateClusterChain c s = (.ok (), s') ∧ Gave s.vol s'.vol s.dev.disk s'.dev.disk tail.length ∧
      (∀ i, regionOf s.vol i ≠ .fat → s'.dev.disk.get i = s.dev.disk.get i) ∧ SameGeom s.vol s'.vol ∧
      Spec.NoFault s' ∧ Spec.Coherent s' := by
  obtain ⟨s', hrun, hch', hfree, hother, _, hnonfat, hmir, hsg, hcnt, _, hn', hc', _⟩ :=
    ForestFinal.truncate_frees_exactly_tail s c c [] tail hn hc hb hg hch
  refine ⟨s', hrun, ⟨fun hm => (hsg.mirror _).1 (hmir hm), hcnt, ?_⟩, hnonfat, hsg, hn', hc'⟩
  have hnd : (c :: tail).Nodup := chain_nodup hch
  refine freeCount_add tail (List.nodup_cons.1 hnd).2 (fun y hy => chain_inRange hch y (List.mem_cons_of_mem _ hy))
    (fun y hy => hused y (List.mem_cons_of_mem _ hy)) (fun y hy => (hsg.isFree _ _).1 (hfree y hy)) (fun z hrz hz => ?_)
  by_cases hzc : z = c
  · subst hzc
    have h1 : ¬ isFree s.vol s.dev.disk z := hused z List.mem_cons_self
    have h2 : ¬ isFree s.vol s'.dev.disk z := by
      intro hf
      have hch1 : Chain s'.vol s'.dev.disk z [z] := hch'
      have hu := chain_mem_used hch1 z (List.mem_singleton.2 rfl)
      exact hu.2.1 ((hsg.isFree _ _).2 hf)
    exact ⟨fun h => absurd h h2, fun h => absurd h h1⟩
  · refine ForestStep.isFree_congr_raw ?_
    have := hother z hrz.2 hzc hz
    rw [hsg.fatRaw] at this
    exact this

end Sdmmc.Lemmas.AcctAll
