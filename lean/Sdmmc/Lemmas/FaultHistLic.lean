/-
C11 over histories, part 7 — LICENCES ALONG A HISTORY UNDER ONE FAULT SCHEDULE (device failures in `classA` calls only).

* `step_licF`: one call from the invariant up to the schedule: its writes — under whatever is scheduled — are licensed by
  a licence `LicenceFor` describes in the state the call is issued in, the medium afterwards is the medium before with
  these writes applied, and the FAT copies still agree;
* `RunLicF` / `runLicF_of_classA`: the same along a history (the analogue of `WriteSetInv.RunLicensed`, which asks for the
  fault-free invariant);
* `unnamed_unchanged_F`: an object no licence of the history names is unchanged — slot bytes, chain, chain bytes;
* `runLicF_mounts`: the medium keeps mounting.
-/
import Sdmmc.Lemmas.FaultHistClose
import Sdmmc.Lemmas.VolCrashLic
import Sdmmc.Lemmas.AcctBase

namespace Sdmmc.Lemmas.FaultHist
open Sdmmc.Model Sdmmc.Model.Fat Sdmmc.Spec.Volume
open Sdmmc.Spec hiding NoFault Coherent
open Sdmmc.Lemmas.VolApi Sdmmc.Lemmas.MHoare Sdmmc.Lemmas.FaultInv Sdmmc.Lemmas.Retry
open Sdmmc.Lemmas.WriteSetInv Sdmmc.Lemmas.WriteSet

/-! ### A licence without FAT clusters leaves the FAT alone -/

theorem fat_same_of_nofat {v : FatVolume} (hg : WFGeom v) {L : Licence} (hw : LicWF v L) (h1 : L.fatClusters = [])
    (h2 : L.dataClusters = []) (h3 : L.files = []) {d : Disk} (hb : BlocksOK d) {ws : List (Nat × Block)}
    (ha : AllLicensed v d L ws) : ∀ b, IsFatBlock v b → (d.applyWrites ws).get b = d.get b := by
  intro b hfb
  have hreg := WriteRefines.isFatBlock_region hg hfb
  refine block_ext hb (FaultInv.allLicensed_blocksOK ws d hb ha) b fun i => ?_
  refine allLicensed_frame ?_ ws d ha
  rintro (⟨c, hc, _⟩ | ⟨c, hc, _⟩ | ⟨off, hoff, _⟩ | ⟨_, h32, hbi, _⟩ | ⟨cs, lo, hi, p, hm, _⟩)
  · rw [h1] at hc; cases hc
  · rw [h2] at hc; cases hc
  · rcases (hw.slots _ hoff).2 with h | h <;> · rw [hreg] at h; cases h
  · have := FatLens.info_block_in_info_region v hg h32 (Reopen.fatStart_le_numBlocks v hg)
    rw [← hbi, hreg] at this; cases this
  · rw [h3] at hm; cases hm

/-- The licences of `flush_file` and `close_volume` name no FAT cluster, no data cluster, no file range. -/
def flushOrCloseVol : Op → Bool
  | .flush _ | .closeVolume _ => true
  | _ => false

theorem licenceFor_nofat {gh : Ghost} {files : List FileInfo} {dirs : List DirInfo} {d : Disk} {op : Op} {L : Licence}
    (h : LicenceFor gh files dirs d op L) (hop : flushOrCloseVol op = true) :
    L.fatClusters = [] ∧ L.dataClusters = [] ∧ L.files = [] := by
  cases h <;> first | exact ⟨rfl, rfl, rfl⟩ | cases hop

/-! ### One call -/

theorem nameCovered_of_fcovered {s : Mgr} {op : Op} (h : FCovered s op) : NameCovered op := by
  cases op <;> first | exact h | exact trivial

/-- **One call from the invariant up to the schedule.** -/
theorem step_licF {s : Mgr} {gh : Ghost} (hI : VolInv (mclr s) gh) (hm : Mirror gh.vol s.dev.disk) (op : Op)
    (hc : FCovered s op) (hA : (step s op).1.dev.failed ≠ s.dev.failed → classA op = true) :
    ∃ L, LicenceFor gh s.files s.dirs s.dev.disk op L ∧ AllLicensed gh.vol s.dev.disk L (step s op).2.writes ∧
      (∀ i, (step s op).1.dev.disk.get i = (s.dev.disk.applyWrites (step s op).2.writes).get i) ∧
      Mirror gh.vol (step s op).1.dev.disk := by
  have hnc := nameCovered_of_fcovered hc
  by_cases hq : (step s op).1.dev.failed = s.dev.failed
  · obtain ⟨e1, e2⟩ := FaultHist.step_erase s op hq
    obtain ⟨L, hS⟩ := step_callOK hI (show Mirror gh.vol (mclr s).dev.disk from hm) op hnc
    have hd : (step s op).1.dev.disk = (step (mclr s) op).1.dev.disk := by rw [e2]; rfl
    refine ⟨L, hS.lic, ?_, fun i => ?_, ?_⟩
    · rw [← e1]; exact hS.all
    · rw [hd, ← e1]; exact hS.disk i
    · rw [hd]; exact hS.mirror
  · have hcl := hA hq
    by_cases hro : Fault.readOnlyOp op = true
    · obtain ⟨hd, hw⟩ := Fault.step_readonly_nowrite s op hro
      refine ⟨Licence.none, .nothing op, by rw [hw]; trivial, fun i => by rw [hd, hw]; rfl, by rw [hd]; exact hm⟩
    · have hop2 : flushOrCloseVol op = true := by
        cases op <;> first | rfl | exact absurd hcl hro
      have hpre : FaultPre.prefixOp op = true := by
        cases op <;> first | rfl | cases hop2
      obtain ⟨L, hlic, hall, hdisk⟩ := faulted_licensed hI (show Mirror gh.vol (mclr s).dev.disk from hm) s.dev.faults op hpre hnc
      rw [withFaults_mclr] at hall hdisk
      have hall' : AllLicensed gh.vol s.dev.disk L (step s op).2.writes := hall
      have hdisk' : ∀ i, (step s op).1.dev.disk.get i = (s.dev.disk.applyWrites (step s op).2.writes).get i := hdisk
      refine ⟨L, hlic, hall', hdisk', ?_⟩
      obtain ⟨f1, f2, f3⟩ := licenceFor_nofat hlic hop2
      have hb : BlocksOK s.dev.disk := hI.med.blocksOK
      refine Acct.mirror_congr (d := s.dev.disk) (fun b hfb => ?_) hm
      rw [hdisk' b]
      exact fat_same_of_nofat hI.med.geom (licenceFor_wf hI hlic) f1 f2 f3 hb hall' b hfb

/-! ### Histories -/

/-- Every call of the history `ops` from `s` — under the schedule pending in `s` — is licensed: `Ls` lists the licences,
one per call, each described (`LicenceFor`) from a ghost of the state the call is issued in (with the invariant up to the
schedule); the geometry is that of `v0` throughout. -/
inductive RunLicF (v0 : FatVolume) : Mgr → List Op → List Licence → Prop
  | nil (s : Mgr) : RunLicF v0 s [] []
  | cons (s : Mgr) (op : Op) (ops : List Op) (L : Licence) (Ls : List Licence) (gh : Ghost) (hI : VolInv (mclr s) gh)
      (hg : SameGeom v0 gh.vol) (hl : LicenceFor gh s.files s.dirs s.dev.disk op L)
      (ha : AllLicensed v0 s.dev.disk L (step s op).2.writes)
      (hd : ∀ i, (step s op).1.dev.disk.get i = (s.dev.disk.applyWrites (step s op).2.writes).get i)
      (rest : RunLicF v0 (step s op).1 ops Ls) : RunLicF v0 s (op :: ops) (L :: Ls)

/-- **Every covered history whose device failures occur in `classA` calls only is licensed**, and the invariant up to
the schedule and the agreement of the FAT copies hold at its end. -/
theorem runLicF_of_classA (v0 : FatVolume) : ∀ (ops : List Op) {s : Mgr} {gh : Ghost}, VolInv (mclr s) gh →
    Mirror gh.vol s.dev.disk → SameGeom v0 gh.vol → CoveredRunF s ops → FailsOnlyIn classA s ops →
    ∃ Ls, RunLicF v0 s ops Ls ∧ ∃ gh', VolInv (mclr (run s ops).1) gh' ∧ Mirror gh'.vol (run s ops).1.dev.disk ∧
      SameGeom v0 gh'.vol
  | [], s, gh, hI, hm, hg, _, _ => ⟨[], .nil s, gh, hI, hm, hg⟩
  | op :: ops, s, gh, hI, hm, hg, hc, hf => by
    obtain ⟨L, hlic, hall, hdisk, hmir⟩ := step_licF hI hm op hc.1 hf.1
    obtain ⟨⟨gh1, hI1, hg1⟩, _⟩ := step_inv_F hI op hc.1 hf.1
    have hm1 : Mirror gh1.vol (step s op).1.dev.disk := (hg1.mirror _).2 hmir
    obtain ⟨Ls, hR, gh2, hI2, hm2, hg2⟩ := runLicF_of_classA v0 ops hI1 hm1 (hg.trans hg1) hc.2 hf.2
    refine ⟨L :: Ls, .cons s op ops L Ls gh hI hg hlic ((WriteSet.allLicensed_sameGeom hg L _ _).1 hall) hdisk hR, gh2, ?_, ?_, hg2⟩
    · rw [run_cons]; exact hI2
    · rw [run_cons]; exact hm2

theorem runLicF_length {v0 : FatVolume} : ∀ {s : Mgr} {ops : List Op} {Ls : List Licence}, RunLicF v0 s ops Ls →
    Ls.length = ops.length
  | _, _, _, .nil _ => rfl
  | _, _, _, .cons _ _ _ _ _ _ _ _ _ _ _ rest => by
    simp only [List.length_cons]; rw [runLicF_length rest]

theorem runLicF_take {v0 : FatVolume} : ∀ {s : Mgr} {ops : List Op} {Ls : List Licence}, RunLicF v0 s ops Ls →
    ∀ j, RunLicF v0 s (ops.take j) (Ls.take j)
  | _, _, _, .nil s, j => by rw [List.take_nil, List.take_nil]; exact .nil s
  | _, _, _, .cons s op ops L Ls gh hI hg hl ha hd rest, 0 => .nil s
  | _, _, _, .cons s op ops L Ls gh hI hg hl ha hd rest, j + 1 => by
    rw [List.take_succ_cons, List.take_succ_cons]
    exact .cons s op _ L _ gh hI hg hl ha hd (runLicF_take rest j)

/-- A byte that no licence of the history covers is the same after the history. -/
theorem runLicF_frame {v0 : FatVolume} {b i : Nat} : ∀ {s : Mgr} {ops : List Op} {Ls : List Licence},
    RunLicF v0 s ops Ls → (∀ L, L ∈ Ls → ¬ Covers v0 L b i) →
      ((run s ops).1.dev.disk.get b).getD i 0 = (s.dev.disk.get b).getD i 0
  | _, _, _, .nil _, _ => rfl
  | _, _, _, .cons s op ops L Ls gh hI hgm hl ha hd rest, hn => by
    rw [run_cons]
    show ((run (step s op).1 ops).1.dev.disk.get b).getD i 0 = _
    rw [runLicF_frame rest (fun L' hL' => hn L' (List.mem_cons_of_mem _ hL')), hd b]
    exact allLicensed_frame (hn L List.mem_cons_self) _ _ ha

theorem runLicF_blocksOK {v0 : FatVolume} : ∀ {s : Mgr} {ops : List Op} {Ls : List Licence},
    RunLicF v0 s ops Ls → BlocksOK s.dev.disk → BlocksOK (run s ops).1.dev.disk
  | _, _, _, .nil _, hb => hb
  | _, _, _, .cons s op ops L Ls gh hI hgm hl ha hd rest, hb => by
    rw [run_cons]
    refine runLicF_blocksOK rest fun i => ?_
    rw [hd i]
    exact FaultInv.allLicensed_blocksOK _ _ hb ha i

theorem runLicF_wf {v0 : FatVolume} : ∀ {s : Mgr} {ops : List Op} {Ls : List Licence}, RunLicF v0 s ops Ls →
    ∀ L, L ∈ Ls → LicWF v0 L
  | _, _, _, .nil _, _, h => nomatch h
  | _, _, _, .cons s op ops L Ls gh hI hg hl ha hd rest, L', hL' => by
    rcases List.mem_cons.1 hL' with rfl | h
    · exact (licenceFor_wf hI hl).sameGeom hg
    · exact runLicF_wf rest L' h

/-- **An object no call of the history names is unchanged**: slot bytes, chain, chain bytes — faults or not. -/
theorem unnamed_unchanged_F {v0 : FatVolume} (hg : WFGeom v0) {s : Mgr} {ops : List Op} {Ls : List Licence}
    (hR : RunLicF v0 s ops Ls) (hb : BlocksOK s.dev.disk) (sb so c : Nat)
    (cs : List Nat) (hch : Chain v0 s.dev.disk c cs) (hsreg : regionOf v0 sb = .root ∨ regionOf v0 sb = .data)
    (hso : so % 32 = 0) (hnn : ∀ L, L ∈ Ls → NotNamed v0 L sb so cs) :
    slice ((run s ops).1.dev.disk.get sb) so 32 = slice (s.dev.disk.get sb) so 32 ∧
    Chain v0 (run s ops).1.dev.disk c cs ∧
    chainBytes v0 (run s ops).1.dev.disk cs = chainBytes v0 s.dev.disk cs := by
  have hb' := runLicF_blocksOK hR hb
  have hsp : ∀ L, L ∈ Ls → Spares v0 L sb so cs := fun L hL =>
    spares_of_avoids hg (ChainL.chain_inRange hch) hsreg hso (avoids_of (runLicF_wf hR L hL) (hnn L hL))
  refine ⟨?_, ?_, ?_⟩
  · refine DirSlots.slice_congr _ _ so 32 (by rw [hb' sb, hb sb]) fun i h1 h2 => ?_
    exact runLicF_frame hR fun L hL => (hsp L hL).1 i h1 h2
  · refine ForestBase.chain_transfer hch rfl fun x hx => ?_
    refine ForestBase.nextOf_congr rfl ?_
    unfold fatRaw
    refine DirFrames.rawFatEntry_congr _ _ _ _ fun i h1 h2 => ?_
    exact runLicF_frame hR fun L hL => (hsp L hL).2.1 x hx i h1 h2
  · refine WriteRefines.chainBytes_congr v0 _ _ cs fun x hx j hj => ?_
    refine block_ext hb hb' _ fun i => ?_
    exact runLicF_frame hR fun L hL => (hsp L hL).2.2 x hx j hj i

/-- Every licence of the list is a licence `LicenceFor` describes for the call at its position, in the state that call is
issued in. -/
theorem runLicF_nth {v0 : FatVolume} : ∀ {s : Mgr} {ops : List Op} {Ls : List Licence}, RunLicF v0 s ops Ls →
    ∀ L, L ∈ Ls → ∃ k op gh, ops[k]? = some op ∧ VolInv (mclr (run s (ops.take k)).1) gh ∧ SameGeom v0 gh.vol ∧
      LicenceFor gh (run s (ops.take k)).1.files (run s (ops.take k)).1.dirs (run s (ops.take k)).1.dev.disk op L
  | _, _, _, .nil _, _, h => nomatch h
  | _, _, _, .cons s op ops L Ls gh hI hg hl ha hd rest, L', hL' => by
    rcases List.mem_cons.1 hL' with rfl | h
    · exact ⟨0, op, gh, rfl, hI, hg, hl⟩
    · obtain ⟨k, op', gh', h1, h2, h3, h4⟩ := runLicF_nth rest L' h
      refine ⟨k + 1, op', gh', by simpa using h1, ?_, h3, ?_⟩
      · rw [List.take_succ_cons, run_cons]; exact h2
      · rw [List.take_succ_cons, run_cons]; exact h4

/-- **The medium keeps mounting** along a licensed history. -/
theorem runLicF_mounts {v0 : FatVolume} (hg : WFGeom v0) : ∀ {s : Mgr} {ops : List Op} {Ls : List Licence},
    RunLicF v0 s ops Ls → BlocksOK s.dev.disk → ∀ (idx : Nat) (vm : FatVolume),
    mountPure (s.dev.disk.get 0) idx s.dev.disk.get = .ok vm → SameGeom vm v0 →
    ∃ w, mountPure ((run s ops).1.dev.disk.get 0) idx (run s ops).1.dev.disk.get = .ok w ∧ SameGeom v0 w
  | _, _, _, .nil _, _, _, vm, hm, hsg => ⟨vm, hm, hsg.symm⟩
  | _, _, _, .cons s op ops L Ls gh hI hgm hl ha hd rest, hb, idx, vm, hm, hsg => by
    have hp := VolCrash.allLicensed_prefix hg _ _ ha hb (step s op).2.writes.length
    rw [List.take_length] at hp
    have hde : (step s op).1.dev.disk.get = (s.dev.disk.applyWrites (step s op).2.writes).get := funext hd
    obtain ⟨w1, hw1, hs1⟩ := hp.mounts idx vm hm hsg
    have hb1 : BlocksOK (step s op).1.dev.disk := fun i => by rw [hd i]; exact hp.blocksOK i
    have hw1' : mountPure ((step s op).1.dev.disk.get 0) idx (step s op).1.dev.disk.get = .ok w1 := by
      rw [hde]; exact hw1
    obtain ⟨w, hw, hs⟩ := runLicF_mounts hg rest hb1 idx w1 hw1' hs1.symm
    exact ⟨w, by rw [run_cons]; exact hw, hs⟩

end Sdmmc.Lemmas.FaultHist
