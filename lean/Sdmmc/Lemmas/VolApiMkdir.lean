/-
Volume invariant (C03), layer 3 (API): `make_dir_in_dir` keeps the invariant (`mkdir_api`,
`step_mkdir_api`).  The engine part is `VolEng.makeDir_med` (`VolApiMkdir3`).
-/
import Sdmmc.Lemmas.VolApiMkdir3
import Sdmmc.Lemmas.VolApiRO

namespace Sdmmc.Lemmas.VolApi
open Sdmmc.Model Sdmmc.Model.Fat Sdmmc.Spec.Volume Sdmmc.Lemmas.VolBase Sdmmc.Lemmas.VolTree
open Sdmmc.Spec hiding NoFault Coherent
open Sdmmc.Lemmas.VolDisk Sdmmc.Lemmas.VolMed Sdmmc.Lemmas.VolEng
open Sdmmc.Lemmas.FBasic (NoFault Coherent)
open Sdmmc.Lemmas.MHoare

/-- A name whose first byte is not the stored byte 0xE5. -/
theorem first_ne_E5 {sfn : Bytes} (h : sfn.head? ≠ some 0xE5) : byteAt sfn 0 ≠ 0xE5 := by
  intro e
  apply h
  cases sfn with
  | nil => exact absurd e (by decide)
  | cons a l =>
    have ha : a.toNat = 229 := e
    have : a = 0xE5 := UInt8.toNat_inj.1 ha
    rw [this]; rfl

/-- **`make_dir_in_dir`** keeps the invariant (names that would be stored with first byte 0xE5 excluded). -/
theorem mkdir_api {s : Mgr} {gh : Ghost} (hI : VolInv s gh) (directory : Nat) (name : List Nat)
    (hname : ∀ sfn, Sfn.createFromStr name = .ok sfn → sfn.head? ≠ some 0xE5) :
    ∃ gh', VolInv (makeDirInDir directory name s).2 gh' ∧ SameGeom gh.vol gh'.vol := by
  unfold makeDirInDir
  rw [get_bind]
  by_cases hfull : s.dirs.length ≥ s.maxDirs
  · rw [if_pos hfull]; exact ⟨gh, hI, SameGeom.refl _⟩
  rw [if_neg hfull]
  refine dirPrologue_state directory name _ hI fun parent volIdx sfn hpm hv hsfn => ?_
  obtain ⟨h0, vi, hvs, hvol, _⟩ := vol_of_handle hI hv
  subst h0
  have hpv := hI.openDirs parent hpm
  rw [attempt_bind]
  have hro := DirMgr.findDirectoryEntry_readOnly parent.cluster sfn
  have h1 := withVol_ro_inv 0 _ hro hI
  have hw := withVol_one (Fat.findDirectoryEntry parent.cluster sfn) hvs hvol
  obtain ⟨hn, hc, hM⟩ := volInv_fs hI
  obtain ⟨fs', hfind, hd', _, hv', hn', hc'⟩ := find_spec hM hn hc hpv sfn (hname sfn hsfn)
  rw [hfind] at hw
  rcases hrun : withVol 0 (Fat.findDirectoryEntry parent.cluster sfn) s with ⟨r, s1⟩
  rw [hrun] at h1 hw
  have hr : r = _ := congrArg Prod.fst hw
  have hs1 : s1 = afterVol s vi fs' := congrArg Prod.snd hw
  simp only at hr hs1 ⊢
  -- the lookup answered `NotFound`: the directory is made
  have hNF : r = .err .NotFound →
      ∃ gh', VolInv (withVol 0 (Fat.makeDir parent.cluster sfn Gen.ATTR_DIRECTORY s.clock) s1).2 gh' ∧ SameGeom gh.vol gh'.vol := by
    intro hrn
    rw [hrn] at hr
    -- the name is fresh
    have hfresh0 : sfn ∉ (entries (dirSlots (fsOf s gh).vol (fsOf s gh).dev.disk gh.G (dirIdOf parent.cluster))).map sName := by
      cases hfo : (entries (dirSlots (fsOf s gh).vol (fsOf s gh).dev.disk gh.G (dirIdOf parent.cluster))).find?
          fun s => decide (sName s = sfn) with
      | some o => rw [hfo] at hr; cases hr
      | none =>
        intro hm
        obtain ⟨o, ho, hoe⟩ := List.mem_map.1 hm
        have := List.find?_eq_none.1 hfo o ho
        simp only [decide_eq_true_eq] at this
        exact this hoe
    -- the engine state the call runs in
    have hvs1 : s1.vols = [{ vi with vol := fs'.vol }] := by rw [hs1]; rfl
    have hvol1 : ({ vi with vol := fs'.vol } : VolInfo).vol = gh.vol := hv'
    have hdisk1 : (fsOf s1 gh).dev.disk = (fsOf s gh).dev.disk := by rw [hs1]; exact hd'
    obtain ⟨hn1, hc1, hM1⟩ := volInv_fs h1
    have hfresh : sfn ∉ (entries (dirSlots (fsOf s1 gh).vol (fsOf s1 gh).dev.disk gh.G (dirIdOf parent.cluster))).map sName := by
      rw [hdisk1]; exact hfresh0
    obtain ⟨r2, fs2, hrun2, hn2, hc2, hsg2, gh', hvol', hM', hmono⟩ :=
      makeDir_med hM1 hn1 hc1 hpv sfn (sfn_length hsfn) (sfn_first_nz hsfn) (first_ne_E5 (hname sfn hsfn)) hfresh s.clock
    rw [withVol_one _ hvs1 hvol1, hrun2]
    exact ⟨gh', volInv_afterVol h1 hvs1 hn2 hc2 hvol' hM' hmono, by rw [hvol']; exact hsg2⟩
  cases r with
  | ok e =>
    by_cases hdir : Attr.isDirectory e.attributes = true
    · simp only [hdir, if_true]; exact ⟨gh, h1, SameGeom.refl _⟩
    · simp only [hdir]; exact ⟨gh, h1, SameGeom.refl _⟩
  | panic m => exact ⟨gh, h1, SameGeom.refl _⟩
  | diverged => exact ⟨gh, h1, SameGeom.refl _⟩
  | err e => cases e <;> first | exact ⟨gh, h1, SameGeom.refl _⟩ | exact hNF rfl

theorem step_mkdir_api {s : Mgr} {gh : Ghost} (hI : VolInv s gh) (d : Nat) (name : List Nat)
    (hname : ∀ sfn, Sfn.createFromStr name = .ok sfn → sfn.head? ≠ some 0xE5) :
    ∃ gh', VolInv (step s (.mkdir d name)).1 gh' ∧ SameGeom gh.vol gh'.vol :=
  step_keeps_of (op := .mkdir d name) (fun s gh hI => by
    show ∃ gh', VolInv ((makeDirInDir d name >>= fun _ => (pure Payload.unit : M Payload)) s).2 gh' ∧ SameGeom gh.vol gh'.vol
    rw [seq_state]; exact mkdir_api hI d name hname) s gh hI

end Sdmmc.Lemmas.VolApi
