/-
C16, last sentence, "never makes an operation FAIL" — success of an allocation is a function of the FAT, not of the
free-space record.  Proofs behind section 4 of `Sdmmc.Props.C16Stale`.

Engine level (`Model.Fat.allocCluster`), for a fault-free coherent engine state `s` whose volume record carries ANY free
count `cnt` and ANY next-free hint `hint` that mounting can produce (`unknown`, or `≥ 2` — in range or not, naming a free
or an in-use cluster):
* `alloc_any_record` — if the volume has a free cluster, `alloc_cluster` answers `Ok c` with `c` a FREE cluster of the
  volume; if it has none, `NotEnoughSpace`, nothing written;
* `alloc_ok_iff_free`, `alloc_full_iff` — the two equivalences; `alloc_success_same_for_all_records` — two records give
  the same verdict (not necessarily the same cluster: the hint decides where the search starts).
From `Lemmas.FatOps.alloc_succeeds_if_free` / `alloc_fails_if_full` / `alloc_in_range_and_free`, whose only hypothesis on
the record is `HintOK`.
API level (`Model.write`), for a state satisfying the hypotheses of `Props.C05Capacity.write_fails_iff_no_space`
(`Writable`, which mentions the record only through `HintOK`):
* `writable_any_record` — `Writable` survives replacing the record of the volume;
* `write_verdict_any_record` — with ANY record, `write` answers `Ok` iff the clusters it needs are free in the FAT, and an
  out-of-space error iff they are not: the same verdict as with the true record.
Not proved: the same for `open_file_in_dir` (create), `make_dir_in_dir` (their out-of-space answers are the abstract
file system's `NotEnoughSpace` alternatives, `Props.C01Fs`; that they depend on the FAT only is engine-level here).
-/
import Sdmmc.Lemmas.StaleSafe
import Sdmmc.Props.C05Capacity

namespace Sdmmc.Lemmas.StaleAlloc
open Sdmmc.Model Sdmmc.Model.Fat
open Sdmmc.Spec hiding NoFault Coherent
open Sdmmc.Lemmas.FBasic (NoFault Coherent)
open Sdmmc.Lemmas.StaleSafe (withRecord sameGeom_withRecord)

/-! ### The engine -/

/-- The engine state with the record of the volume replaced. -/
def fsWithRecord (s : FS) (cnt hint : Option Nat) : FS := { s with vol := withRecord s.vol cnt hint }

theorem endCluster_withRecord (v : FatVolume) (cnt hint : Option Nat) :
    endCluster (withRecord v cnt hint) = endCluster v := rfl
theorem isFree_withRecord (v : FatVolume) (cnt hint : Option Nat) (d : Disk) (c : Nat) :
    isFree (withRecord v cnt hint) d c ↔ isFree v d c := Iff.rfl

/-- The volume has a free cluster. -/
def HasFree (v : FatVolume) (d : Disk) : Prop := ∃ c, 2 ≤ c ∧ c < endCluster v ∧ isFree v d c

/-- **Whatever the record says**: with a free cluster in the FAT the allocation succeeds and hands out a free cluster of
the volume; without, it answers `NotEnoughSpace` and writes nothing. -/
theorem alloc_any_record (s : FS) (prev : Option Nat) (zero : Bool) (hn : NoFault s) (hc : Coherent s)
    (cnt hint : Option Nat) (hh : ∀ n, hint = some n → 2 ≤ n) :
    (HasFree s.vol s.dev.disk → ∃ c s', allocCluster prev zero (fsWithRecord s cnt hint) = (.ok c, s') ∧
      2 ≤ c ∧ c < endCluster s.vol ∧ isFree s.vol s.dev.disk c) ∧
    (¬ HasFree s.vol s.dev.disk → (allocCluster prev zero (fsWithRecord s cnt hint)).1 = .err .NotEnoughSpace ∧
      (allocCluster prev zero (fsWithRecord s cnt hint)).2.dev.wlog = s.dev.wlog) := by
  have hn2 : NoFault (fsWithRecord s cnt hint) := hn
  have hc2 : Coherent (fsWithRecord s cnt hint) := hc
  have hh2 : FatOps.HintOK (fsWithRecord s cnt hint).vol := hh
  refine ⟨fun hf => ?_, fun hf => ?_⟩
  · obtain ⟨c, s', hrun⟩ := FatOps.alloc_succeeds_if_free (fsWithRecord s cnt hint) prev zero hn2 hc2 hh2 hf
    exact ⟨c, s', hrun, FatOps.alloc_in_range_and_free (fsWithRecord s cnt hint) s' prev zero c hn2 hc2 hh2 hrun⟩
  · exact FatOps.alloc_fails_if_full (fsWithRecord s cnt hint) prev zero hn2 hc2 hh2
      fun c h1 h2 h3 => hf ⟨c, h1, h2, h3⟩

/-- **Success ⇔ the FAT has a free cluster.** -/
theorem alloc_ok_iff_free (s : FS) (prev : Option Nat) (zero : Bool) (hn : NoFault s) (hc : Coherent s)
    (cnt hint : Option Nat) (hh : ∀ n, hint = some n → 2 ≤ n) :
    (∃ c s', allocCluster prev zero (fsWithRecord s cnt hint) = (.ok c, s')) ↔ HasFree s.vol s.dev.disk := by
  obtain ⟨h1, h2⟩ := alloc_any_record s prev zero hn hc cnt hint hh
  constructor
  · rintro ⟨c, s', hrun⟩
    refine Classical.byContradiction fun hf => ?_
    have := (h2 hf).1
    rw [hrun] at this
    cases this
  · intro hf
    obtain ⟨c, s', hrun, _⟩ := h1 hf
    exact ⟨c, s', hrun⟩

/-- **`NotEnoughSpace` ⇔ the FAT has no free cluster.** -/
theorem alloc_full_iff (s : FS) (prev : Option Nat) (zero : Bool) (hn : NoFault s) (hc : Coherent s)
    (cnt hint : Option Nat) (hh : ∀ n, hint = some n → 2 ≤ n) :
    (allocCluster prev zero (fsWithRecord s cnt hint)).1 = .err .NotEnoughSpace ↔ ¬ HasFree s.vol s.dev.disk := by
  obtain ⟨h1, h2⟩ := alloc_any_record s prev zero hn hc cnt hint hh
  constructor
  · intro he hf
    obtain ⟨c, s', hrun, _⟩ := h1 hf
    rw [hrun] at he
    cases he
  · exact fun hf => (h2 hf).1

/-- **Two records, one verdict.** -/
theorem alloc_success_same_for_all_records (s : FS) (prev : Option Nat) (zero : Bool) (hn : NoFault s) (hc : Coherent s)
    (cnt1 hint1 cnt2 hint2 : Option Nat) (hh1 : ∀ n, hint1 = some n → 2 ≤ n) (hh2 : ∀ n, hint2 = some n → 2 ≤ n) :
    ((∃ c s', allocCluster prev zero (fsWithRecord s cnt1 hint1) = (.ok c, s')) ↔
      ∃ c s', allocCluster prev zero (fsWithRecord s cnt2 hint2) = (.ok c, s')) ∧
    ((allocCluster prev zero (fsWithRecord s cnt1 hint1)).1 = .err .NotEnoughSpace ↔
      (allocCluster prev zero (fsWithRecord s cnt2 hint2)).1 = .err .NotEnoughSpace) :=
  ⟨(alloc_ok_iff_free s prev zero hn hc cnt1 hint1 hh1).trans (alloc_ok_iff_free s prev zero hn hc cnt2 hint2 hh2).symm,
   (alloc_full_iff s prev zero hn hc cnt1 hint1 hh1).trans (alloc_full_iff s prev zero hn hc cnt2 hint2 hh2).symm⟩

/-! ### `write` -/

open Sdmmc.Props.C05Capacity (Writable needed cbOf freeOf write_fails_iff_no_space)

theorem findIdx?_set_same {α : Type} {p : α → Bool} : ∀ {l : List α} {i : Nat} {x y : α}, l[i]? = some x → p y = p x →
    (l.set i y).findIdx? p = l.findIdx? p
  | [], _, _, _, _, _ => rfl
  | a :: l, 0, x, y, hx, hp => by
    have : a = x := by simpa using hx
    subst this
    rw [List.set_cons_zero, List.findIdx?_cons, List.findIdx?_cons, hp]
  | a :: l, i + 1, x, y, hx, hp => by
    have hx' : l[i]? = some x := by simpa using hx
    rw [List.set_cons_succ, List.findIdx?_cons, List.findIdx?_cons, findIdx?_set_same hx' hp]

/-- The manager with the record of volume slot `vi` replaced. -/
def mgrWithRecord (s : Mgr) (vi : Nat) (v : VolInfo) (cnt hint : Option Nat) : Mgr :=
  { s with vols := s.vols.set vi { v with vol := withRecord v.vol cnt hint } }

/-- **`Writable` does not look at the record.** -/
theorem writable_any_record {s : Mgr} {h i vi : Nat} {f : FileInfo} {v : VolInfo} {cs : List Nat} {A B : List (List Nat)}
    (w : Writable s h i vi f v cs A B) (cnt hint : Option Nat) (hh : ∀ n, hint = some n → 2 ≤ n) :
    Writable (mgrWithRecord s vi v cnt hint) h i vi f { v with vol := withRecord v.vol cnt hint } cs A B := by
  have hsg := sameGeom_withRecord v.vol cnt hint
  refine ⟨w.ok, w.handle, w.file, ?_, ?_, w.mode, hsg.wfGeom w.geom, hh, WriteRefines.sameGeom_fileOK hsg w.fileOK, w.cursor,
    WriteRefines.owns_sameGeom hsg w.owns⟩
  · show (s.vols.set vi _).findIdx? _ = some vi
    rw [findIdx?_set_same (y := { v with vol := withRecord v.vol cnt hint }) w.vol rfl]
    exact w.volume
  · show (s.vols.set vi _)[vi]? = _
    rw [List.getElem?_set_self (List.getElem?_eq_some_iff.1 w.vol).1]

/-- **With ANY record `write` gives the verdict the FAT dictates** — `Ok` iff the clusters the call needs are free,
an out-of-space error iff they are not —, hence the same verdict as with the record `s` carries. -/
theorem write_verdict_any_record (s : Mgr) (h i vi : Nat) (data : Bytes) (f : FileInfo) (v : VolInfo) (cs : List Nat)
    (A B : List (List Nat)) (w : Writable s h i vi f v cs A B) (hmax : f.currentOffset + data.length ≤ Gen.MAX_FILE_SIZE)
    (cnt hint : Option Nat) (hh : ∀ n, hint = some n → 2 ≤ n) :
    ((write h data (mgrWithRecord s vi v cnt hint)).1 = .ok () ↔
      needed cs.length (f.currentOffset + data.length) (cbOf v) - cs.length ≤ freeOf s v) ∧
    (((write h data (mgrWithRecord s vi v cnt hint)).1 = .err .DiskFull ∨
        (write h data (mgrWithRecord s vi v cnt hint)).1 = .err .NotEnoughSpace) ↔
      freeOf s v < needed cs.length (f.currentOffset + data.length) (cbOf v) - cs.length) ∧
    ((write h data (mgrWithRecord s vi v cnt hint)).1 = .ok () ↔ (write h data s).1 = .ok ()) ∧
    (((write h data (mgrWithRecord s vi v cnt hint)).1 = .err .DiskFull ∨
        (write h data (mgrWithRecord s vi v cnt hint)).1 = .err .NotEnoughSpace) ↔
      ((write h data s).1 = .err .DiskFull ∨ (write h data s).1 = .err .NotEnoughSpace)) := by
  have hsg := sameGeom_withRecord v.vol cnt hint
  obtain ⟨_, r, s', _, _, _, hrun, _, _, _, _, hok, herr, _⟩ := write_fails_iff_no_space s h i vi data f v cs A B w hmax
  obtain ⟨_, r2, s2', _, _, _, hrun2, _, _, _, _, hok2, herr2, _⟩ :=
    write_fails_iff_no_space _ h i vi data f _ cs A B (writable_any_record w cnt hint hh) hmax
  have e1 : cbOf { v with vol := withRecord v.vol cnt hint } = cbOf v := WriteRefines.sameGeom_clusterBytesLen hsg
  have e2 : freeOf (mgrWithRecord s vi v cnt hint) { v with vol := withRecord v.vol cnt hint } = freeOf s v :=
    hsg.freeCount _
  rw [e1, e2] at hok2 herr2
  rw [hrun, hrun2]
  exact ⟨hok2, herr2, hok2.trans hok.symm, herr2.trans herr.symm⟩

end Sdmmc.Lemmas.StaleAlloc
