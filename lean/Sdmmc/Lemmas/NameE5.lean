/-
The 0x05 substitution in short file names (`Sfn.kanjiStore` / `Sfn.kanjiShow`, specification
`Sdmmc.Spec.Name83.firstByte`): no name is ever stored with the deleted-entry marker 0xE5 in its
first byte; the first stored byte is 0x05 exactly for names beginning with U+00E5; U+0005 itself is
not a name character; printing a parsed name gives its canonical spelling (so `å…` prints as `å…`).
Used by `Sdmmc.Props.C18` and `Sdmmc.Props.C03All`.
-/
import Sdmmc.Lemmas.C18

namespace Sdmmc.Lemmas.NameE5
open Sdmmc.Model Sdmmc.Gen Sdmmc.Lemmas.C18
open Sdmmc.Spec.Name83 (nameChar pad padBase firstByte canon)

/-- **For EVERY name**: what `create_from_str` answers never starts with 0xE5. -/
theorem createFromStr_first_byte {name : List Nat} {sfn : Bytes} (h : Sfn.createFromStr name = .ok sfn) :
    sfn.head? ≠ some 0xE5 := by
  by_cases h1 : name = [0x2E, 0x2E]
  · rw [h1, create_parent] at h
    injection h with h
    rw [← h]; decide
  by_cases h2 : name = [] ∨ name = [0x2E]
  · have : sfn = Sfn.thisDir := by
      rcases h2 with e | e
      · rw [e, create_this_nil] at h; injection h with h; exact h.symm
      · rw [e, create_this_dot] at h; injection h with h; exact h.symm
    rw [this]; decide
  obtain ⟨st, _, _, rfl⟩ := (create_nonspecial name sfn h1 h2).mp h
  exact kanjiStore_head_ne_e5 _

/-- The first stored byte of a name character: 0x05 exactly for (upper-cased) U+00E5. -/
theorem firstByte_eq_05_iff (c : Nat) (h : nameChar c = true) :
    firstByte c = UInt8.ofNat 0x05 ↔ Sfn.upper c = 0xE5 := by
  obtain ⟨hlo, hhi⟩ := nameChar_range c h
  constructor
  · intro he
    by_cases hu : Sfn.upper c = 0xE5
    · exact hu
    · have : firstByte c = UInt8.ofNat (Sfn.upper c) := by
        show (if Sfn.upper c = 0xE5 then _ else _) = _
        rw [if_neg hu]
        rfl
      rw [this] at he
      have := congrArg UInt8.toNat he
      rw [UInt8.toNat_ofNat', UInt8.toNat_ofNat'] at this
      omega
  · intro hu
    show (if Sfn.upper c = 0xE5 then _ else _) = _
    rw [if_pos hu]

/-- ASCII upper-casing leaves U+00E5 alone, and produces it from nothing else. -/
theorem upper_eq_e5_iff (c : Nat) : Sfn.upper c = 0xE5 ↔ c = 0xE5 := by
  unfold Sfn.upper
  split <;> omega

theorem head?_takeWhile_cons {s : List Nat} {c : Nat} {rest : List Nat}
    (h : s.takeWhile (· ≠ 0x2E) = c :: rest) : s.head? = some c := by
  cases s with
  | nil => cases h
  | cons a t =>
    rw [List.takeWhile_cons] at h
    split at h
    · injection h with h _
      rw [h]; rfl
    · cases h

/-- **The substitution rule, for every name**: the stored first byte is 0x05 iff the name begins with
U+00E5 (`.`, `..` and the empty name are stored with 0x2E first). -/
theorem first_byte_05_iff {s : List Nat} {n : Bytes} (h : Sfn.createFromStr s = .ok n) :
    n.head? = some (UInt8.ofNat 0x05) ↔ s.head? = some 0xE5 := by
  by_cases h1 : s = [0x2E, 0x2E]
  · rw [h1, create_parent] at h
    injection h with h
    rw [← h, h1]; decide
  by_cases h2 : s = [] ∨ s = [0x2E]
  · have : n = Sfn.thisDir := by
      rcases h2 with e | e
      · rw [e, create_this_nil] at h; injection h with h; exact h.symm
      · rw [e, create_this_dot] at h; injection h with h; exact h.symm
    rw [this]
    rcases h2 with e | e <;> rw [e] <;> decide
  have hp := (sfn_parse_iff s n).mp h
  rw [parse_nonspecial s h1 h2] at hp
  split at hp
  · rename_i hc
    injection hp with hp
    cases hb : s.takeWhile (· ≠ 0x2E) with
    | nil => rw [hb] at hc; exact absurd hc.1 (by simp)
    | cons c rest =>
      rw [hb] at hp hc
      have hnc : nameChar c = true := by
        have := hc.2.2.1
        simp only [List.all_cons, Bool.and_eq_true] at this
        exact this.1
      rw [head?_takeWhile_cons hb, ← hp]
      show some (firstByte c) = some (UInt8.ofNat 0x05) ↔ some c = some 0xE5
      rw [Option.some_inj, Option.some_inj, firstByte_eq_05_iff c hnc, upper_eq_e5_iff]
  · cases hp

/-- U+0005 is a control character: a name containing it anywhere — in particular one beginning with
it — is refused, so a stored 0x05 never stands for anything but U+00E5. -/
theorem u0005_rejected (pre rest : List Nat) (n : Bytes) : Sfn.createFromStr (pre ++ 0x05 :: rest) ≠ .ok n := by
  intro h
  have hp := (sfn_parse_iff _ n).mp h
  have h1 : pre ++ 0x05 :: rest ≠ [0x2E, 0x2E] := by
    intro e
    have : (0x05 : Nat) ∈ [0x2E, 0x2E] := by rw [← e]; simp
    simp at this
  have h2 : ¬ (pre ++ 0x05 :: rest = [] ∨ pre ++ 0x05 :: rest = [0x2E]) := by
    rintro (e | e)
    · simp at e
    · have : (0x05 : Nat) ∈ [0x2E] := by rw [← e]; simp
      simp at this
  rw [parse_nonspecial _ h1 h2] at hp
  split at hp
  · rename_i hc
    obtain ⟨_, _, hba, _, hea⟩ := hc
    -- 5 is in the base or in the extension; either way it is not a name character
    have hmem : (0x05 : Nat) ∈ (pre ++ 0x05 :: rest).takeWhile (· ≠ 0x2E) ∨
        (0x05 : Nat) ∈ ((pre ++ 0x05 :: rest).dropWhile (· ≠ 0x2E)).drop 1 := by
      have hsplit : pre ++ 0x05 :: rest =
          (pre ++ 0x05 :: rest).takeWhile (· ≠ 0x2E) ++ (pre ++ 0x05 :: rest).dropWhile (· ≠ 0x2E) :=
        List.takeWhile_append_dropWhile.symm
      have h5 : (0x05 : Nat) ∈ pre ++ 0x05 :: rest := by simp
      rw [hsplit] at h5
      rcases List.mem_append.mp h5 with h5 | h5
      · exact .inl h5
      · right
        cases hd : (pre ++ 0x05 :: rest).dropWhile (· ≠ 0x2E) with
        | nil => rw [hd] at h5; cases h5
        | cons x t =>
          rw [hd] at h5
          have hne : (pre ++ 0x05 :: rest).dropWhile (· ≠ 0x2E) ≠ [] := by rw [hd]; simp
          have hx := List.head_dropWhile_not (fun x => decide (x ≠ 0x2E)) hne
          simp only [hd, List.head_cons] at hx
          have hx' : x = 0x2E := by simpa using hx
          rcases List.mem_cons.mp h5 with e | e
          · rw [hx'] at e; cases e
          · simpa using e
    have hbad : nameChar 0x05 = false := by decide
    rcases hmem with hm | hm
    · have := List.all_eq_true.mp hba 0x05 hm
      rw [hbad] at this; cases this
    · have := List.all_eq_true.mp hea 0x05 hm
      rw [hbad] at this; cases this
  · cases hp

/-! ### Printing a parsed name -/

theorem dotExt_eq (l : List Nat) : dotExt l = (match l with | [] => [] | c :: cs => 0x2E :: c :: cs) := by
  cases l <;> rfl

/-- **print ∘ parse**: a parsed name prints as the canonical spelling of what was parsed. -/
theorem display_canon {s : List Nat} {n : Bytes} (h : Sfn.createFromStr s = .ok n) :
    Sfn.display n = canon s := by
  unfold canon
  by_cases h1 : s = [0x2E, 0x2E]
  · rw [if_pos h1]
    rw [h1, create_parent] at h
    injection h with h
    rw [← h, display_parent]
  rw [if_neg h1]
  by_cases h2 : s = [] ∨ s = [0x2E]
  · rw [if_pos h2]
    have : n = Sfn.thisDir := by
      rcases h2 with e | e
      · rw [e, create_this_nil] at h; injection h with h; exact h.symm
      · rw [e, create_this_dot] at h; injection h with h; exact h.symm
    rw [this, display_this]
  rw [if_neg h2]
  obtain ⟨base, rest, hb, hr, hs, hnd, hrest⟩ := split_dot s
  simp only [hb, hr]
  rcases hrest with rfl | ⟨ext, rfl⟩
  · rw [List.append_nil] at hs
    subst hs
    have hne : s ≠ [] := fun h => h2 (Or.inl h)
    obtain ⟨hl, ha, rfl⟩ := (create_base s n hnd hne).mp h
    rw [display_padded s [] hne hl ha (by simp)]
    rfl
  · subst hs
    obtain ⟨hb1, hl, ha, _, hea, rfl⟩ := (create_dot base ext n hnd h1 h2).mp h
    have hne : base ≠ [] := by intro e; rw [e] at hb1; simp at hb1
    rw [display_padded base ext hne hl ha hea, dotExt_eq]
    rfl

end Sdmmc.Lemmas.NameE5
