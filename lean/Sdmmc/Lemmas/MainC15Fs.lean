/-
Bridging lemma for `Props/C15Main.lean`, second part: the theorems of `Props/C15Fs.lean` (mount of a formatted medium on a
fresh manager; files found and read; root listed; the tree) put together for ONE ghost, and stated for the API call
`step t0 (.openVolume idx)` instead of the function `openRawVolume idx t0`.
-/
import Sdmmc.Props.C15Fs
import Sdmmc.Lemmas.MainC15

namespace Sdmmc.Lemmas.MainC15
open Sdmmc.Model Sdmmc.Model.Fat Sdmmc.Spec.Volume
open Sdmmc.Spec hiding run step NoFault Coherent
open Sdmmc.Spec.FatLayout Sdmmc.Spec.Formatted
open Sdmmc.Spec.AbsFs (view lookup listing)
open Sdmmc.Lemmas.AbsFs (Abs absOf0)
open Sdmmc.Lemmas.Mounted (FreshMgr)
open Sdmmc.Lemmas.MHoare (resetLogs)
open Sdmmc.Props

theorem freshMgr_resetLogs {t0 : Mgr} (h : FreshMgr t0) : FreshMgr (resetLogs t0) :=
  ⟨h.vols, h.dirs, h.files, h.maxVols, h.noFault, h.coherent, h.unlocked⟩

/-- **Mount of a formatted medium on a fresh manager, as an API call, with what follows.**  `t1` is the state after
`open_volume idx`. -/
theorem formatted_found {t0 : Mgr} {idx : Nat} {gh : Ghost} (hfr : FreshMgr t0) (hF : Formatted t0.dev.disk idx gh)
    (hroomD : 0 < t0.maxDirs) (hroomF : 0 < t0.maxFiles) :
    ∃ t1 gh1, (step t0 (.openVolume idx)).1 = t1 ∧ (step t0 (.openVolume idx)).2.result = .ok (.handle t0.nextId) ∧
      VolInv t1 gh1 ∧ gh1.G = gh.G ∧ gh1.dirs = gh.dirs ∧ SameGeom (layoutOn t0.dev.disk idx) gh1.vol ∧
      t1.vols = [{ rawVolume := t0.nextId, idx := idx, vol := gh1.vol }] ∧ t1.dev.disk = t0.dev.disk ∧
      (∀ h', (absOf0 t1 gh1).slots h' =
        (beforeEnd (dirSlots gh1.vol t0.dev.disk gh.G h')).map
          (Lemmas.AbsFs.absSlot gh1.vol.fatType (Lemmas.AbsFs.contentOf gh1.vol t0.dev.disk gh.G []))) ∧
      (∀ (name : List Nat) (sfn : Bytes) (i n : Nat) (m : Spec.AbsFs.Meta) (bytes : Bytes),
        Sfn.createFromStr name = .ok sfn → lookup ((absOf0 t1 gh1).slots 0) sfn = some i →
        ((absOf0 t1 gh1).slots 0)[i]? = some (.file m bytes) →
        (run t1 [.openRoot t0.nextId, .openFile t1.nextId name .ReadOnly, .read ((t1.nextId + 1) % 4294967296) n]).2.map
            (·.result) =
          [.ok (.handle t1.nextId), .ok (.handle ((t1.nextId + 1) % 4294967296)), .ok (.bytes (bytes.take n))]) ∧
      ∃ es, (run t1 [.openRoot t0.nextId, .list t1.nextId]).2.map (·.result) = [.ok (.handle t1.nextId), .ok (.entries es)] ∧
        es.map view = listing ((absOf0 t1 gh1).slots 0) := by
  have hfr' := freshMgr_resetLogs hfr
  have hF' : Formatted (resetLogs t0).dev.disk idx gh := hF
  obtain ⟨t1, gh1, hrun, hI, _, hG, hD, hsg, hdisk, _, hvols, hdirs, hfiles, _, hmd, hmf, _⟩ :=
    C15Fs.mount_establishes_invariant hfr' hF'
  obtain ⟨e1, e2⟩ := (step_openVolume t0 idx hfr.unlocked).1 _ _ hrun
  have hA : Abs t1 gh1 (absOf0 t1 gh1) := Lemmas.AbsFs.abs_absOf0 hfiles
  have hj : Lemmas.Mounted.JustMounted (absOf0 t1 gh1) t0.nextId idx :=
    ⟨hI.unlocked, by show t1.vols.map _ = _; rw [hvols]; rfl, by show t1.dirs.map _ = _; rw [hdirs]; rfl, rfl,
      by show 0 < t1.maxDirs; rw [hmd]; exact hroomD, by show 0 < t1.maxFiles; rw [hmf]; exact hroomF⟩
  refine ⟨t1, gh1, e1, e2, hI, hG, hD, hsg, hvols, hdisk, ?_, ?_, ?_⟩
  · exact C15Fs.mounted_tree hfr' hF' hrun hI hG
  · intro name sfn i n m bytes hsfn hlk hsl
    have hc : C03All.RemountRun gh1.vol t1 [.openRoot t0.nextId, .openFile t1.nextId name .ReadOnly,
        .read ((t1.nextId + 1) % 4294967296) n] := ⟨trivial, trivial, trivial, trivial⟩
    obtain ⟨_, a', _, _, _, hr⟩ := C01Fs.fs_history_refines gh1.vol _ hI hA (SameGeom.refl _)
      (C15Fs.fsCoveredRun_of_remountRun gh1.vol t1 _ hc)
    exact Lemmas.Mounted.abs_open_read hj name sfn n i m bytes hsfn hlk hsl hr
  · have hc : C03All.RemountRun gh1.vol t1 [.openRoot t0.nextId, .list t1.nextId] := ⟨trivial, trivial, trivial⟩
    obtain ⟨_, a', _, _, _, hr⟩ := C01Fs.fs_history_refines gh1.vol _ hI hA (SameGeom.refl _)
      (C15Fs.fsCoveredRun_of_remountRun gh1.vol t1 _ hc)
    exact Lemmas.Mounted.abs_open_list hj hr

end Sdmmc.Lemmas.MainC15
