/-
Lemmas for C12 / C14, part 28 (whole sessions against the specification card): every legal
session, from an identified card and from a freshly powered one.
-/
import Sdmmc.Lemmas.SdSession

namespace Sdmmc.Lemmas.SdSession
open Sdmmc.Model Sdmmc.Spec.Card Sdmmc.Model.Sd Sdmmc.Lemmas.Sd Sdmmc.Gen Sdmmc.Lemmas.SdCardSim
open Sdmmc.Lemmas.SdCardSim2

theorem zeros512_length : zeros512.length = 512 := by rw [zeros512, List.length_replicate]

/-- Legal calls keep every block of the abstract store 512 bytes long. -/
theorem absCall_wf (kind : Kind) (csd : List UInt8) (st : Store) (hst : ∀ j, (st j).length = 512) (c : Call)
    (hc : Legal kind csd c) : ∀ j, ((absCall kind csd st c).2 j).length = 512 := by
  cases c with
  | write blocks idx =>
    intro j
    show (writeStore st idx blocks j).length = 512
    unfold writeStore
    split
    · next h =>
      rw [List.getD_eq_getElem?_getD, List.getElem?_eq_getElem (by omega), Option.getD_some]
      exact hc.2.2.2.2 _ (List.getElem_mem _)
    · exact hst j
  | _ => exact hst

theorem runSession_append {σ : Type} (B : BusOps σ) (pre post : List Call) (s s₁ : St σ) (as : List Answer)
    (h : runSession B pre s = (.ok as, s₁)) :
    runSession B (pre ++ post) s =
      match runSession B post s₁ with
      | (.ok bs, s₂) => (.ok (as ++ bs), s₂)
      | (.err e, s₂) => (.err e, s₂)
      | (.panic p, s₂) => (.panic p, s₂) := by
  induction pre generalizing s as with
  | nil =>
    simp only [runSession, pure_apply, Prod.mk.injEq, SRes.ok.injEq] at h
    obtain ⟨rfl, rfl⟩ := h
    simp only [List.nil_append]
    generalize runSession B post s = x
    rcases x with ⟨r, s₂⟩
    cases r <;> rfl
  | cons c cs ih =>
    simp only [List.cons_append, runSession, bind_apply] at h ⊢
    rcases hc : call B c s with ⟨r, s'⟩
    rw [hc] at h
    cases r with
    | err e => simp at h
    | panic p => simp at h
    | ok a =>
      simp only at h ⊢
      rcases hcs : runSession B cs s' with ⟨r2, s''⟩
      rw [hcs] at h
      cases r2 with
      | err e => simp at h
      | panic p => simp at h
      | ok as' =>
        simp only [pure_apply, Prod.mk.injEq, SRes.ok.injEq] at h
        obtain ⟨rfl, rfl⟩ := h
        rw [ih s' as' hcs]
        generalize runSession B post s'' = x
        rcases x with ⟨r3, s₃⟩
        cases r3 <;> rfl

theorem absRun_append (kind : Kind) (csd : List UInt8) (st : Store) (pre post : List Call) :
    absRun kind csd st (pre ++ post) =
      ((absRun kind csd st pre).1 ++ (absRun kind csd (absRun kind csd st pre).2 post).1,
       (absRun kind csd (absRun kind csd st pre).2 post).2) := by
  induction pre generalizing st with
  | nil => rfl
  | cons c cs ih => simp only [List.cons_append, absRun, ih]

/-- Every legal session from an identified card satisfying the invariant: each call returns the
abstract answer, and the invariant holds for the abstract store afterwards. -/
theorem session_from_inv (kind : Kind) (csd : List UInt8) (ncr nac busy gap : Nat)
    (hncr : ncr ≤ DEFAULT_COMMAND_RETRIES) (hnac : nac ≤ DEFAULT_READ_RETRIES)
    (hbusy : busy ≤ DEFAULT_WRITE_RETRIES) (hgap : gap ≤ 1) :
    ∀ (calls : List Call) (st : Store) (s : St Card), (∀ j, (st j).length = 512) →
    SessInv kind csd ncr nac busy gap st s → s.bus.busyLeft ≤ DEFAULT_COMMAND_RETRIES →
    (∀ c ∈ calls, Legal kind csd c) → (busy ≤ DEFAULT_COMMAND_RETRIES ∨ MultiReadsLast calls) →
    ∃ s', runSession cardBus calls s = (.ok (absRun kind csd st calls).1, s') ∧
      SessInv kind csd ncr nac busy gap (absRun kind csd st calls).2 s' ∧ s'.useCrc = s.useCrc := by
  intro calls
  induction calls with
  | nil => intro st s _ hI _ _ _; exact ⟨s, rfl, hI, rfl⟩
  | cons c cs ih =>
    intro st s hst hI hbl hleg hbr
    have hc := hleg c (List.mem_cons_self ..)
    have hne : c ≠ .markUninit := by intro h; rw [h] at hc; exact hc
    obtain ⟨s1, h1, hI1, hb1, hb2, hu1⟩ := callOp_step kind csd ncr nac busy gap hncr hnac hbusy hgap st hst s hI hbl c hc
    rw [← call_identified cardBus c hne s _ hI.ct] at h1
    cases cs with
    | nil =>
      refine ⟨s1, ?_, hI1, hu1⟩
      simp only [runSession]
      rw [bind_ok h1]; rfl
    | cons c' cs' =>
      have hbl1 : s1.bus.busyLeft ≤ DEFAULT_COMMAND_RETRIES := by
        cases hm : isMultiRead c with
        | false => exact hb1 hm
        | true =>
          rw [hb2 hm]
          rcases hbr with h | h
          · exact h
          · exact absurd (h.1 hm) (by simp)
      obtain ⟨s2, h2, hI2, hu2⟩ := ih _ s1 (absCall_wf kind csd st hst c hc) hI1 hbl1
        (fun x hx => hleg x (List.mem_cons_of_mem _ hx)) (hbr.imp id fun h => h.2)
      refine ⟨s2, ?_, hI2, hu2.trans hu1⟩
      rw [runSession, bind_ok h1, bind_ok h2]; rfl

/-- `acquire` on a freshly powered card establishes the session invariant for the all-zero store
(an empty card reads as zeros). -/
theorem acquire_inv (kind : Kind) (csd : List UInt8) (ncr nac busy initPolls gap : Nat)
    (hncr : ncr ≤ DEFAULT_COMMAND_RETRIES) (hpolls : initPolls ≤ DEFAULT_COMMAND_RETRIES)
    (s : St Card) (hbus : s.bus = Spec.Card.mk kind csd ncr nac busy initPolls gap) :
    ∃ s0, acquire cardBus s = (.ok (), s0) ∧ SessInv kind csd ncr nac busy gap (fun _ => zeros512) s0 ∧
      s0.bus.busyLeft = 0 ∧ s0.useCrc = s.useCrc ∧ s0.acquireRetries = s.acquireRetries := by
  obtain ⟨s0, N, h, hb, hc, hu, hr⟩ := acquire_card s (by rw [hbus]; exact ⟨rfl, rfl, rfl, rfl⟩) (by rw [hbus]; rfl)
    (by rw [hbus]; exact hncr) (by rw [hbus]; exact hpolls)
  rw [hbus] at hb hc
  refine ⟨s0, h, ⟨?_, ?_, ?_, ?_, ?_, ?_, ?_, ?_, ?_, hc, ?_, ?_⟩, by rw [hb]; rfl, hu, hr⟩ <;> try (rw [hb]; rfl)
  · rw [hb]; exact ⟨rfl, rfl, rfl, rfl, rfl, rfl⟩
  · rw [hb, hu]; rfl
  · intro j
    rw [hb]
    show (Spec.Card.mk kind csd ncr nac busy initPolls gap).mem.getD j zeros512 = zeros512
    exact Std.TreeMap.getD_emptyc

/-- Every legal session on a freshly powered card, driver not yet initialised. -/
theorem session_fresh (kind : Kind) (csd : List UInt8) (ncr nac busy initPolls gap : Nat)
    (hncr : ncr ≤ DEFAULT_COMMAND_RETRIES) (hnac : nac ≤ DEFAULT_READ_RETRIES)
    (hbusy : busy ≤ DEFAULT_WRITE_RETRIES) (hpolls : initPolls ≤ DEFAULT_COMMAND_RETRIES) (hgap : gap ≤ 1)
    (s : St Card) (hbus : s.bus = Spec.Card.mk kind csd ncr nac busy initPolls gap) (hct : s.cardType = none)
    (calls : List Call) (hleg : ∀ c ∈ calls, Legal kind csd c)
    (hbr : busy ≤ DEFAULT_COMMAND_RETRIES ∨ MultiReadsLast calls) :
    ∃ s', runSession cardBus calls s = (.ok (absRun kind csd (fun _ => zeros512) calls).1, s') ∧
      (∀ j, getBlock s'.bus j = (absRun kind csd (fun _ => zeros512) calls).2 j) ∧
      s'.bus.violations = [] ∧ s'.useCrc = s.useCrc ∧
      (calls ≠ [] → SessInv kind csd ncr nac busy gap (absRun kind csd (fun _ => zeros512) calls).2 s') := by
  cases calls with
  | nil =>
    refine ⟨s, rfl, fun j => ?_, by rw [hbus]; rfl, rfl, fun h => absurd rfl h⟩
    rw [hbus]
    show (Spec.Card.mk kind csd ncr nac busy initPolls gap).mem.getD j zeros512 = zeros512
    exact Std.TreeMap.getD_emptyc
  | cons c cs =>
    obtain ⟨s0, h0, hI0, hb0, hu0, _⟩ := acquire_inv kind csd ncr nac busy initPolls gap hncr hpolls s hbus
    have hinit : checkInit cardBus s = (.ok (), s0) := by
      unfold checkInit
      rw [bind_ok (get_apply s)]
      simp only [hct, Option.isNone_none, if_true]
      exact h0
    have hc := hleg c (List.mem_cons_self ..)
    have hne : c ≠ .markUninit := by intro h; rw [h] at hc; exact hc
    have hst0 : ∀ j : Nat, ((fun _ => zeros512 : Store) j).length = 512 := fun _ => zeros512_length
    obtain ⟨s1, h1, hI1, hb1, hb2, hu1⟩ := callOp_step kind csd ncr nac busy gap hncr hnac hbusy hgap _ hst0 s0 hI0
      (by rw [hb0]; exact Nat.zero_le _) c hc
    rw [← call_of_checkInit cardBus c hne s s0 hinit] at h1
    cases cs with
    | nil =>
      refine ⟨s1, ?_, hI1.mem, hI1.viol, hu1.trans hu0, fun _ => hI1⟩
      simp only [runSession]
      rw [bind_ok h1]; rfl
    | cons c' cs' =>
      have hbl1 : s1.bus.busyLeft ≤ DEFAULT_COMMAND_RETRIES := by
        cases hm : isMultiRead c with
        | false => exact hb1 hm
        | true =>
          rw [hb2 hm]
          rcases hbr with h | h
          · exact h
          · exact absurd (h.1 hm) (by simp)
      obtain ⟨s2, h2, hI2, hu2⟩ := session_from_inv kind csd ncr nac busy gap hncr hnac hbusy hgap (c' :: cs') _ s1
        (absCall_wf kind csd _ hst0 c hc) hI1 hbl1
        (fun x hx => hleg x (List.mem_cons_of_mem _ hx)) (hbr.imp id fun h => h.2)
      refine ⟨s2, ?_, hI2.mem, hI2.viol, (hu2.trans hu1).trans hu0, fun _ => hI2⟩
      rw [runSession, bind_ok h1, bind_ok h2]; rfl

end Sdmmc.Lemmas.SdSession
