/-
Lemmas for C17, part 2: `splice`, the store loop of `LfnBuffer::push`, and `push` itself.
-/
import Sdmmc.Lemmas.C17Utf

namespace Sdmmc.Lemmas.C17
open Sdmmc.Model Sdmmc.Model.Lfn
open Sdmmc.Spec.Utf (decodeUtf16Lossy isScalar encodeScalar ValidUtf8)

/-! ### `splice` -/

theorem splice_length (b : Bytes) (off : Nat) (src : Bytes) (h : off + src.length ≤ b.length) :
    (splice b off src).length = b.length := by
  unfold splice
  simp only [List.length_append, List.length_take, List.length_drop]
  omega

/-- Writing `e` just below index `f` replaces exactly that window. -/
theorem splice_drop (b e : Bytes) (f : Nat) (he : e.length ≤ f) (hf : f ≤ b.length) :
    (splice b (f - e.length) e).drop (f - e.length) = e ++ b.drop f := by
  unfold splice
  have h1 : (b.take (f - e.length)).length = f - e.length := by
    rw [List.length_take]; omega
  rw [List.append_assoc, List.drop_left' h1]
  have h2 : f - e.length + e.length = f := by omega
  rw [h2]

/-! ### The specification's encoder -/

theorem encode_eq (c : Nat) : Lfn.encodeUtf8 c = encodeScalar c := rfl

theorem encAll_nil : Spec.Utf.encodeUtf8 [] = [] := rfl

theorem encAll_append (a b : List Nat) :
    Spec.Utf.encodeUtf8 (a ++ b) = Spec.Utf.encodeUtf8 a ++ Spec.Utf.encodeUtf8 b := by
  simp [Spec.Utf.encodeUtf8]

theorem encAll_singleton (c : Nat) : Spec.Utf.encodeUtf8 [c] = encodeScalar c := by
  simp [Spec.Utf.encodeUtf8]

theorem encAll_cons (c : Nat) (cs : List Nat) :
    Spec.Utf.encodeUtf8 (c :: cs) = encodeScalar c ++ Spec.Utf.encodeUtf8 cs := by
  simp [Spec.Utf.encodeUtf8]

/-! ### The store loop -/

theorem store_nil (b : Buf) : store b [] = b := by rw [store]

theorem store_cons_overflow (b : Buf) (c : Nat) (rest : List Nat)
    (h : b.free < (Lfn.encodeUtf8 c).length) : store b (c :: rest) = { b with overflow := true } := by
  rw [store]; simp only [if_pos h]

/-- One iteration of the store loop, when the char fits. -/
def storeStep (b : Buf) (c : Nat) : Buf :=
  { b with
    free := b.free - (Lfn.encodeUtf8 c).length
    inner := splice b.inner (b.free - (Lfn.encodeUtf8 c).length) (Lfn.encodeUtf8 c) }

theorem storeStep_free (b : Buf) (c : Nat) : (storeStep b c).free = b.free - (Lfn.encodeUtf8 c).length := rfl
theorem storeStep_inner (b : Buf) (c : Nat) :
    (storeStep b c).inner = splice b.inner (b.free - (Lfn.encodeUtf8 c).length) (Lfn.encodeUtf8 c) := rfl
theorem storeStep_unpaired (b : Buf) (c : Nat) : (storeStep b c).unpaired = b.unpaired := rfl
theorem storeStep_overflow (b : Buf) (c : Nat) : (storeStep b c).overflow = b.overflow := rfl

theorem store_cons_fit (b : Buf) (c : Nat) (rest : List Nat) (h : ¬ b.free < (Lfn.encodeUtf8 c).length) :
    store b (c :: rest) = store (storeStep b c) rest := by
  rw [store]; simp only [if_neg h]; rfl

theorem store_unpaired (cs : List Nat) : ∀ b : Buf, (store b cs).unpaired = b.unpaired := by
  induction cs with
  | nil => intro b; rw [store_nil]
  | cons c rest ih =>
    intro b
    by_cases h : b.free < (Lfn.encodeUtf8 c).length
    · rw [store_cons_overflow b c rest h]
    · rw [store_cons_fit b c rest h, ih, storeStep_unpaired]

/-- The store loop keeps the storage length and the free index inside it. -/
theorem store_bounds (cs : List Nat) : ∀ b : Buf, b.free ≤ b.inner.length →
    (store b cs).inner.length = b.inner.length ∧ (store b cs).free ≤ b.inner.length := by
  induction cs with
  | nil => intro b hb; rw [store_nil]; exact ⟨rfl, hb⟩
  | cons c rest ih =>
    intro b hb
    by_cases h : b.free < (Lfn.encodeUtf8 c).length
    · rw [store_cons_overflow b c rest h]; exact ⟨rfl, hb⟩
    · rw [store_cons_fit b c rest h]
      have hlen : (splice b.inner (b.free - (Lfn.encodeUtf8 c).length) (Lfn.encodeUtf8 c)).length
          = b.inner.length := splice_length _ _ _ (by omega)
      have := ih (storeStep b c) (by rw [storeStep_free, storeStep_inner, hlen]; omega)
      rw [storeStep_inner, hlen] at this
      exact this

/-- The stored text stays well-formed UTF-8 when scalar values are stored. -/
theorem store_valid (cs : List Nat) : ∀ b : Buf, (∀ c ∈ cs, isScalar c = true) →
    b.free ≤ b.inner.length → ValidUtf8 (b.inner.drop b.free) →
    ValidUtf8 ((store b cs).inner.drop (store b cs).free) := by
  induction cs with
  | nil => intro b _ _ hv; rw [store_nil]; exact hv
  | cons c rest ih =>
    intro b hcs hb hv
    by_cases h : b.free < (Lfn.encodeUtf8 c).length
    · rw [store_cons_overflow b c rest h]; exact hv
    · rw [store_cons_fit b c rest h]
      have hle : (Lfn.encodeUtf8 c).length ≤ b.free := by omega
      have hlen : (splice b.inner (b.free - (Lfn.encodeUtf8 c).length) (Lfn.encodeUtf8 c)).length
          = b.inner.length := splice_length _ _ _ (by omega)
      apply ih
      · exact fun x hx => hcs x (List.mem_cons_of_mem _ hx)
      · rw [storeStep_free, storeStep_inner, hlen]; omega
      · rw [storeStep_free, storeStep_inner, splice_drop _ _ _ hle hb]
        obtain ⟨ds, hds, heq⟩ := hv
        refine ⟨c :: ds, ?_, ?_⟩
        · intro x hx
          rcases List.mem_cons.mp hx with rfl | hx
          · exact hcs _ (List.mem_cons_self ..)
          · exact hds x hx
        · rw [encAll_cons, heq, encode_eq]

/-- The buffer describes the text `T`: it holds exactly `T` at the end of a storage of `size`
bytes, or it has overflowed and `T` is longer than the storage. -/
def Holds (size : Nat) (b : Buf) (T : Bytes) : Prop :=
  b.inner.length = size ∧ b.free ≤ size ∧
    (b.overflow = true → size < T.length) ∧
    (b.overflow = false → b.free + T.length = size ∧ b.inner.drop b.free = T)

theorem store_holds (size : Nat) (cs : List Nat) : ∀ (b : Buf) (T : Bytes), Holds size b T →
    Holds size (store b cs) (Spec.Utf.encodeUtf8 cs.reverse ++ T) := by
  induction cs with
  | nil => intro b T h; rw [store_nil]; exact h
  | cons c rest ih =>
    intro b T ⟨hlen, hfree, hov, hno⟩
    have hT : Spec.Utf.encodeUtf8 (c :: rest).reverse ++ T
        = Spec.Utf.encodeUtf8 rest.reverse ++ (encodeScalar c ++ T) := by
      rw [List.reverse_cons, encAll_append, encAll_singleton, List.append_assoc]
    rw [hT]
    by_cases h : b.free < (Lfn.encodeUtf8 c).length
    · rw [store_cons_overflow b c rest h]
      refine ⟨hlen, hfree, fun _ => ?_, fun hc => by cases hc⟩
      rw [encode_eq] at h
      simp only [List.length_append]
      cases hb : b.overflow
      · have := (hno hb).1; omega
      · have := hov hb; omega
    · rw [store_cons_fit b c rest h]
      have hle : (Lfn.encodeUtf8 c).length ≤ b.free := by omega
      have hsl : (splice b.inner (b.free - (Lfn.encodeUtf8 c).length) (Lfn.encodeUtf8 c)).length
          = b.inner.length := splice_length _ _ _ (by omega)
      apply ih
      refine ⟨by rw [storeStep_inner, hsl, hlen], by rw [storeStep_free]; omega,
        fun hb => ?_, fun hb => ?_⟩
      all_goals rw [storeStep_overflow] at hb
      · have := hov hb
        simp only [List.length_append]; omega
      · have ⟨h1, h2⟩ := hno hb
        refine ⟨?_, ?_⟩
        · rw [storeStep_free, ← encode_eq]
          simp only [List.length_append]; omega
        · rw [storeStep_free, storeStep_inner, splice_drop _ _ _ hle (by omega), h2, encode_eq]

/-! ### `push` -/

/-- The code units `push` decodes: the fragment cut at its first NUL, then the carried unit. -/
def pushUnits (b : Buf) (frag : List Nat) : List Nat := frag.takeWhile (· ≠ 0) ++ b.unpaired.toList

/-- `push` in closed form, when the scratch vector is large enough. -/
theorem push_spec (b : Buf) (frag : List Nat) (hW : (pushUnits b frag).length ≤ CHAR_VEC_CAP) :
    push b frag = .ok (store { b with unpaired := (splitFirst (pushUnits b frag)).1 }
      (decodeUtf16Lossy (splitFirst (pushUnits b frag)).2).reverse) := by
  unfold push
  show (match collect (decodeUtf16 (pushUnits b frag)) true [] none with
    | none => Res.panic "Vec was full!?"
    | some (chars, saved) => Res.ok (store { b with unpaired := saved } chars.reverse)) = _
  rw [collect_decode _ hW]

theorem pushUnits_length_le (b : Buf) (frag : List Nat) (hf : frag.length = 13) :
    (pushUnits b frag).length ≤ CHAR_VEC_CAP := by
  have h1 : (frag.takeWhile (· ≠ 0)).length ≤ frag.length := (List.takeWhile_sublist _).length_le
  have h2 : b.unpaired.toList.length ≤ 1 := by cases b.unpaired <;> simp
  have h3 : 14 ≤ CHAR_VEC_CAP := by decide
  unfold pushUnits
  rw [List.length_append]
  omega

end Sdmmc.Lemmas.C17
