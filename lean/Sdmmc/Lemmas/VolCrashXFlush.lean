/-
C10 strengthened (`Props/C10InvX.lean`): `VolCrashFlush.lean` restated for `CIX` / `RawOKX`.
-/
import Sdmmc.Lemmas.VolCrashXApi
import Sdmmc.Lemmas.VolCrashFlush

namespace Sdmmc.Lemmas.VolCrashX
open Sdmmc.Lemmas.VolCrash
open Sdmmc.Model Sdmmc.Model.Fat Sdmmc.Spec.Volume
open Sdmmc.Spec hiding NoFault Coherent run step
open Sdmmc.Lemmas.FBasic
open Sdmmc.Lemmas.VolBase Sdmmc.Lemmas.VolTree Sdmmc.Lemmas.VolMed Sdmmc.Lemmas.VolDisk Sdmmc.Lemmas.VolEng
open Sdmmc.Lemmas.VolApi Sdmmc.Lemmas.CrashBase Sdmmc.Lemmas.CrashMgr Sdmmc.Lemmas.MHoare

section
variable {files : List FileInfo} {gh : Ghost} {X : List (List Nat)}

theorem inj_of_nodup_map {α β : Type} (g : α → β) : ∀ {l : List α}, (l.map g).Nodup → ∀ {x y : α}, x ∈ l → y ∈ l →
    g x = g y → x = y := by
  intro l
  induction l with
  | nil => intro _ x y hx; cases hx
  | cons a l ih =>
    intro hnd x y hx hy he
    rw [List.map_cons, List.nodup_cons] at hnd
    rcases List.mem_cons.1 hx with hxa | hxl
    · rcases List.mem_cons.1 hy with hya | hyl
      · rw [hxa, hya]
      · exact absurd (by rw [← hxa, he]; exact List.mem_map_of_mem (f := g) hyl) hnd.1
    · rcases List.mem_cons.1 hy with hya | hyl
      · exact absurd (by rw [← hya, ← he]; exact List.mem_map_of_mem (f := g) hxl) hnd.1
      · exact ih hnd.2 hxl hyl he

/-- The info sector write. -/
theorem updateInfo_cix {fs : FS} (hM : MedX fs.vol fs.dev.disk files gh X) (hR : RawOKX fs.vol.fatType fs.dev.disk files)
    (hn : NoFault fs) (hc : Coherent fs) :
    ∃ fs', updateInfoSector fs = (.ok (), fs') ∧ NoFault fs' ∧ Coherent fs' ∧ fs'.vol = fs.vol ∧
      MedX fs'.vol fs'.dev.disk files gh X ∧ RawOKX fs'.vol.fatType fs'.dev.disk files ∧ CrashAll (CIX fs.vol) fs fs' := by
  obtain ⟨fs', hr, hn', hc', hv, hM'⟩ := updateInfo_med hM hn hc
  obtain ⟨fs1, h1, _, _, _, _, hother, _, hcase⟩ := DirEntryIO.updateInfoSector_state fs hn hc hM.blocksOK
  have e1 : fs1 = fs' := by rw [hr] at h1; exact (congrArg Prod.snd h1).symm
  subst e1
  have hblk : ∀ h, h ∈ dirIds gh.dirs → ∀ s, s ∈ dirSlots fs.vol fs.dev.disk gh.G h → fs1.dev.disk.get s.1 = fs.dev.disk.get s.1 := by
    intro h hh s hs
    rcases hcase with ⟨_, hd⟩ | ⟨h32, _⟩
    · rw [hd]
    · apply hother
      intro e
      have hgf := FatLens.geom_facts fs.vol hM.geom
      have := FatLens.info_block_in_info_region fs.vol hM.geom h32 (by
        have := FatLens.fatsEnd_ge fs.vol hM.geom
        omega)
      rw [← e] at this
      rcases dirSlot_not_fat hM hh hs with hi | hi <;> rw [hi] at this <;> cases this
  have hR' : RawOKX fs1.vol.fatType fs1.dev.disk files := by rw [hv]; exact rawOKX_dirBlocks hM hR hblk
  have hci0 := cix_of_medX hM hR
  have hci1 : CIX fs.vol fs1.dev.disk := by rw [← hv]; exact cix_of_medX hM' hR'
  refine ⟨fs1, hr, hn', hc', hv, hM', hR', ?_⟩
  by_cases hidle : fs.vol.fatType = .fat16 ∨ (fs.vol.freeClustersCount = none ∧ fs.vol.nextFreeCluster = none)
  · have := FatOps.updateInfoSector_idle fs hidle
    rw [hr] at this
    have e : fs1 = fs := congrArg Prod.snd this
    rw [e]
    exact CrashAll.same rfl rfl hci0
  · have hft : fs.vol.fatType = .fat32 := by
      cases hf : fs.vol.fatType with
      | fat16 => exact absurd (.inl hf) hidle
      | fat32 => rfl
    obtain ⟨s1', h1', _, _, _, hd1', hw1'⟩ := DirEntryIO.updateInfoSector_state32 fs hn hc hft (fun h' => hidle (.inr h'))
    rw [hr] at h1'
    have e : fs1 = s1' := congrArg Prod.snd h1'
    subst e
    exact single_cix hw1' hd1' hci0 hci1

/-- Writing the record of an open file into its slot. -/
theorem flushEntry_cix {fs : FS} (hM : MedX fs.vol fs.dev.disk files gh X) (hR : RawOKX fs.vol.fatType fs.dev.disk files)
    (hn : NoFault fs) (hc : Coherent fs) {f : FileInfo} (hf : f ∈ files) :
    ∃ fs', writeEntryToDisk f.entry fs = (.ok (), fs') ∧ NoFault fs' ∧ Coherent fs' ∧ fs'.vol = fs.vol ∧
      MedX fs'.vol fs'.dev.disk files gh X ∧
      (∀ h, h ∈ dirIds gh.dirs → ∀ o, o ∈ objects h (dirSlots fs'.vol fs'.dev.disk gh.G h) → spos o = fkey f →
        sCluster fs.vol.fatType o = f.entry.cluster ∧ sSize o = f.entry.size) ∧
      RawOKX fs'.vol.fatType fs'.dev.disk files ∧ CrashAll (CIX fs.vol) fs fs' := by
  obtain ⟨fs', hrun, hn', hc', hv', hM', hsync⟩ := flush_med hM hn hc hf
  obtain ⟨fs1, hrun1, hd1, _, _, _⟩ := writeEntryToDisk_exact fs f.entry hn hc
  have e1 : fs1 = fs' := by rw [hrun] at hrun1; exact (congrArg Prod.snd hrun1).symm
  subst e1
  -- the slot of the file
  obtain ⟨h, hh, A, o, B, hO, hpo, _, hnm, _, _⟩ := file_object hM.tree hf
  have ho : o ∈ objects h (dirSlots fs.vol fs.dev.disk gh.G h) := by rw [hO]; simp
  obtain ⟨pre, post, hsp, _, _, _, _⟩ := object_split hM hh ho
  have hmem : o ∈ dirSlots fs.vol fs.dev.disk gh.G h := by rw [hsp]; simp
  have hol := mem_dirSlots_length hM.blocksOK hmem
  have hname : f.entry.name.length = 11 := by
    rw [← hnm]; unfold sName; rw [List.length_take, hol]; rfl
  obtain ⟨hp1, hp2⟩ := Prod.mk.inj hpo
  obtain ⟨hcb, _⟩ := file_record_facts hM hf
  have hbl : (DirEntry.serialize fs.vol.fatType f.entry).length = 32 := VolDisk.serialize_length _ _ hname
  obtain ⟨_, _, hsp', hother⟩ := slot_write hM hh hsp (DirEntry.serialize fs.vol.fatType f.entry) hbl
  have hp1' : o.1 = f.entry.entryBlock := hp1
  have hp2' : o.2.1 = f.entry.entryOffset := hp2
  rw [hp1', hp2', ← hd1] at hsp' hother
  have hR' : RawOKX fs1.vol.fatType fs1.dev.disk files := by
    rw [hv']
    refine rawOKX_edit hM hR hsp hsp' ⟨hp1'.symm, hp2'.symm⟩ hother fun g hg hb ho' => ⟨.inr ?_, ?_⟩
    · have : g = f := inj_of_nodup_map fkey hM.tree.filesDistinct hg hf (by
        show (g.entry.entryBlock, g.entry.entryOffset) = (f.entry.entryBlock, f.entry.entryOffset)
        rw [hb, ho', hp1', hp2'])
      rw [this]
      exact serialize_sCluster _ _ _ _ hname hcb
    · intro h0
      rw [serialize_sCluster _ _ _ _ hname hcb] at h0
      rw [serialize_sSize _ _ _ _ hname (file_record_facts hM hf).2]
      rcases (hM.fileOK f hf).1.chain with ⟨_, _, hz⟩ | hch
      · exact hz
      · have := (ChainL.chain_inRange hch _ (ForestBase.chain_head_mem hch)).1
        omega
  refine ⟨fs1, hrun, hn', hc', hv', hM', hsync, hR', ?_⟩
  obtain ⟨i, hi, hoff⟩ := mem_dirSlots_offset hmem
  obtain ⟨s', h2, _, _, _, _, ⟨p, hw, hd⟩, _⟩ := DirEntryIO.writeEntry_frame fs f.entry hn hc hM.blocksOK
    (by rw [← hp2', hoff]; omega) hname
  have e2 : s' = fs1 := by rw [hrun] at h2; exact (congrArg Prod.snd h2).symm
  subst e2
  exact single_cix hw hd (cix_of_medX hM hR) (by rw [← hv']; exact cix_of_medX hM' hR')

end

/-! ### The API functions -/

theorem flush_callCX {s : Mgr} {gh : Ghost} (hI : VolInv s gh) (hR : RawOKX gh.vol.fatType s.dev.disk s.files) (file : Nat) :
    CallCX gh.vol s (flushFile file s).2 := by
  have hci := cix_start hI hR
  cases hidx : s.files.findIdx? (·.rawFile = file) with
  | none =>
    have hfl : flushFile file s = (.err .BadHandle, s) := by
      unfold flushFile
      rw [bind_err (getFileById_bad hidx)]
    rw [hfl]; exact callCX_refl hci hR
  | some i =>
    obtain ⟨f, hf, _⟩ := findIdx?_some_get hidx
    have hfm : f ∈ s.files := List.mem_of_getElem? hf
    have h1 := getFileById_ok hidx
    have h2 := getFile_ok hf
    by_cases hd : f.dirty = true
    · obtain ⟨vi, hv, hvol, hrv, h3⟩ := vol_of_file hI hfm
      obtain ⟨hn, hc, hM⟩ := volInv_fs hI
      have hassert : ¬ (f.entry.size ≠ 0 ∧ f.entry.cluster = 0) := by
        rintro ⟨hs, hcl⟩
        obtain ⟨hok, _⟩ := hI.med.fileOK f hfm
        rcases hok.chain with ⟨_, _, h0⟩ | hch
        · exact hs h0
        · have := (ChainL.chain_inRange hch _ (ForestBase.chain_head_mem hch)).1
          omega
      rw [DirMgr.flushFile_dirty file i 0 f s h1 h2 hd h3 hassert]
      obtain ⟨fs1, hr1, hn1, hc1, hv1, hM1, hR1, hcr1⟩ := updateInfo_cix (fs := fsOf s gh) hM hR hn hc
      obtain ⟨fs2, hr2, hn2, hc2, hv2, hM2, _, hR2, hcr2⟩ := flushEntry_cix hM1 hR1 hn1 hc1 hfm
      have hrun : DirEntryIO.flushF f.entry (fsOf s gh) = (.ok (), fs2) := by
        unfold DirEntryIO.flushF
        rw [FBasic.bind_ok hr1, hr2]
      have hcr : CrashAll (CIX gh.vol) (fsOf s gh) (DirEntryIO.flushF f.entry (fsOf s gh)).2 := by
        rw [hrun]
        refine CrashAll.trans hcr1 ?_
        have : (fsOf s gh).vol = fs1.vol := hv1.symm
        rw [show gh.vol = fs1.vol from this]
        exact hcr2
      refine ⟨withVol_one_crash _ hv hvol hcr, ?_⟩
      rw [withVol_one _ hv hvol, hrun]
      have : fs2.vol.fatType = gh.vol.fatType := by rw [hv2, hv1]; rfl
      rw [← this]
      exact hR2
    · have hd' : f.dirty = false := by simpa using hd
      rw [DirMgr.flushFile_clean file i f s h1 h2 hd']
      exact callCX_refl hci hR

theorem closeFile_callCX {s : Mgr} {gh : Ghost} (hI : VolInv s gh) (hR : RawOKX gh.vol.fatType s.dev.disk s.files) (file : Nat) :
    CallCX gh.vol s (closeFile file s).2 := by
  have hfl := flush_callCX hI hR file
  unfold closeFile
  rw [attempt_bind]
  cases hidx : s.files.findIdx? (·.rawFile = file) with
  | none =>
    have hfl' : flushFile file s = (.err .BadHandle, s) := by
      unfold flushFile
      rw [bind_err (getFileById_bad hidx)]
    rw [hfl']
    simp only
    rw [bind_err (getFileById_bad hidx)]
    exact callCX_refl (cix_start hI hR) hR
  | some i =>
    obtain ⟨f, hf, _⟩ := findIdx?_some_get hidx
    obtain ⟨s1, hfl1, hfiles, _⟩ := flush_api hI hidx hf
    rw [hfl1] at hfl ⊢
    simp only
    have hidx1 : s1.files.findIdx? (·.rawFile = file) = some i := by rw [hfiles]; exact hidx
    rw [bind_ok (getFileById_ok hidx1), modify_bind]
    show CallCX gh.vol s { s1 with files := swapRemove s1.files i }
    refine ⟨MCrash.of_eq hfl.crash rfl, rawOKX_sub hfl.raw fun g hg => ?_⟩
    exact mem_of_mem_swapRemove hg

theorem closeVolume_callCX {s : Mgr} {gh : Ghost} (hI : VolInv s gh) (hR : RawOKX gh.vol.fatType s.dev.disk s.files) (volume : Nat) :
    CallCX gh.vol s (closeVolume volume s).2 := by
  have hci := cix_start hI hR
  unfold closeVolume
  rw [get_bind]
  by_cases hfa : (s.files.any (·.rawVolume = volume)) = true
  · rw [if_pos hfa]; exact callCX_refl hci hR
  rw [if_neg hfa]
  by_cases hda : (s.dirs.any (·.rawVolume = volume)) = true
  · rw [if_pos hda]; exact callCX_refl hci hR
  rw [if_neg hda]
  cases hv : s.vols.findIdx? (·.rawVolume = volume) with
  | none => rw [bind_err (getVolumeById_bad hv)]; exact callCX_refl hci hR
  | some volIdx =>
    obtain ⟨h0, vi, hvs, hvol, hraw⟩ := vol_of_handle hI hv
    subst h0
    rw [bind_ok (getVolumeById_ok hv)]
    obtain ⟨hn, hc, hM⟩ := volInv_fs hI
    obtain ⟨fs1, hr1, hn1, hc1, hv1, hM1, hR1, hcr1⟩ := updateInfo_cix (fs := fsOf s gh) hM hR hn hc
    have hw := withVol_one updateInfoSector hvs hvol
    have hcr : CrashAll (CIX gh.vol) (fsOf s gh) (updateInfoSector (fsOf s gh)).2 := by rw [hr1]; exact hcr1
    have hmc := withVol_one_crash updateInfoSector hvs hvol hcr
    rw [hr1] at hw
    rw [hw] at hmc
    rw [bind_ok hw]
    show CallCX gh.vol s { afterVol s vi fs1 with vols := swapRemove (afterVol s vi fs1).vols 0 }
    refine ⟨MCrash.of_eq hmc rfl, ?_⟩
    have : fs1.vol.fatType = gh.vol.fatType := by rw [hv1]; rfl
    rw [← this]
    exact hR1

end Sdmmc.Lemmas.VolCrashX
