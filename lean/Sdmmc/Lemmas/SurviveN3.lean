/-
C09 with SEVERAL OPEN VOLUMES, part 3: ONE CALL of a multi-volume manager, and its crash points.

VOCABULARY (spelled out in `Props/C09Multi.lean`).
* `KeptN v0 e cs ys h hv s` — the manager `s` satisfies the crash invariant of several open volumes (`VolInvNC` for some
  ghosts), a volume record `vi` with raw handle `hv` is open (at SOME index `i`: the index of a record changes when another
  volume is closed, the handle does not; handles of open volumes are pairwise distinct), and the projection `proj s i` — the
  manager as that volume sees it — shows the flushed file: the one-volume invariant `Kept v0 e cs ys h (proj s i) gh` of
  `Lemmas/SurviveStep.lean`, for some ghost `gh` of that volume.
* `TargetsN s hv h N pos op` — the call `op`, issued in `s`, is ADDRESSED to the volume with handle `hv` (`target s op` is the
  index of its record) and targets the file there (`Targets (proj s i) h N pos op`: truncating open / delete of the name
  through a handle of directory `h`, `write` through a handle at the slot).  A call addressed to another volume or to no
  volume never targets the file — whatever names it uses.  `OpensN`: the same for "opens the name in a mode other than
  `ReadOnly`".

ONE CALL.
* `keptN_step_same` — a call addressed to the file's volume: it runs on the projection exactly (`Props.C03Multi.step_proj`);
  the one-volume theorem `Lemmas.Survive.kept_step` applies there; its result is moved to the projection of the state reached
  (`kept_of_projRel`, through `Kept.transport`).
* `keptN_step_other` — a call NOT addressed to the file's volume (another volume's create / write / delete / mkdir / …,
  `open_volume`, `close_volume` of ANY volume, `open_root_dir`, `close_dir`, `has_open_handles`, stale handles): no
  structural block of the file's volume is written at any crash point (`writes_miss_structural`), the records of the volume
  stay (`quiet_step`).
* `keptN_step` — together: at EVERY crash point of the call the file is kept (`SameFile`); the state after the call is
  `KeptN` again provided the volume `hv` is still open (always, unless the call is `close_volume hv` and succeeds).
* `keptN_crash` — at every crash point `dk` of a call issued in a `KeptN` state: `Lemmas.MainC09.Shows` (slot / chain /
  contents; `CrashInv`, path, first hit; any fresh manager reads the file back) — `CrashInv` and mounting for the file's
  volume from `Lemmas.VolNCrash.step_crash_multi`, the fresh reader from `Lemmas.Survive.kept_crash` — and `dk` mounts.
-/
import Sdmmc.Lemmas.SurviveN2
import Sdmmc.Lemmas.MainC09

namespace Sdmmc.Lemmas.SurviveN
open Sdmmc.Model Sdmmc.Model.Fat Sdmmc.Spec.Volume
open Sdmmc.Spec hiding NoFault Coherent run step
open Sdmmc.Props
open Sdmmc.Props.C03Multi (CoveredN CoveredNRun)
open Sdmmc.Lemmas.VolN (LabelFresh ProjRel vkey)
open Sdmmc.Lemmas.VolNCrash (Structural)
open Sdmmc.Lemmas.Survive (Kept SameFile Targets Opens PathOn)
open Sdmmc.Lemmas.VolTree (fkey spos)
open Sdmmc.Lemmas.MainC09 (Shows)

/-! ### Vocabulary -/

/-- The multi-volume manager `s` shows the flushed file on the open volume with raw handle `hv`. -/
def KeptN (v0 : FatVolume) (e : DirEntry) (cs : List Nat) (ys : List Slot) (h hv : Nat) (s : Mgr) : Prop :=
  (∃ ghs, VolInvNC s ghs) ∧
  ∃ (i : Nat) (vi : VolInfo) (gh : Ghost), s.vols[i]? = some vi ∧ vi.rawVolume = hv ∧ Kept v0 e cs ys h (proj s i) gh

/-- The call is addressed to the volume with handle `hv` and targets the file there. -/
def TargetsN (s : Mgr) (hv h : Nat) (N : Bytes) (pos : Nat × Nat) (op : Op) : Prop :=
  ∃ (i : Nat) (vi : VolInfo), s.vols[i]? = some vi ∧ vi.rawVolume = hv ∧ target s op = some i ∧ Targets (proj s i) h N pos op

/-- The call is addressed to the volume with handle `hv` and opens the name `N` of directory `h` there in a mode other than
`ReadOnly`. -/
def OpensN (s : Mgr) (hv h : Nat) (N : Bytes) (op : Op) : Prop :=
  ∃ (i : Nat) (vi : VolInfo), s.vols[i]? = some vi ∧ vi.rawVolume = hv ∧ target s op = some i ∧ Opens (proj s i) h N op

/-- Only read-only handles of volume `hv` sit at the slot. -/
def ROAtN (s : Mgr) (hv : Nat) (pos : Nat × Nat) : Prop := ∀ f, f ∈ volFiles s hv → fkey f = pos → f.mode = .ReadOnly

/-- The volume handle `hv` is open. -/
def IsOpen (hv : Nat) (s : Mgr) : Prop := hv ∈ s.vols.map (·.rawVolume)

theorem KeptN.isOpen {v0 : FatVolume} {e : DirEntry} {cs : List Nat} {ys : List Slot} {h hv : Nat} {s : Mgr}
    (hK : KeptN v0 e cs ys h hv s) : IsOpen hv s := by
  obtain ⟨_, i, vi, _, hvi, hraw, _⟩ := hK
  exact List.mem_map.2 ⟨vi, List.mem_of_getElem? hvi, hraw⟩

/-! ### From the state the projection reaches to the projection of the state reached -/

section
variable {v0 : FatVolume} {e : DirEntry} {cs : List Nat} {ys : List Slot} {h : Nat}

theorem kept_of_projRel {t1 : Mgr} {gh : Ghost} (hK : Kept v0 e cs ys h t1 gh) (hst : Reopen.Storable v0.fatType e) {s' : Mgr}
    {i : Nat} {vi' : VolInfo} (hvi' : s'.vols[i]? = some vi') (hrel : ProjRel vi'.rawVolume i s' t1) :
    Kept v0 e cs ys h (proj s' i) gh := by
  rw [C03Multi.proj_def hvi']
  refine Kept.transport hK hst ?_ ?_ ?_ rfl ?_ ?_ ?_ ?_ (fun _ _ => ?_)
  · show s'.dev.faults = []
    rw [← hrel.dev]; exact hK.inv.noFault
  · show ∀ i, s'.cache.tag = some i → s'.cache.blk = s'.dev.disk.get i
    rw [← hrel.dev, ← hrel.cache]; exact hK.inv.coherent
  · show s'.locked = false
    rw [← hrel.locked]; exact hK.inv.unlocked
  · show (s'.vols[i]?).toList = t1.vols
    rw [hrel.vols]
  · exact hrel.files
  · exact fun di hdi => .inl (hrel.dirs.symm.subset hdi)
  · show BlocksOK s'.dev.disk
    rw [← hrel.dev]; exact hK.inv.med.blocksOK
  · show s'.dev.disk.get _ = t1.dev.disk.get _
    rw [hrel.dev]

/-- The record of a projection. -/
theorem proj_vols {s : Mgr} {i : Nat} {vi : VolInfo} (hvi : s.vols[i]? = some vi) : (proj s i).vols = [vi] := by
  rw [C03Multi.proj_def hvi]
  show (s.vols[i]?).toList = [vi]
  rw [hvi]; rfl

theorem kept_vol {s : Mgr} {i : Nat} {vi : VolInfo} {gh : Ghost} (hvi : s.vols[i]? = some vi)
    (hK : Kept v0 e cs ys h (proj s i) gh) : vi.vol = gh.vol := by
  rcases hK.inv.vols with h0 | ⟨w, hw, hwv⟩
  · rw [proj_vols hvi] at h0; cases h0
  · rw [proj_vols hvi] at hw; cases hw; exact hwv

/-! ### A call addressed to the file's volume -/

theorem keptN_step_same {s : Mgr} {ghs : List Ghost} (hI : VolInvNC s ghs) {i : Nat} {vi : VolInfo} {gh : Ghost}
    (hvi : s.vols[i]? = some vi) (hKi : Kept v0 e cs ys h (proj s i) gh) (hst : Reopen.Storable v0.fatType e) (op : Op)
    (ht : target s op = some i) (hf : LabelFresh s op) (hn : ¬ Targets (proj s i) h e.name (e.entryBlock, e.entryOffset) op) :
    (∀ k, SameFile v0 e cs gh ys s.dev.disk (crashDisk s.dev.disk (step s op).2.writes k)) ∧
    ∃ vi' gh', (step s op).1.vols[i]? = some vi' ∧ vi'.rawVolume = vi.rawVolume ∧
      Kept v0 e cs ys h (proj (step s op).1 i) gh' ∧
      (ROAtN s vi.rawVolume (e.entryBlock, e.entryOffset) → ¬ Opens (proj s i) h e.name op →
        ROAtN (step s op).1 vi.rawVolume (e.entryBlock, e.entryOffset)) := by
  obtain ⟨hout, hrel, hkeys, _⟩ := C03Multi.step_proj hI.inv op ht hvi hf
  obtain ⟨hpf, _, hd⟩ := C04Multi.proj_tables hvi
  have hc : AbsFs.FsCovered v0 (proj s i) op := by
    cases op <;> first | cases ht | exact C03All.name_ok_all _ | exact trivial
  obtain ⟨hsame, _, _, gh', hK', _, hro⟩ := Survive.kept_step hKi hst hc hn
  rw [hout, hd] at hsame
  have hlen : (step s op).1.vols.length = s.vols.length := by
    have := congrArg List.length hkeys
    simpa using this
  obtain ⟨vi', hvi'⟩ : ∃ vi', (step s op).1.vols[i]? = some vi' :=
    ⟨_, List.getElem?_eq_getElem (by rw [hlen]; exact (List.getElem?_eq_some_iff.1 hvi).1)⟩
  have hraw' : vi'.rawVolume = vi.rawVolume := by
    have h1 : ((step s op).1.vols.map vkey)[i]? = some (vkey vi') := by rw [List.getElem?_map, hvi']; rfl
    have h2 : (s.vols.map vkey)[i]? = some (vkey vi) := by rw [List.getElem?_map, hvi]; rfl
    rw [hkeys, h2] at h1
    exact (congrArg Prod.fst (Option.some.inj h1)).symm
  have hrel' : ProjRel vi'.rawVolume i (step s op).1 (step (proj s i) op).1 := by rw [hraw']; exact hrel
  refine ⟨hsame, vi', gh', hvi', hraw', kept_of_projRel hK' hst hvi' hrel', ?_⟩
  intro hroS hno f hfm hk
  refine hro (fun g hg hgk => hroS g (by rw [← hpf]; exact hg) hgk) hno f (hrel.files.symm.subset hfm) hk

/-! ### A call NOT addressed to the file's volume -/

theorem keptN_step_other {s : Mgr} {ghs : List Ghost} (hI : VolInvNC s ghs) {i : Nat} {vi : VolInfo} {gh : Ghost}
    (hvi : s.vols[i]? = some vi) (hKi : Kept v0 e cs ys h (proj s i) gh) (hst : Reopen.Storable v0.fatType e) (op : Op)
    (hnt : target s op ≠ some i) (hf : LabelFresh s op) :
    (∀ k, SameFile v0 e cs gh ys s.dev.disk (crashDisk s.dev.disk (step s op).2.writes k)) ∧
    (∀ ghs', VolInvNC (step s op).1 ghs' →
      (op ≠ .closeVolume vi.rawVolume ∨ IsOpen vi.rawVolume (step s op).1) →
      ∃ i', (step s op).1.vols[i']? = some vi ∧ Kept v0 e cs ys h (proj (step s op).1 i') gh) ∧
    (ROAtN s vi.rawVolume (e.entryBlock, e.entryOffset) → ROAtN (step s op).1 vi.rawVolume (e.entryBlock, e.entryOffset)) := by
  obtain ⟨hpf, hpd, hd⟩ := C04Multi.proj_tables hvi
  have hgv : vi.vol = gh.vol := kept_vol hvi hKi
  have hilt : i < ghs.length := by rw [hI.inv.len]; exact (List.getElem?_eq_some_iff.1 hvi).1
  obtain ⟨ghi, hghi⟩ : ∃ g, ghs[i]? = some g := ⟨_, List.getElem?_eq_getElem hilt⟩
  have hmiss : ∀ b, Structural gh.vol b → ∀ w, w ∈ (step s op).2.writes → w.1 ≠ b := by
    intro b hb
    rw [← hgv] at hb
    exact writes_miss_structural hI op hvi hnt hb
  have hQ := quiet_step hI op hf hvi hnt
  refine ⟨fun k => ?_, fun ghs' hI' hopen => ?_, fun hro f hfm hk => hro f (hQ.files.symm.subset hfm) hk⟩
  · obtain ⟨⟨_, hcr⟩, _⟩ := VolNCrash.step_crash_multi hI op hf k hvi hghi
    have := sameFile_of_agree hKi hst hcr.blocksOK (fun b hb => by
      rw [hd]; exact VolNCrash.crashDisk_get_other _ _ _ _ (hmiss b hb))
    rw [hd] at this
    exact this
  · have hmem := hQ.vols vi (List.mem_of_getElem? hvi) rfl hopen
    obtain ⟨i', hvi'⟩ := List.getElem?_of_mem hmem
    have hi'lt : i' < ghs'.length := by rw [hI'.inv.len]; exact (List.getElem?_eq_some_iff.1 hvi').1
    obtain ⟨gh', hgh'⟩ : ∃ g, ghs'[i']? = some g := ⟨_, List.getElem?_eq_getElem hi'lt⟩
    refine ⟨i', hvi', ?_⟩
    rw [C03Multi.proj_def hvi']
    refine Kept.transport hKi hst hI'.inv.noFault hI'.inv.coherent hI'.inv.unlocked rfl ?_ ?_ ?_
      (hI'.inv.med i' vi gh' hvi' hgh').blocksOK ?_
    · show ((step s op).1.vols[i']?).toList = (proj s i).vols
      rw [hvi', proj_vols hvi]; rfl
    · rw [hpf]; exact hQ.files
    · intro di hdi
      rw [hpd]
      exact hQ.dirs di hdi
    · intro b hb
      show (step s op).1.dev.disk.get b = (proj s i).dev.disk.get b
      rw [hd, step_disk_multi hI op b]
      exact CrashBase.applyWrites_get_other _ _ _ (hmiss b hb)

/-! ### One call -/

/-- **One call of a multi-volume manager**, issued in a `KeptN` state, that does not target the file: at EVERY crash point of
the call the file is kept (`SameFile`, relative to a `Kept` projection of the state the call is issued in); if the volume
`hv` is still open afterwards — always, unless the call is a successful `close_volume hv` — the state after the call is
`KeptN`; if only read-only handles sit at the slot and the call does not open the file in another mode, only read-only
handles sit there afterwards. -/
theorem keptN_step {hv : Nat} {s : Mgr} (hK : KeptN v0 e cs ys h hv s) (hst : Reopen.Storable v0.fatType e) (op : Op)
    (hc : CoveredN s op) (hf : LabelFresh s op) (hn : ¬ TargetsN s hv h e.name (e.entryBlock, e.entryOffset) op) :
    (∃ (i : Nat) (vi : VolInfo) (gh : Ghost), s.vols[i]? = some vi ∧ vi.rawVolume = hv ∧ Kept v0 e cs ys h (proj s i) gh ∧
      ∀ k, SameFile v0 e cs gh ys s.dev.disk (crashDisk s.dev.disk (step s op).2.writes k)) ∧
    ((op ≠ .closeVolume hv ∨ IsOpen hv (step s op).1) → KeptN v0 e cs ys h hv (step s op).1) ∧
    (ROAtN s hv (e.entryBlock, e.entryOffset) → ¬ OpensN s hv h e.name op →
      ROAtN (step s op).1 hv (e.entryBlock, e.entryOffset)) := by
  obtain ⟨⟨ghs, hI⟩, i, vi, gh, hvi, hraw, hKi⟩ := hK
  subst hraw
  obtain ⟨ghs', hI'⟩ := VolNCrash.step_invariantNC hI op hc hf
  by_cases ht : target s op = some i
  · have hn' : ¬ Targets (proj s i) h e.name (e.entryBlock, e.entryOffset) op := fun hT => hn ⟨i, vi, hvi, rfl, ht, hT⟩
    obtain ⟨hsame, vi', gh', hvi', hraw', hK', hro⟩ := keptN_step_same hI hvi hKi hst op ht hf hn'
    exact ⟨⟨i, vi, gh, hvi, rfl, hKi, hsame⟩, fun _ => ⟨⟨ghs', hI'⟩, i, vi', gh', hvi', hraw', hK'⟩,
      fun hroS hno => hro hroS (fun hO => hno ⟨i, vi, hvi, rfl, ht, hO⟩)⟩
  · obtain ⟨hsame, hnext, hro⟩ := keptN_step_other hI hvi hKi hst op ht hf
    refine ⟨⟨i, vi, gh, hvi, rfl, hKi, hsame⟩, fun hopen => ?_, fun hroS _ => hro hroS⟩
    obtain ⟨i', hvi', hK'⟩ := hnext ghs' hI' hopen
    exact ⟨⟨ghs', hI'⟩, i', vi, gh, hvi', rfl, hK'⟩

/-! ### The crash points of one call -/

/-- `Shows` does not depend on the medium the contents are read off, as long as the contents agree. -/
theorem Shows.congr {d0 d0' : Disk} {idx : Nat} {dk : Disk} (hS : Shows v0 e cs ys h d0 idx dk)
    (hc : ∀ n, fileContent v0 d0 cs n = fileContent v0 d0' cs n) : Shows v0 e cs ys h d0' idx dk := by
  obtain ⟨⟨r1, r2, r3, r4⟩, r5, r6⟩ := hS
  exact ⟨⟨r1, r2, r3, fun n => (r4 n).trans (hc n)⟩, r5, C09Hist.FreshReads.congr r6 hc⟩

/-- The medium mounts as partition `idx`, to a record with the geometry of `v0`. -/
def Mounts (v0 : FatVolume) (idx : Nat) (d : Disk) : Prop := ∃ vm, mountPure (d.get 0) idx d.get = .ok vm ∧ SameGeom vm v0

/-- **Every crash point of a call issued in a `KeptN` state** that does not target the file shows the file (`Shows`: slot,
chain, contents; crash-consistent, path, first hit; any fresh manager reads it back), and mounts — given that the medium the
call is issued on mounts. -/
theorem keptN_crash {hv : Nat} {s : Mgr} (hK : KeptN v0 e cs ys h hv s) (hst : Reopen.Storable v0.fatType e) (op : Op)
    (hc : CoveredN s op) (hf : LabelFresh s op) (hn : ¬ TargetsN s hv h e.name (e.entryBlock, e.entryOffset) op)
    {idx : Nat} (hm : Mounts v0 idx s.dev.disk) (k : Nat) :
    Shows v0 e cs ys h s.dev.disk idx (crashDisk s.dev.disk (step s op).2.writes k) ∧
    Mounts v0 idx (crashDisk s.dev.disk (step s op).2.writes k) := by
  obtain ⟨⟨i, vi, gh, hvi, hraw, hKi, hsame⟩, _, _⟩ := keptN_step hK hst op hc hf hn
  obtain ⟨⟨ghs, hI⟩, _⟩ := hK
  obtain ⟨vm, hmv, hsg⟩ := hm
  have hilt : i < ghs.length := by rw [hI.inv.len]; exact (List.getElem?_eq_some_iff.1 hvi).1
  obtain ⟨ghi, hghi⟩ : ∃ g, ghs[i]? = some g := ⟨_, List.getElem?_eq_getElem hilt⟩
  have hgg : ghi.vol = gh.vol := (hI.inv.vols i vi ghi hvi hghi).symm.trans (kept_vol hvi hKi)
  have h0 : SameGeom v0 ghi.vol := by rw [hgg]; exact hKi.geom
  obtain ⟨⟨ghk, hcr⟩, _, hmnt⟩ := VolNCrash.step_crash_multi hI op hf k hvi hghi
  obtain ⟨hb, hcore⟩ := VolCrash.crashInv_iff.1 hcr
  have hC : CrashInv v0 (crashDisk s.dev.disk (step s op).2.writes k) ghk :=
    VolCrash.crashInv_iff.2 ⟨hb, VolCrash.core_sameGeom h0.symm hcore⟩
  obtain ⟨w, hmw, hsw⟩ := hmnt idx vm hmv (hsg.trans h0)
  have hd : (proj s i).dev = s.dev := (C04Multi.proj_tables hvi).2.2
  have hS : SameFile v0 e cs gh ys (proj s i).dev.disk (crashDisk s.dev.disk (step s op).2.writes k) := by
    rw [hd]; exact hsame k
  obtain ⟨r2, r4, rP, r5, r6⟩ := Survive.kept_crash hKi hst hS hC idx w hmw (h0.trans hsw)
  rw [hd] at r4 r6
  refine ⟨⟨⟨hb, r2.slot, r2.chain, r4⟩, ⟨ghk, hC, rP, ?_⟩, r6⟩, ⟨w, hmw, (h0.trans hsw).symm⟩⟩
  rw [Survive.slotOf_of_flushed r2]; exact r5

/-- The medium after the call, as a crash point. -/
theorem final_disk {s : Mgr} {ghs : List Ghost} (hI : VolInvNC s ghs) (op : Op) :
    (step s op).1.dev.disk.get = (crashDisk s.dev.disk (step s op).2.writes (step s op).2.writes.length).get := by
  funext b
  rw [step_disk_multi hI op b]
  unfold crashDisk
  rw [List.take_length]

end

end Sdmmc.Lemmas.SurviveN
