/-
C11 under the invariant, part 2 — every function of `Sdmmc.Model.Fat` except `make_dir` is `Pre`: under any fault
schedule its run is the fault-free run, truncated at the first device call that fails (`Lemmas/FaultPre.lean`).
(`make_dir` goes on after a failure — its clean-up `free_cluster_chain` — and is treated separately.)
-/
import Sdmmc.Lemmas.FaultPre

namespace Sdmmc.Lemmas.FaultPre
open Sdmmc.Model Sdmmc.Model.Fat Sdmmc.Lemmas.Fault

theorem updateFat_pre (c n : Nat) : Pre (updateFat c n) := by
  unfold updateFat; pre_auto

theorem nextCluster_pre (c : Nat) : Pre (nextCluster c) := by
  unfold nextCluster; pre_auto

theorem findNextFreeCluster_pre (fuel cur endC : Nat) : Pre (findNextFreeCluster fuel cur endC) := by
  induction fuel generalizing cur with
  | zero => unfold findNextFreeCluster; pre_auto
  | succ n ih => unfold findNextFreeCluster; pre_auto

theorem findNextFree_pre (a b : Nat) : Pre (findNextFree a b) := findNextFreeCluster_pre _ _ _

theorem zeroBlocks_pre (n first : Nat) : Pre (zeroBlocks n first) := by
  induction n generalizing first with
  | zero => unfold zeroBlocks; pre_auto
  | succ n ih => unfold zeroBlocks; pre_auto

theorem allocCluster_pre (prev : Option Nat) (zero : Bool) : Pre (allocCluster prev zero) := by
  have := findNextFree_pre
  have := zeroBlocks_pre
  have := updateFat_pre
  unfold allocCluster; pre_auto

theorem truncateLoop_pre (fuel next : Nat) : Pre (truncateLoop fuel next) := by
  have := nextCluster_pre
  have := updateFat_pre
  induction fuel generalizing next with
  | zero => unfold truncateLoop; pre_auto
  | succ n ih => unfold truncateLoop; pre_auto

theorem truncateClusterChain_pre (c : Nat) : Pre (truncateClusterChain c) := by
  have := nextCluster_pre
  have := updateFat_pre
  have := truncateLoop_pre
  unfold truncateClusterChain; pre_auto

theorem freeClusterChain_pre (c : Nat) : Pre (freeClusterChain c) := by
  have := truncateClusterChain_pre
  have := updateFat_pre
  unfold freeClusterChain; pre_auto

theorem updateInfoSector_pre : Pre updateInfoSector := by
  unfold updateInfoSector; pre_auto

theorem writeEntryToDisk_pre (e : DirEntry) : Pre (writeEntryToDisk e) := by
  unfold writeEntryToDisk; pre_auto

theorem iterateBlocks_pre (n b : Nat) : Pre (iterateBlocks n b) := by
  induction n generalizing b with
  | zero => unfold iterateBlocks; pre_auto
  | succ n ih => unfold iterateBlocks; pre_auto

theorem iterateWalk_pre (fuel : Nat) (w : DirWalk) : Pre (iterateWalk fuel w) := by
  have := nextCluster_pre
  have := iterateBlocks_pre
  induction fuel generalizing w with
  | zero => unfold iterateWalk; pre_auto
  | succ n ih => unfold iterateWalk; pre_auto

theorem iterateRaw_pre (d : Nat) : Pre (iterateRaw d) := by
  have := iterateWalk_pre
  unfold iterateRaw; pre_auto

theorem findBlocks_pre (name : Bytes) (n b : Nat) : Pre (findBlocks name n b) := by
  induction n generalizing b with
  | zero => unfold findBlocks; pre_auto
  | succ n ih => unfold findBlocks; pre_auto

theorem findWalk_pre (name : Bytes) (fuel : Nat) (w : DirWalk) : Pre (findWalk name fuel w) := by
  have := nextCluster_pre
  have := findBlocks_pre
  induction fuel generalizing w with
  | zero => unfold findWalk; pre_auto
  | succ n ih => unfold findWalk; pre_auto

theorem findDirectoryEntry_pre (d : Nat) (name : Bytes) : Pre (Fat.findDirectoryEntry d name) := by
  have := findWalk_pre
  unfold Fat.findDirectoryEntry; pre_auto

theorem deleteBlocks_pre (name : Bytes) (n b : Nat) : Pre (deleteBlocks name n b) := by
  induction n generalizing b with
  | zero => unfold deleteBlocks; pre_auto
  | succ n ih => unfold deleteBlocks; pre_auto

theorem deleteWalk_pre (name : Bytes) (fuel : Nat) (w : DirWalk) : Pre (deleteWalk name fuel w) := by
  have := nextCluster_pre
  have := deleteBlocks_pre
  induction fuel generalizing w with
  | zero => unfold deleteWalk; pre_auto
  | succ n ih => unfold deleteWalk; pre_auto

theorem deleteDirectoryEntry_pre (d : Nat) (name : Bytes) : Pre (deleteDirectoryEntry d name) := by
  have := deleteWalk_pre
  unfold deleteDirectoryEntry; pre_auto

theorem writeNewBlocks_pre (name : Bytes) (att fc : Nat) (now : Timestamp) (n b : Nat) :
    Pre (writeNewBlocks name att fc now n b) := by
  induction n generalizing b with
  | zero => unfold writeNewBlocks; pre_auto
  | succ n ih => unfold writeNewBlocks; pre_auto

theorem writeNewWalk_pre (name : Bytes) (att fc : Nat) (now : Timestamp) (fuel : Nat) (w : DirWalk) :
    Pre (writeNewWalk name att fc now fuel w) := by
  have := nextCluster_pre
  have := writeNewBlocks_pre
  have := allocCluster_pre
  induction fuel generalizing w with
  | zero => unfold writeNewWalk; pre_auto
  | succ n ih => unfold writeNewWalk; pre_auto

theorem writeNewDirectoryEntry_pre (d : Nat) (name : Bytes) (att fc : Nat) (now : Timestamp) :
    Pre (writeNewDirectoryEntry d name att fc now) := by
  have := writeNewWalk_pre
  unfold writeNewDirectoryEntry; pre_auto

end Sdmmc.Lemmas.FaultPre
