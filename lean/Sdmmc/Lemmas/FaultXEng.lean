/-
C11, arbitrary fault placement — FROM THE CRASH POINTS OF AN ENGINE CALL TO THE STATE A FAILED CALL LEAVES.

`eng_faulted`: an engine call `f` on the open volume under ANY schedule `L`, started from a state with the invariant
(lost chains `X`).  Given, of the fault-free run, that every crash point satisfies `MX` (the invariant for some chains and
some lost chains), and of `f` the generic passes (`Pre`: a faulted run is a truncated fault-free run; `Len`: blocks keep
their size; `Geo`: the geometry of the record; `CohT`: the cache stays coherent) and that the hint stays valid — the
state the call leaves carries the invariant for its OWN volume record, for some chains and some lost chains.

`volInvX_afterVol_F`: re-assembling the manager-level invariant (tables unchanged) after such a call.
-/
import Sdmmc.Lemmas.FaultXDelete
import Sdmmc.Lemmas.FaultXLen
import Sdmmc.Lemmas.FaultXHint
import Sdmmc.Lemmas.FaultCohFat
import Sdmmc.Lemmas.FaultInvApi
import Sdmmc.Lemmas.VolXApi

namespace Sdmmc.Lemmas.FaultX
open Sdmmc.Model Sdmmc.Model.Fat Sdmmc.Spec.Volume Sdmmc.Lemmas.VolBase Sdmmc.Lemmas.VolTree
open Sdmmc.Spec hiding NoFault Coherent
open Sdmmc.Lemmas.VolDisk Sdmmc.Lemmas.VolMed Sdmmc.Lemmas.VolEng Sdmmc.Lemmas.VolX Sdmmc.Lemmas.VolApi
open Sdmmc.Lemmas.FBasic (NoFault Coherent)
open Sdmmc.Lemmas.CrashBase Sdmmc.Lemmas.Retry Sdmmc.Lemmas.FaultPre Sdmmc.Lemmas.FaultInv Sdmmc.Lemmas.FaultCoh
open Sdmmc.Lemmas.Fault (Coh)

section
variable {files : List FileInfo} {gh : Ghost} {X : List (List Nat)} {α : Type}

/-- **An engine call under any schedule.** -/
theorem eng_faulted {f : F α} {fs : FS} (hM : MedX fs.vol fs.dev.disk files gh X) (hn : NoFault fs) (hc : Coherent fs)
    (L : List Nat) (hpre : Pre f) (hlen : Len f) (hgeo : Geo f) (hcoh : CohT Coh f Coh)
    (hhint : HintOK (f (setFaults L fs)).2.vol) {dirs : List (Nat × Nat)}
    (hcr : CrashAll (MX fs.vol files dirs) fs (f fs).2) :
    Coherent (f (setFaults L fs)).2 ∧ SameGeom fs.vol (f (setFaults L fs)).2.vol ∧
    ∃ G' X', MedX (f (setFaults L fs)).2.vol (f (setFaults L fs)).2.dev.disk files
      { vol := (f (setFaults L fs)).2.vol, G := G', dirs := dirs } X' := by
  have hsg : SameGeom fs.vol (f (setFaults L fs)).2.vol := hgeo (setFaults L fs)
  have hlen0 : LenInv (setFaults L fs) := by
    refine ⟨hM.blocksOK, fun i hi => ?_⟩
    have : (setFaults L fs).cache.blk = fs.dev.disk.get i := hc i hi
    rw [this]; exact hM.blocksOK i
  have hb : BlocksOK (f (setFaults L fs)).2.dev.disk := (hlen _ hlen0).1
  have hcohF : Coherent (f (setFaults L fs)).2 := by
    have hc0 : Coh (setFaults L fs) := hc
    obtain ⟨h1, h2⟩ := hcoh (setFaults L fs) hc0
    cases hr : (f (setFaults L fs)).1 with
    | ok a => exact h1 a hr
    | err e => exact h2 fun a ha => by rw [hr] at ha; cases ha
    | panic m => exact h2 fun a ha => by rw [hr] at ha; cases ha
    | diverged => exact h2 fun a ha => by rw [hr] at ha; cases ha
  have hmx : MX fs.vol files dirs (f (setFaults L fs)).2.dev.disk := by
    apply hpre.transfer (setFaults L fs)
    rw [clr_setFaults L fs hn]; exact hcr
  obtain ⟨G', X', hM'⟩ := hmx hb
  refine ⟨hcohF, hsg, G', X', ?_⟩
  have := med_congr hM' hsg hhint hb (fun _ _ => rfl) (fun _ _ => rfl)
  exact ⟨this.blocksOK, this.geom, this.hint, this.owns, this.tree, this.fileOK⟩

end

/-- **Re-assembling the invariant** after an engine call under a schedule that left the tables alone. -/
theorem volInvX_afterVol_F {X X' : List (List Nat)} {s : Mgr} {gh : Ghost} (hI : VolInvX X s gh) {vi : VolInfo} (hv : s.vols = [vi])
    (L : List Nat) {t : FS} {G' : List (List Nat)} {dirs' : List (Nat × Nat)} (hc : Coherent t)
    (hM : MedX t.vol t.dev.disk s.files { vol := t.vol, G := G', dirs := dirs' } X')
    (hd : ∀ c, ValidDir gh.dirs c → ValidDir dirs' c) :
    VolInvX X' (mclr (afterVol (FaultInv.withFaults L s) vi t)) { vol := t.vol, G := G', dirs := dirs' } := by
  refine ⟨rfl, hc, hI.unlocked, hI.maxVols, .inr ⟨_, rfl, rfl⟩, hM, ?_, fun di hdi => hd _ (hI.openDirs di hdi)⟩
  intro f hf
  obtain ⟨vi', hv', he⟩ := hI.fileVols f hf
  rw [hv] at hv'
  cases hv'
  exact ⟨_, rfl, he⟩

end Sdmmc.Lemmas.FaultX
