/-
C16 at the API level, part 10 — the results of `AcctInfo` / `AcctFinal` with `storedPair` and the
existential `k` spelled out, in the form `Props/C16Api.lean` states them.
-/
import Sdmmc.Lemmas.AcctFinal

namespace Sdmmc.Lemmas.Acct
open Sdmmc.Model Sdmmc.Model.Fat Sdmmc.Spec Sdmmc.Spec.DataPlane

/-- A known count that was exact stays exact; an unknown count stays unknown. -/
theorem Acct.exact {v v' : FatVolume} {d d' : Disk} {k : Nat} (h : Acct v v' d d' k) :
    (v.freeClustersCount = some (freeCount v d) → v'.freeClustersCount = some (freeCount v d')) ∧
    (v.freeClustersCount = none → v'.freeClustersCount = none) := by
  constructor
  · intro he
    rw [h.count, he]
    have := h.free
    show some (freeCount v d - k) = _
    congr 1
    omega
  · intro hn
    rw [h.count, hn]; rfl

theorem storedPair_spelled (cnt hint fc0 nf0 : Option Nat) :
    (∀ n, cnt = some n → (storedPair cnt hint fc0 nf0).1 = normCount n) ∧ (cnt = none → (storedPair cnt hint fc0 nf0).1 = fc0) ∧
    (∀ n, hint = some n → (storedPair cnt hint fc0 nf0).2 = normHint n) ∧ (hint = none → (storedPair cnt hint fc0 nf0).2 = nf0) :=
  ⟨fun n h => by rw [h]; rfl, fun h => by rw [h]; rfl, fun n h => by rw [h]; rfl, fun h => by rw [h]; rfl⟩

/-- `stores_parse`, spelled out. -/
theorem stores_parse_spelled {v : FatVolume} {b b' : Block} (hst : Stores v b b') (fc0 nf0 : Option Nat)
    (hp : Info.parse b = .ok (fc0, nf0)) :
    ∃ fc nf, Info.parse b' = .ok (fc, nf) ∧
      (∀ n, v.freeClustersCount = some n → fc = normCount n) ∧ (v.freeClustersCount = none → fc = fc0) ∧
      (∀ n, v.nextFreeCluster = some n → nf = normHint n) ∧ (v.nextFreeCluster = none → nf = nf0) := by
  obtain ⟨h1, h2, h3, h4⟩ := storedPair_spelled v.freeClustersCount v.nextFreeCluster fc0 nf0
  exact ⟨_, _, stores_parse hst fc0 nf0 hp, h1, h2, h3, h4⟩

/-- `mount_reads_stored`, spelled out. -/
theorem mount_reads_stored_spelled (d d' : Disk) (idx : Nat) (w v : FatVolume)
    (hm : mountPure (d.get 0) idx d.get = .ok w) (h32 : w.fatType = .fat32)
    (h0 : d'.get 0 = d.get 0) (hboot : d'.get w.lbaStart = d.get w.lbaStart)
    (hst : Stores v (d.get w.infoLocation) (d'.get w.infoLocation)) :
    ∃ fc nf, mountPure (d'.get 0) idx d'.get = .ok { w with freeClustersCount := fc, nextFreeCluster := nf } ∧
      (∀ n, v.freeClustersCount = some n → fc = normCount n) ∧ (v.freeClustersCount = none → fc = w.freeClustersCount) ∧
      (∀ n, v.nextFreeCluster = some n → nf = normHint n) ∧ (v.nextFreeCluster = none → nf = w.nextFreeCluster) := by
  obtain ⟨h1, h2, h3, h4⟩ := storedPair_spelled v.freeClustersCount v.nextFreeCluster w.freeClustersCount w.nextFreeCluster
  exact ⟨_, _, mount_reads_stored d d' idx w v hm h32 h0 hboot hst, h1, h2, h3, h4⟩

/-- `session_truthful`, spelled out: `w'` is the record the next mount reads. -/
theorem session_spelled (s : Mgr) (chains rest : List (List Nat)) (idx : Nat) (ops1 ops2 : List Op)
    (hinv : DataInv s chains rest)
    (hm : mountPure (s.dev.disk.get 0) idx s.dev.disk.get = .ok (theVol s)) (h32 : (theVol s).fatType = .fat32)
    (hslots : ∀ f, f ∈ s.files → SlotOK (theVol s) (s.vols.headD default).rawVolume f)
    (h1 : ∀ op, op ∈ ops1 → IsDataOp op) (h2 : ∀ op, op ∈ ops2 → IsCloseOp op) (s3 : Mgr)
    (hs3 : s3 = (step (run (run s ops1).1 ops2).1 (.closeVolume (s.vols.headD default).rawVolume)).1)
    (hok : (step (run (run s ops1).1 ops2).1 (.closeVolume (s.vols.headD default).rawVolume)).2.result = .ok .unit) :
    ∃ k w', mountPure (s3.dev.disk.get 0) idx s3.dev.disk.get = .ok w' ∧ SameGeom (theVol s) w' ∧ s3.vols = [] ∧
      freeCount (theVol s) s3.dev.disk + k = freeCount (theVol s) s.dev.disk ∧
      (Mirror (theVol s) s.dev.disk → Mirror (theVol s) s3.dev.disk) ∧
      w'.freeClustersCount = (theVol s).freeClustersCount.map (· - k) ∧
      ((theVol s).freeClustersCount = some (freeCount (theVol s) s.dev.disk) →
        w'.freeClustersCount = some (freeCount (theVol s) s3.dev.disk)) ∧
      ((theVol s).freeClustersCount = none → w'.freeClustersCount = none) ∧
      (k = 0 → w'.nextFreeCluster = (theVol s).nextFreeCluster) ∧
      (w'.nextFreeCluster = (theVol s).nextFreeCluster ∨ HintIn (theVol s) w'.nextFreeCluster) := by
  obtain ⟨k, nf, hmount, hfree, hmir, hk0, hnf, hvols, _⟩ := session_truthful s chains rest idx ops1 ops2 hinv hm h32 hslots h1 h2 hok
  rw [← hs3] at hmount hfree hmir hvols
  refine ⟨k, _, hmount, ⟨_, _, rfl⟩, hvols, hfree, hmir, rfl, ?_, ?_, hk0, hnf⟩
  · intro he
    show Option.map (· - k) (theVol s).freeClustersCount = _
    rw [he]
    show some (freeCount (theVol s) s.dev.disk - k) = _
    congr 1
    omega
  · intro hn
    show Option.map (· - k) (theVol s).freeClustersCount = _
    rw [hn]; rfl

/-- A session that took no cluster writes the mounted hint back — whatever it is. -/
theorem session_no_alloc (s : Mgr) (chains rest : List (List Nat)) (idx : Nat) (ops1 ops2 : List Op)
    (hinv : DataInv s chains rest)
    (hm : mountPure (s.dev.disk.get 0) idx s.dev.disk.get = .ok (theVol s)) (h32 : (theVol s).fatType = .fat32)
    (hslots : ∀ f, f ∈ s.files → SlotOK (theVol s) (s.vols.headD default).rawVolume f)
    (h1 : ∀ op, op ∈ ops1 → IsDataOp op) (h2 : ∀ op, op ∈ ops2 → IsCloseOp op) (s3 : Mgr)
    (hs3 : s3 = (step (run (run s ops1).1 ops2).1 (.closeVolume (s.vols.headD default).rawVolume)).1)
    (hok : (step (run (run s ops1).1 ops2).1 (.closeVolume (s.vols.headD default).rawVolume)).2.result = .ok .unit)
    (hsame : freeCount (theVol s) s3.dev.disk = freeCount (theVol s) s.dev.disk) :
    mountPure (s3.dev.disk.get 0) idx s3.dev.disk.get = .ok (theVol s) := by
  obtain ⟨k, nf, hmount, hfree, _, hk0, _, _, _⟩ := session_truthful s chains rest idx ops1 ops2 hinv hm h32 hslots h1 h2 hok
  rw [← hs3] at hmount hfree
  have hk : k = 0 := by omega
  rw [hmount, hk0 hk, hk]
  congr 1
  have : Option.map (fun x => x - 0) (theVol s).freeClustersCount = (theVol s).freeClustersCount := by
    cases (theVol s).freeClustersCount <;> rfl
  rw [this]

/-- A session without a `write` leaves the record exactly as mounted, and the number of free FAT
entries as it was. -/
theorem session_read_only (s : Mgr) (chains rest : List (List Nat)) (idx : Nat) (ops1 ops2 : List Op)
    (hinv : DataInv s chains rest)
    (hm : mountPure (s.dev.disk.get 0) idx s.dev.disk.get = .ok (theVol s)) (h32 : (theVol s).fatType = .fat32)
    (hslots : ∀ f, f ∈ s.files → SlotOK (theVol s) (s.vols.headD default).rawVolume f)
    (h1 : ∀ op, op ∈ ops1 → IsDataOp op) (hnw : ∀ op, op ∈ ops1 → ¬ IsWrite op)
    (h2 : ∀ op, op ∈ ops2 → IsCloseOp op) (s3 : Mgr)
    (hs3 : s3 = (step (run (run s ops1).1 ops2).1 (.closeVolume (s.vols.headD default).rawVolume)).1)
    (hok : (step (run (run s ops1).1 ops2).1 (.closeVolume (s.vols.headD default).rawVolume)).2.result = .ok .unit) :
    mountPure (s3.dev.disk.get 0) idx s3.dev.disk.get = .ok (theVol s) ∧
    freeCount (theVol s) s3.dev.disk = freeCount (theVol s) s.dev.disk := by
  obtain ⟨k, nf, hmount, hfree, _, hk0, _, _, hz⟩ := session_truthful s chains rest idx ops1 ops2 hinv hm h32 hslots h1 h2 hok
  rw [← hs3] at hmount hfree
  have hk : k = 0 := hz hnw
  have hsame : freeCount (theVol s) s3.dev.disk = freeCount (theVol s) s.dev.disk := by omega
  exact ⟨session_no_alloc s chains rest idx ops1 ops2 hinv hm h32 hslots h1 h2 s3 hs3 hok hsame, hsame⟩

end Sdmmc.Lemmas.Acct
