/-
Lemmas for C14, part 5: exactly what `card_command` and `card_acmd` log, and the three
chunk-local properties (well-formed frames, not while busy, application-command prefix).
-/
import Sdmmc.Lemmas.SdEmit

namespace Sdmmc.Lemmas.Sd
open Sdmmc.Model Sdmmc.Model.Sd Sdmmc.Gen

variable {σ : Type} {α β : Type} (B : BusOps σ)

def isPoll : Event → Bool
  | .poll _ => true
  | _ => false

/-- Same body as `Sdmmc.Props.C14.AllPolls`. -/
def AllPolls (l : List Event) : Prop := ∀ e ∈ l, isPoll e = true

@[simp] theorem allPolls_nil : AllPolls [] := by simp [AllPolls]
@[simp] theorem allPolls_cons (e : Event) (l : List Event) : AllPolls (e :: l) ↔ isPoll e = true ∧ AllPolls l := by
  simp [AllPolls]
@[simp] theorem allPolls_append (a b : List Event) : AllPolls (a ++ b) ↔ AllPolls a ∧ AllPolls b := by
  simp [AllPolls, or_imp, forall_and]
@[simp] theorem isPoll_poll (g : Nat) : isPoll (.poll g) = true := rfl
@[simp] theorem isPoll_cmd (f : Bytes) : isPoll (.cmd f) = false := rfl

theorem readByte_polls :
    Tr (readByte B) (fun r evs => AllPolls evs ∧ (∀ p, r ≠ .panic p) ∧ ∀ g, r = .ok g → evs = [.poll g]) :=
  (readByte_tr B).conseq fun r evs h => by
    rcases h with ⟨g, _, rfl, rfl⟩ | ⟨rfl, rfl⟩ <;> simp

theorem waitNotBusy_tr (n : Nat) :
    Tr (waitNotBusy B n) (fun r evs => AllPolls evs ∧ (r = .ok () → evs.getLast? = some (.poll 255)) ∧
      (∀ p, r ≠ .panic p)) := by
  induction n with
  | zero =>
    unfold waitNotBusy
    refine (Tr.bind (readByte_polls B) fun g => Tr.ite (fun _ => Tr.pure ()) (fun _ => Tr.fail _)).conseq ?_
    rintro r evs (⟨g, e1, e2, rfl, ⟨h1, _, h3⟩, (⟨hg, rfl, rfl⟩ | ⟨hg, rfl, rfl⟩)⟩ | ⟨e, rfl, h, _⟩ | ⟨p, rfl, _, h, _⟩)
    · simp [h3 g rfl, hg]
    · simp [h1]
    · simp [h]
    · exact absurd rfl (h p)
  | succ n ih =>
    unfold waitNotBusy
    refine (Tr.bind (readByte_polls B) fun g => Tr.ite (fun _ => Tr.pure ())
      (fun _ => Tr.bind (delayTick_tr B) fun _ => ih)).conseq ?_
    rintro r evs (⟨g, e1, e2, rfl, ⟨h1, _, h3⟩, (⟨hg, rfl, rfl⟩ | ⟨hg, hrest⟩)⟩ | ⟨e, rfl, h, _⟩ | ⟨p, rfl, _, h, _⟩)
    · simp [h3 g rfl, hg]
    · rcases hrest with ⟨_, d1, d2, rfl, ⟨_, rfl⟩, k1, k2, k3⟩ | ⟨e, rfl, h, _⟩ | ⟨p, rfl, h, _⟩
      · refine ⟨by simp [h1, k1], fun hr => ?_, k3⟩
        have := k2 hr
        simp only [List.nil_append]
        rw [List.getLast?_append, this]; rfl
      · simp at h
      · simp at h
    · simp [h]
    · exact absurd rfl (h p)

/-- A `wait_not_busy` that fails polled at least once, and its last poll did not show the card not
busy: it read a busy byte (budget exhausted) or hit an SPI error (logged as 256). -/
theorem waitNotBusy_fail_tr (n : Nat) :
    Tr (waitNotBusy B n) (fun r evs => (∃ e, r = .err e) → evs ≠ [] ∧ evs.getLast? ≠ some (.poll 255)) := by
  induction n with
  | zero =>
    unfold waitNotBusy
    refine (Tr.bind (readByte_tr B) fun g => Tr.ite (fun _ => Tr.pure ()) (fun _ => Tr.fail _)).conseq ?_
    rintro r evs (⟨g, e1, e2, rfl, h1, (⟨hg, rfl, rfl⟩ | ⟨hg, rfl, rfl⟩)⟩ | ⟨e, rfl, h⟩ | ⟨p, rfl, h⟩)
    · rintro ⟨e, he⟩; cases he
    · intro _
      rcases h1 with ⟨g', _, hg', rfl⟩ | ⟨h, _⟩
      · cases hg'; simp [hg]
      · cases h
    · intro _
      rcases h with ⟨g', _, hg', _⟩ | ⟨_, rfl⟩
      · cases hg'
      · simp
    · rintro ⟨e, he⟩; cases he
  | succ n ih =>
    unfold waitNotBusy
    refine (Tr.bind (readByte_tr B) fun g => Tr.ite (fun _ => Tr.pure ())
      (fun _ => Tr.bind (delayTick_tr B) fun _ => ih)).conseq ?_
    rintro r evs (⟨g, e1, e2, rfl, h1, (⟨hg, rfl, rfl⟩ | ⟨hg, hrest⟩)⟩ | ⟨e, rfl, h⟩ | ⟨p, rfl, h⟩)
    · rintro ⟨e, he⟩; cases he
    · rcases hrest with ⟨_, d1, d2, rfl, ⟨_, rfl⟩, k⟩ | ⟨e, rfl, h, _⟩ | ⟨p, rfl, h, _⟩
      · intro hr
        obtain ⟨k1, k2⟩ := k hr
        refine ⟨by simp [k1], ?_⟩
        simp only [List.nil_append]
        rw [List.getLast?_append]
        cases hb : d2.getLast? with
        | none => simp [List.getLast?_eq_none_iff] at hb; exact absurd hb k1
        | some x => rw [hb] at k2; exact k2
      · cases h
      · cases h
    · intro _
      rcases h with ⟨g', _, hg', _⟩ | ⟨_, rfl⟩
      · cases hg'
      · simp
    · rintro ⟨e, he⟩; cases he

theorem waitResponse_tr (c n : Nat) :
    Tr (waitResponse B c n) (fun r evs => AllPolls evs ∧ (∀ p, r ≠ .panic p)) := by
  induction n with
  | zero =>
    unfold waitResponse
    refine (Tr.bind (readByte_polls B) fun g => Tr.ite (fun _ => Tr.pure g) (fun _ => Tr.fail _)).conseq ?_
    rintro r evs (⟨g, e1, e2, rfl, ⟨h1, _, h3⟩, (⟨hg, rfl, rfl⟩ | ⟨hg, rfl, rfl⟩)⟩ | ⟨e, rfl, h, _⟩ | ⟨p, rfl, _, h, _⟩)
    · simp [h1]
    · simp [h1]
    · simp [h]
    · exact absurd rfl (h p)
  | succ n ih =>
    unfold waitResponse
    refine (Tr.bind (readByte_polls B) fun g => Tr.ite (fun _ => Tr.pure g)
      (fun _ => Tr.bind (delayTick_tr B) fun _ => ih)).conseq ?_
    rintro r evs (⟨g, e1, e2, rfl, ⟨h1, _, h3⟩, (⟨hg, rfl, rfl⟩ | ⟨hg, hrest⟩)⟩ | ⟨e, rfl, h, _⟩ | ⟨p, rfl, _, h, _⟩)
    · simp [h1]
    · rcases hrest with ⟨_, d1, d2, rfl, ⟨_, rfl⟩, k1, k3⟩ | ⟨e, rfl, h, _⟩ | ⟨p, rfl, h, _⟩
      · exact ⟨by simp [h1, k1], k3⟩
      · simp at h
      · simp at h
    · simp [h]
    · exact absurd rfl (h p)

/-- What one `card_command` logs: busy polls (ending in 0xFF, none for CMD0/CMD12), the frame,
response polls — or, when the busy wait fails, polls only. -/
def CmdChunk (c arg : Nat) (r : SRes Nat) (evs : List Event) : Prop :=
  (∃ pre post, AllPolls pre ∧ AllPolls post ∧ evs = pre ++ Event.cmd (frame c arg) :: post ∧
      ((c = CMD0 ∨ c = CMD12) → pre = []) ∧ (c ≠ CMD0 → c ≠ CMD12 → pre.getLast? = some (.poll 255))) ∨
  (AllPolls evs ∧ c ≠ CMD0 ∧ c ≠ CMD12 ∧ ∃ e, r = .err e)

theorem cardCommand_tr (c arg : Nat) :
    Tr (cardCommand B c arg) (fun r evs => CmdChunk c arg r evs ∧ ∀ p, r ≠ .panic p) := by
  have hrest : Tr (do
      let _ ← xferEv B (Event.cmd (frame c arg))
      if c = CMD12 then do
          let _ ← readByte B
          waitResponse B c DEFAULT_COMMAND_RETRIES
        else waitResponse B c DEFAULT_COMMAND_RETRIES)
      (fun r evs => (∃ post, AllPolls post ∧ evs = Event.cmd (frame c arg) :: post) ∧ ∀ p, r ≠ .panic p) := by
    refine (Tr.bind (xferEv_tr B _) fun _ => Tr.ite
      (fun _ => Tr.bind (readByte_polls B) fun _ => waitResponse_tr B c _)
      (fun _ => waitResponse_tr B c _)).conseq ?_
    rintro r evs (⟨_, e1, e2, rfl, ⟨rfl, _⟩, h⟩ | ⟨e, rfl, rfl, _⟩ | ⟨p, rfl, rfl, h⟩)
    · rcases h with ⟨_, ⟨_, d1, d2, rfl, ⟨k1, _⟩, k2, k3⟩ | ⟨e, rfl, k1, _⟩ | ⟨p, rfl, _, k, _⟩⟩ | ⟨_, k2, k3⟩
      · exact ⟨⟨_, by simp [k1, k2], rfl⟩, k3⟩
      · exact ⟨⟨_, k1, rfl⟩, by simp⟩
      · exact absurd rfl (k p)
      · exact ⟨⟨_, k2, rfl⟩, k3⟩
    · exact ⟨⟨[], by simp, rfl⟩, by simp⟩
    · simp at h
  unfold cardCommand
  dsimp only
  split
  · next hc =>
    refine (Tr.bind (waitNotBusy_tr B _) fun _ => hrest).conseq ?_
    rintro r evs (⟨_, e1, e2, rfl, ⟨h1, h2, _⟩, ⟨post, hp, rfl⟩, h3⟩ | ⟨e, rfl, h1, _⟩ | ⟨p, rfl, _, _, h⟩)
    · exact ⟨Or.inl ⟨e1, post, h1, hp, rfl, fun h => by omega, fun _ _ => h2 rfl⟩, h3⟩
    · exact ⟨Or.inr ⟨h1, hc.1, hc.2, e, rfl⟩, by simp⟩
    · exact absurd rfl (h p)
  · next hc =>
    refine hrest.conseq ?_
    rintro r evs ⟨⟨post, hp, rfl⟩, h3⟩
    exact ⟨Or.inl ⟨[], post, by simp, hp, rfl, fun _ => rfl, fun h1 h2 => absurd ⟨h1, h2⟩ hc⟩, h3⟩

/-- What one `card_acmd` logs: the CMD55 chunk, then (only if CMD55 was answered) the chunk of
the application command. -/
def AcmdChunk (c arg : Nat) (r : SRes Nat) (evs : List Event) : Prop :=
  (∃ r1 e1 e2, evs = e1 ++ e2 ∧ CmdChunk CMD55 0 (.ok r1) e1 ∧ CmdChunk c arg r e2) ∨
  ((∃ e, r = .err e) ∧ ∃ r1, CmdChunk CMD55 0 r1 evs)

theorem cardAcmd_tr (c arg : Nat) :
    Tr (cardAcmd B c arg) (fun r evs => AcmdChunk c arg r evs ∧ ∀ p, r ≠ .panic p) := by
  unfold cardAcmd
  refine (Tr.bind (cardCommand_tr B _ _) fun _ => cardCommand_tr B _ _).conseq ?_
  rintro r evs (⟨r1, e1, e2, rfl, ⟨h1, _⟩, h2, h3⟩ | ⟨e, rfl, h1, _⟩ | ⟨p, rfl, _, h⟩)
  · exact ⟨Or.inl ⟨r1, e1, e2, rfl, h1, h2⟩, h3⟩
  · exact ⟨Or.inr ⟨⟨e, rfl⟩, _, h1⟩, by simp⟩
  · exact absurd rfl (h p)

/-! ### Frames -/

/-- Command index of a frame: low six bits of its first byte.  Same body as
`Sdmmc.Props.C14.cmdIdx`. -/
def cmdIdx (f : Bytes) : Nat := (f.getD 0 0).toNat % 64

/-- Same body as `Sdmmc.Props.C14.FrameWF`. -/
def FrameWF (f : Bytes) : Prop := ∃ c arg, c < 64 ∧ arg < 4294967296 ∧ f = frame c arg

theorem or64 : ∀ c, c < 64 → (0x40 ||| c) % 256 = 64 + c := by decide

theorem cmdIdx_frame (c arg : Nat) (hc : c < 64) : cmdIdx (frame c arg) = c := by
  simp [cmdIdx, frame, or64 c hc]
  omega

theorem frame_mod (c arg : Nat) : frame c arg = frame c (arg % 4294967296) := by
  unfold frame
  rw [show arg % 4294967296 / 16777216 % 256 = arg / 16777216 % 256 by omega,
    show arg % 4294967296 / 65536 % 256 = arg / 65536 % 256 by omega,
    show arg % 4294967296 / 256 % 256 = arg / 256 % 256 by omega,
    show arg % 4294967296 % 256 = arg % 256 by omega]

theorem frameWF_frame (c arg : Nat) (hc : c < 64) : FrameWF (frame c arg) :=
  ⟨c, arg % 4294967296, hc, Nat.mod_lt _ (by decide), frame_mod c arg⟩

theorem plainCmds_lt {c : Nat} (h : c ∈ plainCmds) : c < 64 := by
  simp [plainCmds, CMD0, CMD8, CMD9, CMD12, CMD13, CMD17, CMD18, CMD24, CMD25, CMD58, CMD59] at h
  omega

theorem plainCmds_not_acmd {c : Nat} (h : c ∈ plainCmds) : c ≠ 41 ∧ c ≠ 23 ∧ c ≠ 55 := by
  simp [plainCmds, CMD0, CMD8, CMD9, CMD12, CMD13, CMD17, CMD18, CMD24, CMD25, CMD58, CMD59] at h
  omega

/-! ### Where the command frames sit in a chunk -/

theorem split_append {a b pre post : List Event} {x : Event} (h : a ++ b = pre ++ x :: post) :
    (∃ a', pre = a ++ a' ∧ b = a' ++ x :: post) ∨ (∃ b', post = b' ++ b ∧ a = pre ++ x :: b') := by
  rcases List.append_eq_append_iff.mp h with ⟨a', h1, h2⟩ | ⟨c', h1, h2⟩
  · exact Or.inl ⟨a', h1, h2⟩
  · cases c' with
    | nil => exact Or.inl ⟨[], by simpa using h1.symm, by simpa using h2.symm⟩
    | cons y c'' =>
      simp only [List.cons_append, List.cons.injEq] at h2
      exact Or.inr ⟨c'', h2.2, by rw [h1, h2.1]⟩

theorem cmd_in_polls {pre post pre' post' : List Event} {f g : Bytes} (h1 : AllPolls pre) (h2 : AllPolls post)
    (h : pre ++ Event.cmd g :: post = pre' ++ Event.cmd f :: post') : pre' = pre ∧ f = g ∧ post' = post := by
  induction pre generalizing pre' with
  | nil =>
    cases pre' with
    | nil => simp at h; exact ⟨rfl, h.1.symm, h.2.symm⟩
    | cons y pre'' =>
      simp only [List.nil_append, List.cons_append, List.cons.injEq] at h
      have : Event.cmd f ∈ post := by rw [h.2]; simp
      exact absurd (h2 _ this) (by simp)
  | cons p pre1 ih =>
    cases pre' with
    | nil =>
      simp only [List.nil_append, List.cons_append, List.cons.injEq] at h
      have := (allPolls_cons _ _).mp h1
      rw [h.1] at this
      exact absurd this.1 (by simp)
    | cons y pre'' =>
      simp only [List.cons_append, List.cons.injEq] at h
      have := ih ((allPolls_cons _ _).mp h1).2 h.2
      exact ⟨by rw [h.1, this.1], this.2⟩

theorem no_cmd_in_polls {evs pre post : List Event} {f : Bytes} (h : AllPolls evs)
    (he : evs = pre ++ Event.cmd f :: post) : False := by
  have : Event.cmd f ∈ evs := by rw [he]; simp
  exact absurd (h _ this) (by simp)

/-- The only command frame in a `card_command` chunk is its own, between polls. -/
theorem cmdChunk_split {c arg : Nat} {r : SRes Nat} {evs pre post : List Event} {f : Bytes}
    (h : CmdChunk c arg r evs) (he : evs = pre ++ Event.cmd f :: post) :
    f = frame c arg ∧ AllPolls pre ∧ AllPolls post ∧
      (c ≠ CMD0 → c ≠ CMD12 → pre.getLast? = some (.poll 255)) := by
  rcases h with ⟨pre0, post0, h1, h2, h3, _, h5⟩ | ⟨h1, _⟩
  · rw [h3] at he
    obtain ⟨rfl, rfl, rfl⟩ := cmd_in_polls h1 h2 he
    exact ⟨rfl, h1, h2, h5⟩
  · exact (no_cmd_in_polls h1 he).elim

/-! ### The three chunk-local properties -/

/-- Same body as `Sdmmc.Props.C14.FramesOK`. -/
def FramesOK (evs : List Event) : Prop := ∀ f, Event.cmd f ∈ evs → FrameWF f

/-- Same body as `Sdmmc.Props.C14.NotWhileBusy`. -/
def NotWhileBusy (evs : List Event) : Prop :=
  ∀ pre f post, evs = pre ++ Event.cmd f :: post → cmdIdx f ≠ 0 → cmdIdx f ≠ 12 →
    pre.getLast? = some (.poll 255)

/-- Same body as `Sdmmc.Props.C14.AcmdPrefixed`. -/
def AcmdPrefixed (evs : List Event) : Prop :=
  ∀ pre f post, evs = pre ++ Event.cmd f :: post → (cmdIdx f = 41 ∨ cmdIdx f = 23) →
    ∃ pre' polls, pre = pre' ++ Event.cmd (frame 55 0) :: polls ∧ AllPolls polls

theorem single_split {e x : Event} {pre post : List Event} (h : [e] = pre ++ x :: post) : e = x := by
  cases pre with
  | nil => simp at h; exact h.1
  | cons y pre' => simp at h

instance : Local FramesOK where
  nil := by simp [FramesOK]
  single e he := by intro f hf; simp at hf; exact absurd hf.symm (he f)
  append a b ha hb := by
    intro f hf
    rcases List.mem_append.mp hf with h | h
    · exact ha f h
    · exact hb f h

instance : Local NotWhileBusy where
  nil := by intro pre f post h; simp at h
  single e he := by intro pre f post h; exact absurd (single_split h) (he f)
  append a b ha hb := by
    intro pre f post h h0 h12
    rcases split_append h with ⟨a', rfl, h2⟩ | ⟨b', rfl, h2⟩
    · have := hb a' f post h2 h0 h12
      rw [List.getLast?_append, this]; rfl
    · exact ha pre f b' h2 h0 h12

instance : Local AcmdPrefixed where
  nil := by intro pre f post h; simp at h
  single e he := by intro pre f post h; exact absurd (single_split h) (he f)
  append a b ha hb := by
    intro pre f post h hf
    rcases split_append h with ⟨a', rfl, h2⟩ | ⟨b', rfl, h2⟩
    · obtain ⟨pre', polls, rfl, hp⟩ := hb a' f post h2 hf
      exact ⟨a ++ pre', polls, by simp, hp⟩
    · exact ha pre f b' h2 hf

theorem cmdChunk_framesOK {c arg : Nat} {r : SRes Nat} {evs : List Event} (hc : c < 64)
    (h : CmdChunk c arg r evs) : FramesOK evs := by
  intro f hf
  obtain ⟨pre, post, he⟩ := List.append_of_mem hf
  rw [(cmdChunk_split h he).1]
  exact frameWF_frame c arg hc

theorem cmdChunk_notWhileBusy {c arg : Nat} {r : SRes Nat} {evs : List Event} (hc : c < 64)
    (h : CmdChunk c arg r evs) : NotWhileBusy evs := by
  intro pre f post he h0 h12
  obtain ⟨rfl, _, _, h4⟩ := cmdChunk_split h he
  rw [cmdIdx_frame c arg hc] at h0 h12
  exact h4 h0 h12

theorem cmdChunk_acmdPrefixed {c arg : Nat} {r : SRes Nat} {evs : List Event} (hc : c < 64)
    (h41 : c ≠ 41) (h23 : c ≠ 23) (h : CmdChunk c arg r evs) : AcmdPrefixed evs := by
  intro pre f post he hf
  obtain ⟨rfl, _⟩ := cmdChunk_split h he
  rw [cmdIdx_frame c arg hc] at hf
  omega

theorem acmdChunk_acmdPrefixed {c arg : Nat} {r : SRes Nat} {evs : List Event}
    (h : AcmdChunk c arg r evs) : AcmdPrefixed evs := by
  rcases h with ⟨r1, e1, e2, rfl, h1, h2⟩ | ⟨_, r1, h1⟩
  · intro pre f post he hf
    rcases split_append he with ⟨a', rfl, he2⟩ | ⟨b', rfl, he1⟩
    · obtain ⟨rfl, hp, _⟩ := cmdChunk_split h2 he2
      rcases h1 with ⟨pre0, post0, _, k2, rfl, _⟩ | ⟨_, _, _, e, he⟩
      · exact ⟨pre0, post0 ++ a', by simp [CMD55], by simp [k2, hp]⟩
      · cases he
    · obtain ⟨rfl, _⟩ := cmdChunk_split h1 he1
      rw [cmdIdx_frame _ _ (by decide)] at hf
      simp [CMD55] at hf
  · exact cmdChunk_acmdPrefixed (by decide) (by decide) (by decide) h1

/-- The conjunction proved of every call. -/
def CmdsOK (evs : List Event) : Prop := FramesOK evs ∧ NotWhileBusy evs ∧ AcmdPrefixed evs

instance : Local CmdsOK := Local.and FramesOK (fun evs => NotWhileBusy evs ∧ AcmdPrefixed evs)

theorem cardCommand_cmdsOK (c arg : Nat) (hc : c ∈ plainCmds) : Emits CmdsOK (cardCommand B c arg) :=
  (cardCommand_tr B c arg).conseq fun _ _ ⟨h, _⟩ =>
    have hlt := plainCmds_lt hc
    have hn := plainCmds_not_acmd hc
    ⟨cmdChunk_framesOK hlt h, cmdChunk_notWhileBusy hlt h, cmdChunk_acmdPrefixed hlt hn.1 hn.2.1 h⟩

theorem cardAcmd_cmdsOK (c arg : Nat) (hc : c = ACMD41 ∨ c = ACMD23) : Emits CmdsOK (cardAcmd B c arg) :=
  (cardAcmd_tr B c arg).conseq fun r evs ⟨h, _⟩ => by
    have hlt : c < 64 := by rcases hc with rfl | rfl <;> decide
    refine ⟨?_, ?_, acmdChunk_acmdPrefixed h⟩
    · rcases h with ⟨r1, e1, e2, rfl, h1, h2⟩ | ⟨_, r1, h1⟩
      · exact Local.append _ _ (cmdChunk_framesOK (by decide) h1) (cmdChunk_framesOK hlt h2)
      · exact cmdChunk_framesOK (by decide) h1
    · rcases h with ⟨r1, e1, e2, rfl, h1, h2⟩ | ⟨_, r1, h1⟩
      · exact Local.append _ _ (cmdChunk_notWhileBusy (by decide) h1) (cmdChunk_notWhileBusy hlt h2)
      · exact cmdChunk_notWhileBusy (by decide) h1

/-- Every public call logs only well-formed frames, none while the card signals busy, and
application commands only behind their prefix. -/
theorem call_cmdsOK (c : Call) (s : St σ) : CmdsOK (evsNew s (call B c s).2) :=
  (call_emits B (cardCommand_cmdsOK B) (cardAcmd_cmdsOK B) c s).evsNew

/-- A call only appends to the log (and never touches the options). -/
theorem call_events_extend (c : Call) (s : St σ) :
    (call B c s).2.events = (evsNew s (call B c s).2).reverse ++ s.events ∧
    (call B c s).2.useCrc = s.useCrc ∧ (call B c s).2.acquireRetries = s.acquireRetries := by
  obtain ⟨evs, h1, h2, h3, _⟩ := call_emits B (cardCommand_cmdsOK B) (cardAcmd_cmdsOK B) c s
  rw [evsNew_of_eq h1]
  exact ⟨h1, h2, h3⟩

end Sdmmc.Lemmas.Sd
