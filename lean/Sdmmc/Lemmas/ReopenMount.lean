/-
Remounting (for `Props.C02Reopen`, stretch A):

* `openRawVolume_spec`: on a fault-free coherent manager `open_raw_volume idx` computes its volume
  record as `mountPure` of three blocks of the medium — block 0 (partition table), the first block
  of the partition (boot sector) and, on FAT32, the info sector — reads only, and appends the record;
* `mount_sameGeom`: if a second medium agrees with the first on block 0, on the boot sector and on
  the info sector outside its free-count / next-free words (bytes 488..495), mounting it gives a
  record of the same geometry (`SameGeom`);
* `mount_after_flush`: a flush changes none of that;
* `remount_reads_flushed`: close the file; a FRESH manager on the medium mounts the volume, opens
  the root directory, opens the file by name and reads the flushed bytes.
-/
import Sdmmc.Lemmas.ReopenSlots
import Sdmmc.Lemmas.C15
import Sdmmc.Lemmas.DirFrames

namespace Sdmmc.Lemmas.Reopen
open Sdmmc.Model Sdmmc.Model.Fat Sdmmc.Spec
open Sdmmc.Lemmas.FatOps (BlocksOK)
open Sdmmc.Lemmas.Listing
open Sdmmc.Lemmas.ReadRefines (MgrOK fsOf)
open Sdmmc.Lemmas.Modes (DirCtx lookup openedFile)

/-! ### `open_raw_volume` is `mountPure` of the medium -/

/-- The block read of `open_raw_volume` (through the cache, no volume record yet). -/
def rdBlock (idx : Nat) : M Block := fun s =>
  let (r, fs) := (do cacheRead idx; cacheBlk : F Block) { dev := s.dev, cache := s.cache, vol := default }
  (r, { s with dev := fs.dev, cache := fs.cache })

def openRawVolumeAlt (volumeIdx : Nat) : M Nat := do
  let s ← M.get
  if s.vols.length ≥ s.maxVols then M.fail .TooManyOpenVolumes else
  if s.vols.any (·.idx = volumeIdx) then M.fail .VolumeAlreadyOpen else
  let mbr ← rdBlock 0
  let (ptype, lbaStart, numBlocks) ← M.lift (parsePartition mbr volumeIdx)
  if !supportedPartitionType ptype then M.fail (.FormatError "Partition type not supported") else
  let bpb ← rdBlock lbaStart
  let v ← M.lift (parseVolumeBpb bpb lbaStart numBlocks)
  let v ← (match v.fatType with
    | .fat16 => pure v
    | .fat32 => do
      let info ← rdBlock v.infoLocation
      M.lift (parseVolumeInfo v info) : M FatVolume)
  let id ← generate
  M.modify fun s => { s with vols := s.vols ++ [{ rawVolume := id, idx := volumeIdx, vol := v }] }
  pure id

theorem openRawVolume_eq_alt (idx : Nat) : openRawVolume idx = openRawVolumeAlt idx := rfl

theorem mountPure_ok {mbr : Bytes} {idx : Nat} {fetch : Nat → Bytes} {v : FatVolume} (h : mountPure mbr idx fetch = .ok v) :
    ∃ pt lba nb v0, parsePartition mbr idx = .ok (pt, lba, nb) ∧ supportedPartitionType pt = true ∧
      parseVolumeBpb (fetch lba) lba nb = .ok v0 ∧
      ((v0.fatType = .fat16 ∧ v = v0) ∨ (v0.fatType = .fat32 ∧ parseVolumeInfo v0 (fetch v0.infoLocation) = .ok v)) := by
  unfold mountPure at h
  cases hp : parsePartition mbr idx with
  | ok x =>
    obtain ⟨pt, lba, nb⟩ := x
    rw [hp] at h
    simp only [Res.bind_ok] at h
    cases hs : supportedPartitionType pt with
    | false => rw [hs] at h; simp at h
    | true =>
      rw [hs] at h
      simp only [Bool.not_true, Bool.false_eq_true, if_false] at h
      cases hb : parseVolumeBpb (fetch lba) lba nb with
      | ok v0 =>
        rw [hb] at h
        simp only [Res.bind_ok] at h
        refine ⟨pt, lba, nb, v0, rfl, hs, hb, ?_⟩
        cases hft : v0.fatType with
        | fat16 =>
          rw [hft] at h
          simp only [Res.pure_eq, Res.ok.injEq] at h
          exact .inl ⟨rfl, h.symm⟩
        | fat32 =>
          rw [hft] at h
          exact .inr ⟨rfl, h⟩
      | err e => rw [hb] at h; cases h
      | panic m => rw [hb] at h; cases h
      | diverged => rw [hb] at h; cases h
  | err e => rw [hp] at h; cases h
  | panic m => rw [hp] at h; cases h
  | diverged => rw [hp] at h; cases h

/-- A manager step that only reads: device bookkeeping and cache moved, nothing else. -/
structure ReadStep (s s' : Mgr) : Prop where
  eq : s' = { s with dev := s'.dev, cache := s'.cache }
  disk : s'.dev.disk = s.dev.disk
  wlog : s'.dev.wlog = s.dev.wlog
  ok : MgrOK s'

theorem ReadStep.refl (s : Mgr) (hs : MgrOK s) : ReadStep s s := ⟨rfl, rfl, rfl, hs⟩

theorem ReadStep.trans {a b c : Mgr} (h1 : ReadStep a b) (h2 : ReadStep b c) : ReadStep a c := by
  refine ⟨?_, h2.disk.trans h1.disk, h2.wlog.trans h1.wlog, h2.ok⟩
  have e1 := h1.eq
  have e2 := h2.eq
  rw [e2, e1]

theorem ReadStep.fields {s s' : Mgr} (h : ReadStep s s') :
    s'.nextId = s.nextId ∧ s'.vols = s.vols ∧ s'.dirs = s.dirs ∧ s'.files = s.files ∧ s'.maxVols = s.maxVols ∧
    s'.maxDirs = s.maxDirs ∧ s'.maxFiles = s.maxFiles ∧ s'.clock = s.clock ∧ s'.locked = s.locked := by
  have e := h.eq
  exact ⟨by rw [e], by rw [e], by rw [e], by rw [e], by rw [e], by rw [e], by rw [e], by rw [e], by rw [e]⟩

open Sdmmc.Lemmas.FBasic in
theorem rdBlock_spec (s : Mgr) (hs : MgrOK s) (idx : Nat) :
    ∃ s', rdBlock idx s = (.ok (s.dev.disk.get idx), s') ∧ ReadStep s s' := by
  obtain ⟨hnf, hcoh, hblk, hunl⟩ := hs
  let fs0 : FS := { dev := s.dev, cache := s.cache, vol := default }
  have hn0 : NoFault fs0 := hnf
  have hc0 : Coherent fs0 := hcoh
  have hrd : (do cacheRead idx; cacheBlk : F Block) fs0 = (.ok (s.dev.disk.get idx), afterRead idx fs0) := by
    show (cacheRead idx >>= fun _ => cacheBlk) fs0 = _
    simp only [bind_apply, cacheRead_eq' _ _ hn0 hc0, cacheBlk_apply, afterRead_blk]
    rfl
  refine ⟨{ s with dev := (afterRead idx fs0).dev, cache := (afterRead idx fs0).cache }, ?_, rfl, rfl, rfl, ?_⟩
  · unfold rdBlock
    show (let (r, fs) := (do cacheRead idx; cacheBlk : F Block) fs0; (r, { s with dev := fs.dev, cache := fs.cache })) = _
    rw [hrd]
  · exact ⟨hnf, afterRead_coherent idx fs0, hblk, hunl⟩

theorem openRawVolume_spec (s : Mgr) (idx : Nat) (v : FatVolume) (hs : MgrOK s)
    (hroom : s.vols.length < s.maxVols) (hnot : s.vols.any (fun x => x.idx = idx) = false)
    (hm : mountPure (s.dev.disk.get 0) idx s.dev.disk.get = .ok v) :
    ∃ s', openRawVolume idx s = (.ok s.nextId, s') ∧
      s' = { s with dev := s'.dev, cache := s'.cache, nextId := (s.nextId + 1) % 4294967296,
                    vols := s.vols ++ [{ rawVolume := s.nextId, idx := idx, vol := v }] } ∧
      s'.dev.disk = s.dev.disk ∧ s'.dev.wlog = s.dev.wlog ∧ MgrOK s' := by
  obtain ⟨pt, lba, nb, v0, hpp, hsup, hbpb, hcase⟩ := mountPure_ok hm
  obtain ⟨s1, hr1, hs1⟩ := rdBlock_spec s hs 0
  obtain ⟨s2, hr2, hs2⟩ := rdBlock_spec s1 hs1.ok lba
  rw [hs1.disk] at hr2
  have h12 := hs1.trans hs2
  rw [openRawVolume_eq_alt]
  unfold openRawVolumeAlt
  rw [MHoare.get_bind, if_neg (by omega), if_neg (by rw [hnot]; exact Bool.false_ne_true),
    MHoare.bind_ok hr1, hpp]
  rw [MHoare.bind_ok (MHoare.lift_run _ s1)]
  dsimp only
  rw [hsup]
  simp only [Bool.not_true, Bool.false_eq_true, if_false]
  rw [MHoare.bind_ok hr2, hbpb, MHoare.bind_ok (MHoare.lift_run _ s2)]
  rcases hcase with ⟨h16, rfl⟩ | ⟨h32, hinfo⟩
  · rw [h16]
    dsimp only
    rw [MHoare.pure_bind, MHoare.generate_bind, MHoare.modify_bind]
    obtain ⟨f1, f2, f3, f4, f5, f6, f7, f8, f9⟩ := h12.fields
    refine ⟨{ s2 with nextId := (s2.nextId + 1) % 4294967296,
                      vols := s2.vols ++ [{ rawVolume := s2.nextId, idx := idx, vol := v }] }, ?_, ?_,
      h12.disk, h12.wlog, h12.ok⟩
    · rw [f1]; rfl
    · simp only [Mgr.mk.injEq]
      exact ⟨trivial, trivial, by rw [f1], by rw [f2, f1], f3, f4, f5, f6, f7, f8, f9⟩
  · obtain ⟨s3, hr3, hs3⟩ := rdBlock_spec s2 hs2.ok v0.infoLocation
    rw [h12.disk] at hr3
    have h13 := h12.trans hs3
    rw [h32]
    dsimp only
    rw [MHoare.bind_ok (show (rdBlock v0.infoLocation >>= fun info => M.lift (parseVolumeInfo v0 info)) s2 = (.ok v, s3) by
      rw [MHoare.bind_ok hr3, hinfo]; rfl)]
    rw [MHoare.generate_bind, MHoare.modify_bind]
    obtain ⟨f1, f2, f3, f4, f5, f6, f7, f8, f9⟩ := h13.fields
    refine ⟨{ s3 with nextId := (s3.nextId + 1) % 4294967296,
                      vols := s3.vols ++ [{ rawVolume := s3.nextId, idx := idx, vol := v }] }, ?_, ?_,
      h13.disk, h13.wlog, h13.ok⟩
    · rw [f1]; rfl
    · simp only [Mgr.mk.injEq]
      exact ⟨trivial, trivial, by rw [f1], by rw [f2, f1], f3, f4, f5, f6, f7, f8, f9⟩

theorem mountPure_of {mbr : Bytes} {idx : Nat} {fetch : Nat → Bytes} {pt lba nb : Nat} {v0 v : FatVolume}
    (hpp : parsePartition mbr idx = .ok (pt, lba, nb)) (hsup : supportedPartitionType pt = true)
    (hbpb : parseVolumeBpb (fetch lba) lba nb = .ok v0)
    (hcase : (v0.fatType = .fat16 ∧ v = v0) ∨ (v0.fatType = .fat32 ∧ parseVolumeInfo v0 (fetch v0.infoLocation) = .ok v)) :
    mountPure mbr idx fetch = .ok v := by
  unfold mountPure
  rw [hpp]
  simp only [Res.bind_ok]
  rw [hsup]
  simp only [Bool.not_true, Bool.false_eq_true, if_false]
  rw [hbpb]
  simp only [Res.bind_ok]
  rcases hcase with ⟨h16, rfl⟩ | ⟨h32, hinfo⟩
  · rw [h16]; rfl
  · rw [h32]; exact hinfo

theorem parseVolumeBpb_lba {bpb : Bytes} {lba nb : Nat} {v0 : FatVolume} (h : parseVolumeBpb bpb lba nb = .ok v0) :
    v0.lbaStart = lba := by
  rcases C15.createFromBytes_noPanic bpb with ⟨⟨ft, cc⟩, hc⟩ | ⟨e, hc⟩
  · cases ft
    · rw [C15.parseVolumeBpb_fat16 lba nb hc] at h
      split at h
      · cases h
      · cases h; rfl
    · rw [C15.parseVolumeBpb_fat32 lba nb hc] at h
      split at h
      · cases h
      · cases h; rfl
  · simp only [parseVolumeBpb, hc, Res.bind_err] at h
    cases h

theorem parseVolumeInfo_ok {v0 v : FatVolume} {info : Bytes} (h : parseVolumeInfo v0 info = .ok v) :
    ∃ fc nf, Info.parse info = .ok (fc, nf) ∧ v = { v0 with freeClustersCount := fc, nextFreeCluster := nf } := by
  unfold parseVolumeInfo at h
  cases hp : Info.parse info with
  | ok x =>
    obtain ⟨fc, nf⟩ := x
    rw [hp] at h
    simp only [Res.bind_ok, Res.pure_eq, Res.ok.injEq] at h
    exact ⟨fc, nf, rfl, h.symm⟩
  | err e => rw [hp] at h; cases h
  | panic m => rw [hp] at h; cases h
  | diverged => rw [hp] at h; cases h

theorem readU32_congr (p q : Bytes) (off : Nat) (h : ∀ i, off ≤ i → i < off + 4 → p.getD i 0 = q.getD i 0) :
    readU32 p off = readU32 q off :=
  DirFrames.rawFatEntry_congr .fat32 p q off h

/-- The info sector still parses when only its free-count and next-free words change. -/
theorem infoParse_frame (a b : Bytes) (h : ∀ i, i < 488 ∨ 496 ≤ i → b.getD i 0 = a.getD i 0)
    (x : Option Nat × Option Nat) (hp : Info.parse a = .ok x) : ∃ y, Info.parse b = .ok y := by
  rw [C15.infoParse_eq] at hp ⊢
  rw [readU32_congr b a 0 (fun i _ _ => h i (by omega)), readU32_congr b a 484 (fun i _ _ => h i (by omega)),
    readU32_congr b a 508 (fun i _ _ => h i (by omega))]
  split at hp
  · cases hp
  · split at hp
    · cases hp
    · split at hp
      · cases hp
      · rename_i h1 h2 h3
        rw [if_neg h1, if_neg h2, if_neg h3]
        exact ⟨_, rfl⟩

theorem mount_sameGeom (d d' : Disk) (idx : Nat) (v : FatVolume)
    (hm : mountPure (d.get 0) idx d.get = .ok v)
    (h0 : d'.get 0 = d.get 0) (hb : d'.get v.lbaStart = d.get v.lbaStart)
    (hinfo : v.fatType = .fat32 → ∀ i, i < 488 ∨ 496 ≤ i →
      (d'.get v.infoLocation).getD i 0 = (d.get v.infoLocation).getD i 0) :
    ∃ w, mountPure (d'.get 0) idx d'.get = .ok w ∧ SameGeom v w := by
  obtain ⟨pt, lba, nb, v0, hpp, hsup, hbpb, hcase⟩ := mountPure_ok hm
  have hlba0 := parseVolumeBpb_lba hbpb
  rcases hcase with ⟨h16, rfl⟩ | ⟨h32, hpi⟩
  · refine ⟨v, mountPure_of (by rw [h0]; exact hpp) hsup (by rw [← hlba0, hb, hlba0]; exact hbpb) (.inl ⟨h16, rfl⟩),
      SameGeom.refl v⟩
  · obtain ⟨fc, nf, hip, rfl⟩ := parseVolumeInfo_ok hpi
    obtain ⟨⟨fc', nf'⟩, hip'⟩ := infoParse_frame _ _ (hinfo h32) _ hip
    refine ⟨{ v0 with freeClustersCount := fc', nextFreeCluster := nf' },
      mountPure_of (by rw [h0]; exact hpp) hsup (by rw [← hlba0]; rw [← hlba0] at hbpb; rw [hb]; exact hbpb) (.inr ⟨h32, ?_⟩), rfl⟩
    unfold parseVolumeInfo
    rw [hip']
    rfl

/-- Mounting reads three blocks: if `d'` agrees with `d` on block 0, on the boot sector of the
mounted partition and (FAT32) on the info sector, mounting `d'` gives the very same record. -/
theorem mount_frame (d d' : Disk) (idx : Nat) (v : FatVolume)
    (hm : mountPure (d.get 0) idx d.get = .ok v)
    (h0 : d'.get 0 = d.get 0) (hb : d'.get v.lbaStart = d.get v.lbaStart)
    (hinfo : v.fatType = .fat32 → d'.get v.infoLocation = d.get v.infoLocation) :
    mountPure (d'.get 0) idx d'.get = .ok v := by
  obtain ⟨pt, lba, nb, v0, hpp, hsup, hbpb, hcase⟩ := mountPure_ok hm
  have hlba0 := parseVolumeBpb_lba hbpb
  rcases hcase with ⟨h16, rfl⟩ | ⟨h32, hpi⟩
  · exact mountPure_of (by rw [h0]; exact hpp) hsup (by rw [← hlba0, hb, hlba0]; exact hbpb) (.inl ⟨h16, rfl⟩)
  · obtain ⟨fc, nf, _, rfl⟩ := parseVolumeInfo_ok hpi
    refine mountPure_of (by rw [h0]; exact hpp) hsup (by rw [← hlba0]; rw [← hlba0] at hbpb; rw [hb]; exact hbpb)
      (.inr ⟨h32, ?_⟩)
    rw [hinfo h32]
    exact hpi

/-! ### A flush does not change what mounting reads -/

theorem region_at_or_before_boot (v : FatVolume) (b : Nat) (h : b ≤ v.lbaStart) :
    regionOf v b = .outside ∨ regionOf v b = .boot := by
  unfold regionOf
  by_cases h1 : b < v.lbaStart ∨ v.lbaStart + v.numBlocks ≤ b
  · rw [if_pos h1]; exact .inl rfl
  · rw [if_neg h1, if_pos (by omega)]; exact .inr rfl

/-- Mounting the medium a flush of `e` left (`d'`) gives the geometry mounting the medium before
the flush (`d`) gave: block 0 and the boot sector are untouched, the info sector keeps its
signatures. -/
theorem mount_after_flush (v : FatVolume) (hg : WFGeom v) (e : DirEntry) (d d' : Disk)
    (hreg : regionOf v e.entryBlock = .data ∨ regionOf v e.entryBlock = .root)
    (hbyte : ∀ b j, ¬ flushPos v e b j → (d'.get b).getD j 0 = (d.get b).getD j 0)
    (hagree : AgreeOff v e.entryBlock d d')
    (idx : Nat) (vm : FatVolume) (hm : mountPure (d.get 0) idx d.get = .ok vm) (hsg : SameGeom vm v) :
    ∃ w, mountPure (d'.get 0) idx d'.get = .ok w ∧ SameGeom v w := by
  have hlow : ∀ b, b ≤ v.lbaStart → d'.get b = d.get b := by
    intro b hb
    have hr := region_at_or_before_boot v b hb
    apply agreeOff_region v hg _ d d' hagree b
    · intro eq
      rw [eq] at hr
      rcases hreg with h | h <;> rw [h] at hr <;> rcases hr with hr | hr <;> cases hr
    · rcases hr with hr | hr <;> rw [hr] <;> intro eq <;> cases eq
  have hlba : vm.lbaStart = v.lbaStart := by obtain ⟨a, b, rfl⟩ := hsg.cases; rfl
  have hinf : vm.infoLocation = v.infoLocation := by obtain ⟨a, b, rfl⟩ := hsg.cases; rfl
  have hft : vm.fatType = v.fatType := by obtain ⟨a, b, rfl⟩ := hsg.cases; rfl
  obtain ⟨w, hw, hsw⟩ := mount_sameGeom d d' idx vm hm (hlow 0 (Nat.zero_le _)) (by rw [hlba]; exact hlow _ (Nat.le_refl _))
    (by
      intro h32 i hi
      rw [hft] at h32
      rw [hinf]
      apply hbyte
      rintro (⟨hpb, _, _⟩ | ⟨_, _, h1, h2⟩)
      · have := FatLens.info_block_in_info_region v hg h32 (fatStart_le_numBlocks v hg)
        rw [hpb] at this
        rcases hreg with h | h <;> rw [h] at this <;> cases this
      · omega)
  exact ⟨w, hw, hsg.symm.trans hsw⟩

/-! ### `open_root_dir` -/

theorem openRootDir_spec (s : Mgr) (vol : Nat) (hroom : s.dirs.length < s.maxDirs) :
    openRootDir vol s = (.ok s.nextId, { s with
      nextId := (s.nextId + 1) % 4294967296,
      dirs := s.dirs ++ [{ rawDirectory := s.nextId, rawVolume := vol, cluster := Gen.CLUSTER_ROOT_DIR }] }) := by
  unfold openRootDir
  rw [MHoare.generate_bind, MHoare.get_bind]
  dsimp only
  rw [if_neg (by omega)]
  rfl

/-! ### End to end: close, fresh manager, mount, open root, open by name, read -/

/-- The state `open_root_dir k` leaves when the handle counter stands at `k + 1`. -/
def rootOpened (t1 : Mgr) (k : Nat) : Mgr :=
  { t1 with
    nextId := (k + 1 + 1) % 4294967296
    dirs := t1.dirs ++ [{ rawDirectory := k + 1, rawVolume := k, cluster := Gen.CLUSTER_ROOT_DIR }] }

/-- **A flushed file of the root directory is read back after a remount.**

Writer: `s` (`MgrOK`), handle `h` (slot `i`, record `f`, dirty, `FileOK` with chain `cs`) on the
open volume `v` (slot `vi`, `WFGeom`); the volume was mounted from partition `idx` of this medium:
mounting the medium as it is now gives the record's geometry (`hm`, `hsg`).  On the medium before
the close the root directory (`dcs`: its cluster list, ignored for the FAT16 fixed root) is on the
medium, all its clusters are in range, and the file's slot is the first slot before the end marker
matching the file's name; the entry is as the Rust types make it, not a long-name fragment, and its
block is not one of the file's own data blocks.

Then the close succeeds, and on ANY fresh manager `t0` over the resulting medium (no faults,
coherent cache, empty tables with room for one volume, one directory, one file; the handle counter
not about to wrap) the calls `open_raw_volume idx`, `open_root_dir`, `open_file_in_dir … name
ReadOnly` succeed with consecutive handles, write nothing, the reported length is the flushed
length, and a `read` of `n` bytes returns the first `n` bytes of the contents `B` the writer's file
had — all of `B` for `n ≥ B.length`. -/
theorem remount_reads_flushed (s : Mgr) (h i vi : Nat) (f : FileInfo) (v : VolInfo) (cs : List Nat)
    (hs : MgrOK s) (hh : s.files.findIdx? (·.rawFile = h) = some i) (hf : s.files[i]? = some f)
    (hv : s.vols.findIdx? (·.rawVolume = f.rawVolume) = some vi) (hvi : s.vols[vi]? = some v)
    (hg : WFGeom v.vol) (hok : FileOK v.vol s.dev.disk f cs) (hd : f.dirty = true)
    (he : EntryOK f.entry) (hlfn : f.entry.attributes % 16 ≠ 15)
    (hown : ∀ c ∈ cs, ∀ j, j < v.vol.blocksPerCluster → clusterToBlock v.vol c + j ≠ f.entry.entryBlock)
    (dcs : List Nat) (hin : ∀ c ∈ dcs, InRange v.vol c) (hdir : DirOn v.vol s.dev.disk Gen.CLUSTER_ROOT_DIR dcs)
    (hfirst : FirstHit (dirSlotsOf v.vol s.dev.disk Gen.CLUSTER_ROOT_DIR dcs) f.entry.name
      (slotAt s.dev.disk f.entry.entryBlock f.entry.entryOffset))
    (idx : Nat) (vm : FatVolume) (hm : mountPure (s.dev.disk.get 0) idx s.dev.disk.get = .ok vm)
    (hsg : SameGeom vm v.vol) :
    ∃ s1, closeFile h s = (.ok (), s1) ∧
      ∀ (t0 : Mgr) (name : List Nat), MgrOK t0 → t0.dev.disk = s1.dev.disk →
        t0.vols = [] → t0.dirs = [] → t0.files = [] → 0 < t0.maxVols → 0 < t0.maxDirs → 0 < t0.maxFiles →
        t0.nextId + 2 < 4294967296 → Sfn.createFromStr name = .ok f.entry.name →
        ∃ t1 t2 t3, openRawVolume idx t0 = (.ok t0.nextId, t1) ∧
          openRootDir t0.nextId t1 = (.ok (t0.nextId + 1), t2) ∧
          openFileInDir (t0.nextId + 1) name .ReadOnly t2 = (.ok (t0.nextId + 2), t3) ∧
          t3.dev.disk = s1.dev.disk ∧ t3.dev.wlog = t0.dev.wlog ∧
          fileLength (t0.nextId + 2) t3 = (.ok (fileContent v.vol s.dev.disk cs f.entry.size).length, t3) ∧
          ∀ n, ∃ t4, read (t0.nextId + 2) n t3 = (.ok ((fileContent v.vol s.dev.disk cs f.entry.size).take n), t4) ∧
            t4.dev.disk = s1.dev.disk ∧ t4.dev.wlog = t0.dev.wlog ∧
            ((fileContent v.vol s.dev.disk cs f.entry.size).length ≤ n →
              read (t0.nextId + 2) n t3 = (.ok (fileContent v.vol s.dev.disk cs f.entry.size), t4)) := by
  have hst := storable_of_fileOK hg hok he
  obtain ⟨s1', _, hcl', _, hok1, hslot, hbyte, hagree⟩ :=
    closeFile_spec s h i vi f v hs hh hf hv hvi hd (assert_of_fileOK hok) he.off_le he.name_len
  obtain ⟨_, _, hreg, _⟩ := dir_after_flush v.vol hg f.entry s.dev.disk s1'.dev.disk hs.2.2.1 hok1.2.2.1
    hst hlfn hslot hbyte hagree _ dcs hin hdir hfirst
  obtain ⟨w, hmw, hsw⟩ := mount_after_flush v.vol hg f.entry s.dev.disk s1'.dev.disk hreg hbyte hagree idx vm hm hsg
  obtain ⟨s1, hcl, _, hrd⟩ := reopen_reads_flushed_pre s h i vi f v cs hs hh hf hv hvi hg hok hd he hlfn hown
    _ dcs hin hdir hfirst
  have hs1 : s1.dev.disk = s1'.dev.disk := by
    rw [hcl'] at hcl
    have : ({ s1' with files := swapRemove s.files i } : Mgr) = s1 := congrArg Prod.snd hcl
    rw [← this]
  refine ⟨s1, hcl, ?_⟩
  intro t0 name ht0 hdisk hvols hdirs hfiles hmv hmd hmf hid hname
  -- mount
  have hdisk0 : t0.dev.disk = s1'.dev.disk := hdisk.trans hs1
  obtain ⟨t1, hopen1, heq1, hd1, hw1, hok_t1⟩ := openRawVolume_spec t0 idx w ht0 (by rw [hvols]; exact hmv)
    (by rw [hvols]; rfl) (by rw [hdisk0]; exact hmw)
  have ht1_dirs : t1.dirs = [] := by rw [heq1]; exact hdirs
  have ht1_files : t1.files = [] := by rw [heq1]; exact hfiles
  have ht1_vols : t1.vols = [{ rawVolume := t0.nextId, idx := idx, vol := w }] := by rw [heq1, hvols]; rfl
  have ht1_id : t1.nextId = t0.nextId + 1 := by rw [heq1]; show (t0.nextId + 1) % 4294967296 = _; omega
  have ht1_md : t1.maxDirs = t0.maxDirs := by rw [heq1]
  have ht1_mf : t1.maxFiles = t0.maxFiles := by rw [heq1]
  -- root directory
  have hopen2 := openRootDir_spec t1 t0.nextId (by rw [ht1_dirs, ht1_md]; exact hmd)
  rw [ht1_id] at hopen2
  obtain ⟨t2, ht2⟩ : ∃ t2 : Mgr, rootOpened t1 t0.nextId = t2 := ⟨_, rfl⟩
  have hopen2' : openRootDir t0.nextId t1 = (.ok (t0.nextId + 1), t2) := by rw [← ht2]; exact hopen2
  replace hopen2 := hopen2'
  unfold rootOpened at ht2
  have ht2_dirs : t2.dirs = [{ rawDirectory := t0.nextId + 1, rawVolume := t0.nextId, cluster := Gen.CLUSTER_ROOT_DIR }] := by
    rw [← ht2, ht1_dirs]; rfl
  have ht2_files : t2.files = [] := by rw [← ht2]; exact ht1_files
  have ht2_vols : t2.vols = [{ rawVolume := t0.nextId, idx := idx, vol := w }] := by rw [← ht2]; exact ht1_vols
  have ht2_id : t2.nextId = t0.nextId + 2 := by rw [← ht2]; show (t0.nextId + 1 + 1) % 4294967296 = _; omega
  have ht2_mf : t2.maxFiles = t0.maxFiles := by rw [← ht2]; exact ht1_mf
  have ht2_disk : t2.dev.disk = t1.dev.disk := by rw [← ht2]
  have ht2_wlog : t2.dev.wlog = t1.dev.wlog := by rw [← ht2]
  have hok_t2 : MgrOK t2 := by rw [← ht2]; exact hok_t1
  -- the file
  have hctx : DirCtx t2 (t0.nextId + 1) name
      { rawDirectory := t0.nextId + 1, rawVolume := t0.nextId, cluster := Gen.CLUSTER_ROOT_DIR } 0 f.entry.name := by
    refine ⟨⟨0, ?_, ?_⟩, ?_, hname⟩
    · rw [ht2_dirs]; simp
    · rw [ht2_dirs]; rfl
    · rw [ht2_vols]; simp
  obtain ⟨t3, hopen3, hd3, hw3, hlen3, hread3⟩ := hrd t2 (t0.nextId + 1) name _ 0 { rawVolume := t0.nextId, idx := idx, vol := w }
    hok_t2 (by rw [ht2_disk, hd1, hdisk]) hctx rfl (by rw [ht2_vols]; rfl) hsw (by rw [ht2_files, ht2_mf]; exact hmf)
    (by rw [ht2_files]; intro g hg; cases hg) (by unfold fileIsOpen; rw [ht2_files]; rfl)
  rw [ht2_id] at hopen3 hlen3 hread3
  have hd_t2 : t2.dev.disk = s1.dev.disk := by rw [ht2_disk, hd1, hdisk]
  have hw_t2 : t2.dev.wlog = t0.dev.wlog := by rw [ht2_wlog, hw1]
  refine ⟨t1, t2, t3, hopen1, hopen2, hopen3, hd3.trans hd_t2, hw3.trans hw_t2, hlen3, fun n => ?_⟩
  obtain ⟨t4, hr, hd4, hw4, hall⟩ := hread3 n
  exact ⟨t4, hr, hd4.trans hd_t2, hw4.trans hw_t2, hall⟩

end Sdmmc.Lemmas.Reopen
